(* C02 (liveness half), layer 1b: control-plane frame facts of the socket model, for every event of a
   run (segment, dispatch, send, recv, close):
   - [kaf]: the keep-alive interval is never changed, and the timer is either left alone, or not an
     idle timer, or an idle timer whose keep-alive deadline is computed from the configured interval.
     Hence with no keep-alive configured the idle timer never carries a keep-alive deadline ([noka]),
     so that no keep-alive probe is ever built;
   - what `process` replies: addressed back to the sender of the segment; either a RST (only from
     SYN-SENT / SYN-RECEIVED) or an empty ACK numbered SND.NXT / RCV.NXT of the resulting socket;
   - an ESTABLISHED socket that processes a segment without FIN / RST stays ESTABLISHED and keeps
     its address tuple.
   All statements are about Model/Tcp.v only. *)
From SV Require Import Lib.Base Gen.Consts.
From SV Require Import Model.Seq32 Model.Assembler Model.TcpBuf Model.TcpTypes Model.Tcp.
From SV Require Import Proofs.AssemblerProofs Proofs.TcpRecvBase Proofs.TcpRecvWindow
  Proofs.TcpRecvPayload Proofs.TcpRecvInv Proofs.TcpRecvProcess.
From SV Require Proofs.TcpSendBase Proofs.TcpRecvDispatch.
From SV Require Import Proofs.TcpProgressFrame.

(* ---------------------------------------------------------------------------------------- *)
(* the timer and the keep-alive interval                                                     *)
(* ---------------------------------------------------------------------------------------- *)
Definition tkr (ka : option Z) (t' t : timer) : Prop :=
  t' = t \/ timer_is_idle t' = false \/ t' = TIdle None \/ exists n, t' = TIdle (opt_add n ka).

Definition kaf (s' s : socket) : Prop :=
  s_keep_alive s' = s_keep_alive s /\ tkr (s_keep_alive s) (s_timer s') (s_timer s).

Lemma tkr_refl ka t : tkr ka t t.
Proof. left. reflexivity. Qed.

Lemma tkr_trans ka a b c : tkr ka a b -> tkr ka b c -> tkr ka a c.
Proof.
  intros [-> | [H | [H | H]]] H2; [exact H2 | right; left; exact H | right; right; left; exact H | right; right; right; exact H].
Qed.

Lemma kaf_refl s : kaf s s.
Proof. split; [reflexivity | apply tkr_refl]. Qed.

Lemma kaf_trans a b c : kaf a b -> kaf b c -> kaf a c.
Proof.
  intros (A1 & A2) (B1 & B2). split; [congruence|]. rewrite B1 in A2. eapply tkr_trans; eassumption.
Qed.

Ltac tkr_fin :=
  first [ left; reflexivity
        | right; left; reflexivity
        | right; right; left; reflexivity
        | right; right; right; eexists; reflexivity ].

Ltac tkr_solve :=
  unfold tkr, timer_set_for_idle, timer_rewind_keep_alive, timer_set_for_retransmit, timer_set_for_close,
         timer_set_for_zero_window_probe, timer_rewind_zero_window_probe, timer_new;
  first [ tkr_fin
        | match goal with |- context [s_timer ?s] => destruct (s_timer s) end;
          cbv beta iota zeta; cbn [timer_is_idle]; tkr_fin ].

Ltac kaf_solve := unfold kaf; rproj; split; [reflexivity | tkr_solve].

(* no keep-alive deadline *)
Definition noka (t : timer) : Prop := match t with TIdle (Some _) => False | _ => True end.

Lemma kaf_noka s' s : kaf s' s -> s_keep_alive s = None -> noka (s_timer s) -> noka (s_timer s').
Proof.
  intros (_ & [-> | [H | [-> | (n & ->)]]]) Hk Hn; [exact Hn | | exact I | rewrite Hk; exact I].
  destruct (s_timer s') as [[k|]| | | |]; cbn in *; try exact I. discriminate.
Qed.

Lemma noka_not_keep_alive t now : noka t -> timer_should_keep_alive t now = false.
Proof. destruct t as [[k|]| | | |]; cbn; intros H; try reflexivity. contradiction. Qed.

(* ---------------------------------------------------------------------------------------- *)
(* process                                                                                   *)
(* ---------------------------------------------------------------------------------------- *)
Lemma ack_reply_kaf cx s ip r : kaf (fst (tcp_ack_reply cx s ip r)) s.
Proof. unfold tcp_ack_reply. destruct (tcp_reply ip r) as (ip', reply). cbn [fst]. kaf_solve. Qed.

Lemma challenge_kaf cx s ip r : kaf (fst (tcp_challenge_ack_reply cx s ip r)) s.
Proof.
  unfold tcp_challenge_ack_reply. destruct (cx_now cx <? s_challenge_ack_timer s); [apply kaf_refl|].
  destruct (tcp_ack_reply cx (upd_challenge_ack_timer s (cx_now cx + 1000000)) ip r) as (s1, p) eqn:E.
  cbn [fst]. change s1 with (fst (s1, p)). rewrite <- E.
  eapply kaf_trans; [apply ack_reply_kaf|]. kaf_solve.
Qed.

Lemma ack_check_ret_kaf cx s ip r t s1 rep :
  tcp_process_ack_check cx s ip r = Ok (Ret t s1 rep) -> kaf s1 s.
Proof.
  unfold tcp_process_ack_check. intros H. des_all H.
  all: try (apply obind_ok_inv in H; destruct H as (? & _ & H)).
  all: try (inversion H; subst; apply kaf_refl).
  all: match goal with
       | E : tcp_challenge_ack_reply ?cx ?s ?ip ?r = (_, _) |- _ =>
           inversion H; subst;
           pose proof (challenge_kaf cx s ip r) as Hc; rewrite E in Hc; exact Hc
       end.
Qed.

Lemma window_kaf cx s ip r res :
  tcp_process_window cx s ip r = Ok res ->
  match res with
  | Cont _ (s2, _, _) => kaf s2 s
  | Ret _ s1 _ => kaf s1 s
  end.
Proof.
  unfold tcp_process_window. intros H.
  assert (Hmain :
    (let '(in_window, tg) := tcp_segment_in_window (tcp_window_start s) (tcp_window_end s)
                               (r_seq_number r) (seq_add (r_seq_number r) (l_len (r_payload r))) in
      if in_window then
        let overlap_start := seq_max (tcp_window_start s) (r_seq_number r) in
        let overlap_end := seq_min (tcp_window_end s) (seq_add (r_seq_number r) (l_len (r_payload r))) in
        if negb (seq_le overlap_start overlap_end) then Panic else
        let s := upd_local_rx_last_seq s (Some (r_seq_number r)) in
        do a <- seq_sub overlap_start (r_seq_number r);
        do b <- seq_sub overlap_end (r_seq_number r);
        do payload <- slice_range (r_payload r) a b;
        do off <- seq_sub overlap_start (tcp_window_start s);
        Ok (Cont tg (s, payload, off))
      else if control_eqb (r_control r) CRst then Ok (Ret (tg + 1000) s None)
      else
        let s := if tcp_state_eqb (s_state s) TimeWait
                 then upd_timer s (timer_set_for_close (cx_now cx)) else s in
        if (match r_payload r with [] => false | _ => true end)
           && (match r_control r with CNone | CPsh | CFin => true | _ => false end)
        then let '(s', p) := tcp_ack_reply cx s ip r in Ok (Ret (tg + 2000) s' (Some p))
        else let '(s', p) := tcp_challenge_ack_reply cx s ip r in Ok (Ret (tg + 3000) s' p)) = Ok res ->
    match res with
    | Cont _ (s2, _, _) => kaf s2 s
    | Ret _ s1 _ => kaf s1 s
    end).
  { clear H. intros H. cbv zeta in H.
    destruct (tcp_segment_in_window _ _ _ _) as (inw, tg).
    destruct inw.
    - destruct (negb (seq_le _ _)); [discriminate|].
      repeat (apply obind_ok_inv in H; destruct H as (? & _ & H)).
      inversion H; subst res. kaf_solve.
    - destruct (control_eqb (r_control r) CRst); [inversion H; subst res; apply kaf_refl|].
      set (q := if tcp_state_eqb (s_state s) TimeWait
                then upd_timer s (timer_set_for_close (cx_now cx)) else s) in *.
      assert (Hq : kaf q s) by (unfold q; destruct (tcp_state_eqb (s_state s) TimeWait); kaf_solve).
      clearbody q.
      destruct ((match r_payload r with [] => false | _ => true end)
                && (match r_control r with CNone | CPsh | CFin => true | _ => false end)).
      + pose proof (ack_reply_kaf cx q ip r) as C. destruct (tcp_ack_reply cx q ip r) as (s', p).
        inversion H; subst res. eapply kaf_trans; eassumption.
      + pose proof (challenge_kaf cx q ip r) as C.
        destruct (tcp_challenge_ack_reply cx q ip r) as (s', p).
        inversion H; subst res. eapply kaf_trans; eassumption. }
  destruct (s_state s); try exact (Hmain H); inversion H; subst res; apply kaf_refl.
Qed.

Lemma apply_mss_kaf s r : kaf (tcp_apply_mss s r) s.
Proof.
  unfold tcp_apply_mss. destruct (r_max_seg_size r) as [m|]; [destruct (m =? 0)|]; kaf_solve.
Qed.

Lemma reset_kaf s : kaf (tcp_reset s) s.
Proof. unfold tcp_reset. kaf_solve. Qed.

Lemma relisten_kaf s ep : kaf (tcp_set_state (upd_listen_endpoint (tcp_reset s) ep) Listen) s.
Proof.
  pose proof (reset_kaf s) as H. revert H. generalize (tcp_reset s). intros q (H1 & H2).
  unfold kaf. rproj. split; assumption.
Qed.

Lemma transition_kaf cx s ip r ctl al aof res :
  tcp_process_transition cx s ip r ctl al aof = Ok res ->
  match res with Cont _ s3 => kaf s3 s | Ret _ s3 _ => kaf s3 s end.
Proof.
  intros H. unfold tcp_process_transition in H.
  pose proof (challenge_kaf cx s ip r) as Hch.
  pose proof (apply_mss_kaf s r) as Hm.
  destruct (s_state s) eqn:Est; destruct ctl; cbv beta iota in H.
  (* the SYN arms of LISTEN and SYN-SENT go through apply_mss: abstract it first *)
  all: try (revert H Hm; generalize (tcp_apply_mss s r); intros q H Hm;
            match type of H with context [upd_tuple q] => idtac | context [upd_remote_seq_no q] => idtac end;
            repeat match type of H with context [if ?c then _ else _] => destruct c end;
            inversion H; subst res; (eapply kaf_trans; [|exact Hm]); kaf_solve).
  all: unfold tcp_enter_time_wait, tcp_fin_received in H.
  all: repeat match type of H with
              | context [if ?c then _ else _] => destruct c
              | (let '(_, _) := ?m in _) = _ => destruct m eqn:?
              end.
  all: try discriminate H.
  all: inversion H; subst res; clear H.
  all: try apply kaf_refl.
  all: try (apply relisten_kaf).
  all: try kaf_solve.
  all: try (cbn [fst] in Hch; exact Hch).
Qed.

Lemma update_remote_kaf cx s r al s' iwu :
  tcp_process_update_remote cx s r al = Ok (s', iwu) -> kaf s' s.
Proof.
  unfold tcp_process_update_remote. intros H. des_all H.
  all: try (apply obind_ok_inv in H; destruct H as (tx & _ & H)).
  all: inversion H; subst; kaf_solve.
Qed.

Lemma dup_ack_kaf cx s r al iwu s' tg :
  tcp_process_dup_ack cx s r al iwu = Ok (s', tg) -> kaf s' s.
Proof.
  unfold tcp_process_dup_ack. intros H.
  destruct (r_ack_number r) as [a|]; [|inversion H; subst; apply kaf_refl].
  apply obind_ok_inv in H. destruct H as ((s1, tg1) & H1 & H).
  assert (Hf1 : kaf s1 s).
  { des1 H1.
    - repeat (apply obind_ok_inv in H1; destruct H1 as (? & _ & H1)).
      inversion H1; subst. des_all H1; kaf_solve.
    - repeat (apply obind_ok_inv in H1; destruct H1 as (? & _ & H1)).
      inversion H1; subst. des_all H1; kaf_solve. }
  cbv beta iota zeta in H.
  eapply kaf_trans; [|exact Hf1].
  des_all H; inversion H; subst; kaf_solve.
Qed.

Lemma timers_kaf cx s al aall : kaf (fst (tcp_process_timers cx s al aall)) s.
Proof.
  unfold tcp_process_timers. destruct (s_timer s) eqn:Et; try destruct aall; try destruct (al >? 0);
    cbn [fst]; unfold kaf; rproj; (split; [reflexivity|]); rewrite ?Et; tkr_solve.
Qed.

Lemma zwp_kaf cx s al : kaf (fst (tcp_process_zwp cx s al)) s.
Proof.
  unfold tcp_process_zwp.
  repeat match goal with
  | |- context [if ?c then _ else _] => destruct c
  end; cbn [fst]; kaf_solve.
Qed.

Lemma tsval_kaf s r :
  kaf (match r_timestamp r with Some (tsval, _) => upd_last_remote_tsval s tsval | None => s end) s.
Proof. destruct (r_timestamp r) as [(a, b)|]; kaf_solve. Qed.

Lemma payload_kaf cx s ip r payload off s' rep tg :
  tcp_process_payload cx s ip r payload off = Ok (s', rep, tg) -> kaf s' s.
Proof.
  intros H. unfold tcp_process_payload in H.
  destruct (l_len payload =? 0); [inversion H; subst; apply kaf_refl|].
  destruct (asm_atrf _ _ _ _) as (asm', res).
  destruct res as [contig|]; [|inversion H; subst; apply kaf_refl].
  destruct (rb_write_unallocated _ _ _) as (rx, lw).
  destruct (negb (lw =? l_len payload)); [discriminate|].
  apply obind_ok_inv in H. destruct H as (rx2 & _ & H).
  set (q := upd_rx_buffer (upd_assembler s asm') rx2) in *.
  assert (Cq : kaf q s) by (unfold q; kaf_solve).
  clearbody q.
  match type of H with (let '(_, _) := ?m in _) = _ =>
    assert (Cm : kaf (fst m) q); [|destruct m as (q1, t1)] end.
  { destruct (s_ack_delay q) as [d|]; [|apply kaf_refl].
    destruct (tcp_ack_to_transmit q); [|apply kaf_refl].
    destruct (s_ack_delay_timer q); cbn [fst]; try apply kaf_refl; try kaf_solve.
    destruct (tcp_immediate_ack_to_transmit q); cbn [fst]; [kaf_solve | apply kaf_refl]. }
  cbn [fst] in Cm.
  pose proof (kaf_trans _ _ _ Cm Cq) as Hq1.
  destruct (negb (asm_is_empty (s_assembler q1)) || negb (asm_is_empty (s_assembler s))).
  - pose proof (ack_reply_kaf cx q1 ip r) as Ca. destruct (tcp_ack_reply cx q1 ip r) as (q2, p).
    inversion H; subst s' rep tg. cbn [fst] in Ca. eapply kaf_trans; eassumption.
  - inversion H; subst s' rep tg. exact Hq1.
Qed.

Lemma process_kaf cx s ip r s' rep tags :
  tcp_process cx s ip r = Ok (s', rep, tags) -> kaf s' s.
Proof.
  intros H. unfold tcp_process in H.
  destruct (negb (tcp_accepts s ip r)); [discriminate|].
  apply obind_ok_inv in H. destruct H as (p1 & H1 & H).
  destruct p1 as [t1 []|t1 s1 rep1].
  2:{ inversion H; subst. exact (ack_check_ret_kaf _ _ _ _ _ _ _ H1). }
  apply obind_ok_inv in H. destruct H as (p2 & H2 & H).
  pose proof (window_kaf _ _ _ _ _ H2) as P2.
  destruct p2 as [t2 ((s2, payload), off)|t2 s2r rep2].
  2:{ inversion H; subst. exact P2. }
  apply obind_ok_inv in H. destruct H as (((al & aof) & aall) & _ & H).
  apply obind_ok_inv in H. destruct H as (p3 & H3 & H).
  pose proof (transition_kaf _ _ _ _ _ _ _ _ H3) as P3.
  destruct p3 as [t3 s3|t3 s3r rep3].
  2:{ inversion H; subst. eapply kaf_trans; eassumption. }
  apply obind_ok_inv in H. destruct H as ((s4 & wu) & H4 & H).
  pose proof (update_remote_kaf _ _ _ _ _ _ H4) as P4.
  apply obind_ok_inv in H. destruct H as ((s5 & t5) & H5 & H).
  pose proof (dup_ack_kaf _ _ _ _ _ _ _ H5) as P5.
  pose proof (tsval_kaf s5 r) as P5'.
  set (q5 := match r_timestamp r with
             | Some (tsval, _) => upd_last_remote_tsval s5 tsval
             | None => s5
             end) in *. clearbody q5.
  pose proof (timers_kaf cx q5 al aall) as P6.
  destruct (tcp_process_timers cx q5 al aall) as (s6, t6). cbn [fst] in P6.
  pose proof (zwp_kaf cx s6 al) as P7.
  destruct (tcp_process_zwp cx s6 al) as (s7, t7). cbn [fst] in P7.
  apply obind_ok_inv in H. destruct H as (((s8 & rep8) & t8) & H8 & H).
  pose proof (payload_kaf _ _ _ _ _ _ _ _ _ H8) as P8.
  inversion H; subst s' rep tags.
  eapply kaf_trans; [exact P8|]. eapply kaf_trans; [exact P7|]. eapply kaf_trans; [exact P6|].
  eapply kaf_trans; [exact P5'|]. eapply kaf_trans; [exact P5|]. eapply kaf_trans; [exact P4|].
  eapply kaf_trans; [exact P3 | exact P2].
Qed.

Lemma ingress_kaf cx s ip r s' rep tags :
  iface_tcp_ingress cx s ip r = Ok (s', rep, tags) -> kaf s' s.
Proof.
  unfold iface_tcp_ingress. intros H.
  destruct ((ip_src ip =? 0) || (ip_dst ip =? 0)); [inversion H; subst; apply kaf_refl|].
  destruct ((r_src_port r =? 0) || (r_dst_port r =? 0)); [inversion H; subst; apply kaf_refl|].
  destruct (tcp_accepts s ip r); [apply (process_kaf _ _ _ _ _ _ _ H)|].
  destruct (control_eqb (r_control r) CRst); [inversion H; subst; apply kaf_refl|].
  apply obind_ok_inv in H. destruct H as (p & _ & H). inversion H; subst. apply kaf_refl.
Qed.

(* ---------------------------------------------------------------------------------------- *)
(* dispatch                                                                                  *)
(* ---------------------------------------------------------------------------------------- *)
Lemma dispatch_timers_kaf cx s s1 t : tcp_dispatch_timers cx s = Ok (s1, t) -> kaf s1 s.
Proof.
  unfold tcp_dispatch_timers. intros H.
  set (s0 := if is_some (s_remote_last_ts s) then s else upd_remote_last_ts s (Some (cx_now cx))) in *.
  assert (H0 : kaf s0 s) by (unfold s0; destruct (is_some (s_remote_last_ts s)); kaf_solve).
  apply (kaf_trans _ s0); [|exact H0]. clear H0. clearbody s0.
  destruct (tcp_timed_out s0 (cx_now cx)); [inversion H; subst; kaf_solve|].
  destruct (timer_should_retransmit (s_timer s0) (cx_now cx)); [|inversion H; subst; kaf_solve].
  apply obind_ok_inv in H. destruct H as (fl & _ & H).
  destruct (s_timer s0); cbv beta iota zeta in H; rproj; des_all H; inversion H; subst; kaf_solve.
Qed.

Lemma dispatch_decide_kaf cx s s2 go t : tcp_dispatch_decide cx s = Ok (s2, go, t) -> kaf s2 s.
Proof.
  unfold tcp_dispatch_decide. intros H.
  apply obind_ok_inv in H. destruct H as (stt & _ & H).
  destruct stt; [inversion H; subst; kaf_solve|].
  destruct (tcp_ack_to_transmit s && tcp_delayed_ack_expired s (cx_now cx)); [inversion H; subst; kaf_solve|].
  apply obind_ok_inv in H. destruct H as (wtu & _ & H).
  des_all H; inversion H; subst; kaf_solve.
Qed.

Lemma build_data_kaf cx s repr s' orepr zwp tg :
  tcp_dispatch_build_data cx s repr = Ok (s', orepr, zwp, tg) -> kaf s' s.
Proof.
  unfold tcp_dispatch_build_data. intros H.
  apply obind_ok_inv in H. destruct H as (ol & _ & H).
  apply obind_ok_inv in H. destruct H as (lm & _ & H).
  apply obind_ok_inv in H. destruct H as (((((s1 & r1) & off) & zw) & tg1) & H1 & H).
  assert (Hr1 : kaf s1 s).
  { des1 H1.
    - inversion H1; subst. kaf_solve.
    - repeat (apply obind_ok_inv in H1; destruct H1 as (? & _ & H1)). inversion H1; subst. apply kaf_refl. }
  cbv beta iota zeta in H. inversion H; subst. exact Hr1.
Qed.

Lemma dispatch_build_kaf cx s t s' orepr zwp ka tg :
  tcp_dispatch_build cx s t = Ok (s', orepr, zwp, ka, tg) -> kaf s' s.
Proof.
  unfold tcp_dispatch_build. intros H.
  apply obind_ok_inv in H. destruct H as ((((s1 & or1) & zw1) & tg1) & H1 & H).
  assert (Hb : kaf s1 s).
  { destruct (s_state s); try (inversion H1; subst; apply kaf_refl);
      try (apply build_data_kaf in H1; exact H1).
    destruct (s_syn_unacked_in_fin_wait s); [inversion H1; subst; apply kaf_refl|].
    apply build_data_kaf in H1; exact H1. }
  destruct or1 as [repr|]; [|inversion H; subst; exact Hb].
  apply obind_ok_inv in H. destruct H as (repr' & _ & H). inversion H; subst. exact Hb.
Qed.

Lemma dispatch_finish_kaf cx s repr zwp ka : kaf (fst (tcp_dispatch_finish cx s repr zwp ka)) s.
Proof.
  unfold tcp_dispatch_finish.
  destruct zwp; [cbn [fst]; kaf_solve|].
  destruct ka; [cbn [fst]; kaf_solve|].
  repeat match goal with
  | |- context [if ?c then _ else _] => destruct c
  | |- context [let '(_, _) := ?x in _] => destruct x
  end; cbn [fst]; kaf_solve.
Qed.

Lemma dispatch_kaf cx s ok s' res tags :
  tcp_dispatch cx s ok = Ok (s', res, tags) -> kaf s' s.
Proof.
  unfold tcp_dispatch. intros H.
  destruct (s_tuple s) as [t|]; [|inversion H; subst; apply kaf_refl].
  destruct (negb (tu_local_addr t =? cx_addr cx)); [inversion H; subst; apply reset_kaf|].
  apply obind_ok_inv in H. destruct H as ((s1 & t1) & H1 & H).
  pose proof (dispatch_timers_kaf _ _ _ _ H1) as P1.
  apply obind_ok_inv in H. destruct H as (((s2 & go) & t2) & H2 & H).
  pose proof (dispatch_decide_kaf _ _ _ _ _ H2) as P2.
  pose proof (kaf_trans _ _ _ P2 P1) as P12.
  destruct (negb go); [inversion H; subst; exact P12|].
  apply obind_ok_inv in H. destruct H as (((((s3 & orepr) & zwp) & ka) & t3) & H3 & H).
  pose proof (kaf_trans _ _ _ (dispatch_build_kaf _ _ _ _ _ _ _ _ H3) P12) as P3.
  destruct orepr as [repr|]; [|inversion H; subst; exact P3].
  destruct (negb ok); [inversion H; subst; exact P3|].
  pose proof (dispatch_finish_kaf cx s3 repr zwp ka) as F.
  destruct (tcp_dispatch_finish cx s3 repr zwp ka) as (s4, t4). cbn [fst] in F.
  inversion H; subst. eapply kaf_trans; eassumption.
Qed.

(* ---------------------------------------------------------------------------------------- *)
(* every event of a run                                                                      *)
(* ---------------------------------------------------------------------------------------- *)
Lemma send_slice_kaf s data s' n : tcp_send_slice s data = Ok (s', n) -> kaf s' s.
Proof.
  unfold tcp_send_slice. intros H. destruct (negb (tcp_may_send s)); [discriminate|].
  destruct (rb_enqueue_slice (s_tx_buffer s) data) as (tx, size).
  des_all H; inversion H; subst; kaf_solve.
Qed.

Lemma recv_slice_kaf s n s' b : tcp_recv_slice s n = Ok (s', b) -> kaf s' s.
Proof.
  unfold tcp_recv_slice. intros H. apply obind_ok_inv in H. destruct H as (u & _ & H).
  destruct (rb_dequeue_slice (s_rx_buffer s) n) as (rx, bytes). inversion H; subst. kaf_solve.
Qed.

Lemma close_kaf s : kaf (tcp_close s) s.
Proof. unfold tcp_close. destruct (s_state s); kaf_solve. Qed.

Theorem step_kaf cx s ev s' out tags :
  run_ev ev -> tcp_step cx s ev = Ok (s', out, tags) -> kaf s' s.
Proof.
  intros Hev H. destruct ev; try contradiction; cbn [tcp_step] in H.
  - inversion H; subst. apply close_kaf.
  - destruct (tcp_send_slice s data) as [(s1, n)|e|] eqn:E; [| |discriminate]; inversion H; subst.
    + exact (send_slice_kaf _ _ _ _ E).
    + apply kaf_refl.
  - destruct (tcp_recv_slice s n) as [(s1, b)|e|] eqn:E; [| |discriminate]; inversion H; subst.
    + exact (recv_slice_kaf _ _ _ _ E).
    + apply kaf_refl.
  - apply obind_ok_inv in H. destruct H as (((s1 & rep) & tg) & Hi & H). inversion H; subst.
    exact (ingress_kaf _ _ _ _ _ _ _ Hi).
  - apply obind_ok_inv in H. destruct H as (((s1 & res) & tg) & Hd & H). inversion H; subst.
    exact (dispatch_kaf _ _ _ _ _ _ Hd).
Qed.

Theorem step_noka cx s ev s' out tags :
  run_ev ev -> tcp_step cx s ev = Ok (s', out, tags) ->
  s_keep_alive s = None -> noka (s_timer s) -> s_keep_alive s' = None /\ noka (s_timer s').
Proof.
  intros Hev H Hk Hn. pose proof (step_kaf _ _ _ _ _ _ Hev H) as K.
  split; [destruct K as (K1 & _); congruence | exact (kaf_noka _ _ K Hk Hn)].
Qed.

(* ---------------------------------------------------------------------------------------- *)
(* state and address tuple: only the transition table writes them                            *)
(* ---------------------------------------------------------------------------------------- *)
Definition stf (s' s : socket) : Prop :=
  s_state s' = s_state s /\ s_tuple s' = s_tuple s /\
  (s_remote_last_ack s <> None -> s_remote_last_ack s' <> None) /\
  rt_max_seq_sent (s_rtte s') = rt_max_seq_sent (s_rtte s).

Lemma stf_refl s : stf s s.
Proof. split; [reflexivity|]. split; [reflexivity|]. split; [auto | reflexivity]. Qed.
Lemma stf_trans a b c : stf a b -> stf b c -> stf a c.
Proof.
  intros (A1 & A2 & A3 & A4) (B1 & B2 & B3 & B4). split; [congruence|]. split; [congruence|].
  split; [auto | congruence].
Qed.

Ltac stf_solve :=
  unfold stf; rproj; split; [reflexivity|]; split; [reflexivity|];
  split; [first [ intros Hla; exact Hla | intros _; discriminate ] | reflexivity].

Lemma rtte_sample_msx r x r' : rtte_sample r x = Ok r' -> rt_max_seq_sent r' = rt_max_seq_sent r.
Proof.
  unfold rtte_sample. intros H.
  apply obind_ok_inv in H. destruct H as ((sv & rv) & _ & H).
  apply obind_ok_inv in H. destruct H as (m & _ & H).
  apply obind_ok_inv in H. destruct H as (y & _ & H).
  inversion H; subst. reflexivity.
Qed.

Lemma rtte_on_ack_msx r t a r' : rtte_on_ack r t a = Ok r' -> rt_max_seq_sent r' = rt_max_seq_sent r.
Proof.
  unfold rtte_on_ack. intros H. destruct (rt_timestamp r) as [(ts, sq0)|]; [|inversion H; reflexivity].
  destruct (seq_ge a sq0); [|inversion H; reflexivity].
  apply obind_ok_inv in H. destruct H as (r1 & H1 & H). inversion H; subst. cbn [rt_max_seq_sent].
  exact (rtte_sample_msx _ _ _ H1).
Qed.

Lemma ack_reply_stf cx s ip r : stf (fst (tcp_ack_reply cx s ip r)) s.
Proof. unfold tcp_ack_reply. destruct (tcp_reply ip r) as (ip', reply). cbn [fst]. stf_solve. Qed.

Lemma challenge_stf cx s ip r : stf (fst (tcp_challenge_ack_reply cx s ip r)) s.
Proof.
  unfold tcp_challenge_ack_reply. destruct (cx_now cx <? s_challenge_ack_timer s); [apply stf_refl|].
  destruct (tcp_ack_reply cx (upd_challenge_ack_timer s (cx_now cx + 1000000)) ip r) as (s1, p) eqn:E.
  cbn [fst]. change s1 with (fst (s1, p)). rewrite <- E.
  eapply stf_trans; [apply ack_reply_stf|]. stf_solve.
Qed.

Lemma ack_check_ret_stf cx s ip r t s1 rep :
  tcp_process_ack_check cx s ip r = Ok (Ret t s1 rep) -> stf s1 s.
Proof.
  unfold tcp_process_ack_check. intros H. des_all H.
  all: try (apply obind_ok_inv in H; destruct H as (? & _ & H)).
  all: try (inversion H; subst; apply stf_refl).
  all: match goal with
       | E : tcp_challenge_ack_reply ?cx ?s ?ip ?r = (_, _) |- _ =>
           inversion H; subst;
           pose proof (challenge_stf cx s ip r) as Hc; rewrite E in Hc; exact Hc
       end.
Qed.

Lemma window_stf cx s ip r res :
  tcp_process_window cx s ip r = Ok res ->
  match res with
  | Cont _ (s2, _, _) => stf s2 s
  | Ret _ s1 _ => stf s1 s
  end.
Proof.
  unfold tcp_process_window. intros H.
  assert (Hmain :
    (let '(in_window, tg) := tcp_segment_in_window (tcp_window_start s) (tcp_window_end s)
                               (r_seq_number r) (seq_add (r_seq_number r) (l_len (r_payload r))) in
      if in_window then
        let overlap_start := seq_max (tcp_window_start s) (r_seq_number r) in
        let overlap_end := seq_min (tcp_window_end s) (seq_add (r_seq_number r) (l_len (r_payload r))) in
        if negb (seq_le overlap_start overlap_end) then Panic else
        let s := upd_local_rx_last_seq s (Some (r_seq_number r)) in
        do a <- seq_sub overlap_start (r_seq_number r);
        do b <- seq_sub overlap_end (r_seq_number r);
        do payload <- slice_range (r_payload r) a b;
        do off <- seq_sub overlap_start (tcp_window_start s);
        Ok (Cont tg (s, payload, off))
      else if control_eqb (r_control r) CRst then Ok (Ret (tg + 1000) s None)
      else
        let s := if tcp_state_eqb (s_state s) TimeWait
                 then upd_timer s (timer_set_for_close (cx_now cx)) else s in
        if (match r_payload r with [] => false | _ => true end)
           && (match r_control r with CNone | CPsh | CFin => true | _ => false end)
        then let '(s', p) := tcp_ack_reply cx s ip r in Ok (Ret (tg + 2000) s' (Some p))
        else let '(s', p) := tcp_challenge_ack_reply cx s ip r in Ok (Ret (tg + 3000) s' p)) = Ok res ->
    match res with
    | Cont _ (s2, _, _) => stf s2 s
    | Ret _ s1 _ => stf s1 s
    end).
  { clear H. intros H. cbv zeta in H.
    destruct (tcp_segment_in_window _ _ _ _) as (inw, tg).
    destruct inw.
    - destruct (negb (seq_le _ _)); [discriminate|].
      repeat (apply obind_ok_inv in H; destruct H as (? & _ & H)).
      inversion H; subst res. stf_solve.
    - destruct (control_eqb (r_control r) CRst); [inversion H; subst res; apply stf_refl|].
      set (q := if tcp_state_eqb (s_state s) TimeWait
                then upd_timer s (timer_set_for_close (cx_now cx)) else s) in *.
      assert (Hq : stf q s) by (unfold q; destruct (tcp_state_eqb (s_state s) TimeWait); stf_solve).
      clearbody q.
      destruct ((match r_payload r with [] => false | _ => true end)
                && (match r_control r with CNone | CPsh | CFin => true | _ => false end)).
      + pose proof (ack_reply_stf cx q ip r) as C. destruct (tcp_ack_reply cx q ip r) as (s', p).
        inversion H; subst res. eapply stf_trans; eassumption.
      + pose proof (challenge_stf cx q ip r) as C.
        destruct (tcp_challenge_ack_reply cx q ip r) as (s', p).
        inversion H; subst res. eapply stf_trans; eassumption. }
  destruct (s_state s); try exact (Hmain H); inversion H; subst res; apply stf_refl.
Qed.

Lemma update_remote_stf cx s r al s' iwu :
  tcp_process_update_remote cx s r al = Ok (s', iwu) -> stf s' s.
Proof.
  unfold tcp_process_update_remote. intros H. des_all H.
  all: try (apply obind_ok_inv in H; destruct H as (tx & _ & H)).
  all: inversion H; subst; stf_solve.
Qed.

Lemma dup_ack_stf cx s r al iwu s' tg :
  tcp_process_dup_ack cx s r al iwu = Ok (s', tg) -> stf s' s.
Proof.
  unfold tcp_process_dup_ack. intros H.
  destruct (r_ack_number r) as [a|]; [|inversion H; subst; apply stf_refl].
  apply obind_ok_inv in H. destruct H as ((s1, tg1) & H1 & H).
  assert (Hf1 : stf s1 s).
  { des1 H1.
    - repeat (apply obind_ok_inv in H1; destruct H1 as (? & _ & H1)).
      inversion H1; subst. des_all H1; stf_solve.
    - apply obind_ok_inv in H1. destruct H1 as (rt' & Hrt & H1).
      repeat (apply obind_ok_inv in H1; destruct H1 as (? & _ & H1)).
      inversion H1; subst. pose proof (rtte_on_ack_msx _ _ _ _ Hrt) as Hm. revert Hm. rproj. intros Hm.
      des_all H1; unfold stf; rproj; (split; [reflexivity|]; split; [reflexivity|]; split; [auto | exact Hm]). }
  cbv beta iota zeta in H.
  eapply stf_trans; [|exact Hf1].
  des_all H; inversion H; subst; stf_solve.
Qed.

Lemma timers_stf cx s al aall : stf (fst (tcp_process_timers cx s al aall)) s.
Proof.
  unfold tcp_process_timers. destruct (s_timer s); try destruct aall; try destruct (al >? 0);
    cbn [fst]; stf_solve.
Qed.

Lemma zwp_stf cx s al : stf (fst (tcp_process_zwp cx s al)) s.
Proof.
  unfold tcp_process_zwp.
  repeat match goal with
  | |- context [if ?c then _ else _] => destruct c
  end; cbn [fst]; stf_solve.
Qed.

Lemma tsval_stf s r :
  stf (match r_timestamp r with Some (tsval, _) => upd_last_remote_tsval s tsval | None => s end) s.
Proof. destruct (r_timestamp r) as [(a, b)|]; stf_solve. Qed.

Lemma payload_stf cx s ip r payload off s' rep tg :
  tcp_process_payload cx s ip r payload off = Ok (s', rep, tg) -> stf s' s.
Proof.
  intros H. unfold tcp_process_payload in H.
  destruct (l_len payload =? 0); [inversion H; subst; apply stf_refl|].
  destruct (asm_atrf _ _ _ _) as (asm', res).
  destruct res as [contig|]; [|inversion H; subst; apply stf_refl].
  destruct (rb_write_unallocated _ _ _) as (rx, lw).
  destruct (negb (lw =? l_len payload)); [discriminate|].
  apply obind_ok_inv in H. destruct H as (rx2 & _ & H).
  set (q := upd_rx_buffer (upd_assembler s asm') rx2) in *.
  assert (Cq : stf q s) by (unfold q; stf_solve).
  clearbody q.
  match type of H with (let '(_, _) := ?m in _) = _ =>
    assert (Cm : stf (fst m) q); [|destruct m as (q1, t1)] end.
  { destruct (s_ack_delay q) as [d|]; [|apply stf_refl].
    destruct (tcp_ack_to_transmit q); [|apply stf_refl].
    destruct (s_ack_delay_timer q); cbn [fst]; try apply stf_refl; try stf_solve.
    destruct (tcp_immediate_ack_to_transmit q); cbn [fst]; [stf_solve | apply stf_refl]. }
  cbn [fst] in Cm.
  pose proof (stf_trans _ _ _ Cm Cq) as Hq1.
  destruct (negb (asm_is_empty (s_assembler q1)) || negb (asm_is_empty (s_assembler s))).
  - pose proof (ack_reply_stf cx q1 ip r) as Ca. destruct (tcp_ack_reply cx q1 ip r) as (q2, p).
    inversion H; subst s' rep tg. cbn [fst] in Ca. eapply stf_trans; eassumption.
  - inversion H; subst s' rep tg. exact Hq1.
Qed.

(* the transition table on an ESTABLISHED socket, no FIN / RST *)
Lemma quash_not_fin_rst s r :
  r_control r <> CFin -> r_control r <> CRst ->
  tcp_process_quash s r = CNone \/ tcp_process_quash s r = CSyn.
Proof.
  unfold tcp_process_quash, quash_psh. intros Hf Hr.
  destruct (r_control r); try contradiction; cbn [control_eqb andb]; auto.
Qed.

Lemma transition_est cx s ip r c al aof res :
  s_state s = Established -> (c = CNone \/ c = CSyn) ->
  tcp_process_transition cx s ip r c al aof = Ok res ->
  (exists t, res = Cont t s) \/ (exists t, res = Ret t s None).
Proof.
  intros Hst Hc H. unfold tcp_process_transition in H. rewrite Hst in H.
  destruct Hc as [-> | ->]; inversion H; subst; [left | right]; eexists; reflexivity.
Qed.

(* an ESTABLISHED socket processing a segment without FIN / RST stays ESTABLISHED with its tuple *)
Theorem process_est_keeps cx s ip r s' rep tags :
  s_state s = Established -> r_control r <> CFin -> r_control r <> CRst ->
  tcp_process cx s ip r = Ok (s', rep, tags) -> stf s' s.
Proof.
  intros Hst Hf Hr H. unfold tcp_process in H.
  destruct (negb (tcp_accepts s ip r)); [discriminate|].
  apply obind_ok_inv in H. destruct H as (p1 & H1 & H).
  destruct p1 as [t1 []|t1 s1 rep1].
  2:{ inversion H; subst. exact (ack_check_ret_stf _ _ _ _ _ _ _ H1). }
  apply obind_ok_inv in H. destruct H as (p2 & H2 & H).
  pose proof (window_stf _ _ _ _ _ H2) as P2.
  destruct p2 as [t2 ((s2, payload), off)|t2 s2r rep2].
  2:{ inversion H; subst. exact P2. }
  apply obind_ok_inv in H. destruct H as (((al & aof) & aall) & _ & H).
  apply obind_ok_inv in H. destruct H as (p3 & H3 & H).
  assert (Hst2 : s_state s2 = Established) by (destruct P2 as (P2 & _); congruence).
  destruct (transition_est _ _ _ _ _ _ _ _ Hst2 (quash_not_fin_rst s2 r Hf Hr) H3) as [(t3 & ->) | (t3 & ->)].
  2:{ inversion H; subst. exact P2. }
  apply obind_ok_inv in H. destruct H as ((s4 & wu) & H4 & H).
  pose proof (update_remote_stf _ _ _ _ _ _ H4) as P4.
  apply obind_ok_inv in H. destruct H as ((s5 & t5) & H5 & H).
  pose proof (dup_ack_stf _ _ _ _ _ _ _ H5) as P5.
  pose proof (tsval_stf s5 r) as P5'.
  set (q5 := match r_timestamp r with
             | Some (tsval, _) => upd_last_remote_tsval s5 tsval
             | None => s5
             end) in *. clearbody q5.
  pose proof (timers_stf cx q5 al aall) as P6.
  destruct (tcp_process_timers cx q5 al aall) as (s6, t6). cbn [fst] in P6.
  pose proof (zwp_stf cx s6 al) as P7.
  destruct (tcp_process_zwp cx s6 al) as (s7, t7). cbn [fst] in P7.
  apply obind_ok_inv in H. destruct H as (((s8 & rep8) & t8) & H8 & H).
  pose proof (payload_stf _ _ _ _ _ _ _ _ _ H8) as P8.
  inversion H; subst s' rep tags.
  eapply stf_trans; [exact P8|]. eapply stf_trans; [exact P7|]. eapply stf_trans; [exact P6|].
  eapply stf_trans; [exact P5'|]. eapply stf_trans; [exact P5|]. eapply stf_trans; [exact P4 | exact P2].
Qed.

(* ---------------------------------------------------------------------------------------- *)
(* what `process` replies                                                                    *)
(* ---------------------------------------------------------------------------------------- *)
Definition reply_to (ip : ip_repr) (r : tcp_repr) (p : packet) : Prop :=
  ip_src (fst p) = ip_dst ip /\ ip_dst (fst p) = ip_src ip /\
  r_src_port (snd p) = r_dst_port r /\ r_dst_port (snd p) = r_src_port r.

(* an empty ACK numbered with SND.NXT and RCV.NXT of the socket [s'] *)
Definition ack_shape (s' : socket) (p : packet) : Prop :=
  r_control (snd p) = CNone /\ r_payload (snd p) = [] /\
  r_seq_number (snd p) = tcp_send_next_seq s' /\ r_ack_number (snd p) = Some (tcp_window_start s').

Definition reply_shape (ip : ip_repr) (r : tcp_repr) (s s' : socket) (rep : option packet) : Prop :=
  match rep with
  | None => True
  | Some p => reply_to ip r p /\
              ((r_control (snd p) = CRst /\ (s_state s = SynSent \/ s_state s = SynReceived)) \/
               ack_shape s' p)
  end.

(* never a RST *)
Definition reply_ack (ip : ip_repr) (r : tcp_repr) (s' : socket) (rep : option packet) : Prop :=
  match rep with
  | None => True
  | Some p => reply_to ip r p /\ ack_shape s' p
  end.

Lemma reply_ack_shape ip r s s' rep : reply_ack ip r s' rep -> reply_shape ip r s s' rep.
Proof. destruct rep as [p|]; [|auto]. intros (A & B). split; [exact A | right; exact B]. Qed.

Lemma ack_reply_shape cx s ip r s' p :
  tcp_ack_reply cx s ip r = (s', p) -> reply_to ip r p /\ ack_shape s' p.
Proof.
  unfold tcp_ack_reply, tcp_reply, with_payload_len. intros H. inversion H; subst s' p; clear H.
  unfold reply_to, ack_shape, tcp_send_next_seq, tcp_window_start. rproj.
  cbn [fst snd ip_src ip_dst r_src_port r_dst_port r_control r_payload r_seq_number r_ack_number].
  repeat split; reflexivity.
Qed.

Lemma challenge_ack cx s0 ip r s' rep :
  tcp_challenge_ack_reply cx s0 ip r = (s', rep) -> reply_ack ip r s' rep.
Proof.
  unfold tcp_challenge_ack_reply. destruct (cx_now cx <? s_challenge_ack_timer s0).
  - intros H; inversion H; subst. exact I.
  - destruct (tcp_ack_reply cx (upd_challenge_ack_timer s0 (cx_now cx + 1000000)) ip r) as (s1, p) eqn:E.
    intros H; inversion H; subst s' rep; clear H.
    exact (ack_reply_shape _ _ _ _ _ _ E).
Qed.

Lemma challenge_shape cx s0 ip r s s' rep :
  tcp_challenge_ack_reply cx s0 ip r = (s', rep) -> reply_shape ip r s s' rep.
Proof. intros H. apply reply_ack_shape. exact (challenge_ack _ _ _ _ _ _ H). Qed.

Lemma rst_reply_to ip r p : tcp_rst_reply ip r = Ok p -> reply_to ip r p /\ r_control (snd p) = CRst.
Proof.
  unfold tcp_rst_reply, tcp_reply, with_payload_len. destruct (control_eqb (r_control r) CRst); [discriminate|].
  intros H. inversion H; subst p; clear H. unfold reply_to.
  destruct (control_eqb (r_control r) CSyn && negb (is_some (r_ack_number r)));
    cbn [fst snd ip_src ip_dst r_src_port r_dst_port r_control repr_set_ack repr_set_seq repr_set_control];
    repeat split; reflexivity.
Qed.

Lemma ack_check_ret_shape cx s ip r t s1 rep :
  tcp_process_ack_check cx s ip r = Ok (Ret t s1 rep) -> reply_shape ip r s s1 rep.
Proof.
  unfold tcp_process_ack_check. intros H.
  destruct (s_state s) eqn:Est; des_all H.
  all: try (apply obind_ok_inv in H; destruct H as (p & Hp & H); inversion H; subst;
            destruct (rst_reply_to _ _ _ Hp) as (A & B); split; [exact A | left; split; [exact B | auto]]).
  all: try (inversion H; subst; exact I).
  all: match goal with
       | E : tcp_challenge_ack_reply ?cx ?s0 ?ip ?r = (_, _) |- _ =>
           inversion H; subst; exact (challenge_shape _ _ _ _ _ _ _ E)
       end.
Qed.

Lemma window_ret_ack cx s ip r t s1 rep :
  tcp_process_window cx s ip r = Ok (Ret t s1 rep) -> reply_ack ip r s1 rep.
Proof.
  unfold tcp_process_window. intros H.
  destruct (s_state s); try discriminate H.
  all: destruct (tcp_segment_in_window _ _ _ _) as (inw, tg); destruct inw;
    [ destruct (negb (seq_le _ _)); [discriminate|];
      repeat (apply obind_ok_inv in H; destruct H as (? & _ & H)); discriminate | ].
  all: destruct (control_eqb (r_control r) CRst); [inversion H; subst; exact I|].
  all: match type of H with context [tcp_ack_reply ?cx0 ?q ?ip0 ?r0] =>
         destruct ((match r_payload r0 with [] => false | _ => true end)
                   && (match r_control r0 with CNone | CPsh | CFin => true | _ => false end));
         [ destruct (tcp_ack_reply cx0 q ip0 r0) as (s', p) eqn:E; inversion H; subst;
           exact (ack_reply_shape _ _ _ _ _ _ E)
         | destruct (tcp_challenge_ack_reply cx0 q ip0 r0) as (s', p) eqn:E; inversion H; subst;
           exact (challenge_ack _ _ _ _ _ _ E) ]
       end.
Qed.

Lemma window_ret_shape cx s ip r t s1 rep :
  tcp_process_window cx s ip r = Ok (Ret t s1 rep) -> reply_shape ip r s s1 rep.
Proof. intros H. apply reply_ack_shape. exact (window_ret_ack _ _ _ _ _ _ _ H). Qed.

Lemma transition_ret_ack cx s0 ip r c al aof t s1 rep :
  tcp_process_transition cx s0 ip r c al aof = Ok (Ret t s1 rep) -> reply_ack ip r s1 rep.
Proof.
  intros H. unfold tcp_process_transition in H.
  destruct (s_state s0); destruct c; cbv beta iota in H.
  all: unfold tcp_enter_time_wait, tcp_fin_received in H.
  all: repeat match type of H with
              | context [if ?c then _ else _] => destruct c
              end.
  all: try discriminate H.
  all: try (inversion H; subst; exact I).
  all: match type of H with context [tcp_challenge_ack_reply ?cx0 ?q ?ip0 ?r0] =>
         destruct (tcp_challenge_ack_reply cx0 q ip0 r0) as (s', p) eqn:E; inversion H; subst;
         exact (challenge_ack _ _ _ _ _ _ E)
       end.
Qed.

Lemma transition_ret_shape cx s0 ip r c al aof t s1 rep s :
  tcp_process_transition cx s0 ip r c al aof = Ok (Ret t s1 rep) -> reply_shape ip r s s1 rep.
Proof. intros H. apply reply_ack_shape. exact (transition_ret_ack _ _ _ _ _ _ _ _ _ _ H). Qed.

Lemma payload_ack cx s0 ip r payload off s' rep tg :
  tcp_process_payload cx s0 ip r payload off = Ok (s', rep, tg) -> reply_ack ip r s' rep.
Proof.
  intros H. unfold tcp_process_payload in H.
  destruct (l_len payload =? 0); [inversion H; subst; exact I|].
  destruct (asm_atrf _ _ _ _) as (asm', res).
  destruct res as [contig|]; [|inversion H; subst; exact I].
  destruct (rb_write_unallocated _ _ _) as (rx, lw).
  destruct (negb (lw =? l_len payload)); [discriminate|].
  apply obind_ok_inv in H. destruct H as (rx2 & _ & H).
  match type of H with (let '(_, _) := ?m in _) = _ => destruct m as (q1, t1) end.
  destruct (negb (asm_is_empty (s_assembler q1)) || _).
  - destruct (tcp_ack_reply cx q1 ip r) as (q2, p) eqn:E.
    inversion H; subst s' rep tg. exact (ack_reply_shape _ _ _ _ _ _ E).
  - inversion H; subst. exact I.
Qed.

Lemma payload_shape cx s0 ip r payload off s' rep tg s :
  tcp_process_payload cx s0 ip r payload off = Ok (s', rep, tg) -> reply_shape ip r s s' rep.
Proof. intros H. apply reply_ack_shape. exact (payload_ack _ _ _ _ _ _ _ _ _ H). Qed.

Theorem process_reply_shape cx s ip r s' rep tags :
  tcp_process cx s ip r = Ok (s', rep, tags) -> reply_shape ip r s s' rep.
Proof.
  intros H. unfold tcp_process in H.
  destruct (negb (tcp_accepts s ip r)); [discriminate|].
  apply obind_ok_inv in H. destruct H as (p1 & H1 & H).
  destruct p1 as [t1 []|t1 s1 rep1].
  2:{ inversion H; subst. exact (ack_check_ret_shape _ _ _ _ _ _ _ H1). }
  apply obind_ok_inv in H. destruct H as (p2 & H2 & H).
  destruct p2 as [t2 ((s2, payload), off)|t2 s2r rep2].
  2:{ inversion H; subst. exact (window_ret_shape _ _ _ _ _ _ _ H2). }
  apply obind_ok_inv in H. destruct H as (((al & aof) & aall) & _ & H).
  apply obind_ok_inv in H. destruct H as (p3 & H3 & H).
  destruct p3 as [t3 s3|t3 s3r rep3].
  2:{ inversion H; subst. exact (transition_ret_shape _ _ _ _ _ _ _ _ _ _ s H3). }
  apply obind_ok_inv in H. destruct H as ((s4 & wu) & H4 & H).
  apply obind_ok_inv in H. destruct H as ((s5 & t5) & H5 & H).
  destruct (tcp_process_timers cx _ al aall) as (s6, t6).
  destruct (tcp_process_zwp cx s6 al) as (s7, t7).
  apply obind_ok_inv in H. destruct H as (((s8 & rep8) & t8) & H8 & H).
  inversion H; subst s' rep tags.
  exact (payload_shape _ _ _ _ _ _ _ _ _ s H8).
Qed.

(* ---------------------------------------------------------------------------------------- *)
(* what an ESTABLISHED socket transmits                                                      *)
(* ---------------------------------------------------------------------------------------- *)
Lemma dispatch_timers_tup cx s s1 t :
  tcp_dispatch_timers cx s = Ok (s1, t) -> s_tuple s1 = s_tuple s /\ s_tx_buffer s1 = s_tx_buffer s.
Proof.
  unfold tcp_dispatch_timers. intros H.
  set (s0 := if is_some (s_remote_last_ts s) then s else upd_remote_last_ts s (Some (cx_now cx))) in *.
  assert (H0 : s_tuple s0 = s_tuple s /\ s_tx_buffer s0 = s_tx_buffer s)
    by (unfold s0; destruct (is_some (s_remote_last_ts s)); rproj; split; reflexivity).
  destruct H0 as (<- & <-). clearbody s0.
  destruct (tcp_timed_out s0 (cx_now cx)); [inversion H; subst; rproj; split; reflexivity|].
  destruct (timer_should_retransmit (s_timer s0) (cx_now cx)); [|inversion H; subst; split; reflexivity].
  apply obind_ok_inv in H. destruct H as (fl & _ & H).
  destruct (s_timer s0); cbv beta iota zeta in H; rproj; des_all H; inversion H; subst; rproj; split; reflexivity.
Qed.

Lemma dispatch_decide_cases cx s s2 go t :
  tcp_dispatch_decide cx s = Ok (s2, go, t) -> s2 = s \/ (go = false /\ s_state s2 = Closed).
Proof.
  unfold tcp_dispatch_decide. intros H.
  apply obind_ok_inv in H. destruct H as (stt & _ & H).
  destruct stt; [inversion H; subst; left; reflexivity|].
  destruct (tcp_ack_to_transmit s && tcp_delayed_ack_expired s (cx_now cx)); [inversion H; subst; left; reflexivity|].
  apply obind_ok_inv in H. destruct H as (wtu & _ & H).
  des_all H; inversion H; subst; try (left; reflexivity).
  right. rproj. split; reflexivity.
Qed.

(* the view of the sequence-number generator for empty segments *)
Definition nxf (s' s : socket) : Prop :=
  s_remote_last_seq s' = s_remote_last_seq s /\ s_rtte s' = s_rtte s.

Lemma nxf_next s' s : nxf s' s -> tcp_send_next_seq s' = tcp_send_next_seq s.
Proof. intros (A & B). unfold tcp_send_next_seq. rewrite A, B. reflexivity. Qed.

Lemma seq_sub_nonneg a b n : seq_sub a b = Ok n -> 0 <= n.
Proof. unfold seq_sub. destruct (Z.ltb_spec (seq_sdiff a b) 0) as [L | L]; [discriminate|]. intros E; inversion E; lia. Qed.

Lemma get_allocated_empty tx off size :
  TcpSendBase.rb_wf tx -> rb_len tx = 0 -> 0 <= off -> rb_get_allocated tx off size = [].
Proof.
  intros Hwf Hl Ho. destruct (Z.eq_dec off 0) as [-> | Hn].
  - apply TcpSendBase.l_len_zero_nil.
    pose proof (TcpSendBase.rb_get_allocated_spec tx 0 size Hwf ltac:(lia)) as (A & _ & B & _). lia.
  - apply TcpSendBase.rb_get_allocated_beyond. lia.
Qed.

Lemma build_data_est cx s repr s' orepr zwp tg :
  tcp_dispatch_build_data cx s repr = Ok (s', orepr, zwp, tg) ->
  s_state s = Established -> r_control repr = CNone -> r_payload repr = [] ->
  stf s' s /\ nxf s' s /\ s_timer s' = s_timer s /\
  exists repr', orepr = Some repr' /\
    r_src_port repr' = r_src_port repr /\ r_dst_port repr' = r_dst_port repr /\
    (r_control repr' = CNone \/ r_control repr' = CPsh) /\
    (TcpSendBase.rb_wf (s_tx_buffer s) -> rb_len (s_tx_buffer s) = 0 ->
     r_control repr' = CNone /\ r_payload repr' = [] /\ r_seq_number repr' = r_seq_number repr \/
     r_control repr' = CNone /\ r_payload repr' = [] /\ r_seq_number repr' = s_local_seq_no s).
Proof.
  unfold tcp_dispatch_build_data. intros H Hst Hc Hp.
  apply obind_ok_inv in H. destruct H as (ol & _ & H).
  apply obind_ok_inv in H. destruct H as (lm & _ & H).
  apply obind_ok_inv in H. destruct H as (((((s1 & r1) & off) & zw) & tg1) & H1 & H).
  assert (Hr1 : stf s1 s /\ nxf s1 s /\ s_timer s1 = s_timer s /\ s_tx_buffer s1 = s_tx_buffer s /\
                r_src_port r1 = r_src_port repr /\ r_dst_port r1 = r_dst_port repr /\ r_control r1 = CNone /\
                (TcpSendBase.rb_wf (s_tx_buffer s) -> rb_len (s_tx_buffer s) = 0 ->
                 r_payload r1 = [] /\ (r_seq_number r1 = r_seq_number repr \/ r_seq_number r1 = s_local_seq_no s))).
  { des1 H1.
    - inversion H1; subst. unfold stf, nxf. rproj.
      cbn [repr_set_payload repr_set_seq r_src_port r_dst_port r_control r_payload r_seq_number].
      split; [split; [reflexivity|]; split; [reflexivity|]; split; [auto | reflexivity]|]. split; [split; reflexivity|].
      repeat (split; [reflexivity || assumption|]).
      intros Hwf Hl. rewrite Hl. split; [|right; reflexivity].
      apply get_allocated_empty; [exact Hwf | exact Hl | lia].
    - apply obind_ok_inv in H1. destruct H1 as (wl & _ & H1).
      apply obind_ok_inv in H1. destruct H1 as (sz & _ & H1).
      apply obind_ok_inv in H1. destruct H1 as (offs & Hoff & H1).
      inversion H1; subst.
      cbn [repr_set_payload repr_set_seq r_src_port r_dst_port r_control r_payload r_seq_number].
      split; [apply stf_refl|]. split; [split; reflexivity|]. repeat (split; [reflexivity || assumption|]).
      intros Hwf Hl. split; [|left; reflexivity].
      apply get_allocated_empty; [exact Hwf | exact Hl |].
      unfold tcp_flight_size in Hoff. exact (seq_sub_nonneg _ _ _ Hoff). }
  destruct Hr1 as (A1 & A2 & A3 & A4 & A5 & A6 & A7 & A8).
  cbv beta iota zeta in H. inversion H; subst s' orepr zwp tg; clear H.
  split; [exact A1|]. split; [exact A2|]. split; [exact A3|].
  destruct A1 as (A1 & _). rewrite A1, Hst.
  eexists. split; [reflexivity|].
  destruct (off + l_len (r_payload r1) =? rb_len (s_tx_buffer s1)).
  - destruct (r_payload r1) as [|b l] eqn:Ep.
    + split; [exact A5|]. split; [exact A6|]. split; [left; exact A7|].
      intros Hwf Hl. destruct (A8 Hwf Hl) as (_ & [E | E]); [left | right]; auto.
    + cbn [repr_set_control r_src_port r_dst_port r_control r_payload r_seq_number].
      split; [exact A5|]. split; [exact A6|]. split; [right; reflexivity|].
      intros Hwf Hl. destruct (A8 Hwf Hl) as (E & _). discriminate.
  - split; [exact A5|]. split; [exact A6|]. split; [left; exact A7|].
    intros Hwf Hl. destruct (A8 Hwf Hl) as (E & [E2 | E2]); [left | right]; auto.
Qed.

Lemma finish_props cx s repr zwp ka :
  let s4 := fst (tcp_dispatch_finish cx s repr zwp ka) in
  s_state s4 = s_state s /\ (s_state s <> Closed -> s_tuple s4 = s_tuple s) /\
  (repr_segment_len repr = 0 -> nxf s4 s).
Proof.
  cbv zeta. unfold tcp_dispatch_finish.
  destruct zwp; [cbn [fst]; unfold nxf; rproj; repeat split; reflexivity|].
  destruct ka; [cbn [fst]; unfold nxf; rproj; repeat split; reflexivity|].
  destruct (repr_segment_len repr >? 0) eqn:Eg.
  - cbn [andb].
    repeat match goal with
    | |- context [if ?c then _ else _] => destruct c eqn:?
    | |- context [let '(_, _) := ?x in _] => destruct x
    end; cbn [fst]; rproj;
    (split; [reflexivity|]; split; [try reflexivity|intros E; rewrite E in Eg; discriminate]).
    all: intros Hn; exfalso; apply Hn;
      match goal with E : tcp_state_eqb _ Closed = true |- _ => revert E end; rproj;
      destruct (s_state s); cbn; congruence.
  - cbn [andb].
    repeat match goal with
    | |- context [if ?c then _ else _] => destruct c eqn:?
    end; cbn [fst]; unfold nxf; rproj;
    (split; [reflexivity|]; split; [try reflexivity|intros _; split; reflexivity]).
    all: intros Hn; exfalso; apply Hn;
      match goal with E : tcp_state_eqb _ Closed = true |- _ => revert E end; rproj;
      destruct (s_state s); cbn; congruence.
Qed.

Theorem dispatch_est_shape cx s ok s' res tags t :
  s_state s = Established -> s_state s' = Established ->
  s_tuple s = Some t -> tu_local_addr t = cx_addr cx ->
  s_keep_alive s = None -> noka (s_timer s) ->
  tcp_dispatch cx s ok = Ok (s', res, tags) ->
  s_tuple s' = Some t /\
  forall p, res = DSent p ->
    ip_src (fst p) = tu_local_addr t /\ ip_dst (fst p) = tu_remote_addr t /\
    r_src_port (snd p) = tu_local_port t /\ r_dst_port (snd p) = tu_remote_port t /\
    (r_control (snd p) = CNone \/ r_control (snd p) = CPsh) /\
    (TcpSendBase.rb_wf (s_tx_buffer s) -> rb_len (s_tx_buffer s) = 0 ->
     r_control (snd p) = CNone /\ r_payload (snd p) = [] /\ r_seq_number (snd p) = tcp_send_next_seq s').
Proof.
  intros Hst Hst' Htu Haddr Hka Hnk H. unfold tcp_dispatch in H.
  rewrite Htu, Haddr, Z.eqb_refl in H. cbn [negb] in H.
  apply obind_ok_inv in H. destruct H as ((s1 & t1) & H1 & H).
  destruct (dispatch_timers_tup _ _ _ _ H1) as (T1 & X1).
  pose proof (dispatch_timers_kaf _ _ _ _ H1) as K1.
  apply obind_ok_inv in H. destruct H as (((s2 & go) & t2) & H2 & H).
  destruct (dispatch_decide_cases _ _ _ _ _ H2) as [-> | (-> & Hc2)].
  2:{ cbn [negb] in H. inversion H; subst. rewrite Hc2 in Hst'. discriminate. }
  destruct (negb go); [inversion H; subst; split; [congruence | intros p Hp; discriminate]|].
  apply obind_ok_inv in H. destruct H as (((((s3 & orepr) & zwp) & ka) & t3) & H3 & H).
  (* the state at build time is the final one *)
  unfold tcp_dispatch_build in H3.
  apply obind_ok_inv in H3. destruct H3 as ((((sb & ob) & zb) & tb) & Hb & H3).
  set (ts := if s_tsval_generator s1 then Some (cx_tsval cx, s_last_remote_tsval s1) else None) in *.
  set (repr0 := mkRepr (tu_local_port t) (tu_remote_port t) CNone (s_remote_last_seq s1)
                       (Some (tcp_window_start s1)) (tcp_scaled_window s1) None None false no_sack ts []) in *.
  assert (Hs3 : s3 = sb) by (destruct ob; [apply obind_ok_inv in H3; destruct H3 as (? & _ & H3)|]; inversion H3; reflexivity).
  subst sb.
  assert (Hfin : s_state s' = s_state s3 /\ (s_state s3 <> Closed -> s_tuple s' = s_tuple s3)).
  { destruct orepr as [repr|]; [|inversion H; subst; split; [reflexivity | intros; reflexivity]].
    destruct (negb ok); [inversion H; subst; split; [reflexivity | intros; reflexivity]|].
    pose proof (finish_props cx s3 repr zwp ka) as F. cbv zeta in F.
    destruct (tcp_dispatch_finish cx s3 repr zwp ka) as (s4, t4). cbn [fst] in F.
    inversion H; subst. destruct F as (F1 & F2 & _). split; assumption. }
  destruct Hfin as (F1 & F2). rewrite Hst' in F1.
  assert (Est1 : s_state s1 = Established).
  { destruct (s_state s1) eqn:E1; try reflexivity; exfalso.
    all: try (inversion Hb; subst s3; rewrite E1 in F1; discriminate).
    - destruct (s_syn_unacked_in_fin_wait s1); [inversion Hb; subst s3; rewrite E1 in F1; discriminate|].
      pose proof (TcpRecvDispatch.build_data_spec _ _ _ _ _ _ _ Hb eq_refl) as ((_ & Hs) & _). congruence.
    - pose proof (TcpRecvDispatch.build_data_spec _ _ _ _ _ _ _ Hb eq_refl) as ((_ & Hs) & _). congruence.
    - pose proof (TcpRecvDispatch.build_data_spec _ _ _ _ _ _ _ Hb eq_refl) as ((_ & Hs) & _). congruence.
    - pose proof (TcpRecvDispatch.build_data_spec _ _ _ _ _ _ _ Hb eq_refl) as ((_ & Hs) & _). congruence. }
  rewrite Est1 in Hb.
  destruct (build_data_est _ _ _ _ _ _ _ Hb Est1 eq_refl eq_refl)
    as ((B1 & B2 & _ & _) & Bn & Bt & repr1 & -> & P1 & P2 & P3 & P4).
  split.
  { rewrite F2 by (rewrite B1, Est1; discriminate). congruence. }
  intros p Hp.
  (* no keep-alive probe *)
  assert (Hnk3 : timer_should_keep_alive (s_timer s3) (cx_now cx) = false).
  { apply noka_not_keep_alive. rewrite Bt. destruct K1 as (K1a & K1b).
    apply (kaf_noka s1 s); [split; assumption | exact Hka | exact Hnk]. }
  rewrite Hnk3 in H3. cbn [andb] in H3.
  set (repr2 := if repr_is_empty repr1 && control_eqb (r_control repr1) CNone
                then repr_set_seq repr1 (tcp_send_next_seq s3) else repr1) in *.
  assert (R2 : r_src_port repr2 = tu_local_port t /\ r_dst_port repr2 = tu_remote_port t /\
               r_control repr2 = r_control repr1 /\ r_payload repr2 = r_payload repr1 /\
               (r_control repr1 = CNone -> r_payload repr1 = [] -> r_seq_number repr2 = tcp_send_next_seq s3)).
  { unfold repr2. destruct (repr_is_empty repr1 && control_eqb (r_control repr1) CNone) eqn:Ee.
    - cbn [repr_set_seq r_src_port r_dst_port r_control r_payload r_seq_number].
      rewrite P1, P2. unfold repr0. cbn [r_src_port r_dst_port]. repeat split; reflexivity.
    - rewrite P1, P2. unfold repr0. cbn [r_src_port r_dst_port]. repeat (split; [reflexivity|]).
      intros Ec Epl. exfalso. unfold repr_is_empty in Ee. rewrite Epl, Ec in Ee. discriminate. }
  clearbody repr2. destruct R2 as (R2a & R2b & R2c & R2d & R2e).
  assert (Hns : control_eqb (r_control repr2) CSyn = false)
    by (rewrite R2c; destruct P3 as [-> | ->]; reflexivity).
  rewrite Hns in H3. cbn [obind] in H3. inversion H3; subst orepr zwp ka t3; clear H3.
  destruct (negb ok); [inversion H; subst; discriminate|].
  pose proof (finish_props cx s3 repr2 zb false) as F. cbv zeta in F.
  destruct (tcp_dispatch_finish cx s3 repr2 zb false) as (s4, t4). cbn [fst] in F.
  subst res. inversion H; subst s' p tags; clear H.
  unfold with_payload_len. cbn [fst snd ip_src ip_dst].
  split; [symmetry; exact Haddr|].
  repeat (split; [reflexivity || assumption|]).
  split; [rewrite R2c; exact P3|].
  intros Hwf Hl. rewrite <- X1 in Hwf, Hl.
  assert (E : r_control repr1 = CNone /\ r_payload repr1 = []).
  { destruct (P4 Hwf Hl) as [(E1 & E2 & _) | (E1 & E2 & _)]; auto. }
  destruct E as (E1 & E2).
  split; [congruence|]. split; [congruence|].
  rewrite (R2e E1 E2). symmetry. apply nxf_next. destruct F as (_ & _ & F3). apply F3.
  unfold repr_segment_len. rewrite R2d, R2c, E1, E2. reflexivity.
Qed.

Lemma send_slice_stf s data s' n : tcp_send_slice s data = Ok (s', n) -> stf s' s.
Proof.
  unfold tcp_send_slice. intros H. destruct (negb (tcp_may_send s)); [discriminate|].
  destruct (rb_enqueue_slice (s_tx_buffer s) data) as (tx, size).
  des_all H; inversion H; subst; stf_solve.
Qed.

Lemma recv_slice_stf s n s' b : tcp_recv_slice s n = Ok (s', b) -> stf s' s.
Proof.
  unfold tcp_recv_slice. intros H. apply obind_ok_inv in H. destruct H as (u & _ & H).
  destruct (rb_dequeue_slice (s_rx_buffer s) n) as (rx, bytes). inversion H; subst. stf_solve.
Qed.

(* the sequence number of a data-state segment: SND.NXT as kept by the socket, or SND.UNA (fast
   retransmit) *)
Lemma build_data_seq cx s repr s' repr' zwp tg :
  tcp_dispatch_build_data cx s repr = Ok (s', Some repr', zwp, tg) ->
  r_seq_number repr' = r_seq_number repr \/ r_seq_number repr' = s_local_seq_no s.
Proof.
  unfold tcp_dispatch_build_data. intros H.
  apply obind_ok_inv in H. destruct H as (ol & _ & H).
  apply obind_ok_inv in H. destruct H as (lm & _ & H).
  apply obind_ok_inv in H. destruct H as (((((s1 & r1) & off) & zw) & tg1) & H1 & H).
  assert (Hr1 : r_seq_number r1 = r_seq_number repr \/ r_seq_number r1 = s_local_seq_no s).
  { des1 H1.
    - inversion H1; subst. right. reflexivity.
    - repeat (apply obind_ok_inv in H1; destruct H1 as (? & _ & H1)). inversion H1; subst. left. reflexivity. }
  cbv beta iota zeta in H. inversion H; subst; clear H.
  destruct (_ =? _); [|exact Hr1].
  destruct (s_state _); try exact Hr1; try (cbn [repr_set_control r_seq_number]; exact Hr1).
  all: destruct (r_payload r1); cbn [repr_set_control r_seq_number]; exact Hr1.
Qed.
