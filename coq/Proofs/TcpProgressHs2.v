(* C02 (liveness half), layer 1e: socket-level facts for the last leg of the handshake (the client
   is ESTABLISHED, the server still in SYN-RECEIVED):
     process_est_ackeq        an ESTABLISHED socket with nothing in flight that processes a segment
                              without payload acknowledging exactly SND.UNA: SND.UNA / SND.NXT stay,
                              and whatever is replied is an empty ACK
     process_synrecv_inwindow SYN-RECEIVED + a segment that starts at RCV.NXT with the window open (or
                              no payload), acknowledging ISS + 1: the socket becomes ESTABLISHED *)
From SV Require Import Lib.Base Gen.Consts.
From SV Require Import Model.Seq32 Model.Assembler Model.TcpBuf Model.TcpTypes Model.Tcp Model.TcpNet.
From SV Require Import Proofs.TcpSendBase Proofs.TcpLiveBase Proofs.TcpLiveProofs Proofs.TcpLiveMore
  Proofs.TcpLiveProgress.
From SV Require Proofs.TcpRecvBase Proofs.TcpRecvWindow Proofs.TcpRecvInv Proofs.TcpRecvProcess Proofs.TcpRecvDispatch.
From SV Require Import Proofs.TcpProgressFrame Proofs.TcpProgressCtl Proofs.TcpProgressRecv Proofs.TcpProgressSend
  Proofs.TcpProgressHs Proofs.TcpProgressHsD.

Notation p30 := TcpRecvWindow.p30.

(* the ACK check of an ESTABLISHED socket passes an acknowledgement of exactly SND.UNA *)
Lemma ack_check_est_cont cx s ip r :
  s_state s = Established -> r_control r <> CRst -> u32 (s_local_seq_no s) ->
  0 <= rb_len (s_tx_buffer s) < 2 ^ 31 -> r_ack_number r = Some (s_local_seq_no s) ->
  tcp_process_ack_check cx s ip r = Ok (Cont 116 tt).
Proof.
  intros Hst Hc Hu Hl Ha. unfold tcp_process_ack_check. rewrite Hst, Ha.
  unfold tcp_sent_syn, tcp_sent_fin. rewrite Hst. cbn [b2z Z.add].
  rewrite (seq_add_zero _ Hu). change (0 + 0) with 0. rewrite Z.add_0_r.
  change (2 ^ 31) with 2147483648 in Hl.
  set (u := s_local_seq_no s) in *.
  assert (E1 : seq_lt u u = false) by (unfold seq_lt, seq_sdiff; rewrite Z.sub_diag; reflexivity).
  assert (E2 : seq_gt u (seq_add u (rb_len (s_tx_buffer s))) = false).
  { rewrite seq_add_raw.
    assert (E3 : seq_gt (sq (u + 0)) (sq (u + rb_len (s_tx_buffer s))) = false)
      by (rewrite seq_gt_sq by (change (2 ^ 31) with 2147483648; lia); lia).
    rewrite <- (u32_sq_self u Hu) in E3. exact E3. }
  rewrite E1, E2. destruct (r_control r); try reflexivity. contradiction.
Qed.

Lemma ack_len_est_zero s r :
  s_state s = Established -> r_control r <> CRst -> u32 (s_local_seq_no s) ->
  r_ack_number r = Some (s_local_seq_no s) ->
  exists aall, tcp_process_ack_len s r = Ok (0, false, aall).
Proof.
  intros Hst Hc Hu Ha. unfold tcp_process_ack_len. rewrite Ha.
  unfold tcp_sent_syn, tcp_sent_fin. rewrite Hst.
  destruct (control_eqb (r_control r) CRst) eqn:E; [destruct (r_control r); try discriminate; contradiction|].
  cbn [b2z andb]. rewrite (seq_add_zero _ Hu).
  unfold seq_ge, seq_sub. rewrite seq_sdiff_refl. cbn. eexists. reflexivity.
Qed.

(* the window check returns without a reply only with the socket as it was *)
Lemma window_ret_none cx s ip r t s1 :
  s_state s = Established -> r_control r <> CRst ->
  tcp_process_window cx s ip r = Ok (Ret t s1 None) -> s1 = s.
Proof.
  unfold tcp_process_window. intros Hst Hc H. rewrite Hst in H.
  destruct (tcp_segment_in_window _ _ _ _) as (inw, tg). destruct inw.
  - destruct (negb (seq_le _ _)); [discriminate|].
    repeat (apply obind_ok in H; destruct H as (? & _ & H)). discriminate.
  - destruct (control_eqb (r_control r) CRst) eqn:E; [destruct (r_control r); try discriminate; contradiction|].
    cbn [tcp_state_eqb] in H.
    destruct ((match r_payload r with [] => false | _ => true end)
              && (match r_control r with CNone | CPsh | CFin => true | _ => false end)).
    + destruct (tcp_ack_reply cx s ip r) as (s', p). discriminate.
    + unfold tcp_challenge_ack_reply in H. destruct (cx_now cx <? s_challenge_ack_timer s).
      * inversion H. reflexivity.
      * destruct (tcp_ack_reply cx (upd_challenge_ack_timer s (cx_now cx + 1000000)) ip r) as (s', p). discriminate.
Qed.

(* an ESTABLISHED socket processes a segment without payload that acknowledges exactly SND.UNA *)
Theorem process_est_ackeq cx s ip r s' rep tags :
  tcp_live_inv s -> s_state s = Established -> r_control r <> CFin -> r_control r <> CRst ->
  r_payload r = [] -> r_ack_number r = Some (s_local_seq_no s) ->
  rb_len (s_tx_buffer s) < 2 ^ 31 ->
  tcp_process cx s ip r = Ok (s', rep, tags) ->
  s_local_seq_no s' = s_local_seq_no s /\
  (s_remote_last_seq s = s_local_seq_no s -> s_remote_last_seq s' = s_local_seq_no s) /\
  rt_max_seq_sent (s_rtte s') = rt_max_seq_sent (s_rtte s) /\
  s_ack_delay_timer s' = s_ack_delay_timer s /\
  (rep = None -> s_remote_last_ack s' = s_remote_last_ack s) /\
  reply_ack ip r s' rep.
Proof.
  intros Il Hst Hf Hr Hp Ha Hl H.
  pose proof (li_una _ Il) as Hu. pose proof (li_tx _ Il) as (Hl0 & _).
  unfold tcp_process in H. destruct (negb (tcp_accepts s ip r)); [discriminate|].
  rewrite (ack_check_est_cont cx s ip r Hst Hr Hu ltac:(lia) Ha) in H. cbn [obind] in H.
  apply obind_ok in H. destruct H as (p2 & H2 & H).
  pose proof (window_stf _ _ _ _ _ H2) as S2. pose proof (window_cpf _ _ _ _ _ H2) as C2.
  pose proof (window_ws _ _ _ _ _ H2) as W2. pose proof (window_auxf _ _ _ _ _ H2) as X2.
  destruct p2 as [t2 ((s2, payload), off)|t2 s2r rep2].
  2:{ inversion H; subst s2r rep2 tags. destruct S2 as (A1 & A2 & A3 & A4). destruct C2 as (B1 & B2 & B3 & B4).
      destruct X2 as (_ & X2).
      split; [exact B1|]. split; [intros E; rewrite B4; exact E|]. split; [exact A4|]. split; [exact X2|].
      split; [|exact (window_ret_ack _ _ _ _ _ _ _ H2)].
      intros ->. rewrite (window_ret_none _ _ _ _ _ _ Hst Hr H2). reflexivity. }
  destruct S2 as (A1 & A2 & A3 & A4). destruct C2 as (B1 & B2 & B3 & B4).
  destruct W2 as (_ & Wp). specialize (Wp Hp). subst payload. destruct X2 as (_ & X2).
  assert (Hst2 : s_state s2 = Established) by congruence.
  assert (Hla2 : s_remote_last_ack s2 = s_remote_last_ack s).
  { unfold tcp_process_window in H2. rewrite Hst in H2.
    destruct (tcp_segment_in_window _ _ _ _) as (inw, tg). destruct inw.
    - destruct (negb (seq_le _ _)); [discriminate|].
      repeat (apply obind_ok in H2; destruct H2 as (? & _ & H2)). inversion H2; subst. sproj. reflexivity.
    - destruct (control_eqb (r_control r) CRst); [discriminate|]. cbn [tcp_state_eqb] in H2.
      destruct (_ && _); [destruct (tcp_ack_reply cx s ip r); discriminate|].
      destruct (tcp_challenge_ack_reply cx s ip r); discriminate. }
  destruct (ack_len_est_zero s2 r Hst2 Hr ltac:(rewrite B1; exact Hu) ltac:(rewrite B1; exact Ha)) as (aall & Hal).
  rewrite Hal in H. cbn [obind] in H.
  apply obind_ok in H. destruct H as (p3 & H3 & H).
  destruct (transition_est _ _ _ _ _ _ _ _ Hst2 (quash_not_fin_rst s2 r Hf Hr) H3) as [(t3 & ->) | (t3 & ->)].
  2:{ inversion H; subst s' rep tags.
      split; [exact B1|]. split; [intros E; rewrite B4; exact E|]. split; [exact A4|]. split; [exact X2|].
      split; [intros _; exact Hla2 | exact I]. }
  destruct (process_tail cx s2 ip r 0 aall [] off s' rep tags [116; t2; t3] ltac:(lia) H)
    as ((T1 & T2 & T3 & T4) & T5 & _ & T7 & T8 & T9).
  rewrite Ha in T7. destruct T7 as (T7a & T7b). destruct (T8 eq_refl) as (-> & T8b & T8c & T8d).
  split; [exact T7a|].
  split.
  { intros E. rewrite T7b, B4, E. unfold seq_lt. rewrite seq_sdiff_refl. reflexivity. }
  split; [congruence|]. split; [congruence|]. split; [intros _; congruence | exact I].
Qed.

(* SYN-RECEIVED + a segment that starts at RCV.NXT (window open, or no payload) acknowledging
   ISS + 1: ESTABLISHED *)
Theorem process_synrecv_inwindow cx s ip r s' rep tags W :
  s_state s = SynReceived -> (r_control r = CNone \/ r_control r = CPsh) ->
  r_ack_number r = Some (seq_add (s_local_seq_no s) 1) ->
  r_seq_number r = tcp_window_start s ->
  tcp_window_end s = seq_norm (tcp_window_start s + W) -> 0 <= W <= p30 ->
  0 <= l_len (r_payload r) <= p30 -> (0 < W \/ r_payload r = []) ->
  tcp_process cx s ip r = Ok (s', rep, tags) -> s_state s' = Established.
Proof.
  intros Hst Hc Ha Hsq Hwe HW Hlen Hopen H.
  destruct (process_synrecv_ack _ _ _ _ _ _ _ Hst Hc Ha H) as (_ & _ & _ & _ & [(_ & _ & Hin) | (E & _)] & _); [|exact E].
  exfalso. rewrite Hsq, Hwe in Hin.
  pose proof (window_start_range s) as Hws.
  set (ws := tcp_window_start s) in *.
  destruct (Z.eq_dec (l_len (r_payload r)) 0) as [E0 | E0].
  - rewrite E0 in Hin.
    assert (X : fst (tcp_segment_in_window (sq (ws + 0)) (sq (ws + W)) (sq (ws + 0)) (sq (ws + 0))) = true)
      by (apply in_window_empty_sq; unfold p30, TcpRecvWindow.p30 in HW; change (2 ^ 30) with 1073741824; lia).
    assert (E1 : sq (ws + 0) = ws) by (rewrite Z.add_0_r; apply sq_small; change (2 ^ 32) with 4294967296; exact Hws).
    rewrite E1 in X. change (seq_norm (ws + W)) with (sq (ws + W)) in Hin.
    assert (E2 : seq_add ws 0 = ws) by (rewrite seq_add_raw; exact E1).
    rewrite E2 in Hin. congruence.
  - destruct Hopen as [HW0 | Hp]; [|rewrite Hp in E0; cbn in E0; congruence].
    pose proof (in_window_at_start ws W (l_len (r_payload r)) Hws ltac:(lia) ltac:(lia)) as X. congruence.
Qed.
