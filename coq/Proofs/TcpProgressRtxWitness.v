(* C02 (liveness half): NON-VACUITY of syn_established_after_loss (Proofs/TcpProgressHsRtx.v): from
   net_init A's SYN is transmitted and LOST (the prefix); on the fair suffix the retransmission timer
   fires after RTO = 1 s, the SYN goes out again, the handshake completes and the clock runs on for
   100 s: every premise of the theorem holds, and it yields a state inside the suffix in which A is
   ESTABLISHED. *)
From SV Require Import Lib.Base Gen.Consts.
From SV Require Import Model.Seq32 Model.Assembler Model.TcpBuf Model.TcpTypes Model.Tcp Model.TcpNet.
From SV Require Import Proofs.TcpSendBase Proofs.TcpLiveBase Proofs.TcpLiveProofs Proofs.TcpLiveMore
  Proofs.TcpLiveProgress.
From SV Require Import Proofs.TcpNetBase.
From SV Require Proofs.TcpNetInv.
From SV Require Import Proofs.TcpProgressBase Proofs.TcpProgressFrame Proofs.TcpProgressCtl Proofs.TcpProgressRecv
  Proofs.TcpProgressSend Proofs.TcpProgressNet Proofs.TcpProgressData Proofs.TcpProgressAck
  Proofs.TcpProgressAll Proofs.TcpProgressSafe Proofs.TcpProgressExample Proofs.TcpProgressWitness
  Proofs.TcpProgressHsNet Proofs.TcpProgressHsInit Proofs.TcpProgressHsLive Proofs.TcpProgressSafeWitness
  Proofs.TcpProgressHsRtx.

Definition rtx_prefix : list net_event := [NPoll SA true; NDrop SB 0].
Definition rtx_suffix : list net_event :=
  [NTick 1000000; NPoll SA true; NDeliver SB 0; NPoll SB true; NDeliver SA 0; NPoll SA true; NDeliver SB 1;
   NTick 100000000].

Definition script_evb (ev : net_event) : bool :=
  match ev with NClose _ => false | NSend z _ => side_eqb z SA | _ => true end.

Lemma script_evb_sound evs : forallb script_evb evs = true -> Forall (script_ev SA) evs.
Proof.
  induction evs as [|ev r IH]; cbn [forallb]; intros H; [constructor|].
  apply andb_true_iff in H. destruct H as (H1 & H2). constructor; [|exact (IH H2)].
  destruct ev; cbn [script_evb script_ev] in *; try exact I; try discriminate. apply side_eqb_true. exact H1.
Qed.

Definition rtx_check (ca cb : ep_config) (pre suf : list net_event) (Dt Da : Z) : bool :=
  match net_init ca cb with
  | Ok st0 =>
      net_started st0 && forallb script_evb pre &&
      match net_run st0 pre with
      | Ok st =>
          tcp_state_eqb (s_state (net_sock st SA)) SynSent && (0 <=? Dt) && (0 <=? Da) &&
          opts_okb st && fair_runb Dt Da (fa_init Dt Da st) st suf && forallb (app_evb SA) suf &&
          match net_run st suf with
          | Ok st' => (net_now st SA + max_rto_us + 2 * Dt <? net_now st' SA) &&
                      (l_len (ep_written (n_a st')) <? 2147483647) && (l_len (ep_written (n_b st')) <? 2147483647)
          | _ => false
          end
      | _ => false
      end
  | _ => false
  end.

Lemma rtx_package ca cb pre suf Dt Da Dack :
  cfg_good ca -> cfg_good cb -> cfg_plain ca -> cfg_plain cb -> c_addr ca <> 0 ->
  match c_ack_delay cb with Some d => 0 <= d <= Dack | None => True end ->
  rtx_check ca cb pre suf Dt Da = true ->
  exists st0 st st',
    start_ok Dack ca cb st0 /\ net_run st0 pre = Ok st /\ s_state (net_sock st SA) = SynSent /\
    fair_schedule Dt Da st suf /\ net_run st suf = Ok st' /\
    exists p1 p2 st1, suf = p1 ++ p2 /\ net_run st p1 = Ok st1 /\ net_run st1 p2 = Ok st' /\
                      s_state (net_sock st1 SA) = Established.
Proof.
  intros Ga Gb Pa Pb Haddr Hdel H. unfold rtx_check in H.
  destruct (net_init ca cb) as [st0|e|] eqn:Ei; try discriminate.
  apply andb_true_iff in H. destruct H as (H & Hrest).
  apply andb_true_iff in H. destruct H as (Hst & Hsp).
  destruct (net_run st0 pre) as [st|e|] eqn:Ep; try discriminate.
  apply andb_true_iff in Hrest. destruct Hrest as (H & Hend).
  apply andb_true_iff in H. destruct H as (H & Hap).
  apply andb_true_iff in H. destruct H as (H & Hf).
  apply andb_true_iff in H. destruct H as (H & Ho).
  apply andb_true_iff in H. destruct H as (H & Hd2).
  apply andb_true_iff in H. destruct H as (Hsa & Hd1).
  destruct (net_run st suf) as [st'|e|] eqn:Es; try discriminate.
  apply andb_true_iff in Hend. destruct Hend as (Hend & Hwb).
  apply andb_true_iff in Hend. destruct Hend as (Hclk & Hwa).
  apply Z.leb_le in Hd1, Hd2. apply Z.ltb_lt in Hclk, Hwa, Hwb.
  assert (Hstart : start_ok Dack ca cb st0) by (unfold start_ok; auto 10).
  assert (Hfs : fair_schedule Dt Da st suf).
  { split; [lia|]. split; [lia|]. split; [apply opts_okb_sound; exact Ho | apply fair_runb_sound; exact Hf]. }
  destruct (syn_established_after_loss Dt Da Dack ca cb st0 Hstart pre st suf st' Ep (script_evb_sound _ Hsp) Hfs
              (app_evb_sound SA _ Hap) Es ltac:(split; assumption) Hclk)
    as (p1 & p2 & st1 & E & Hp1 & Hp2 & HQ).
  exists st0, st, st'. split; [exact Hstart|]. split; [exact Ep|].
  split; [apply tcp_state_eqb_eq; exact Hsa|]. split; [exact Hfs|]. split; [exact Es|].
  exists p1, p2, st1. auto.
Qed.

Lemma rtx_check_ok : rtx_check ex_cfg_a ex_cfg_b rtx_prefix rtx_suffix 5000 5000 = true.
Proof. vm_compute. reflexivity. Qed.

(* the SYN is lost in the prefix; the theorem applies to the fair suffix *)
Theorem syn_established_after_loss_applies :
  exists st0 st st',
    start_ok 10000 ex_cfg_a ex_cfg_b st0 /\ net_run st0 rtx_prefix = Ok st /\
    s_state (net_sock st SA) = SynSent /\
    fair_schedule 5000 5000 st rtx_suffix /\ net_run st rtx_suffix = Ok st' /\
    exists p1 p2 st1, rtx_suffix = p1 ++ p2 /\ net_run st p1 = Ok st1 /\ net_run st1 p2 = Ok st' /\
                      s_state (net_sock st1 SA) = Established.
Proof.
  destruct ex_cfg_good as (Ga & Gb).
  apply (rtx_package ex_cfg_a ex_cfg_b rtx_prefix rtx_suffix 5000 5000 10000 Ga Gb); try exact rtx_check_ok.
  - split; reflexivity.
  - split; reflexivity.
  - cbn. lia.
  - cbn. unfold tcp_ACK_DELAY_DEFAULT. lia.
Qed.
