(* Lemmas about Model/WireIpv6Opt.v (properties C06, C07): one IPv6 extension-header option and
   the options iterator.

   C06: [v6opt_bytes r] are the explicit octets of a well-formed option; emit produces exactly
   them whatever the buffer held ([v6opt_emit_spec]) and they parse back, also when followed by
   further octets of the option area ([v6opt_parse_bytes]).
   C07: [v6opt_check_len_inv] is what check_len establishes; accessors / parse are total on octet
   strings; the iterator terminates within |data| calls ([v6opt_iter_fuel_suffices]: every
   successful step advances by buffer_len >= 1), never panics, yields well-formed options, stops
   after the first Err, and over a concatenation of emitted options yields exactly these options
   ([v6opt_iter_bytes], used by the hop-by-hop header). *)
From SV Require Import Lib.Base Gen.Consts Gen.WireFields Model.WireBase Model.WireIpv6Opt
  Proofs.WireBaseProofs Proofs.Wire2Kit.

Definition v6opt_bytes (r : v6opt_repr) : list Z :=
  match r with
  | V6OptPad1 => [v6opt_T_PAD1]
  | V6OptPadN l => [v6opt_T_PADN; l] ++ repeat 0 (Z.to_nat l)
  | V6OptRouterAlert k => [v6opt_T_ROUTER_ALERT; wv6opt_DATA_LEN] ++ be_enc2 k
  | V6OptUnknown t l d => [t; l] ++ d
  end.

Lemma v6opt_emit_spec r b : v6opt_wf r = true -> blen b = v6opt_buffer_len r ->
  v6opt_emit r b = Ok (v6opt_bytes r).
Proof.
  intros Hwf Hb. destruct r as [|l|k|t l d]; cbn [v6opt_wf v6opt_buffer_len v6opt_emit v6opt_bytes] in *;
    unfold v6opt_f_DATA in *; cbn [fst snd] in *.
  - apply (blen_length _ 1) in Hb. cells Hb. reflexivity.
  - bsplit. destruct (split_hdr b 2 ltac:(lia)) as (h & t & -> & Hh & Ht). zfold_in Hh. cells Hh.
    unfold v6opt_set_option_type, v6opt_set_data_len, v6opt_zero_data, v6opt_data_len, wb_fill, v6opt_f_DATA.
    zfold. cbn [fst snd]. hstep. hstep. hstep.
    replace (l + 2 - 2) with l by lia.
    apply wb_set_slice_tail; autorewrite with blen in *; zfold. lia. lia. lia.
  - apply (blen_length _ 4) in Hb. cells Hb. reflexivity.
  - bsplit.
    match goal with H : blen d = l |- _ => assert (Hd1 : blen d <= l) by lia; assert (Hd2 : l <= blen d) by lia; clear H end.
    destruct (split_hdr b 2 ltac:(lia)) as (h & t' & -> & Hh & Ht). zfold_in Hh. cells Hh.
    unfold v6opt_set_option_type, v6opt_set_data_len, v6opt_copy_data, v6opt_data_len, wb_set_field, v6opt_f_DATA.
    zfold. cbn [fst snd]. hstep. hstep. rewrite wb_upto_all' by lia. cbn [obind]. hstep.
    apply wb_set_slice_tail; autorewrite with blen in *; zfold; lia.
Qed.

Lemma wb_sub_mid h d rest lo hi : lo = blen h -> hi = blen h + blen d ->
  wb_sub (h ++ d ++ rest) lo hi = Ok d.
Proof.
  intros -> ->. rewrite app_assoc. rewrite wb_sub_app_l by (rewrite blen_app; lia).
  apply wb_sub_tail; reflexivity.
Qed.

Ltac v6opt_consts := unfold v6opt_T_PAD1, v6opt_T_PADN, v6opt_T_ROUTER_ALERT, v6opt_T_RPL in *.

Lemma v6opt_bytes_len r : v6opt_wf r = true -> blen (v6opt_bytes r) = v6opt_buffer_len r.
Proof.
  destruct r as [|l|k|t l d]; cbn [v6opt_wf v6opt_buffer_len v6opt_bytes]; unfold v6opt_f_DATA, be_enc2; cbn [snd];
    intros H; bsplit; autorewrite with blen; zfold; lia.
Qed.

Lemma v6opt_parse_bytes r rest : v6opt_wf r = true -> v6opt_parse (v6opt_bytes r ++ rest) = Ok r.
Proof.
  intros Hwf. pose proof (blen_nonneg rest) as Hr.
  destruct r as [|l|k|t l d]; cbn [v6opt_wf v6opt_bytes] in *;
    unfold v6opt_parse, v6opt_check_len, v6opt_option_type, v6opt_data, v6opt_data_len, wb_field, wb_get_u16,
      v6opt_f_DATA, be_enc2; cbn [fst snd]; bsplit; v6opt_consts;
    rewrite <- ?app_assoc; autorewrite with blen; zfold.
  - zbool. hstep. reflexivity.
  - zbool. hstep. hstep. zbool. reflexivity.
  - cbn [app]. refold_tail rest. zbool. hstep. hstep. hstep. rewrite be_dec_cells2 by lia. zfold. zbool. reflexivity.
  - zbool. hstep. hstep. zbool. cbn [obind].
    rewrite wb_sub_mid by (autorewrite with blen; zfold; lia).
    destruct (t =? 99) eqn:E; bsplit; subst; reflexivity.
Qed.

(* ---------- C07 ---------- *)

Lemma v6opt_check_len_total bs : v6opt_check_len bs <> Panic.
Proof.
  unfold v6opt_check_len, v6opt_option_type, v6opt_f_DATA. cbn [snd]. v6opt_consts. zfold.
  destruct (blen bs <? 1) eqn:E; [discriminate|]. bsplit.
  rewrite wb_get_u8_ok by lia. cbn [obind]. zfold.
  case_if; [discriminate|]. destruct (blen bs =? 1) eqn:E1; [discriminate|]. bsplit.
  rewrite wb_get_u8_ok by lia. cbn [obind]. case_if; discriminate.
Qed.

Lemma v6opt_check_len_inv bs : bytes_ok bs = true -> v6opt_check_len bs = Ok tt ->
  exists t, wb_get_u8 bs 0 = Ok t /\ 0 <= t < 256 /\ 1 <= blen bs /\
    (t = 0 \/ (t <> 0 /\ exists l, wb_get_u8 bs 1 = Ok l /\ 0 <= l < 256 /\ l + 2 <= blen bs)).
Proof.
  intros Hb. unfold v6opt_check_len, v6opt_option_type, v6opt_f_DATA. cbn [snd]. v6opt_consts. zfold.
  destruct (blen bs <? 1) eqn:E; [discriminate|]. bsplit.
  rewrite wb_get_u8_ok by lia. cbn [obind]. zfold.
  pose proof (bytes_ok_byte bs 0 Hb ltac:(lia)) as H0. zfold_in H0.
  eexists; split; [reflexivity|]. split; [assumption|]. split; [lia|].
  destruct (nth 0 bs 0 =? 0) eqn:E0; bsplit; [left; assumption|]. right. split; [assumption|].
  destruct (blen bs =? 1) eqn:E1; [discriminate|]. bsplit.
  rewrite wb_get_u8_ok by lia. cbn [obind].
  pose proof (bytes_ok_byte bs 1 Hb ltac:(lia)) as H1. zfold_in H1.
  rewrite wb_get_u8_ok in H by lia. cbn [obind] in H.
  case_if_in H; [discriminate|]. bsplit. eexists; split; [reflexivity|].
  match goal with H' : _ <= blen bs |- _ => zfold_in H' end. zfold. lia.
Qed.

Lemma v6opt_failure_type_total v : 0 <= v < 256 -> v6opt_failure_type v <> Panic.
Proof.
  intros Hv.
  assert (T : forallb (fun v => negb (is_panic (v6opt_failure_type v))) (ztab 256) = true) by (vm_compute; reflexivity).
  pose proof (tab1 256 _ T v Hv) as P. cbv beta in P. destruct (v6opt_failure_type v); cbn in P; congruence.
Qed.

Lemma v6opt_accessors_safe bs : bytes_ok bs = true -> v6opt_check_len bs = Ok tt ->
  v6opt_option_type bs <> Panic /\
  (forall t, v6opt_option_type bs = Ok t -> v6opt_failure_type t <> Panic) /\
  (v6opt_option_type bs <> Ok v6opt_T_PAD1 -> v6opt_data_len bs <> Panic /\ v6opt_data bs <> Panic).
Proof.
  intros Hb H. destruct (v6opt_check_len_inv bs Hb H) as (t & Ht & Rt & L1 & D).
  unfold v6opt_option_type, v6opt_data, v6opt_data_len, wb_field, v6opt_f_DATA. v6opt_consts. zfold. cbn [fst snd].
  rewrite Ht. split; [discriminate|]. split.
  - intros t' E. injection E as <-. apply v6opt_failure_type_total, Rt.
  - intros Hn. destruct D as [->|(_ & l & Hl & Rl & L)]; [congruence|].
    rewrite Hl. cbn [obind]. split; [discriminate|]. apply wb_sub_nopanic; lia.
Qed.

Lemma v6opt_parse_total bs : bytes_ok bs = true -> v6opt_parse bs <> Panic.
Proof.
  intros Hb. unfold v6opt_parse.
  destruct (v6opt_check_len bs) as [[]| |] eqn:E; cbn [obind]; try discriminate;
    [|exfalso; exact (v6opt_check_len_total bs E)].
  destruct (v6opt_check_len_inv bs Hb E) as (t & Ht & Rt & L1 & D).
  unfold v6opt_option_type, v6opt_data, v6opt_data_len, wb_field, wb_get_u16, v6opt_f_DATA. v6opt_consts. zfold.
  cbn [fst snd]. rewrite Ht. cbn [obind].
  destruct D as [->|(Hn & l & Hl & Rl & L)]; [discriminate|]. zbool. rewrite Hl. cbn [obind].
  pose proof (wb_sub_nopanic bs 2 (l + 2) ltac:(lia) ltac:(lia)) as S.
  destruct (t =? 1); [discriminate|]. destruct (t =? 5).
  - destruct (l =? 2) eqn:E2; [|discriminate]. bsplit.
    pose proof (wb_get_be_nopanic bs 2 (l + 2) 2 ltac:(lia) ltac:(lia) ltac:(lia) ltac:(lia)) as G.
    destruct (wb_get_be bs 2 (l + 2) 2); [discriminate|discriminate|congruence].
  - destruct (wb_sub bs 2 (l + 2)); [|cbn [obind]|congruence]; destruct (t =? 99); discriminate.
Qed.

Lemma v6opt_parse_inv bs r : bytes_ok bs = true -> v6opt_parse bs = Ok r ->
  v6opt_wf r = true /\ 1 <= v6opt_buffer_len r <= blen bs.
Proof.
  intros Hb. unfold v6opt_parse.
  destruct (v6opt_check_len bs) as [[]| |] eqn:E; cbn [obind]; try discriminate.
  destruct (v6opt_check_len_inv bs Hb E) as (t & Ht & Rt & L1 & D).
  unfold v6opt_option_type, v6opt_data, v6opt_data_len, wb_field, wb_get_u16, v6opt_f_DATA. v6opt_consts. zfold.
  cbn [fst snd]. rewrite Ht. cbn [obind].
  destruct D as [->|(Hn & l & Hl & Rl & L)].
  { zfold. intros H; injection H as <-. cbn [v6opt_wf v6opt_buffer_len]. split; [reflexivity | lia]. }
  zbool. rewrite Hl. cbn [obind].
  destruct (wb_sub_ok_len bs 2 (l + 2) ltac:(lia) ltac:(lia)) as (s & Hs & Ls & Bs). specialize (Bs Hb).
  destruct (t =? 1) eqn:T1.
  { intros H; injection H as <-. cbn [v6opt_wf v6opt_buffer_len]. unfold v6opt_f_DATA, is_u8; cbn [snd]. zbool.
    split; [reflexivity | lia]. }
  destruct (t =? 5) eqn:T5.
  { destruct (l =? 2) eqn:E2; [|discriminate]. bsplit. subst l.
    destruct (wb_get_be2_ok bs 2 (2 + 2) ltac:(lia) ltac:(lia) ltac:(lia) Hb) as (v & Hv & Rv & _).
    rewrite Hv. cbn [obind]. intros H; injection H as <-. cbn [v6opt_wf v6opt_buffer_len].
    unfold v6opt_f_DATA, is_u16; cbn [snd]. zfold. zbool. split; [reflexivity | lia]. }
  rewrite Hs. cbn [obind]. bsplit.
  assert (W : forall t', t' = t -> v6opt_wf (V6OptUnknown t' l s) = true /\ 1 <= v6opt_buffer_len (V6OptUnknown t' l s) <= blen bs).
  { intros t' ->. cbn [v6opt_wf v6opt_buffer_len]. unfold v6opt_f_DATA, is_u8; cbn [snd]. v6opt_consts.
    rewrite Bs. zbool. split; [reflexivity | lia]. }
  destruct (t =? 99) eqn:T99; intros H; injection H as <-; apply W; bsplit; lia.
Qed.

(* ---------- C06 theorems ---------- *)

Lemma v6opt_emit_no_panic r b : v6opt_wf r = true -> blen b = v6opt_buffer_len r -> v6opt_emit r b <> Panic.
Proof. intros; rewrite v6opt_emit_spec by assumption; discriminate. Qed.

Lemma v6opt_emit_ignores_old_bytes r b1 b2 : v6opt_wf r = true ->
  blen b1 = v6opt_buffer_len r -> blen b2 = v6opt_buffer_len r -> v6opt_emit r b1 = v6opt_emit r b2.
Proof. intros; rewrite !v6opt_emit_spec by assumption; reflexivity. Qed.

(* the emitted option parses back, whatever follows it in the option area *)
Lemma v6opt_roundtrip r b : v6opt_wf r = true -> blen b = v6opt_buffer_len r ->
  exists bs, v6opt_emit r b = Ok bs /\ blen bs = v6opt_buffer_len r /\ v6opt_parse bs = Ok r /\
             forall rest, v6opt_parse (bs ++ rest) = Ok r.
Proof.
  intros Hwf Hb. exists (v6opt_bytes r). split; [apply v6opt_emit_spec; assumption|].
  split; [apply v6opt_bytes_len; assumption|]. split.
  - rewrite <- (app_nil_r (v6opt_bytes r)). apply v6opt_parse_bytes; assumption.
  - intros rest. apply v6opt_parse_bytes; assumption.
Qed.

Lemma v6opt_parse_wf bs r : bytes_ok bs = true -> v6opt_parse bs = Ok r -> v6opt_wf r = true.
Proof. intros Hb H. apply (v6opt_parse_inv bs r Hb H). Qed.

Lemma v6opt_reparse bs r : bytes_ok bs = true -> v6opt_parse bs = Ok r ->
  v6opt_wf r = true /\
  forall b, blen b = v6opt_buffer_len r ->
    exists bs', v6opt_emit r b = Ok bs' /\ v6opt_parse bs' = Ok r.
Proof.
  intros Hb H. pose proof (v6opt_parse_wf bs r Hb H) as Hwf. split; [assumption|].
  intros b Hlen. destruct (v6opt_roundtrip r b Hwf Hlen) as (bs' & He & _ & Hp & _). eauto.
Qed.

(* ---------- the options iterator ---------- *)

Lemma v6opt_iter_next_inv data pos r : bytes_ok data = true -> 0 <= pos ->
  v6opt_iter_next data pos = Ok r ->
  v6opt_wf r = true /\ 1 <= v6opt_buffer_len r /\ pos + v6opt_buffer_len r <= blen data.
Proof.
  intros Hb Hp H. unfold v6opt_iter_next in H.
  apply obind_ok in H. destruct H as (s & E & H). apply obind_ok in H. destruct H as (u & _ & H).
  pose proof (wb_from_bytes _ _ _ Hb E) as Bs. apply wb_from_inv in E. destruct E as (P & _ & Ls).
  destruct (v6opt_parse_inv s r Bs H) as (W & L). split; [assumption|]. lia.
Qed.

Lemma v6opt_iter_next_total data pos : bytes_ok data = true -> 0 <= pos <= blen data ->
  v6opt_iter_next data pos <> Panic.
Proof.
  intros Hb Hp. unfold v6opt_iter_next. rewrite wb_from_ok by lia. cbn [obind].
  pose proof (bytes_ok_skipn (Z.to_nat pos) data Hb) as Bs.
  apply obind_nopanic; [apply v6opt_check_len_total|]. intros _ _. apply v6opt_parse_total, Bs.
Qed.

(* termination: every successful next() advances pos by buffer_len >= 1, so |data| calls suffice *)
Lemma v6opt_iter_fuel_suffices data : bytes_ok data = true ->
  forall fuel pos k, 0 <= pos -> blen data - pos <= Z.of_nat fuel ->
  v6opt_iter_fuel (fuel + k) data pos = v6opt_iter_fuel fuel data pos.
Proof.
  intros Hb. induction fuel as [|f IH]; intros pos k Hp Hf.
  - cbn [Nat.add v6opt_iter_fuel]. destruct k; [reflexivity|]. cbn [v6opt_iter_fuel]. zbool. reflexivity.
  - cbn [Nat.add v6opt_iter_fuel]. destruct (pos <? blen data) eqn:E; [|reflexivity].
    destruct (v6opt_iter_next data pos) as [r| |] eqn:N; try reflexivity.
    destruct (v6opt_iter_next_inv data pos r Hb Hp N) as (_ & L1 & L2).
    f_equal. apply IH; lia.
Qed.

Lemma v6opt_iter_fuel_enough data k : bytes_ok data = true ->
  v6opt_iter_fuel (length data + k) data 0 = v6opt_iter data.
Proof. intros Hb. apply v6opt_iter_fuel_suffices; [assumption | lia | unfold blen; lia]. Qed.

(* no call of next() panics; every produced option is well-formed *)
Lemma v6opt_iter_fuel_no_panic data : bytes_ok data = true ->
  forall fuel pos, 0 <= pos -> ~ In Panic (v6opt_iter_fuel fuel data pos).
Proof.
  intros Hb. induction fuel as [|f IH]; intros pos Hp; cbn [v6opt_iter_fuel]; [tauto|].
  destruct (pos <? blen data) eqn:E; [|cbn; tauto]. bsplit.
  pose proof (v6opt_iter_next_total data pos Hb ltac:(lia)) as T.
  destruct (v6opt_iter_next data pos) as [r| |] eqn:N; [| |congruence].
  - destruct (v6opt_iter_next_inv data pos r Hb Hp N) as (_ & L1 & L2).
    cbn [In]. intros [H|H]; [discriminate|]. revert H. apply IH. lia.
  - cbn [In]. intros [H|H]; [discriminate | assumption].
Qed.

Lemma v6opt_iter_no_panic data : bytes_ok data = true -> ~ In Panic (v6opt_iter data).
Proof. intros Hb. apply v6opt_iter_fuel_no_panic; [assumption | lia]. Qed.

Lemma v6opt_iter_fuel_wf data : bytes_ok data = true ->
  forall fuel pos r, 0 <= pos -> In (Ok r) (v6opt_iter_fuel fuel data pos) -> v6opt_wf r = true.
Proof.
  intros Hb. induction fuel as [|f IH]; intros pos r Hp; cbn [v6opt_iter_fuel]; [cbn [In]; tauto|].
  destruct (pos <? blen data) eqn:E; [|cbn; tauto].
  destruct (v6opt_iter_next data pos) as [r'| |] eqn:N.
  - destruct (v6opt_iter_next_inv data pos r' Hb Hp N) as (W & L1 & L2).
    cbn [In]. intros [H|H]; [injection H as <-; assumption|]. revert H. apply IH. lia.
  - cbn [In]. intros [H|H]; [discriminate | tauto].
  - cbn [In]. intros [H|H]; [discriminate | tauto].
Qed.

(* after an Err item the iterator is exhausted (hit_error): only the last item can be an Err *)
Lemma v6opt_iter_fuel_err_last fuel data pos pre x post :
  v6opt_iter_fuel fuel data pos = pre ++ x :: post -> post <> [] -> exists r, x = Ok r.
Proof.
  revert pos pre. induction fuel as [|f IH]; intros pos pre; cbn [v6opt_iter_fuel].
  - destruct pre; discriminate.
  - destruct (pos <? blen data); [|destruct pre; discriminate].
    destruct (v6opt_iter_next data pos) as [r| |].
    + destruct pre as [|p pre]; cbn [app]; intros H Hp; injection H as H1 H2.
      * eauto.
      * eapply IH; eassumption.
    + destruct pre as [|p [|q pre]]; cbn [app]; intros H Hp; injection H as H1 H2; subst; congruence.
    + destruct pre as [|p [|q pre]]; cbn [app]; intros H Hp; injection H as H1 H2; subst; congruence.
Qed.

(* the iterator over a concatenation of emitted options yields exactly these options *)
Lemma v6opt_check_len_bytes r rest : v6opt_wf r = true -> v6opt_check_len (v6opt_bytes r ++ rest) = Ok tt.
Proof.
  intros Hwf. pose proof (v6opt_parse_bytes r rest Hwf) as H. unfold v6opt_parse in H.
  apply obind_ok in H. destruct H as ([] & E & _). exact E.
Qed.

Definition v6opt_bytes_list (opts : list v6opt_repr) : list Z := concat (map v6opt_bytes opts).

Lemma v6opt_iter_fuel_bytes opts : forallb v6opt_wf opts = true ->
  forall pre fuel, (length (v6opt_bytes_list opts) <= fuel)%nat ->
  v6opt_iter_fuel fuel (pre ++ v6opt_bytes_list opts) (blen pre) = map Ok opts.
Proof.
  induction opts as [|o os IH]; intros Hwf pre fuel Hf.
  - unfold v6opt_bytes_list. cbn [map concat]. rewrite app_nil_r. destruct fuel; [reflexivity|].
    cbn [v6opt_iter_fuel]. zbool. reflexivity.
  - cbn [forallb] in Hwf. apply andb_prop in Hwf. destruct Hwf as [Wo Wos].
    unfold v6opt_bytes_list in *. cbn [map concat] in *.
    pose proof (v6opt_bytes_len o Wo) as Lo.
    assert (1 <= v6opt_buffer_len o).
    { destruct o; cbn [v6opt_wf v6opt_buffer_len] in *; unfold v6opt_f_DATA; cbn [snd]; bsplit; zfold; lia. }
    rewrite app_length in Hf. destruct fuel as [|f]; [unfold blen in *; lia|].
    cbn [v6opt_iter_fuel]. rewrite !blen_app. pose proof (blen_nonneg (concat (map v6opt_bytes os))). zbool.
    unfold v6opt_iter_next. rewrite wb_from_app_r. cbn [obind].
    rewrite v6opt_check_len_bytes by assumption. cbn [obind]. rewrite v6opt_parse_bytes by assumption.
    f_equal. rewrite <- Lo, <- blen_app, app_assoc. apply IH; [assumption|]. unfold blen in *. lia.
Qed.

Lemma v6opt_iter_bytes opts : forallb v6opt_wf opts = true ->
  v6opt_iter (v6opt_bytes_list opts) = map Ok opts.
Proof.
  intros Hwf. unfold v6opt_iter. apply (v6opt_iter_fuel_bytes opts Hwf [] _ (le_n _)).
Qed.
