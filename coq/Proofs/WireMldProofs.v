(* Lemmas about Model/WireMld.v (properties C06, C07). *)
From SV Require Import Lib.Base Gen.WireFields Model.WireBase Model.WireIcmpv6Hdr Model.WireMld
  Proofs.WireBaseProofs Proofs.Wire2Kit Proofs.WireIcmpv6HdrProofs.

(* ====================== AddressRecord ====================== *)

Lemma mldrec_wf_inv r : mldrec_wf r = true ->
  0 <= mldrec_type r < 256 /\ 0 <= mldrec_aux_len r < 256 /\ 0 <= mldrec_num_srcs r < 65536 /\
  length (mldrec_addr r) = 16%nat /\ bytes_ok (mldrec_addr r) = true /\
  ipv6_addr_is_multicast (mldrec_addr r) = true /\ bytes_ok (mldrec_payload r) = true.
Proof.
  unfold mldrec_wf. intros H. bsplit. repeat split; try lia; try assumption. apply blen_length; assumption.
Qed.

Lemma mldrec_hdr_bytes_len r : length (mldrec_addr r) = 16%nat -> blen (mldrec_hdr_bytes r) = 20.
Proof. intros H. unfold mldrec_hdr_bytes, blen. rewrite !app_length, H. reflexivity. Qed.

Lemma mldrec_emit_spec r b : mldrec_wf r = true -> blen b = mldrec_buffer_len r ->
  mldrec_emit r b = Ok (mldrec_hdr_bytes r).
Proof.
  intros Hwf Hb. apply mldrec_wf_inv in Hwf. destruct Hwf as (_ & _ & _ & Ha & _ & Hm & _).
  destruct r as [t x n a p]; cbn [mldrec_type mldrec_aux_len mldrec_num_srcs mldrec_addr mldrec_payload] in *.
  apply (blen_length _ 20) in Hb. cells Hb. cells Ha.
  unfold mldrec_emit, mldrec_set_mcast_addr; cbn [mldrec_type mldrec_aux_len mldrec_num_srcs mldrec_addr].
  rewrite Hm. reflexivity.
Qed.

Lemma mldrec_emit_frame r h t : blen h = mldrec_buffer_len r ->
  mldrec_emit r (h ++ t) = omap (fun x => x ++ t) (mldrec_emit r h).
Proof.
  intros Hh. unfold mldrec_buffer_len in Hh. zfold_in Hh.
  unfold mldrec_emit, mldrec_set_record_type, mldrec_set_aux_data_len, mldrec_set_num_srcs,
    mldrec_set_mcast_addr, wb_set_field, wb_put_u16.
  frame.
Qed.

Lemma mldrec_emit_no_panic r b : mldrec_wf r = true -> blen b = mldrec_buffer_len r -> mldrec_emit r b <> Panic.
Proof. intros; rewrite mldrec_emit_spec by assumption; discriminate. Qed.

Lemma mldrec_emit_ignores_old_bytes r b1 b2 : mldrec_wf r = true ->
  blen b1 = mldrec_buffer_len r -> blen b2 = mldrec_buffer_len r -> mldrec_emit r b1 = mldrec_emit r b2.
Proof. intros; rewrite !mldrec_emit_spec by assumption; reflexivity. Qed.

Lemma mldrec_parse_bytes r : mldrec_wf r = true ->
  mldrec_parse (mldrec_hdr_bytes r ++ mldrec_payload r) = Ok r.
Proof.
  intros Hwf. apply mldrec_wf_inv in Hwf. destruct Hwf as (_ & _ & Hn & Ha & _ & _ & _).
  destruct r as [t x n a p]; cbn [mldrec_type mldrec_aux_len mldrec_num_srcs mldrec_addr mldrec_payload] in *.
  cells Ha. unfold mldrec_hdr_bytes; cbn [mldrec_type mldrec_aux_len mldrec_num_srcs mldrec_addr].
  unfold be_enc2. cbn [app].
  match goal with |- context [?c0 :: ?c1 :: ?c2 :: ?c3 :: ?c4 :: ?c5 :: ?c6 :: ?c7 :: ?c8 :: ?c9 :: ?c10 ::
      ?c11 :: ?c12 :: ?c13 :: ?c14 :: ?c15 :: ?c16 :: ?c17 :: ?c18 :: ?c19 :: p] =>
    change (c0 :: c1 :: c2 :: c3 :: c4 :: c5 :: c6 :: c7 :: c8 :: c9 :: c10 :: c11 :: c12 :: c13 ::
            c14 :: c15 :: c16 :: c17 :: c18 :: c19 :: p)
      with ([c0; c1; c2; c3; c4; c5; c6; c7; c8; c9; c10; c11; c12; c13; c14; c15; c16; c17; c18; c19] ++ p) end.
  unfold mldrec_parse, mldrec_check_len, mldrec_num_srcs_, mldrec_mcast_addr, mldrec_record_type,
    mldrec_aux_data_len, mldrec_payload_, wb_get_u16, wb_field. zfold.
  pose proof (blen_nonneg p) as Hp. autorewrite with blen. zfold. zbool. cbn [obind].
  hstep. hstep. hstep. hstep. rewrite be_dec_cells2 by lia.
  rewrite wb_from_tail by reflexivity. reflexivity.
Qed.

Lemma mldrec_roundtrip r b : mldrec_wf r = true -> blen b = mldrec_buffer_len r ->
  exists bs, mldrec_emit r b = Ok bs /\ blen bs = mldrec_buffer_len r /\
             mldrec_parse (bs ++ mldrec_payload r) = Ok r.
Proof.
  intros Hwf Hb. exists (mldrec_hdr_bytes r). split; [apply mldrec_emit_spec; assumption|]. split.
  - apply mldrec_hdr_bytes_len. apply mldrec_wf_inv in Hwf. tauto.
  - apply mldrec_parse_bytes; assumption.
Qed.

Lemma mldrec_check_len_inv bs : mldrec_check_len bs = Ok tt -> 20 <= blen bs.
Proof. unfold mldrec_check_len. zfold. case_if; [discriminate|]. bsplit. lia. Qed.

Lemma mldrec_mcast_addr_ok bs : 20 <= blen bs ->
  mldrec_mcast_addr bs = Ok (firstn 16 (skipn 4 bs)) /\ blen (firstn 16 (skipn 4 bs)) = 16.
Proof.
  intros H. unfold mldrec_mcast_addr, wb_field. zfold. rewrite wb_sub_ok by lia. zfold. cbn [obind].
  assert (L : blen (firstn 16 (skipn 4 bs)) = 16).
  { change 16%nat with (Z.to_nat 16). change 4%nat with (Z.to_nat 4).
    rewrite blen_firstn; [lia|]. rewrite blen_skipn; lia. }
  unfold wb_arr. rewrite L. split; reflexivity.
Qed.

Lemma mldrec_accessors_safe bs : mldrec_check_len bs = Ok tt ->
  mldrec_record_type bs <> Panic /\ mldrec_aux_data_len bs <> Panic /\ mldrec_num_srcs_ bs <> Panic /\
  mldrec_mcast_addr bs <> Panic /\ mldrec_payload_ bs <> Panic.
Proof.
  intros H. apply mldrec_check_len_inv in H.
  assert (A1 : mldrec_record_type bs <> Panic) by (apply wb_get_u8_nopanic; zfold; lia).
  assert (A2 : mldrec_aux_data_len bs <> Panic) by (apply wb_get_u8_nopanic; zfold; lia).
  assert (A3 : mldrec_num_srcs_ bs <> Panic) by (apply wb_get_be_nopanic; zfold; lia).
  assert (A4 : mldrec_mcast_addr bs <> Panic) by (destruct (mldrec_mcast_addr_ok bs H) as [-> _]; discriminate).
  assert (A5 : mldrec_payload_ bs <> Panic) by (apply wb_from_nopanic; zfold; lia).
  repeat split; assumption.
Qed.

Lemma mldrec_parse_total bs : mldrec_parse bs <> Panic.
Proof.
  unfold mldrec_parse. destruct (mldrec_check_len bs) as [[]| |] eqn:E; cbn [obind]; try discriminate.
  - destruct (mldrec_accessors_safe bs E) as (A1 & A2 & A3 & A4 & A5). nopanic.
  - revert E. unfold mldrec_check_len. case_if; discriminate.
Qed.

(* a parsed record satisfies the proviso as soon as its address is a multicast address (the
   one thing AddressRecordRepr::parse does not look at and set_mcast_addr asserts) *)
Lemma mldrec_parse_wf bs r : bytes_ok bs = true ->
  mldrec_parse bs = Ok r -> ipv6_addr_is_multicast (mldrec_addr r) = true -> mldrec_wf r = true.
Proof.
  intros Hb H Hm. unfold mldrec_parse in H.
  destruct (mldrec_check_len bs) as [[]| |] eqn:Hc; cbn [obind] in H; try discriminate.
  apply mldrec_check_len_inv in Hc.
  destruct (wb_get_u16_ok' bs wicmpv6_f_RECORD_NUM_SRCS) as (n & Hn & Rn); try (zfold; lia); try assumption.
  destruct (mldrec_mcast_addr_ok bs Hc) as [Ha La].
  unfold mldrec_num_srcs_, mldrec_record_type, mldrec_aux_data_len, mldrec_payload_ in H.
  rewrite Hn, Ha in H. zfold_in H. rewrite !wb_get_u8_ok, wb_from_ok in H by lia.
  zfold_in H. set (a := firstn 16 (skipn 4 bs)) in *. set (p := skipn 20 bs) in *.
  cbn [obind] in H. injection H as <-. cbn [mldrec_addr] in Hm.
  unfold mldrec_wf, is_u8, is_u16, is_arr;
    cbn [mldrec_type mldrec_aux_len mldrec_num_srcs mldrec_addr mldrec_payload].
  pose proof (bytes_ok_byte bs 0 Hb ltac:(lia)) as B0. pose proof (bytes_ok_byte bs 1 Hb ltac:(lia)) as B1.
  zfold_in B0. zfold_in B1.
  assert (Ba : bytes_ok a = true) by (apply bytes_ok_firstn, bytes_ok_skipn, Hb).
  assert (Bp : bytes_ok p = true) by (apply bytes_ok_skipn, Hb).
  rewrite La, Hm, Ba, Bp. zbool. reflexivity.
Qed.

(* ====================== Repr ====================== *)

Definition mld_sqrv (s : bool) (qrv : Z) : Z := if s then Z.lor 8 (Z.land qrv 7) else Z.land qrv 7.

Definition mld_type (r : mld_repr) : Z :=
  match r with MldQuery _ _ _ _ _ _ _ => icmp6h_MLD_QUERY | _ => icmp6h_MLD_REPORT end.

(* octets 4.. of the emitted packet *)
Definition mld_body (r : mld_repr) : list Z :=
  match r with
  | MldQuery c a s q qq n d => be_enc2 c ++ [0; 0] ++ a ++ [mld_sqrv s q; qq] ++ be_enc2 n ++ d
  | MldReport n d => [0; 0] ++ be_enc2 n ++ d
  | MldReportRecords rs =>
      [0; 0] ++ be_enc2 (Z.of_nat (length rs) mod 65536) ++ flat_map mldrec_hdr_bytes rs
  end.

(* MldRepr::emit leaves the checksum octets (k2, k3 = the old contents) to Icmpv6Repr::emit *)
Definition mld_bytes_ck (r : mld_repr) (k2 k3 : Z) : list Z := [mld_type r; 0; k2; k3] ++ mld_body r.

Lemma mld_emit_query_spec c a s q qq n d b :
  mld_wf (MldQuery c a s q qq n d) = true -> blen b = mld_buffer_len (MldQuery c a s q qq n d) ->
  mld_emit (MldQuery c a s q qq n d) b =
  Ok (mld_bytes_ck (MldQuery c a s q qq n d) (nth 2 b 0) (nth 3 b 0)).
Proof.
  intros Hwf Hb. cbn [mld_wf] in Hwf. bsplit. cbn [mld_buffer_len] in Hb. zfold_in Hb.
  pose proof (blen_nonneg d) as Hd.
  destruct (split_hdr b 28 ltac:(lia)) as (h & t & -> & Hh & Ht). rewrite Hb in Ht. clear Hb.
  zfold_in Hh. cells Hh. match goal with H : blen a = 16 |- _ => apply (blen_length _ 16) in H; cells H end.
  unfold mld_bytes_ck, mld_body, mld_type. cbn [nth app].
  unfold mld_emit, icmp6h_set_msg_type, icmp6h_set_msg_code, icmp6h_clear_reserved, icmp6h_msg_type,
    mld_set_max_resp_code, mld_set_mcast_addr, mld_set_s_flag, mld_clear_s_flag, mld_set_qrv, mld_set_qqic,
    mld_set_num_srcs, icmp6h_set_payload, icmp6h_header_len, icmp6h_msg_type, wb_put_u16, wb_put_u32, wb_set_field.
  zfold. refold_tail t.
  hstep. hstep. hstep. zbool. hstep. hstep. hstep. hstep. zbool. cbn [wb_assert obind].
  hstep. hstep.
  destruct s; cbn [obind]; hstep; hstep; hstep; hstep; hstep; change (icmp6h_header_len_of 130) with 28;
    cbn [obind]; bits_norm;
    (rewrite wb_set_slice_tail by (autorewrite with blen; zfold; lia)); reflexivity.
Qed.

Lemma mld_emit_report_spec n d b :
  mld_wf (MldReport n d) = true -> blen b = mld_buffer_len (MldReport n d) ->
  mld_emit (MldReport n d) b = Ok (mld_bytes_ck (MldReport n d) (nth 2 b 0) (nth 3 b 0)).
Proof.
  intros Hwf Hb. cbn [mld_wf] in Hwf. bsplit. cbn [mld_buffer_len] in Hb. zfold_in Hb.
  pose proof (blen_nonneg d) as Hd.
  destruct (split_hdr b 8 ltac:(lia)) as (h & t & -> & Hh & Ht). rewrite Hb in Ht. clear Hb.
  zfold_in Hh. cells Hh.
  unfold mld_bytes_ck, mld_body, mld_type. cbn [nth app].
  unfold mld_emit, icmp6h_set_msg_type, icmp6h_set_msg_code, icmp6h_clear_reserved, icmp6h_msg_type,
    mld_set_nr_mcast_addr_rcrds, icmp6h_set_payload, icmp6h_header_len, icmp6h_msg_type, wb_put_u16, wb_put_u32.
  zfold. refold_tail t.
  hstep. hstep. hstep. zbool. hstep. hstep. hstep. zbool. cbn [obind]. hstep. hstep.
  change (icmp6h_header_len_of 143) with 8. cbn [obind].
  rewrite wb_set_slice_tail by (autorewrite with blen; zfold; lia). reflexivity.
Qed.

Lemma mld_records_len_eq rs : mld_records_len rs = 20 * Z.of_nat (length rs).
Proof.
  induction rs as [|r rs IH]; cbn [mld_records_len fold_right length]; [reflexivity|].
  unfold mld_records_len in IH. rewrite IH. unfold mldrec_buffer_len. zfold. lia.
Qed.

Lemma mld_flat_hdr_len rs : forallb mldrec_wf rs = true ->
  blen (flat_map mldrec_hdr_bytes rs) = 20 * Z.of_nat (length rs).
Proof.
  induction rs as [|r rs IH]; cbn [forallb flat_map length]; intros H; [reflexivity|].
  apply andb_prop in H. destruct H as [Hr Hrs]. rewrite blen_app, IH by assumption.
  rewrite mldrec_hdr_bytes_len by (apply mldrec_wf_inv in Hr; tauto). lia.
Qed.

(* the record loop: every record header is written behind what was written before *)
Lemma mld_emit_records_spec rs : forall pre payload, forallb mldrec_wf rs = true ->
  blen payload = 20 * Z.of_nat (length rs) ->
  mld_emit_records rs pre payload = Ok (pre ++ flat_map mldrec_hdr_bytes rs).
Proof.
  induction rs as [|r rs IH]; intros pre payload Hwf Hlen; cbn [forallb length flat_map mld_emit_records] in *.
  - apply blen_0_nil in Hlen. subst. reflexivity.
  - apply andb_prop in Hwf. destruct Hwf as [Hr Hrs].
    destruct (split_hdr payload 20 ltac:(lia)) as (h & t & -> & Hh & Ht).
    assert (Hh' : blen h = mldrec_buffer_len r) by (unfold mldrec_buffer_len, blen; zfold; lia).
    rewrite mldrec_emit_frame, mldrec_emit_spec by assumption. cbn [omap obind].
    pose proof (mldrec_hdr_bytes_len r ltac:(apply mldrec_wf_inv in Hr; tauto)) as Lh.
    unfold mldrec_buffer_len. zfold.
    rewrite wb_from_tail by lia. cbn [obind].
    rewrite wb_upto_app_l by lia. rewrite <- Lh, wb_upto_all. cbn [obind].
    rewrite IH; [rewrite <- app_assoc; reflexivity | assumption | lia].
Qed.

Lemma mld_emit_records_repr_spec rs b :
  mld_wf (MldReportRecords rs) = true -> blen b = mld_buffer_len (MldReportRecords rs) ->
  mld_emit (MldReportRecords rs) b = Ok (mld_bytes_ck (MldReportRecords rs) (nth 2 b 0) (nth 3 b 0)).
Proof.
  intros Hwf Hb. cbn [mld_wf] in Hwf. bsplit. cbn [mld_buffer_len] in Hb. zfold_in Hb.
  rewrite mld_records_len_eq in Hb.
  destruct (split_hdr b 8 ltac:(lia)) as (h & t & -> & Hh & Ht). rewrite Hb in Ht. clear Hb.
  zfold_in Hh. cells Hh.
  unfold mld_bytes_ck, mld_body, mld_type. cbn [nth app].
  unfold mld_emit, icmp6h_set_msg_type, icmp6h_set_msg_code, icmp6h_clear_reserved, icmp6h_msg_type,
    mld_set_nr_mcast_addr_rcrds, icmp6h_header_len, icmp6h_msg_type, wb_put_u16, wb_put_u32.
  zfold. refold_tail t.
  hstep. hstep. hstep. zbool. hstep. hstep. hstep. zbool. cbn [obind]. hstep. hstep.
  change (icmp6h_header_len_of 143) with 8. cbn [obind].
  rewrite wb_from_tail by reflexivity. cbn [obind].
  rewrite wb_upto_app_l by (autorewrite with blen; zfold; lia).
  match goal with |- context [wb_upto ?l 8] => change (wb_upto l 8) with (Ok l) end. cbn [obind].
  rewrite mld_emit_records_spec by (assumption || lia). reflexivity.
Qed.

Lemma mld_emit_spec r b : mld_wf r = true -> blen b = mld_buffer_len r ->
  mld_emit r b = Ok (mld_bytes_ck r (nth 2 b 0) (nth 3 b 0)).
Proof.
  destruct r; [apply mld_emit_query_spec | apply mld_emit_report_spec | apply mld_emit_records_repr_spec].
Qed.

Lemma mld_wf_body_len r : mld_wf r = true -> 4 + blen (mld_body r) = mld_buffer_len r.
Proof.
  destruct r as [c a s q qq n d|n d|rs]; cbn [mld_wf mld_body mld_buffer_len]; intros H; bsplit;
    unfold be_enc2; autorewrite with blen; zfold.
  - lia.
  - lia.
  - rewrite mld_flat_hdr_len, mld_records_len_eq by assumption. lia.
Qed.

Lemma mld_bytes_ck_len r k2 k3 : mld_wf r = true -> blen (mld_bytes_ck r k2 k3) = mld_buffer_len r.
Proof. intros H. unfold mld_bytes_ck. rewrite blen_app, <- (mld_wf_body_len r H). reflexivity. Qed.

Lemma mld_emit_no_panic r b : mld_wf r = true -> blen b = mld_buffer_len r -> mld_emit r b <> Panic.
Proof. intros; rewrite mld_emit_spec by assumption; discriminate. Qed.

Section Checksum.
Variable sum_ok : list Z -> bool.
Variable sum_fill : list Z -> Z.

(* the packet Icmpv6Repr::Mld(r).emit produces *)
Definition mld_ck (tx : bool) (r : mld_repr) : Z :=
  if tx then sum_fill ([mld_type r; 0; 0; 0] ++ mld_body r) else 0.
Definition mld_bytes (tx : bool) (r : mld_repr) : list Z :=
  [mld_type r; 0] ++ be_enc2 (mld_ck tx r) ++ mld_body r.

Lemma mld_icmp_emit_spec tx r b : mld_wf r = true -> blen b = mld_buffer_len r ->
  mld_icmp_emit sum_fill tx r b = Ok (mld_bytes tx r).
Proof.
  intros Hwf Hb. unfold mld_icmp_emit. rewrite mld_emit_spec by assumption. cbn [obind].
  unfold mld_bytes_ck. rewrite icmp6h_finish_emit_spec. reflexivity.
Qed.

Lemma mld_bytes_len tx r : mld_wf r = true -> blen (mld_bytes tx r) = mld_buffer_len r.
Proof.
  intros H. unfold mld_bytes, be_enc2. rewrite <- (mld_wf_body_len r H). autorewrite with blen. zfold. lia.
Qed.

Lemma mld_icmp_emit_no_panic tx r b : mld_wf r = true -> blen b = mld_buffer_len r ->
  mld_icmp_emit sum_fill tx r b <> Panic.
Proof. intros; rewrite mld_icmp_emit_spec by assumption; discriminate. Qed.

Lemma mld_icmp_emit_ignores_old_bytes tx r b1 b2 : mld_wf r = true ->
  blen b1 = mld_buffer_len r -> blen b2 = mld_buffer_len r ->
  mld_icmp_emit sum_fill tx r b1 = mld_icmp_emit sum_fill tx r b2.
Proof. intros; rewrite !mld_icmp_emit_spec by assumption; reflexivity. Qed.

End Checksum.

(* MldRepr::parse of an emitted packet, whatever the checksum octets are *)
Lemma mld_parse_bytes r k2 k3 : mld_wf r = true ->
  mld_parse ([mld_type r; 0; k2; k3] ++ mld_body r) = Ok (mld_canon r).
Proof.
  intros Hwf. pose proof (mld_wf_body_len r Hwf) as Hlen.
  destruct r as [c a s q qq n d|n d|rs]; cbn [mld_wf mld_body mld_buffer_len mld_type mld_canon] in *; bsplit.
  - (* query *)
    match goal with H : blen a = 16 |- _ => apply (blen_length _ 16) in H; cells H end.
    pose proof (blen_nonneg d) as Hd.
    unfold be_enc2. cbn [app]. refold_tail d.
    unfold mld_parse, icmp6h_check_len, icmp6h_header_len, icmp6h_msg_type, mld_max_resp_code, mld_mcast_addr,
      mld_s_flag, mld_qrv, mld_qqic, mld_num_srcs, icmp6h_payload, icmp6h_header_len, icmp6h_msg_type,
      wb_get_u16, wb_field.
    autorewrite with blen. zfold. zbool.
    hstep. change (icmp6h_known 130) with true. change (icmp6h_header_len_of 130) with 28. cbn [obind].
    zbool. cbn [obind].
    hstep. hstep. hstep. hstep. hstep.
    rewrite !be_dec_cells2 by lia.
    rewrite wb_from_tail by reflexivity. cbn [obind].
    match goal with |- context [wb_arr 16 ?l] => change (wb_arr 16 l) with (Ok l) end. cbn [obind].
    change (icmp6h_known 130) with true. change (icmp6h_header_len_of 130) with 28. zbool. cbn [obind].
    f_equal. unfold mld_sqrv. destruct s; bits_norm.
    + change 7 with (Z.ones 3). rewrite land_ones_small by (zfold; lia). reflexivity.
    + change 7 with (Z.ones 3). rewrite land_ones_small by (zfold; lia). reflexivity.
  - (* report *)
    pose proof (blen_nonneg d) as Hd.
    unfold be_enc2. cbn [app]. refold_tail d.
    unfold mld_parse, icmp6h_check_len, icmp6h_header_len, icmp6h_msg_type, mld_nr_mcast_addr_rcrds,
      icmp6h_payload, icmp6h_header_len, icmp6h_msg_type, wb_get_u16.
    autorewrite with blen. zfold. zbool.
    hstep. hstep.
    change (icmp6h_known 143) with true. change (icmp6h_header_len_of 143) with 8. zbool. cbn [obind].
    rewrite be_dec_cells2 by lia. rewrite wb_from_tail by reflexivity. reflexivity.
  - (* records: read back as the report with the same record headers *)
    set (p := flat_map mldrec_hdr_bytes rs) in *. pose proof (blen_nonneg p) as Hp.
    rewrite (Z.mod_small (Z.of_nat (length rs)) 65536) by lia.
    assert (HN : 0 <= Z.of_nat (length rs)) by lia. clear Hlen.
    generalize dependent (Z.of_nat (length rs)). intros N HN1 HN2.
    unfold be_enc2. cbn [app]. refold_tail p.
    unfold mld_parse, icmp6h_check_len, icmp6h_header_len, icmp6h_msg_type, mld_nr_mcast_addr_rcrds,
      icmp6h_payload, icmp6h_header_len, icmp6h_msg_type, wb_get_u16.
    autorewrite with blen. zfold. zbool.
    hstep. hstep.
    change (icmp6h_known 143) with true. change (icmp6h_header_len_of 143) with 8. zbool. cbn [obind].
    rewrite be_dec_cells2 by lia. rewrite wb_from_tail by reflexivity. reflexivity.
Qed.

Lemma mld_canon_wf r : mld_wf r = true -> mld_wf (mld_canon r) = true.
Proof.
  destruct r as [c a s q qq n d|n d|rs]; cbn [mld_canon]; intros H; try assumption.
  cbn [mld_wf] in *. bsplit. unfold is_u16. zbool.
  clear H. induction rs as [|r rs IH]; cbn [flat_map forallb] in *; [reflexivity|].
  apply andb_prop in H0. destruct H0 as [Hr Hrs]. rewrite bytes_ok_app, (IH Hrs), andb_true_r.
  apply mldrec_wf_inv in Hr. destruct Hr as (Ht & Hx & Hn & _ & Ha & _).
  unfold mldrec_hdr_bytes. rewrite !bytes_ok_app, be_enc2_bytes, Ha.
  unfold bytes_ok, is_u8; cbn [forallb]. zbool. reflexivity.
Qed.

Section Checksum2.
Variable sum_ok : list Z -> bool.
Variable sum_fill : list Z -> Z.

(* the round trip through Icmpv6Repr::emit and MldRepr::parse; [mld_canon] is the identity on
   Query / Report and reads ReportRecordReprs back as the Report with the same records *)
Lemma mld_roundtrip tx r b : mld_wf r = true -> blen b = mld_buffer_len r ->
  exists bs, mld_icmp_emit sum_fill tx r b = Ok bs /\ blen bs = mld_buffer_len r /\
             mld_parse bs = Ok (mld_canon r).
Proof.
  intros Hwf Hb. exists (mld_bytes sum_fill tx r).
  split; [apply mld_icmp_emit_spec; assumption|]. split; [apply mld_bytes_len; assumption|].
  unfold mld_bytes, be_enc2. cbn [app]. apply (mld_parse_bytes r _ _ Hwf).
Qed.

(* the same through Icmpv6Repr::parse (checksum verified when rx; message code 0) *)
Lemma mld_icmp_roundtrip tx rx r b : icmp6h_cksum_link sum_ok sum_fill ->
  (rx = true -> tx = true) -> mld_wf r = true -> blen b = mld_buffer_len r ->
  exists bs, mld_icmp_emit sum_fill tx r b = Ok bs /\ mld_icmp_parse sum_ok rx bs = Ok (mld_canon r).
Proof.
  intros Hlink Hmode Hwf Hb. exists (mld_bytes sum_fill tx r).
  split; [apply mld_icmp_emit_spec; assumption|].
  pose proof (mld_parse_bytes r ((mld_ck sum_fill tx r / 256) mod 256) (mld_ck sum_fill tx r mod 256) Hwf) as Hp.
  assert (Hok : rx = true -> sum_ok (mld_bytes sum_fill tx r) = true).
  { intros Hrx. rewrite (Hmode Hrx). unfold mld_bytes, mld_ck. apply Hlink. }
  unfold mld_icmp_parse. unfold mld_bytes, be_enc2 in *. cbn [app] in *.
  destruct (icmp6h_type_code_cons (mld_type r) 0 ((mld_ck sum_fill tx r / 256) mod 256 ::
              mld_ck sum_fill tx r mod 256 :: mld_body r)) as [Ht Hcode].
  eapply icmp6h_parse_sub_ok; try eassumption.
  - unfold mld_parse in Hp. destruct (icmp6h_check_len _) as [[]| |]; cbn [obind] in Hp; try discriminate. reflexivity.
  - destruct r; reflexivity.
Qed.

End Checksum2.

(* ====================== C07 ====================== *)

Lemma mld_accessors_safe bs : icmp6h_check_len bs = Ok tt ->
  (icmp6h_msg_type bs = Ok icmp6h_MLD_QUERY ->
     mld_max_resp_code bs <> Panic /\ mld_mcast_addr bs <> Panic /\ mld_s_flag bs <> Panic /\
     mld_qrv bs <> Panic /\ mld_qqic bs <> Panic /\ mld_num_srcs bs <> Panic) /\
  (icmp6h_msg_type bs = Ok icmp6h_MLD_REPORT -> mld_nr_mcast_addr_rcrds bs <> Panic) /\
  icmp6h_payload bs <> Panic.
Proof.
  intros H. destruct (icmp6h_check_len_inv bs H) as (t & Ht & _ & L8 & Lh).
  destruct (icmp6h_generic_safe bs H) as (_ & _ & _ & _ & Ap).
  split; [|split; [|exact Ap]].
  - intros Hq. rewrite Ht in Hq. injection Hq as ->. change (icmp6h_header_len_of icmp6h_MLD_QUERY) with 28 in Lh.
    unfold mld_max_resp_code, mld_mcast_addr, mld_s_flag, mld_qrv, mld_qqic, mld_num_srcs, wb_get_u16, wb_field.
    zfold. repeat split.
    + apply wb_get_be_nopanic; lia.
    + destruct (wb_sub_ok_len bs 8 24 ltac:(lia) ltac:(lia)) as (s & -> & Ls & _). cbn [obind].
      unfold wb_arr. rewrite Ls. discriminate.
    + apply obind_nopanic; [apply wb_get_u8_nopanic; lia | discriminate].
    + apply obind_nopanic; [apply wb_get_u8_nopanic; lia | discriminate].
    + apply wb_get_u8_nopanic; lia.
    + apply wb_get_be_nopanic; lia.
  - intros _. unfold mld_nr_mcast_addr_rcrds, wb_get_u16. zfold. apply wb_get_be_nopanic; lia.
Qed.

Lemma mld_parse_total bs : mld_parse bs <> Panic.
Proof.
  unfold mld_parse. destruct (icmp6h_check_len bs) as [[]| |] eqn:E; cbn [obind]; try discriminate.
  - destruct (mld_accessors_safe bs E) as (Aq & Ar & Ap).
    destruct (icmp6h_check_len_inv bs E) as (t & Ht & _). rewrite Ht. cbn [obind].
    destruct (t =? icmp6h_MLD_QUERY) eqn:E1.
    + bsplit. subst t. destruct (Aq Ht) as (A1 & A2 & A3 & A4 & A5 & A6). nopanic.
    + destruct (t =? icmp6h_MLD_REPORT) eqn:E2; [|discriminate].
      bsplit. subst t. specialize (Ar Ht). nopanic.
  - exfalso. exact (icmp6h_check_len_nopanic bs E).
Qed.

Lemma mld_icmp_parse_total sum_ok rx bs : mld_icmp_parse sum_ok rx bs <> Panic.
Proof.
  unfold mld_icmp_parse, icmp6h_parse_sub.
  destruct (icmp6h_check_len bs) as [[]| |] eqn:E; cbn [obind]; try discriminate.
  - destruct (icmp6h_generic_safe bs E) as (A1 & A2 & _). pose proof (mld_parse_total bs).
    unfold icmp6h_verify_checksum. nopanic.
  - exfalso. exact (icmp6h_check_len_nopanic bs E).
Qed.

(* a parsed representation is well-formed (and is its own canonical form) *)
Lemma mld_parse_wf bs r : bytes_ok bs = true -> mld_parse bs = Ok r ->
  mld_wf r = true /\ mld_canon r = r.
Proof.
  intros Hb H. unfold mld_parse in H.
  destruct (icmp6h_check_len bs) as [[]| |] eqn:E; cbn [obind] in H; try discriminate.
  destruct (icmp6h_check_len_inv bs E) as (t & Ht & _ & L8 & Lh). rewrite Ht in H. cbn [obind] in H.
  unfold icmp6h_payload, icmp6h_header_len in H. rewrite Ht in H. cbn [obind] in H.
  pose proof (icmp6h_header_len_of_range t) as Rh.
  rewrite wb_from_ok in H by lia.
  assert (Bp : bytes_ok (skipn (Z.to_nat (icmp6h_header_len_of t)) bs) = true) by (apply bytes_ok_skipn, Hb).
  set (p := skipn (Z.to_nat (icmp6h_header_len_of t)) bs) in *.
  destruct (t =? icmp6h_MLD_QUERY) eqn:E1.
  - bsplit. subst t. change (icmp6h_header_len_of icmp6h_MLD_QUERY) with 28 in *.
    destruct (wb_get_u16_ok' bs wicmpv6_f_MAX_RESP_CODE) as (c & Hc & Rc); try (zfold; lia); try assumption.
    destruct (wb_get_u16_ok' bs wicmpv6_f_QUERY_NUM_SRCS) as (n & Hn & Rn); try (zfold; lia); try assumption.
    destruct (wb_sub_ok_len bs 8 24 ltac:(lia) ltac:(lia)) as (a & Ha & La & Ba).
    unfold mld_max_resp_code, mld_num_srcs, mld_mcast_addr, mld_s_flag, mld_qrv, mld_qqic, wb_field in H.
    rewrite Hc, Hn in H. zfold_in H. rewrite Ha in H. rewrite !wb_get_u8_ok in H by lia.
    replace (24 - 8) with 16 in La by lia. cbn [obind] in H. unfold wb_arr in H. rewrite La in H.
    cbn [obind] in H. zfold_in H.
    injection H as <-. split; [|reflexivity].
    cbn [mld_wf]. unfold is_u16, is_u8, is_arr.
    pose proof (land_7_range (nth 24 bs 0)).
    pose proof (bytes_ok_byte bs 25 Hb ltac:(lia)) as B25. zfold_in B25.
    rewrite La, (Ba Hb), Bp. zbool. reflexivity.
  - destruct (t =? icmp6h_MLD_REPORT) eqn:E2; [|discriminate].
    bsplit. subst t. change (icmp6h_header_len_of icmp6h_MLD_REPORT) with 8 in *.
    destruct (wb_get_u16_ok' bs wicmpv6_f_NR_MCAST_RCRDS) as (n & Hn & Rn); try (zfold; lia); try assumption.
    unfold mld_nr_mcast_addr_rcrds in H. rewrite Hn in H. cbn [obind] in H. injection H as <-.
    split; [|reflexivity]. cbn [mld_wf]. unfold is_u16. rewrite Bp. zbool. reflexivity.
Qed.

Lemma mld_reparse sum_fill tx bs r : bytes_ok bs = true -> mld_parse bs = Ok r ->
  mld_wf r = true /\
  forall b, blen b = mld_buffer_len r ->
    exists bs', mld_icmp_emit sum_fill tx r b = Ok bs' /\ mld_parse bs' = Ok r.
Proof.
  intros Hb H. destruct (mld_parse_wf bs r Hb H) as [Hwf Hc]. split; [assumption|].
  intros b Hlen. destruct (mld_roundtrip sum_fill tx r b Hwf Hlen) as (bs' & He & _ & Hp).
  rewrite Hc in Hp. eauto.
Qed.

Lemma mldrec_reparse bs r : bytes_ok bs = true ->
  mldrec_parse bs = Ok r -> ipv6_addr_is_multicast (mldrec_addr r) = true ->
  mldrec_wf r = true /\
  forall b, blen b = mldrec_buffer_len r ->
    exists bs', mldrec_emit r b = Ok bs' /\ mldrec_parse (bs' ++ mldrec_payload r) = Ok r.
Proof.
  intros Hb H Hm. pose proof (mldrec_parse_wf bs r Hb H Hm) as Hwf. split; [assumption|].
  intros b Hlen. destruct (mldrec_roundtrip r b Hwf Hlen) as (bs' & He & _ & Hp). eauto.
Qed.

Lemma mld_emit_no_panic_both (sum_fill : list Z -> Z) tx r b :
  mld_wf r = true -> blen b = mld_buffer_len r ->
  mld_emit r b <> Panic /\ mld_icmp_emit sum_fill tx r b <> Panic.
Proof. intros; split; [apply mld_emit_no_panic | apply mld_icmp_emit_no_panic]; assumption. Qed.
