(* C04, layer 3-5a: every phase of `process` preserves the receiver invariant when the segment is
   consistent with the peer's stream; the phases that do not belong to the receive path leave
   the receive view untouched (frame lemmas). *)
From SV Require Import Lib.Base Gen.Consts.
From SV Require Import Model.Seq32 Model.Assembler Model.TcpBuf Model.TcpTypes Model.Tcp.
From SV Require Import Proofs.AssemblerProofs Proofs.TcpRecvBase Proofs.TcpRecvWindow
  Proofs.TcpRecvPayload Proofs.TcpRecvInv.

(* ---------------------------------------------------------------------------------------- *)
(* tactics                                                                                   *)
(* ---------------------------------------------------------------------------------------- *)

Lemma obind_ok_inv A B (x : outcome A) (f : A -> outcome B) b :
  obind x f = Ok b -> exists a, x = Ok a /\ f a = Ok b.
Proof. destruct x as [a|e|]; cbn; intros H; try discriminate. exists a. split; [reflexivity | exact H]. Qed.

(* destruct one scrutinee of the hypothesis H *)
Ltac des1 H :=
  match type of H with
  | context [if ?c then _ else _] => destruct c eqn:?
  | context [match ?x with _ => _ end] => destruct x eqn:?
  end.
Ltac des_all H := repeat (des1 H; try discriminate H).

(* same receive view and same state *)
Definition frame (s' s : socket) : Prop := rxv_eq s' s /\ s_state s' = s_state s.

Lemma frame_refl s : frame s s.
Proof. split; [apply rxv_eq_refl | reflexivity]. Qed.
Lemma frame_trans a b c : frame a b -> frame b c -> frame a c.
Proof. intros (H1 & H2) (H3 & H4). split; [eapply rxv_eq_trans; eassumption | congruence]. Qed.

Ltac frame_solve := unfold frame, rxv_eq; rproj; repeat split; reflexivity.

(* ---------------------------------------------------------------------------------------- *)
(* frame lemmas                                                                              *)
(* ---------------------------------------------------------------------------------------- *)

Definition reply_ok (s' : socket) (rep : option packet) : Prop :=
  match rep with
  | Some p => r_control (snd p) = CRst \/
              (r_control (snd p) = CNone /\ r_ack_number (snd p) = Some (tcp_window_start s') /\
               r_window_len (snd p) = s_remote_last_win s')
  | None => True
  end.

Lemma rst_reply_control ip r p : tcp_rst_reply ip r = Ok p -> r_control (snd p) = CRst.
Proof.
  unfold tcp_rst_reply. destruct (control_eqb (r_control r) CRst); [discriminate|].
  destruct (tcp_reply ip r) as (ip', reply). intros H. inversion H; subst p; clear H.
  unfold with_payload_len. cbn [snd].
  destruct (control_eqb (r_control r) CSyn && negb (is_some (r_ack_number r))); reflexivity.
Qed.

(* a step that either leaves the view alone or emits an ACK *)
Definition same_or_acked (s' s : socket) (rep : option packet) : Prop :=
  s_state s' = s_state s /\ (rxv_eq s' s \/ rxv_acked s' s) /\ reply_ok s' rep.

Lemma acked_window_start s' s : rxv_acked s' s -> tcp_window_start s' = tcp_window_start s.
Proof. unfold rxv_acked, tcp_window_start. intros (_ & -> & _ & -> & _). reflexivity. Qed.

Lemma ack_reply_same_or_acked cx s0 s ip r s' p :
  frame s0 s -> tcp_ack_reply cx s0 ip r = (s', p) -> same_or_acked s' s (Some p).
Proof.
  intros (He & Hst) H. destruct (ack_reply_rxv _ _ _ _ _ _ H) as (Ha & Hst' & Hp1 & Hp2 & Hp3).
  split; [congruence|]. split; [right; eapply rxv_acked_of_eq; eassumption|].
  unfold reply_ok. right. split; [exact Hp2|].
  rewrite (acked_window_start _ _ Ha). split; [exact Hp1|].
  destruct Ha as (_ & _ & _ & _ & _ & -> & _). exact Hp3.
Qed.

Lemma challenge_same_or_acked cx s0 s ip r s' rep :
  frame s0 s -> tcp_challenge_ack_reply cx s0 ip r = (s', rep) -> same_or_acked s' s rep.
Proof.
  intros (He & Hst) H. destruct (challenge_ack_reply_rxv _ _ _ _ _ _ H) as (Hst' & [(H1 & ->) | (Ha & p & -> & Hp1 & Hp2 & Hp3)]).
  - split; [congruence|]. split; [left; eapply rxv_eq_trans; eassumption | exact I].
  - split; [congruence|]. split; [right; eapply rxv_acked_of_eq; eassumption|].
    unfold reply_ok. right. split; [exact Hp2|]. rewrite (acked_window_start _ _ Ha).
    split; [exact Hp1|]. destruct Ha as (_ & _ & _ & _ & _ & -> & _). exact Hp3.
Qed.

Lemma ack_check_ret cx s ip r t s1 rep :
  tcp_process_ack_check cx s ip r = Ok (Ret t s1 rep) -> same_or_acked s1 s rep.
Proof.
  unfold tcp_process_ack_check. intros H.
  assert (Hsame : forall rp, match rp with Some p => r_control (snd p) = CRst | None => True end ->
                             same_or_acked s s rp).
  { intros rp Hrp. split; [reflexivity|]. split; [left; apply rxv_eq_refl|].
    destruct rp; [left; exact Hrp | exact I]. }
  des_all H.
  all: try (apply obind_ok_inv in H; destruct H as (p & Hp & H); apply rst_reply_control in Hp).
  all: try (inversion H; subst; first [apply (Hsame None); exact I | apply (Hsame (Some _)); assumption]).
  all: match goal with
       | E : tcp_challenge_ack_reply _ _ _ _ = _ |- _ =>
           inversion H; subst; eapply challenge_same_or_acked; [apply frame_refl | exact E]
       end.
Qed.

Lemma update_remote_frame cx s r al s' iwu :
  tcp_process_update_remote cx s r al = Ok (s', iwu) -> frame s' s.
Proof.
  unfold tcp_process_update_remote. intros H. des_all H.
  all: try (apply obind_ok_inv in H; destruct H as (tx & _ & H)).
  all: inversion H; subst; frame_solve.
Qed.

Lemma dup_ack_frame cx s r al iwu s' tg :
  tcp_process_dup_ack cx s r al iwu = Ok (s', tg) -> frame s' s.
Proof.
  unfold tcp_process_dup_ack. intros H.
  destruct (r_ack_number r) as [a|]; [|inversion H; subst; apply frame_refl].
  apply obind_ok_inv in H. destruct H as ((s1, tg1) & H1 & H).
  assert (Hf1 : frame s1 s).
  { des1 H1.
    - repeat (apply obind_ok_inv in H1; destruct H1 as (? & _ & H1)).
      inversion H1; subst. des_all H1; frame_solve.
    - repeat (apply obind_ok_inv in H1; destruct H1 as (? & _ & H1)).
      inversion H1; subst. des_all H1; frame_solve. }
  cbv beta iota zeta in H.
  eapply frame_trans; [|exact Hf1].
  des_all H; inversion H; subst; frame_solve.
Qed.

Lemma timers_frame cx s al aall : frame (fst (tcp_process_timers cx s al aall)) s.
Proof.
  unfold tcp_process_timers. destruct (s_timer s); try destruct aall; try destruct (al >? 0);
    cbn [fst]; frame_solve.
Qed.

Lemma zwp_frame cx s al : frame (fst (tcp_process_zwp cx s al)) s.
Proof.
  unfold tcp_process_zwp.
  repeat match goal with
  | |- context [if ?c then _ else _] => destruct c
  end; cbn [fst]; frame_solve.
Qed.

Lemma tsval_frame s r :
  frame (match r_timestamp r with Some (tsval, _) => upd_last_remote_tsval s tsval | None => s end) s.
Proof. destruct (r_timestamp r) as [(a, b)|]; frame_solve. Qed.

(* ---------------------------------------------------------------------------------------- *)
(* the transition table                                                                      *)
(* ---------------------------------------------------------------------------------------- *)

Lemma apply_mss_frame s r : frame (tcp_apply_mss s r) s.
Proof.
  unfold tcp_apply_mss.
  repeat match goal with
  | |- context [match ?x with _ => _ end] => destruct x
  | |- context [if ?c then _ else _] => destruct c
  end; frame_solve.
Qed.

(* the FIN was consumed: remote_seq_no + 1, rx_fin_received *)
Definition rxv_fin (s' s : socket) : Prop :=
  s_assembler s' = s_assembler s /\ s_rx_buffer s' = s_rx_buffer s /\
  s_rx_fin_received s' = true /\ s_remote_seq_no s' = seq_add (s_remote_seq_no s) 1 /\
  s_remote_last_ack s' = s_remote_last_ack s /\ s_remote_last_win s' = s_remote_last_win s /\
  s_remote_win_shift s' = s_remote_win_shift s.

Definition synced_state (st : tcp_state) : Prop :=
  match st with Listen | SynSent => False | _ => True end.

Definition after_table_state (st : tcp_state) : Prop :=
  match st with Listen | SynSent | SynReceived => False | _ => True end.

(* transitions out of a synchronised state *)
Lemma transition_synced cx s ip r ctl al aof res :
  synced_state (s_state s) ->
  tcp_process_transition cx s ip r ctl al aof = Ok res ->
  match res with
  | Cont t s3 => after_table_state (s_state s3) /\
                 ((ctl <> CFin /\ rxv_eq s3 s) \/ (ctl = CFin /\ rxv_fin s3 s))
  | Ret t s3 rep =>
      (same_or_acked s3 s rep) \/
      (rxv_eq s3 s /\ rep = None /\ s_state s3 = Closed) \/
      (* RST in SYN-RECEIVED of a listener: back to a pristine LISTEN *)
      (s3 = tcp_set_state (upd_listen_endpoint (tcp_reset s) (s_listen_endpoint s)) Listen /\
       rep = None /\ s_state s = SynReceived)
  end.
Proof.
  intros Hsy H. unfold tcp_process_transition in H.
  destruct (s_state s) eqn:Est; try contradiction; destruct ctl;
  cbv beta iota in H; des_all H; inversion H; subst; clear H;
  unfold tcp_enter_time_wait, tcp_fin_received.
  all: try (split; [rproj; try rewrite Est; exact I|]).
  all: try (left; split; [discriminate | unfold rxv_eq; rproj; repeat split; reflexivity]).
  all: try (right; split; [reflexivity | unfold rxv_fin; rproj; repeat split; reflexivity]).
  all: try (left; split; [rproj; congruence|]; split; [left; apply rxv_eq_refl | exact I]).
  all: try (right; left; split; [unfold rxv_eq; rproj; repeat split; reflexivity|]; split; reflexivity).
  all: try (right; right; split; [reflexivity|]; split; reflexivity).
  all: try (left; eapply challenge_same_or_acked; [apply frame_refl | eassumption]).
Qed.


(* ---------------------------------------------------------------------------------------- *)
(* reset                                                                                     *)
(* ---------------------------------------------------------------------------------------- *)

Lemma win_shift_nonneg c : 0 <= tcp_win_shift_for c.
Proof. unfold tcp_win_shift_for, sat_sub. lia. Qed.

Lemma reset_unsynced s :
  rb_wf (s_rx_buffer s) -> rb_cap (s_rx_buffer s) <= p30 -> rx_unsynced (tcp_reset s).
Proof.
  intros Hwf Hcap. unfold rx_unsynced, misc_ok, lwb, tcp_reset. rproj.
  pose proof (rb_clear_wf _ Hwf) as Hwf'. pose proof Hwf as (Hl & _).
  split; [exact Hwf'|]. cbn [rb_clear rb_cap rb_len]. split; [exact Hcap|].
  split; [reflexivity|]. split; [reflexivity|]. split; [reflexivity|].
  split; [|exact I]. split; [lia|]. split; [apply win_shift_nonneg|].
  unfold shl. lia.
Qed.

Lemma reset_rx_store s : rb_store (s_rx_buffer (tcp_reset s)) = rb_store (s_rx_buffer s).
Proof. unfold tcp_reset. rproj. reflexivity. Qed.

Lemma unsynced_state_change s s' :
  rxv_eq s' s -> match s_state s' with Closed | Listen | SynSent => True | _ => False end ->
  rx_unsynced s -> rx_unsynced s'.
Proof.
  intros (E1 & E2 & E3 & E4 & E5 & E6 & E7) Hst (H1 & H2 & H3 & H4 & H5 & H6 & _).
  unfold rx_unsynced, misc_ok, lwb in *. rewrite E1, E2, E3, E6, E7.
  split; [exact H1|]. split; [exact H2|]. split; [exact H3|]. split; [exact H4|].
  split; [exact H5|]. split; [exact H6 | exact Hst].
Qed.

(* the pristine LISTEN reached by an RST in SYN-RECEIVED *)
Lemma relisten_unsynced s ep :
  rb_wf (s_rx_buffer s) -> rb_cap (s_rx_buffer s) <= p30 ->
  rx_unsynced (tcp_set_state (upd_listen_endpoint (tcp_reset s) ep) Listen) /\
  rb_store (s_rx_buffer (tcp_set_state (upd_listen_endpoint (tcp_reset s) ep) Listen))
  = rb_store (s_rx_buffer s) /\
  s_state (tcp_set_state (upd_listen_endpoint (tcp_reset s) ep) Listen) = Listen.
Proof.
  intros Hwf Hcap. pose proof (reset_unsynced s Hwf Hcap) as Hr. pose proof (reset_rx_store s) as Hs.
  revert Hr Hs. generalize (tcp_reset s). intros s0 Hr Hs. split.
  - apply (unsynced_state_change s0); [| |exact Hr].
    + unfold rxv_eq. rproj. repeat split; reflexivity.
    + rproj. exact I.
  - split; [rproj; exact Hs | reflexivity].
Qed.

(* ---------------------------------------------------------------------------------------- *)
(* from the table to the end of process                                                      *)
(* ---------------------------------------------------------------------------------------- *)

Lemma payload_nil cx s ip r off : tcp_process_payload cx s ip r [] off = Ok (s, None, 190).
Proof. reflexivity. Qed.

Section Proc.
  Variable S : Z -> Z.
  Variable F : option Z.

  (* the segment is consistent with the peer's stream.  [d] = signed 32-bit distance of its
     sequence number from RCV.NXT, so every 32-bit sequence number is allowed; only segments within
     2^30 of RCV.NXT are required to carry the peer's octets (the others are rejected by the
     window test whatever they contain), and only at sequence offsets at or after RCV.NXT: what a
     segment carries below RCV.NXT is arbitrary (e.g. the garbage octet of a keep-alive probe at
     SND.NXT-1) - it is trimmed or rejected. *)
  Definition seg_d (s : socket) (r : tcp_repr) : Z := seq_sdiff (r_seq_number r) (tcp_window_start s).
  Definition seg_q (c : Z) (s : socket) (r : tcp_repr) : Z := wsq c s + seg_d s r.
  Definition seg_near (s : socket) (r : tcp_repr) : Prop := - p30 < seg_d s r < p30.

  Definition seg_ok (c : Z) (s : socket) (r : tcp_repr) : Prop :=
    let n := l_len (r_payload r) in
    n <= 65535 /\ 0 <= r_seq_number r < 4294967296 /\
    (seg_near s r ->
       (forall j, 0 <= j < n -> wsq c s <= seg_q c s r + j ->
                  znth (r_payload r) j = S (seg_q c s r + j)) /\
       (0 < n -> wsq c s < seg_q c s r + n -> forall f, F = Some f -> seg_q c s r + n <= f) /\
       (r_control r = CFin -> F = Some (seg_q c s r + n))).

  Definition have_seg (have : Z -> Prop) (c : Z) (s : socket) (r : tcp_repr) (k : Z) : Prop :=
    have k \/ (seg_near s r /\ wsq c s <= k /\ seg_q c s r <= k < seg_q c s r + l_len (r_payload r)).

  (* --- the payload phase on a synchronised socket --- *)
  Lemma payload_synced (have have' : Z -> Prop) c s cx ip r payload off res W :
    buf_inv S F have c (s_rx_buffer s) (s_assembler s) ->
    (forall k, have k -> have' k) ->
    0 <= off -> off + l_len payload <= W -> W <= rb_window (s_rx_buffer s) ->
    (forall j, 0 <= j < l_len payload ->
       znth payload j = S (c + rb_len (s_rx_buffer s) + off + j) /\
       have' (c + rb_len (s_rx_buffer s) + off + j)) ->
    (0 < l_len payload -> forall f, F = Some f ->
       c + rb_len (s_rx_buffer s) + off + l_len payload <= f) ->
    tcp_process_payload cx s ip r payload off = res ->
    exists s' rep tg, res = Ok (s', rep, tg) /\ s_state s' = s_state s /\
      s_rx_fin_received s' = s_rx_fin_received s /\ s_remote_seq_no s' = s_remote_seq_no s /\
      s_remote_win_shift s' = s_remote_win_shift s /\
      rb_cap (s_rx_buffer s') = rb_cap (s_rx_buffer s) /\
      rb_read_at (s_rx_buffer s') = rb_read_at (s_rx_buffer s) /\
      buf_inv S F have' c (s_rx_buffer s') (s_assembler s') /\
      rb_len (s_rx_buffer s) <= rb_len (s_rx_buffer s') /\
      reply_ok s' rep /\
      ((* no ACK: exactly the payload was appended (or nothing) *)
       (s_remote_last_ack s' = s_remote_last_ack s /\ s_remote_last_win s' = s_remote_last_win s /\
        rep = None /\
        (rb_len (s_rx_buffer s') = rb_len (s_rx_buffer s) \/
         (off = 0 /\ rb_len (s_rx_buffer s') = rb_len (s_rx_buffer s) + l_len payload)))
       \/
       (s_remote_last_ack s' = Some (tcp_window_start s') /\
        s_remote_last_win s' = tcp_scaled_window s')) /\
      (* FIN bookkeeping: a payload that starts at RCV.NXT and ends at F is appended completely *)
      (forall f, off = 0 -> F = Some f -> c + rb_len (s_rx_buffer s) + l_len payload = f ->
                 rb_len (s_rx_buffer s') = rb_len (s_rx_buffer s) + l_len payload) /\
      (l_len payload = 0 -> s' = s) /\
      (forall i, 0 <= i < rb_cap (s_rx_buffer s) ->
                 ~ (rb_len (s_rx_buffer s) + off <= i < rb_len (s_rx_buffer s) + off + l_len payload) ->
                 rb_cell (s_rx_buffer s') i = rb_cell (s_rx_buffer s) i).
  Proof.
    intros Hb Hmono Hoff Hfit HW Hpay HFpay Hres.
    pose proof (l_len_nonneg payload) as Hl0.
    unfold tcp_process_payload in Hres.
    destruct (Z.eqb_spec (l_len payload) 0) as [E0|E0].
    { subst res. exists s, None, 190. split; [reflexivity|].
      repeat (split; [reflexivity|]). split; [eapply buf_inv_mono; eassumption|].
      split; [lia|]. split; [exact I|]. split.
      - left. repeat (split; [reflexivity|]). left. reflexivity.
      - split; [intros f _ _ Hf; lia|]. split; reflexivity. }
    fold asm_cap in Hres.
    destruct (asm_atrf asm_cap (s_assembler s) off (l_len payload)) as (a', [contig|]) eqn:Hat.
    2:{ subst res. exists s, None, 191. split; [reflexivity|].
        repeat (split; [reflexivity|]). split; [eapply buf_inv_mono; eassumption|].
        split; [lia|]. split; [exact I|]. split.
        - left. repeat (split; [reflexivity|]). left. reflexivity.
        - split; [|split; reflexivity]. intros f Hoff0 Hf Heq. exfalso.
          pose proof Hb as (_ & _ & Hawf & Halen & _).
          pose proof (c15_atrf_offset0_never_fails asm_cap (s_assembler s) (l_len payload)
                        Hawf Halen asm_cap_pos Hl0) as Hnf.
          subst off. rewrite Hat in Hnf. cbn in Hnf. congruence. }
    rproj.
    destruct (rb_write_unallocated (s_rx_buffer s) off payload) as (rx1, n) eqn:Hw.
    destruct (payload_buf_inv S F have have' c (s_rx_buffer s) (s_assembler s) off payload a' contig rx1 n
                Hb Hmono Hoff ltac:(lia) ltac:(lia) Hpay (HFpay ltac:(lia)) Hat Hw)
      as (Hn & Hcontig & rx2 & He & Hb' & Hl2 & (Hc2 & Hra2) & Hfront & Hpark & Hexact & Hfin & Hcells).
    subst n. rewrite Z.eqb_refl in Hres. cbn [negb] in Hres.
    rewrite He in Hres. cbn [obind] in Hres.
    (* the delayed-ACK bookkeeping does not touch the view *)
    set (s1 := upd_rx_buffer (upd_assembler s a') rx2) in *.
    match type of Hres with
    | (let '(s, tg) := ?X in _) = _ => set (dk := X) in *
    end.
    assert (Hdk : frame (fst dk) s1).
    { unfold dk. repeat match goal with
      | |- context [match ?x with _ => _ end] => destruct x
      end; cbn [fst]; frame_solve. }
    destruct dk as (s2, tg). cbn [fst] in Hdk. destruct Hdk as (Hv2 & Hst2).
    pose proof Hv2 as (E1 & E2 & E3 & E4 & E5 & E6 & E7). unfold s1 in E1, E2, E3, E4, E5, E6, E7, Hst2.
    rproj.
    destruct (negb (asm_is_empty (s_assembler s2)) || negb (asm_is_empty (s_assembler s))) eqn:Hack.
    - (* ACK sent *)
      destruct (tcp_ack_reply cx s2 ip r) as (s3, p) eqn:Har. subst res.
      destruct (ack_reply_rxv _ _ _ _ _ _ Har) as (Ha & Hst3 & Hp1 & Hp2 & Hp3).
      pose proof (acked_window_start _ _ Ha) as Hws3.
      destruct Ha as (A1 & A2 & A3 & A4 & A5 & A6 & A7).
      exists s3, (Some p), (tg + 10000). split; [reflexivity|].
      split; [congruence|]. split; [congruence|]. split; [congruence|]. split; [congruence|].
      rewrite A2, A1, E2, E1. split; [exact Hc2|]. split; [exact Hra2|]. split; [exact Hb'|]. split; [lia|].
      split.
      { unfold reply_ok. right. split; [exact Hp2|]. rewrite Hws3. split; [exact Hp1|].
        rewrite A6. exact Hp3. }
      split.
      + right. rewrite A5, A6, Hws3. split; [reflexivity|].
        unfold tcp_scaled_window. rewrite A2, A7. reflexivity.
      + split; [|split; [lia|]].
        * intros f Hoff0 Hf Heq. rewrite Hl2. rewrite (Hfin f Hoff0 Hf Heq). reflexivity.
        * intros i Hi Hout. apply Hcells; assumption.
    - (* no ACK: the assembler was and is empty *)
      subst res. apply orb_false_elim in Hack. destruct Hack as (Hk1 & Hk2).
      apply negb_false_iff in Hk1. apply negb_false_iff in Hk2.
      rewrite E1 in Hk1.
      assert (Hae : s_assembler s = []) by (destruct (s_assembler s); [reflexivity | discriminate]).
      assert (Ha'e : a' = []) by (destruct a'; [reflexivity | discriminate]).
      exists s2, None, tg. split; [reflexivity|].
      split; [congruence|]. split; [congruence|]. split; [congruence|]. split; [congruence|].
      rewrite E2, E1. split; [exact Hc2|]. split; [exact Hra2|]. split; [exact Hb'|]. split; [lia|]. split; [exact I|].
      split.
      + left. split; [congruence|]. split; [congruence|]. split; [reflexivity|].
        destruct (Z.eq_dec off 0) as [Hz|Hnz].
        * destruct (Hexact Hz Hae) as (Hce & _). right. split; [exact Hz | lia].
        * destruct (Hpark ltac:(lia) Hae) as (_ & Hne). congruence.
      + split; [|split; [lia|]].
        * intros f Hoff0 Hf Heq. rewrite Hl2. rewrite (Hfin f Hoff0 Hf Heq). reflexivity.
        * intros i Hi Hout. apply Hcells; assumption.
  Qed.
End Proc.
