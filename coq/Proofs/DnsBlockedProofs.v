(* DNS resolver socket under device back-pressure (src/socket/dns.rs Socket::dispatch when the emit closure
   fails: no transmit token, neighbour unresolved; property C19 clause `queries terminate`): what a failed emit
   leaves behind, and that the per-server timeout runs from the first dispatch ATTEMPT. *)
From SV Require Import Lib.Base Gen.Consts Gen.WireFields Model.WireDns Model.Dns Proofs.WireDnsProofs Proofs.DnsProofs.

(* the failed emit: same decisions as a dispatch whose emit succeeds, up to the emit itself; the state it
   leaves is dns_pq2 - the per-server timer armed by this ATTEMPT (or the fail-over applied), nothing else *)
Lemma dns_dispatch_query_emit_fail cfg servers now pq :
  match dns_dispatch_query cfg servers now true pq with
  | Ok (DqEmit _ _) => dns_dispatch_query cfg servers now false pq = Ok (DqEmitErr (QPending (dns_pq2 now pq)))
  | x => dns_dispatch_query cfg servers now false pq = x
  end.
Proof.
  unfold dns_dispatch_query.
  set (srv := if pq_mdns pq then [dns_MDNS_IPV6_ADDR; dns_MDNS_IPV4_ADDR] else servers).
  set (timeout := match pq_timeout_at pq with Some t => t | None => now + dns_RETRANSMIT_TIMEOUT end).
  assert (E2 : (if timeout <=? now
        then dns_pq_with_timers (dns_pq_with_timers pq (Some timeout) (pq_retransmit_at pq) (pq_delay pq) (pq_server_idx pq))
               (Some (now + dns_RETRANSMIT_TIMEOUT)) 0 dns_RETRANSMIT_DELAY
               (pq_server_idx (dns_pq_with_timers pq (Some timeout) (pq_retransmit_at pq) (pq_delay pq) (pq_server_idx pq)) + 1)
        else dns_pq_with_timers pq (Some timeout) (pq_retransmit_at pq) (pq_delay pq) (pq_server_idx pq)) = dns_pq2 now pq).
  { unfold dns_pq2. fold timeout. destruct (timeout <=? now); reflexivity. }
  rewrite E2. clear E2. set (pq2 := dns_pq2 now pq).
  destruct (Z.of_nat (length srv) <=? pq_server_idx pq2); [reflexivity|].
  destruct (nth_error srv (Z.to_nat (pq_server_idx pq2))) as [dst|]; [|reflexivity].
  destruct (dns_is_unspecified dst); [reflexivity|].
  destruct (now <? pq_retransmit_at pq2); [reflexivity|].
  destruct (wdns_slice _ _ _) as [buf| |]; cbn [obind]; try reflexivity.
  destruct (wdns_repr_emit _ buf) as [payload| |]; cbn [obind]; try reflexivity.
  destruct (negb (dns_get_source_address cfg dst)); cbn [negb]; reflexivity.
Qed.

(* the attempt arms the timer: after ANY dispatch attempt the per-server deadline exists and lies in the future *)
Lemma dns_pq2_timeout_armed now pq :
  exists t, pq_timeout_at (dns_pq2 now pq) = Some t /\ now < t.
Proof.
  pose proof dns_consts_pos as (_ & _ & P3). unfold dns_pq2.
  destruct (pq_timeout_at pq) as [t0|] eqn:E.
  - destruct (t0 <=? now) eqn:L.
    + eexists. split; [reflexivity|]. lia.
    + exists t0. split; [reflexivity|]. apply Z.leb_gt in L. lia.
  - destruct (now + dns_RETRANSMIT_TIMEOUT <=? now) eqn:L; [apply Z.leb_le in L; lia|].
    eexists. split; [reflexivity|]. lia.
Qed.

(* the 10 s of a server run from the first dispatch ATTEMPT, whether or not anything could be sent:
   a second attempt RETRANSMIT_TIMEOUT later moves on to the next server ... *)
Lemma dns_blocked_failover now now' pq :
  pq_timeout_at pq = None -> now + dns_RETRANSMIT_TIMEOUT <= now' ->
  pq_server_idx (dns_pq2 now' (dns_pq2 now pq)) = pq_server_idx pq + 1.
Proof.
  intros Hn Hl. pose proof dns_consts_pos as (_ & _ & P3). unfold dns_pq2 at 2. rewrite Hn.
  destruct (now + dns_RETRANSMIT_TIMEOUT <=? now) eqn:L; [apply Z.leb_le in L; lia|].
  unfold dns_pq2. cbn [pq_timeout_at dns_pq_with_timers pq_server_idx].
  replace (now + dns_RETRANSMIT_TIMEOUT <=? now') with true by (symmetry; apply Z.leb_le; lia).
  reflexivity.
Qed.

(* ... and when there is no next server the query fails at that attempt, with or without a transmit token *)
Lemma dns_dispatch_after_blocked_attempt cfg servers now now' pq b :
  pq_timeout_at pq = None -> now + dns_RETRANSMIT_TIMEOUT <= now' ->
  Z.of_nat (length (dns_eff_servers servers pq)) <= pq_server_idx pq + 1 ->
  dns_dispatch_query cfg servers now' b (dns_pq2 now pq) = Ok (DqContinue QFailure).
Proof.
  intros Hn Hl Hs. pose proof (dns_blocked_failover now now' pq Hn Hl) as Hi.
  unfold dns_dispatch_query.
  set (p1 := dns_pq2 now pq) in *.
  set (timeout := match pq_timeout_at p1 with Some t => t | None => now' + dns_RETRANSMIT_TIMEOUT end).
  assert (E2 : (if timeout <=? now'
        then dns_pq_with_timers (dns_pq_with_timers p1 (Some timeout) (pq_retransmit_at p1) (pq_delay p1) (pq_server_idx p1))
               (Some (now' + dns_RETRANSMIT_TIMEOUT)) 0 dns_RETRANSMIT_DELAY
               (pq_server_idx (dns_pq_with_timers p1 (Some timeout) (pq_retransmit_at p1) (pq_delay p1) (pq_server_idx p1)) + 1)
        else dns_pq_with_timers p1 (Some timeout) (pq_retransmit_at p1) (pq_delay p1) (pq_server_idx p1)) = dns_pq2 now' p1).
  { unfold dns_pq2 at 1. fold timeout. destruct (timeout <=? now'); reflexivity. }
  rewrite E2. clear E2.
  assert (Em : pq_mdns p1 = pq_mdns pq).
  { subst p1. unfold dns_pq2. destruct (_ <=? now); reflexivity. }
  rewrite Em. unfold dns_eff_servers in Hs. rewrite Hi.
  replace (Z.of_nat (length (if pq_mdns pq then [dns_MDNS_IPV6_ADDR; dns_MDNS_IPV4_ADDR] else servers)) <=? pq_server_idx pq + 1)
    with true by (symmetry; apply Z.leb_le; exact Hs).
  reflexivity.
Qed.
