(* Lemmas about Model/WireIphc.v (property C20, step 3), continued: stage-by-stage evaluation of
   Repr::emit, the closed form of the emitted header, and Repr::parse as its inverse. *)
From SV Require Import Lib.Base Gen.Consts Gen.WireFields Model.WireBase Model.WireIphc.
From SV Require Import Proofs.WireBaseProofs Proofs.LowpanWireProofs Proofs.LowpanIphcBitsProofs.

(* ---------- the base header word at the front of a buffer ---------- *)

Lemma wb_get_u16_hd b0 b1 t : wb_get_u16 (b0 :: b1 :: t) wiphc_f_IPHC_FIELD = Ok (b0 * 256 + b1).
Proof.
  unfold wb_get_u16, wb_get_be, wb_sub. zfold. autorewrite with blen. pose proof (blen_nonneg t).
  zbool. cbn [obind skipn firstn]. unfold blen. cbn [length]. zfold. cbn [firstn].
  rewrite be_dec2. reflexivity.
Qed.

Lemma wb_put_u16_hd b0 b1 t v : wb_put_u16 (b0 :: b1 :: t) wiphc_f_IPHC_FIELD v = Ok (be_enc2 v ++ t).
Proof.
  unfold wb_put_u16, wb_put_be. zfold. autorewrite with blen. pose proof (blen_nonneg t).
  unfold be_enc2 at 1 2. unfold blen at 2 3. cbn [length]. zfold. zbool. cbn [firstn skipn app]. reflexivity.
Qed.

Lemma iphc_set_field_bytes m s v b0 b1 t : In (m, s, v) iphc_triples -> 0 <= b0 < 256 -> 0 <= b1 < 256 ->
  iphc_set_field (b0 :: b1 :: t) m s v =
  Ok ((if 8 <=? s then [sf8 b0 m (s - 8) v; b1] else [b0; sf8 b1 m s v]) ++ t).
Proof.
  intros Hin H0 H1. unfold iphc_set_field, wb_upd_u16. rewrite wb_get_u16_hd. cbn [obind].
  rewrite wb_put_u16_hd. f_equal. f_equal. apply (iphc_setf_bytes m s v b0 b1 Hin H0 H1).
Qed.

Lemma iphc_set_dispatch_bytes b0 b1 t : 0 <= b0 < 256 -> 0 <= b1 < 256 ->
  iphc_set_dispatch_field (b0 :: b1 :: t) = Ok (Z.lor (Z.land b0 31) 96 :: b1 :: t).
Proof.
  intros H0 H1. unfold iphc_set_dispatch_field, wb_upd_u16. rewrite wb_get_u16_hd. cbn [obind].
  rewrite wb_put_u16_hd. cfold. destruct (iphc_disp_bytes b0 b1 H0 H1) as (E1 & E2).
  unfold be_enc2. rewrite E1, E2. reflexivity.
Qed.

(* getters *)
Lemma iphc_get_field_hd b0 b1 t mask shift :
  iphc_get_field (b0 :: b1 :: t) mask shift = Ok (Z.land (Z.shiftr (b0 * 256 + b1) shift) mask).
Proof. unfold iphc_get_field. rewrite wb_get_u16_hd. reflexivity. Qed.

(* set_field(idx, value) in the middle of a buffer *)
Lemma wb_set_slice_mid pre old rest v : blen old = blen v ->
  wb_set_slice (pre ++ old ++ rest) (blen pre) (blen pre + blen v) v = Ok (pre ++ v ++ rest).
Proof.
  intros Hl. unfold wb_set_slice. rewrite !blen_app.
  pose proof (blen_nonneg pre). pose proof (blen_nonneg v). pose proof (blen_nonneg rest). zbool.
  f_equal.
  replace (Z.to_nat (blen pre)) with (length pre) by (unfold blen; lia).
  rewrite firstn_app, firstn_all, Nat.sub_diag. cbn [firstn]. rewrite app_nil_r. f_equal. f_equal.
  replace (Z.to_nat (blen pre + blen v)) with (length pre + length old)%nat by (unfold blen in *; lia).
  rewrite skipn_app, skipn_all2 by lia. cbn [app].
  replace (length pre + length old - length pre)%nat with (length old) by lia.
  rewrite skipn_app, skipn_all, Nat.sub_diag. reflexivity.
Qed.

Lemma iphc_put_mid pre old rest v idx : idx = blen pre -> blen old = blen v ->
  iphc_put (pre ++ old ++ rest) idx v = Ok (pre ++ v ++ rest).
Proof. intros -> Hl. unfold iphc_put. apply wb_set_slice_mid. assumption. Qed.

Lemma iphc_put_hd b0 b1 done old rest v idx : idx = 2 + blen done -> blen old = blen v ->
  iphc_put (b0 :: b1 :: done ++ old ++ rest) idx v = Ok (b0 :: b1 :: done ++ v ++ rest).
Proof.
  intros Hi Hl. apply (iphc_put_mid (b0 :: b1 :: done) old rest v idx); [|assumption].
  autorewrite with blen. lia.
Qed.

(* ---------- what each stage of Repr::emit contributes ---------- *)

(* in-line octets *)
Definition iphc_nh_bytes (nh : option Z) : list Z := match nh with Some p => [p] | None => [] end.
Definition iphc_nh_bit (nh : option Z) : Z := match nh with Some _ => 0 | None => 1 end.
Definition iphc_hl_code (hl : Z) : Z := if hl =? 255 then 3 else if hl =? 64 then 2 else if hl =? 1 then 1 else 0.
Definition iphc_hl_bytes (hl : Z) : list Z := if iphc_hl_code hl =? 0 then [hl] else [].

(* (SAC, SAM, in-line octets) chosen by set_src_address *)
Definition iphc_src_mode (src : list Z) (ll : option iphc_ll) : Z * Z * list Z :=
  if iphc_is_unspecified src then (1, 0, [])
  else if iphc_is_link_local src then
    if iphc_short_form src then
      if iphc_ll_is_short src ll then (0, 3, []) else (0, 2, iphc_sl src 14 16)
    else if iphc_is_eui64 src ll then (0, 3, []) else (0, 1, iphc_sl src 8 16)
  else (0, 0, src).

(* (M, DAM, in-line octets) chosen by set_dst_address; DAC is always 0 *)
Definition iphc_dst_mode (dst : list Z) (ll : option iphc_ll) : Z * Z * list Z :=
  if iphc_is_multicast dst then
    if (nth 1 dst 0 =? 2) && iphc_list_eqb (iphc_sl dst 2 15) (iphc_zeros 13) then (1, 3, [nth 15 dst 0])
    else if iphc_list_eqb (iphc_sl dst 2 13) (iphc_zeros 11) then (1, 2, [nth 1 dst 0] ++ iphc_sl dst 13 16)
    else if iphc_list_eqb (iphc_sl dst 2 11) (iphc_zeros 9) then (1, 1, [nth 1 dst 0] ++ iphc_sl dst 11 16)
    else (1, 0, dst)
  else if iphc_is_link_local dst then
    if iphc_short_form dst then
      if iphc_ll_is_short dst ll then (0, 3, []) else (0, 2, iphc_sl dst 14 16)
    else if iphc_is_eui64 dst ll then (0, 3, []) else (0, 1, iphc_sl dst 8 16)
  else (0, 0, dst).

(* the two octets of the base header *)
Definition iphc_hdr0 (nh : option Z) (hl : Z) : Z := 120 + 4 * iphc_nh_bit nh + iphc_hl_code hl.
Definition iphc_hdr1 (sac sam m dam : Z) : Z := sac * 64 + sam * 16 + m * 8 + dam.

(* the octets Repr::emit produces *)
Definition iphc_bytes (r : iphc_repr) : list Z :=
  let '(sac, sam, sb) := iphc_src_mode (ir_src r) (ir_ll_src r) in
  let '(m, dam, db) := iphc_dst_mode (ir_dst r) (ir_ll_dst r) in
  [iphc_hdr0 (ir_nh r) (ir_hl r); iphc_hdr1 sac sam m dam] ++
  iphc_nh_bytes (ir_nh r) ++ iphc_hl_bytes (ir_hl r) ++ sb ++ db.

(* first octet: dispatch, TF = 0b11, NH, HLIM -- whatever the octet held before *)
Lemma iphc_hdr0_bits : forall b0 nhb hlc, 0 <= b0 < 256 -> 0 <= nhb < 2 -> 0 <= hlc < 4 ->
  sf8 (sf8 (sf8 (Z.lor (Z.land b0 31) 96) 3 3 3) 1 2 nhb) 3 0 hlc = 120 + 4 * nhb + hlc.
Proof.
  intros b0 nhb hlc H0 H1 H2.
  assert (H : forallb (fun b0 => forallb (fun nhb => forallb (fun hlc =>
     sf8 (sf8 (sf8 (Z.lor (Z.land b0 31) 96) 3 3 3) 1 2 nhb) 3 0 hlc =? 120 + 4 * nhb + hlc)
     (zrange 4)) (zrange 2)) (zrange 256) = true) by (vm_compute; reflexivity).
  pose proof (zrange_forall2 _ 256 2 H b0 nhb H0 H1) as E. cbv beta in E.
  pose proof (zrange_forall _ 4 E hlc H2) as E'. cbv beta in E'. apply Z.eqb_eq in E'. exact E'.
Qed.

(* second octet after set_src_address: CID = 0, SAC, SAM set; the low nibble untouched *)
Lemma iphc_hdr1_src_bits : forall b1 sac sam, 0 <= b1 < 256 -> 0 <= sac < 2 -> 0 <= sam < 4 ->
  sf8 (sf8 (sf8 b1 1 7 0) 1 6 0) 3 4 sam = sam * 16 + b1 mod 16 /\
  sf8 (sf8 (sf8 (sf8 b1 1 7 0) 1 6 0) 1 6 sac) 3 4 sam = sac * 64 + sam * 16 + b1 mod 16.
Proof.
  intros b1 sac sam H0 H1 H2.
  assert (H : forallb (fun b1 => forallb (fun sac => forallb (fun sam =>
     (sf8 (sf8 (sf8 b1 1 7 0) 1 6 0) 3 4 sam =? sam * 16 + b1 mod 16) &&
     (sf8 (sf8 (sf8 (sf8 b1 1 7 0) 1 6 0) 1 6 sac) 3 4 sam =? sac * 64 + sam * 16 + b1 mod 16))
     (zrange 4)) (zrange 2)) (zrange 256) = true) by (vm_compute; reflexivity).
  pose proof (zrange_forall2 _ 256 2 H b1 sac H0 H1) as E. cbv beta in E.
  pose proof (zrange_forall _ 4 E sam H2) as E'. cbv beta in E'.
  apply andb_prop in E'. destruct E' as (E1 & E2). split; apply Z.eqb_eq; assumption.
Qed.

(* second octet after set_dst_address: DAC = 0, M, DAM set; the high nibble untouched *)
Lemma iphc_hdr1_dst_bits : forall b1 m dam, 0 <= b1 < 256 -> 0 <= m < 2 -> 0 <= dam < 4 ->
  sf8 (sf8 (sf8 (sf8 b1 1 2 0) 3 0 0) 1 3 0) 3 0 dam = (b1 / 16) * 16 + dam /\
  sf8 (sf8 (sf8 (sf8 (sf8 b1 1 2 0) 3 0 0) 1 3 0) 1 3 m) 3 0 dam = (b1 / 16) * 16 + m * 8 + dam.
Proof.
  intros b1 m dam H0 H1 H2.
  assert (H : forallb (fun b1 => forallb (fun m => forallb (fun dam =>
     (sf8 (sf8 (sf8 (sf8 b1 1 2 0) 3 0 0) 1 3 0) 3 0 dam =? (b1 / 16) * 16 + dam) &&
     (sf8 (sf8 (sf8 (sf8 (sf8 b1 1 2 0) 3 0 0) 1 3 0) 1 3 m) 3 0 dam =? (b1 / 16) * 16 + m * 8 + dam))
     (zrange 4)) (zrange 2)) (zrange 256) = true) by (vm_compute; reflexivity).
  pose proof (zrange_forall2 _ 256 2 H b1 m H0 H1) as E. cbv beta in E.
  pose proof (zrange_forall _ 4 E dam H2) as E'. cbv beta in E'.
  apply andb_prop in E'. destruct E' as (E1 & E2). split; apply Z.eqb_eq; assumption.
Qed.

(* ---------- the stages of Repr::emit on a buffer  b0 :: b1 :: done ++ old ++ rest ---------- *)

Ltac triple_in := unfold iphc_triples; cbn [In]; tauto.

Ltac setf_step :=
  match goal with
  | |- context [iphc_set_field (?b0 :: ?b1 :: ?t) ?m ?s ?v] =>
      rewrite (iphc_set_field_bytes m s v b0 b1 t) by (first [triple_in | lia | assumption]);
      zfold; cbn [app obind]
  end.

Lemma sf8_byte x m s v : In (m, s, v) iphc_triples -> 0 <= x < 256 ->
  0 <= sf8 x m (if 8 <=? s then s - 8 else s) v < 256.
Proof.
  intros Hin Hx. pose proof (sf8_range x Hx) as H. rewrite forallb_forall in H.
  specialize (H _ Hin). cbv beta iota zeta in H. apply andb_prop in H. destruct H as (H1 & H2).
  apply Z.leb_le in H1. apply Z.ltb_lt in H2. lia.
Qed.

Ltac sf8_rng := 
  match goal with
  | |- 0 <= sf8 ?x ?m ?s ?v < 256 =>
      first [ exact (sf8_byte x m s v ltac:(triple_in) ltac:(first [assumption | lia | sf8_rng]))
            | exact (sf8_byte x m (s + 8) v ltac:(triple_in) ltac:(first [assumption | lia | sf8_rng])) ]
  end.

Lemma iphc_stage_nh b0 b1 old rest nh :
  0 <= b0 < 256 -> 0 <= b1 < 256 -> blen old = blen (iphc_nh_bytes nh) ->
  iphc_set_next_header (b0 :: b1 :: old ++ rest) nh 2 =
  Ok (sf8 b0 1 2 (iphc_nh_bit nh) :: b1 :: iphc_nh_bytes nh ++ rest, 2 + blen (iphc_nh_bytes nh)).
Proof.
  intros H0 H1 Hl. unfold iphc_set_next_header, iphc_set_nh. destruct nh as [p|]; cbn [iphc_nh_bytes iphc_nh_bit] in *.
  - setf_step.
    rewrite (iphc_put_hd _ _ [] old rest [p] 2) by (try reflexivity; assumption).
    cbn [obind app]. reflexivity.
  - setf_step. apply (blen_length _ 0) in Hl. destruct old; [|discriminate Hl]. reflexivity.
Qed.

Lemma iphc_stage_hl b0 b1 done old rest hl idx :
  0 <= b0 < 256 -> 0 <= b1 < 256 -> idx = 2 + blen done -> blen old = blen (iphc_hl_bytes hl) ->
  iphc_set_hop_limit (b0 :: b1 :: done ++ old ++ rest) hl idx =
  Ok (sf8 b0 3 0 (iphc_hl_code hl) :: b1 :: done ++ iphc_hl_bytes hl ++ rest, idx + blen (iphc_hl_bytes hl)).
Proof.
  intros H0 H1 Hi Hl. unfold iphc_set_hop_limit, iphc_set_hlim, iphc_hl_bytes, iphc_hl_code in *.
  destruct (hl =? 255); [|destruct (hl =? 64); [|destruct (hl =? 1)]]; zfold_in Hl; zfold;
    cbn [app] in *.
  1,2,3: setf_step; apply (blen_length _ 0) in Hl; destruct old; [|discriminate Hl];
         cbn [app]; f_equal; f_equal; lia.
  setf_step.
  rewrite (iphc_put_hd _ _ done old rest [hl] idx) by assumption.
  cbn [obind app]. reflexivity.
Qed.

Lemma iphc_sl_len a lo hi : length a = 16%nat -> (lo <= hi <= 16)%nat -> blen (iphc_sl a lo hi) = Z.of_nat (hi - lo).
Proof.
  intros Ha Hh. unfold iphc_sl, blen. rewrite firstn_length, skipn_length, Ha. lia.
Qed.

Lemma iphc_stage_src b0 b1 done old rest src ll idx :
  0 <= b0 < 256 -> 0 <= b1 < 256 -> idx = 2 + blen done -> length src = 16%nat ->
  blen old = blen (snd (iphc_src_mode src ll)) ->
  iphc_set_src_address (b0 :: b1 :: done ++ old ++ rest) src ll idx =
  Ok (b0 :: (fst (fst (iphc_src_mode src ll)) * 64 + snd (fst (iphc_src_mode src ll)) * 16 + b1 mod 16)
         :: done ++ snd (iphc_src_mode src ll) ++ rest,
      idx + blen (snd (iphc_src_mode src ll))).
Proof.
  intros H0 H1 Hi Hs Hl. unfold iphc_set_src_address, iphc_set_cid, iphc_set_sac, iphc_set_sam, iphc_src_mode in *.
  assert (R1 : 0 <= sf8 b1 1 7 0 < 256) by sf8_rng.
  assert (R2 : 0 <= sf8 (sf8 b1 1 7 0) 1 6 0 < 256) by sf8_rng.
  assert (R3 : 0 <= sf8 (sf8 (sf8 b1 1 7 0) 1 6 0) 1 6 1 < 256) by sf8_rng.
  setf_step. setf_step.
  destruct (iphc_is_unspecified src).
  - cbn [fst snd] in *. setf_step. setf_step.
    destruct (iphc_hdr1_src_bits b1 1 0 H1 ltac:(lia) ltac:(lia)) as (_ & E). rewrite E.
    apply (blen_length _ 0) in Hl. destruct old; [|discriminate Hl]. cbn [app]. f_equal. f_equal. lia.
  - destruct (iphc_is_link_local src).
    + destruct (iphc_short_form src).
      * destruct (iphc_ll_is_short src ll); cbn [fst snd] in *.
        -- setf_step. destruct (iphc_hdr1_src_bits b1 0 3 H1 ltac:(lia) ltac:(lia)) as (E & _). rewrite E.
           apply (blen_length _ 0) in Hl. destruct old; [|discriminate Hl]. cbn [app]. f_equal. f_equal. lia.
        -- setf_step. destruct (iphc_hdr1_src_bits b1 0 2 H1 ltac:(lia) ltac:(lia)) as (E & _). rewrite E.
           rewrite (iphc_put_hd _ _ done old rest _ idx) by assumption. cbn [obind].
           rewrite iphc_sl_len by (try assumption; lia). reflexivity.
      * destruct (iphc_is_eui64 src ll); cbn [fst snd] in *.
        -- setf_step. destruct (iphc_hdr1_src_bits b1 0 3 H1 ltac:(lia) ltac:(lia)) as (E & _). rewrite E.
           apply (blen_length _ 0) in Hl. destruct old; [|discriminate Hl]. cbn [app]. f_equal. f_equal. lia.
        -- setf_step. destruct (iphc_hdr1_src_bits b1 0 1 H1 ltac:(lia) ltac:(lia)) as (E & _). rewrite E.
           rewrite (iphc_put_hd _ _ done old rest _ idx) by assumption. cbn [obind].
           rewrite iphc_sl_len by (try assumption; lia). reflexivity.
    + cbn [fst snd] in *. setf_step.
      destruct (iphc_hdr1_src_bits b1 0 0 H1 ltac:(lia) ltac:(lia)) as (E & _). rewrite E.
      rewrite (iphc_put_hd _ _ done old rest _ idx) by assumption. cbn [obind].
      replace (blen src) with 16 by (unfold blen; lia). reflexivity.
Qed.

Lemma ok_pair_eq (b0 a a' : Z) (t t' : list Z) (i i' : Z) : a = a' -> t = t' -> i = i' ->
  @Ok (list Z * Z) (b0 :: a :: t, i) = Ok (b0 :: a' :: t', i').
Proof. intros -> -> ->. reflexivity. Qed.
Ltac okp := apply ok_pair_eq; [lia | try reflexivity | try lia].

Lemma iphc_stage_dst b0 b1 done old rest dst ll idx :
  0 <= b0 < 256 -> 0 <= b1 < 256 -> idx = 2 + blen done -> length dst = 16%nat ->
  blen old = blen (snd (iphc_dst_mode dst ll)) ->
  iphc_set_dst_address (b0 :: b1 :: done ++ old ++ rest) dst ll idx =
  Ok (b0 :: ((b1 / 16) * 16 + fst (fst (iphc_dst_mode dst ll)) * 8 + snd (fst (iphc_dst_mode dst ll)))
         :: done ++ snd (iphc_dst_mode dst ll) ++ rest,
      idx + blen (snd (iphc_dst_mode dst ll))).
Proof.
  intros H0 H1 Hi Hs Hl. unfold iphc_set_dst_address, iphc_set_dac, iphc_set_dam, iphc_set_m, iphc_dst_mode in *.
  assert (R1 : 0 <= sf8 b1 1 2 0 < 256) by sf8_rng.
  assert (R2 : 0 <= sf8 (sf8 b1 1 2 0) 3 0 0 < 256) by sf8_rng.
  assert (R3 : 0 <= sf8 (sf8 (sf8 b1 1 2 0) 3 0 0) 1 3 0 < 256) by sf8_rng.
  assert (R4 : 0 <= sf8 (sf8 (sf8 (sf8 b1 1 2 0) 3 0 0) 1 3 0) 1 3 1 < 256) by sf8_rng.
  setf_step. setf_step. setf_step.
  destruct (iphc_is_multicast dst).
  - setf_step.
    destruct ((nth 1 dst 0 =? 2) && iphc_list_eqb (iphc_sl dst 2 15) (iphc_zeros 13));
      [|destruct (iphc_list_eqb (iphc_sl dst 2 13) (iphc_zeros 11));
        [|destruct (iphc_list_eqb (iphc_sl dst 2 11) (iphc_zeros 9))]]; cbn [fst snd] in *.
    + setf_step. destruct (iphc_hdr1_dst_bits b1 1 3 H1 ltac:(lia) ltac:(lia)) as (_ & E). rewrite E.
      rewrite (iphc_put_hd _ _ done old rest _ idx) by assumption. cbn [obind]. reflexivity.
    + setf_step. destruct (iphc_hdr1_dst_bits b1 1 2 H1 ltac:(lia) ltac:(lia)) as (_ & E). rewrite E.
      (* two writes: [dst[1]] at idx, dst[13..16] at idx + 1 *)
      assert (Hl2 : blen old = 4).
      { rewrite Hl. autorewrite with blen. rewrite iphc_sl_len by (try assumption; lia). unfold blen. cbn. lia. }
      apply (blen_length _ 4) in Hl2. cells Hl2.
      change ([c; c0; c1; c2] ++ rest) with ([c] ++ [c0; c1; c2] ++ rest).
      rewrite (iphc_put_hd _ _ done [c] _ [nth 1 dst 0] _) by (try assumption; reflexivity). cbn [obind].
      replace (done ++ [nth 1 dst 0] ++ [c0; c1; c2] ++ rest)
        with ((done ++ [nth 1 dst 0]) ++ [c0; c1; c2] ++ rest) by (rewrite <- app_assoc; reflexivity).
      rewrite (iphc_put_hd _ _ (done ++ [nth 1 dst 0]) [c0; c1; c2] rest (iphc_sl dst 13 16) _).
      2: { autorewrite with blen. lia. }
      2: { rewrite iphc_sl_len by (try assumption; lia). reflexivity. }
      cbn [obind]. rewrite <- !app_assoc. cbn [app]. autorewrite with blen.
      rewrite iphc_sl_len by (try assumption; lia). okp.
    + setf_step. destruct (iphc_hdr1_dst_bits b1 1 1 H1 ltac:(lia) ltac:(lia)) as (_ & E). rewrite E.
      assert (Hl2 : blen old = 6).
      { rewrite Hl. autorewrite with blen. rewrite iphc_sl_len by (try assumption; lia). unfold blen. cbn. lia. }
      apply (blen_length _ 6) in Hl2. cells Hl2.
      change ([c; c0; c1; c2; c3; c4] ++ rest) with ([c] ++ [c0; c1; c2; c3; c4] ++ rest).
      rewrite (iphc_put_hd _ _ done [c] _ [nth 1 dst 0] _) by (try assumption; reflexivity). cbn [obind].
      replace (done ++ [nth 1 dst 0] ++ [c0; c1; c2; c3; c4] ++ rest)
        with ((done ++ [nth 1 dst 0]) ++ [c0; c1; c2; c3; c4] ++ rest) by (rewrite <- app_assoc; reflexivity).
      rewrite (iphc_put_hd _ _ (done ++ [nth 1 dst 0]) [c0; c1; c2; c3; c4] rest (iphc_sl dst 11 16) _).
      2: { autorewrite with blen. lia. }
      2: { rewrite iphc_sl_len by (try assumption; lia). reflexivity. }
      cbn [obind]. rewrite <- !app_assoc. cbn [app]. autorewrite with blen.
      rewrite iphc_sl_len by (try assumption; lia). okp.
    + setf_step. destruct (iphc_hdr1_dst_bits b1 1 0 H1 ltac:(lia) ltac:(lia)) as (_ & E). rewrite E.
      rewrite (iphc_put_hd _ _ done old rest _ idx) by assumption. cbn [obind].
      replace (blen dst) with 16 by (unfold blen; lia). reflexivity.
  - destruct (iphc_is_link_local dst).
    + destruct (iphc_short_form dst).
      * destruct (iphc_ll_is_short dst ll); cbn [fst snd] in *.
        -- setf_step. destruct (iphc_hdr1_dst_bits b1 0 3 H1 ltac:(lia) ltac:(lia)) as (E & _). rewrite E.
           apply (blen_length _ 0) in Hl. destruct old; [|discriminate Hl]. cbn [app]. okp.
        -- setf_step. destruct (iphc_hdr1_dst_bits b1 0 2 H1 ltac:(lia) ltac:(lia)) as (E & _). rewrite E.
           rewrite (iphc_put_hd _ _ done old rest _ idx) by assumption. cbn [obind].
           rewrite iphc_sl_len by (try assumption; lia). okp.
      * destruct (iphc_is_eui64 dst ll); cbn [fst snd] in *.
        -- setf_step. destruct (iphc_hdr1_dst_bits b1 0 3 H1 ltac:(lia) ltac:(lia)) as (E & _). rewrite E.
           apply (blen_length _ 0) in Hl. destruct old; [|discriminate Hl]. cbn [app]. okp.
        -- setf_step. destruct (iphc_hdr1_dst_bits b1 0 1 H1 ltac:(lia) ltac:(lia)) as (E & _). rewrite E.
           rewrite (iphc_put_hd _ _ done old rest _ idx) by assumption. cbn [obind].
           rewrite iphc_sl_len by (try assumption; lia). okp.
    + cbn [fst snd] in *. setf_step.
      destruct (iphc_hdr1_dst_bits b1 0 0 H1 ltac:(lia) ltac:(lia)) as (E & _). rewrite E.
      rewrite (iphc_put_hd _ _ done old rest _ idx) by assumption. cbn [obind].
      replace (blen dst) with 16 by (unfold blen; lia). okp.
Qed.

(* ---------- Repr::emit as a whole ---------- *)

Lemma iphc_src_mode_range src ll :
  0 <= fst (fst (iphc_src_mode src ll)) < 2 /\ 0 <= snd (fst (iphc_src_mode src ll)) < 4.
Proof.
  unfold iphc_src_mode.
  destruct (iphc_is_unspecified src); [cbn; lia|]. destruct (iphc_is_link_local src); [|cbn; lia].
  destruct (iphc_short_form src); [destruct (iphc_ll_is_short src ll) | destruct (iphc_is_eui64 src ll)]; cbn; lia.
Qed.

Lemma iphc_dst_mode_range dst ll :
  0 <= fst (fst (iphc_dst_mode dst ll)) < 2 /\ 0 <= snd (fst (iphc_dst_mode dst ll)) < 4.
Proof.
  unfold iphc_dst_mode.
  destruct (iphc_is_multicast dst).
  - destruct ((nth 1 dst 0 =? 2) && iphc_list_eqb (iphc_sl dst 2 15) (iphc_zeros 13)); [cbn; lia|].
    destruct (iphc_list_eqb (iphc_sl dst 2 13) (iphc_zeros 11)); [cbn; lia|].
    destruct (iphc_list_eqb (iphc_sl dst 2 11) (iphc_zeros 9)); cbn; lia.
  - destruct (iphc_is_link_local dst); [|cbn; lia].
    destruct (iphc_short_form dst); [destruct (iphc_ll_is_short dst ll) | destruct (iphc_is_eui64 dst ll)]; cbn; lia.
Qed.

Lemma iphc_hl_code_range hl : 0 <= iphc_hl_code hl < 4.
Proof. unfold iphc_hl_code. destruct (hl =? 255), (hl =? 64), (hl =? 1); lia. Qed.

Lemma iphc_nh_bit_range nh : 0 <= iphc_nh_bit nh < 2.
Proof. destruct nh; cbn; lia. Qed.

Lemma iphc_repr_wf_inv r : iphc_repr_wf r = true ->
  length (ir_src r) = 16%nat /\ length (ir_dst r) = 16%nat /\
  bytes_ok (ir_src r) = true /\ bytes_ok (ir_dst r) = true /\
  iphc_ll_wf (ir_ll_src r) = true /\ iphc_ll_wf (ir_ll_dst r) = true /\
  (forall p, ir_nh r = Some p -> 0 <= p < 256) /\ 0 <= ir_hl r < 256 /\
  ir_ecn r = None /\ ir_dscp r = None /\ ir_flow r = None.
Proof.
  unfold iphc_repr_wf. intros H.
  destruct (ir_ecn r), (ir_dscp r), (ir_flow r);
    try (rewrite !andb_false_r in H; discriminate H).
  rewrite andb_true_r in H. bsplit.
  split; [apply (blen_length _ 16); assumption|]. split; [apply (blen_length _ 16); assumption|].
  split; [assumption|]. split; [assumption|]. split; [assumption|]. split; [assumption|].
  split.
  - intros p Hp. match goal with H : match ir_nh r with _ => _ end = true |- _ => rewrite Hp in H; bsplit; lia end.
  - split; [lia | auto].
Qed.

Lemma iphc_bytes_len r :
  blen (iphc_bytes r) = 2 + blen (iphc_nh_bytes (ir_nh r)) + blen (iphc_hl_bytes (ir_hl r)) +
                        blen (snd (iphc_src_mode (ir_src r) (ir_ll_src r))) +
                        blen (snd (iphc_dst_mode (ir_dst r) (ir_ll_dst r))).
Proof.
  unfold iphc_bytes. destruct (iphc_src_mode (ir_src r) (ir_ll_src r)) as ((sac, sam), sb).
  destruct (iphc_dst_mode (ir_dst r) (ir_ll_dst r)) as ((m, dam), db). cbn [fst snd].
  autorewrite with blen. lia.
Qed.

(* split a list at a given length *)
Lemma split_len (l : list Z) (a : Z) : 0 <= a <= blen l ->
  exists x y, l = x ++ y /\ blen x = a /\ blen y = blen l - a.
Proof.
  intros H. destruct (split_hdr l a H) as (x & y & E & Hx & Hy). exists x, y.
  split; [assumption|]. split; [unfold blen; lia | assumption].
Qed.

Theorem iphc_emit_exact r h t : iphc_repr_wf r = true -> bytes_ok h = true ->
  blen h = blen (iphc_bytes r) -> iphc_emit r (h ++ t) = Ok (iphc_bytes r ++ t).
Proof.
  intros Hwf Hb Hl. destruct (iphc_repr_wf_inv r Hwf) as (Hs & Hd & _ & _ & _ & _ & Hnh & Hhl & _).
  rewrite iphc_bytes_len in Hl.
  pose proof (blen_nonneg (iphc_nh_bytes (ir_nh r))) as N1.
  pose proof (blen_nonneg (iphc_hl_bytes (ir_hl r))) as N2.
  pose proof (blen_nonneg (snd (iphc_src_mode (ir_src r) (ir_ll_src r)))) as N3.
  pose proof (blen_nonneg (snd (iphc_dst_mode (ir_dst r) (ir_ll_dst r)))) as N4.
  (* cut the buffer into the pieces the stages write *)
  destruct (split_len h 2 ltac:(lia)) as (w & h1 & -> & Lw & L1). rewrite blen_app in Hl.
  destruct (split_len h1 (blen (iphc_nh_bytes (ir_nh r))) ltac:(lia)) as (o1 & h2 & -> & Lo1 & L2).
  rewrite blen_app in *.
  destruct (split_len h2 (blen (iphc_hl_bytes (ir_hl r))) ltac:(lia)) as (o2 & h3 & -> & Lo2 & L3).
  rewrite blen_app in *.
  destruct (split_len h3 (blen (snd (iphc_src_mode (ir_src r) (ir_ll_src r)))) ltac:(lia)) as (o3 & o4 & -> & Lo3 & L4).
  rewrite blen_app in *.
  assert (Lo4 : blen o4 = blen (snd (iphc_dst_mode (ir_dst r) (ir_ll_dst r)))) by lia.
  apply (blen_length _ 2) in Lw. cells Lw. rename c into b0. rename c0 into b1.
  rewrite !bytes_ok_app in Hb. cbn [bytes_ok forallb] in Hb. bsplit.
  assert (HB0 : 0 <= b0 < 256) by lia. assert (HB1 : 0 <= b1 < 256) by lia.
  (* run the stages *)
  unfold iphc_emit. cbn [app]. rewrite <- !app_assoc.
  rewrite iphc_set_dispatch_bytes by assumption. cbn [obind].
  assert (R0 : 0 <= Z.lor (Z.land b0 31) 96 < 256).
  { assert (Hx : forall x, 0 <= x < 256 -> Z.lor (Z.land x 31) 96 = 96 + x mod 32) by (by_range1 256%nat).
    rewrite Hx by lia. lia. }
  unfold iphc_set_tf. setf_step.
  assert (R1 : 0 <= sf8 (Z.lor (Z.land b0 31) 96) 3 3 3 < 256) by sf8_rng.
  rewrite (iphc_stage_nh _ b1 o1 (o2 ++ o3 ++ o4 ++ t) (ir_nh r)) by assumption. cbn [obind].
  assert (R2 : 0 <= sf8 (sf8 (Z.lor (Z.land b0 31) 96) 3 3 3) 1 2 (iphc_nh_bit (ir_nh r)) < 256)
    by (destruct (ir_nh r); cbn [iphc_nh_bit]; sf8_rng).
  rewrite (iphc_stage_hl _ b1 (iphc_nh_bytes (ir_nh r)) o2 (o3 ++ o4 ++ t) (ir_hl r)) by (try assumption; reflexivity).
  cbn [obind].
  rewrite iphc_hdr0_bits by (first [assumption | apply iphc_nh_bit_range | apply iphc_hl_code_range]).
  set (B0 := 120 + 4 * iphc_nh_bit (ir_nh r) + iphc_hl_code (ir_hl r)).
  assert (RB0 : 0 <= B0 < 256).
  { subst B0. pose proof (iphc_nh_bit_range (ir_nh r)). pose proof (iphc_hl_code_range (ir_hl r)). lia. }
  replace (iphc_nh_bytes (ir_nh r) ++ iphc_hl_bytes (ir_hl r) ++ o3 ++ o4 ++ t)
    with ((iphc_nh_bytes (ir_nh r) ++ iphc_hl_bytes (ir_hl r)) ++ o3 ++ o4 ++ t) by (rewrite <- app_assoc; reflexivity).
  rewrite (iphc_stage_src B0 b1 _ o3 (o4 ++ t) (ir_src r) (ir_ll_src r))
    by (try assumption; autorewrite with blen; lia).
  cbn [obind].
  destruct (iphc_src_mode_range (ir_src r) (ir_ll_src r)) as (Rsac & Rsam).
  set (B1 := fst (fst (iphc_src_mode (ir_src r) (ir_ll_src r))) * 64 +
             snd (fst (iphc_src_mode (ir_src r) (ir_ll_src r))) * 16 + b1 mod 16).
  assert (RB1 : 0 <= B1 < 256) by (subst B1; lia).
  replace ((iphc_nh_bytes (ir_nh r) ++ iphc_hl_bytes (ir_hl r)) ++
           snd (iphc_src_mode (ir_src r) (ir_ll_src r)) ++ o4 ++ t)
    with (((iphc_nh_bytes (ir_nh r) ++ iphc_hl_bytes (ir_hl r)) ++
           snd (iphc_src_mode (ir_src r) (ir_ll_src r))) ++ o4 ++ t) by (rewrite <- !app_assoc; reflexivity).
  rewrite (iphc_stage_dst B0 B1 _ o4 t (ir_dst r) (ir_ll_dst r))
    by (try assumption; autorewrite with blen; lia).
  cbn [obind].
  destruct (iphc_dst_mode_range (ir_dst r) (ir_ll_dst r)) as (Rm & Rdam).
  (* closed form *)
  unfold iphc_bytes.
  destruct (iphc_src_mode (ir_src r) (ir_ll_src r)) as ((sac, sam), sb).
  destruct (iphc_dst_mode (ir_dst r) (ir_ll_dst r)) as ((m, dam), db). cbn [fst snd] in *.
  f_equal. cbn [app]. rewrite <- !app_assoc. f_equal. f_equal.
  unfold iphc_hdr1. subst B1. lia.
Qed.

(* Repr::buffer_len is the length of what emit writes *)
Lemma iphc_buffer_len_spec r : iphc_repr_wf r = true -> iphc_buffer_len r = Ok (blen (iphc_bytes r)).
Proof.
  intros Hwf. destruct (iphc_repr_wf_inv r Hwf) as (Hs & Hd & _ & _ & _ & _ & _ & _ & He & Hds & Hf).
  rewrite iphc_bytes_len. unfold iphc_buffer_len. rewrite He, Hds, Hf. f_equal.
  assert (E1 : (match ir_nh r with None => 0 | Some _ => 1 end) = blen (iphc_nh_bytes (ir_nh r)))
    by (destruct (ir_nh r); reflexivity).
  assert (E2 : (if (ir_hl r =? 255) || (ir_hl r =? 64) || (ir_hl r =? 1) then 0 else 1) = blen (iphc_hl_bytes (ir_hl r))).
  { unfold iphc_hl_bytes, iphc_hl_code. destruct (ir_hl r =? 255), (ir_hl r =? 64), (ir_hl r =? 1); reflexivity. }
  assert (E3 : (if iphc_is_unspecified (ir_src r) then 0
                else if iphc_is_link_local (ir_src r) then iphc_ll_addr_len (ir_src r) (ir_ll_src r) else 16)
               = blen (snd (iphc_src_mode (ir_src r) (ir_ll_src r)))).
  { unfold iphc_src_mode, iphc_ll_addr_len.
    destruct (iphc_is_unspecified (ir_src r)); [reflexivity|].
    destruct (iphc_is_link_local (ir_src r)); [|cbn [snd]; unfold blen; lia].
    destruct (iphc_short_form (ir_src r));
      [destruct (iphc_ll_is_short (ir_src r) (ir_ll_src r)) | destruct (iphc_is_eui64 (ir_src r) (ir_ll_src r))];
      cbn [snd]; try reflexivity; rewrite iphc_sl_len by (try assumption; lia); reflexivity. }
  assert (E4 : (if iphc_is_multicast (ir_dst r) then iphc_mc_len (ir_dst r)
                else if iphc_is_link_local (ir_dst r) then iphc_ll_addr_len (ir_dst r) (ir_ll_dst r) else 16)
               = blen (snd (iphc_dst_mode (ir_dst r) (ir_ll_dst r)))).
  { unfold iphc_dst_mode, iphc_ll_addr_len, iphc_mc_len.
    destruct (iphc_is_multicast (ir_dst r)).
    - destruct ((nth 1 (ir_dst r) 0 =? 2) && iphc_list_eqb (iphc_sl (ir_dst r) 2 15) (iphc_zeros 13)); [reflexivity|].
      destruct (iphc_list_eqb (iphc_sl (ir_dst r) 2 13) (iphc_zeros 11));
        [cbn [snd]; autorewrite with blen; rewrite iphc_sl_len by (try assumption; lia); reflexivity|].
      destruct (iphc_list_eqb (iphc_sl (ir_dst r) 2 11) (iphc_zeros 9));
        [cbn [snd]; autorewrite with blen; rewrite iphc_sl_len by (try assumption; lia); reflexivity|].
      cbn [snd]. unfold blen. lia.
    - destruct (iphc_is_link_local (ir_dst r)); [|cbn [snd]; unfold blen; lia].
      destruct (iphc_short_form (ir_dst r));
        [destruct (iphc_ll_is_short (ir_dst r) (ir_ll_dst r)) | destruct (iphc_is_eui64 (ir_dst r) (ir_ll_dst r))];
        cbn [snd]; try reflexivity; rewrite iphc_sl_len by (try assumption; lia); reflexivity. }
  rewrite E1, E2, E3, E4. reflexivity.
Qed.

(* ================================================================================
   Repr::parse inverts Repr::emit
   ================================================================================ *)

Lemma iphc_list_eqb_eq a b : iphc_list_eqb a b = true -> a = b.
Proof.
  unfold iphc_list_eqb. intros H. apply andb_prop in H. destruct H as (Hl & Hf). apply Z.eqb_eq in Hl.
  assert (Hlen : length a = length b) by (unfold blen in Hl; lia). clear Hl.
  revert b Hlen Hf. induction a as [|x a IH]; intros [|y b] Hlen Hf; try discriminate; [reflexivity|].
  cbn in Hf. apply andb_prop in Hf. destruct Hf as (Hxy & Hf). apply Z.eqb_eq in Hxy. subst.
  f_equal. apply IH; [cbn in Hlen; lia | assumption].
Qed.

(* what Packet::src_addr / dst_addr return for the modes the encoder chooses (no context) *)
Definition iphc_src_unres_of (sac sam : Z) (sb : list Z) : iphc_unres :=
  if sac =? 0 then
    (if sam =? 0 then UrNoCtx (AmFullInline sb) else if sam =? 1 then UrNoCtx (AmInline64 sb)
     else if sam =? 2 then UrNoCtx (AmInline16 sb) else UrNoCtx AmElided)
  else UrCtx 0 AmUnspecified.

Definition iphc_dst_unres_of (m dam : Z) (db : list Z) : iphc_unres :=
  if m =? 0 then
    (if dam =? 0 then UrNoCtx (AmFullInline db) else if dam =? 1 then UrNoCtx (AmInline64 db)
     else if dam =? 2 then UrNoCtx (AmInline16 db) else UrNoCtx AmElided)
  else
    (if dam =? 0 then UrNoCtx (AmFullInline db) else if dam =? 1 then UrNoCtx (AmMc48 db)
     else if dam =? 2 then UrNoCtx (AmMc32 db) else UrNoCtx (AmMc8 db)).

(* boolean list comparisons on explicit cells -> equations *)
Ltac eqb_cells H :=
  apply iphc_list_eqb_eq in H; unfold iphc_sl, iphc_zeros in H; cbn [firstn skipn repeat Nat.sub] in H;
  injection H; intros; subst.

(* link-local unicast: the reconstruction from prefix, in-line octets and link-layer address *)
Lemma iphc_ll_unicast_resolve a ll ctx : length a = 16%nat ->
  iphc_is_link_local a = true ->
  (if iphc_short_form a then
     if iphc_ll_is_short a ll then iphc_resolve (UrNoCtx AmElided) ll ctx
     else iphc_resolve (UrNoCtx (AmInline16 (iphc_sl a 14 16))) ll ctx
   else if iphc_is_eui64 a ll then iphc_resolve (UrNoCtx AmElided) ll ctx
   else iphc_resolve (UrNoCtx (AmInline64 (iphc_sl a 8 16))) ll ctx) = Ok a.
Proof.
  intros Ha Hll. cells Ha. unfold iphc_is_link_local in Hll. eqb_cells Hll.
  destruct (iphc_short_form _) eqn:Hsf.
  - unfold iphc_short_form in Hsf. eqb_cells Hsf.
    destruct (iphc_ll_is_short _ ll) eqn:Hs.
    + unfold iphc_ll_is_short in Hs. destruct ll as [l|]; [|discriminate Hs].
      destruct l as [|x|x]; cbn [iphc_ll_eqb] in Hs; try discriminate Hs.
      apply iphc_list_eqb_eq in Hs. subst x. reflexivity.
    + reflexivity.
  - destruct (iphc_is_eui64 _ ll) eqn:He.
    + unfold iphc_is_eui64 in He. destruct ll as [l|]; [|discriminate He].
      destruct (iphc_as_eui64 l) as [e|] eqn:Ee; [|discriminate He].
      apply iphc_list_eqb_eq in He. unfold iphc_sl in He. cbn [firstn skipn Nat.sub] in He. subst e.
      destruct l as [|x|x]; cbn [iphc_as_eui64] in Ee; try discriminate Ee.
      cbn [iphc_resolve iphc_iid_of_ll]. cbn [iphc_as_eui64].
      destruct x as [|x0 xr]; [discriminate Ee|]. injection Ee as E0 Er. subst.
      reflexivity.
    + reflexivity.
Qed.

Lemma iphc_src_mode_resolve src ll ctx : length src = 16%nat ->
  iphc_resolve (iphc_src_unres_of (fst (fst (iphc_src_mode src ll))) (snd (fst (iphc_src_mode src ll)))
                                  (snd (iphc_src_mode src ll))) ll ctx = Ok src.
Proof.
  intros Ha. unfold iphc_src_mode.
  destruct (iphc_is_unspecified src) eqn:Hu.
  - unfold iphc_is_unspecified in Hu. apply iphc_list_eqb_eq in Hu. subst. reflexivity.
  - destruct (iphc_is_link_local src) eqn:Hl.
    + pose proof (iphc_ll_unicast_resolve src ll ctx Ha Hl) as H.
      destruct (iphc_short_form src); [destruct (iphc_ll_is_short src ll) | destruct (iphc_is_eui64 src ll)];
        cbn [fst snd iphc_src_unres_of]; exact H.
    + assert (Hfull : iphc_resolve (UrNoCtx (AmFullInline src)) ll ctx = Ok src).
      { cbn [iphc_resolve]. unfold wb_arr.
        replace (blen src =? 16) with true by (symmetry; apply Z.eqb_eq; unfold blen; lia). reflexivity. }
      exact Hfull.
Qed.

Lemma iphc_dst_mode_resolve dst ll ctx : length dst = 16%nat ->
  iphc_resolve (iphc_dst_unres_of (fst (fst (iphc_dst_mode dst ll))) (snd (fst (iphc_dst_mode dst ll)))
                                  (snd (iphc_dst_mode dst ll))) ll ctx = Ok dst.
Proof.
  intros Ha. unfold iphc_dst_mode.
  assert (Hfull : iphc_resolve (UrNoCtx (AmFullInline dst)) ll ctx = Ok dst).
  { cbn [iphc_resolve]. unfold wb_arr.
    replace (blen dst =? 16) with true by (symmetry; apply Z.eqb_eq; unfold blen; lia). reflexivity. }
  destruct (iphc_is_multicast dst) eqn:Hm.
  - unfold iphc_is_multicast in Hm. apply Z.eqb_eq in Hm. cells Ha. cbn [nth] in *. subst c.
    destruct ((c0 =? 2) && _) eqn:H8.
    + apply andb_prop in H8. destruct H8 as (H2 & H8). apply Z.eqb_eq in H2. eqb_cells H8. reflexivity.
    + destruct (iphc_list_eqb (iphc_sl _ 2 13) _) eqn:H32.
      * eqb_cells H32. reflexivity.
      * destruct (iphc_list_eqb (iphc_sl _ 2 11) _) eqn:H48.
        -- eqb_cells H48. reflexivity.
        -- cbn [fst snd iphc_dst_unres_of]. exact Hfull.
  - destruct (iphc_is_link_local dst) eqn:Hl.
    + pose proof (iphc_ll_unicast_resolve dst ll ctx Ha Hl) as H.
      destruct (iphc_short_form dst); [destruct (iphc_ll_is_short dst ll) | destruct (iphc_is_eui64 dst ll)];
        cbn [fst snd iphc_dst_unres_of]; exact H.
    + cbn [fst snd iphc_dst_unres_of]. exact Hfull.
Qed.

(* ---------- reading the emitted octets back ---------- *)

Lemma iphc_word_fields : forall nhb hlc sac sam m dam,
  0 <= nhb < 2 -> 0 <= hlc < 4 -> 0 <= sac < 2 -> 0 <= sam < 4 -> 0 <= m < 2 -> 0 <= dam < 4 ->
  let w := (120 + 4 * nhb + hlc) * 256 + (sac * 64 + sam * 16 + m * 8 + dam) in
  Z.land (Z.shiftr w 13) 7 = 3 /\ Z.land (Z.shiftr w 11) 3 = 3 /\ Z.land (Z.shiftr w 10) 1 = nhb /\
  Z.land (Z.shiftr w 8) 3 = hlc /\ Z.land (Z.shiftr w 7) 1 = 0 /\ Z.land (Z.shiftr w 6) 1 = sac /\
  Z.land (Z.shiftr w 4) 3 = sam /\ Z.land (Z.shiftr w 3) 1 = m /\ Z.land (Z.shiftr w 2) 1 = 0 /\
  Z.land (Z.shiftr w 0) 3 = dam.
Proof.
  intros nhb hlc sac sam m dam H1 H2 H3 H4 H5 H6.
  set (chk := fun nhb hlc sac sam m dam =>
    let w := (120 + 4 * nhb + hlc) * 256 + (sac * 64 + sam * 16 + m * 8 + dam) in
    (Z.land (Z.shiftr w 13) 7 =? 3) && (Z.land (Z.shiftr w 11) 3 =? 3) && (Z.land (Z.shiftr w 10) 1 =? nhb) &&
    (Z.land (Z.shiftr w 8) 3 =? hlc) && (Z.land (Z.shiftr w 7) 1 =? 0) && (Z.land (Z.shiftr w 6) 1 =? sac) &&
    (Z.land (Z.shiftr w 4) 3 =? sam) && (Z.land (Z.shiftr w 3) 1 =? m) && (Z.land (Z.shiftr w 2) 1 =? 0) &&
    (Z.land (Z.shiftr w 0) 3 =? dam)).
  assert (H : forallb (fun a => forallb (fun b => forallb (fun c => forallb (fun d => forallb (fun e =>
              forallb (fun f => chk a b c d e f) (zrange 4)) (zrange 2)) (zrange 4)) (zrange 2)) (zrange 4))
              (zrange 2) = true) by (vm_compute; reflexivity).
  pose proof (zrange_forall2 _ 2 4 H nhb hlc H1 H2) as E1. cbv beta in E1.
  pose proof (zrange_forall2 _ 2 4 E1 sac sam H3 H4) as E2. cbv beta in E2.
  pose proof (zrange_forall2 _ 2 4 E2 m dam H5 H6) as E3. cbv beta in E3.
  subst chk. cbv beta zeta in E3. cbv zeta.
  repeat (apply andb_prop in E3; let X := fresh "X" in destruct E3 as (E3 & X); apply Z.eqb_eq in X).
  apply Z.eqb_eq in E3. repeat split; assumption.
Qed.

Lemma iphc_inline_mid pre v post : iphc_inline (pre ++ v ++ post) (blen pre) (blen v) = Ok v.
Proof.
  unfold iphc_inline. rewrite wb_from_app_r. cbn [obind]. unfold wb_upto. rewrite blen_app.
  pose proof (blen_nonneg v). pose proof (blen_nonneg post). zbool.
  replace (Z.to_nat (blen v)) with (length v) by (unfold blen; lia).
  rewrite firstn_app, firstn_all, Nat.sub_diag. cbn [firstn]. rewrite app_nil_r. reflexivity.
Qed.

Lemma wb_get_u8_mid pre x post : wb_get_u8 (pre ++ x :: post) (blen pre) = Ok x.
Proof.
  unfold wb_get_u8. rewrite blen_app, blen_cons. pose proof (blen_nonneg pre). pose proof (blen_nonneg post). zbool.
  replace (Z.to_nat (blen pre)) with (length pre) by (unfold blen; lia).
  rewrite app_nth2, Nat.sub_diag by lia. reflexivity.
Qed.

Lemma iphc_src_size_mode src ll : length src = 16%nat ->
  iphc_src_size_of (fst (fst (iphc_src_mode src ll))) (snd (fst (iphc_src_mode src ll))) =
  blen (snd (iphc_src_mode src ll)).
Proof.
  intros Ha. unfold iphc_src_mode.
  destruct (iphc_is_unspecified src); [reflexivity|]. destruct (iphc_is_link_local src).
  - destruct (iphc_short_form src); [destruct (iphc_ll_is_short src ll) | destruct (iphc_is_eui64 src ll)];
      cbn [fst snd]; try reflexivity; rewrite iphc_sl_len by (try assumption; lia); reflexivity.
  - cbn [fst snd]. unfold blen. rewrite Ha. reflexivity.
Qed.

Lemma iphc_dst_size_mode dst ll : length dst = 16%nat ->
  iphc_dst_size_of (fst (fst (iphc_dst_mode dst ll))) 0 (snd (fst (iphc_dst_mode dst ll))) =
  blen (snd (iphc_dst_mode dst ll)).
Proof.
  intros Ha. unfold iphc_dst_mode.
  destruct (iphc_is_multicast dst).
  - destruct ((nth 1 dst 0 =? 2) && _); [reflexivity|].
    destruct (iphc_list_eqb (iphc_sl dst 2 13) _);
      [cbn [fst snd]; autorewrite with blen; rewrite iphc_sl_len by (try assumption; lia); reflexivity|].
    destruct (iphc_list_eqb (iphc_sl dst 2 11) _);
      [cbn [fst snd]; autorewrite with blen; rewrite iphc_sl_len by (try assumption; lia); reflexivity|].
    cbn [fst snd]. unfold blen. rewrite Ha. reflexivity.
  - destruct (iphc_is_link_local dst).
    + destruct (iphc_short_form dst); [destruct (iphc_ll_is_short dst ll) | destruct (iphc_is_eui64 dst ll)];
        cbn [fst snd]; try reflexivity; rewrite iphc_sl_len by (try assumption; lia); reflexivity.
    + cbn [fst snd]. unfold blen. rewrite Ha. reflexivity.
Qed.

Lemma iphc_src_mode_sac src ll : fst (fst (iphc_src_mode src ll)) = 1 -> snd (fst (iphc_src_mode src ll)) = 0.
Proof.
  unfold iphc_src_mode. destruct (iphc_is_unspecified src); [reflexivity|].
  destruct (iphc_is_link_local src); [|cbn; lia].
  destruct (iphc_short_form src); [destruct (iphc_ll_is_short src ll) | destruct (iphc_is_eui64 src ll)]; cbn; lia.
Qed.

Section ParseBytes.
  Variables (nh : option Z) (hl sac sam m dam : Z) (sb db p : list Z).
  Hypothesis Hsac : 0 <= sac < 2.
  Hypothesis Hsam : 0 <= sam < 4.
  Hypothesis Hm : 0 <= m < 2.
  Hypothesis Hdam : 0 <= dam < 4.
  Hypothesis Hsb : iphc_src_size_of sac sam = blen sb.
  Hypothesis Hdb : iphc_dst_size_of m 0 dam = blen db.
  Hypothesis Hsacsam : sac = 1 -> sam = 0.

  Definition iphc_B : list Z :=
    iphc_hdr0 nh hl :: iphc_hdr1 sac sam m dam ::
      iphc_nh_bytes nh ++ iphc_hl_bytes hl ++ sb ++ db ++ p.

  Lemma iphc_B_fields :
    iphc_dispatch_field iphc_B = Ok 3 /\ iphc_tf_field iphc_B = Ok 3 /\
    iphc_nh_field iphc_B = Ok (iphc_nh_bit nh) /\ iphc_hlim_field iphc_B = Ok (iphc_hl_code hl) /\
    iphc_cid_field iphc_B = Ok 0 /\ iphc_sac_field iphc_B = Ok sac /\ iphc_sam_field iphc_B = Ok sam /\
    iphc_m_field iphc_B = Ok m /\ iphc_dac_field iphc_B = Ok 0 /\ iphc_dam_field iphc_B = Ok dam.
  Proof.
    pose proof (iphc_word_fields (iphc_nh_bit nh) (iphc_hl_code hl) sac sam m dam
                  (iphc_nh_bit_range nh) (iphc_hl_code_range hl) Hsac Hsam Hm Hdam) as H.
    cbv zeta in H. destruct H as (F1 & F2 & F3 & F4 & F5 & F6 & F7 & F8 & F9 & F10).
    unfold iphc_dispatch_field, iphc_tf_field, iphc_nh_field, iphc_hlim_field, iphc_cid_field, iphc_sac_field,
      iphc_sam_field, iphc_m_field, iphc_dac_field, iphc_dam_field, iphc_B.
    rewrite !iphc_get_field_hd. unfold iphc_hdr0, iphc_hdr1.
    rewrite F1, F2, F3, F4, F5, F6, F7, F8, F9, F10. repeat split; reflexivity.
  Qed.

  Lemma iphc_B_sizes :
    iphc_ip_fields_start iphc_B = Ok 2 /\ iphc_tc_size iphc_B = Ok 0 /\
    iphc_nh_size iphc_B = Ok (blen (iphc_nh_bytes nh)) /\ iphc_hl_size iphc_B = Ok (blen (iphc_hl_bytes hl)) /\
    iphc_src_size iphc_B = Ok (blen sb) /\ iphc_dst_size iphc_B = Ok (blen db).
  Proof.
    destruct iphc_B_fields as (F1 & F2 & F3 & F4 & F5 & F6 & F7 & F8 & F9 & F10).
    unfold iphc_ip_fields_start, iphc_cid_size, iphc_tc_size, iphc_nh_size, iphc_hl_size, iphc_src_size, iphc_dst_size.
    rewrite F2, F3, F4, F5, F6, F7, F8, F9, F10. cbn [obind]. rewrite Hsb, Hdb.
    repeat split; try reflexivity.
    - destruct nh; reflexivity.
    - unfold iphc_hl_bytes. destruct (iphc_hl_code hl =? 0); reflexivity.
  Qed.

  Lemma iphc_B_header_len :
    iphc_header_len iphc_B =
    Ok (2 + blen (iphc_nh_bytes nh) + blen (iphc_hl_bytes hl) + blen sb + blen db) /\
    iphc_check_len iphc_B = Ok tt /\ iphc_payload iphc_B = Ok p.
  Proof.
    destruct iphc_B_sizes as (S1 & S2 & S3 & S4 & S5 & S6).
    assert (Hh : iphc_header_len iphc_B =
                 Ok (2 + blen (iphc_nh_bytes nh) + blen (iphc_hl_bytes hl) + blen sb + blen db)).
    { unfold iphc_header_len. rewrite S1, S2, S3, S4, S5, S6. cbn [obind]. f_equal; lia. }
    assert (Hbl : blen iphc_B = 2 + blen (iphc_nh_bytes nh) + blen (iphc_hl_bytes hl) + blen sb + blen db + blen p).
    { unfold iphc_B. autorewrite with blen. lia. }
    pose proof (blen_nonneg (iphc_nh_bytes nh)). pose proof (blen_nonneg (iphc_hl_bytes hl)).
    pose proof (blen_nonneg sb). pose proof (blen_nonneg db). pose proof (blen_nonneg p).
    split; [exact Hh|]. split.
    - unfold iphc_check_len. rewrite Hh. cbn [obind]. rewrite Hbl. zbool. reflexivity.
    - unfold iphc_payload. rewrite Hh. cbn [obind].
      replace iphc_B with ((iphc_hdr0 nh hl :: iphc_hdr1 sac sam m dam ::
                            iphc_nh_bytes nh ++ iphc_hl_bytes hl ++ sb ++ db) ++ p)
        by (unfold iphc_B; cbn [app]; rewrite <- !app_assoc; reflexivity).
      apply wb_from_tail. autorewrite with blen. lia.
  Qed.

  Hypothesis Hnh : forall q, nh = Some q -> 0 <= q < 256.
  Hypothesis Hhl : 0 <= hl < 256.

  Lemma iphc_B_inline_fields :
    iphc_next_header iphc_B = Ok nh /\ iphc_hop_limit iphc_B = Ok hl /\
    iphc_ecn iphc_B = Ok None /\ iphc_dscp iphc_B = Ok None /\ iphc_flow iphc_B = Ok None.
  Proof.
    destruct iphc_B_fields as (F1 & F2 & F3 & F4 & F5 & F6 & F7 & F8 & F9 & F10).
    destruct iphc_B_sizes as (S1 & S2 & S3 & S4 & S5 & S6).
    unfold iphc_next_header, iphc_hop_limit, iphc_ecn, iphc_dscp, iphc_flow.
    rewrite F2, F3, F4, S1, S2, S3. cbn [obind]. zfold. cbn [orb].
    split; [|split; [|repeat split; reflexivity]].
    - unfold iphc_B. destruct nh as [q|] eqn:Enh; cbn [iphc_nh_bit]; zfold; [|reflexivity].
      cbn [iphc_nh_bytes app].
      assert (E : wb_get_u8 (iphc_hdr0 (Some q) hl :: iphc_hdr1 sac sam m dam :: q :: iphc_hl_bytes hl ++ sb ++ db ++ p) 2 = Ok q)
        by exact (wb_get_u8_mid [iphc_hdr0 (Some q) hl; iphc_hdr1 sac sam m dam] q (iphc_hl_bytes hl ++ sb ++ db ++ p)).
      try replace (2 + 0) with 2 by lia. rewrite E. reflexivity.
    - assert (Hcode : iphc_hl_code hl = 3 /\ hl = 255 \/ iphc_hl_code hl = 2 /\ hl = 64 \/
                      iphc_hl_code hl = 1 /\ hl = 1 \/ iphc_hl_code hl = 0).
      { unfold iphc_hl_code. destruct (hl =? 255) eqn:E1; [bsplit; auto|].
        destruct (hl =? 64) eqn:E2; [bsplit; auto|]. destruct (hl =? 1) eqn:E3; [bsplit; auto|]. auto. }
      destruct Hcode as [(-> & ->)|[(-> & ->)|[(-> & ->)|Hc0]]]; zfold; try reflexivity.
      rewrite Hc0. zfold. cbn [obind].
      replace iphc_B with ((iphc_hdr0 nh hl :: iphc_hdr1 sac sam m dam :: iphc_nh_bytes nh) ++ hl :: sb ++ db ++ p).
      2: { unfold iphc_B, iphc_hl_bytes. rewrite Hc0. zfold. cbn [app]. reflexivity. }
      replace (2 + blen (iphc_nh_bytes nh)) with (blen (iphc_hdr0 nh hl :: iphc_hdr1 sac sam m dam :: iphc_nh_bytes nh))
        by (autorewrite with blen; lia).
      apply wb_get_u8_mid.
  Qed.

  Lemma iphc_B_addrs :
    iphc_src_unres iphc_B = Ok (iphc_src_unres_of sac sam sb) /\
    iphc_dst_unres iphc_B = Ok (iphc_dst_unres_of m dam db).
  Proof.
    destruct iphc_B_fields as (F1 & F2 & F3 & F4 & F5 & F6 & F7 & F8 & F9 & F10).
    destruct iphc_B_sizes as (S1 & S2 & S3 & S4 & S5 & S6).
    assert (Hstart : iphc_src_start iphc_B = Ok (2 + blen (iphc_nh_bytes nh) + blen (iphc_hl_bytes hl))).
    { unfold iphc_src_start. rewrite S1, S2, S3, S4. cbn [obind]. f_equal; lia. }
    set (pre := iphc_hdr0 nh hl :: iphc_hdr1 sac sam m dam :: iphc_nh_bytes nh ++ iphc_hl_bytes hl).
    assert (Hpre : blen pre = 2 + blen (iphc_nh_bytes nh) + blen (iphc_hl_bytes hl))
      by (subst pre; autorewrite with blen; lia).
    assert (HB1 : iphc_B = pre ++ sb ++ (db ++ p))
      by (subst pre; unfold iphc_B; cbn [app]; rewrite <- !app_assoc; reflexivity).
    assert (HB2 : iphc_B = (pre ++ sb) ++ db ++ p)
      by (rewrite HB1; rewrite <- !app_assoc; reflexivity).
    assert (Isrc : iphc_inline iphc_B (2 + blen (iphc_nh_bytes nh) + blen (iphc_hl_bytes hl)) (blen sb) = Ok sb)
      by (rewrite <- Hpre, HB1; apply iphc_inline_mid).
    assert (Idst : iphc_inline iphc_B (2 + blen (iphc_nh_bytes nh) + blen (iphc_hl_bytes hl) + blen sb) (blen db) = Ok db).
    { replace (2 + blen (iphc_nh_bytes nh) + blen (iphc_hl_bytes hl) + blen sb) with (blen (pre ++ sb))
        by (rewrite blen_app; lia). rewrite HB2. apply iphc_inline_mid. }
    split.
    - unfold iphc_src_unres, iphc_src_unres_of. rewrite Hstart, F6, F7. cbn [obind].
      unfold iphc_src_size_of in Hsb.
      destruct (sac =? 0) eqn:Es.
      + destruct (sam =? 0) eqn:E0; [rewrite <- Hsb in Isrc; rewrite Isrc; reflexivity|].
        destruct (sam =? 1) eqn:E1; [rewrite <- Hsb in Isrc; rewrite Isrc; reflexivity|].
        destruct (sam =? 2) eqn:E2; [rewrite <- Hsb in Isrc; rewrite Isrc; reflexivity|]. reflexivity.
      + bsplit. rewrite (Hsacsam ltac:(lia)). zfold. reflexivity.
    - unfold iphc_dst_unres, iphc_dst_unres_of. rewrite Hstart, S5, F8, F9, F10. cbn [obind]. zfold.
      unfold iphc_dst_size_of in Hdb. revert Hdb. zfold. intros Hdb'.
      destruct (m =? 0) eqn:Em.
      + destruct (dam =? 0) eqn:E0; [rewrite <- Hdb' in Idst; rewrite Idst; reflexivity|].
        destruct (dam =? 1) eqn:E1; [rewrite <- Hdb' in Idst; rewrite Idst; reflexivity|].
        destruct (dam =? 2) eqn:E2; [rewrite <- Hdb' in Idst; rewrite Idst; reflexivity|]. reflexivity.
      + destruct (dam =? 0) eqn:E0; [rewrite <- Hdb' in Idst; rewrite Idst; reflexivity|].
        destruct (dam =? 1) eqn:E1; [rewrite <- Hdb' in Idst; rewrite Idst; reflexivity|].
        destruct (dam =? 2) eqn:E2; [rewrite <- Hdb' in Idst; rewrite Idst; reflexivity|].
        rewrite <- Hdb' in Idst; rewrite Idst; reflexivity.
  Qed.
End ParseBytes.

Lemma iphc_bytes_B r p :
  iphc_bytes r ++ p =
  iphc_B (ir_nh r) (ir_hl r) (fst (fst (iphc_src_mode (ir_src r) (ir_ll_src r))))
         (snd (fst (iphc_src_mode (ir_src r) (ir_ll_src r))))
         (fst (fst (iphc_dst_mode (ir_dst r) (ir_ll_dst r)))) (snd (fst (iphc_dst_mode (ir_dst r) (ir_ll_dst r))))
         (snd (iphc_src_mode (ir_src r) (ir_ll_src r))) (snd (iphc_dst_mode (ir_dst r) (ir_ll_dst r))) p.
Proof.
  unfold iphc_bytes, iphc_B.
  destruct (iphc_src_mode (ir_src r) (ir_ll_src r)) as ((sac, sam), sb).
  destruct (iphc_dst_mode (ir_dst r) (ir_ll_dst r)) as ((m, dam), db). cbn [fst snd app].
  rewrite <- !app_assoc. reflexivity.
Qed.

(* iphc_roundtrip, parse side: for EVERY repr the stack can build (all address classes, any
   link-layer addresses, any context table at the receiver) *)
Theorem iphc_parse_bytes r p ctx : iphc_repr_wf r = true ->
  iphc_parse (iphc_bytes r ++ p) (ir_ll_src r) (ir_ll_dst r) ctx = Ok r /\
  iphc_check_len (iphc_bytes r ++ p) = Ok tt /\
  iphc_payload (iphc_bytes r ++ p) = Ok p /\
  iphc_header_len (iphc_bytes r ++ p) = Ok (blen (iphc_bytes r)).
Proof.
  intros Hwf. destruct (iphc_repr_wf_inv r Hwf) as (Hs & Hd & _ & _ & _ & _ & Hnh & Hhl & He & Hds & Hf).
  rewrite iphc_bytes_B, iphc_bytes_len.
  destruct (iphc_src_mode_range (ir_src r) (ir_ll_src r)) as (Rsac & Rsam).
  destruct (iphc_dst_mode_range (ir_dst r) (ir_ll_dst r)) as (Rm & Rdam).
  pose proof (iphc_src_size_mode (ir_src r) (ir_ll_src r) Hs) as Hsb.
  pose proof (iphc_dst_size_mode (ir_dst r) (ir_ll_dst r) Hd) as Hdb.
  pose proof (iphc_src_mode_sac (ir_src r) (ir_ll_src r)) as Hss.
  set (sac := fst (fst (iphc_src_mode (ir_src r) (ir_ll_src r)))) in *.
  set (sam := snd (fst (iphc_src_mode (ir_src r) (ir_ll_src r)))) in *.
  set (m := fst (fst (iphc_dst_mode (ir_dst r) (ir_ll_dst r)))) in *.
  set (dam := snd (fst (iphc_dst_mode (ir_dst r) (ir_ll_dst r)))) in *.
  set (sb := snd (iphc_src_mode (ir_src r) (ir_ll_src r))) in *.
  set (db := snd (iphc_dst_mode (ir_dst r) (ir_ll_dst r))) in *.
  destruct (iphc_B_fields (ir_nh r) (ir_hl r) sac sam m dam sb db p Rsac Rsam Rm Rdam) as (F1 & _).
  destruct (iphc_B_header_len (ir_nh r) (ir_hl r) sac sam m dam sb db p Rsac Rsam Rm Rdam Hsb Hdb) as (Hh & Hc & Hp).
  destruct (iphc_B_inline_fields (ir_nh r) (ir_hl r) sac sam m dam sb db p Rsac Rsam Rm Rdam Hsb Hdb Hnh Hhl)
    as (I1 & I2 & I3 & I4 & I5).
  destruct (iphc_B_addrs (ir_nh r) (ir_hl r) sac sam m dam sb db p Rsac Rsam Rm Rdam Hsb Hdb Hss Hnh) as (A1 & A2).
  split; [|split; [exact Hc | split; [exact Hp | exact Hh]]].
  unfold iphc_parse. rewrite Hc, F1. cbn [obind]. unfold wsix_DISPATCH_IPHC_HEADER. zfold. cbn [negb].
  rewrite A1. cbn [obind]. subst sac sam sb.
  rewrite (iphc_src_mode_resolve (ir_src r) (ir_ll_src r) ctx Hs). cbn [obind].
  rewrite A2. cbn [obind]. subst m dam db.
  rewrite (iphc_dst_mode_resolve (ir_dst r) (ir_ll_dst r) ctx Hd). cbn [obind].
  rewrite I1, I2, I3, I4, I5. cbn [obind].
  destruct r; cbn in *. subst. reflexivity.
Qed.

(* iphc_roundtrip: decompress(compress(hdr)) = hdr, given the same link-layer addresses on both
   sides; emit ignores what the buffer held; the rest of the buffer is untouched *)
Theorem iphc_roundtrip r b ctx : iphc_repr_wf r = true -> bytes_ok b = true ->
  blen (iphc_bytes r) <= blen b ->
  iphc_buffer_len r = Ok (blen (iphc_bytes r)) /\
  iphc_emit r b = Ok (iphc_bytes r ++ skipn (Z.to_nat (blen (iphc_bytes r))) b) /\
  iphc_parse (iphc_bytes r ++ skipn (Z.to_nat (blen (iphc_bytes r))) b) (ir_ll_src r) (ir_ll_dst r) ctx = Ok r /\
  iphc_payload (iphc_bytes r ++ skipn (Z.to_nat (blen (iphc_bytes r))) b) = Ok (skipn (Z.to_nat (blen (iphc_bytes r))) b).
Proof.
  intros Hwf Hb Hl. split; [apply iphc_buffer_len_spec; assumption|].
  pose proof (blen_nonneg (iphc_bytes r)).
  destruct (split_hdr b (blen (iphc_bytes r)) ltac:(lia)) as (h & t & E & Hh & Ht).
  assert (Hsk : skipn (Z.to_nat (blen (iphc_bytes r))) b = t).
  { rewrite E, skipn_app, skipn_all2 by lia. rewrite Hh, Nat.sub_diag. reflexivity. }
  rewrite Hsk. split.
  - rewrite E. rewrite E, bytes_ok_app in Hb. apply andb_prop in Hb. destruct Hb as (Hbh & _).
    apply iphc_emit_exact; [assumption | assumption | unfold blen in *; lia].
  - destruct (iphc_parse_bytes r t ctx Hwf) as (P1 & _ & P3 & _). auto.
Qed.

(* ================================================================================
   Repr::parse never panics
   ================================================================================ *)

Lemma iphc_word b : 2 <= blen b -> exists w, wb_get_u16 b wiphc_f_IPHC_FIELD = Ok w.
Proof.
  intros H. unfold wb_get_u16, wb_get_be. zfold. rewrite wb_sub_ok by lia. cbn [obind].
  rewrite blen_firstn by (rewrite blen_skipn; lia). zfold. eauto.
Qed.

Lemma iphc_inline_len b start n v : iphc_inline b start n = Ok v -> blen v = n /\ 0 <= start /\ start + n <= blen b.
Proof.
  unfold iphc_inline, wb_from, wb_upto. intros H.
  destruct ((0 <=? start) && (start <=? blen b)) eqn:E1; [|discriminate H]. cbn [obind] in H.
  destruct ((0 <=? n) && (n <=? blen (skipn (Z.to_nat start) b))) eqn:E2; [|discriminate H].
  injection H as <-. bsplit. rewrite blen_skipn in * by lia. rewrite blen_firstn by (rewrite blen_skipn; lia). lia.
Qed.

Lemma iphc_inline_nopanic b start n : 0 <= start -> 0 <= n -> start + n <= blen b -> iphc_inline b start n <> Panic.
Proof.
  intros H1 H2 H3. unfold iphc_inline, wb_from, wb_upto. zbool. cbn [obind].
  rewrite blen_skipn by lia. zbool. discriminate.
Qed.

Lemma iphc_iid_nopanic ll : iphc_ll_wf ll = true -> iphc_iid_of_ll ll <> Panic.
Proof.
  destruct ll as [[|a|a]|]; cbn [iphc_ll_wf iphc_iid_of_ll]; try discriminate; intros H; unfold is_arr in H; bsplit.
  - unfold wb_arr. zbool. discriminate.
  - destruct a as [|a0 ar]; cbn [iphc_as_eui64]; [discriminate|]. unfold wb_arr.
    replace (blen (Z.lxor a0 2 :: ar) =? 8) with true
      by (symmetry; apply Z.eqb_eq; autorewrite with blen in *; lia).
    discriminate.
Qed.

Lemma iphc_context_nopanic ctx idx : iphc_context ctx idx <> Panic.
Proof. unfold iphc_context. destruct (_ <=? idx); [discriminate|]. destruct (idx <? 0); discriminate. Qed.

(* resolve never panics when the in-line octets have the length the mode prescribes *)
Definition iphc_amode_ok (m : iphc_amode) : Prop :=
  match m with
  | AmFullInline v => blen v = 16 | AmInline64 v => blen v = 8 | AmInline16 v => blen v = 2
  | AmMc48 v => blen v = 6 | AmMc32 v => blen v = 4 | AmMc8 v => blen v = 1
  | _ => True
  end.
Definition iphc_unres_ok (u : iphc_unres) : Prop :=
  match u with UrNoCtx m => iphc_amode_ok m | UrCtx _ m => iphc_amode_ok m | UrReserved => True end.

Lemma iphc_resolve_nopanic u ll ctx : iphc_unres_ok u -> iphc_ll_wf ll = true -> iphc_resolve u ll ctx <> Panic.
Proof.
  intros Hu Hll. pose proof (iphc_iid_nopanic ll Hll) as Hiid. pose proof (iphc_context_nopanic ctx) as Hctx.
  destruct u as [m|idx m|]; [| |discriminate]; destruct m; cbn [iphc_resolve iphc_unres_ok iphc_amode_ok] in *;
    unfold wb_arr; try rewrite Hu; try rewrite Z.eqb_refl; cbn [obind]; try discriminate;
    try (destruct (iphc_iid_of_ll ll); cbn [obind]; [discriminate | discriminate | congruence]).
  - destruct (iphc_context ctx idx) eqn:E; cbn [obind]; try discriminate. exfalso. exact (Hctx idx E).
  - destruct (iphc_context ctx idx) eqn:E; cbn [obind]; try discriminate. exfalso. exact (Hctx idx E).
  - destruct (iphc_iid_of_ll ll); cbn [obind]; try discriminate; [|congruence].
    destruct (iphc_context ctx idx) eqn:E; cbn [obind]; try discriminate. exfalso. exact (Hctx idx E).
Qed.

Lemma iphc_size_nonneg :
  (forall tf, 0 <= iphc_tc_size_of tf) /\ (forall a b, 0 <= iphc_src_size_of a b) /\
  (forall a b c, 0 <= iphc_dst_size_of a b c).
Proof.
  unfold iphc_tc_size_of, iphc_src_size_of, iphc_dst_size_of. repeat split; intros;
    repeat match goal with |- context [if ?c then _ else _] => destruct c end; lia.
Qed.

(* Repr::parse never panics: any octet string, any (well-typed) link-layer addresses, any contexts *)
Theorem iphc_parse_total b lls lld ctx : iphc_ll_wf lls = true -> iphc_ll_wf lld = true ->
  iphc_parse b lls lld ctx <> Panic /\ iphc_check_len b <> Panic /\
  (iphc_check_len b = Ok tt -> iphc_payload b <> Panic /\ iphc_header_len b <> Panic).
Proof.
  intros Hls Hld. unfold iphc_parse, iphc_check_len, iphc_payload.
  destruct (blen b <? 2) eqn:E2; [repeat split; try discriminate; intros HH; discriminate HH|].
  apply Z.ltb_ge in E2. destruct (iphc_word b E2) as (w & Hw).
  assert (Hgf : forall mask shift, iphc_get_field b mask shift = Ok (Z.land (Z.shiftr w shift) mask))
    by (intros; unfold iphc_get_field; rewrite Hw; reflexivity).
  destruct iphc_size_nonneg as (Ntc & Nsrc & Ndst).
  (* name the fields *)
  set (tf := Z.land (Z.shiftr w 11) 3). set (nhf := Z.land (Z.shiftr w 10) 1).
  set (hlim := Z.land (Z.shiftr w 8) 3). set (cid := Z.land (Z.shiftr w 7) 1).
  set (sac := Z.land (Z.shiftr w 6) 1). set (sam := Z.land (Z.shiftr w 4) 3).
  set (mf := Z.land (Z.shiftr w 3) 1). set (dac := Z.land (Z.shiftr w 2) 1). set (dam := Z.land (Z.shiftr w 0) 3).
  set (S := 2 + (if cid =? 1 then 1 else 0)). set (TC := iphc_tc_size_of tf).
  set (NH := if nhf =? 1 then 0 else 1). set (HL := if hlim =? 0 then 1 else 0).
  set (SA := iphc_src_size_of sac sam). set (DA := iphc_dst_size_of mf dac dam).
  assert (Hhl : iphc_header_len b = Ok (S + TC + NH + HL + SA + DA)).
  { unfold iphc_header_len, iphc_ip_fields_start, iphc_cid_size, iphc_tc_size, iphc_nh_size, iphc_hl_size,
      iphc_src_size, iphc_dst_size, iphc_cid_field, iphc_tf_field, iphc_nh_field, iphc_hlim_field, iphc_sac_field,
      iphc_sam_field, iphc_m_field, iphc_dac_field, iphc_dam_field. rewrite !Hgf. reflexivity. }
  rewrite Hhl. cbn [obind].
  assert (NS : 2 <= S <= 3) by (subst S; destruct (cid =? 1); lia).
  assert (NNH : 0 <= NH <= 1) by (subst NH; destruct (nhf =? 1); lia).
  assert (NHL : 0 <= HL <= 1) by (subst HL; destruct (hlim =? 0); lia).
  assert (NTC : 0 <= TC) by apply Ntc. assert (NSA : 0 <= SA) by apply Nsrc. assert (NDA : 0 <= DA) by apply Ndst.
  destruct (blen b <? S + TC + NH + HL + SA + DA) eqn:El.
  { repeat split; try discriminate; try (intros HH; discriminate HH). }
  apply Z.ltb_ge in El. cbn [obind].
  split; [|split; [discriminate | intros _; split; [apply wb_from_nopanic; lia | discriminate]]].
  (* the accessors *)
  assert (Hstart : iphc_src_start b = Ok (S + TC + NH + HL)).
  { unfold iphc_src_start, iphc_ip_fields_start, iphc_cid_size, iphc_tc_size, iphc_nh_size, iphc_hl_size,
      iphc_cid_field, iphc_tf_field, iphc_nh_field, iphc_hlim_field. rewrite !Hgf. reflexivity. }
  assert (Hcs : iphc_src_cid b <> Panic /\ iphc_dst_cid b <> Panic).
  { unfold iphc_src_cid, iphc_dst_cid, iphc_cid_field. rewrite Hgf. cbn [obind]. fold cid. subst S.
    destruct (cid =? 1); [|split; discriminate].
    split; (apply obind_nopanic; [apply wb_get_u8_nopanic; lia | discriminate]). }
  destruct Hcs as (Hscid & Hdcid).
  assert (Hsrc : forall u, iphc_src_unres b = Ok u -> iphc_unres_ok u).
  { unfold iphc_src_unres, iphc_sac_field, iphc_sam_field. rewrite Hstart, !Hgf. cbn [obind]. fold sac sam.
    intros u. subst SA. unfold iphc_src_size_of in *.
    destruct (sac =? 0); destruct (sam =? 0); try destruct (sam =? 1); try destruct (sam =? 2);
      try (intros HH; injection HH as <-; exact I);
      try (destruct (iphc_src_cid b) as [[id|]| |]; cbn [obind]; try (intros HH; discriminate HH));
      try (intros HH; injection HH as <-; exact I);
      (destruct (iphc_inline b _ _) eqn:Ei; cbn [obind]; try (intros HH; discriminate HH);
       intros HH; injection HH as <-; cbn; exact (proj1 (iphc_inline_len _ _ _ _ Ei))). }
  assert (Hsrcnp : iphc_src_unres b <> Panic).
  { unfold iphc_src_unres, iphc_sac_field, iphc_sam_field. rewrite Hstart, !Hgf. cbn [obind]. fold sac sam.
    subst SA. unfold iphc_src_size_of in *.
    destruct (sac =? 0); destruct (sam =? 0); try destruct (sam =? 1); try destruct (sam =? 2);
      try discriminate;
      try (apply obind_nopanic; [apply iphc_inline_nopanic; lia | discriminate]);
      (apply obind_nopanic; [exact Hscid|]; intros [id|] _; try discriminate;
       try (apply obind_nopanic; [apply iphc_inline_nopanic; lia | discriminate])). }
  assert (Hsz : iphc_src_size b = Ok SA).
  { unfold iphc_src_size, iphc_sac_field, iphc_sam_field. rewrite !Hgf. reflexivity. }
  assert (Hdst : forall u, iphc_dst_unres b = Ok u -> iphc_unres_ok u).
  { unfold iphc_dst_unres, iphc_m_field, iphc_dac_field, iphc_dam_field. rewrite Hstart, Hsz, !Hgf. cbn [obind].
    fold mf dac dam. intros u. subst DA. unfold iphc_dst_size_of in *.
    destruct (mf =? 0); destruct (dac =? 0); destruct (dam =? 0); try destruct (dam =? 1); try destruct (dam =? 2);
      try (intros HH; injection HH as <-; exact I);
      try (destruct (iphc_dst_cid b) as [[id|]| |]; cbn [obind]; try (intros HH; discriminate HH));
      try (intros HH; injection HH as <-; exact I);
      (destruct (iphc_inline b _ _) eqn:Ei; cbn [obind]; try (intros HH; discriminate HH);
       intros HH; injection HH as <-; cbn; exact (proj1 (iphc_inline_len _ _ _ _ Ei))). }
  assert (Hdstnp : iphc_dst_unres b <> Panic).
  { unfold iphc_dst_unres, iphc_m_field, iphc_dac_field, iphc_dam_field. rewrite Hstart, Hsz, !Hgf. cbn [obind].
    fold mf dac dam. subst DA. unfold iphc_dst_size_of in *.
    destruct (mf =? 0); destruct (dac =? 0); destruct (dam =? 0); try destruct (dam =? 1); try destruct (dam =? 2);
      try discriminate;
      try (apply obind_nopanic; [apply iphc_inline_nopanic; lia | discriminate]);
      (apply obind_nopanic; [exact Hdcid|]; intros [id|] _; try discriminate;
       try (apply obind_nopanic; [apply iphc_inline_nopanic; lia | discriminate])). }
  assert (Hnhnp : iphc_next_header b <> Panic).
  { unfold iphc_next_header, iphc_ip_fields_start, iphc_cid_size, iphc_tc_size, iphc_nh_field, iphc_cid_field, iphc_tf_field.
    rewrite !Hgf. cbn [obind]. fold nhf cid tf. fold S TC. subst NH.
    destruct (nhf =? 1); [discriminate|]. apply obind_nopanic; [apply wb_get_u8_nopanic; lia | discriminate]. }
  assert (Hhlnp : iphc_hop_limit b <> Panic).
  { unfold iphc_hop_limit, iphc_ip_fields_start, iphc_cid_size, iphc_tc_size, iphc_nh_size, iphc_hlim_field,
      iphc_nh_field, iphc_cid_field, iphc_tf_field.
    rewrite !Hgf. cbn [obind]. fold nhf cid tf hlim. fold S TC NH. subst HL.
    destruct (hlim =? 0); [apply wb_get_u8_nopanic; lia|]. destruct (hlim =? 1); [discriminate|].
    destruct (hlim =? 2); discriminate. }
  assert (Htfnp : iphc_ecn b <> Panic /\ iphc_dscp b <> Panic /\ iphc_flow b <> Panic).
  { unfold iphc_ecn, iphc_dscp, iphc_flow, iphc_ip_fields_start, iphc_cid_size, iphc_tf_field, iphc_cid_field.
    rewrite !Hgf. cbn [obind]. fold cid tf. fold S. subst TC. unfold iphc_tc_size_of in *.
    assert (Rtf : 0 <= tf < 4).
    { subst tf. change 3 with (Z.ones 2). rewrite Z.land_ones by lia. apply Z.mod_pos_bound. lia. }
    destruct (tf =? 0) eqn:T0; [|destruct (tf =? 1) eqn:T1; [|destruct (tf =? 2) eqn:T2; [|destruct (tf =? 3) eqn:T3]]];
      cbn [orb]; try rewrite T2; try rewrite T3;
      try (exfalso; bsplit; lia);
      repeat split; try discriminate;
      try (destruct (tf =? 3); [discriminate|]);
      try (destruct (tf =? 2));
      try discriminate;
      try (apply obind_nopanic; [apply wb_get_u8_nopanic; lia | discriminate]);
      try (apply obind_nopanic; [apply wb_get_be_nopanic; lia | discriminate]). }
  destruct Htfnp as (He & Hds & Hfl).
  apply obind_nopanic; [unfold iphc_dispatch_field; rewrite Hgf; discriminate|]. intros d _.
  destruct (negb (d =? wsix_DISPATCH_IPHC_HEADER)); [discriminate|].
  apply obind_nopanic; [assumption|]. intros us Eus.
  apply obind_nopanic; [apply iphc_resolve_nopanic; auto|]. intros src _.
  apply obind_nopanic; [assumption|]. intros ud Eud.
  apply obind_nopanic; [apply iphc_resolve_nopanic; auto|]. intros dst _.
  apply obind_nopanic; [assumption|]. intros ? _.
  apply obind_nopanic; [assumption|]. intros ? _.
  apply obind_nopanic; [assumption|]. intros ? _.
  apply obind_nopanic; [assumption|]. intros ? _.
  apply obind_nopanic; [assumption|]. intros ? _. discriminate.
Qed.
