(* Lemmas about Model/Nexthop.v: what lookup_hardware_addr decides, which received frames change
   the neighbor cache, the history invariant over arbitrary event sequences, the discovery rate
   limit, absence of panics for well-formed configurations, and the socket-level consequences
   (data stays queued, Meta back-off). *)
From SV Require Import Lib.Base Gen.Consts Model.Neighbor Model.Route Model.Meta Model.Nexthop.
From SV Require Import Proofs.NeighborProofs Proofs.RouteProofs.

(* ---------- events of an interface ---------- *)

Inductive event :=
| EvRx (now : Z) (f : rxframe)                     (* a received Ethernet / 802.15.4 frame *)
| EvDispatch (now : Z) (dst : ipaddr) (tag : Z)    (* an IP packet handed to dispatch_ip *)
| EvAddrs (l : list cidr)                          (* update_ip_addrs *)
| EvSetHw (hw : Z)                                 (* set_hardware_addr *)
| EvRoutes (r : list route).                       (* any change of the route table *)

Definition stamp (now : Z) (fr : list frame) : list (Z * frame) := map (pair now) fr.

Definition nh_step (i : iface) (e : event) : outcome (iface * list (Z * frame)) :=
  match e with
  | EvRx now f => do '(i', fr) <- nh_process_rx i now f; Ok (i', stamp now fr)
  | EvDispatch now dst tag => do '(i', fr, _) <- nh_dispatch_ip i dst tag now; Ok (i', stamp now fr)
  | EvAddrs l => Ok (nh_update_ip_addrs i l, [])
  | EvSetHw hw => do i' <- nh_set_hardware_addr i hw; Ok (i', [])
  | EvRoutes r => Ok (set_routes i r, [])
  end.

(* run a sequence: final interface and every transmitted frame with its time *)
Fixpoint nh_run (i : iface) (evs : list event) : outcome (iface * list (Z * frame)) :=
  match evs with
  | [] => Ok (i, [])
  | e :: r =>
      do '(i1, f1) <- nh_step i e;
      do '(i2, f2) <- nh_run i1 r;
      Ok (i2, f1 ++ f2)
  end.

(* ---------- validation rules: which frames teach / refresh a neighbor ---------- *)

Definition eth_accept (i : iface) (e : Z) : bool :=
  eth_is_broadcast e || eth_is_multicast e || (e =? if_hw i).

(* process_arp: addressed to one of our addresses, request or reply, unicast source protocol and
   hardware address, source on-link *)
Definition arp_valid (i : iface) (op sha spa tpa : Z) : bool :=
  nh_has_ip_addr i (V4 tpa) && ((op =? 1) || (op =? 2)) &&
  v4_x_is_unicast spa && eth_is_unicast sha && nh_in_same_network i (V4 spa).

Definition v4_accept (i : iface) (src dst : Z) : bool :=
  (nh_is_unicast_v4 i src || v4_is_unspecified src) &&
  (nh_has_ip_addr i (V4 dst) || nh_has_multicast_group i (V4 dst) || nh_is_broadcast_v4 i dst).

Definition v6_accept (i : iface) (src dst : Z) : bool :=
  v6_x_is_unicast src &&
  (nh_has_ip_addr i (V6 dst) || nh_has_multicast_group i (V6 dst)).

(* RFC 1122 3.3.6 rule of process_ethernet: an IP datagram in a link-layer broadcast / multicast
   frame is processed only if its IP destination is broadcast / multicast *)
Definition link_ok (i : iface) (f : rxframe) : bool :=
  match f with
  | RxArp _ _ _ _ _ => true
  | RxV4Echo e _ _ dst => eth_is_unicast e || v4_is_multicast dst || nh_is_broadcast_v4 i dst
  | RxV6 e _ _ dst _ _ => eth_is_unicast e || v6_is_multicast dst
  | Rx154 _ ldst _ _ dst _ _ => negb (ldst =? IEEE_BROADCAST) || v6_is_multicast dst
  | RxV4Bad e _ _ dst => eth_is_unicast e || v4_is_multicast dst || nh_is_broadcast_v4 i dst
  | RxJunk _ => true
  end.

(* frame reaches the IP layer of this interface: Ethernet frames on Ethernet for our station /
   broadcast / multicast; 802.15.4 frames on 802.15.4 with an accepted PAN id (any destination
   hardware address) *)
Definition medium_accept (i : iface) (f : rxframe) : bool :=
  match f with
  | Rx154 panok _ _ _ _ _ _ => negb (if_ether i) && panok
  | _ => if_ether i && eth_accept i (rx_edst f)
  end.

(* cache operations of process_ipv6 + process_ndisc *)
Definition v6_log (i : iface) (now : Z) (esrc src dst hop : Z) (p : v6payload) : list cop :=
  if v6_accept i src dst then
    let r := if v6_x_is_unicast dst then [CReset (V6 src) esrc now] else [] in
    let c1 := cache_run (if_cap i) (if_cache i) r in
    r ++
    (if hop =? 255 then
       match p with
       | P6Na target (Some l) ovr =>
           if hw_option_ok i l && hw_is_unicast i l && v6_x_is_unicast target &&
              (ovr || negb (answer_found (neigh_lookup c1 (V6 src) now)))
           then [CFill (V6 src) l now] else []
       | P6Ns target (Some l) =>
           if hw_option_ok i l && hw_is_unicast i l && v6_x_is_unicast target then [CFill (V6 src) l now] else []
       | _ => []
       end
     else [])
  else [].

(* the cache operations performed for a received frame *)
Definition rx_log (i : iface) (now : Z) (f : rxframe) : list cop :=
  if negb (medium_accept i f) then []
  else if negb (link_ok i f) then []
  else
    match f with
    | RxArp _ op sha spa tpa =>
        if arp_valid i op sha spa tpa then [CFill (V4 spa) sha now] else []
    | RxV4Echo _ esrc src dst =>
        if v4_accept i src dst && nh_is_unicast_v4 i dst then [CReset (V4 src) esrc now] else []
    | RxV6 _ esrc src dst hop p => v6_log i now esrc src dst hop p
    | Rx154 _ _ lsrc src dst hop p => v6_log i now lsrc src dst hop p
    | RxV4Bad _ esrc src dst =>
        if v4_accept i src dst && nh_is_unicast_v4 i dst then [CReset (V4 src) esrc now] else []
    | RxJunk _ => []
    end.

Definition ev_log (i : iface) (e : event) : list cop :=
  match e with
  | EvRx now f => rx_log i now f
  | EvDispatch _ _ _ => []
  | EvAddrs _ => [CFlush]
  | EvSetHw _ => []
  | EvRoutes _ => []
  end.

(* the learning history of an event sequence started in i *)
Fixpoint nh_log (i : iface) (evs : list event) : list cop :=
  match evs with
  | [] => []
  | e :: r => ev_log i e ++ match nh_step i e with Ok (i1, _) => nh_log i1 r | _ => [] end
  end.

(* ---------- lookup_hardware_addr ---------- *)

Definition limited (i : iface) (now : Z) : iface := set_cache i (neigh_limit_rate (if_cache i) now).

(* the discovery request for next hop n *)
Definition discovery_frames (i : iface) (n : ipaddr) (fr : list frame) : Prop :=
  match n with
  | V4 t => fr = [FArpReq ETH_BROADCAST t] \/ fr = []
  | V6 t => exists h, hw_multicast i (V6 (v6_solicited_node t)) = Some h /\ fr = [FNs h t]
  end.

Lemma lookup_hw_spec : forall i dst now i' fr r,
  nh_lookup_hardware_addr i dst now = Ok (i', fr, r) ->
  (i' = i /\ fr = [] /\
     ((r = DSend (hw_broadcast i) /\ nh_is_broadcast i dst = true) \/
      (exists h, r = DSend h /\ nh_is_broadcast i dst = false /\ ip_is_multicast dst = true /\
                 hw_multicast i dst = Some h) \/
      (nh_is_broadcast i dst = false /\ ip_is_multicast dst = false /\
        ((r = DNoRoute /\ nh_route i dst now = None) \/
         (exists n, nh_route i dst now = Some n /\ ip_is_unicast n = true /\
            ((exists h, r = DSend h /\ neigh_lookup (if_cache i) n now = Found h) \/
             (r = DPending /\ neigh_lookup (if_cache i) n now = RateLimited) \/
             (r = DNoRoute /\ neigh_lookup (if_cache i) n now = NotFound))))))) \/
  (i' = limited i now /\ r = DPending /\
   nh_is_broadcast i dst = false /\ ip_is_multicast dst = false /\
   exists n, nh_route i dst now = Some n /\ ip_is_unicast n = true /\
             neigh_lookup (if_cache i) n now = NotFound /\ discovery_frames i n fr).
Proof.
  intros i dst now i' fr r H. unfold nh_lookup_hardware_addr in H.
  destruct (nh_is_broadcast i dst) eqn:B.
  { inversion H; subst. left. repeat split; auto. }
  destruct (ip_is_multicast dst) eqn:M.
  { destruct (hw_multicast i dst) eqn:HM; [|discriminate]. inversion H; subst.
    left. repeat split; auto. right; left. exists z; auto. }
  destruct (negb (nh_in_same_network i dst || ip_is_broadcast dst) && negb (ip_is_unicast dst)); [discriminate|].
  destruct (nh_route i dst now) as [n|] eqn:R.
  2:{ inversion H; subst. left. repeat split; auto. right; right. repeat split; auto. }
  destruct (negb (ip_is_unicast n)) eqn:U; [discriminate|]. apply negb_false_iff in U.
  destruct (neigh_lookup (if_cache i) n now) eqn:L.
  - inversion H; subst. left. repeat split; auto. right; right. repeat split; auto.
    right. exists n. repeat split; auto. left. exists hw; auto.
  - destruct n as [t|t].
    + destruct (if_ether i) eqn:Eth.
      * destruct (nh_has_ipv4_source i).
        -- inversion H; subst. right. repeat split; auto. exists (V4 t). repeat split; auto. left; auto.
        -- inversion H; subst. left. repeat split; auto. right; right. repeat split; auto.
           right. exists (V4 t). repeat split; auto.
      * inversion H; subst. right. repeat split; auto. exists (V4 t). repeat split; auto. right; auto.
    + destruct (hw_multicast i (V6 (v6_solicited_node t))) eqn:HM; [|discriminate].
      inversion H; subst. right. repeat split; auto. exists (V6 t). repeat split; auto.
      exists z; auto.
  - inversion H; subst. left. repeat split; auto. right; right. repeat split; auto.
    right. exists n. repeat split; auto.
Qed.

(* ---------- configuration fields are untouched by the cache operations ---------- *)

Definition same_cfg (i i' : iface) : Prop :=
  if_ether i' = if_ether i /\ if_hw i' = if_hw i /\ if_cap i' = if_cap i /\
  if_addrs i' = if_addrs i /\ if_routes i' = if_routes i.

Lemma same_cfg_refl : forall i, same_cfg i i.
Proof. intro; repeat split. Qed.

Lemma same_cfg_trans : forall a b c, same_cfg a b -> same_cfg b c -> same_cfg a c.
Proof. unfold same_cfg; intros a b c (A1&A2&A3&A4&A5) (B1&B2&B3&B4&B5); repeat split; congruence. Qed.

Lemma same_cfg_set_cache : forall i c, same_cfg i (set_cache i c).
Proof. intros; repeat split. Qed.

Definition su (i : iface) : Z := c_silent_until (if_cache i).

Definition is_request (f : frame) : bool :=
  match f with FArpReq _ _ | FNs _ _ => true | _ => false end.

Definition requests (fr : list frame) : list frame := filter is_request fr.

(* one processing step at time now: either silent_until is unchanged and no discovery request
   was sent, or exactly the rate limit was armed (which needs silent_until <= now) and at most
   one request went out *)
Definition rate_ok (s s' now : Z) (fr : list frame) : Prop :=
  (s' = s /\ requests fr = []) \/
  (s' = now + neigh_SILENT_TIME /\ s <= now /\ (length (requests fr) <= 1)%nat).

Lemma silent_pos : 0 < neigh_SILENT_TIME.
Proof. unfold neigh_SILENT_TIME; lia. Qed.

Lemma requests_app : forall a b, requests (a ++ b) = requests a ++ requests b.
Proof. intros; unfold requests; apply filter_app. Qed.

Lemma rate_ok_app : forall s1 s2 s3 now f1 f2,
  rate_ok s1 s2 now f1 -> rate_ok s2 s3 now f2 -> rate_ok s1 s3 now (f1 ++ f2).
Proof.
  intros s1 s2 s3 now f1 f2 A B. pose proof silent_pos. unfold rate_ok in *. rewrite requests_app.
  destruct A as [[A1 A2]|[A1 [A2 A3]]]; destruct B as [[B1 B2]|[B1 [B2 B3]]].
  - left; rewrite A2, B2; split; [congruence | reflexivity].
  - right; rewrite A2; simpl; repeat split; try lia.
  - right; rewrite B2, app_nil_r; repeat split; try lia.
  - lia.
Qed.

Lemma rate_ok_nil : forall s now, rate_ok s s now [].
Proof. intros; left; split; reflexivity. Qed.

Lemma discovery_requests : forall i n fr, discovery_frames i n fr -> (length (requests fr) <= 1)%nat.
Proof.
  intros i [t|t] fr H; simpl in H.
  - destruct H; subst; simpl; lia.
  - destruct H as (h & _ & H); subst; simpl; lia.
Qed.

Lemma lookup_hw_rate : forall i dst now i' fr r,
  nh_lookup_hardware_addr i dst now = Ok (i', fr, r) ->
  same_cfg i i' /\ c_storage (if_cache i') = c_storage (if_cache i) /\ rate_ok (su i) (su i') now fr.
Proof.
  intros i dst now i' fr r H. apply lookup_hw_spec in H.
  destruct H as [(E & F & _)|(E & _ & _ & _ & n & _ & _ & L & D)]; subst.
  - split; [apply same_cfg_refl|]. split; [reflexivity | apply rate_ok_nil].
  - split; [apply same_cfg_set_cache|]. split; [reflexivity|].
    right. split; [reflexivity|]. split; [apply lookup_not_found_silent in L; exact L|].
    eapply discovery_requests; eauto.
Qed.

Lemma dispatch_ip_rate : forall i dst tag now i' fr r,
  nh_dispatch_ip i dst tag now = Ok (i', fr, r) ->
  same_cfg i i' /\ c_storage (if_cache i') = c_storage (if_cache i) /\ rate_ok (su i) (su i') now fr.
Proof.
  intros i dst tag now i' fr r H. unfold nh_dispatch_ip in H.
  destruct (ip_is_unspecified dst); [discriminate|].
  destruct (nh_lookup_hardware_addr i dst now) as [[[i1 f1] r1]| |] eqn:L; simpl in H; try discriminate.
  apply lookup_hw_rate in L. destruct L as (C & S & R).
  assert (Q : forall h, requests (f1 ++ [FIp h dst tag]) = requests f1).
  { intro h. rewrite requests_app; simpl. apply app_nil_r. }
  destruct r1; inversion H; subst; repeat split; try apply C; auto.
  unfold rate_ok in *. rewrite Q. exact R.
Qed.

Lemma respond_rate : forall i dst tag now i' fr,
  nh_respond i dst tag now = Ok (i', fr) ->
  same_cfg i i' /\ c_storage (if_cache i') = c_storage (if_cache i) /\ rate_ok (su i) (su i') now fr.
Proof.
  intros i dst tag now i' fr H. unfold nh_respond in H.
  destruct (nh_dispatch_ip i dst tag now) as [[[i1 f1] r1]| |] eqn:D; simpl in H; try discriminate.
  inversion H; subst. eapply dispatch_ip_rate; eauto.
Qed.

(* ---------- received frames ---------- *)

Lemma sc_in_same_network : forall i c a, nh_in_same_network (set_cache i c) a = nh_in_same_network i a.
Proof. reflexivity. Qed.
Lemma sc_has_ip_addr : forall i c a, nh_has_ip_addr (set_cache i c) a = nh_has_ip_addr i a.
Proof. reflexivity. Qed.
Lemma sc_is_broadcast_v4 : forall i c a, nh_is_broadcast_v4 (set_cache i c) a = nh_is_broadcast_v4 i a.
Proof. reflexivity. Qed.
Lemma sc_is_unicast_v4 : forall i c a, nh_is_unicast_v4 (set_cache i c) a = nh_is_unicast_v4 i a.
Proof. reflexivity. Qed.
Lemma sc_has_ipv4_source : forall i c, nh_has_ipv4_source (set_cache i c) = nh_has_ipv4_source i.
Proof. reflexivity. Qed.
Lemma sc_has_solicited_node : forall i c a, nh_has_solicited_node (set_cache i c) a = nh_has_solicited_node i a.
Proof. reflexivity. Qed.
Lemma sc_has_multicast_group : forall i c a, nh_has_multicast_group (set_cache i c) a = nh_has_multicast_group i a.
Proof. intros; destruct a; reflexivity. Qed.
Lemma sc_hw_is_unicast : forall i c h, hw_is_unicast (set_cache i c) h = hw_is_unicast i h.
Proof. reflexivity. Qed.
Lemma sc_hw_option_ok : forall i c h, hw_option_ok (set_cache i c) h = hw_option_ok i h.
Proof. reflexivity. Qed.
Lemma sc_cap : forall i c, if_cap (set_cache i c) = if_cap i.
Proof. reflexivity. Qed.
Lemma sc_cache : forall i c, if_cache (set_cache i c) = c.
Proof. reflexivity. Qed.
Global Hint Rewrite sc_in_same_network sc_has_ip_addr sc_is_broadcast_v4 sc_is_unicast_v4
  sc_has_ipv4_source sc_has_solicited_node sc_has_multicast_group sc_hw_is_unicast sc_hw_option_ok sc_cap sc_cache : nhc.

(* a step at time now performing the cache operations [log] and transmitting [fr] *)
Definition step_ok (i i' : iface) (now : Z) (log : list cop) (fr : list frame) : Prop :=
  same_cfg i i' /\
  c_storage (if_cache i') = c_storage (cache_run (if_cap i) (if_cache i) log) /\
  rate_ok (su i) (su i') now fr.

Lemma step_ok_idle : forall i now, step_ok i i now [] [].
Proof. intros; split; [apply same_cfg_refl|]. split; [reflexivity | apply rate_ok_nil]. Qed.

Lemma su_cache_run : forall cap ops c,
  forallb (fun op => match op with CLimit _ => false | _ => true end) ops = true ->
  c_silent_until (cache_run cap c ops) = c_silent_until c.
Proof.
  induction ops as [|op r IH]; intros c H; [reflexivity|].
  simpl in H. apply andb_true_iff in H. destruct H as [H1 H2].
  cbn [cache_run fold_left]. change (fold_left (cache_apply cap) r (cache_apply cap c op)) with (cache_run cap (cache_apply cap c op) r).
  rewrite IH by exact H2. destruct op; cbn [cache_apply]; try discriminate;
    [apply silent_fill | apply silent_reset | reflexivity].
Qed.

(* cache operations, then nothing *)
Lemma step_ok_ops : forall i now log,
  forallb (fun op => match op with CLimit _ => false | _ => true end) log = true ->
  step_ok i (set_cache i (cache_run (if_cap i) (if_cache i) log)) now log [].
Proof.
  intros i now log H. split; [apply same_cfg_set_cache|]. split; [reflexivity|].
  left. split; [|reflexivity]. unfold su. autorewrite with nhc. apply su_cache_run; exact H.
Qed.

(* cache operations, then a response packet through dispatch_ip *)
Lemma step_ok_ops_respond : forall i now log dst tag i' fr,
  forallb (fun op => match op with CLimit _ => false | _ => true end) log = true ->
  nh_respond (set_cache i (cache_run (if_cap i) (if_cache i) log)) dst tag now = Ok (i', fr) ->
  step_ok i i' now log fr.
Proof.
  intros i now log dst tag i' fr H R. apply respond_rate in R. destruct R as (C & S & R).
  split; [eapply same_cfg_trans; [apply same_cfg_set_cache | exact C]|].
  split; [rewrite S; reflexivity|].
  unfold su in *. autorewrite with nhc in R. rewrite su_cache_run in R by exact H. exact R.
Qed.

Lemma respond_idle : forall i now dst tag i' fr,
  nh_respond i dst tag now = Ok (i', fr) -> step_ok i i' now [] fr.
Proof.
  intros i now dst tag i' fr R. apply respond_rate in R. destruct R as (C & S & R).
  split; [exact C|]. split; [rewrite S; reflexivity | exact R].
Qed.

Lemma process_arp_ok : forall i now op sha spa tpa i' fr,
  nh_process_arp i now op sha spa tpa = (i', fr) ->
  step_ok i i' now (if arp_valid i op sha spa tpa then [CFill (V4 spa) sha now] else []) fr /\
  requests fr = [].
Proof.
  intros i now op sha spa tpa i' fr H. unfold nh_process_arp, arp_valid in *.
  destruct (nh_has_ip_addr i (V4 tpa)); cbn [negb andb] in *; [|inversion H; subst; split; [apply step_ok_idle | reflexivity]].
  destruct ((op =? 1) || (op =? 2)); cbn [negb andb] in *; [|inversion H; subst; split; [apply step_ok_idle | reflexivity]].
  destruct (v4_x_is_unicast spa); cbn [negb andb orb] in *; [|inversion H; subst; split; [apply step_ok_idle | reflexivity]].
  destruct (eth_is_unicast sha); cbn [negb andb orb] in *; [|inversion H; subst; split; [apply step_ok_idle | reflexivity]].
  destruct (nh_in_same_network i (V4 spa)); cbn [negb andb orb] in *; [|inversion H; subst; split; [apply step_ok_idle | reflexivity]].
  assert (E : forall fr0, step_ok i (set_cache i (neigh_fill (if_cap i) (if_cache i) (V4 spa) sha now)) now
                [CFill (V4 spa) sha now] fr0 <-> step_ok i (set_cache i (cache_run (if_cap i) (if_cache i) [CFill (V4 spa) sha now])) now [CFill (V4 spa) sha now] fr0) by (intro; reflexivity).
  destruct (op =? 1); inversion H; subst; (split; [|reflexivity]).
  - destruct (step_ok_ops i now [CFill (V4 spa) sha now] eq_refl) as (A & B & C).
    split; [exact A|]. split; [exact B|]. left. destruct C as [[C _]|[_ [_ C]]]; [split; [exact C | reflexivity]|].
    split; [|reflexivity]. unfold su; autorewrite with nhc. apply silent_fill.
  - apply (step_ok_ops i now [CFill (V4 spa) sha now] eq_refl).
Qed.

Ltac done_idle H := inversion H; subst; apply step_ok_idle.

Lemma process_ipv4_echo_ok : forall i now shw src dst l4ok i' fr,
  nh_process_ipv4_echo i now shw src dst l4ok = Ok (i', fr) ->
  step_ok i i' now (if v4_accept i src dst && nh_is_unicast_v4 i dst then [CReset (V4 src) shw now] else []) fr.
Proof.
  intros i now shw src dst l4ok i' fr H. unfold nh_process_ipv4_echo, v4_accept in *.
  destruct (nh_is_unicast_v4 i src) eqn:US; destruct (v4_is_unspecified src) eqn:Z0;
    cbn [negb andb orb] in *; try (done_idle H);
  (destruct (nh_has_ip_addr i (V4 dst)); destruct (nh_has_multicast_group i (V4 dst));
   destruct (nh_is_broadcast_v4 i dst) eqn:BD; cbn [negb andb orb] in *; try (done_idle H));
  (destruct (nh_is_unicast_v4 i dst) eqn:UD; destruct l4ok; autorewrite with nhc in H; rewrite ?US, ?UD, ?BD in H;
   cbn [negb andb orb] in H;
   try (destruct (nh_has_ipv4_source i));
   first [ apply (step_ok_ops_respond i now [CReset (V4 src) shw now] _ _ _ _ eq_refl H)
         | inversion H; subst; apply (step_ok_ops i now [CReset (V4 src) shw now] eq_refl)
         | apply respond_idle in H; exact H
         | done_idle H ]).
Qed.

Lemma process_ndisc_ok : forall i now src dst p i' fr,
  nh_process_ndisc i now src dst p = Ok (i', fr) ->
  step_ok i i' now
    (match p with
     | P6Na target (Some l) ovr =>
         if hw_option_ok i l && hw_is_unicast i l && v6_x_is_unicast target &&
            (ovr || negb (answer_found (neigh_lookup (if_cache i) (V6 src) now)))
         then [CFill (V6 src) l now] else []
     | P6Ns target (Some l) =>
         if hw_option_ok i l && hw_is_unicast i l && v6_x_is_unicast target then [CFill (V6 src) l now] else []
     | _ => []
     end) fr.
Proof.
  intros i now src dst p i' fr H. unfold nh_process_ndisc in H.
  destruct p as [|target [l|] ovr|target [l|]|]; try (done_idle H).
  - destruct (hw_option_ok i l); cbn [negb andb] in *; [|done_idle H].
    destruct (hw_is_unicast i l); destruct (v6_x_is_unicast target); cbn [negb andb orb] in *; try (done_idle H).
    destruct (ovr || negb (answer_found (neigh_lookup (if_cache i) (V6 src) now))); [|done_idle H].
    inversion H; subst. apply (step_ok_ops i now [CFill (V6 src) l now] eq_refl).
  - destruct (v6_x_is_unicast target); cbn [negb andb orb] in *;
      [|rewrite !andb_false_r; done_idle H].
    destruct (hw_option_ok i l); cbn [negb andb] in *; [|done_idle H].
    destruct (hw_is_unicast i l); cbn [negb andb orb] in *; try (done_idle H).
    autorewrite with nhc in H.
    destruct ((nh_has_solicited_node i dst || nh_has_ip_addr i (V6 dst)) && nh_has_ip_addr i (V6 target)).
    + apply (step_ok_ops_respond i now [CFill (V6 src) l now] _ _ _ _ eq_refl H).
    + inversion H; subst. apply (step_ok_ops i now [CFill (V6 src) l now] eq_refl).
  - destruct (v6_x_is_unicast target); cbn [negb] in *; [|done_idle H].
    destruct ((nh_has_solicited_node i dst || nh_has_ip_addr i (V6 dst)) && nh_has_ip_addr i (V6 target)).
    + apply respond_idle in H; exact H.
    + done_idle H.
Qed.

Lemma apply_storage_ext : forall cap c1 c2 op, c_storage c1 = c_storage c2 ->
  c_storage (cache_apply cap c1 op) = c_storage (cache_apply cap c2 op).
Proof.
  intros cap c1 c2 op H. destruct op; cbn [cache_apply].
  - unfold neigh_fill, neigh_fill_with_expiration. rewrite H.
    destruct (lm_get (c_storage c2) k); [reflexivity|].
    destruct (Z.of_nat (length (c_storage c2)) <? cap); [reflexivity|].
    destruct (c_storage c2); reflexivity.
  - unfold neigh_reset_expiry_if_existing. rewrite H.
    destruct (lm_get (c_storage c2) k); [|exact H].
    destruct (hw =? nb_hw n); [reflexivity | exact H].
  - exact H.
  - reflexivity.
Qed.

Lemma run_storage_ext : forall cap ops c1 c2, c_storage c1 = c_storage c2 ->
  c_storage (cache_run cap c1 ops) = c_storage (cache_run cap c2 ops).
Proof.
  induction ops as [|op r IH]; intros c1 c2 H; [exact H|].
  cbn [cache_run fold_left]. apply (IH (cache_apply cap c1 op) (cache_apply cap c2 op)).
  apply apply_storage_ext; exact H.
Qed.

Lemma cache_run_app : forall cap c a b, cache_run cap c (a ++ b) = cache_run cap (cache_run cap c a) b.
Proof. intros; unfold cache_run; apply fold_left_app. Qed.

Lemma step_ok_trans : forall i i1 i2 now l1 l2 f1 f2,
  step_ok i i1 now l1 f1 -> step_ok i1 i2 now l2 f2 -> step_ok i i2 now (l1 ++ l2) (f1 ++ f2).
Proof.
  intros i i1 i2 now l1 l2 f1 f2 (C1 & S1 & R1) (C2 & S2 & R2).
  split; [eapply same_cfg_trans; eauto|]. split; [|eapply rate_ok_app; eauto].
  rewrite S2, cache_run_app. destruct C1 as (_ & _ & Ecap & _). rewrite Ecap.
  apply run_storage_ext. exact S1.
Qed.

Lemma process_ipv6_ok : forall i now shw src dst hop p i' fr,
  nh_process_ipv6 i now shw src dst hop p = Ok (i', fr) ->
  step_ok i i' now (v6_log i now shw src dst hop p) fr.
Proof.
  intros i now shw src dst hop p i' fr H.
  unfold v6_log.
  unfold nh_process_ipv6, v6_accept in *.
  destruct (v6_x_is_unicast src); cbn [negb andb orb] in *; [|done_idle H].
  destruct (nh_has_ip_addr i (V6 dst)); destruct (nh_has_multicast_group i (V6 dst));
    cbn [negb andb orb] in *; try (done_idle H);
  (destruct (v6_x_is_unicast dst); cbv zeta; cbn [cache_run fold_left cache_apply app];
   [ assert (S1 : step_ok i (set_cache i (neigh_reset_expiry_if_existing (if_cache i) (V6 src) shw now)) now
                    [CReset (V6 src) shw now] [])
       by (apply (step_ok_ops i now [CReset (V6 src) shw now] eq_refl));
     destruct p as [|target ll ovr|target ll|];
     [ destruct (hop =? 255); cbn [app];
       apply (step_ok_ops_respond i now [CReset (V6 src) shw now] _ _ _ _ eq_refl H)
     | destruct (hop =? 255);
       [ apply process_ndisc_ok in H; autorewrite with nhc in H;
         apply (step_ok_trans _ _ _ _ _ _ _ _ S1 H)
       | inversion H; subst; cbn [app]; exact S1 ]
     | destruct (hop =? 255);
       [ apply process_ndisc_ok in H; autorewrite with nhc in H;
         apply (step_ok_trans _ _ _ _ _ _ _ _ S1 H)
       | inversion H; subst; cbn [app]; exact S1 ]
     | destruct (hop =? 255); inversion H; subst; cbn [app]; exact S1 ]
   | destruct p as [|target ll ovr|target ll|];
     [ destruct (hop =? 255); apply respond_idle in H; exact H
     | destruct (hop =? 255); [apply process_ndisc_ok in H; exact H | done_idle H]
     | destruct (hop =? 255); [apply process_ndisc_ok in H; exact H | done_idle H]
     | destruct (hop =? 255); done_idle H ] ]).
Qed.

Lemma process_ethernet_ok : forall i now f i' fr, if_ether i = true ->
  nh_process_ethernet i now f = Ok (i', fr) -> step_ok i i' now (rx_log i now f) fr.
Proof.
  intros i now f i' fr ETH H. unfold nh_process_ethernet in H.
  assert (EA : (negb (eth_is_broadcast (rx_edst f)) && negb (eth_is_multicast (rx_edst f)) &&
                negb (rx_edst f =? if_hw i)) = negb (eth_accept i (rx_edst f))).
  { unfold eth_accept. rewrite !negb_orb. reflexivity. }
  rewrite EA in H. unfold rx_log.
  destruct f as [e op sha spa tpa|e esrc src dst|e esrc src dst hop p|panok ldst lsrc src dst hop p|e esrc src dst|e];
    cbn [medium_accept link_ok rx_edst] in *; rewrite ?ETH; cbn [negb andb].
  - destruct (eth_accept i e) eqn:A; cbn [negb] in *; [|done_idle H].
    destruct (nh_process_arp i now op sha spa tpa) as [i1 f1] eqn:P. inversion H; subst.
    apply process_arp_ok in P. tauto.
  - destruct (eth_accept i e) eqn:A; cbn [negb] in *; [|done_idle H].
    rewrite <- !negb_orb in H.
    destruct (eth_is_unicast e || v4_is_multicast dst || nh_is_broadcast_v4 i dst); cbn [negb] in *.
    + apply process_ipv4_echo_ok in H; exact H.
    + done_idle H.
  - destruct (eth_accept i e) eqn:A; cbn [negb] in *; [|done_idle H].
    rewrite <- !negb_orb in H.
    destruct (eth_is_unicast e || v6_is_multicast dst); cbn [negb] in *.
    + apply process_ipv6_ok; exact H.
    + done_idle H.
  - destruct (eth_accept i ldst); done_idle H.
  - destruct (eth_accept i e) eqn:A; cbn [negb] in *; [|done_idle H].
    rewrite <- !negb_orb in H.
    destruct (eth_is_unicast e || v4_is_multicast dst || nh_is_broadcast_v4 i dst); cbn [negb] in *.
    + apply process_ipv4_echo_ok in H; exact H.
    + done_idle H.
  - destruct (eth_accept i e); done_idle H.
Qed.

Lemma process_ieee802154_ok : forall i now f i' fr, if_ether i = false ->
  nh_process_ieee802154 i now f = Ok (i', fr) -> step_ok i i' now (rx_log i now f) fr.
Proof.
  intros i now f i' fr ETH H. unfold nh_process_ieee802154 in H. unfold rx_log.
  destruct f as [e op sha spa tpa|e esrc src dst|e esrc src dst hop p|panok ldst lsrc src dst hop p|e esrc src dst|e];
    cbn [medium_accept link_ok rx_edst] in *; rewrite ?ETH; cbn [negb andb]; try (done_idle H).
  destruct panok; cbn [negb] in *; [|done_idle H].
  destruct (ldst =? IEEE_BROADCAST); destruct (v6_is_multicast dst); cbn [negb andb orb] in *;
    try (done_idle H); apply process_ipv6_ok; exact H.
Qed.

Lemma process_rx_ok : forall i now f i' fr,
  nh_process_rx i now f = Ok (i', fr) -> step_ok i i' now (rx_log i now f) fr.
Proof.
  intros i now f i' fr H. unfold nh_process_rx in H. destruct (if_ether i) eqn:E.
  - apply process_ethernet_ok; auto.
  - apply process_ieee802154_ok; auto.
Qed.

(* ---------- one event, whole runs ---------- *)

Definition no_limit (l : list cop) : Prop :=
  forallb (fun op => match op with CLimit _ => false | _ => true end) l = true.

Lemma cache_wf_ext : forall cap c1 c2, c_storage c1 = c_storage c2 -> cache_wf cap c1 -> cache_wf cap c2.
Proof. unfold cache_wf; intros cap c1 c2 E; rewrite E; auto. Qed.

Lemma cache_inv_ext : forall log c1 c2, c_storage c1 = c_storage c2 -> cache_inv log c1 -> cache_inv log c2.
Proof. unfold cache_inv; intros log c1 c2 E; rewrite E; auto. Qed.

Definition req_times (tfr : list (Z * frame)) : list Z :=
  map fst (filter (fun x => is_request (snd x)) tfr).

(* consecutive discovery requests are at least SILENT_TIME apart, the first not before lo *)
Fixpoint spaced_from (lo : Z) (l : list Z) : Prop :=
  match l with
  | [] => True
  | t :: r => lo <= t /\ spaced_from (t + neigh_SILENT_TIME) r
  end.

Definition trate (s s' : Z) (tfr : list (Z * frame)) : Prop :=
  spaced_from s (req_times tfr) /\ s <= s' /\ forall t, In t (req_times tfr) -> t + neigh_SILENT_TIME <= s'.

Lemma req_times_stamp : forall now fr, req_times (stamp now fr) = map (fun _ => now) (requests fr).
Proof.
  induction fr as [|f r IH]; [reflexivity|].
  unfold req_times, stamp, requests in *. simpl. destruct (is_request f); simpl; rewrite IH; reflexivity.
Qed.

Lemma rate_ok_trate : forall s s' now fr, rate_ok s s' now fr -> trate s s' (stamp now fr).
Proof.
  intros s s' now fr H. pose proof silent_pos. unfold trate. rewrite req_times_stamp.
  destruct H as [[E R]|[E [L N]]].
  - rewrite R; simpl. subst. split; [exact I|]. split; [lia | intros t []].
  - destruct (requests fr) as [|a [|b r]]; simpl in *; try lia.
    + split; [exact I|]. split; [lia | intros t []].
    + split; [split; [lia | exact I]|]. split; [lia|]. intros t [T|[]]; lia.
Qed.

Lemma spaced_weaken : forall l lo lo', lo' <= lo -> spaced_from lo l -> spaced_from lo' l.
Proof. destruct l; simpl; intros lo lo' H S; [exact I | split; [lia | tauto]]. Qed.

Lemma req_times_app : forall a b, req_times (a ++ b) = req_times a ++ req_times b.
Proof. intros; unfold req_times. rewrite filter_app, map_app; reflexivity. Qed.

Lemma spaced_app : forall l1 lo lo2 l2, spaced_from lo l1 -> (forall t, In t l1 -> t + neigh_SILENT_TIME <= lo2) ->
  lo <= lo2 -> spaced_from lo2 l2 -> spaced_from lo (l1 ++ l2).
Proof.
  induction l1 as [|t r IH]; simpl; intros lo lo2 l2 S B L S2.
  - eapply spaced_weaken; eauto.
  - destruct S as [S1 S3]. split; [exact S1|].
    apply IH with (lo2 := lo2); auto; try (apply B; left; reflexivity).
Qed.

Lemma trate_app : forall s1 s2 s3 a b, trate s1 s2 a -> trate s2 s3 b -> trate s1 s3 (a ++ b).
Proof.
  intros s1 s2 s3 a b (A1 & A2 & A3) (B1 & B2 & B3). unfold trate. rewrite req_times_app.
  split; [eapply spaced_app; eauto|]. split; [lia|].
  intros t H. apply in_app_iff in H. destruct H as [H|H]; [specialize (A3 _ H); lia | auto].
Qed.

Lemma trate_nil : forall s, trate s s [].
Proof. intros; split; [exact I|]. split; [lia | intros t []]. Qed.

(* what one event does *)
Lemma step_spec : forall i e i' tfr, nh_step i e = Ok (i', tfr) ->
  if_cap i' = if_cap i /\ if_ether i' = if_ether i /\
  c_storage (if_cache i') = c_storage (cache_run (if_cap i) (if_cache i) (ev_log i e)) /\
  trate (su i) (su i') tfr.
Proof.
  intros i e i' tfr H. destruct e as [now f|now dst tag|l|hw|r]; cbn [nh_step ev_log] in *.
  - destruct (nh_process_rx i now f) as [[i1 f1]| |] eqn:P; simpl in H; try discriminate.
    inversion H; subst. apply process_rx_ok in P. destruct P as ((A&B&C&_) & S & R).
    split; [exact C|]. split; [exact A|]. split; [exact S|].
    apply rate_ok_trate; exact R.
  - destruct (nh_dispatch_ip i dst tag now) as [[[i1 f1] r1]| |] eqn:P; simpl in H; try discriminate.
    inversion H; subst. apply dispatch_ip_rate in P. destruct P as ((A&B&C&_) & S & R).
    split; [exact C|]. split; [exact A|]. split; [exact S|].
    apply rate_ok_trate; exact R.
  - inversion H; subst. split; [reflexivity|]. split; [reflexivity|].
    split; [reflexivity | apply trate_nil].
  - unfold nh_set_hardware_addr in H. destruct (hw_is_unicast i hw); simpl in H; [|discriminate].
    inversion H; subst. split; [reflexivity|]. split; [reflexivity|].
    split; [reflexivity | apply trate_nil].
  - inversion H; subst. split; [reflexivity|]. split; [reflexivity|].
    split; [reflexivity | apply trate_nil].
Qed.

Lemma nh_log_cons : forall i e r i1 f1, nh_step i e = Ok (i1, f1) ->
  nh_log i (e :: r) = ev_log i e ++ nh_log i1 r.
Proof. intros. cbn [nh_log]. rewrite H. reflexivity. Qed.

(* the neighbor cache along any event sequence: bounded, duplicate-free, and every entry stems from
   the most recent fill of its key in the learning history *)
Lemma run_inv : forall evs i i' tfr log0,
  1 <= if_cap i -> cache_wf (if_cap i) (if_cache i) -> cache_inv log0 (if_cache i) ->
  nh_run i evs = Ok (i', tfr) ->
  if_cap i' = if_cap i /\ if_ether i' = if_ether i /\
  cache_wf (if_cap i) (if_cache i') /\ cache_inv (log0 ++ nh_log i evs) (if_cache i').
Proof.
  induction evs as [|e r IH]; intros i i' tfr log0 Hcap WF INV H.
  - inversion H; subst. cbn [nh_log]. rewrite app_nil_r.
    split; [reflexivity|]. split; [reflexivity|]. split; assumption.
  - cbn [nh_run] in H.
    destruct (nh_step i e) as [[i1 f1]| |] eqn:S; simpl in H; try discriminate.
    destruct (nh_run i1 r) as [[i2 f2]| |] eqn:R; simpl in H; try discriminate.
    inversion H; subst.
    pose proof (step_spec _ _ _ _ S) as (C1 & C2 & ST & _).
    destruct (cache_run_inv (if_cap i) (ev_log i e) log0 (if_cache i) Hcap WF INV) as [WF1 INV1].
    symmetry in ST.
    assert (WF1' : cache_wf (if_cap i1) (if_cache i1)) by (rewrite C1; eapply cache_wf_ext; eauto).
    assert (INV1' : cache_inv (log0 ++ ev_log i e) (if_cache i1)) by (eapply cache_inv_ext; eauto).
    assert (Hcap1 : 1 <= if_cap i1) by lia.
    destruct (IH i1 i' f2 (log0 ++ ev_log i e) Hcap1 WF1' INV1' R) as (D1 & D2 & WF2 & INV2).
    rewrite (nh_log_cons _ _ _ _ _ S), app_assoc.
    split; [congruence|]. split; [congruence|].
    split; [rewrite <- C1; exact WF2 | exact INV2].
Qed.

Lemma run_rate : forall evs i i' tfr, nh_run i evs = Ok (i', tfr) -> trate (su i) (su i') tfr.
Proof.
  induction evs as [|e r IH]; intros i i' tfr H.
  - inversion H; subst. apply trate_nil.
  - cbn [nh_run] in H.
    destruct (nh_step i e) as [[i1 f1]| |] eqn:S; simpl in H; try discriminate.
    destruct (nh_run i1 r) as [[i2 f2]| |] eqn:R; simpl in H; try discriminate.
    inversion H; subst.
    pose proof (step_spec _ _ _ _ S) as (_ & _ & _ & T).
    eapply trate_app; [exact T | apply IH; exact R].
Qed.

Lemma init_wf : forall ether hw cap, 0 <= cap -> cache_wf (if_cap (nh_init ether hw cap)) (if_cache (nh_init ether hw cap)).
Proof. intros; apply wf_new; exact H. Qed.

(* ---------- the next hop ---------- *)

(* n is the destination itself if it is on-link, otherwise the gateway of a matching unexpired
   route such that no matching unexpired route has a strictly longer prefix *)
Definition next_hop_correct (i : iface) (dst : ipaddr) (now : Z) (n : ipaddr) : Prop :=
  (nh_in_same_network i dst = true /\ n = dst) \/
  (nh_in_same_network i dst = false /\
   exists r, In r (if_routes i) /\ rt_via r = n /\ route_live r dst now = true /\
     forall r', In r' (if_routes i) -> route_live r' dst now = true ->
                cidr_plen (rt_cidr r') <= cidr_plen (rt_cidr r)).

Lemma route_correct : forall i dst now n, nh_is_broadcast i dst = false ->
  nh_route i dst now = Some n -> next_hop_correct i dst now n.
Proof.
  intros i dst now n B R. unfold nh_route in R.
  assert (IB : ip_is_broadcast dst = false).
  { destruct dst; simpl in *; [|reflexivity]. unfold nh_is_broadcast_v4 in B.
    apply orb_false_iff in B. tauto. }
  rewrite IB, orb_false_r in R.
  destruct (nh_in_same_network i dst) eqn:S.
  - inversion R; subst. left; auto.
  - right. split; [exact S|]. apply route_lookup_some in R. exact R.
Qed.

Lemma route_none : forall i dst now, nh_route i dst now = None ->
  nh_in_same_network i dst = false /\ forall r, In r (if_routes i) -> route_live r dst now = false.
Proof.
  intros i dst now R. unfold nh_route in R.
  destruct (nh_in_same_network i dst || ip_is_broadcast dst) eqn:S; [discriminate|].
  apply orb_false_iff in S. split; [tauto|]. apply route_lookup_none; exact R.
Qed.

(* ---------- property-level statements over event sequences ---------- *)

(* as [learned], with the lifetime written as the property text has it (60 s in microseconds) and
   relative to the current time *)
Definition learned_within_60s (log : list cop) (k : ipaddr) (hw : Z) (now : Z) : Prop :=
  exists l1 t0 l2,
    log = l1 ++ CFill k hw t0 :: l2 /\
    forallb (keeps k) l2 = true /\
    (now < t0 + 60000000 \/ exists t, In (CReset k hw t) l2 /\ now < t + 60000000).

Lemma learned_60 : forall log k hw e now, learned log k hw e -> now < e -> learned_within_60s log k hw now.
Proof.
  intros log k hw e now (l1 & t0 & l2 & E & F & C) L. exists l1, t0, l2. split; [exact E|]. split; [exact F|].
  rewrite entry_lifetime_is_60s in C. destruct C as [C|[t [C1 C2]]]; [left; lia | right; exists t; split; [exact C1 | lia]].
Qed.

Lemma unicast_learned : forall ether hw cap evs i tfr dst now i' fr h,
  1 <= cap ->
  nh_run (nh_init ether hw cap) evs = Ok (i, tfr) ->
  nh_is_broadcast i dst = false -> ip_is_multicast dst = false ->
  nh_lookup_hardware_addr i dst now = Ok (i', fr, DSend h) ->
  i' = i /\ fr = [] /\
  exists n, nh_route i dst now = Some n /\ next_hop_correct i dst now n /\
            learned_within_60s (nh_log (nh_init ether hw cap) evs) n h now.
Proof.
  intros ether hw cap evs i tfr dst now i' fr h Hcap R B M L.
  assert (Hc : 1 <= if_cap (nh_init ether hw cap)) by exact Hcap.
  destruct (run_inv evs _ _ _ [] Hc (init_wf ether hw cap ltac:(lia)) cache_inv_new R) as (_ & _ & WF & INV).
  cbn [app] in INV.
  apply lookup_hw_spec in L. destruct L as [(E1 & E2 & C)|(_ & C & _)]; [|discriminate].
  split; [exact E1|]. split; [exact E2|].
  destruct C as [[_ C]|[(h0 & _ & _ & C & _)|(_ & _ & C)]]; try congruence.
  destruct C as [[C _]|(n & RT & _ & C)]; [discriminate|].
  destruct C as [(h0 & C1 & C2)|[[C _]|[C _]]]; try discriminate.
  inversion C1; subst h0.
  exists n. split; [exact RT|]. split; [apply route_correct; auto|].
  destruct (lookup_found_learned _ _ _ _ _ INV C2) as (e & LE & LT).
  eapply learned_60; eauto.
Qed.

(* on a miss: nothing but the discovery request for the correct next hop, to the broadcast /
   solicited-node hardware address; the caller gets an error (keeps its packet) *)
Lemma miss_only_discovery : forall i dst tag now i' fr r,
  nh_dispatch_ip i dst tag now = Ok (i', fr, r) ->
  (exists h, r = DSend h /\ fr = [FIp h dst tag]) \/
  ((r = DNoRoute \/ r = DPending) /\
   (fr = [] \/
    exists n, nh_route i dst now = Some n /\ next_hop_correct i dst now n /\
              neigh_lookup (if_cache i) n now = NotFound /\
              match n with
              | V4 t => fr = [FArpReq ETH_BROADCAST t]
              | V6 t => exists hm, hw_multicast i (V6 (v6_solicited_node t)) = Some hm /\ fr = [FNs hm t]
              end)).
Proof.
  intros i dst tag now i' fr r H. unfold nh_dispatch_ip in H.
  destruct (ip_is_unspecified dst); [discriminate|].
  destruct (nh_lookup_hardware_addr i dst now) as [[[i1 f1] r1]| |] eqn:L; simpl in H; try discriminate.
  apply lookup_hw_spec in L.
  destruct L as [(E1 & E2 & C)|(E1 & E2 & B & M & n & RT & U & NF & D)].
  - subst f1. destruct r1; inversion H; subst.
    + left. exists hw; auto.
    + right; split; [left; reflexivity | left; reflexivity].
    + right; split; [right; reflexivity | left; reflexivity].
  - subst r1. inversion H; subst. right. split; [right; reflexivity|].
    destruct n as [t|t]; simpl in D.
    + destruct D as [D|D]; [|left; exact D]. right. exists (V4 t).
      split; [exact RT|]. split; [apply route_correct; auto|]. split; [exact NF | exact D].
    + right. exists (V6 t). split; [exact RT|]. split; [apply route_correct; auto|]. split; [exact NF | exact D].
Qed.

(* the solicited-node hardware address on Ethernet *)
Lemma ns_hw_ethernet : forall i t, if_ether i = true ->
  hw_multicast i (V6 (v6_solicited_node t)) = Some (0x3333 * 2 ^ 32 + (0xff000000 + t mod 2 ^ 24)).
Proof.
  intros i t E. unfold hw_multicast. rewrite E. f_equal. f_equal. unfold v6_solicited_node.
  assert (0 <= t mod 2 ^ 24 < 2 ^ 24) by (apply Z.mod_pos_bound; lia).
  replace (65282 * 2 ^ 112 + 511 * 2 ^ 24 + t mod 2 ^ 24)
    with ((65282 * 2 ^ 80 + 1) * 2 ^ 32 + (4278190080 + t mod 2 ^ 24)) by lia.
  rewrite Z.add_comm, Z.mod_add by lia. apply Z.mod_small. lia.
Qed.

Lemma cache_bounded_run : forall ether hw cap evs i tfr, 1 <= cap ->
  nh_run (nh_init ether hw cap) evs = Ok (i, tfr) ->
  Z.of_nat (length (c_storage (if_cache i))) <= cap /\ NoDup (map fst (c_storage (if_cache i))).
Proof.
  intros ether hw cap evs i tfr Hcap R.
  assert (Hc : 1 <= if_cap (nh_init ether hw cap)) by exact Hcap.
  destruct (run_inv evs _ _ _ [] Hc (init_wf ether hw cap ltac:(lia)) cache_inv_new R) as (_ & _ & [ND LEN] & _).
  split; [exact LEN | exact ND].
Qed.

(* a learned address is no longer returned once 60 s have passed without a fill or refresh *)
Lemma entry_expires_run : forall ether hw cap evs i tfr n now, 1 <= cap ->
  nh_run (nh_init ether hw cap) evs = Ok (i, tfr) ->
  (forall h t, In (CFill n h t) (nh_log (nh_init ether hw cap) evs) -> t + 60000000 <= now) ->
  (forall h t, In (CReset n h t) (nh_log (nh_init ether hw cap) evs) -> t + 60000000 <= now) ->
  forall h, neigh_lookup (if_cache i) n now <> Found h.
Proof.
  intros ether hw cap evs i tfr n now Hcap R F1 F2 h L.
  assert (Hc : 1 <= if_cap (nh_init ether hw cap)) by exact Hcap.
  destruct (run_inv evs _ _ _ [] Hc (init_wf ether hw cap ltac:(lia)) cache_inv_new R) as (_ & _ & _ & INV).
  cbn [app] in INV.
  destruct (lookup_found_learned _ _ _ _ _ INV L) as (e & LE & LT).
  destruct (learned_60 _ _ _ _ _ LE LT) as (l1 & t0 & l2 & E & _ & C).
  destruct C as [C|(t & C1 & C2)].
  - assert (In (CFill n h t0) (nh_log (nh_init ether hw cap) evs)) by (rewrite E; apply in_app_iff; right; left; reflexivity).
    specialize (F1 _ _ H). lia.
  - assert (In (CReset n h t) (nh_log (nh_init ether hw cap) evs)) by (rewrite E; apply in_app_iff; right; right; exact C1).
    specialize (F2 _ _ H). lia.
Qed.

Lemma spaced_all_ge : forall l lo t, spaced_from lo l -> In t l -> lo <= t.
Proof.
  induction l as [|x r IH]; simpl; intros lo t S H; [tauto|].
  pose proof silent_pos. destruct S as [S1 S2]. destruct H as [H|H]; [lia|].
  specialize (IH _ _ S2 H). lia.
Qed.

Lemma spaced_pairwise : forall l lo a t1 b t2 c, spaced_from lo l -> l = a ++ t1 :: b ++ t2 :: c ->
  t1 + neigh_SILENT_TIME <= t2.
Proof.
  intros l lo a. revert l lo. induction a as [|x a IH]; intros l lo t1 b t2 c S E; subst l.
  - simpl in S. destruct S as [_ S]. eapply spaced_all_ge; [exact S|]. apply in_app_iff; right; left; reflexivity.
  - simpl in S. destruct S as [_ S]. eapply IH; [exact S | reflexivity].
Qed.

(* discovery requests (ARP request / neighbor solicitation) of one interface are at least
   1 s apart, along any event sequence *)
Lemma discovery_rate_run : forall ether hw cap evs i tfr a t1 b t2 c,
  nh_run (nh_init ether hw cap) evs = Ok (i, tfr) ->
  req_times tfr = a ++ t1 :: b ++ t2 :: c ->
  t1 + 1000000 <= t2.
Proof.
  intros ether hw cap evs i tfr a t1 b t2 c R E.
  apply run_rate in R. destruct R as (S & _ & _).
  pose proof (spaced_pairwise _ _ _ _ _ _ _ S E) as P. rewrite silent_time_is_1s in P. lia.
Qed.

(* ... and from any state: the next request is not before silent_until *)
Lemma discovery_rate_from : forall evs i i' tfr t, nh_run i evs = Ok (i', tfr) ->
  In t (req_times tfr) -> c_silent_until (if_cache i) <= t.
Proof.
  intros evs i i' tfr t R H. apply run_rate in R. destruct R as (S & _ & _).
  eapply spaced_all_ge; eauto.
Qed.

(* ---------- no panics for well-formed configurations ---------- *)

Definition gateways_unicast (i : iface) : Prop :=
  forall r, In r (if_routes i) -> ip_is_unicast (rt_via r) = true.

Lemma not_special_unicast : forall dst, ip_is_broadcast dst = false -> ip_is_multicast dst = false ->
  ip_is_unspecified dst = false -> ip_is_unicast dst = true.
Proof.
  intros [a|a] B M U; simpl in *.
  - unfold v4_x_is_unicast. rewrite B, M, U. reflexivity.
  - unfold v6_x_is_unicast. rewrite M, U. reflexivity.
Qed.

Lemma nh_broadcast_false_ip : forall i dst, nh_is_broadcast i dst = false -> ip_is_broadcast dst = false.
Proof.
  intros i [a|a] B; simpl in *; [|reflexivity].
  unfold nh_is_broadcast_v4 in B. apply orb_false_iff in B. tauto.
Qed.

Lemma dispatch_no_panic : forall i dst tag now,
  gateways_unicast i -> ip_is_unspecified dst = false ->
  (if_ether i = true \/ match dst with V4 a => v4_is_multicast a = false | V6 _ => True end) ->
  nh_dispatch_ip i dst tag now <> Panic.
Proof.
  intros i dst tag now G U Med H. unfold nh_dispatch_ip in H. rewrite U in H.
  destruct (nh_lookup_hardware_addr i dst now) as [[[i1 f1] r1]| |] eqn:L; simpl in H;
    [destruct r1; discriminate | discriminate |].
  clear H. unfold nh_lookup_hardware_addr in L.
  destruct (nh_is_broadcast i dst) eqn:B; [discriminate|].
  pose proof (nh_broadcast_false_ip _ _ B) as IB.
  destruct (ip_is_multicast dst) eqn:M.
  { unfold hw_multicast in L. destruct dst as [a|a].
    - destruct (if_ether i); [discriminate|]. destruct Med as [Med|Med]; [discriminate|].
      simpl in M. congruence.
    - destruct (if_ether i); discriminate. }
  rewrite (not_special_unicast _ IB M U) in L. rewrite andb_false_r in L.
  destruct (nh_route i dst now) as [n|] eqn:R; [|discriminate].
  assert (UN : ip_is_unicast n = true).
  { unfold nh_route in R. rewrite IB, orb_false_r in R.
    destruct (nh_in_same_network i dst).
    - inversion R; subst. apply not_special_unicast; auto.
    - apply route_lookup_some in R. destruct R as (r & In_r & V & _). rewrite <- V. apply G; exact In_r. }
  rewrite UN in L. cbn [negb] in L.
  destruct (neigh_lookup (if_cache i) n now); try discriminate.
  destruct n as [t|t].
  - destruct (if_ether i); [destruct (nh_has_ipv4_source i)|]; discriminate.
  - unfold hw_multicast in L. destruct (if_ether i); discriminate.
Qed.

(* ---------- what the entries of the learning history mean ---------- *)

(* a fill is caused only by: an ARP request/reply addressed (Ethernet and target protocol address)
   to the interface with unicast, on-link source; or a neighbor advertisement / solicitation with
   hop limit 255, unicast source, accepted destination, unicast link-layer address option and
   unicast target *)
Definition fill_cause (i : iface) (f : rxframe) (k : ipaddr) (hw : Z) : Prop :=
  medium_accept i f = true /\ link_ok i f = true /\
  match f with
  | RxArp _ op sha spa tpa => k = V4 spa /\ hw = sha /\ arp_valid i op sha spa tpa = true
  | RxV4Echo _ _ _ _ | RxV4Bad _ _ _ _ | RxJunk _ => False
  | RxV6 _ _ src dst hop p | Rx154 _ _ _ src dst hop p =>
      k = V6 src /\ hop = 255 /\ v6_accept i src dst = true /\
      match p with
      | P6Na target (Some l) _ | P6Ns target (Some l) =>
          hw = l /\ hw_option_ok i l = true /\ hw_is_unicast i l = true /\ v6_x_is_unicast target = true
      | _ => False
      end
  end.

(* a refresh is caused only by an accepted IP packet to a unicast destination, from (k, hw) *)
Definition refresh_cause (i : iface) (f : rxframe) (k : ipaddr) (hw : Z) : Prop :=
  medium_accept i f = true /\ link_ok i f = true /\
  match f with
  | RxArp _ _ _ _ _ | RxJunk _ => False
  | RxV4Echo _ esrc src dst | RxV4Bad _ esrc src dst =>
      k = V4 src /\ hw = esrc /\ v4_accept i src dst = true /\ nh_is_unicast_v4 i dst = true
  | RxV6 _ esrc src dst _ _ | Rx154 _ _ esrc src dst _ _ =>
      k = V6 src /\ hw = esrc /\ v6_accept i src dst = true /\ v6_x_is_unicast dst = true
  end.

Lemma rx_log_sound : forall i now f op, In op (rx_log i now f) ->
  match op with
  | CFill k hw t => t = now /\ fill_cause i f k hw
  | CReset k hw t => t = now /\ refresh_cause i f k hw
  | CLimit _ => False
  | CFlush => False
  end.
Proof.
  intros i now f op H. unfold rx_log in H. unfold fill_cause, refresh_cause.
  destruct (medium_accept i f) eqn:A; cbn [negb] in H; [|destruct H].
  destruct (link_ok i f) eqn:LK; cbn [negb] in H; [|destruct H].
  assert (V6C : forall esrc src dst hop p, In op (v6_log i now esrc src dst hop p) ->
    match op with
    | CFill k hw t => t = now /\ k = V6 src /\ hop = 255 /\ v6_accept i src dst = true /\
        match p with
        | P6Na target (Some l) _ | P6Ns target (Some l) =>
            hw = l /\ hw_option_ok i l = true /\ hw_is_unicast i l = true /\ v6_x_is_unicast target = true
        | _ => False
        end
    | CReset k hw t => t = now /\ k = V6 src /\ hw = esrc /\ v6_accept i src dst = true /\ v6_x_is_unicast dst = true
    | _ => False
    end).
  { clear. intros esrc src dst hop p H. unfold v6_log in H. destruct (v6_accept i src dst) eqn:V; [|destruct H].
    apply in_app_iff in H. destruct H as [H|H].
    + destruct (v6_x_is_unicast dst) eqn:U; [|destruct H].
      destruct H as [H|[]]; subst. repeat split; auto.
    + destruct (hop =? 255) eqn:HP; [|destruct H]. apply Z.eqb_eq in HP.
      destruct p as [|target [l|] ovr|target [l|]|]; try (destruct H; fail).
      * match type of H with In _ (if ?c then _ else _) => destruct c eqn:C end; [|destruct H].
        apply andb_true_iff in C. destruct C as [C _]. apply andb_true_iff in C. destruct C as [C C3].
        apply andb_true_iff in C.
        destruct H as [H|[]]; subst. repeat split; tauto.
      * match type of H with In _ (if ?c then _ else _) => destruct c eqn:C end; [|destruct H].
        apply andb_true_iff in C. destruct C as [C C3]. apply andb_true_iff in C.
        destruct H as [H|[]]; subst. repeat split; tauto. }
  destruct f as [e o sha spa tpa|e esrc src dst|e esrc src dst hop p|panok ldst lsrc src dst hop p|e esrc src dst|e].
  - destruct (arp_valid i o sha spa tpa) eqn:V; [|destruct H].
    destruct H as [H|[]]; subst. repeat split; auto.
  - destruct (v4_accept i src dst && nh_is_unicast_v4 i dst) eqn:V; [|destruct H].
    apply andb_true_iff in V. destruct H as [H|[]]; subst. repeat split; tauto.
  - apply V6C in H. destruct op; try tauto.
  - apply V6C in H. destruct op; try tauto.
  - destruct (v4_accept i src dst && nh_is_unicast_v4 i dst) eqn:V; [|destruct H].
    apply andb_true_iff in V. destruct H as [H|[]]; subst. repeat split; tauto.
  - destruct H.
Qed.

(* every operation of the learning history of a run belongs to one event, processed in the state
   the interface had at that point *)
Lemma log_event : forall evs i i' tfr op, nh_run i evs = Ok (i', tfr) -> In op (nh_log i evs) ->
  exists evs1 e evs2 i1 tf1,
    evs = evs1 ++ e :: evs2 /\ nh_run i evs1 = Ok (i1, tf1) /\ In op (ev_log i1 e).
Proof.
  induction evs as [|e r IH]; intros i i' tfr op R H; [destruct H|].
  cbn [nh_run] in R.
  destruct (nh_step i e) as [[i1 f1]| |] eqn:S; simpl in R; try discriminate.
  destruct (nh_run i1 r) as [[i2 f2]| |] eqn:R2; simpl in R; try discriminate.
  rewrite (nh_log_cons _ _ _ _ _ S) in H. apply in_app_iff in H. destruct H as [H|H].
  - exists [], e, r, i, []. split; [reflexivity|]. split; [reflexivity | exact H].
  - destruct (IH _ _ _ _ R2 H) as (evs1 & e0 & evs2 & i3 & tf1 & E & R3 & I3).
    exists (e :: evs1), e0, evs2, i3, (f1 ++ tf1). split; [rewrite E; reflexivity|].
    split; [|exact I3]. cbn [nh_run]. rewrite S. simpl. rewrite R3. reflexivity.
Qed.

Lemma fill_is_validated : forall evs i i' tfr k hw t, nh_run i evs = Ok (i', tfr) ->
  In (CFill k hw t) (nh_log i evs) ->
  exists evs1 f evs2 i1 tf1,
    evs = evs1 ++ EvRx t f :: evs2 /\ nh_run i evs1 = Ok (i1, tf1) /\ fill_cause i1 f k hw.
Proof.
  intros evs i i' tfr k hw t R H.
  destruct (log_event _ _ _ _ _ R H) as (evs1 & e & evs2 & i1 & tf1 & E & R1 & I1).
  destruct e as [now f|now dst tag|l|hw0|rt]; cbn [ev_log] in I1.
  - apply rx_log_sound in I1. destruct I1 as [T C]. subst now.
    exists evs1, f, evs2, i1, tf1. auto.
  - destruct I1.
  - destruct I1 as [I1|[]]; discriminate.
  - destruct I1.
  - destruct I1.
Qed.

Lemma refresh_is_traffic : forall evs i i' tfr k hw t, nh_run i evs = Ok (i', tfr) ->
  In (CReset k hw t) (nh_log i evs) ->
  exists evs1 f evs2 i1 tf1,
    evs = evs1 ++ EvRx t f :: evs2 /\ nh_run i evs1 = Ok (i1, tf1) /\ refresh_cause i1 f k hw.
Proof.
  intros evs i i' tfr k hw t R H.
  destruct (log_event _ _ _ _ _ R H) as (evs1 & e & evs2 & i1 & tf1 & E & R1 & I1).
  destruct e as [now f|now dst tag|l|hw0|rt]; cbn [ev_log] in I1.
  - apply rx_log_sound in I1. destruct I1 as [T C]. subst now.
    exists evs1, f, evs2, i1, tf1. auto.
  - destruct I1.
  - destruct I1 as [I1|[]]; discriminate.
  - destruct I1.
  - destruct I1.
Qed.
