(* C02 (liveness half), close, layer 4: bookkeeping of reliable runs for the close.
     ntrk fa z          no frame towards z is still tracked as undelivered: on a reliable run ([once_ev])
                        nothing can be delivered to z
     otrk fa st z P T   exactly one frame towards z is tracked, it satisfies P and is due by T: on a reliable
                        run the only delivery to z is that frame
   and how the events of a fair run move these (emission: ntrk -> otrk; delivery: otrk -> ntrk). *)
From SV Require Import Lib.Base Gen.Consts.
From SV Require Import Model.Seq32 Model.Assembler Model.TcpBuf Model.TcpTypes Model.Tcp Model.TcpNet.
From SV Require Import Proofs.TcpNetBase.
From SV Require Import Proofs.TcpProgressBase Proofs.TcpProgressExample Proofs.TcpProgressWitness Proofs.TcpProgressZwDup.

Definition ntrk (fa : fair_aux) (z : side) : Prop := forall j t, nth_error (fa_dl fa z) j <> Some (Some t).

Definition otrk (fa : fair_aux) (st : net) (z : side) (P : packet -> Prop) (T : Z) : Prop :=
  exists i p t, nth_error (chan_to st z) i = Some p /\ nth_error (fa_dl fa z) i = Some (Some t) /\
                net_now st z <= t /\ t <= T /\ P p /\
                forall j t', nth_error (fa_dl fa z) j = Some (Some t') -> j = i.

Lemma fa_after_dl_old' Dt Da fa ev st' x j t :
  (j < length (fa_dl fa x))%nat ->
  nth_error (fa_dl (fa_after Dt Da fa ev st') x) j = Some (Some t) ->
  nth_error (fa_dl fa x) j = Some (Some t) /\ ev <> NDeliver x j.
Proof.
  intros Hj H. cbn [fa_after fa_dl] in H.
  destruct ev; try (rewrite pad_dl_nth_old in H by exact Hj; split; [exact H | discriminate]).
  destruct (side_eqb to x) eqn:E.
  - rewrite pad_dl_nth_old in H by (rewrite mark_delivered_length; exact Hj).
    apply side_eqb_true in E. subst to.
    destruct (Nat.eq_dec i j) as [-> | Hne].
    + rewrite mark_delivered_nth_same in H by exact Hj. discriminate.
    + rewrite mark_delivered_nth_other in H by exact Hne. split; [exact H | congruence].
  - rewrite pad_dl_nth_old in H by exact Hj. split; [exact H|].
    intros X. inversion X; subst. rewrite side_eqb_refl in E. discriminate.
Qed.

Section Trk.
Variables Dt Da : Z.

Lemma ntrk_keep fa st ev st' z :
  dl_sync Da fa st -> fair_ev fa st ev -> net_step st ev = Ok st' ->
  chan_to st' z = chan_to st z -> ntrk fa z -> ntrk (fa_after Dt Da fa ev st') z.
Proof.
  intros Hsy Hfe H Hch Hn j t Hj.
  destruct (Nat.lt_ge_cases j (length (fa_dl fa z))) as [L | L].
  - destruct (fa_after_dl_old' Dt Da fa ev st' z j t L Hj) as (X & _). exact (Hn j t X).
  - pose proof (fa_after_sync Dt Da _ _ _ _ Hsy Hfe H) as (Hl' & _). destruct Hsy as (Hl & _).
    assert (Hlen : length (fa_dl (fa_after Dt Da fa ev st') z) = length (fa_dl fa z)) by (rewrite (Hl' z), Hch, (Hl z); reflexivity).
    assert (Hnone : nth_error (fa_dl (fa_after Dt Da fa ev st') z) j = None) by (apply nth_error_None; lia).
    congruence.
Qed.

Lemma otrk_new fa st ev st' z p (P : packet -> Prop) T :
  dl_sync Da fa st -> fair_ev fa st ev -> net_step st ev = Ok st' ->
  chan_to st' z = chan_to st z ++ [p] -> ntrk fa z -> P p -> net_now st' z + Dt <= T -> 0 <= Dt ->
  otrk (fa_after Dt Da fa ev st') st' z P T.
Proof.
  intros Hsy Hfe H Hch Hn HP HT HDt.
  exists (length (chan_to st z)), p, (net_now st' z + Dt).
  split; [rewrite Hch, nth_error_app2 by lia; rewrite Nat.sub_diag; reflexivity|].
  split; [apply (fa_after_dl_new Dt Da fa st ev st' z _ Hsy); rewrite Hch, app_length; cbn [length]; lia|].
  split; [lia|]. split; [exact HT|]. split; [exact HP|].
  intros j t' Hj. pose proof Hsy as (Hl & _).
  destruct (Nat.lt_ge_cases j (length (fa_dl fa z))) as [L | L].
  - destruct (fa_after_dl_old' Dt Da fa ev st' z j t' L Hj) as (X & _). exfalso. exact (Hn j t' X).
  - pose proof (fa_after_sync Dt Da _ _ _ _ Hsy Hfe H) as (Hl' & _).
    assert (Hlt : (j < length (fa_dl (fa_after Dt Da fa ev st') z))%nat) by (apply nth_error_Some; congruence).
    rewrite (Hl' z), Hch, app_length in Hlt. cbn [length] in Hlt. rewrite (Hl z) in L. lia.
Qed.

Lemma otrk_keep fa st ev st' z (P : packet -> Prop) T :
  dl_sync Da fa st -> fair_ev fa st ev -> net_step st ev = Ok st' ->
  chan_to st' z = chan_to st z -> (forall j, ev <> NDeliver z j) ->
  otrk fa st z P T -> otrk (fa_after Dt Da fa ev st') st' z P T.
Proof.
  intros Hsy Hfe H Hch Hnd (i & p & t & Hn & Hdl & Hnow & HT & HP & Hu).
  exists i, p, t. split; [rewrite Hch; exact Hn|].
  split; [apply fa_after_dl_keep; [exact Hdl | intros to E Eq; subst to; exact (Hnd i E)]|].
  split; [|split; [exact HT|]; split; [exact HP|]].
  - rewrite (net_step_now _ _ _ z H). destruct ev; try lia.
    exact (tick_respects_dl fa st d z i t Hfe Hdl Hnow).
  - intros j t' Hj. pose proof Hsy as (Hl & _).
    destruct (Nat.lt_ge_cases j (length (fa_dl fa z))) as [L | L].
    + destruct (fa_after_dl_old' Dt Da fa ev st' z j t' L Hj) as (X & _). exact (Hu j t' X).
    + pose proof (fa_after_sync Dt Da _ _ _ _ Hsy Hfe H) as (Hl' & _).
      assert (Hlt : (j < length (fa_dl (fa_after Dt Da fa ev st') z))%nat) by (apply nth_error_Some; congruence).
      rewrite (Hl' z), Hch, <- (Hl z) in Hlt. lia.
Qed.

(* the only delivery towards z that a reliable run can make *)
Lemma otrk_deliver fa st z (P : packet -> Prop) T j :
  otrk fa st z P T -> once_ev fa (NDeliver z j) ->
  exists p, nth_error (chan_to st z) j = Some p /\ P p.
Proof.
  intros (i & p & t & Hn & Hdl & _ & _ & HP & Hu) (t' & Ht'). rewrite (Hu j t' Ht'). exists p. auto.
Qed.

Lemma ntrk_nodeliver fa z j : ntrk fa z -> once_ev fa (NDeliver z j) -> False.
Proof. intros Hn (t & Ht). exact (Hn j t Ht). Qed.

(* after its delivery nothing is tracked *)
Lemma otrk_delivered fa st st' z (P : packet -> Prop) T j :
  dl_sync Da fa st -> fair_ev fa st (NDeliver z j) -> net_step st (NDeliver z j) = Ok st' ->
  chan_to st' z = chan_to st z ->
  otrk fa st z P T -> once_ev fa (NDeliver z j) -> ntrk (fa_after Dt Da fa (NDeliver z j) st') z.
Proof.
  intros Hsy Hfe H Hch (i & p & t & Hn & Hdl & _ & _ & _ & Hu) (t' & Ht') k u Hk.
  pose proof (Hu j t' Ht') as Eji. subst j. pose proof Hsy as (Hl & _).
  destruct (Nat.lt_ge_cases k (length (fa_dl fa z))) as [L | L].
  - destruct (fa_after_dl_old' Dt Da fa _ st' z k u L Hk) as (X & Hne).
    pose proof (Hu k u X) as Ek. subst k. apply Hne. reflexivity.
  - pose proof (fa_after_sync Dt Da _ _ _ _ Hsy Hfe H) as (Hl' & _).
    assert (Hlt : (k < length (fa_dl (fa_after Dt Da fa (NDeliver z i) st') z))%nat) by (apply nth_error_Some; congruence).
    rewrite (Hl' z), Hch, <- (Hl z) in Hlt. lia.
Qed.

End Trk.

(* at the start of a reliable part: nothing on the channels *)
Lemma ntrk_init Dt Da st z : chan_to st z = [] -> ntrk (fa_init Dt Da st) z.
Proof. intros E j t. cbn [fa_init fa_dl]. rewrite E. cbn. destruct j; discriminate. Qed.

(* the bookkeeping after a run *)
Fixpoint fa_run (Dt Da : Z) (fa : fair_aux) (st : net) (evs : list net_event) : fair_aux :=
  match evs with
  | [] => fa
  | ev :: rest => match net_step st ev with
                  | Ok st' => fa_run Dt Da (fa_after Dt Da fa ev st') st' rest
                  | _ => fa
                  end
  end.

Lemma fa_run_app Dt Da a : forall b fa st st1,
  net_run st a = Ok st1 -> fa_run Dt Da fa st (a ++ b) = fa_run Dt Da (fa_run Dt Da fa st a) st1 b.
Proof.
  induction a as [|ev r IH]; intros b fa st st1 H; cbn [net_run] in H.
  - inversion H; subst. reflexivity.
  - apply obind_ok in H. destruct H as (st0 & Hs & Hr). cbn [app fa_run]. rewrite Hs. exact (IH b _ _ _ Hr).
Qed.

Lemma fair_run_app Dt Da a : forall b fa st st1,
  net_run st a = Ok st1 -> fair_run Dt Da fa st (a ++ b) ->
  fair_run Dt Da fa st a /\ fair_run Dt Da (fa_run Dt Da fa st a) st1 b.
Proof.
  induction a as [|ev r IH]; intros b fa st st1 H Hf; cbn [net_run] in H.
  - inversion H; subst. split; [exact I | exact Hf].
  - apply obind_ok in H. destruct H as (st0 & Hs & Hr). cbn [app fair_run fa_run] in *. rewrite Hs in *.
    destruct Hf as (Hev & Hf). destruct (IH b _ _ _ Hr Hf) as (A & B). auto.
Qed.

Lemma once_run_app Dt Da a : forall b fa st st1,
  net_run st a = Ok st1 -> once_run Dt Da fa st (a ++ b) ->
  once_run Dt Da fa st a /\ once_run Dt Da (fa_run Dt Da fa st a) st1 b.
Proof.
  induction a as [|ev r IH]; intros b fa st st1 H Hf; cbn [net_run] in H.
  - inversion H; subst. split; [exact I | exact Hf].
  - apply obind_ok in H. destruct H as (st0 & Hs & Hr). cbn [app once_run fa_run] in *. rewrite Hs in *.
    destruct Hf as (Hev & Hf). destruct (IH b _ _ _ Hr Hf) as (A & B). auto.
Qed.

(* an invariant of reliable runs *)
Lemma rel_inv (Dt Da : Z) (E : net_event -> Prop) (K : fair_aux -> net -> Prop) :
  (forall fa st ev st', E ev -> K fa st -> fair_ev fa st ev -> once_ev fa ev -> net_step st ev = Ok st' ->
     K (fa_after Dt Da fa ev st') st') ->
  forall evs fa st st',
    K fa st -> Forall E evs -> fair_run Dt Da fa st evs -> once_run Dt Da fa st evs ->
    net_run st evs = Ok st' -> K (fa_run Dt Da fa st evs) st'.
Proof.
  intros Hstep. induction evs as [|ev r IH]; intros fa st st' HK HE Hfair Honce Hrun.
  - cbn [net_run] in Hrun. inversion Hrun; subst. exact HK.
  - cbn [net_run] in Hrun. apply obind_ok in Hrun. destruct Hrun as (st1 & Hs & Hr).
    cbn [fair_run] in Hfair. destruct Hfair as (Hev & Hrest). rewrite Hs in Hrest.
    cbn [once_run] in Honce. destruct Honce as (Hoe & Horest). rewrite Hs in Horest.
    inversion HE as [|? ? HE0 HE1]; subst. cbn [fa_run]. rewrite Hs.
    apply (IH _ _ _ (Hstep _ _ _ _ HE0 HK Hev Hoe Hs) HE1 Hrest Horest Hr).
Qed.

(* the induction principle for reliable runs, with a predicate on the events *)
Theorem rel_leads_ev (Dt Da : Z) (E : net_event -> Prop) (J Q : fair_aux -> net -> Prop) (x : side) (T : Z) :
  (forall fa st, J fa st -> net_now st x <= T) ->
  (forall fa st ev st', E ev -> J fa st -> fair_ev fa st ev -> once_ev fa ev -> net_step st ev = Ok st' ->
     Q (fa_after Dt Da fa ev st') st' \/ J (fa_after Dt Da fa ev st') st') ->
  forall evs fa st st',
    J fa st -> Forall E evs -> fair_run Dt Da fa st evs -> once_run Dt Da fa st evs ->
    net_run st evs = Ok st' -> T < net_now st' x ->
    exists pre post st1,
      evs = pre ++ post /\ net_run st pre = Ok st1 /\ net_run st1 post = Ok st' /\
      Forall E post /\ fair_run Dt Da (fa_run Dt Da fa st pre) st1 post /\
      once_run Dt Da (fa_run Dt Da fa st pre) st1 post /\ Q (fa_run Dt Da fa st pre) st1.
Proof.
  intros Hclock Hstep. induction evs as [|ev r IH]; intros fa st st' HJ HE Hfair Honce Hrun Hpast.
  - cbn [net_run] in Hrun. inversion Hrun; subst. specialize (Hclock _ _ HJ). lia.
  - cbn [net_run] in Hrun. apply obind_ok in Hrun. destruct Hrun as (st1 & Hs & Hr).
    cbn [fair_run] in Hfair. destruct Hfair as (Hev & Hrest). rewrite Hs in Hrest.
    cbn [once_run] in Honce. destruct Honce as (Hoe & Horest). rewrite Hs in Horest.
    inversion HE as [|? ? HE0 HE1]; subst.
    destruct (Hstep _ _ _ _ HE0 HJ Hev Hoe Hs) as [HQ | HJ'].
    + exists [ev], r, st1. cbn [fa_run]. rewrite Hs.
      split; [reflexivity|]. split; [cbn [net_run]; rewrite Hs; reflexivity|].
      split; [exact Hr|]. split; [exact HE1|]. split; [exact Hrest|]. split; [exact Horest | exact HQ].
    + destruct (IH _ _ _ HJ' HE1 Hrest Horest Hr Hpast)
        as (pre & post & st2 & -> & Hp1 & Hp2 & HE2 & Hf & Ho & HQ).
      exists (ev :: pre), post, st2. cbn [fa_run]. rewrite Hs.
      split; [reflexivity|]. split; [cbn [net_run]; rewrite Hs; exact Hp1|].
      split; [exact Hp2|]. split; [exact HE2|]. split; [exact Hf|]. split; [exact Ho | exact HQ].
Qed.

(* a tracked index is an index of the channel *)
Lemma once_ev_nth fa st to i :
  dl_len_sync fa st -> once_ev fa (NDeliver to i) -> nth_error (chan_to st to) i <> None.
Proof.
  intros Hl (t & Ht). apply nth_error_Some. rewrite <- (Hl to). apply nth_error_Some. congruence.
Qed.

(* the same with a predicate on the states of the run as well *)
Theorem rel_leads_er (Dt Da : Z) (E : net_event -> Prop) (R : net -> Prop) (J Q : fair_aux -> net -> Prop)
        (x : side) (T : Z) :
  (forall fa st, J fa st -> net_now st x <= T) ->
  (forall fa st ev st', E ev -> R st -> R st' -> J fa st -> fair_ev fa st ev -> once_ev fa ev -> net_step st ev = Ok st' ->
     Q (fa_after Dt Da fa ev st') st' \/ J (fa_after Dt Da fa ev st') st') ->
  forall evs fa st st',
    J fa st -> Forall E evs -> run_all R st evs -> fair_run Dt Da fa st evs -> once_run Dt Da fa st evs ->
    net_run st evs = Ok st' -> T < net_now st' x ->
    exists pre post st1,
      evs = pre ++ post /\ net_run st pre = Ok st1 /\ net_run st1 post = Ok st' /\
      Forall E post /\ run_all R st1 post /\ fair_run Dt Da (fa_run Dt Da fa st pre) st1 post /\
      once_run Dt Da (fa_run Dt Da fa st pre) st1 post /\ Q (fa_run Dt Da fa st pre) st1.
Proof.
  intros Hclock Hstep. induction evs as [|ev r IH]; intros fa st st' HJ HE HR Hfair Honce Hrun Hpast.
  - cbn [net_run] in Hrun. inversion Hrun; subst. specialize (Hclock _ _ HJ). lia.
  - cbn [net_run] in Hrun. apply obind_ok in Hrun. destruct Hrun as (st1 & Hs & Hr).
    cbn [fair_run] in Hfair. destruct Hfair as (Hev & Hrest). rewrite Hs in Hrest.
    cbn [once_run] in Honce. destruct Honce as (Hoe & Horest). rewrite Hs in Horest.
    cbn [run_all] in HR. destruct HR as (HR0 & HR1). rewrite Hs in HR1.
    inversion HE as [|? ? HE0 HE1]; subst.
    destruct (Hstep _ _ _ _ HE0 HR0 (run_all_here _ _ _ HR1) HJ Hev Hoe Hs) as [HQ | HJ'].
    + exists [ev], r, st1. cbn [fa_run]. rewrite Hs.
      split; [reflexivity|]. split; [cbn [net_run]; rewrite Hs; reflexivity|].
      split; [exact Hr|]. split; [exact HE1|]. split; [exact HR1|]. split; [exact Hrest|]. split; [exact Horest | exact HQ].
    + destruct (IH _ _ _ HJ' HE1 HR1 Hrest Horest Hr Hpast)
        as (pre & post & st2 & -> & Hp1 & Hp2 & HE2 & HR2 & Hf & Ho & HQ).
      exists (ev :: pre), post, st2. cbn [fa_run]. rewrite Hs.
      split; [reflexivity|]. split; [cbn [net_run]; rewrite Hs; exact Hp1|].
      split; [exact Hp2|]. split; [exact HE2|]. split; [exact HR2|]. split; [exact Hf|]. split; [exact Ho | exact HQ].
Qed.

(* an invariant of reliable runs, with both predicates *)
Lemma rel_inv_er (Dt Da : Z) (E : net_event -> Prop) (R : net -> Prop) (K : fair_aux -> net -> Prop) :
  (forall fa st ev st', E ev -> R st -> R st' -> K fa st -> fair_ev fa st ev -> once_ev fa ev -> net_step st ev = Ok st' ->
     K (fa_after Dt Da fa ev st') st') ->
  forall evs fa st st',
    K fa st -> Forall E evs -> run_all R st evs -> fair_run Dt Da fa st evs -> once_run Dt Da fa st evs ->
    net_run st evs = Ok st' -> K (fa_run Dt Da fa st evs) st'.
Proof.
  intros Hstep. induction evs as [|ev r IH]; intros fa st st' HK HE HR Hfair Honce Hrun.
  - cbn [net_run] in Hrun. inversion Hrun; subst. exact HK.
  - cbn [net_run] in Hrun. apply obind_ok in Hrun. destruct Hrun as (st1 & Hs & Hr).
    cbn [fair_run] in Hfair. destruct Hfair as (Hev & Hrest). rewrite Hs in Hrest.
    cbn [once_run] in Honce. destruct Honce as (Hoe & Horest). rewrite Hs in Horest.
    cbn [run_all] in HR. destruct HR as (HR0 & HR1). rewrite Hs in HR1.
    inversion HE as [|? ? HE0 HE1]; subst. cbn [fa_run]. rewrite Hs.
    apply (IH _ _ _ (Hstep _ _ _ _ HE0 HR0 (run_all_here _ _ _ HR1) HK Hev Hoe Hs) HE1 HR1 Hrest Horest Hr).
Qed.
