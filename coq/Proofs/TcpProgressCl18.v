(* C02 (liveness half): DELIVERY, QUIESCENCE AND THE ORDERLY CLOSE WITH THE SERVER FIRST.  The core theorem of
   Proofs/TcpProgressCl15.v (quiesce_close_from_reg) with the closing order exchanged:
       evsD ++ evsQ ++ NClose SB :: evs1 ++ NClose SA :: evs2
   B closes in the quiet state, A's application closes once A is in CLOSE-WAIT (it neither writes nor closes before),
   B's TIME-WAIT expires; both CLOSED.  The clock premises of the close are stated in B's clock. *)
From SV Require Import Lib.Base Gen.Consts.
From SV Require Import Model.Seq32 Model.Assembler Model.TcpBuf Model.TcpTypes Model.Tcp Model.TcpNet.
From SV Require Import Proofs.TcpSendBase Proofs.TcpLiveBase Proofs.TcpLiveProofs Proofs.TcpLiveMore
  Proofs.TcpLiveProgress.
From SV Require Import Proofs.TcpNetBase.
From SV Require Proofs.TcpNetInv.
From SV Require Import Proofs.TcpProgressBase Proofs.TcpProgressFrame Proofs.TcpProgressCtl Proofs.TcpProgressRecv
  Proofs.TcpProgressSend Proofs.TcpProgressNet Proofs.TcpProgressData Proofs.TcpProgressAck
  Proofs.TcpProgressAll Proofs.TcpProgressSafe Proofs.TcpProgressHs Proofs.TcpProgressHsD
  Proofs.TcpProgressHsNet Proofs.TcpProgressHsInit Proofs.TcpProgressHsLive Proofs.TcpProgressHsLive2
  Proofs.TcpProgressZwp Proofs.TcpProgressExample Proofs.TcpProgressWitness Proofs.TcpProgressSafeWitness Proofs.TcpProgressZwDup
  Proofs.TcpProgressZw1 Proofs.TcpProgressZw1b Proofs.TcpProgressZw2 Proofs.TcpProgressZw3 Proofs.TcpProgressZwWitness
  Proofs.TcpProgressZw4 Proofs.TcpProgressZw5 Proofs.TcpProgressZw6 Proofs.TcpProgressZw7
  Proofs.TcpProgressCl1 Proofs.TcpProgressCl2 Proofs.TcpProgressCl3 Proofs.TcpProgressCl4 Proofs.TcpProgressCl5
  Proofs.TcpProgressCl6 Proofs.TcpProgressCl7 Proofs.TcpProgressCl8 Proofs.TcpProgressCl9
  Proofs.TcpProgressCl10 Proofs.TcpProgressCl11 Proofs.TcpProgressCl12 Proofs.TcpProgressCl13
  Proofs.TcpProgressCl15 Proofs.TcpProgressCl17
  Proofs.TcpProgressZwWitness3 Proofs.TcpProgressCl14 Proofs.TcpProgressRtxWitness Proofs.TcpProgressCl16.

Module NV := TcpNetInv.
Notation sz st z := (net_sock st z).

(* B's close() in the quiet state is the start of the orderly close with the server first *)
Lemma Qd_close_b Dt Da Dack dk tA X Y fa st st' :
  QR Dack st -> Qd Dt Da dk tA X Y fa st -> fair_ev fa st (NClose SB) -> net_step st (NClose SB) = Ok st' ->
  let MA := rt_max_seq_sent (s_rtte (sz st SA)) in let MB := rt_max_seq_sent (s_rtte (sz st SB)) in
  close_start_b (mirror tA) Y X MB MA Da (- dk) (net_now st SB) (fa_after Dt Da fa (NClose SB) st') st' /\
  tuple_nz (mirror tA) /\ 0 <= Y < 4294967296 /\ 0 <= X < 4294967296 /\
  match MA with Some m => seq_gt m X = false | None => True end /\ mlim MA X.
Proof.
  intros HQ (((HB & _ & HD & HP) & _) & HcA & HcB & N1 & N2) Hfe H. cbv zeta.
  destruct (views Dack tA X Y st HQ HD HP) as (Hnz & HX & HY & QA & QB & M1 & M2 & M3).
  pose proof (qsock_gview _ _ _ _ _ QA HcA) as GA. pose proof (qsock_gview _ _ _ _ _ QB HcB) as GB.
  pose proof (base_swap Da dk _ _ HB) as HBb.
  pose proof (base_step SB Dt Da (- dk) _ _ _ _ HBb Hfe H) as HB'. pose proof HB as (_ & _ & Hsy & _).
  destruct (net_step_kind _ _ _ H) as [w ev0 e' Hse He -> | to i Hx _ _ | d Hx _ | w isn0 ts Hx _ | to i Hd];
    try discriminate; [|destruct Hd; discriminate].
  cbn [sock_event] in Hse. destruct Hse as (<- & ->).
  destruct (sock_step_pieces st SB _ e' He) as (s' & out & tags & Hs & E1 & E2 & E3 & E4 & E5).
  destruct (step_close_est _ _ _ _ _ _ _ _ _ _ _ _ GB Hs) as (Hw & G').
  cbn [side_other] in *.
  assert (HMA : match rt_max_seq_sent (s_rtte (sz st SA)) with Some m => seq_gt m X = false | None => True end).
  { pose proof (snx_no_gt (sz st SA)) as S0. rewrite (qs_una _ _ _ _ _ QA) in S0.
    apply S0; [exact (qs_snx _ _ _ _ _ QA) | exact (qs_nxt _ _ _ _ _ QA)]. }
  split; [|split; [exact (mirror_nz' _ Hnz)|]; auto 10].
  split; [exact HB'|].
  split; [exact (ntrk_keep Dt Da fa st _ _ SB Hsy Hfe H E4 N2)|].
  split; [apply (ntrk_keep Dt Da fa st _ _ SA Hsy Hfe H); [rewrite E5, Hw; apply app_nil_r | exact N1]|].
  split; [rewrite (net_step_now _ _ _ SB H); lia|].
  split; [rewrite mirror_mirror; apply view_other; [exact E3 | exact GA]|].
  split; [exact M2|]. left. rewrite E1, E2. exact G'.
Qed.

(* the core with the server closing first *)
Theorem quiesce_close_from_reg_b Dt Da Dack (n : nat) :
  forall fa st evsD evsQ evs1 evs2 stD stQ stC st_m st',
  0 <= Dt -> 0 <= Da -> 2 * Dt < tcp_RTTE_MIN_RTO * 1000 -> 0 <= Dack ->
  reach st -> reg SA Dack st -> opts_ok st -> dl_sync Da fa st -> dlb Dt fa st ->
  fair_run Dt Da fa st (evsD ++ evsQ ++ NClose SB :: evs1 ++ NClose SA :: evs2) ->
  once_run Dt Da fa st (evsD ++ evsQ ++ NClose SB :: evs1 ++ NClose SA :: evs2) ->
  Forall (app_ev SA) evsD -> net_run st evsD = Ok stD ->
  Forall qev evsQ -> net_run stD evsQ = Ok stQ ->
  (forall z, l_len (ep_written (net_get stQ z)) < 2 ^ 30) ->
  run_all qregime stD evsQ ->
  (l_len (ep_written (net_get stD SA)) - una_off (net_get stD SA)) +
  (l_len (ep_written (net_get stD SA)) - read_off (net_get stD SB)) <= Z.of_nat n ->
  net_now stD SA + Z.of_nat n * Wz Dt Da + 2 * Dt + Dack < net_now stQ SA ->
  net_step stQ (NClose SB) = Ok stC ->
  Forall (cl_ev SB false) evs1 -> net_run stC evs1 = Ok st_m -> net_now stQ SB + 2 * Dt < net_now st_m SB ->
  net_run st_m (NClose SA :: evs2) = Ok st' ->
  net_now st_m SB + 3 * Dt + tcp_CLOSE_DELAY < net_now st' SB ->
  (exists p1 p2 sta,
     evsQ = p1 ++ p2 /\ net_run stD p1 = Ok sta /\ net_run sta p2 = Ok stQ /\
     una_off (net_get sta SA) = l_len (ep_written (net_get stD SA)) /\
     read_off (net_get sta SB) = l_len (ep_written (net_get stD SA))) /\
  (exists pre2 post st_c,
     evs2 = pre2 ++ post /\ net_run st_m (NClose SA :: pre2) = Ok st_c /\ net_run st_c post = Ok st' /\
     both_closed st_c).
Proof.
  intros fa st evsD evsQ evs1 evs2 stD stQ stC st_m st' HDt HDa HDt2 HDack Hre HG Ho0 Hsy Hb Hfall Hoall HappD HrD HEQ HrQ Hsz HqQ Hn HlQ
         HsC HE1 Hr1 Hp1 Hr2 Hp2.
  set (rest := NClose SB :: evs1 ++ NClose SA :: evs2) in *.
  (* bookkeeping at stD and the rest of the run *)
  destruct (fair_run_app Dt Da evsD (evsQ ++ rest) fa st stD HrD Hfall) as (HfairD & HfD).
  destruct (once_run_app Dt Da evsD (evsQ ++ rest) fa st stD HrD Hoall) as (HonceD & HoD).
  set (faD := fa_run Dt Da fa st evsD) in *.
  pose proof (dl_sync_run Dt Da evsD _ st stD Hsy HfairD HrD) as HsyD.
  pose proof (dlb_run Dt Da evsD _ st stD HDt Hb HfairD HrD) as HbD.
  (* sizes *)
  assert (HsmQ : NV.small stQ).
  { split; [specialize (Hsz SA) | specialize (Hsz SB)]; cbn [net_get] in Hsz; change (2 ^ 30) with 1073741824 in Hsz; lia. }
  assert (HwsQ : wr_small SA stQ) by (unfold wr_small; exact (Hsz SA)).
  pose proof (net_run_mono _ _ _ HrQ) as HmQ.
  assert (HsmD : NV.small stD) by exact (NV.small_mono _ _ HmQ HsmQ).
  assert (HappS : Forall (script_ev SA) evsD).
  { apply Forall_forall. intros ev Hin. apply app_ev_script. rewrite Forall_forall in HappD. exact (HappD ev Hin). }
  pose proof (reg_run_all SA Dack evsD st stD Hre (reach_NI _ Hre) Ho0 HG HappS HrD HsmD) as HGall.
  pose proof (run_all_end _ _ _ _ HGall HrD) as HGD.
  assert (HreD : reach stD).
  { destruct Hre as (ca' & cb' & st0' & pre0 & R1 & R2 & R3 & R4).
    exists ca', cb', st0', (pre0 ++ evsD). repeat (split; [assumption|]). exact (net_run_app pre0 evsD st0' st stD R4 HrD). }
  pose proof (reach_NI _ HreD) as HND. pose proof (opts_run _ _ _ Ho0 HrD) as HoD'.
  (* the rest of the run from stD *)
  destruct (fair_run_app Dt Da evsQ rest faD stD stQ HrQ HfD) as (HfQ & HfR).
  destruct (once_run_app Dt Da evsQ rest faD stD stQ HrQ HoD) as (HoQ & HoR).
  (* everything written is acknowledged and read *)
  assert (HscQ : Forall (script_ev SA) evsQ).
  { apply Forall_forall. intros ev Hin. apply qev_script. rewrite Forall_forall in HEQ. exact (HEQ ev Hin). }
  assert (HzxQ : run_all (zextra SA) stD evsQ) by (apply (run_all_impl qregime); [intros s (X0 & _); exact X0 | exact HqQ]).
  pose proof (zsafe2_run SA Dack evsQ stD stQ HreD HND HoD' HGD HscQ HrQ HsmQ HwsQ HzxQ) as HZ2.
  assert (HnsQ : Forall nosend evsQ).
  { apply Forall_forall. intros ev Hin. apply qev_nosend. rewrite Forall_forall in HEQ. exact (HEQ ev Hin). }
  destruct (all_written_bytes_eventually_acked_zw SA Dt Da Dack n evsQ faD stD stQ _ HDt HDa HND HoD' HsyD HbD HZ2 HfQ HoQ HrQ
              HnsQ eq_refl Hn ltac:(pose proof max_rto_us_pos; lia))
    as (p1 & p2 & sta & EQ & Ha1 & Ha2 & Hua & Hra & Hta).
  split; [exists p1, p2, sta; auto|].
  cbn [side_other] in *.
  (* the state in which everything is acknowledged and read *)
  rewrite EQ in HEQ, HscQ, HnsQ, HqQ, HfQ, HoQ, HZ2.
  apply Forall_app in HEQ. destruct HEQ as (HEp1 & HEp2).
  apply Forall_app in HscQ. destruct HscQ as (Hscp1 & _).
  apply Forall_app in HnsQ. destruct HnsQ as (Hnsp1 & _).
  destruct (fair_run_app Dt Da p1 p2 faD stD sta Ha1 HfQ) as (Hfp1 & Hfp2).
  destruct (once_run_app Dt Da p1 p2 faD stD sta Ha1 HoQ) as (_ & Hop2).
  set (faa := fa_run Dt Da faD stD p1) in *.
  pose proof (net_run_mono _ _ _ Ha2) as Hma.
  assert (Hsma : NV.small sta) by exact (NV.small_mono _ _ Hma HsmQ).
  pose proof (reg_run_all SA Dack p1 stD sta HreD HND HoD' HGD Hscp1 Ha1 Hsma) as HGall2.
  pose proof (run_all_end _ _ _ _ HGall2 Ha1) as HGa.
  assert (Hrea : reach sta).
  { destruct HreD as (ca' & cb' & st0' & preD & R1 & R2 & R3 & R4).
    exists ca', cb', st0', (preD ++ p1). repeat (split; [assumption|]). exact (net_run_app preD p1 st0' stD sta R4 Ha1). }
  pose proof (reach_NI _ Hrea) as HNa. pose proof (opts_run _ _ _ HoD' Ha1) as Hoa.
  pose proof (run_all_app _ p1 p2 stD sta Ha1 HZ2) as HZ2a. pose proof (run_all_here _ _ _ HZ2a) as (HZa & _).
  pose proof (written_run_nosend _ _ _ SA Ha1 Hnsp1) as Hwa.
  assert (HDa' : drained sta).
  { destruct (zsafe_bounds SA sta HNa HZa) as (B1 & B2 & B3). cbn [side_other] in *.
    unfold drained, una_off, net_sock in *. rewrite Hwa in *. split; lia. }
  pose proof (run_all_app _ p1 p2 stD sta Ha1 HqQ) as Hqa.
  pose proof (QR_run Dt Da Dack p2 faa sta stQ Hrea HNa Hoa HGa HDa' HEp2 Hfp2 Ha2 HsmQ HwsQ Hqa) as HQRa.
  (* the parameters, and the quiet state *)
  destruct (rg_tup SA Dack sta HGa SA) as (tA & TA1 & _).
  set (X := s_local_seq_no (sz sta SA)). set (Y := s_local_seq_no (sz sta SB)).
  set (dk := net_now sta SB - net_now sta SA).
  assert (HK0 : K0 Dt Da dk tA X Y faa sta).
  { split; [split; [exact HNa|]; split; [exact Hoa|]; split; [exact (dl_sync_run Dt Da p1 _ stD sta HsyD Hfp1 Ha1) | reflexivity]|].
    split; [exact (dlb_run Dt Da p1 _ stD sta HDt HbD Hfp1 Ha1)|]. split; [exact HDa'|]. split; [exact TA1 | split; reflexivity]. }
  destruct (connection_becomes_quiet Dt Da Dack dk tA X Y HDt HDack p2 faa sta stQ HK0
              ltac:(repeat split; assumption) ltac:(lia))
    as (q1 & q2 & stq & Eq & Hq1 & (HEq2 & HRq2 & Hfq2 & Hoq2 & Hrq2) & HQd & _).
  (* it stays quiet up to A's close() *)
  pose proof (Qd_run Dt Da Dack dk tA X Y HDt q2 _ stq stQ HQd HEq2 HRq2 Hfq2 Hoq2 Hrq2) as HQdQ.
  rewrite <- (fa_run_app Dt Da q1 q2 faa sta stq Hq1), <- Eq in HQdQ.
  pose proof (run_all_end _ _ _ _ HQRa Ha2) as HQRQ.
  (* B closes *)
  assert (HfaQ : fa_run Dt Da faa sta p2 = fa_run Dt Da faD stD (p1 ++ p2)) by (symmetry; exact (fa_run_app Dt Da p1 p2 faD stD sta Ha1)).
  rewrite HfaQ, <- EQ in HQdQ.
  unfold rest in HfR, HoR. cbn [fair_run once_run] in HfR, HoR. rewrite HsC in HfR, HoR.
  destruct HfR as (HevC & HfR). destruct HoR as (_ & HoR).
  destruct (Qd_close_b Dt Da Dack dk tA X Y _ stQ stC HQRQ HQdQ HevC HsC) as (Hcs & Hnz & HY' & HX' & HMA & HMA2).
  destruct (orderly_close_completes_b (mirror tA) Y X _ _ Dt Da (- dk) HDt HDt2 Hnz HY' HX' HMA HMA2 (net_now stQ SB) evs1 evs2 _ stC st_m st'
              Hcs HE1 HfR HoR Hr1 Hp1 Hr2 Hp2) as (pre2 & post & st_c & E2 & Hc1 & Hc2 & (Hb1 & Hb2)).
  exists pre2, post, st_c. split; [exact E2|]. split; [exact Hc1|]. split; [exact Hc2|]. split; assumption.
Qed.

(* AFTER A FAULT PREFIX, THE SERVER CLOSES FIRST *)
Theorem quiesce_close_server_first_after_fault_prefix Dt Da Dack ca cb st0 (n : nat) :
  forall pre st evsD evsQ evs1 evs2 stD stQ stC st_m st',
  start_ok Dack ca cb st0 -> 2 * Dt < tcp_RTTE_MIN_RTO * 1000 -> 0 <= Dack ->
  (* the fault prefix *)
  net_run st0 pre = Ok st -> Forall (script_ev SA) pre ->
  (forall z, s_state (net_sock st z) = Established) ->
  (* from there on delivery is reliable *)
  reliable_schedule Dt Da st (evsD ++ evsQ ++ NClose SB :: evs1 ++ NClose SA :: evs2) ->
  Forall (app_ev SA) evsD -> net_run st evsD = Ok stD ->
  Forall qev evsQ -> net_run stD evsQ = Ok stQ ->
  (forall z, l_len (ep_written (net_get stQ z)) < 2 ^ 30) ->
  run_all qregime stD evsQ ->
  (l_len (ep_written (net_get stD SA)) - una_off (net_get stD SA)) +
  (l_len (ep_written (net_get stD SA)) - read_off (net_get stD SB)) <= Z.of_nat n ->
  net_now stD SA + Z.of_nat n * Wz Dt Da + 2 * Dt + Dack < net_now stQ SA ->
  (* B closes; A closes in CLOSE-WAIT *)
  net_step stQ (NClose SB) = Ok stC ->
  Forall (cl_ev SB false) evs1 -> net_run stC evs1 = Ok st_m -> net_now stQ SB + 2 * Dt < net_now st_m SB ->
  net_run st_m (NClose SA :: evs2) = Ok st' ->
  net_now st_m SB + 3 * Dt + tcp_CLOSE_DELAY < net_now st' SB ->
  (exists p1 p2 sta,
     evsQ = p1 ++ p2 /\ net_run stD p1 = Ok sta /\ net_run sta p2 = Ok stQ /\
     una_off (net_get sta SA) = l_len (ep_written (net_get stD SA)) /\
     read_off (net_get sta SB) = l_len (ep_written (net_get stD SA))) /\
  (exists pre2 post st_c,
     evs2 = pre2 ++ post /\ net_run st_m (NClose SA :: pre2) = Ok st_c /\ net_run st_c post = Ok st' /\
     both_closed st_c).
Proof.
  intros pre st evsD evsQ evs1 evs2 stD stQ stC st_m st' Hstart HDt2 HDack Hpre Hscp Hest Hrel HappD HrD HEQ HrQ Hsz HqQ Hn HlQ
         HsC HE1 Hr1 Hp1 Hr2 Hp2.
  pose proof Hrel as ((HDt & HDa & Ho0 & Hfall) & Hoall).
  pose proof Hstart as (Hi & Hst0 & Ga & Gb & Pa & Pb & Haddr & Hdel).
  assert (HsmQ : NV.small stQ).
  { split; [specialize (Hsz SA) | specialize (Hsz SB)]; cbn [net_get] in Hsz; change (2 ^ 30) with 1073741824 in Hsz; lia. }
  pose proof (net_run_mono _ _ _ HrQ) as HmQ. pose proof (net_run_mono _ _ _ HrD) as HmD.
  assert (Hsm : NV.small st) by exact (NV.small_mono _ _ HmD (NV.small_mono _ _ HmQ HsmQ)).
  destruct (hs_init ca cb st0 (cx_isn (ep_cx (n_a st0))) Dack Hi Hst0 Pa Pb Haddr Hdel) as (HP0 & Ho00).
  destruct (hs_run Dack ca cb st0 Hstart pre [] st0 st eq_refl (or_introl HP0) Ho00 Hscp Hpre Hsm) as (Hinv & _).
  assert (HG : reg SA Dack st).
  { destruct Hinv as [HP | HG]; [|exact HG]. exfalso.
    destruct (ph_phase _ _ _ HP) as [(_ & [B | B]) | (_ & B)]; rewrite (Hest SB) in B; discriminate. }
  assert (Hre : reach st) by (exists ca, cb, st0, pre; auto).
  exact (quiesce_close_from_reg_b Dt Da Dack n (fa_init Dt Da st) st evsD evsQ evs1 evs2 stD stQ stC st_m st' HDt HDa HDt2 HDack
           Hre HG Ho0 (fa_init_sync Dt Da st) (dlb_init Dt Da st HDt) Hfall Hoall HappD HrD HEQ HrQ Hsz HqQ Hn HlQ HsC HE1 Hr1 Hp1 Hr2 Hp2).
Qed.

(* ---------------------------------------------------------------------------------------- *)
(* the check and its packaging                                                               *)
(* ---------------------------------------------------------------------------------------- *)
Definition cl_evb_b (ev : net_event) : bool :=
  match ev with NSend SA _ | NClose SA => false | _ => true end.

Lemma cl_evb_b_sound evs : forallb cl_evb_b evs = true -> Forall (cl_ev SB false) evs.
Proof.
  induction evs as [|ev r IH]; cbn [forallb]; intros H; [constructor|].
  apply andb_true_iff in H. destruct H as (H1 & H2). constructor; [|exact (IH H2)].
  destruct ev as [| | | | |  | z d | | z]; cbn [cl_ev cl_evb_b side_other] in *; try exact I; destruct z; try discriminate; intros X; discriminate.
Qed.

Definition qcb_check (ca cb : ep_config) (pre evsD evsQ evs1 evs2 : list net_event) (Dt Da Dack : Z) (n : nat) : bool :=
  match net_init ca cb with
  | Ok st0 =>
      net_started st0 && forallb script_evb pre &&
      match net_run st0 pre with
      | Ok st =>
          let all := evsD ++ evsQ ++ NClose SB :: evs1 ++ NClose SA :: evs2 in
          tcp_state_eqb (s_state (net_sock st SA)) Established && tcp_state_eqb (s_state (net_sock st SB)) Established &&
          opts_okb st &&
          fair_runb Dt Da (fa_init Dt Da st) st all && once_runb Dt Da (fa_init Dt Da st) st all &&
          (0 <=? Dt) && (0 <=? Da) && (0 <=? Dack) && (2 * Dt <? tcp_RTTE_MIN_RTO * 1000) &&
          forallb (app_evb SA) evsD && forallb qevb evsQ && forallb cl_evb_b evs1 &&
          match net_run st evsD with
          | Ok stD =>
              run_qregimeb stD evsQ &&
              ((l_len (ep_written (net_get stD SA)) - una_off (net_get stD SA)) +
               (l_len (ep_written (net_get stD SA)) - read_off (net_get stD SB)) <=? Z.of_nat n) &&
              match net_run stD evsQ with
              | Ok stQ =>
                  (l_len (ep_written (net_get stQ SA)) <? 2 ^ 30) && (l_len (ep_written (net_get stQ SB)) <? 2 ^ 30) &&
                  (net_now stD SA + Z.of_nat n * Wz Dt Da + 2 * Dt + Dack <? net_now stQ SA) &&
                  match net_step stQ (NClose SB) with
                  | Ok stC =>
                      match net_run stC evs1 with
                      | Ok st_m =>
                          (net_now stQ SB + 2 * Dt <? net_now st_m SB) &&
                          match net_run st_m (NClose SA :: evs2) with
                          | Ok st' => net_now st_m SB + 3 * Dt + tcp_CLOSE_DELAY <? net_now st' SB
                          | _ => false
                          end
                      | _ => false
                      end
                  | _ => false
                  end
              | _ => false
              end
          | _ => false
          end
      | _ => false
      end
  | _ => false
  end.

Lemma qcb_package ca cb pre evsD evsQ evs1 evs2 Dt Da Dack n :
  cfg_good ca -> cfg_good cb -> cfg_plain ca -> cfg_plain cb -> c_addr ca <> 0 ->
  match c_ack_delay cb with Some d => 0 <= d <= Dack | None => True end ->
  qcb_check ca cb pre evsD evsQ evs1 evs2 Dt Da Dack n = true ->
  exists st0 st stD stQ st_m st',
    start_ok Dack ca cb st0 /\ net_run st0 pre = Ok st /\
    (forall z, s_state (net_sock st z) = Established) /\
    reliable_schedule Dt Da st (evsD ++ evsQ ++ NClose SB :: evs1 ++ NClose SA :: evs2) /\
    net_run st evsD = Ok stD /\
    net_run stD evsQ = Ok stQ /\ run_all qregime stD evsQ /\
    net_run stQ (NClose SB :: evs1) = Ok st_m /\ net_run st_m (NClose SA :: evs2) = Ok st' /\
    (exists p1 p2 sta,
       evsQ = p1 ++ p2 /\ net_run stD p1 = Ok sta /\ net_run sta p2 = Ok stQ /\
       una_off (net_get sta SA) = l_len (ep_written (net_get stD SA)) /\
       read_off (net_get sta SB) = l_len (ep_written (net_get stD SA))) /\
    (exists pre2 post st_c,
       evs2 = pre2 ++ post /\ net_run st_m (NClose SA :: pre2) = Ok st_c /\ net_run st_c post = Ok st' /\
       both_closed st_c).
Proof.
  intros Ga Gb Pa Pb Haddr Hdel H. unfold qcb_check in H.
  destruct (net_init ca cb) as [st0|e|] eqn:Ei; try discriminate.
  apply andb_true_iff in H. destruct H as (H & Hrest).
  apply andb_true_iff in H. destruct H as (Hst & Hsp).
  destruct (net_run st0 pre) as [st|e|] eqn:Ep; try discriminate. cbv zeta in Hrest.
  apply andb_true_iff in Hrest. destruct Hrest as (H & Hrest).
  apply andb_true_iff in H. destruct H as (H & Hcl).
  apply andb_true_iff in H. destruct H as (H & Hq).
  apply andb_true_iff in H. destruct H as (H & Hap).
  apply andb_true_iff in H. destruct H as (H & Hd4).
  apply andb_true_iff in H. destruct H as (H & Hd3).
  apply andb_true_iff in H. destruct H as (H & Hd2).
  apply andb_true_iff in H. destruct H as (H & Hd1).
  apply andb_true_iff in H. destruct H as (H & Hon).
  apply andb_true_iff in H. destruct H as (H & Hf).
  apply andb_true_iff in H. destruct H as (H & Ho).
  apply andb_true_iff in H. destruct H as (Hsa & Hsb).
  destruct (net_run st evsD) as [stD|e|] eqn:ED; try discriminate.
  apply andb_true_iff in Hrest. destruct Hrest as (HD & Hrest).
  apply andb_true_iff in HD. destruct HD as (HqQ & HnD).
  destruct (net_run stD evsQ) as [stQ|e|] eqn:EQ; try discriminate.
  apply andb_true_iff in Hrest. destruct Hrest as (HQ & Hrest).
  apply andb_true_iff in HQ. destruct HQ as (HQ & HclkQ). apply andb_true_iff in HQ. destruct HQ as (HszA & HszB).
  destruct (net_step stQ (NClose SB)) as [stC|e|] eqn:EC; try discriminate.
  destruct (net_run stC evs1) as [st_m|e|] eqn:E1; try discriminate.
  apply andb_true_iff in Hrest. destruct Hrest as (Hc1 & Hrest).
  destruct (net_run st_m (NClose SA :: evs2)) as [st'|e|] eqn:E2; try discriminate.
  apply Z.leb_le in Hd1, Hd2, Hd3, HnD. apply Z.ltb_lt in Hd4, HszA, HszB, HclkQ, Hc1, Hrest.
  apply tcp_state_eqb_eq in Hsa, Hsb.
  assert (Hstart : start_ok Dack ca cb st0) by (unfold start_ok; auto 10).
  assert (Hrel : reliable_schedule Dt Da st (evsD ++ evsQ ++ NClose SB :: evs1 ++ NClose SA :: evs2)).
  { split; [|exact (proj1 (once_runb_iff _ _ _ _ _) Hon)].
    split; [lia|]. split; [lia|]. split; [apply opts_okb_sound; assumption | apply fair_runb_sound; assumption]. }
  pose proof (run_qregimeb_sound evsQ stD HqQ) as HqQ'.
  assert (Hsz : forall z, l_len (ep_written (net_get stQ z)) < 2 ^ 30) by (intros z; destruct z; cbn [net_get] in *; lia).
  assert (Hest : forall z, s_state (net_sock st z) = Established) by (intros z; destruct z; assumption).
  destruct (quiesce_close_server_first_after_fault_prefix Dt Da Dack ca cb st0 n pre st evsD evsQ evs1 evs2 stD stQ stC st_m st'
              Hstart Hd4 Hd3 Ep (script_evb_sound _ Hsp) Hest Hrel (app_evb_sound SA _ Hap) ED (qevb_sound _ Hq) EQ Hsz HqQ'
              HnD HclkQ EC (cl_evb_b_sound _ Hcl) E1 Hc1 E2 Hrest) as (HA & HC).
  exists st0, st, stD, stQ, st_m, st'. split; [exact Hstart|]. split; [exact Ep|]. split; [exact Hest|]. split; [exact Hrel|].
  split; [exact ED|]. split; [exact EQ|]. split; [exact HqQ'|].
  split; [cbn [net_run]; rewrite EC; cbn [obind]; exact E1|]. split; [exact E2|]. split; [exact HA | exact HC].
Qed.

(* the fault prefix and the quiet part of Proofs/TcpProgressCl16.v (first data segment lost, a frame delivered
   twice; RTO 1 s, the window closes in the middle, all read, quiet); then B closes first, A closes in CLOSE-WAIT,
   B's TIME-WAIT expires *)
Definition qcb_evs1 : list net_event := [NPoll SB true; NDeliver SA 4; NPoll SA true; NDeliver SB 2; NTick 20000].
Definition qcb_evs2 : list net_event :=
  [NPoll SA true; NDeliver SB 3; NPoll SB true; NDeliver SA 5; NTick 10000000; NPoll SB true; NTick 100000].

Lemma qcb_check_ok : qcb_check zcfg_a zcfg_b qcf_pre [] qcf_evsQ qcb_evs1 qcb_evs2 5000 5000 10000 24 = true.
Proof. vm_compute. reflexivity. Qed.

Theorem quiesce_close_server_first_applies :
  exists st0 st stD stQ st_m st',
    start_ok 10000 zcfg_a zcfg_b st0 /\ net_run st0 qcf_pre = Ok st /\
    (forall z, s_state (net_sock st z) = Established) /\
    reliable_schedule 5000 5000 st ([] ++ qcf_evsQ ++ NClose SB :: qcb_evs1 ++ NClose SA :: qcb_evs2) /\
    net_run st [] = Ok stD /\
    net_run stD qcf_evsQ = Ok stQ /\ run_all qregime stD qcf_evsQ /\
    net_run stQ (NClose SB :: qcb_evs1) = Ok st_m /\ net_run st_m (NClose SA :: qcb_evs2) = Ok st' /\
    (exists p1 p2 sta,
       qcf_evsQ = p1 ++ p2 /\ net_run stD p1 = Ok sta /\ net_run sta p2 = Ok stQ /\
       una_off (net_get sta SA) = l_len (ep_written (net_get stD SA)) /\
       read_off (net_get sta SB) = l_len (ep_written (net_get stD SA))) /\
    (exists pre2 post st_c,
       qcb_evs2 = pre2 ++ post /\ net_run st_m (NClose SA :: pre2) = Ok st_c /\ net_run st_c post = Ok st' /\
       both_closed st_c).
Proof.
  destruct zcfg_good as (Ga & Gb).
  apply (qcb_package zcfg_a zcfg_b qcf_pre [] qcf_evsQ qcb_evs1 qcb_evs2 5000 5000 10000 24 Ga Gb); try exact qcb_check_ok.
  - split; reflexivity.
  - split; reflexivity.
  - cbn. lia.
  - cbn. exact I.
Qed.
