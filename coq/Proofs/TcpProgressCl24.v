(* C02 (liveness half): one more fact of qstatic derived - A's delayed-ACK timer is idle in every state of every run of
   the one-way workload from net_init (Proofs/TcpProgressAdt.v, AdtNet.v) - and the compositions with qregime3 =
   zx_zwp and, in the drained states, qstatic3: for both sockets no fast retransmit pending, the timer idle, a delayed-ACK
   timer only while an ACK is owed, the last ACK sent is RCV.NXT when none is owed. *)
From SV Require Import Lib.Base Gen.Consts.
From SV Require Import Model.Seq32 Model.Assembler Model.TcpBuf Model.TcpTypes Model.Tcp Model.TcpNet.
From SV Require Import Proofs.TcpSendBase Proofs.TcpLiveBase Proofs.TcpLiveProofs Proofs.TcpLiveMore
  Proofs.TcpLiveProgress.
From SV Require Import Proofs.TcpNetBase.
From SV Require Proofs.TcpNetInv.
From SV Require Import Proofs.TcpProgressBase Proofs.TcpProgressFrame Proofs.TcpProgressCtl Proofs.TcpProgressRecv
  Proofs.TcpProgressSend Proofs.TcpProgressNet Proofs.TcpProgressData Proofs.TcpProgressAck
  Proofs.TcpProgressAll Proofs.TcpProgressSafe Proofs.TcpProgressHs Proofs.TcpProgressHsD
  Proofs.TcpProgressHsNet Proofs.TcpProgressHsInit Proofs.TcpProgressHsLive Proofs.TcpProgressHsLive2
  Proofs.TcpProgressZwp Proofs.TcpProgressExample Proofs.TcpProgressWitness Proofs.TcpProgressSafeWitness Proofs.TcpProgressZwDup
  Proofs.TcpProgressZw1 Proofs.TcpProgressZw1b Proofs.TcpProgressZw2 Proofs.TcpProgressZw3 Proofs.TcpProgressZwWitness
  Proofs.TcpProgressZw4 Proofs.TcpProgressZw5 Proofs.TcpProgressZw6 Proofs.TcpProgressZw7
  Proofs.TcpProgressCl1 Proofs.TcpProgressCl2 Proofs.TcpProgressCl3 Proofs.TcpProgressCl4 Proofs.TcpProgressCl5
  Proofs.TcpProgressCl6 Proofs.TcpProgressCl7 Proofs.TcpProgressCl8 Proofs.TcpProgressCl9
  Proofs.TcpProgressCl10 Proofs.TcpProgressCl11 Proofs.TcpProgressCl12 Proofs.TcpProgressCl13
  Proofs.TcpProgressHsRtx Proofs.TcpProgressHsAll Proofs.TcpProgressHsSrv1 Proofs.TcpProgressHsSrv2
  Proofs.TcpProgressCl15 Proofs.TcpProgressCap Proofs.TcpProgressCapNet
  Proofs.TcpProgressCl19 Proofs.TcpProgressSynWin Proofs.TcpProgressSynWinNet Proofs.TcpProgressSr Proofs.TcpProgressSrNet Proofs.TcpProgressCl21 Proofs.TcpProgressCl22
  Proofs.TcpProgressAdt Proofs.TcpProgressAdtNet.

Module NV := TcpNetInv.
Notation sz st z := (net_sock st z).

(* qstatic'' without "A's delayed-ACK timer is idle": A receives no payload in the one-way workload *)
Definition qstatic3 (st : net) : Prop :=
  forall z, s_pending_fast_retransmit (sz st z) = false /\
            s_timer (sz st z) = TIdle None /\
            (s_ack_delay_timer (sz st z) = ADIdle \/ tcp_ack_to_transmit (sz st z) = true) /\
            (tcp_ack_to_transmit (sz st z) = false ->
             s_remote_last_ack (sz st z) = Some (tcp_window_start (sz st z))).

Definition qregime3 (st : net) : Prop := zx_zwp st /\ (drained st -> qstatic3 st).

Lemma qregime_weaken3 st : qregime'' st -> qregime3 st.
Proof. intros (Hz & Hq). split; [exact Hz|]. intros HD. exact (proj1 (Hq HD)). Qed.

Lemma qregime_strengthen3 st : aidle st /\ qregime3 st -> qregime'' st.
Proof. intros (Ha & Hz & Hq). split; [exact Hz|]. intros HD. split; [exact (Hq HD) | exact Ha]. Qed.

Lemma run_all_ai st evs : run_all aidle st evs -> run_all qregime3 st evs -> run_all qregime'' st evs.
Proof.
  intros Ha Hq. apply (run_all_impl (fun s => aidle s /\ qregime3 s)); [exact qregime_strengthen3|].
  exact (run_all_and _ _ evs st Ha Hq).
Qed.

Lemma qev_script_all evs : Forall qev evs -> Forall (script_ev SA) evs.
Proof. intros H. apply (Forall_impl' qev); [exact qev_script | exact H]. Qed.
Lemma app_script_all evs : Forall (app_ev SA) evs -> Forall (script_ev SA) evs.
Proof. intros H. apply (Forall_impl' (app_ev SA)); [exact app_ev_script | exact H]. Qed.

Theorem transfer_quiesce_close_from_net_init_min2 Dt Da Dack ca cb st0 (n : nat) :
  forall evsD evsQ evs1 evs2 stD stQ stC st_m st',
  start_ok Dack ca cb st0 -> cfg_rx ca cb -> 2 * Dt < tcp_RTTE_MIN_RTO * 1000 -> 0 <= Dack ->
  reliable_schedule Dt Da st0 (evsD ++ evsQ ++ NClose SA :: evs1 ++ NClose SB :: evs2) ->
  Forall (app_ev SA) evsD -> net_run st0 evsD = Ok stD ->
  net_now st0 SA + 3 * Dt < net_now stD SA ->
  Forall qev evsQ -> net_run stD evsQ = Ok stQ ->
  (forall z, l_len (ep_written (net_get stQ z)) < 2 ^ 30) ->
  run_all qregime3 stD evsQ ->
  (l_len (ep_written (net_get stD SA)) - una_off (net_get stD SA)) +
  (l_len (ep_written (net_get stD SA)) - read_off (net_get stD SB)) <= Z.of_nat n ->
  net_now stD SA + Z.of_nat n * Wz Dt Da + 2 * Dt + Dack < net_now stQ SA ->
  net_step stQ (NClose SA) = Ok stC ->
  Forall (cl_ev SA false) evs1 -> net_run stC evs1 = Ok st_m -> net_now stQ SA + 2 * Dt < net_now st_m SA ->
  net_run st_m (NClose SB :: evs2) = Ok st' ->
  net_now st_m SA + 3 * Dt + tcp_CLOSE_DELAY < net_now st' SA ->
  (exists p1 p2 sta,
     evsQ = p1 ++ p2 /\ net_run stD p1 = Ok sta /\ net_run sta p2 = Ok stQ /\
     una_off (net_get sta SA) = l_len (ep_written (net_get stD SA)) /\
     read_off (net_get sta SB) = l_len (ep_written (net_get stD SA))) /\
  (exists pre post st_c,
     evs2 = pre ++ post /\ net_run st_m (NClose SB :: pre) = Ok st_c /\ net_run st_c post = Ok st' /\
     both_closed st_c).
Proof.
  intros evsD evsQ evs1 evs2 stD stQ stC st_m st' Hstart Hcfg HDt2 HDack Hrel HappD HrD HlD HEQ HrQ Hsz HqQ.
  assert (HsmQ : NV.small stQ).
  { split; [specialize (Hsz SA) | specialize (Hsz SB)]; cbn [net_get] in Hsz; change (2 ^ 30) with 1073741824 in Hsz; lia. }
  pose proof (aidle_from_net_init Dack ca cb st0 Hstart evsD stD evsQ stQ HrD (app_script_all _ HappD) (qev_script_all _ HEQ) HrQ HsmQ) as Hai.
  exact (transfer_quiesce_close_from_net_init_min Dt Da Dack ca cb st0 n evsD evsQ evs1 evs2 stD stQ stC st_m st' Hstart Hcfg HDt2 HDack
           Hrel HappD HrD HlD HEQ HrQ Hsz (run_all_ai _ _ Hai HqQ)).
Qed.

Theorem handshake_quiesce_close_after_fault_prefix_min2 Dt Da Dack ca cb st0 (n : nat) :
  forall pre st evsH evsQ evs1 evs2 stD stQ stC st_m st',
  start_ok Dack ca cb st0 -> cfg_rx ca cb -> 2 * Dt < tcp_RTTE_MIN_RTO * 1000 -> 0 <= Dack ->
  (* the fault prefix: the SYN or the SYN|ACK lost, duplicated, late - A is still in SYN-SENT *)
  net_run st0 pre = Ok st -> Forall (script_ev SA) pre ->
  s_state (net_sock st SA) = SynSent ->
  reliable_schedule Dt Da st (evsH ++ evsQ ++ NClose SA :: evs1 ++ NClose SB :: evs2) ->
  (* the handshake completes; A writes, B reads *)
  Forall (app_ev SA) evsH -> net_run st evsH = Ok stD ->
  net_now st SA + max_rto_us + 3 * Dt < net_now stD SA ->
  (* the applications neither write nor close *)
  Forall qev evsQ -> net_run stD evsQ = Ok stQ ->
  (forall z, l_len (ep_written (net_get stQ z)) < 2 ^ 30) ->
  run_all qregime3 stD evsQ ->
  (l_len (ep_written (net_get stD SA)) - una_off (net_get stD SA)) +
  (l_len (ep_written (net_get stD SA)) - read_off (net_get stD SB)) <= Z.of_nat n ->
  net_now stD SA + Z.of_nat n * Wz Dt Da + 2 * Dt + Dack < net_now stQ SA ->
  (* A closes; B closes in CLOSE-WAIT *)
  net_step stQ (NClose SA) = Ok stC ->
  Forall (cl_ev SA false) evs1 -> net_run stC evs1 = Ok st_m -> net_now stQ SA + 2 * Dt < net_now st_m SA ->
  net_run st_m (NClose SB :: evs2) = Ok st' ->
  net_now st_m SA + 3 * Dt + tcp_CLOSE_DELAY < net_now st' SA ->
  (exists h1 h2 sth,
     evsH = h1 ++ h2 /\ net_run st h1 = Ok sth /\ net_run sth h2 = Ok stD /\
     (forall z, s_state (net_sock sth z) = Established) /\
     net_now sth SA <= net_now st SA + max_rto_us + 3 * Dt) /\
  (exists p1 p2 sta,
     evsQ = p1 ++ p2 /\ net_run stD p1 = Ok sta /\ net_run sta p2 = Ok stQ /\
     una_off (net_get sta SA) = l_len (ep_written (net_get stD SA)) /\
     read_off (net_get sta SB) = l_len (ep_written (net_get stD SA))) /\
  (exists pre2 post st_c,
     evs2 = pre2 ++ post /\ net_run st_m (NClose SB :: pre2) = Ok st_c /\ net_run st_c post = Ok st' /\
     both_closed st_c).
Proof.
  intros pre st evsH evsQ evs1 evs2 stD stQ stC st_m st' Hstart Hcfg HDt2 HDack Hpre Hscp Hsa Hrel HappH HrH HlH HEQ HrQ Hsz HqQ.
  assert (HsmQ : NV.small stQ).
  { split; [specialize (Hsz SA) | specialize (Hsz SB)]; cbn [net_get] in Hsz; change (2 ^ 30) with 1073741824 in Hsz; lia. }
  assert (Hsc : Forall (script_ev SA) (pre ++ evsH)) by (apply Forall_app; split; [exact Hscp | exact (app_script_all _ HappH)]).
  pose proof (aidle_from_net_init Dack ca cb st0 Hstart (pre ++ evsH) stD evsQ stQ (net_run_app pre evsH st0 st stD Hpre HrH) Hsc
                (qev_script_all _ HEQ) HrQ HsmQ) as Hai.
  exact (handshake_quiesce_close_after_fault_prefix_min Dt Da Dack ca cb st0 n pre st evsH evsQ evs1 evs2 stD stQ stC st_m st' Hstart Hcfg
           HDt2 HDack Hpre Hscp Hsa Hrel HappH HrH HlH HEQ HrQ Hsz (run_all_ai _ _ Hai HqQ)).
Qed.

Theorem server_quiesce_close_after_fault_prefix_min2 Dt Da Dack ca cb st0 (n : nat) :
  forall pre st evsH evsQ evs1 evs2 stD stQ stC st_m st',
  start_ok Dack ca cb st0 -> cfg_rx ca cb -> 2 * Dt < tcp_RTTE_MIN_RTO * 1000 -> 0 <= Dack ->
  (* the fault prefix: everything A transmitted since its SYN is lost *)
  net_run st0 pre = Ok st -> Forall (script_ev SA) pre ->
  s_state (net_sock st SA) = Established -> s_state (net_sock st SB) = SynReceived ->
  fresh (cx_isn (ep_cx (n_a st0))) st ->
  reliable_schedule Dt Da st (evsH ++ evsQ ++ NClose SA :: evs1 ++ NClose SB :: evs2) ->
  (* the handshake completes; A writes, B reads *)
  Forall (app_ev SA) evsH -> net_run st evsH = Ok stD ->
  Z.max (net_now st SA) (cA st) + max_rto_us + 2 * Dt < net_now stD SA ->
  (* the applications neither write nor close *)
  Forall qev evsQ -> net_run stD evsQ = Ok stQ ->
  (forall z, l_len (ep_written (net_get stQ z)) < 2 ^ 30) ->
  run_all qregime3 stD evsQ ->
  (l_len (ep_written (net_get stD SA)) - una_off (net_get stD SA)) +
  (l_len (ep_written (net_get stD SA)) - read_off (net_get stD SB)) <= Z.of_nat n ->
  net_now stD SA + Z.of_nat n * Wz Dt Da + 2 * Dt + Dack < net_now stQ SA ->
  (* A closes; B closes in CLOSE-WAIT *)
  net_step stQ (NClose SA) = Ok stC ->
  Forall (cl_ev SA false) evs1 -> net_run stC evs1 = Ok st_m -> net_now stQ SA + 2 * Dt < net_now st_m SA ->
  net_run st_m (NClose SB :: evs2) = Ok st' ->
  net_now st_m SA + 3 * Dt + tcp_CLOSE_DELAY < net_now st' SA ->
  (exists h1 h2 sth,
     evsH = h1 ++ h2 /\ net_run st h1 = Ok sth /\ net_run sth h2 = Ok stD /\
     (forall z, s_state (net_sock sth z) = Established) /\
     net_now sth SA <= Z.max (net_now st SA) (cA st) + max_rto_us + 2 * Dt) /\
  (exists p1 p2 sta,
     evsQ = p1 ++ p2 /\ net_run stD p1 = Ok sta /\ net_run sta p2 = Ok stQ /\
     una_off (net_get sta SA) = l_len (ep_written (net_get stD SA)) /\
     read_off (net_get sta SB) = l_len (ep_written (net_get stD SA))) /\
  (exists pre2 post st_c,
     evs2 = pre2 ++ post /\ net_run st_m (NClose SB :: pre2) = Ok st_c /\ net_run st_c post = Ok st' /\
     both_closed st_c).
Proof.
  intros pre st evsH evsQ evs1 evs2 stD stQ stC st_m st' Hstart Hcfg HDt2 HDack Hpre Hscp Hsa Hsb Hfr Hrel HappH HrH HlH HEQ HrQ Hsz HqQ.
  assert (HsmQ : NV.small stQ).
  { split; [specialize (Hsz SA) | specialize (Hsz SB)]; cbn [net_get] in Hsz; change (2 ^ 30) with 1073741824 in Hsz; lia. }
  assert (Hsc : Forall (script_ev SA) (pre ++ evsH)) by (apply Forall_app; split; [exact Hscp | exact (app_script_all _ HappH)]).
  pose proof (aidle_from_net_init Dack ca cb st0 Hstart (pre ++ evsH) stD evsQ stQ (net_run_app pre evsH st0 st stD Hpre HrH) Hsc
                (qev_script_all _ HEQ) HrQ HsmQ) as Hai.
  exact (server_quiesce_close_after_fault_prefix_min Dt Da Dack ca cb st0 n pre st evsH evsQ evs1 evs2 stD stQ stC st_m st' Hstart Hcfg
           HDt2 HDack Hpre Hscp Hsa Hsb Hfr Hrel HappH HrH HlH HEQ HrQ Hsz (run_all_ai _ _ Hai HqQ)).
Qed.

Theorem quiesce_close_after_fault_prefix_min2 Dt Da Dack ca cb st0 (n : nat) :
  forall pre st evsD evsQ evs1 evs2 stD stQ stC st_m st',
  start_ok Dack ca cb st0 -> cfg_rx ca cb -> 2 * Dt < tcp_RTTE_MIN_RTO * 1000 -> 0 <= Dack ->
  (* the fault prefix: any run of the one-way workload - drops, duplicates, reordering, any clock - that ends
     with both sockets ESTABLISHED *)
  net_run st0 pre = Ok st -> Forall (script_ev SA) pre ->
  (forall z, s_state (net_sock st z) = Established) ->
  (* from there on delivery is reliable *)
  reliable_schedule Dt Da st (evsD ++ evsQ ++ NClose SA :: evs1 ++ NClose SB :: evs2) ->
  (* A may go on writing, B reads *)
  Forall (app_ev SA) evsD -> net_run st evsD = Ok stD ->
  (* the applications neither write nor close *)
  Forall qev evsQ -> net_run stD evsQ = Ok stQ ->
  (forall z, l_len (ep_written (net_get stQ z)) < 2 ^ 30) ->
  run_all qregime3 stD evsQ ->
  (l_len (ep_written (net_get stD SA)) - una_off (net_get stD SA)) +
  (l_len (ep_written (net_get stD SA)) - read_off (net_get stD SB)) <= Z.of_nat n ->
  net_now stD SA + Z.of_nat n * Wz Dt Da + 2 * Dt + Dack < net_now stQ SA ->
  (* A closes; B closes in CLOSE-WAIT *)
  net_step stQ (NClose SA) = Ok stC ->
  Forall (cl_ev SA false) evs1 -> net_run stC evs1 = Ok st_m -> net_now stQ SA + 2 * Dt < net_now st_m SA ->
  net_run st_m (NClose SB :: evs2) = Ok st' ->
  net_now st_m SA + 3 * Dt + tcp_CLOSE_DELAY < net_now st' SA ->
  (exists p1 p2 sta,
     evsQ = p1 ++ p2 /\ net_run stD p1 = Ok sta /\ net_run sta p2 = Ok stQ /\
     una_off (net_get sta SA) = l_len (ep_written (net_get stD SA)) /\
     read_off (net_get sta SB) = l_len (ep_written (net_get stD SA))) /\
  (exists pre2 post st_c,
     evs2 = pre2 ++ post /\ net_run st_m (NClose SB :: pre2) = Ok st_c /\ net_run st_c post = Ok st' /\
     both_closed st_c).
Proof.
  intros pre st evsD evsQ evs1 evs2 stD stQ stC st_m st' Hstart Hcfg HDt2 HDack Hpre Hscp Hest Hrel HappD HrD HEQ HrQ Hsz HqQ.
  assert (HsmQ : NV.small stQ).
  { split; [specialize (Hsz SA) | specialize (Hsz SB)]; cbn [net_get] in Hsz; change (2 ^ 30) with 1073741824 in Hsz; lia. }
  assert (Hsc : Forall (script_ev SA) (pre ++ evsD)) by (apply Forall_app; split; [exact Hscp | exact (app_script_all _ HappD)]).
  pose proof (aidle_from_net_init Dack ca cb st0 Hstart (pre ++ evsD) stD evsQ stQ (net_run_app pre evsD st0 st stD Hpre HrD) Hsc
                (qev_script_all _ HEQ) HrQ HsmQ) as Hai.
  exact (quiesce_close_after_fault_prefix_min Dt Da Dack ca cb st0 n pre st evsD evsQ evs1 evs2 stD stQ stC st_m st' Hstart Hcfg
           HDt2 HDack Hpre Hscp Hest Hrel HappD HrD HEQ HrQ Hsz (run_all_ai _ _ Hai HqQ)).
Qed.
