(* C05, layer 4 (end): [tcp_dispatch] as a whole. *)
From SV Require Import Lib.Base Gen.Consts.
From SV Require Import Model.Seq32 Model.Assembler Model.TcpBuf Model.TcpTypes Model.Tcp.
From SV Require Import Proofs.TcpSendBase Proofs.TcpSendInv Proofs.TcpSendAck Proofs.TcpSendProc
                       Proofs.TcpSendApi Proofs.TcpSendDisp Proofs.TcpSendDisp2.

Lemma decide_inv : forall cx g s s1 go tg,
  inv g s -> tcp_dispatch_decide cx s = Ok (s1, go, tg) ->
  inv g s1 /\ frame s s1 /\ (go = true -> s1 = s).
Proof.
  intros cx g s s1 go tg Hinv H. unfold tcp_dispatch_decide in H.
  destruct (tcp_seq_to_transmit cx s) as [stt| |]; cbn [obind] in H; try discriminate.
  destruct stt; [injection H as <- <- <-; split; [exact Hinv|split; [apply frame_refl|auto]]|].
  destruct (_ && _); [injection H as <- <- <-; split; [exact Hinv|split; [apply frame_refl|auto]]|].
  destruct (tcp_window_to_update s) as [wtu| |]; cbn [obind] in H; try discriminate.
  destruct wtu; [injection H as <- <- <-; split; [exact Hinv|split; [apply frame_refl|auto]]|].
  destruct (tcp_state_eqb (s_state s) Closed);
    [injection H as <- <- <-; split; [exact Hinv|split; [apply frame_refl|auto]]|].
  destruct (timer_should_keep_alive _ _);
    [injection H as <- <- <-; split; [exact Hinv|split; [apply frame_refl|auto]]|].
  destruct (timer_should_zero_window_probe _ _);
    [injection H as <- <- <-; split; [exact Hinv|split; [apply frame_refl|auto]]|].
  destruct (timer_should_close _ _); injection H as <- <- <-.
  - split; [|split; [|discriminate]].
    + eapply inv_txv; [|apply (abort_inv g s Hinv)]. reflexivity.
    + unfold frame, tcp_set_state. fld. repeat split; auto.
  - split; [exact Hinv|split; [apply frame_refl|auto]].
Qed.

Lemma decide_total : forall cx g s, inv g s -> ctx_ok cx -> s_tuple s <> None ->
  (exists b, tcp_window_to_update s = Ok b) ->
  exists res, tcp_dispatch_decide cx s = Ok res.
Proof.
  intros cx g s Hinv Hcx Ht (b & Hw). unfold tcp_dispatch_decide.
  destruct (stt_total cx g s Hinv Hcx Ht) as (stt & ->). cbn [obind].
  destruct stt; [eexists; reflexivity|].
  destruct (_ && _); [eexists; reflexivity|].
  rewrite Hw. cbn [obind].
  repeat match goal with |- context [if ?c then _ else _] => destruct c end; eexists; reflexivity.
Qed.

Lemma build_data_some : forall cx s repr s2 o zwp tg,
  tcp_dispatch_build_data cx s repr = Ok (s2, o, zwp, tg) -> exists r, o = Some r.
Proof.
  intros cx s repr s2 o zwp tg H. unfold tcp_dispatch_build_data in H.
  destruct (usub _ _); cbn [obind] in H; try discriminate.
  destruct (tcp_local_mss cx); cbn [obind] in H; try discriminate.
  match type of H with context [obind ?x _] => destruct x as [[[[[sa ra] oa] za] ta]| |]; cbn [obind] in H; try discriminate end.
  injection H as _ <- _ _. eexists. reflexivity.
Qed.

Lemma build_none : forall cx s t s2 zwp ka tg,
  tcp_dispatch_build cx s t = Ok (s2, None, zwp, ka, tg) -> s2 = s.
Proof.
  intros cx s t s2 zwp ka tg H. rewrite build_unfold in H. cbv zeta in H.
  assert (Hp : forall s0 rp z0 t0, post_build cx s0 rp z0 t0 = Ok (s2, None, zwp, ka, tg) -> False).
  { intros s0 rp z0 t0 Hp. unfold post_build in Hp.
    match type of Hp with context [obind ?x _] => destruct x; cbn [obind] in Hp; try discriminate end. }
  assert (Hd : forall rp, (do built <- tcp_dispatch_build_data cx s rp;
                           let '(s0, orepr, zwp0, tg0) := built in
                           match orepr with
                           | None => Ok (s0, None, false, false, tg0)
                           | Some repr => post_build cx s0 repr zwp0 tg0
                           end) = Ok (s2, None, zwp, ka, tg) -> False).
  { intros rp Hd. destruct (tcp_dispatch_build_data cx s rp) as [[[[s0 o] z0] t0]| |] eqn:Eb;
      cbn [obind] in Hd; try discriminate.
    destruct (build_data_some _ _ _ _ _ _ _ Eb) as (r & ->). eapply Hp. exact Hd. }
  destruct (s_state s); cbn [obind] in H;
    try (exfalso; eapply Hp; exact H); try (exfalso; eapply Hd; exact H).
  - injection H as <- _ _ _. reflexivity.
  - destruct (s_syn_unacked_in_fin_wait s); cbn [obind] in H;
      [exfalso; eapply Hp; exact H|exfalso; eapply Hd; exact H].
Qed.

Lemma build_some_not_listen : forall cx s t s2 r zwp ka tg,
  tcp_dispatch_build cx s t = Ok (s2, Some r, zwp, ka, tg) -> s_state s <> Listen.
Proof.
  intros cx s t s2 r zwp ka tg H E. rewrite build_unfold in H. cbv zeta in H. rewrite E in H.
  cbn [obind] in H. discriminate.
Qed.

(* the emitted packet is the built segment with the IP payload length set from it *)
Definition pkt_of (t : tuple) (hop : Z) (r : tcp_repr) : packet :=
  with_payload_len (mkIp (tu_local_addr t) (tu_remote_addr t) hop 0) r.

(* the full statement, with the classification of the ghost after the call for every result *)
Theorem dispatch_inv_full : forall cx g s e s' res tags,
  inv g s -> ctx_ok cx -> tcp_dispatch cx s e = Ok (s', res, tags) ->
  exists g1 s1 g',
    (g1 = g \/ g1 = g_rewind g) /\ inv g1 s1 /\ frame s s1 /\
    inv g' s' /\ ghost_rel g g' /\ (frame s s' \/ s' = tcp_reset s) /\
    (g' = g1 \/ (exists f, g' = g_sent g1 f /\ g_flight g1 <= f) \/
     (g' = ghost0 /\ s' = tcp_reset s /\ res = DNothing)) /\
    match res with
    | DNothing => True
    | DSent p =>
        exists zwp ka, seg_ok cx g1 s1 (snd p) zwp ka /\
                       ip_payload_len (fst p) = repr_buffer_len (snd p) /\ same_epoch g1 g' /\
                       (g' = g1 \/ exists f, g' = g_sent g1 f /\ g_flight g1 <= f) /\
                       (* ka is the model's own keep-alive decision, reported in the branch tags *)
                       In (if ka then 245 else 246) tags
    | DEmitFailed p =>
        exists zwp ka, seg_ok cx g1 s1 (snd p) zwp ka /\
                       ip_payload_len (fst p) = repr_buffer_len (snd p) /\ g' = g1
    end.
Proof.
  intros cx g s e s' res tags Hinv Hcx H. unfold tcp_dispatch in H.
  destruct (s_tuple s) as [t|] eqn:Et.
  2: { injection H as <- <- <-. exists g, s, g. split; [auto|]. split; [exact Hinv|].
       split; [apply frame_refl|]. split; [exact Hinv|]. split; [left; apply same_epoch_refl|].
       split; [left; apply frame_refl|]. split; [left; reflexivity|exact I]. }
  destruct (negb (tu_local_addr t =? cx_addr cx)).
  { injection H as <- <- <-. exists g, s, ghost0. split; [auto|]. split; [exact Hinv|].
    split; [apply frame_refl|]. split; [eapply reset_inv; exact Hinv|].
    split; [right; unfold new_epoch, ghost0; cbn; auto|]. split; [right; reflexivity|].
    split; [right; right; repeat split; reflexivity|exact I]. }
  rewrite dtimers_unfold in H.
  set (s0 := if is_some (s_remote_last_ts s) then s else upd_remote_last_ts s (Some (cx_now cx))) in *.
  assert (Hinv0 : inv g s0).
  { unfold s0. destruct (is_some _); [exact Hinv|]. eapply inv_txv; [|exact Hinv]. reflexivity. }
  assert (Hfr0 : frame s s0).
  { unfold s0. destruct (is_some _); [apply frame_refl|]. unfold frame. fld. repeat split; auto. }
  destruct (dtimers_body_spec cx g s0 Hinv0) as (s1 & tg1 & g1 & E1 & Hinv1 & Hg1 & Hfr1 & Ht1 & _).
  rewrite E1 in H. cbn [obind] in H.
  destruct (tcp_dispatch_decide cx s1) as [[[s1' go] t2]| |] eqn:E2; cbn [obind] in H; try discriminate.
  destruct (decide_inv _ _ _ _ _ _ Hinv1 E2) as (Hinv1' & Hfr1' & Hgo).
  assert (Hrel1 : same_epoch g g1).
  { destruct Hg1 as [->| ->]; [apply same_epoch_refl|apply same_epoch_rewind]. }
  destruct go; cbn [negb] in H.
  2: { injection H as <- <- <-. exists g1, s1, g1. split; [exact Hg1|]. split; [exact Hinv1|].
       split; [eapply frame_trans; eassumption|]. split; [exact Hinv1'|].
       split; [left; exact Hrel1|].
       split; [left; eapply frame_trans; [eapply frame_trans; eassumption|exact Hfr1']|].
       split; [left; reflexivity|exact I]. }
  specialize (Hgo eq_refl). subst s1'.
  destruct (tcp_dispatch_build cx s1 t) as [[[[[s2 orepr] zwp] ka] t3]| |] eqn:E3; cbn [obind] in H;
    try discriminate.
  destruct orepr as [r|].
  2: { injection H as <- <- <-. apply build_none in E3. subst s2.
       exists g1, s1, g1. split; [exact Hg1|]. split; [exact Hinv1|].
       split; [eapply frame_trans; eassumption|]. split; [exact Hinv1|].
       split; [left; exact Hrel1|]. split; [left; eapply frame_trans; eassumption|].
       split; [left; reflexivity|exact I]. }
  destruct (build_spec _ _ _ _ _ _ _ _ _ Hinv1 Hcx E3) as (Hs2 & Hok & _).
  assert (Hinv2 : inv g1 s2).
  { destruct Hs2 as [->| ->]; [exact Hinv1|eapply inv_txv; [|exact Hinv1]; reflexivity]. }
  destruct e; cbn [negb] in H.
  - (* emit succeeded *)
    destruct (tcp_dispatch_finish cx s2 r zwp ka) as [s3 t4] eqn:E4.
    injection H as <- <- <-.
    destruct (finish_inv _ _ _ _ _ _ _ _ _ Hinv1 Hs2 Hok (build_some_not_listen _ _ _ _ _ _ _ _ E3) E4)
      as (g' & Hinv' & Hse & Hg' & Hfr').
    exists g1, s1, g'. split; [exact Hg1|]. split; [exact Hinv1|].
    split; [eapply frame_trans; eassumption|]. split; [exact Hinv'|].
    split.
    + left. destruct Hrel1 as (A1 & (m1 & A2) & A3 & A4 & A5).
      destruct Hse as (B1 & (m2 & B2) & B3 & B4 & B5).
      unfold same_epoch. split; [congruence|]. split; [exists (m1 ++ m2); rewrite B2, A2, app_assoc; reflexivity|].
      split; [lia|]. split; [lia|]. intros G. destruct (A5 G) as (G1 & S1). destruct (B5 G1) as (G2 & S2).
      split; [exact G2|congruence].
    + split; [left; eapply frame_trans; [eapply frame_trans; eassumption|exact Hfr']|].
      split; [destruct Hg' as [X|X]; [left; exact X|right; left; exact X]|].
      exists zwp, ka. split; [exact Hok|]. split; [reflexivity|]. split; [exact Hse|].
      split; [exact Hg'|]. do 4 right. left. reflexivity.
  - (* the device refused the frame: the socket stays as it was when the segment was built *)
    injection H as <- <- <-.
    exists g1, s1, g1. split; [exact Hg1|]. split; [exact Hinv1|].
    split; [eapply frame_trans; eassumption|]. split; [exact Hinv2|].
    split; [left; exact Hrel1|].
    split; [left; eapply frame_trans; [eapply frame_trans; eassumption|];
            destruct Hs2 as [->| ->]; [apply frame_refl|unfold frame; fld; repeat split; auto]|].
    split; [left; reflexivity|].
    exists zwp, ka. split; [exact Hok|]. split; reflexivity.
Qed.

Theorem dispatch_inv : forall cx g s e s' res tags,
  inv g s -> ctx_ok cx -> tcp_dispatch cx s e = Ok (s', res, tags) ->
  exists g1 s1 g',
    (g1 = g \/ g1 = g_rewind g) /\ inv g1 s1 /\ frame s s1 /\
    inv g' s' /\ ghost_rel g g' /\ (frame s s' \/ s' = tcp_reset s) /\
    match res with
    | DNothing => True
    | DSent p =>
        exists zwp ka, seg_ok cx g1 s1 (snd p) zwp ka /\
                       ip_payload_len (fst p) = repr_buffer_len (snd p) /\ same_epoch g1 g' /\
                       (g' = g1 \/ exists f, g' = g_sent g1 f /\ g_flight g1 <= f)
    | DEmitFailed p =>
        exists zwp ka, seg_ok cx g1 s1 (snd p) zwp ka /\
                       ip_payload_len (fst p) = repr_buffer_len (snd p) /\ g' = g1
    end.
Proof.
  intros cx g s e s' res tags Hinv Hcx H.
  destruct (dispatch_inv_full _ _ _ _ _ _ _ Hinv Hcx H)
    as (g1 & s1 & g' & A1 & A2 & A3 & A4 & A5 & A6 & _ & A8).
  exists g1, s1, g'. repeat (split; [assumption|]).
  destruct res; [exact I| |exact A8].
  destruct A8 as (zwp & ka & B1 & B2 & B3 & B4 & _). exists zwp, ka. auto.
Qed.

(* ------------------------------------------------------------------------------------------ *)
(* dispatch never panics under the sender invariant.  The only panic source left is the           *)
(* receiver-side sequence subtraction of last_scaled_window (C04's invariant rcv_nxt <= window   *)
(* end), stated as a hypothesis on the fields it reads.                                          *)
(* ------------------------------------------------------------------------------------------ *)
Lemma wtu_frame : forall s s1,
  s_remote_last_ack s1 = s_remote_last_ack s -> s_remote_last_win s1 = s_remote_last_win s ->
  s_remote_seq_no s1 = s_remote_seq_no s -> s_rx_buffer s1 = s_rx_buffer s ->
  s_remote_win_shift s1 = s_remote_win_shift s ->
  s_syn_unacked_in_fin_wait s1 = s_syn_unacked_in_fin_wait s ->
  (s_state s1 = s_state s \/ s_state s1 = Closed) ->
  (exists b, tcp_window_to_update s = Ok b) -> exists b, tcp_window_to_update s1 = Ok b.
Proof.
  intros s s1 E1 E2 E3 E4 E5 E6 E7 (b & Hb). unfold tcp_window_to_update in *.
  unfold tcp_last_scaled_window, tcp_scaled_window in *. rewrite E1, E2, E3, E4, E5, E6.
  destruct E7 as [->| ->]; [eexists; exact Hb|].
  destruct (s_syn_unacked_in_fin_wait s); eexists; reflexivity.
Qed.

Theorem dispatch_no_panic : forall cx g s e,
  inv g s -> ctx_ok cx ->
  (forall st, exists b, tcp_window_to_update (upd_state s st) = Ok b) ->
  exists res, tcp_dispatch cx s e = Ok res.
Proof.
  intros cx g s e Hinv Hcx Hw. unfold tcp_dispatch.
  destruct (s_tuple s) as [t|] eqn:Et; [|eexists; reflexivity].
  destruct (negb (tu_local_addr t =? cx_addr cx)); [eexists; reflexivity|].
  rewrite dtimers_unfold.
  set (s0 := if is_some (s_remote_last_ts s) then s else upd_remote_last_ts s (Some (cx_now cx))) in *.
  assert (Hinv0 : inv g s0).
  { unfold s0. destruct (is_some _); [exact Hinv|]. eapply inv_txv; [|exact Hinv]. reflexivity. }
  destruct (dtimers_body_spec cx g s0 Hinv0) as (s1 & tg1 & g1 & E1 & Hinv1 & Hg1 & Hfr1 & Ht1 & Ha1 & Hw1).
  rewrite E1. cbn [obind].
  assert (Ht : s_tuple s1 <> None).
  { rewrite Ht1. unfold s0. destruct (is_some _); fld; rewrite Et; discriminate. }
  assert (Hw' : exists b, tcp_window_to_update s1 = Ok b).
  { destruct Hfr1 as (F1 & F2 & F3 & F4 & F5 & F6 & F7 & F8 & F9 & F10 & F11).
    assert (Hs0 : forall st, exists b, tcp_window_to_update (upd_state s0 st) = Ok b).
    { intros st. destruct (Hw st) as (b & Hb). exists b. rewrite <- Hb. unfold s0.
      destruct (is_some _); reflexivity. }
    destruct F11 as [F11|F11].
    - destruct (Hs0 (s_state s0)) as (b & Hb).
      eapply (wtu_frame (upd_state s0 (s_state s0))); fld; try assumption; [left; exact F11|eexists; exact Hb].
    - destruct (Hs0 Closed) as (b & Hb).
      eapply (wtu_frame (upd_state s0 Closed)); fld; try assumption; [left; exact F11|eexists; exact Hb]. }
  destruct (decide_total cx g1 s1 Hinv1 Hcx Ht Hw') as ([[s1' go] t2] & E2). rewrite E2. cbn [obind].
  destruct (decide_inv _ _ _ _ _ _ Hinv1 E2) as (Hinv1' & _ & _).
  destruct go; cbn [negb]; [|eexists; reflexivity].
  destruct (build_total cx g1 s1' t Hinv1' Hcx) as ([[[[s2 orepr] zwp] ka] t3] & E3). rewrite E3.
  cbn [obind]. destruct orepr; [|eexists; reflexivity].
  destruct e; cbn [negb]; [|eexists; reflexivity].
  destruct (tcp_dispatch_finish cx s2 t0 zwp ka). eexists; reflexivity.
Qed.

Lemma wtu_from_lsw : forall s, (exists o, tcp_last_scaled_window s = Ok o) ->
  forall st, exists b, tcp_window_to_update (upd_state s st) = Ok b.
Proof.
  intros s (o & Ho) st. unfold tcp_window_to_update.
  replace (tcp_last_scaled_window (upd_state s st)) with (tcp_last_scaled_window s) by reflexivity.
  fld. destruct (s_syn_unacked_in_fin_wait s); [eexists; reflexivity|].
  rewrite Ho. cbn [obind]. destruct st; try (eexists; reflexivity); destruct o; eexists; reflexivity.
Qed.

Theorem dispatch_no_panic' : forall cx g s e,
  inv g s -> ctx_ok cx -> (exists o, tcp_last_scaled_window s = Ok o) ->
  exists res, tcp_dispatch cx s e = Ok res.
Proof.
  intros cx g s e Hinv Hcx Hl. eapply dispatch_no_panic; try eassumption.
  apply wtu_from_lsw. exact Hl.
Qed.
