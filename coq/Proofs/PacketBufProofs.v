(* Proofs about Model/PacketBuf.v: the packet buffer is a FIFO queue of (header, payload) pairs.
   The two rings are handled through their list-queue views (Proofs/RingProofs.v); the packet
   buffer invariant [pb_inv] says that the metadata records tile the payload queue, that no record
   straddles the physical end of the payload storage (so every payload is contiguous) and that
   every padding record is followed by a packet record. *)
From SV Require Import Lib.Base Model.Ring Model.PacketBuf Proofs.RingProofs.
Set Implicit Arguments.

Section PB.
Variable HT : Type.
Notation pmeta := (pmeta HT).
Notation pbuf := (pbuf HT).
Implicit Types b : pbuf.
Implicit Types ms : list pmeta.
Implicit Types bytes : list Z.

Fixpoint pb_total ms : Z :=
  match ms with [] => 0 | m :: rest => pm_size m + pb_total rest end.

(* records laid out from logical offset [off] of a payload queue whose oldest byte is at physical
   position [pos] in a storage of [c] bytes: no record straddles the end; a padding ends exactly there *)
Fixpoint pb_layout (c pos off : Z) ms : Prop :=
  match ms with
  | [] => True
  | m :: rest =>
      0 <= pm_size m /\ pidx c pos off + pm_size m <= c /\
      (pm_header m = None -> 0 < pm_size m /\ pidx c pos off + pm_size m = c) /\
      pb_layout c pos (off + pm_size m) rest
  end.

(* every padding record is immediately followed by a packet record *)
Fixpoint pb_pad_ok ms : Prop :=
  match ms with
  | [] => True
  | m :: rest =>
      (pm_header m = None -> match rest with m' :: _ => pm_header m' <> None | [] => False end) /\
      pb_pad_ok rest
  end.

Definition pb_inv b : Prop :=
  ring_inv (pb_meta b) /\ ring_inv (pb_payload b) /\
  pb_layout (ring_capacity (pb_payload b)) (r_read (pb_payload b)) 0 (ring_abs (pb_meta b)) /\
  pb_total (ring_abs (pb_meta b)) = r_len (pb_payload b) /\
  pb_pad_ok (ring_abs (pb_meta b)).

(* ---------- pure list facts ---------- *)
Lemma pb_total_app : forall ms1 ms2, pb_total (ms1 ++ ms2) = pb_total ms1 + pb_total ms2.
Proof. induction ms1; intros; simpl; auto. rewrite IHms1. lia. Qed.

Lemma pb_layout_sizes : forall c pos ms off, pb_layout c pos off ms -> 0 <= pb_total ms.
Proof.
  induction ms; intros off Hl; simpl in *; [lia|].
  destruct Hl as (H0 & _ & _ & Hr). specialize (IHms _ Hr). lia.
Qed.

Lemma pb_layout_app : forall c pos ms1 ms2 off,
  pb_layout c pos off ms1 -> pb_layout c pos (off + pb_total ms1) ms2 ->
  pb_layout c pos off (ms1 ++ ms2).
Proof.
  induction ms1; intros ms2 off H1 H2; simpl in *.
  - rewrite Z.add_0_r in H2. exact H2.
  - destruct H1 as (Ha & Hb & Hc & Hr). repeat split; auto; try (apply Hc; auto).
    apply IHms1; auto. rewrite <- Z.add_assoc. exact H2.
Qed.

(* a list whose paddings are all followed by packets, extended by a trailing padding, is fine as
   soon as a packet follows *)
Lemma pb_pad_ok_app2 : forall ms p m, pb_pad_ok ms -> pm_header m <> None ->
  pb_pad_ok (ms ++ [p; m]).
Proof.
  induction ms; intros p m Hok Hm; simpl in *.
  - split; [intro; auto|]. split; [intro; contradiction|auto].
  - destruct Hok as (Ha & Hr). split.
    + intro Hn. specialize (Ha Hn). destruct ms; simpl; auto; try contradiction.
    + apply IHms; auto.
Qed.

Lemma pb_pad_ok_app1 : forall ms m, pb_pad_ok ms -> pm_header m <> None -> pb_pad_ok (ms ++ [m]).
Proof.
  induction ms; intros m Hok Hm; simpl in *.
  - split; auto.
  - destruct Hok as (Ha & Hr). split.
    + intro Hn. specialize (Ha Hn). destruct ms; simpl; auto; try contradiction.
    + apply IHms; auto.
Qed.

Lemma pb_split_app : forall ms1 ms2 bytes1 bytes2 c pos off,
  pb_layout c pos off ms1 -> pb_total ms1 = zlen bytes1 ->
  pb_split (ms1 ++ ms2) (bytes1 ++ bytes2) = pb_split ms1 bytes1 ++ pb_split ms2 bytes2.
Proof.
  induction ms1; intros ms2 bytes1 bytes2 c pos off Hl Ht; simpl in *.
  - destruct bytes1; [reflexivity|]. rewrite zlen_cons in Ht. pose proof (zlen_nonneg bytes1). lia.
  - destruct Hl as (H0 & _ & _ & Hr). pose proof (pb_layout_sizes _ _ _ _ Hr) as Hs.
    assert (Hle : pm_size a <= zlen bytes1) by lia.
    assert (E1 : firstn (Z.to_nat (pm_size a)) (bytes1 ++ bytes2) = firstn (Z.to_nat (pm_size a)) bytes1).
    { rewrite firstn_app. replace (Z.to_nat (pm_size a) - length bytes1)%nat with 0%nat by (unfold zlen in *; lia).
      simpl. apply app_nil_r. }
    assert (E2 : skipn (Z.to_nat (pm_size a)) (bytes1 ++ bytes2) = skipn (Z.to_nat (pm_size a)) bytes1 ++ bytes2).
    { rewrite skipn_app. replace (Z.to_nat (pm_size a) - length bytes1)%nat with 0%nat by (unfold zlen in *; lia).
      reflexivity. }
    rewrite E1, E2.
    rewrite (IHms1 ms2 (skipn (Z.to_nat (pm_size a)) bytes1) bytes2 c pos _ Hr)
      by (rewrite zlen_skipn by lia; lia).
    destruct (pm_header a); reflexivity.
Qed.

Lemma pb_split_nil_inv : forall ms bytes, pb_split ms bytes = [] -> pb_pad_ok ms -> ms = [].
Proof.
  intros ms bytes Hs Hok. destruct ms as [|m rest]; auto. simpl in *.
  destruct (pm_header m) eqn:E; [discriminate|].
  destruct Hok as (Ha & Hr). specialize (Ha eq_refl).
  destruct rest as [|m' rest']; [contradiction|]. simpl in Hs.
  destruct (pm_header m'); [discriminate|contradiction].
Qed.

(* moving the read position over the first [s] bytes *)
Lemma pb_layout_shift : forall c pos s ms off,
  0 <= pos < Z.max 1 c -> 0 <= s -> 0 <= off -> s + off + pb_total ms <= c ->
  pb_layout c pos (s + off) ms -> pb_layout c (pidx c pos s) off ms.
Proof.
  induction ms; intros off Hp Hs Ho Hle Hl; simpl in *; auto.
  destruct Hl as (H0 & H1 & H2 & Hr). pose proof (pb_layout_sizes _ _ _ _ Hr) as Ht.
  rewrite pidx_pidx by lia. repeat split; auto; try (apply H2; auto).
  apply IHms; auto; try lia. rewrite Z.add_assoc. exact Hr.
Qed.

(* with no payload byte queued every record has size 0: the layout holds at any position *)
Lemma pb_layout_zero : forall c pos pos' ms off off',
  0 <= pos' < Z.max 1 c -> 0 <= off' <= c - pos' ->
  pb_layout c pos off ms -> pb_total ms = 0 -> pb_layout c pos' off' ms.
Proof.
  induction ms; intros off off' Hp Ho Hl Ht; simpl in *; auto.
  destruct Hl as (H0 & H1 & H2 & Hr). pose proof (pb_layout_sizes _ _ _ _ Hr) as Hs.
  assert (Hz : pm_size a = 0) by lia. rewrite Hz in *.
  assert (Hpi : pidx c pos' off' <= c).
  { pose proof (@pidx_range c pos' off' Hp). lia. }
  split; [lia|split; [lia|split]].
  - intro Hn. specialize (H2 Hn). lia.
  - rewrite Z.add_0_r. rewrite Z.add_0_r in Hr. eapply IHms; eauto; lia.
Qed.
(* ---------- ring facts in the form used below ---------- *)
Section RingFwd.
Variable A : Type.
Implicit Types r : ring A.

Lemma sim_ok : forall R (x : outcome (ring A * R)) s' o, sim x (Ok (s', o)) ->
  exists r', x = Ok (r', o) /\ ring_inv r' /\ ring_view r' = s'.
Proof.
  intros R x s' o Hs. destruct x as [[r' o']| |]; cbn [sim] in Hs; try discriminate.
  destruct Hs as (Hi & He). apply ok_inj in He.
  pose proof (f_equal fst He) as E1. pose proof (f_equal snd He) as E2. cbn [fst snd] in *.
  subst. exists r'. auto.
Qed.

Lemma len_abs : forall r, ring_inv r -> r_len r = zlen (ring_abs r).
Proof. intros r Hi. destruct (view_rep Hi) as (_ & _ & Hq). unfold ring_abs. lia. Qed.

Lemma win_eq : forall r, ring_inv r -> ring_window r = qs_window (ring_view r).
Proof.
  intros r Hi. pose proof (f_equal (fun l => nth 2 l 0) (status_eq Hi)) as E. exact E.
Qed.
Lemma cw_eq : forall r, ring_inv r -> ring_contiguous_window r = qs_contiguous_window (ring_view r).
Proof.
  intros r Hi. pose proof (f_equal (fun l => nth 3 l 0) (status_eq Hi)) as E. exact E.
Qed.
Lemma cap_eq : forall r, ring_inv r -> ring_capacity r = qs_cap (ring_view r).
Proof. intros. symmetry. apply view_cap; auto. Qed.

Lemma fwd_enqueue_many : forall r size w, ring_inv r -> 0 <= size ->
  let v1 := qs_reset_if_empty (ring_view r) in
  let n := Z.min size (qs_contiguous_window v1) in
  let old := firstn (Z.to_nat n) (q_fr v1) in
  exists r', ring_enqueue_many r size w = Ok (r', old) /\ ring_inv r' /\
    ring_view r' = mkQs (q_q v1 ++ overlay w old) (skipn (Z.to_nat n) (q_fr v1)) (q_pos v1).
Proof.
  intros r size w Hi Hs v1 n old.
  pose proof (sim_enqueue_many w Hs Hi) as S. unfold qs_enqueue_many in S.
  apply sim_ok in S. exact S.
Qed.

Lemma fwd_dequeue_many : forall r size, ring_inv r -> 0 <= size ->
  let v := ring_view r in
  let n := Z.min size (Z.min (qs_len v) (qs_cap v - q_pos v)) in
  exists r', ring_dequeue_many r size = Ok (r', firstn (Z.to_nat n) (q_q v)) /\ ring_inv r' /\
    ring_view r' = qs_dequeue_n v n.
Proof.
  intros r size Hi Hs v n.
  pose proof (sim_dequeue_many Hs Hi) as S. unfold qs_dequeue_many in S.
  apply sim_ok in S. exact S.
Qed.

Lemma is_full_eq : forall r, ring_inv r ->
  ring_is_full r = (zlen (q_fr (ring_view r)) =? 0).
Proof. intros r Hi. unfold ring_is_full. rewrite win_eq by auto. reflexivity. Qed.

Lemma is_empty_eq : forall r, ring_inv r -> ring_is_empty r = (zlen (ring_abs r) =? 0).
Proof. intros r Hi. unfold ring_is_empty, ring_len. rewrite len_abs by auto. reflexivity. Qed.

(* enqueue_one followed by a write through the returned reference *)
Lemma fwd_enqueue_one_write : forall r, ring_inv r -> ring_is_full r = false ->
  exists r1 slot old fr', ring_enqueue_one r = Ok (r1, slot) /\
    q_fr (ring_view r) = old :: fr' /\
    forall v, let r2 := ring_ref_write r1 slot v in
      ring_inv r2 /\ ring_view r2 = mkQs (ring_abs r ++ [v]) fr' (r_read r) /\
      ring_capacity r2 = ring_capacity r.
Proof.
  intros r Hi Hnf. pose proof (enqueue_one_ref (view_rep Hi)) as H. rewrite <- view_eta in H.
  rewrite is_full_eq in Hnf by auto.
  destruct (ring_enqueue_one r) as [[r1 slot]|e|].
  - destruct H as (old & fr' & Hfr & _ & Hrd & _ & _ & Hw).
    exists r1, slot, old, fr'. split; [reflexivity|]. split; [exact Hfr|].
    intros v r2. specialize (Hw v). fold r2 in Hw. pose proof Hw as (Hi2 & _).
    split; [exact Hi2|]. split.
    + rewrite (rep_view Hw). unfold r2, ring_ref_write. cbn [r_read]. rewrite Hrd. reflexivity.
    + rewrite (cap_eq Hi2), (cap_eq Hi), (rep_view Hw). unfold qs_cap. cbn [q_q q_fr].
      rewrite Hfr. unfold ring_abs. rewrite zlen_app, !zlen_cons, zlen_nil. lia.
  - destruct H as (_ & Hfr). rewrite Hfr in Hnf. discriminate.
  - contradiction.
Qed.
End RingFwd.

Lemma pbuf_eta : forall b, mkPbuf (pb_meta b) (pb_payload b) = b.
Proof. destruct b; reflexivity. Qed.

(* what make_room guarantees when it does not refuse: the packet fits contiguously at the write
   position and one metadata slot is free *)
Definition room_ok b b1 (size : Z) : Prop :=
  ring_inv (pb_meta b1) /\ ring_inv (pb_payload b1) /\
  pb_layout (ring_capacity (pb_payload b1)) (r_read (pb_payload b1)) 0 (ring_abs (pb_meta b1)) /\
  pb_total (ring_abs (pb_meta b1)) = r_len (pb_payload b1) /\
  (forall m, pm_header m <> None -> pb_pad_ok (ring_abs (pb_meta b1) ++ [m])) /\
  pb_abs b1 = pb_abs b /\
  ring_is_full (pb_meta b1) = false /\
  qs_reset_if_empty (ring_view (pb_payload b1)) = ring_view (pb_payload b1) /\
  size <= qs_contiguous_window (ring_view (pb_payload b1)) /\
  ring_capacity (pb_payload b1) = ring_capacity (pb_payload b) /\
  ring_capacity (pb_meta b1) = ring_capacity (pb_meta b).

(* the payload ring after the clear-when-empty step *)
Lemma clear_when_empty : forall b, pb_inv b ->
  let p' := if ring_is_empty (pb_payload b) then ring_clear (pb_payload b) else pb_payload b in
  ring_inv p' /\ ring_abs p' = ring_abs (pb_payload b) /\ r_len p' = r_len (pb_payload b) /\
  ring_capacity p' = ring_capacity (pb_payload b) /\
  pb_layout (ring_capacity p') (r_read p') 0 (ring_abs (pb_meta b)) /\
  qs_reset_if_empty (ring_view p') = ring_view p' /\
  (ring_is_empty (pb_payload b) = true ->
     ring_window p' = ring_capacity p' /\ ring_contiguous_window p' = ring_capacity p') /\
  (ring_is_empty (pb_payload b) = false -> p' = pb_payload b).
Proof.
  intros b (Him & Hip & Hlay & Htot & Hpad) p'.
  pose proof (len_abs Hip) as Hlen.
  destruct (ring_is_empty (pb_payload b)) eqn:Ee; subst p'.
  - unfold ring_is_empty, ring_len in Ee. apply Z.eqb_eq in Ee.
    destruct (sim_clear Hip) as (Hic & Hvc).
    assert (Habs : ring_abs (pb_payload b) = []).
    { destruct (ring_abs (pb_payload b)); auto. rewrite zlen_cons in Hlen.
      pose proof (zlen_nonneg l). lia. }
    assert (Hcap : ring_capacity (ring_clear (pb_payload b)) = ring_capacity (pb_payload b)) by reflexivity.
    pose proof Hip as Hip'. unfold ring_inv in Hip'.
    pose proof (zlen_nonneg (r_store (pb_payload b))) as Hc0. fold (ring_capacity (pb_payload b)) in Hc0.
    split; [exact Hic|]. split.
    { unfold ring_abs at 1. rewrite Hvc. cbn [qs_clear q_q]. auto. }
    split; [cbn; lia|]. split; [exact Hcap|]. split.
    { rewrite Hcap. cbn [ring_clear r_read].
      eapply pb_layout_zero; eauto; try lia. }
    split.
    { apply reset_idem; [|reflexivity]. rewrite Hvc. reflexivity. }
    split; [|discriminate]. intros _.
    unfold ring_contiguous_window, ring_window, ring_len, ring_get_idx. rewrite Hcap.
    cbn [ring_clear r_len r_read]. rewrite Z.sub_0_r, Z.add_0_l.
    split; [reflexivity|]. destruct (Z.ltb_spec 0 (ring_capacity (pb_payload b))).
    + rewrite Z.mod_0_l by lia. lia.
    + lia.
  - unfold ring_is_empty, ring_len in Ee. apply Z.eqb_neq in Ee.
    split; [exact Hip|]. split; [reflexivity|]. split; [reflexivity|]. split; [reflexivity|].
    split; [exact Hlay|]. split.
    { unfold qs_reset_if_empty, qs_len. fold (ring_abs (pb_payload b)). rewrite <- Hlen.
      destruct (Z.eqb_spec (r_len (pb_payload b)) 0); [lia|reflexivity]. }
    split; [discriminate|reflexivity].
Qed.

Lemma pb_make_room_spec : forall b size, pb_inv b -> 0 <= size ->
  exists b1 refused, pb_make_room b size = Ok (b1, refused) /\
    (refused = true -> b1 = b) /\ (refused = false -> room_ok b b1 size).
Proof.
  intros b size Hinv Hsz. pose proof (clear_when_empty Hinv) as Hcl. cbv zeta in Hcl.
  destruct Hinv as (Him & Hip & Hlay & Htot & Hpad).
  unfold pb_make_room.
  destruct ((ring_capacity (pb_payload b) <? size) || ring_is_full (pb_meta b)) eqn:E0.
  { exists b, true. split; [reflexivity|]. split; [auto|discriminate]. }
  apply orb_false_iff in E0. destruct E0 as (Ecap & Efull). apply Z.ltb_ge in Ecap.
  set (p' := if ring_is_empty (pb_payload b) then ring_clear (pb_payload b) else pb_payload b) in *.
  destruct Hcl as (Hip' & Habs' & Hlen' & Hcap' & Hlay' & Hreset' & Hemp & Hnemp).
  pose proof (win_eq Hip') as Hwin. pose proof (cw_eq Hip') as Hcw.
  pose proof (cw_range (view_wf Hip')) as Hcwr. rewrite <- Hcw, <- Hwin in Hcwr.
  assert (Hsame : forall refused, (ring_is_empty (pb_payload b) = true -> False) ->
            exists b1 r0, Ok (mkPbuf (pb_meta b) p', refused) = Ok (b1, r0) /\
              (r0 = true -> b1 = b) /\ (r0 = false -> refused = false)).
  { intros refused Hne. exists (mkPbuf (pb_meta b) p'), refused. split; [reflexivity|]. split; auto.
    intros _. rewrite Hnemp by (destruct (ring_is_empty (pb_payload b)); auto; exfalso; auto).
    apply pbuf_eta. }
  destruct (Z.ltb_spec (ring_window p') size) as [Hw|Hw].
  { (* window too small: cannot happen on a cleared ring *)
    exists (mkPbuf (pb_meta b) p'), true. split; [reflexivity|]. split; [|discriminate]. intros _.
    rewrite Hnemp; [apply pbuf_eta|].
    destruct (ring_is_empty (pb_payload b)); auto. destruct (Hemp eq_refl). lia. }
  assert (Hroom0 : ring_contiguous_window p' >= size -> room_ok b (mkPbuf (pb_meta b) p') size).
  { intros Hge. unfold room_ok. cbn [pb_meta pb_payload].
    split; [exact Him|]. split; [exact Hip'|]. split; [exact Hlay'|]. split; [lia|].
    split; [intros m Hm; apply pb_pad_ok_app1; auto|].
    split; [unfold pb_abs; cbn [pb_meta pb_payload]; rewrite Habs'; reflexivity|].
    split; [exact Efull|]. split; [exact Hreset'|]. split; [lia|]. split; [exact Hcap'|reflexivity]. }
  destruct (Z.ltb_spec (ring_contiguous_window p') size) as [Hc|Hc].
  2:{ exists (mkPbuf (pb_meta b) p'), false. split; [reflexivity|]. split; [discriminate|].
      intros _. apply Hroom0. lia. }
  (* the contiguous window is too small: the payload ring is not empty *)
  assert (Hne : ring_is_empty (pb_payload b) = false).
  { destruct (ring_is_empty (pb_payload b)); auto. destruct (Hemp eq_refl). lia. }
  specialize (Hnemp Hne). clearbody p'. subst p'. clear Hemp.
  destruct (Z.ltb_spec (ring_window (pb_payload b) - ring_contiguous_window (pb_payload b)) size).
  { exists (mkPbuf (pb_meta b) (pb_payload b)), true. split; [reflexivity|].
    split; [intros _; apply pbuf_eta|discriminate]. }
  destruct (Z.ltb_spec (ring_window (pb_meta b)) 2) as [Hm2|Hm2].
  { exists (mkPbuf (pb_meta b) (pb_payload b)), true. split; [reflexivity|].
    split; [intros _; apply pbuf_eta|discriminate]. }
  (* padding *)
  set (contig := ring_contiguous_window (pb_payload b)) in *.
  destruct (fwd_enqueue_one_write Him Efull) as (meta1 & slot & oldm & mfr' & He1 & Hmfr & Hw1).
  rewrite He1. specialize (Hw1 (pm_padding HT contig)). cbv zeta in Hw1.
  destruct Hw1 as (Him1 & Hvm1 & Hcm1).
  destruct (@fwd_enqueue_many Z (pb_payload b) contig [] Hip' ltac:(lia)) as (payload1 & Hep & Hip1 & Hvp1).
  cbv zeta in Hep, Hvp1. rewrite Hreset' in Hep, Hvp1. rewrite <- Hcw in Hep, Hvp1.
  fold contig in Hep, Hvp1. rewrite Z.min_id in Hep, Hvp1.
  rewrite Hep. cbn [obind].
  exists (mkPbuf (ring_ref_write meta1 slot (pm_padding HT contig)) payload1), false.
  split; [reflexivity|]. split; [discriminate|]. intros _.
  set (old := firstn (Z.to_nat contig) (q_fr (ring_view (pb_payload b)))) in *.
  assert (Hov : overlay [] old = old).
  { unfold overlay. rewrite firstn_nil. reflexivity. }
  rewrite Hov in Hvp1.
  assert (Hwv : zlen (q_fr (ring_view (pb_payload b))) = ring_window (pb_payload b)) by (rewrite Hwin; reflexivity).
  assert (Hzold : zlen old = contig) by (apply zlen_firstn; lia).
  pose proof (len_abs Hip) as Hlen. pose proof (cap_eq Hip) as Hcapv.
  pose proof Hip as Hipu. unfold ring_inv in Hipu.
  (* the contiguous window ends at the end of the storage *)
  assert (Hcontig : pidx (ring_capacity (pb_payload b)) (r_read (pb_payload b)) (r_len (pb_payload b)) + contig
                    = ring_capacity (pb_payload b) /\ 0 < contig).
  { unfold contig, ring_contiguous_window in *. rewrite get_idx_pidx in * by (auto; lia).
    pose proof (@pidx_range (ring_capacity (pb_payload b)) (r_read (pb_payload b)) (r_len (pb_payload b))).
    lia. }
  destruct Hcontig as (Hcend & Hcpos).
  assert (Habs1 : ring_abs payload1 = ring_abs (pb_payload b) ++ old).
  { unfold ring_abs at 1. rewrite Hvp1. reflexivity. }
  assert (Hmabs1 : ring_abs (ring_ref_write meta1 slot (pm_padding HT contig))
                   = ring_abs (pb_meta b) ++ [pm_padding HT contig]).
  { unfold ring_abs at 1. rewrite Hvm1. reflexivity. }
  assert (Hcap1 : ring_capacity payload1 = ring_capacity (pb_payload b)).
  { rewrite (cap_eq Hip1), Hvp1, Hcapv. unfold qs_cap. cbn [q_q q_fr].
    rewrite zlen_app, Hzold, zlen_skipn by lia.
    fold (ring_abs (pb_payload b)). lia. }
  assert (Hrd1 : r_read payload1 = r_read (pb_payload b)).
  { change (r_read payload1) with (q_pos (ring_view payload1)). rewrite Hvp1. reflexivity. }
  assert (Hlen1 : r_len payload1 = r_len (pb_payload b) + contig).
  { rewrite (len_abs Hip1), Habs1, zlen_app, Hzold, <- Hlen. reflexivity. }
  unfold room_ok. cbn [pb_meta pb_payload].
  split; [exact Him1|]. split; [exact Hip1|]. split.
  { rewrite Hmabs1, Hcap1, Hrd1. apply pb_layout_app; [exact Hlay|].
    rewrite Z.add_0_l, Htot. cbn [pb_layout pm_padding pm_size pm_header].
    split; [lia|]. split; [lia|]. split; [intros _; split; lia|exact I]. }
  split.
  { rewrite Hmabs1, pb_total_app, Htot, Hlen1. cbn [pb_total pm_padding pm_size]. lia. }
  split.
  { intros m Hm. rewrite Hmabs1, <- app_assoc. cbn [app]. apply pb_pad_ok_app2; auto. }
  split.
  { unfold pb_abs. cbn [pb_meta pb_payload]. rewrite Hmabs1, Habs1.
    erewrite pb_split_app; eauto; [|lia].
    cbn [pb_split pm_padding pm_header]. apply app_nil_r. }
  split.
  { rewrite is_full_eq by auto. rewrite Hvm1. cbn [q_fr].
    pose proof (win_eq Him) as Hwm. unfold qs_window in Hwm. rewrite Hmfr, zlen_cons in Hwm.
    destruct (Z.eqb_spec (zlen mfr') 0); [lia|reflexivity]. }
  split.
  { unfold qs_reset_if_empty, qs_len. fold (ring_abs payload1). rewrite <- (len_abs Hip1), Hlen1.
    destruct (Z.eqb_spec (r_len (pb_payload b) + contig) 0); [lia|reflexivity]. }
  split.
  { rewrite <- (cw_eq Hip1). unfold ring_contiguous_window, ring_window, ring_len.
    rewrite get_idx_pidx by (auto; rewrite Hcap1, Hlen1; unfold ring_window, ring_len in *; lia).
    rewrite Hcap1, Hrd1, Hlen1.
    assert (Hp0 : pidx (ring_capacity (pb_payload b)) (r_read (pb_payload b)) (r_len (pb_payload b) + contig) = 0).
    { rewrite <- pidx_pidx by (unfold ring_window, ring_len in *; lia).
      unfold pidx at 1. unfold wrap.
      destruct (Z.ltb_spec 0 (ring_capacity (pb_payload b))); [|reflexivity].
      rewrite Hcend. destruct (Z.leb_spec (ring_capacity (pb_payload b)) (ring_capacity (pb_payload b))); lia. }
    rewrite Hp0. unfold ring_window, ring_len in *. lia. }
  split; [exact Hcap1|exact Hcm1].
Qed.
End PB.
