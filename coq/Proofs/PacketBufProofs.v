(* Proofs about Model/PacketBuf.v: the packet buffer is a FIFO queue of (header, payload) pairs.
   The two rings are handled through their list-queue views (Proofs/RingProofs.v); the packet
   buffer invariant [pb_inv] says that the metadata records tile the payload queue, that no record
   straddles the physical end of the payload storage (so every payload is contiguous) and that
   every padding record is followed by a packet record. *)
From SV Require Import Lib.Base Model.Ring Model.PacketBuf Proofs.RingProofs.
Set Implicit Arguments.

Section PB.
Variable HT : Type.
Notation pmeta := (pmeta HT).
Notation pbuf := (pbuf HT).
Implicit Types b : pbuf.
Implicit Types ms : list pmeta.
Implicit Types bytes : list Z.

Fixpoint pb_total ms : Z :=
  match ms with [] => 0 | m :: rest => pm_size m + pb_total rest end.

(* records laid out from logical offset [off] of a payload queue whose oldest byte is at physical
   position [pos] in a storage of [c] bytes: no record straddles the end; a padding ends exactly there *)
Fixpoint pb_layout (c pos off : Z) ms : Prop :=
  match ms with
  | [] => True
  | m :: rest =>
      0 <= pm_size m /\ pidx c pos off + pm_size m <= c /\
      (pm_header m = None -> 0 < pm_size m /\ pidx c pos off + pm_size m = c) /\
      pb_layout c pos (off + pm_size m) rest
  end.

(* every padding record is immediately followed by a packet record *)
Fixpoint pb_pad_ok ms : Prop :=
  match ms with
  | [] => True
  | m :: rest =>
      (pm_header m = None -> match rest with m' :: _ => pm_header m' <> None | [] => False end) /\
      pb_pad_ok rest
  end.

Definition pb_inv b : Prop :=
  ring_inv (pb_meta b) /\ ring_inv (pb_payload b) /\
  pb_layout (ring_capacity (pb_payload b)) (r_read (pb_payload b)) 0 (ring_abs (pb_meta b)) /\
  pb_total (ring_abs (pb_meta b)) = r_len (pb_payload b) /\
  pb_pad_ok (ring_abs (pb_meta b)).

(* ---------- pure list facts ---------- *)
Lemma pb_total_app : forall ms1 ms2, pb_total (ms1 ++ ms2) = pb_total ms1 + pb_total ms2.
Proof. induction ms1; intros; simpl; auto. rewrite IHms1. lia. Qed.

Lemma pb_layout_sizes : forall c pos ms off, pb_layout c pos off ms -> 0 <= pb_total ms.
Proof.
  induction ms; intros off Hl; simpl in *; [lia|].
  destruct Hl as (H0 & _ & _ & Hr). specialize (IHms _ Hr). lia.
Qed.

Lemma pb_layout_app : forall c pos ms1 ms2 off,
  pb_layout c pos off ms1 -> pb_layout c pos (off + pb_total ms1) ms2 ->
  pb_layout c pos off (ms1 ++ ms2).
Proof.
  induction ms1; intros ms2 off H1 H2; simpl in *.
  - rewrite Z.add_0_r in H2. exact H2.
  - destruct H1 as (Ha & Hb & Hc & Hr). repeat split; auto; try (apply Hc; auto).
    apply IHms1; auto. rewrite <- Z.add_assoc. exact H2.
Qed.

(* a list whose paddings are all followed by packets, extended by a trailing padding, is fine as
   soon as a packet follows *)
Lemma pb_pad_ok_app2 : forall ms p m, pb_pad_ok ms -> pm_header m <> None ->
  pb_pad_ok (ms ++ [p; m]).
Proof.
  induction ms; intros p m Hok Hm; simpl in *.
  - split; [intro; auto|]. split; [intro; contradiction|auto].
  - destruct Hok as (Ha & Hr). split.
    + intro Hn. specialize (Ha Hn). destruct ms; simpl; auto; try contradiction.
    + apply IHms; auto.
Qed.

Lemma pb_pad_ok_app1 : forall ms m, pb_pad_ok ms -> pm_header m <> None -> pb_pad_ok (ms ++ [m]).
Proof.
  induction ms; intros m Hok Hm; simpl in *.
  - split; auto.
  - destruct Hok as (Ha & Hr). split.
    + intro Hn. specialize (Ha Hn). destruct ms; simpl; auto; try contradiction.
    + apply IHms; auto.
Qed.

Lemma pb_split_app : forall ms1 ms2 bytes1 bytes2 c pos off,
  pb_layout c pos off ms1 -> pb_total ms1 = zlen bytes1 ->
  pb_split (ms1 ++ ms2) (bytes1 ++ bytes2) = pb_split ms1 bytes1 ++ pb_split ms2 bytes2.
Proof.
  induction ms1; intros ms2 bytes1 bytes2 c pos off Hl Ht; simpl in *.
  - destruct bytes1; [reflexivity|]. rewrite zlen_cons in Ht. pose proof (zlen_nonneg bytes1). lia.
  - destruct Hl as (H0 & _ & _ & Hr). pose proof (pb_layout_sizes _ _ _ _ Hr) as Hs.
    assert (Hle : pm_size a <= zlen bytes1) by lia.
    assert (E1 : firstn (Z.to_nat (pm_size a)) (bytes1 ++ bytes2) = firstn (Z.to_nat (pm_size a)) bytes1).
    { rewrite firstn_app. replace (Z.to_nat (pm_size a) - length bytes1)%nat with 0%nat by (unfold zlen in *; lia).
      simpl. apply app_nil_r. }
    assert (E2 : skipn (Z.to_nat (pm_size a)) (bytes1 ++ bytes2) = skipn (Z.to_nat (pm_size a)) bytes1 ++ bytes2).
    { rewrite skipn_app. replace (Z.to_nat (pm_size a) - length bytes1)%nat with 0%nat by (unfold zlen in *; lia).
      reflexivity. }
    rewrite E1, E2.
    rewrite (IHms1 ms2 (skipn (Z.to_nat (pm_size a)) bytes1) bytes2 c pos _ Hr)
      by (rewrite zlen_skipn by lia; lia).
    destruct (pm_header a); reflexivity.
Qed.

Lemma pb_split_nil_inv : forall ms bytes, pb_split ms bytes = [] -> pb_pad_ok ms -> ms = [].
Proof.
  intros ms bytes Hs Hok. destruct ms as [|m rest]; auto. simpl in *.
  destruct (pm_header m) eqn:E; [discriminate|].
  destruct Hok as (Ha & Hr). specialize (Ha eq_refl).
  destruct rest as [|m' rest']; [contradiction|]. simpl in Hs.
  destruct (pm_header m'); [discriminate|contradiction].
Qed.

(* moving the read position over the first [s] bytes *)
Lemma pb_layout_shift : forall c pos s ms off,
  0 <= pos < Z.max 1 c -> 0 <= s -> 0 <= off -> s + off + pb_total ms <= c ->
  pb_layout c pos (s + off) ms -> pb_layout c (pidx c pos s) off ms.
Proof.
  induction ms; intros off Hp Hs Ho Hle Hl; simpl in *; auto.
  destruct Hl as (H0 & H1 & H2 & Hr). pose proof (pb_layout_sizes _ _ _ _ Hr) as Ht.
  rewrite pidx_pidx by lia. repeat split; auto; try (apply H2; auto).
  apply IHms; auto; try lia. rewrite Z.add_assoc. exact Hr.
Qed.

(* with no payload byte queued every record has size 0: the layout holds at any position *)
Lemma pb_layout_zero : forall c pos pos' ms off off',
  0 <= pos' < Z.max 1 c -> 0 <= off' <= c - pos' ->
  pb_layout c pos off ms -> pb_total ms = 0 -> pb_layout c pos' off' ms.
Proof.
  induction ms; intros off off' Hp Ho Hl Ht; simpl in *; auto.
  destruct Hl as (H0 & H1 & H2 & Hr). pose proof (pb_layout_sizes _ _ _ _ Hr) as Hs.
  assert (Hz : pm_size a = 0) by lia. rewrite Hz in *.
  assert (Hpi : pidx c pos' off' <= c).
  { pose proof (@pidx_range c pos' off' Hp). lia. }
  split; [lia|split; [lia|split]].
  - intro Hn. specialize (H2 Hn). lia.
  - rewrite Z.add_0_r. rewrite Z.add_0_r in Hr. eapply IHms; eauto; lia.
Qed.
(* ---------- ring facts in the form used below ---------- *)
Section RingFwd.
Variable A : Type.
Implicit Types r : ring A.

Lemma sim_ok : forall R (x : outcome (ring A * R)) s' o, sim x (Ok (s', o)) ->
  exists r', x = Ok (r', o) /\ ring_inv r' /\ ring_view r' = s'.
Proof.
  intros R x s' o Hs. destruct x as [[r' o']| |]; cbn [sim] in Hs; try discriminate.
  destruct Hs as (Hi & He). apply ok_inj in He.
  pose proof (f_equal fst He) as E1. pose proof (f_equal snd He) as E2. cbn [fst snd] in *.
  subst. exists r'. auto.
Qed.

Lemma len_abs : forall r, ring_inv r -> r_len r = zlen (ring_abs r).
Proof. intros r Hi. destruct (view_rep Hi) as (_ & _ & Hq). unfold ring_abs. lia. Qed.

Lemma win_eq : forall r, ring_inv r -> ring_window r = qs_window (ring_view r).
Proof.
  intros r Hi. pose proof (f_equal (fun l => nth 2 l 0) (status_eq Hi)) as E. exact E.
Qed.
Lemma cw_eq : forall r, ring_inv r -> ring_contiguous_window r = qs_contiguous_window (ring_view r).
Proof.
  intros r Hi. pose proof (f_equal (fun l => nth 3 l 0) (status_eq Hi)) as E. exact E.
Qed.
Lemma cap_eq : forall r, ring_inv r -> ring_capacity r = qs_cap (ring_view r).
Proof. intros. symmetry. apply view_cap; auto. Qed.

Lemma fwd_enqueue_many : forall r size w, ring_inv r -> 0 <= size ->
  let v1 := qs_reset_if_empty (ring_view r) in
  let n := Z.min size (qs_contiguous_window v1) in
  let old := firstn (Z.to_nat n) (q_fr v1) in
  exists r', ring_enqueue_many r size w = Ok (r', old) /\ ring_inv r' /\
    ring_view r' = mkQs (q_q v1 ++ overlay w old) (skipn (Z.to_nat n) (q_fr v1)) (q_pos v1).
Proof.
  intros r size w Hi Hs v1 n old.
  pose proof (sim_enqueue_many w Hs Hi) as S. unfold qs_enqueue_many in S.
  apply sim_ok in S. exact S.
Qed.

Lemma fwd_dequeue_many : forall r size, ring_inv r -> 0 <= size ->
  let v := ring_view r in
  let n := Z.min size (Z.min (qs_len v) (qs_cap v - q_pos v)) in
  exists r', ring_dequeue_many r size = Ok (r', firstn (Z.to_nat n) (q_q v)) /\ ring_inv r' /\
    ring_view r' = qs_dequeue_n v n.
Proof.
  intros r size Hi Hs v n.
  pose proof (sim_dequeue_many Hs Hi) as S. unfold qs_dequeue_many in S.
  apply sim_ok in S. exact S.
Qed.

Lemma is_full_eq : forall r, ring_inv r ->
  ring_is_full r = (zlen (q_fr (ring_view r)) =? 0).
Proof. intros r Hi. unfold ring_is_full. rewrite win_eq by auto. reflexivity. Qed.

Lemma is_empty_eq : forall r, ring_inv r -> ring_is_empty r = (zlen (ring_abs r) =? 0).
Proof. intros r Hi. unfold ring_is_empty, ring_len. rewrite len_abs by auto. reflexivity. Qed.

(* enqueue_one followed by a write through the returned reference *)
Lemma fwd_enqueue_one_write : forall r, ring_inv r -> ring_is_full r = false ->
  exists r1 slot old fr', ring_enqueue_one r = Ok (r1, slot) /\
    q_fr (ring_view r) = old :: fr' /\
    forall v, let r2 := ring_ref_write r1 slot v in
      ring_inv r2 /\ ring_view r2 = mkQs (ring_abs r ++ [v]) fr' (r_read r) /\
      ring_capacity r2 = ring_capacity r.
Proof.
  intros r Hi Hnf. pose proof (enqueue_one_ref (view_rep Hi)) as H. rewrite <- view_eta in H.
  rewrite is_full_eq in Hnf by auto.
  destruct (ring_enqueue_one r) as [[r1 slot]|e|].
  - destruct H as (old & fr' & Hfr & _ & Hrd & _ & _ & Hw).
    exists r1, slot, old, fr'. split; [reflexivity|]. split; [exact Hfr|].
    intros v r2. specialize (Hw v). fold r2 in Hw. pose proof Hw as (Hi2 & _).
    split; [exact Hi2|]. split.
    + rewrite (rep_view Hw). unfold r2, ring_ref_write. cbn [r_read]. rewrite Hrd. reflexivity.
    + rewrite (cap_eq Hi2), (cap_eq Hi), (rep_view Hw). unfold qs_cap. cbn [q_q q_fr].
      rewrite Hfr. unfold ring_abs. rewrite zlen_app, !zlen_cons, zlen_nil. lia.
  - destruct H as (_ & Hfr). rewrite Hfr in Hnf. discriminate.
  - contradiction.
Qed.
End RingFwd.

Lemma pbuf_eta : forall b, mkPbuf (pb_meta b) (pb_payload b) = b.
Proof. destruct b; reflexivity. Qed.

(* what make_room guarantees when it does not refuse: the packet fits contiguously at the write
   position and one metadata slot is free *)
Definition room_ok b b1 (size : Z) : Prop :=
  ring_inv (pb_meta b1) /\ ring_inv (pb_payload b1) /\
  pb_layout (ring_capacity (pb_payload b1)) (r_read (pb_payload b1)) 0 (ring_abs (pb_meta b1)) /\
  pb_total (ring_abs (pb_meta b1)) = r_len (pb_payload b1) /\
  (forall m, pm_header m <> None -> pb_pad_ok (ring_abs (pb_meta b1) ++ [m])) /\
  pb_abs b1 = pb_abs b /\
  ring_is_full (pb_meta b1) = false /\
  qs_reset_if_empty (ring_view (pb_payload b1)) = ring_view (pb_payload b1) /\
  size <= qs_contiguous_window (ring_view (pb_payload b1)) /\
  ring_capacity (pb_payload b1) = ring_capacity (pb_payload b) /\
  ring_capacity (pb_meta b1) = ring_capacity (pb_meta b).

(* the payload ring after the clear-when-empty step *)
Lemma clear_when_empty : forall b, pb_inv b ->
  let p' := if ring_is_empty (pb_payload b) then ring_clear (pb_payload b) else pb_payload b in
  ring_inv p' /\ ring_abs p' = ring_abs (pb_payload b) /\ r_len p' = r_len (pb_payload b) /\
  ring_capacity p' = ring_capacity (pb_payload b) /\
  pb_layout (ring_capacity p') (r_read p') 0 (ring_abs (pb_meta b)) /\
  qs_reset_if_empty (ring_view p') = ring_view p' /\
  (ring_is_empty (pb_payload b) = true ->
     ring_window p' = ring_capacity p' /\ ring_contiguous_window p' = ring_capacity p') /\
  (ring_is_empty (pb_payload b) = false -> p' = pb_payload b).
Proof.
  intros b (Him & Hip & Hlay & Htot & Hpad) p'.
  pose proof (len_abs Hip) as Hlen.
  destruct (ring_is_empty (pb_payload b)) eqn:Ee; subst p'.
  - unfold ring_is_empty, ring_len in Ee. apply Z.eqb_eq in Ee.
    destruct (sim_clear Hip) as (Hic & Hvc).
    assert (Habs : ring_abs (pb_payload b) = []).
    { destruct (ring_abs (pb_payload b)); auto. rewrite zlen_cons in Hlen.
      pose proof (zlen_nonneg l). lia. }
    assert (Hcap : ring_capacity (ring_clear (pb_payload b)) = ring_capacity (pb_payload b)) by reflexivity.
    pose proof Hip as Hip'. unfold ring_inv in Hip'.
    pose proof (zlen_nonneg (r_store (pb_payload b))) as Hc0. fold (ring_capacity (pb_payload b)) in Hc0.
    split; [exact Hic|]. split.
    { unfold ring_abs at 1. rewrite Hvc. cbn [qs_clear q_q]. auto. }
    split; [cbn; lia|]. split; [exact Hcap|]. split.
    { rewrite Hcap. cbn [ring_clear r_read].
      eapply pb_layout_zero; eauto; try lia. }
    split.
    { apply reset_idem; [|reflexivity]. rewrite Hvc. reflexivity. }
    split; [|discriminate]. intros _.
    unfold ring_contiguous_window, ring_window, ring_len, ring_get_idx. rewrite Hcap.
    cbn [ring_clear r_len r_read]. rewrite Z.sub_0_r, Z.add_0_l.
    split; [reflexivity|]. destruct (Z.ltb_spec 0 (ring_capacity (pb_payload b))).
    + rewrite Z.mod_0_l by lia. lia.
    + lia.
  - unfold ring_is_empty, ring_len in Ee. apply Z.eqb_neq in Ee.
    split; [exact Hip|]. split; [reflexivity|]. split; [reflexivity|]. split; [reflexivity|].
    split; [exact Hlay|]. split.
    { unfold qs_reset_if_empty, qs_len. fold (ring_abs (pb_payload b)). rewrite <- Hlen.
      destruct (Z.eqb_spec (r_len (pb_payload b)) 0); [lia|reflexivity]. }
    split; [discriminate|reflexivity].
Qed.

Lemma pb_make_room_spec : forall b size, pb_inv b -> 0 <= size ->
  exists b1 refused, pb_make_room b size = Ok (b1, refused) /\
    (refused = true -> b1 = b) /\ (refused = false -> room_ok b b1 size).
Proof.
  intros b size Hinv Hsz. pose proof (clear_when_empty Hinv) as Hcl. cbv zeta in Hcl.
  destruct Hinv as (Him & Hip & Hlay & Htot & Hpad).
  unfold pb_make_room.
  destruct ((ring_capacity (pb_payload b) <? size) || ring_is_full (pb_meta b)) eqn:E0.
  { exists b, true. split; [reflexivity|]. split; [auto|discriminate]. }
  apply orb_false_iff in E0. destruct E0 as (Ecap & Efull). apply Z.ltb_ge in Ecap.
  set (p' := if ring_is_empty (pb_payload b) then ring_clear (pb_payload b) else pb_payload b) in *.
  destruct Hcl as (Hip' & Habs' & Hlen' & Hcap' & Hlay' & Hreset' & Hemp & Hnemp).
  pose proof (win_eq Hip') as Hwin. pose proof (cw_eq Hip') as Hcw.
  pose proof (cw_range (view_wf Hip')) as Hcwr. rewrite <- Hcw, <- Hwin in Hcwr.
  assert (Hsame : forall refused, (ring_is_empty (pb_payload b) = true -> False) ->
            exists b1 r0, Ok (mkPbuf (pb_meta b) p', refused) = Ok (b1, r0) /\
              (r0 = true -> b1 = b) /\ (r0 = false -> refused = false)).
  { intros refused Hne. exists (mkPbuf (pb_meta b) p'), refused. split; [reflexivity|]. split; auto.
    intros _. rewrite Hnemp by (destruct (ring_is_empty (pb_payload b)); auto; exfalso; auto).
    apply pbuf_eta. }
  destruct (Z.ltb_spec (ring_window p') size) as [Hw|Hw].
  { (* window too small: cannot happen on a cleared ring *)
    exists (mkPbuf (pb_meta b) p'), true. split; [reflexivity|]. split; [|discriminate]. intros _.
    rewrite Hnemp; [apply pbuf_eta|].
    destruct (ring_is_empty (pb_payload b)); auto. destruct (Hemp eq_refl). lia. }
  assert (Hroom0 : ring_contiguous_window p' >= size -> room_ok b (mkPbuf (pb_meta b) p') size).
  { intros Hge. unfold room_ok. cbn [pb_meta pb_payload].
    split; [exact Him|]. split; [exact Hip'|]. split; [exact Hlay'|]. split; [lia|].
    split; [intros m Hm; apply pb_pad_ok_app1; auto|].
    split; [unfold pb_abs; cbn [pb_meta pb_payload]; rewrite Habs'; reflexivity|].
    split; [exact Efull|]. split; [exact Hreset'|]. split; [lia|]. split; [exact Hcap'|reflexivity]. }
  destruct (Z.ltb_spec (ring_contiguous_window p') size) as [Hc|Hc].
  2:{ exists (mkPbuf (pb_meta b) p'), false. split; [reflexivity|]. split; [discriminate|].
      intros _. apply Hroom0. lia. }
  (* the contiguous window is too small: the payload ring is not empty *)
  assert (Hne : ring_is_empty (pb_payload b) = false).
  { destruct (ring_is_empty (pb_payload b)); auto. destruct (Hemp eq_refl). lia. }
  specialize (Hnemp Hne). clearbody p'. subst p'. clear Hemp.
  destruct (Z.ltb_spec (ring_window (pb_payload b) - ring_contiguous_window (pb_payload b)) size).
  { exists (mkPbuf (pb_meta b) (pb_payload b)), true. split; [reflexivity|].
    split; [intros _; apply pbuf_eta|discriminate]. }
  destruct (Z.ltb_spec (ring_window (pb_meta b)) 2) as [Hm2|Hm2].
  { exists (mkPbuf (pb_meta b) (pb_payload b)), true. split; [reflexivity|].
    split; [intros _; apply pbuf_eta|discriminate]. }
  (* padding *)
  set (contig := ring_contiguous_window (pb_payload b)) in *.
  destruct (fwd_enqueue_one_write Him Efull) as (meta1 & slot & oldm & mfr' & He1 & Hmfr & Hw1).
  rewrite He1. specialize (Hw1 (pm_padding HT contig)). cbv zeta in Hw1.
  destruct Hw1 as (Him1 & Hvm1 & Hcm1).
  destruct (@fwd_enqueue_many Z (pb_payload b) contig [] Hip' ltac:(lia)) as (payload1 & Hep & Hip1 & Hvp1).
  cbv zeta in Hep, Hvp1. rewrite Hreset' in Hep, Hvp1. rewrite <- Hcw in Hep, Hvp1.
  fold contig in Hep, Hvp1. rewrite Z.min_id in Hep, Hvp1.
  rewrite Hep. cbn [obind].
  exists (mkPbuf (ring_ref_write meta1 slot (pm_padding HT contig)) payload1), false.
  split; [reflexivity|]. split; [discriminate|]. intros _.
  set (old := firstn (Z.to_nat contig) (q_fr (ring_view (pb_payload b)))) in *.
  assert (Hov : overlay [] old = old).
  { unfold overlay. rewrite firstn_nil. reflexivity. }
  rewrite Hov in Hvp1.
  assert (Hwv : zlen (q_fr (ring_view (pb_payload b))) = ring_window (pb_payload b)) by (rewrite Hwin; reflexivity).
  assert (Hzold : zlen old = contig) by (apply zlen_firstn; lia).
  pose proof (len_abs Hip) as Hlen. pose proof (cap_eq Hip) as Hcapv.
  pose proof Hip as Hipu. unfold ring_inv in Hipu.
  (* the contiguous window ends at the end of the storage *)
  assert (Hcontig : pidx (ring_capacity (pb_payload b)) (r_read (pb_payload b)) (r_len (pb_payload b)) + contig
                    = ring_capacity (pb_payload b) /\ 0 < contig).
  { unfold contig, ring_contiguous_window in *. rewrite get_idx_pidx in * by (auto; lia).
    pose proof (@pidx_range (ring_capacity (pb_payload b)) (r_read (pb_payload b)) (r_len (pb_payload b))).
    lia. }
  destruct Hcontig as (Hcend & Hcpos).
  assert (Habs1 : ring_abs payload1 = ring_abs (pb_payload b) ++ old).
  { unfold ring_abs at 1. rewrite Hvp1. reflexivity. }
  assert (Hmabs1 : ring_abs (ring_ref_write meta1 slot (pm_padding HT contig))
                   = ring_abs (pb_meta b) ++ [pm_padding HT contig]).
  { unfold ring_abs at 1. rewrite Hvm1. reflexivity. }
  assert (Hcap1 : ring_capacity payload1 = ring_capacity (pb_payload b)).
  { rewrite (cap_eq Hip1), Hvp1, Hcapv. unfold qs_cap. cbn [q_q q_fr].
    rewrite zlen_app, Hzold, zlen_skipn by lia.
    fold (ring_abs (pb_payload b)). lia. }
  assert (Hrd1 : r_read payload1 = r_read (pb_payload b)).
  { change (r_read payload1) with (q_pos (ring_view payload1)). rewrite Hvp1. reflexivity. }
  assert (Hlen1 : r_len payload1 = r_len (pb_payload b) + contig).
  { rewrite (len_abs Hip1), Habs1, zlen_app, Hzold, <- Hlen. reflexivity. }
  unfold room_ok. cbn [pb_meta pb_payload].
  split; [exact Him1|]. split; [exact Hip1|]. split.
  { rewrite Hmabs1, Hcap1, Hrd1. apply pb_layout_app; [exact Hlay|].
    rewrite Z.add_0_l, Htot. cbn [pb_layout pm_padding pm_size pm_header].
    split; [lia|]. split; [lia|]. split; [intros _; split; lia|exact I]. }
  split.
  { rewrite Hmabs1, pb_total_app, Htot, Hlen1. cbn [pb_total pm_padding pm_size]. lia. }
  split.
  { intros m Hm. rewrite Hmabs1, <- app_assoc. cbn [app]. apply pb_pad_ok_app2; auto. }
  split.
  { unfold pb_abs. cbn [pb_meta pb_payload]. rewrite Hmabs1, Habs1.
    erewrite pb_split_app; eauto; [|lia].
    cbn [pb_split pm_padding pm_header]. apply app_nil_r. }
  split.
  { rewrite is_full_eq by auto. rewrite Hvm1. cbn [q_fr].
    pose proof (win_eq Him) as Hwm. unfold qs_window in Hwm. rewrite Hmfr, zlen_cons in Hwm.
    destruct (Z.eqb_spec (zlen mfr') 0); [lia|reflexivity]. }
  split.
  { unfold qs_reset_if_empty, qs_len. fold (ring_abs payload1). rewrite <- (len_abs Hip1), Hlen1.
    destruct (Z.eqb_spec (r_len (pb_payload b) + contig) 0); [lia|reflexivity]. }
  split.
  { rewrite <- (cw_eq Hip1). unfold ring_contiguous_window, ring_window, ring_len.
    rewrite get_idx_pidx by (auto; rewrite Hcap1, Hlen1; unfold ring_window, ring_len in *; lia).
    rewrite Hcap1, Hrd1, Hlen1.
    assert (Hp0 : pidx (ring_capacity (pb_payload b)) (r_read (pb_payload b)) (r_len (pb_payload b) + contig) = 0).
    { rewrite <- pidx_pidx by (unfold ring_window, ring_len in *; lia).
      unfold pidx at 1. unfold wrap.
      destruct (Z.ltb_spec 0 (ring_capacity (pb_payload b))); [|reflexivity].
      rewrite Hcend. destruct (Z.leb_spec (ring_capacity (pb_payload b)) (ring_capacity (pb_payload b))); lia. }
    rewrite Hp0. unfold ring_window, ring_len in *. lia. }
  split; [exact Hcap1|exact Hcm1].
Qed.
Lemma cw_unfold : forall A (r : ring A), ring_inv r ->
  qs_contiguous_window (ring_view r) =
  Z.min (ring_capacity r - r_len r)
        (ring_capacity r - pidx (ring_capacity r) (r_read r) (r_len r)).
Proof.
  intros A r Hi. rewrite <- cw_eq by auto. unfold ring_contiguous_window, ring_window, ring_len.
  pose proof Hi as Hi'. unfold ring_inv in Hi'. rewrite get_idx_pidx by (auto; lia). reflexivity.
Qed.

(* appending the packet record and its payload after make_room *)
Lemma append_packet : forall b b1 size meta2 payload2 k h pl mfr2 rest,
  room_ok b b1 size ->
  ring_inv meta2 ->
  ring_view meta2 = mkQs (ring_abs (pb_meta b1) ++ [pm_packet k h]) mfr2 (r_read (pb_meta b1)) ->
  ring_inv payload2 ->
  ring_view payload2 = mkQs (ring_abs (pb_payload b1) ++ pl) rest (r_read (pb_payload b1)) ->
  zlen pl = k -> 0 <= k <= qs_contiguous_window (ring_view (pb_payload b1)) ->
  ring_capacity payload2 = ring_capacity (pb_payload b1) ->
  pb_inv (mkPbuf meta2 payload2) /\ pb_abs (mkPbuf meta2 payload2) = pb_abs b ++ [(h, pl)].
Proof.
  intros b b1 size meta2 payload2 k h pl mfr2 rest Hroom Him2 Hvm2 Hip2 Hvp2 Hpl Hk Hcap2.
  destruct Hroom as (Him1 & Hip1 & Hlay1 & Htot1 & Hpad1 & Habs1 & _ & _ & _ & _ & _).
  assert (Hma : ring_abs meta2 = ring_abs (pb_meta b1) ++ [pm_packet k h])
    by (unfold ring_abs at 1; rewrite Hvm2; reflexivity).
  assert (Hpa : ring_abs payload2 = ring_abs (pb_payload b1) ++ pl)
    by (unfold ring_abs at 1; rewrite Hvp2; reflexivity).
  assert (Hrd2 : r_read payload2 = r_read (pb_payload b1)).
  { change (r_read payload2) with (q_pos (ring_view payload2)). rewrite Hvp2. reflexivity. }
  pose proof (len_abs Hip1) as Hlen1. pose proof (len_abs Hip2) as Hlen2.
  rewrite Hpa, zlen_app, <- Hlen1, Hpl in Hlen2.
  rewrite cw_unfold in Hk by auto.
  split.
  - unfold pb_inv. cbn [pb_meta pb_payload].
    split; [exact Him2|]. split; [exact Hip2|]. split; [|split].
    + rewrite Hma, Hcap2, Hrd2. apply pb_layout_app; [exact Hlay1|].
      rewrite Z.add_0_l, Htot1. cbn [pb_layout pm_packet pm_size pm_header].
      split; [lia|]. split; [lia|]. split; [discriminate|exact I].
    + rewrite Hma, pb_total_app, Htot1, Hlen2. cbn [pb_total pm_packet pm_size]. lia.
    + rewrite Hma. apply Hpad1. discriminate.
  - unfold pb_abs in *. cbn [pb_meta pb_payload]. rewrite Hma, Hpa.
    erewrite pb_split_app; eauto; [|lia]. rewrite Habs1. f_equal.
    cbn [pb_split pm_packet pm_size pm_header]. f_equal. f_equal.
    rewrite <- Hpl, to_nat_zlen. apply firstn_all.
Qed.

Theorem pb_enqueue_spec : forall b size h w, pb_inv b -> 0 <= size ->
  exists b' res, pb_enqueue b size h w = Ok (b', res) /\
    (res = None <-> exists b1, pb_make_room b size = Ok (b1, true)) /\
    match res with
    | None => b' = b
    | Some old => zlen old = size /\ pb_inv b' /\ pb_abs b' = pb_abs b ++ [(h, overlay w old)]
    end.
Proof.
  intros b size h w Hinv Hsz.
  destruct (pb_make_room_spec Hinv Hsz) as (b1 & refused & Hmr & Hrt & Hrf).
  unfold pb_enqueue. rewrite Hmr. cbn [obind].
  destruct refused.
  { exists b1, None. split; [reflexivity|]. split; [split; eauto|]. apply Hrt; reflexivity. }
  specialize (Hrf eq_refl). pose proof Hrf as Hroom.
  destruct Hrf as (Him1 & Hip1 & _ & _ & _ & _ & Hnf & Hreset & Hcw & _ & _).
  destruct (fwd_enqueue_one_write Him1 Hnf) as (meta2 & slot & oldm & mfr' & He1 & Hmfr & Hw1).
  rewrite He1. specialize (Hw1 (pm_packet size h)). cbv zeta in Hw1.
  destruct Hw1 as (Him2 & Hvm2 & _).
  destruct (@fwd_enqueue_many Z (pb_payload b1) size w Hip1 Hsz) as (payload2 & Hep & Hip2 & Hvp2).
  cbv zeta in Hep, Hvp2. rewrite Hreset in Hep, Hvp2. rewrite Z.min_l in Hep, Hvp2 by lia.
  rewrite Hep. cbn [obind].
  set (old := firstn (Z.to_nat size) (q_fr (ring_view (pb_payload b1)))) in *.
  pose proof (cw_range (view_wf Hip1)) as Hcwr. unfold qs_window in Hcwr.
  assert (Hzold : zlen old = size) by (apply zlen_firstn; lia).
  rewrite Hzold. rewrite Z.eqb_refl. cbn [negb].
  exists (mkPbuf (ring_ref_write meta2 slot (pm_packet size h)) payload2), (Some old).
  split; [reflexivity|].
  split.
  { split; [discriminate|]. intros (b1' & Hb1'). congruence. }
  split; [exact Hzold|].
  eapply append_packet; eauto; try (rewrite zlen_overlay; exact Hzold); try lia.
  rewrite (cap_eq Hip2), (cap_eq Hip1), Hvp2. unfold qs_cap. cbn [q_q q_fr].
    rewrite zlen_app, zlen_overlay, Hzold, zlen_skipn by lia. fold (ring_abs (pb_payload b1)). lia.
Qed.
Theorem pb_enqueue_with_infallible_spec : forall b max h (f : list Z -> list Z * Z),
  pb_inv b -> 0 <= max -> (forall buf, 0 <= snd (f buf)) ->
  (exists b' res, pb_enqueue_with_infallible b max h f = Ok (b', res) /\
     (res = None <-> exists b1, pb_make_room b max = Ok (b1, true)) /\
     match res with
     | None => b' = b
     | Some (k, seen) =>
         zlen seen = max /\ k = snd (f seen) /\ pb_inv b' /\
         exists pl, zlen pl = k /\ pb_abs b' = pb_abs b ++ [(h, pl)] /\
           (k <= max -> pl = firstn (Z.to_nat k) (overlay (fst (f seen)) seen))
     end) \/
  (pb_enqueue_with_infallible b max h f = Panic /\
   exists seen, zlen seen = max /\ max < snd (f seen)).
Proof.
  intros b max h f Hinv Hmax Hf.
  destruct (pb_make_room_spec Hinv Hmax) as (b1 & refused & Hmr & Hrt & Hrf).
  unfold pb_enqueue_with_infallible. rewrite Hmr. cbn [obind].
  destruct refused.
  { left. exists b1, None. split; [reflexivity|]. split; [split; eauto|]. apply Hrt; reflexivity. }
  specialize (Hrf eq_refl). pose proof Hrf as Hroom.
  destruct Hrf as (Him1 & Hip1 & _ & _ & _ & _ & Hnf & Hreset & Hcw & _ & _).
  destruct (fwd_enqueue_one_write Him1 Hnf) as (meta2 & slot & oldm & mfr' & He1 & Hmfr & Hw1).
  rewrite He1.
  set (g := fun data : list Z =>
              if negb (in_range data 0 max) then Panic
              else let buf := slice data 0 max in
                   let '(new, k) := f buf in
                   Ok (overlay new buf ++ skipn (Z.to_nat max) data, k, buf)).
  assert (Hg : cb_nonneg3 g).
  { intros data new k res Hgd. unfold g in Hgd. destruct (negb _); [discriminate|].
    cbv zeta in Hgd. pose proof (Hf (slice data 0 max)) as H0.
    destruct (f (slice data 0 max)) as [new' k']. cbn [snd] in H0. inversion Hgd; subst. exact H0. }
  pose proof (sim_enqueue_many_with Hg Hip1) as S. fold g.
  unfold qs_enqueue_many_with in S. rewrite Hreset in S.
  pose proof (cw_range (view_wf Hip1)) as Hcwr. unfold qs_window in Hcwr.
  set (m := qs_contiguous_window (ring_view (pb_payload b1))) in *.
  set (pfr := q_fr (ring_view (pb_payload b1))) in *.
  set (old := firstn (Z.to_nat m) pfr) in *.
  assert (Hzold : zlen old = m) by (apply zlen_firstn; lia).
  assert (Hgold : g old = let buf := firstn (Z.to_nat max) pfr in
                          let '(new, k) := f buf in
                          Ok (overlay new buf ++ skipn (Z.to_nat max) old, k, buf)).
  { unfold g. rewrite in_range_true by lia. cbn [negb]. cbv zeta.
    rewrite slice_0. unfold old. rewrite firstn_firstn_z by lia. reflexivity. }
  rewrite Hgold in S. cbv zeta in S.
  set (buf := firstn (Z.to_nat max) pfr) in *.
  assert (Hzbuf : zlen buf = max) by (apply zlen_firstn; lia).
  pose proof (Hf buf) as Hk0.
  destruct (f buf) as [new k] eqn:Ef. cbn [snd] in Hk0. cbn [obind] in S.
  destruct (Z.ltb_spec m k) as [Hmk|Hmk].
  { right. destruct (ring_enqueue_many_with (pb_payload b1) g) as [[? ?]| |]; cbn [sim] in S;
      try (destruct S as (_ & S)); try discriminate.
    split; [reflexivity|]. exists buf. rewrite Ef. cbn [snd]. split; [exact Hzbuf|lia]. }
  left. apply sim_ok in S. destruct S as (payload2 & Hep & Hip2 & Hvp2).
  rewrite Hep. cbn [obind].
  specialize (Hw1 (pm_packet k h)). cbv zeta in Hw1. destruct Hw1 as (Him2 & Hvm2 & _).
  exists (mkPbuf (ring_ref_write meta2 slot (pm_packet k h)) payload2), (Some (k, buf)).
  split; [reflexivity|].
  split.
  { split; [discriminate|]. intros (b1' & Hb1'). congruence. }
  split; [exact Hzbuf|]. split; [rewrite Ef; reflexivity|].
  set (nw0 := overlay new buf ++ skipn (Z.to_nat max) old) in *.
  assert (Hznw0 : zlen nw0 = m).
  { unfold nw0. rewrite zlen_app, zlen_overlay, Hzbuf, zlen_skipn by lia. lia. }
  assert (Hov : overlay nw0 old = nw0) by (apply overlay_same; unfold zlen in *; lia).
  rewrite Hov in Hvp2.
  set (pl := firstn (Z.to_nat k) nw0) in *.
  assert (Hzpl : zlen pl = k) by (apply zlen_firstn; lia).
  assert (Hres : pb_inv (mkPbuf (ring_ref_write meta2 slot (pm_packet k h)) payload2) /\
                 pb_abs (mkPbuf (ring_ref_write meta2 slot (pm_packet k h)) payload2) = pb_abs b ++ [(h, pl)]).
  { eapply append_packet; eauto; try lia.
    rewrite (cap_eq Hip2), (cap_eq Hip1), Hvp2. unfold qs_cap. cbn [q_q q_fr].
    fold pfr. rewrite !zlen_app, Hzpl, !zlen_skipn by lia. rewrite Hznw0. lia. }
  destruct Hres as (Hinv' & Habs'). split; [exact Hinv'|].
  exists pl. split; [exact Hzpl|]. split; [exact Habs'|].
  intro Hle. rewrite Ef. cbn [fst]. unfold pl, nw0.
  rewrite firstn_app. replace (Z.to_nat k - length (overlay new buf))%nat with 0%nat.
  - cbn [firstn]. apply app_nil_r.
  - rewrite overlay_length. unfold zlen in *. lia.
Qed.
Lemma sim_err : forall A R (x : outcome (ring A * R)) e, sim x (Err e) -> x = Err e.
Proof.
  intros A R x e Hs. destruct x as [[r' o']| |]; cbn [sim] in Hs.
  - destruct Hs as (_ & Hs). discriminate.
  - inversion Hs. reflexivity.
  - discriminate.
Qed.

(* replacing both rings by rings with the same abstract content and geometry *)
Lemma same_views : forall b meta' payload', pb_inv b ->
  ring_inv meta' -> ring_abs meta' = ring_abs (pb_meta b) ->
  ring_inv payload' -> ring_abs payload' = ring_abs (pb_payload b) ->
  r_read payload' = r_read (pb_payload b) ->
  ring_capacity payload' = ring_capacity (pb_payload b) ->
  pb_inv (mkPbuf meta' payload') /\ pb_abs (mkPbuf meta' payload') = pb_abs b.
Proof.
  intros b meta' payload' (Him & Hip & Hlay & Htot & Hpad) Him' Hma Hip' Hpa Hrd Hcap.
  split.
  - unfold pb_inv. cbn [pb_meta pb_payload]. rewrite Hma, Hcap, Hrd.
    split; [exact Him'|]. split; [exact Hip'|]. split; [exact Hlay|]. split; [|exact Hpad].
    rewrite (len_abs Hip'), Hpa, <- (len_abs Hip). exact Htot.
  - unfold pb_abs. cbn [pb_meta pb_payload]. rewrite Hma, Hpa. reflexivity.
Qed.

(* the oldest record fits before the end of the storage and inside the queued bytes *)
Lemma head_fits : forall b m ms', pb_inv b -> ring_abs (pb_meta b) = m :: ms' ->
  0 <= pm_size m /\ pm_size m <= r_len (pb_payload b) /\
  r_read (pb_payload b) + pm_size m <= ring_capacity (pb_payload b) /\
  (pm_header m = None -> r_read (pb_payload b) + pm_size m = ring_capacity (pb_payload b)).
Proof.
  intros b m ms' (Him & Hip & Hlay & Htot & Hpad) Hms. rewrite Hms in *.
  cbn [pb_layout pb_total] in *. destruct Hlay as (H0 & H1 & H2 & Hr).
  pose proof (pb_layout_sizes _ _ _ _ Hr) as Hs.
  pose proof Hip as Hipu. unfold ring_inv in Hipu.
  rewrite pidx_0_wf in H1, H2 by lia.
  split; [lia|]. split; [lia|]. split; [lia|]. intro Hn. apply H2; auto.
Qed.

Lemma qs_dequeue_n_cap : forall A (s : qs A) n, 0 <= n <= qs_len s ->
  qs_cap (qs_dequeue_n s n) = qs_cap s.
Proof.
  intros A s n Hn. unfold qs_cap, qs_dequeue_n, qs_len in *. cbn [q_q q_fr].
  rewrite zlen_app, zlen_firstn, zlen_skipn by lia. lia.
Qed.

(* removing the oldest record together with its bytes *)
Lemma drop_head : forall b meta2 payload2 m ms', pb_inv b ->
  ring_abs (pb_meta b) = m :: ms' ->
  ring_inv meta2 -> ring_abs meta2 = ms' ->
  ring_inv payload2 ->
  ring_view payload2 = qs_dequeue_n (ring_view (pb_payload b)) (pm_size m) ->
  pb_inv (mkPbuf meta2 payload2) /\
  pb_abs (mkPbuf meta2 payload2) =
    pb_split ms' (skipn (Z.to_nat (pm_size m)) (ring_abs (pb_payload b))).
Proof.
  intros b meta2 payload2 m ms' Hinv Hms Him2 Hma Hip2 Hvp2.
  destruct (head_fits Hinv Hms) as (Hs0 & Hsl & Hsc & _).
  destruct Hinv as (Him & Hip & Hlay & Htot & Hpad). rewrite Hms in *.
  cbn [pb_layout pb_total pb_pad_ok] in *. destruct Hlay as (_ & _ & _ & Hr). destruct Hpad as (_ & Hpad').
  pose proof (len_abs Hip) as Hlen. pose proof Hip as Hipu. unfold ring_inv in Hipu.
  assert (Hpa : ring_abs payload2 = skipn (Z.to_nat (pm_size m)) (ring_abs (pb_payload b))).
  { unfold ring_abs at 1. rewrite Hvp2. reflexivity. }
  assert (Hrd : r_read payload2 = pidx (ring_capacity (pb_payload b)) (r_read (pb_payload b)) (pm_size m)).
  { change (r_read payload2) with (q_pos (ring_view payload2)). rewrite Hvp2.
    cbn [qs_dequeue_n q_pos]. rewrite (cap_eq Hip). reflexivity. }
  assert (Hcap : ring_capacity payload2 = ring_capacity (pb_payload b)).
  { rewrite (cap_eq Hip2), Hvp2, qs_dequeue_n_cap, <- (cap_eq Hip); auto.
    unfold qs_len. fold (ring_abs (pb_payload b)). lia. }
  split.
  - unfold pb_inv. cbn [pb_meta pb_payload]. rewrite Hma, Hcap, Hrd.
    split; [exact Him2|]. split; [exact Hip2|]. split; [|split; [|exact Hpad']].
    + pose proof (pb_layout_sizes _ _ _ _ Hr). apply pb_layout_shift; try lia.
      rewrite Z.add_0_r. rewrite Z.add_0_l in Hr. exact Hr.
    + rewrite (len_abs Hip2), Hpa, zlen_skipn by lia. lia.
  - unfold pb_abs. cbn [pb_meta pb_payload]. rewrite Hma, Hpa. reflexivity.
Qed.

Theorem pb_dequeue_padding_spec : forall b, pb_inv b ->
  exists b1, pb_dequeue_padding b = Ok b1 /\ pb_inv b1 /\ pb_abs b1 = pb_abs b /\
    match ring_abs (pb_meta b1) with m :: _ => pm_header m <> None | [] => True end.
Proof.
  intros b Hinv. pose proof Hinv as (Him & Hip & Hlay & Htot & Hpad).
  unfold pb_dequeue_padding.
  set (F := fun (_ : Z) (metadata : pmeta) =>
              if pm_is_padding metadata
              then do x <- ring_dequeue_many (pb_payload b) (pm_size metadata);
                   let '(payload1, _) := x in Ok (true, payload1)
              else Ok (false, pb_payload b)).
  pose proof (sim_dequeue_one_with F Him) as S. unfold qs_dequeue_one_with in S.
  fold (ring_abs (pb_meta b)) in S.
  destruct (ring_abs (pb_meta b)) as [|m ms'] eqn:Hms.
  - apply sim_err in S. rewrite S. exists b. rewrite Hms. auto.
  - destruct (head_fits Hinv Hms) as (Hs0 & Hsl & Hsc & Hpe).
    destruct (pm_header m) as [h|] eqn:Ehd.
    + (* a packet is at the head: nothing happens *)
      assert (HF : forall p, F p m = Ok (false, pb_payload b))
        by (intro; unfold F, pm_is_padding; rewrite Ehd; reflexivity).
      rewrite HF in S. cbn [obind] in S. apply sim_ok in S. destruct S as (meta1 & He & Him1 & Hvm1).
      rewrite He. exists (mkPbuf meta1 (pb_payload b)).
      assert (Hma : ring_abs meta1 = ring_abs (pb_meta b)).
      { unfold ring_abs. rewrite Hvm1. fold (ring_abs (pb_meta b)). rewrite Hms. destruct (ring_view (pb_meta b)); reflexivity. }
      destruct (@same_views b meta1 (pb_payload b) Hinv Him1 Hma Hip eq_refl eq_refl eq_refl) as (Hi' & Ha').
      split; [reflexivity|]. split; [exact Hi'|]. split; [exact Ha'|].
      cbn [pb_meta]. rewrite Hma, Hms. rewrite Ehd. discriminate.
    + (* a padding record: drop it and its bytes *)
      specialize (Hpe eq_refl).
      destruct (@fwd_dequeue_many Z (pb_payload b) (pm_size m) Hip Hs0) as (payload1 & Hdq & Hip1 & Hvp1).
      cbv zeta in Hdq, Hvp1.
      assert (Hn : Z.min (pm_size m) (Z.min (qs_len (ring_view (pb_payload b)))
                    (qs_cap (ring_view (pb_payload b)) - q_pos (ring_view (pb_payload b)))) = pm_size m).
      { unfold qs_len. fold (ring_abs (pb_payload b)). rewrite <- (len_abs Hip), <- (cap_eq Hip).
        cbn [ring_view q_pos]. lia. }
      rewrite Hn in Hdq, Hvp1.
      assert (HF : forall p, F p m = Ok (true, payload1))
        by (intro; unfold F, pm_is_padding; rewrite Ehd, Hdq; reflexivity).
      rewrite HF in S. cbn [obind] in S.
      apply sim_ok in S. destruct S as (meta1 & He & Him1 & Hvm1). rewrite He.
      exists (mkPbuf meta1 payload1).
      assert (Hma : ring_abs meta1 = ms') by (unfold ring_abs; rewrite Hvm1; reflexivity).
      destruct (@drop_head b meta1 payload1 m ms' Hinv Hms Him1 Hma Hip1 Hvp1) as (Hi' & Ha').
      split; [reflexivity|]. split; [exact Hi'|]. split.
      * rewrite Ha'. unfold pb_abs. rewrite Hms. cbn [pb_split]. rewrite Ehd. reflexivity.
      * cbn [pb_meta]. rewrite Hma. cbn [pb_pad_ok] in Hpad.
        destruct Hpad as (Hnext & _). specialize (Hnext Ehd). destruct ms'; auto.
Qed.
Lemma head_min : forall b m ms', pb_inv b -> ring_abs (pb_meta b) = m :: ms' ->
  Z.min (pm_size m) (Z.min (qs_len (ring_view (pb_payload b)))
     (qs_cap (ring_view (pb_payload b)) - q_pos (ring_view (pb_payload b)))) = pm_size m.
Proof.
  intros b m ms' Hinv Hms. destruct (head_fits Hinv Hms) as (Hs0 & Hsl & Hsc & _).
  destruct Hinv as (_ & Hip & _).
  unfold qs_len. fold (ring_abs (pb_payload b)). rewrite <- (len_abs Hip), <- (cap_eq Hip).
  cbn [ring_view q_pos]. lia.
Qed.

Theorem pb_dequeue_spec : forall b, pb_inv b ->
  exists b' res, pb_dequeue b = Ok (b', res) /\ pb_inv b' /\
    match res with
    | None => pb_abs b = [] /\ pb_abs b' = []
    | Some (h, p) => pb_abs b = (h, p) :: pb_abs b'
    end.
Proof.
  intros b Hinv0. destruct (pb_dequeue_padding_spec Hinv0) as (b1 & Hdp & Hinv & Habs1 & Hhead).
  unfold pb_dequeue. rewrite Hdp. cbn [obind]. rewrite <- Habs1. clear Hdp Habs1 Hinv0 b.
  rename b1 into b. pose proof Hinv as (Him & Hip & Hlay & Htot & Hpad).
  unfold ring_dequeue_one.
  pose proof (sim_dequeue_one_with (fun idx x => Ok (true, (idx, x))) Him) as S.
  unfold qs_dequeue_one_with in S. fold (ring_abs (pb_meta b)) in S.
  destruct (ring_abs (pb_meta b)) as [|m ms'] eqn:Hms.
  - apply sim_err in S. rewrite S. exists b, None. split; [reflexivity|]. split; [exact Hinv|].
    unfold pb_abs. rewrite Hms. auto.
  - cbn [obind] in S. apply sim_ok in S. destruct S as (meta1 & He & Him1 & Hvm1). rewrite He.
    destruct (head_fits Hinv Hms) as (Hs0 & Hsl & Hsc & _).
    destruct (@fwd_dequeue_many Z (pb_payload b) (pm_size m) Hip Hs0) as (payload1 & Hdq & Hip1 & Hvp1).
    cbv zeta in Hdq, Hvp1. rewrite (head_min Hinv Hms) in Hdq, Hvp1. rewrite Hdq. cbn [obind].
    fold (ring_abs (pb_payload b)) in *.
    rewrite zlen_firstn by (rewrite <- (len_abs Hip); lia). rewrite Z.eqb_refl. cbn [negb].
    destruct (pm_header m) as [h|] eqn:Ehd; [|contradiction].
    assert (Hma : ring_abs meta1 = ms') by (unfold ring_abs; rewrite Hvm1; reflexivity).
    destruct (@drop_head b meta1 payload1 m ms' Hinv Hms Him1 Hma Hip1 Hvp1) as (Hi' & Ha').
    exists (mkPbuf meta1 payload1), (Some (h, firstn (Z.to_nat (pm_size m)) (ring_abs (pb_payload b)))).
    split; [reflexivity|]. split; [exact Hi'|].
    rewrite Ha'. unfold pb_abs. rewrite Hms. cbn [pb_split]. rewrite Ehd. reflexivity.
Qed.

Theorem pb_dequeue_with_spec : forall b (f : HT -> list Z -> bool), pb_inv b ->
  exists b' res, pb_dequeue_with b f = Ok (b', res) /\ pb_inv b' /\
    match res with
    | None => pb_abs b = [] /\ pb_abs b' = []
    | Some (h, p, acc) =>
        acc = f h p /\
        exists rest, pb_abs b = (h, p) :: rest /\
                     pb_abs b' = if acc then rest else (h, p) :: rest
    end.
Proof.
  intros b f Hinv0. destruct (pb_dequeue_padding_spec Hinv0) as (b1 & Hdp & Hinv & Habs1 & Hhead).
  unfold pb_dequeue_with. rewrite Hdp. cbn [obind]. rewrite <- Habs1. clear Hdp Habs1 Hinv0 b.
  rename b1 into b. pose proof Hinv as (Him & Hip & Hlay & Htot & Hpad).
  set (G := fun (metadata : pmeta) (payload_buf : list Z) =>
              if zlen payload_buf <? pm_size metadata then Panic
              else match pm_header metadata with
                   | None => Panic
                   | Some h =>
                       let p := slice payload_buf 0 (pm_size metadata) in
                       if f h p then Ok (pm_size metadata, (h, p, true)) else Ok (0, (h, p, false))
                   end).
  set (F := fun (_ : Z) (metadata : pmeta) =>
              do x <- ring_dequeue_many_with (pb_payload b) (G metadata);
              let '(payload1, (_, res)) := x in Ok (snd res, (payload1, res))).
  change (exists b' res,
    match ring_dequeue_one_with (pb_meta b) F with
    | Ok (meta1, (payload1, res)) => Ok (mkPbuf meta1 payload1, Some res)
    | Err _ => Ok (b, None)
    | Panic => Panic
    end = Ok (b', res) /\ pb_inv b' /\
    match res with
    | None => pb_abs b = [] /\ pb_abs b' = []
    | Some (h, p, acc) =>
        acc = f h p /\
        exists rest, pb_abs b = (h, p) :: rest /\
                     pb_abs b' = if acc then rest else (h, p) :: rest
    end).
  pose proof (sim_dequeue_one_with F Him) as S. unfold qs_dequeue_one_with in S.
  fold (ring_abs (pb_meta b)) in S.
  destruct (ring_abs (pb_meta b)) as [|m ms'] eqn:Hms.
  - apply sim_err in S. rewrite S. exists b, None. split; [reflexivity|]. split; [exact Hinv|].
    unfold pb_abs. rewrite Hms. auto.
  - destruct (head_fits Hinv Hms) as (Hs0 & Hsl & Hsc & _).
    destruct (pm_header m) as [h|] eqn:Ehd; [|contradiction].
    (* the inner dequeue_many_with *)
    assert (HG : cb_nonneg2 (G m)).
    { intros buf k res HGk. unfold G in HGk. destruct (_ <? _); [discriminate|]. rewrite Ehd in HGk.
      cbv zeta in HGk. destruct (f h _); inversion HGk; lia. }
    pose proof (sim_dequeue_many_with HG Hip) as S2. unfold qs_dequeue_many_with in S2.
    fold (ring_abs (pb_payload b)) in S2.
    set (bytes := ring_abs (pb_payload b)) in *.
    pose proof (len_abs Hip) as Hlen. fold bytes in Hlen.
    pose proof Hip as Hipu. unfold ring_inv in Hipu.
    set (m' := Z.min (qs_len (ring_view (pb_payload b)))
                     (qs_cap (ring_view (pb_payload b)) - q_pos (ring_view (pb_payload b)))) in *.
    assert (Hm' : pm_size m <= m' <= zlen bytes).
    { unfold m', qs_len. change (q_q (ring_view (pb_payload b))) with bytes.
      rewrite <- (cap_eq Hip). cbn [ring_view q_pos]. lia. }
    set (p := firstn (Z.to_nat (pm_size m)) bytes).
    assert (HGv : G m (firstn (Z.to_nat m') bytes) =
                  if f h p then Ok (pm_size m, (h, p, true)) else Ok (0, (h, p, false))).
    { unfold G. rewrite zlen_firstn by lia. destruct (Z.ltb_spec m' (pm_size m)); [lia|].
      rewrite Ehd. cbv zeta. rewrite slice_0, firstn_firstn_z by lia. reflexivity. }
    rewrite HGv in S2.
    set (acc := f h p) in *.
    set (k := if acc then pm_size m else 0).
    assert (S2' : sim (ring_dequeue_many_with (pb_payload b) (G m))
                      (Ok (qs_dequeue_n (ring_view (pb_payload b)) k, (k, (h, p, acc))))).
    { unfold k. destruct acc; cbn [obind] in S2.
      - destruct (Z.ltb_spec m' (pm_size m)); [lia|]. exact S2.
      - destruct (Z.ltb_spec m' 0); [lia|]. exact S2. }
    clear S2. apply sim_ok in S2'. destruct S2' as (payload1 & Hdq & Hip1 & Hvp1).
    assert (HF : forall pos, F pos m = Ok (acc, (payload1, (h, p, acc)))).
    { intro. unfold F. rewrite Hdq. reflexivity. }
    rewrite HF in S. cbn [obind] in S. apply sim_ok in S. destruct S as (meta1 & He & Him1 & Hvm1).
    rewrite He.
    exists (mkPbuf meta1 payload1), (Some (h, p, acc)). split; [reflexivity|].
    assert (Habs : pb_abs b = (h, p) :: pb_split ms' (skipn (Z.to_nat (pm_size m)) bytes)).
    { unfold pb_abs. rewrite Hms. cbn [pb_split]. rewrite Ehd. reflexivity. }
    assert (Hacc : acc = f h p) by reflexivity. clearbody acc.
    destruct acc.
    + (* accepted: the record and its bytes are removed *)
      assert (Hma : ring_abs meta1 = ms') by (unfold ring_abs; rewrite Hvm1; reflexivity).
      destruct (@drop_head b meta1 payload1 m ms' Hinv Hms Him1 Hma Hip1 Hvp1) as (Hi' & Ha').
      split; [exact Hi'|]. split; [exact Hacc|].
      exists (pb_split ms' (skipn (Z.to_nat (pm_size m)) bytes)). split; [exact Habs|exact Ha'].
    + (* declined: nothing changes *)
      assert (Hma : ring_abs meta1 = ring_abs (pb_meta b)).
      { unfold ring_abs at 1. rewrite Hvm1. reflexivity. }
      assert (Hpa : ring_abs payload1 = ring_abs (pb_payload b)).
      { unfold ring_abs at 1. rewrite Hvp1. reflexivity. }
      assert (Hrd : r_read payload1 = r_read (pb_payload b)).
      { change (r_read payload1) with (q_pos (ring_view payload1)). rewrite Hvp1.
        cbn [qs_dequeue_n q_pos]. change (qs_idx (ring_view (pb_payload b)) k)
          with (pidx (qs_cap (ring_view (pb_payload b))) (r_read (pb_payload b)) 0).
        rewrite <- (cap_eq Hip). apply pidx_0_wf. lia. }
      assert (Hcap : ring_capacity payload1 = ring_capacity (pb_payload b)).
      { rewrite (cap_eq Hip1), Hvp1, qs_dequeue_n_cap, <- (cap_eq Hip); auto.
        unfold qs_len. change (q_q (ring_view (pb_payload b))) with bytes. lia. }
      destruct (@same_views b meta1 payload1 Hinv Him1 Hma Hip1 Hpa Hrd Hcap) as (Hi' & Ha').
      split; [exact Hi'|]. split; [exact Hacc|].
      exists (pb_split ms' (skipn (Z.to_nat (pm_size m)) bytes)). split; [exact Habs|].
      rewrite Ha'. exact Habs.
Qed.

Theorem pb_peek_spec : forall b, pb_inv b ->
  exists b' res, pb_peek b = Ok (b', res) /\ pb_inv b' /\ pb_abs b' = pb_abs b /\
    match res with
    | None => pb_abs b = []
    | Some (h, p) => exists rest, pb_abs b = (h, p) :: rest
    end.
Proof.
  intros b Hinv0. destruct (pb_dequeue_padding_spec Hinv0) as (b1 & Hdp & Hinv & Habs1 & Hhead).
  unfold pb_peek. rewrite Hdp. cbn [obind]. rewrite <- Habs1. clear Hdp Habs1 Hinv0 b.
  rename b1 into b. pose proof Hinv as (Him & Hip & Hlay & Htot & Hpad).
  rewrite sim_get_allocated by (auto; lia). unfold qs_get_allocated.
  fold (ring_abs (pb_meta b)). unfold qs_len. fold (ring_abs (pb_meta b)).
  pose proof (zlen_nonneg (ring_abs (pb_meta b))).
  destruct (Z.ltb_spec (zlen (ring_abs (pb_meta b))) 0); [lia|]. cbn [obind].
  pose proof Him as Himu. unfold ring_inv in Himu. pose proof (len_abs Him) as Hmlen.
  change (qs_idx (ring_view (pb_meta b)) 0)
    with (pidx (qs_cap (ring_view (pb_meta b))) (r_read (pb_meta b)) 0).
  rewrite <- (cap_eq Him), pidx_0_wf by lia.
  destruct (ring_abs (pb_meta b)) as [|m ms'] eqn:Hms.
  - rewrite slice_nil. exists b, None. split; [reflexivity|]. split; [exact Hinv|]. split; [reflexivity|].
    unfold pb_abs. rewrite Hms. reflexivity.
  - rewrite zlen_cons in *. pose proof (zlen_nonneg ms').
    replace (Z.min (Z.min 1 (1 + zlen ms' - 0)) (ring_capacity (pb_meta b) - r_read (pb_meta b))) with 1 by lia.
    change (slice (m :: ms') 0 1) with [m]. cbv iota.
    destruct (pm_header m) as [h|] eqn:Ehd; [|contradiction].
    destruct (head_fits Hinv Hms) as (Hs0 & Hsl & Hsc & _).
    rewrite sim_get_allocated by (auto; lia). unfold qs_get_allocated, qs_len.
    fold (ring_abs (pb_payload b)). pose proof (len_abs Hip) as Hlen.
    destruct (Z.ltb_spec (zlen (ring_abs (pb_payload b))) 0); [pose proof (zlen_nonneg (ring_abs (pb_payload b))); lia|].
    cbn [obind]. pose proof Hip as Hipu. unfold ring_inv in Hipu.
    change (qs_idx (ring_view (pb_payload b)) 0)
      with (pidx (qs_cap (ring_view (pb_payload b))) (r_read (pb_payload b)) 0).
    rewrite <- (cap_eq Hip), pidx_0_wf by lia.
    replace (Z.min (Z.min (pm_size m) (zlen (ring_abs (pb_payload b)) - 0))
               (ring_capacity (pb_payload b) - r_read (pb_payload b))) with (pm_size m) by lia.
    exists b, (Some (h, slice (ring_abs (pb_payload b)) 0 (pm_size m))).
    split; [reflexivity|]. split; [exact Hinv|]. split; [reflexivity|].
    exists (pb_split ms' (skipn (Z.to_nat (pm_size m)) (ring_abs (pb_payload b)))).
    unfold pb_abs. rewrite Hms. cbn [pb_split]. rewrite Ehd. reflexivity.
Qed.
Lemma ring_clear_abs : forall A (r : ring A), ring_inv r ->
  ring_inv (ring_clear r) /\ ring_abs (ring_clear r) = [] /\ r_len (ring_clear r) = 0.
Proof.
  intros A r Hi. destruct (sim_clear Hi) as (Hic & Hv). split; [exact Hic|].
  split; [|reflexivity]. unfold ring_abs. rewrite Hv. reflexivity.
Qed.

Theorem pb_reset_spec : forall b, pb_inv b -> pb_inv (pb_reset b) /\ pb_abs (pb_reset b) = [].
Proof.
  intros b (Him & Hip & _).
  destruct (ring_clear_abs Him) as (Him' & Hma & _). destruct (ring_clear_abs Hip) as (Hip' & Hpa & Hl).
  unfold pb_reset, pb_inv, pb_abs. cbn [pb_meta pb_payload]. rewrite Hma, Hpa, Hl.
  cbn [pb_layout pb_total pb_pad_ok pb_split]. auto 10.
Qed.

Lemma ring_new_abs : forall A (store : list A), ring_abs (ring_new store) = [].
Proof. reflexivity. Qed.

Theorem pb_new_inv : forall mcap pcap, pb_inv (pb_new HT mcap pcap) /\ pb_abs (pb_new HT mcap pcap) = [].
Proof.
  intros. unfold pb_new, pb_inv, pb_abs. cbn [pb_meta pb_payload]. rewrite !ring_new_abs.
  cbn [pb_layout pb_total pb_pad_ok pb_split].
  split; [|reflexivity]. split; [apply ring_new_inv|]. split; [apply ring_new_inv|]. auto.
Qed.

(* an empty packet buffer with at least one metadata slot never refuses a packet that fits its
   payload capacity *)
Lemma pb_make_room_empty : forall b size, pb_inv b -> pb_abs b = [] ->
  1 <= pb_packet_capacity b -> 0 <= size <= pb_payload_capacity b ->
  forall b1, pb_make_room b size <> Ok (b1, true).
Proof.
  intros b size Hinv Habs Hmc Hsz b1 Hmr.
  pose proof (clear_when_empty Hinv) as Hcl. cbv zeta in Hcl.
  pose proof Hinv as (Him & Hip & Hlay & Htot & Hpad).
  unfold pb_abs in Habs. pose proof (pb_split_nil_inv _ _ Habs Hpad) as Hms.
  rewrite Hms in Htot. cbn [pb_total] in Htot.
  assert (Hemp : ring_is_empty (pb_payload b) = true).
  { unfold ring_is_empty, ring_len. rewrite <- Htot. reflexivity. }
  assert (Hnf : ring_is_full (pb_meta b) = false).
  { unfold ring_is_full, ring_window, ring_len. rewrite (len_abs Him), Hms, zlen_nil.
    unfold pb_packet_capacity in Hmc. destruct (Z.eqb_spec (ring_capacity (pb_meta b) - 0) 0); [lia|reflexivity]. }
  unfold pb_make_room, pb_payload_capacity in *.
  rewrite Hnf in Hmr. destruct (Z.ltb_spec (ring_capacity (pb_payload b)) size); [lia|].
  cbn [orb] in Hmr. rewrite Hemp in *.
  destruct Hcl as (_ & _ & _ & Hcap & _ & _ & Hwc & _). destruct (Hwc eq_refl) as (Hw & Hc).
  rewrite Hw, Hc, Hcap in Hmr.
  destruct (Z.ltb_spec (ring_capacity (pb_payload b)) size); [lia|]. discriminate.
Qed.

Theorem pb_empty_accepts : forall b size h, pb_inv b -> pb_abs b = [] ->
  1 <= pb_packet_capacity b -> 0 <= size <= pb_payload_capacity b ->
  (forall w, exists b' old, pb_enqueue b size h w = Ok (b', Some old) /\
     pb_inv b' /\ pb_abs b' = [(h, overlay w old)] /\ zlen old = size) /\
  (forall f, (forall buf, 0 <= snd (f buf) <= size) ->
     exists b' k seen, pb_enqueue_with_infallible b size h f = Ok (b', Some (k, seen)) /\
       pb_inv b' /\ zlen seen = size /\ k = snd (f seen) /\
       pb_abs b' = [(h, firstn (Z.to_nat k) (overlay (fst (f seen)) seen))]).
Proof.
  intros b size h Hinv Habs Hmc Hsz.
  pose proof (pb_make_room_empty Hinv Habs Hmc Hsz) as Hne. split.
  - intro w. destruct (@pb_enqueue_spec b size h w Hinv ltac:(lia)) as (b' & res & He & Hiff & Hres).
    destruct res as [old|].
    + destruct Hres as (Hz & Hi' & Ha'). exists b', old. rewrite Habs in Ha'. auto.
    + destruct (proj1 Hiff eq_refl) as (b1 & Hb1). exfalso. eapply Hne; eauto.
  - intros f Hf.
    destruct (@pb_enqueue_with_infallible_spec b size h f Hinv ltac:(lia) ltac:(intro; apply Hf))
      as [(b' & res & He & Hiff & Hres)|(_ & seen & Hzs & Hlt)].
    + destruct res as [[k seen]|].
      * destruct Hres as (Hz & Hk & Hi' & pl & Hzpl & Ha' & Hpl).
        exists b', k, seen. rewrite Habs in Ha'. cbn [app] in Ha'.
        rewrite Hpl in Ha' by (rewrite Hk; apply Hf). auto 10.
      * destruct (proj1 Hiff eq_refl) as (b1 & Hb1). exfalso. eapply Hne; eauto.
    + pose proof (Hf seen). lia.
Qed.

(* ---------- the abstract queue relation of one operation ---------- *)
Definition pb_op_ok (op : pb_op HT) : Prop :=
  match op with
  | POEnq size _ _ => 0 <= size
  | POEnqInf max _ _ k => 0 <= max /\ 0 <= k
  | _ => True
  end.

Definition pq_rel (l : list (HT * list Z)) (op : pb_op HT)
  (out : option (list Z * option HT * list Z)) (l' : list (HT * list Z)) : Prop :=
  match op with
  | POEnq size h w =>
      (out = None /\ l' = l) \/
      (exists old, out = Some ([size], None, old) /\ zlen old = size /\ l' = l ++ [(h, overlay w old)])
  | POEnqInf max h w k =>
      (out = None /\ l' = l) \/
      (exists seen pl, out = Some ([k; max], None, seen) /\ zlen seen = max /\ zlen pl = k /\
         l' = l ++ [(h, pl)] /\ (k <= max -> pl = firstn (Z.to_nat k) (overlay w seen)))
  | PODeq =>
      (out = None /\ l = [] /\ l' = []) \/
      (exists h p, out = Some ([], Some h, p) /\ l = (h, p) :: l')
  | PODeqWith acc =>
      (out = None /\ l = [] /\ l' = []) \/
      (exists h p rest, out = Some ([b2z acc], Some h, p) /\ l = (h, p) :: rest /\
         l' = if acc then rest else l)
  | POPeek =>
      l' = l /\ ((out = None /\ l = []) \/ (exists h p rest, out = Some ([], Some h, p) /\ l = (h, p) :: rest))
  | POReset => l' = []
  end.

Theorem pb_step_refines : forall b op, pb_inv b -> pb_op_ok op ->
  match pb_step b op with
  | Ok (b', out) => pb_inv b' /\ pq_rel (pb_abs b) op out (pb_abs b')
  | Err _ => False
  | Panic => match op with POEnqInf max _ _ k => max < k | _ => False end
  end.
Proof.
  intros b op Hinv Hok. destruct op; cbn [pb_step pb_op_ok pq_rel] in *.
  - destruct (@pb_enqueue_spec b size h w Hinv Hok) as (b' & res & He & _ & Hres).
    rewrite He. cbn [obind]. destruct res as [old|].
    + destruct Hres as (Hz & Hi' & Ha'). split; [exact Hi'|]. right. exists old. rewrite Hz. auto.
    + subst b'. split; [exact Hinv|]. left. auto.
  - destruct Hok as (Hmax & Hk).
    destruct (@pb_enqueue_with_infallible_spec b max h (fun buf => (overlay w buf, k)) Hinv Hmax
                ltac:(intro; exact Hk)) as [(b' & res & He & _ & Hres)|(He & seen & Hzs & Hlt)].
    + rewrite He. cbn [obind]. destruct res as [[k' seen]|].
      * destruct Hres as (Hz & Hk' & Hi' & pl & Hzpl & Ha' & Hpl). cbn [snd fst] in *. subst k'.
        rewrite (overlay_same (overlay w seen) seen) in Hpl by (rewrite overlay_length; reflexivity).
        split; [exact Hi'|]. right. exists seen, pl. rewrite Hz. auto 10.
      * subst b'. split; [exact Hinv|]. left. auto.
    + rewrite He. cbn [obind]. cbn [snd] in Hlt. exact Hlt.
  - destruct (pb_dequeue_spec Hinv) as (b' & res & He & Hi' & Hres). rewrite He. cbn [obind].
    split; [exact Hi'|]. destruct res as [[h p]|].
    + right. exists h, p. auto.
    + left. destruct Hres. auto.
  - destruct (pb_dequeue_with_spec (fun _ _ => acc) Hinv) as (b' & res & He & Hi' & Hres).
    rewrite He. cbn [obind]. split; [exact Hi'|]. destruct res as [[[h p] a]|].
    + destruct Hres as (Ha & rest & Hl & Hl'). subst a. right. exists h, p, rest.
      split; [reflexivity|]. split; [exact Hl|]. rewrite Hl'. destruct acc; auto.
    + left. destruct Hres. auto.
  - destruct (pb_peek_spec Hinv) as (b' & res & He & Hi' & Ha' & Hres). rewrite He. cbn [obind].
    split; [exact Hi'|]. split; [exact Ha'|]. destruct res as [[h p]|].
    + right. destruct Hres as (rest & Hl). exists h, p, rest. auto.
    + left. auto.
  - destruct (pb_reset_spec Hinv) as (Hi' & Ha'). auto.
Qed.

(* every run that does not hit the callback-misbehaviour panic keeps the invariant *)
Theorem pb_run_inv : forall ops b b', pb_inv b -> Forall pb_op_ok ops ->
  pb_run b ops = Some b' -> pb_inv b'.
Proof.
  induction ops as [|op ops IH]; intros b b' Hinv Hok Hrun; cbn [pb_run] in Hrun.
  - inversion Hrun. subst. exact Hinv.
  - inversion Hok as [|? ? Hop Hops]; subst.
    pose proof (@pb_step_refines b op Hinv Hop) as Hs.
    destruct (pb_step b op) as [[b1 out]|e|]; try discriminate.
    destruct Hs as (Hi1 & _). eapply IH; eauto.
Qed.
End PB.

(* Non-vacuity: a reachable packet buffer whose payload ring has wrapped around with a padding
   record in the middle (the test_padding script of the crate, with distinguishable bytes) *)
Definition c14_pb_example_ops : list (pb_op Z) :=
  [POEnq 6 1 [1; 2; 3; 4; 5; 6]; POEnq 8 2 [11; 12; 13; 14; 15; 16; 17; 18]; PODeq;
   POEnq 4 3 [21; 22; 23; 24]].

Lemma c14_pb_example :
  exists b, pb_run (pb_new Z 4 16) c14_pb_example_ops = Some b /\
    ring_abs (pb_meta b) = [pm_packet 8 2; pm_padding Z 2; pm_packet 4 3] /\
    r_read (pb_payload b) = 6 /\ r_len (pb_payload b) = 14 /\
    pb_abs b = [(2, [11; 12; 13; 14; 15; 16; 17; 18]); (3, [21; 22; 23; 24])] /\
    pb_inv b /\ Forall (@pb_op_ok Z) c14_pb_example_ops.
Proof.
  assert (Hok : Forall (@pb_op_ok Z) c14_pb_example_ops).
  { unfold c14_pb_example_ops. repeat constructor; cbn; lia. }
  destruct (pb_run (pb_new Z 4 16) c14_pb_example_ops) as [b|] eqn:E.
  - exists b. split; [reflexivity|].
    pose proof (@pb_run_inv Z c14_pb_example_ops _ _ (proj1 (pb_new_inv Z 4 16)) Hok E) as Hinv.
    revert E. vm_compute. intro E. inversion E. subst b.
    split; [vm_compute; reflexivity|]. split; [vm_compute; reflexivity|].
    split; [vm_compute; reflexivity|]. split; [vm_compute; reflexivity|].
    split; [exact Hinv|exact Hok].
  - exfalso. revert E. vm_compute. discriminate.
Qed.

Section PBCorollaries.
Variable HT : Type.

(* a refused enqueue leaves the whole state (a fortiori the queued packets) unchanged *)
Lemma pb_refused_unchanged : forall (b b' : pbuf HT) size h,
  pb_inv b -> 0 <= size ->
  (forall w, pb_enqueue b size h w = Ok (b', None) -> b' = b) /\
  (forall f, (forall buf, 0 <= snd (f buf)) ->
     pb_enqueue_with_infallible b size h f = Ok (b', None) -> b' = b).
Proof.
  intros b b' size h Hinv Hsz. split.
  - intros w He. destruct (@pb_enqueue_spec HT b size h w Hinv Hsz) as (b2 & res & He2 & _ & Hres).
    rewrite He in He2. inversion He2; subst. exact Hres.
  - intros f Hf He.
    destruct (@pb_enqueue_with_infallible_spec HT b size h f Hinv Hsz Hf)
      as [(b2 & res & He2 & _ & Hres)|(He2 & _)].
    + rewrite He in He2. inversion He2; subst. exact Hres.
    + rewrite He in He2. discriminate.
Qed.

(* dequeue_with with a declining callback leaves the queue unchanged *)
Lemma pb_dequeue_with_decline_unchanged : forall (b b' : pbuf HT) f res,
  pb_inv b -> (forall h p, f h p = false) ->
  pb_dequeue_with b f = Ok (b', res) -> pb_inv b' /\ pb_abs b' = pb_abs b.
Proof.
  intros b b' f res Hinv Hf He.
  destruct (pb_dequeue_with_spec f Hinv) as (b2 & res2 & He2 & Hi2 & Hres).
  rewrite He in He2. inversion He2; subst. split; [exact Hi2|].
  destruct res2 as [[[h p] acc]|].
  - destruct Hres as (Hacc & rest & Hl & Hl'). rewrite Hf in Hacc. subst acc. congruence.
  - destruct Hres as (Hl & Hl'). congruence.
Qed.
End PBCorollaries.

Lemma c14_pb_invariant : forall (H : Type) mcap pcap (ops : list (pb_op H)) b,
  Forall (@pb_op_ok H) ops -> pb_run (pb_new H mcap pcap) ops = Some b -> pb_inv b.
Proof.
  intros H mcap pcap ops b Hok Hrun.
  exact (@pb_run_inv H ops _ _ (proj1 (pb_new_inv H mcap pcap)) Hok Hrun).
Qed.
