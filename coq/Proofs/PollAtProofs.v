(* Lemmas about Model/PollAt.v (property C13, interface level). *)
From SV Require Import Lib.Base Gen.Consts Model.PollAt.

(* ---------- minimum over optional deadlines ---------- *)

Definition opt_le (now : Z) (a : option Z) : Prop :=
  match a with Some t => t <= now | None => False end.

(* "a is absent or strictly after now" *)
Definition opt_future (now : Z) (a : option Z) : Prop :=
  match a with Some t => now < t | None => True end.

Lemma opt_min_future now a b :
  opt_future now (opt_min a b) <-> opt_future now a /\ opt_future now b.
Proof. destruct a as [x|], b as [y|]; cbn; lia. Qed.

Lemma opt_min_list_future now l :
  opt_future now (opt_min_list l) <-> Forall (opt_future now) l.
Proof.
  induction l as [|a l IH]; cbn [opt_min_list].
  - cbn. split; [constructor | trivial].
  - rewrite opt_min_future, IH. split.
    + intros (H1 & H2). constructor; assumption.
    + intros H. inversion H; subst. split; assumption.
Qed.

Lemma opt_min_list_spec l :
  match opt_min_list l with
  | Some m => In (Some m) l /\ forall x, In (Some x) l -> m <= x
  | None => forall x, ~ In (Some x) l
  end.
Proof.
  induction l as [|a l IH]; cbn [opt_min_list]; [intros x []|].
  destruct a as [x|]; destruct (opt_min_list l) as [m|]; cbn [opt_min].
  - destruct IH as (Hin & Hmin). split.
    + destruct (Z.min_spec x m) as [(_ & ->) | (_ & ->)]; [left; reflexivity | right; exact Hin].
    + intros y [Hy | Hy]; [inversion Hy; lia | specialize (Hmin y Hy); lia].
  - split; [left; reflexivity|]. intros y [Hy | Hy]; [inversion Hy; lia | exfalso; exact (IH y Hy)].
  - destruct IH as (Hin & Hmin). split; [right; exact Hin|].
    intros y [Hy | Hy]; [discriminate | exact (Hmin y Hy)].
  - intros y [Hy | Hy]; [discriminate | exact (IH y Hy)].
Qed.

(* ---------- Interface::poll_at is the least of all reported deadlines ---------- *)

Definition all_deadlines (socks : list pollat) (slaac_enabled : bool) (s : slaac) (now : Z)
  : list (option Z) :=
  map pollat_instant socks ++ (if slaac_enabled then [slaac_poll_at s now] else []).

Lemma opt_min_list_app l1 l2 :
  opt_min_list (l1 ++ l2) = opt_min (opt_min_list l1) (opt_min_list l2).
Proof.
  induction l1 as [|a l1 IH]; cbn [app opt_min_list].
  - destruct (opt_min_list l2); reflexivity.
  - rewrite IH. destruct a, (opt_min_list l1), (opt_min_list l2); cbn; f_equal; lia.
Qed.

Lemma iface_poll_at_is_min socks en s now :
  iface_poll_at false socks en s now = opt_min_list (all_deadlines socks en s now).
Proof.
  unfold iface_poll_at, all_deadlines. rewrite opt_min_list_app. destruct en; cbn [opt_min_list].
  - destruct (slaac_poll_at s now); destruct (opt_min_list (map pollat_instant socks)); reflexivity.
  - destruct (opt_min_list (map pollat_instant socks)); reflexivity.
Qed.

Lemma c13_iface_poll_at_least socks en s now :
  match iface_poll_at false socks en s now with
  | Some m => In (Some m) (all_deadlines socks en s now) /\
              forall x, In (Some x) (all_deadlines socks en s now) -> m <= x
  | None => forall x, ~ In (Some x) (all_deadlines socks en s now)
  end.
Proof. rewrite iface_poll_at_is_min. apply opt_min_list_spec. Qed.

(* ---------- SLAAC ---------- *)

Lemma maintenance_fields s now :
  sl_phase (slaac_maintenance s now) = sl_phase s /\
  sl_retry_rs_at (slaac_maintenance s now) = sl_retry_rs_at s /\
  sl_num_solicitations (slaac_maintenance s now) = sl_num_solicitations s.
Proof. unfold slaac_maintenance. destruct (slaac_sync_required s now); cbn; auto. Qed.

Lemma rs_required_maintenance s now :
  slaac_rs_required (slaac_maintenance s now) now = slaac_rs_required s now.
Proof.
  destruct (maintenance_fields s now) as (H1 & H2 & H3).
  unfold slaac_rs_required. rewrite H1, H2, H3. reflexivity.
Qed.

(* early poll: before the reported deadline no router solicitation is transmitted *)
Lemma c13_slaac_early_poll_silent cp cr s now now' :
  now <= now' -> opt_future now' (slaac_poll_at s now) ->
  snd (slaac_poll cp cr s [] now') = false.
Proof.
  intros Hle Hfut. unfold slaac_poll, slaac_ingress, slaac_rs_egress. cbn [fold_left].
  rewrite rs_required_maintenance.
  destruct (slaac_rs_required s now') eqn:Hreq; [|reflexivity]. exfalso.
  unfold slaac_rs_required in Hreq. unfold slaac_poll_at in Hfut.
  destruct (sl_phase s); try discriminate;
    (destruct (0 <? sl_num_solicitations s) eqn:Hn; [cbn in Hfut; lia | lia]).
Qed.

(* contrapositive: a solicitation that is due is never later than the reported deadline *)
Lemma c13_slaac_timer_not_delayed cp cr s now now' :
  now <= now' -> snd (slaac_poll cp cr s [] now') = true ->
  exists t, slaac_poll_at s now = Some t /\ t <= now'.
Proof.
  intros Hle Hsent. destruct (slaac_poll_at s now) as [t|] eqn:Hpa.
  - exists t. split; [reflexivity|].
    destruct (Z_le_gt_dec t now') as [H | H]; [exact H|]. exfalso.
    assert (Hs : snd (slaac_poll cp cr s [] now') = false).
    { apply (c13_slaac_early_poll_silent cp cr s now now' Hle). rewrite Hpa. cbn. lia. }
    congruence.
  - exfalso. assert (Hs : snd (slaac_poll cp cr s [] now') = false).
    { apply (c13_slaac_early_poll_silent cp cr s now now' Hle). rewrite Hpa. exact I. }
    congruence.
Qed.

Lemma valid_deadlines_future l now : Forall (opt_future now) (valid_deadlines l now).
Proof.
  unfold valid_deadlines. induction l as [|e l IH]; cbn [map]; constructor; [|exact IH].
  unfold is_valid. destruct (now <? snd e) eqn:H; cbn; [lia | exact I].
Qed.

Lemma expiries_future_lists p r now :
  opt_future now (opt_min (opt_min_list (valid_deadlines p now))
                          (opt_min_list (valid_deadlines r now))).
Proof.
  apply opt_min_future. split; apply opt_min_list_future; apply valid_deadlines_future.
Qed.

Lemma expiries_future s now :
  opt_future now (opt_min (opt_min_list (valid_deadlines (sl_prefix s) now))
                          (opt_min_list (valid_deadlines (sl_routes s) now))).
Proof. apply expiries_future_lists. Qed.

(* whenever no solicitation is due, the deadline is absent or strictly in the future *)
Lemma poll_at_future_when_not_required s now :
  slaac_rs_required s now = false -> opt_future now (slaac_poll_at s now).
Proof.
  unfold slaac_rs_required, slaac_poll_at. intros Hreq.
  destruct (sl_phase s); try exact I; try apply expiries_future;
    (destruct (0 <? sl_num_solicitations s) eqn:Hn; [cbn; lia | apply expiries_future]).
Qed.

Lemma interval_positive : 0 < slaac_RTR_SOLICITATION_INTERVAL.
Proof. reflexivity. Qed.

(* non-spinning: after ANY poll the SLAAC deadline is absent or strictly later than that poll *)
Lemma c13_slaac_no_spin cp cr s ras now :
  opt_future now (slaac_poll_at (fst (slaac_poll cp cr s ras now)) now).
Proof.
  unfold slaac_poll, slaac_rs_egress.
  set (s1 := slaac_ingress cp cr (slaac_maintenance s now) ras now).
  destruct (slaac_rs_required s1 now) eqn:Hreq; cbn [fst].
  - (* a solicitation was sent: retry is now + interval, or none remain *)
    unfold slaac_rs_required in Hreq. unfold slaac_rs_sent, slaac_poll_at.
    pose proof interval_positive as Hint.
    destruct (sl_phase s1) eqn:Hph; try discriminate;
      (destruct (sl_retry_rs_at s1 <=? now) eqn:Hr; [|lia];
       destruct (sl_num_solicitations s1 =? 0) eqn:Hz; [lia|];
       cbn [sl_phase sl_num_solicitations sl_retry_rs_at sl_prefix sl_routes];
       destruct (0 <? sl_num_solicitations s1 - 1); [cbn; lia | apply expiries_future_lists]).
  - apply poll_at_future_when_not_required. exact Hreq.
Qed.

(* at most MAX_RTR_SOLICITATIONS solicitations are ever sent: the counter never goes negative *)
Definition slaac_counter_ok (s : slaac) : Prop :=
  0 <= sl_num_solicitations s <= slaac_MAX_RTR_SOLICITATIONS.

Lemma process_adv_fields cp cr s r l p now :
  sl_retry_rs_at (slaac_process_advertisement cp cr s r l p now) = sl_retry_rs_at s /\
  sl_num_solicitations (slaac_process_advertisement cp cr s r l p now) = sl_num_solicitations s.
Proof.
  unfold slaac_process_advertisement.
  destruct p as [(k, v)|];
    repeat match goal with |- context [if ?b then _ else _] => destruct b end; cbn; auto.
Qed.

Lemma ingress_fields cp cr ras : forall s now,
  sl_retry_rs_at (slaac_ingress cp cr s ras now) = sl_retry_rs_at s /\
  sl_num_solicitations (slaac_ingress cp cr s ras now) = sl_num_solicitations s.
Proof.
  unfold slaac_ingress. induction ras as [|((r, l), p) ras IH]; intros s now; cbn [fold_left]; [auto|].
  destruct (IH (slaac_process_advertisement cp cr s r l p now) now) as (H1 & H2).
  destruct (process_adv_fields cp cr s r l p now) as (H3 & H4).
  rewrite H1, H2, H3, H4. auto.
Qed.

Lemma c13_slaac_counter cp cr s ras now :
  slaac_counter_ok s ->
  let '(s', sent) := slaac_poll cp cr s ras now in
  slaac_counter_ok s' /\
  sl_num_solicitations s' = sl_num_solicitations s - (if sent then 1 else 0).
Proof.
  intros Hok. unfold slaac_poll, slaac_rs_egress.
  set (s1 := slaac_ingress cp cr (slaac_maintenance s now) ras now).
  assert (Hn : sl_num_solicitations s1 = sl_num_solicitations s).
  { unfold s1. destruct (ingress_fields cp cr ras (slaac_maintenance s now) now) as (_ & ->).
    apply maintenance_fields. }
  unfold slaac_counter_ok in *.
  destruct (slaac_rs_required s1 now) eqn:Hreq.
  - unfold slaac_rs_required in Hreq. unfold slaac_rs_sent.
    destruct (sl_phase s1); try discriminate;
      (destruct (sl_retry_rs_at s1 <=? now); [|lia];
       destruct (sl_num_solicitations s1 =? 0) eqn:Hz; [lia|]; cbn; lia).
  - rewrite Hn. lia.
Qed.

(* ---------- composition at the interface ---------- *)

(* a component (socket after Meta, or SLAAC) reports a deadline and, when polled at an
   instant, either transmits or not.  [comp_sound now c]: it transmits at [now] only if its
   reported deadline has been reached. *)
Definition comp_sound (now : Z) (c : option Z * bool) : Prop :=
  snd c = true -> opt_le now (fst c).

Lemma c13_iface_early_poll_silent (comps : list (option Z * bool)) now' :
  opt_future now' (opt_min_list (map fst comps)) ->
  Forall (comp_sound now') comps ->
  Forall (fun c => snd c = false) comps.
Proof.
  intros Hfut Hs. apply opt_min_list_future in Hfut.
  induction comps as [|c comps IH]; [constructor|].
  inversion Hs; subst. cbn [map] in Hfut. inversion Hfut; subst.
  constructor; [|apply IH; assumption].
  destruct (snd c) eqn:Hc; [|reflexivity]. exfalso.
  match goal with H : comp_sound _ _ |- _ => specialize (H Hc) end.
  destruct (fst c); cbn in *; lia.
Qed.

Lemma c13_iface_no_spin socks en s now :
  Forall (fun p => opt_future now (pollat_instant p)) socks ->
  (en = true -> opt_future now (slaac_poll_at s now)) ->
  opt_future now (iface_poll_at false socks en s now).
Proof.
  intros Hs Hsl. unfold iface_poll_at.
  assert (H1 : opt_future now (opt_min_list (map pollat_instant socks))).
  { apply opt_min_list_future. induction Hs; cbn [map]; constructor; assumption. }
  destruct en; [|exact H1]. apply opt_min_future. split; [exact H1 | apply Hsl; reflexivity].
Qed.

Lemma c13_poll_delay pa now :
  match iface_poll_delay pa now with
  | Some d => 0 <= d /\ (0 < d <-> opt_future now pa /\ pa <> None) /\
              (forall t, pa = Some t -> now < t -> now + d = t)
  | None => pa = None
  end.
Proof.
  unfold iface_poll_delay. destruct pa as [t|]; [|reflexivity].
  destruct (now <? t) eqn:H; cbn.
  - split; [lia|]. split; [split; [intros _; split; [lia | discriminate] | lia]|].
    intros t0 Ht; inversion Ht; lia.
  - split; [lia|]. split; [split; [lia | intros (H1 & _); lia]|].
    intros t0 Ht; inversion Ht; lia.
Qed.

(* non-vacuity: a concrete run — three solicitations 4 s apart, then silence; an RA in between
   moves to Maintaining with an expiry deadline *)
Definition c13_example_run : list (Z * bool * option Z) :=
  let cp := cfg_IFACE_MAX_PREFIX_COUNT in
  let cr := cfg_IFACE_MAX_ROUTE_COUNT in
  let step (acc : slaac * list (Z * bool * option Z)) (ev : Z * list ra) :=
    let '(s, out) := acc in
    let '(now, ras) := ev in
    let '(s', sent) := slaac_poll cp cr s ras now in
    (s', out ++ [(now, sent, iface_poll_at false [] true s' now)]) in
  snd (fold_left step
         [(0, []); (4000000, []); (8000000, []); (12000000, []); (13000000, [(1, 30000000, Some (1, 60000000))])]
         (slaac_new, [])).

Lemma c13_example :
  c13_example_run =
  [(0, true, Some 4000000); (4000000, true, Some 8000000); (8000000, true, None);
   (12000000, false, None); (13000000, false, Some 43000000)].
Proof. vm_compute. reflexivity. Qed.
