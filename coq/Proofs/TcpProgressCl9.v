(* C02 (liveness half): FROM net_init TO BOTH CLOSED ON ONE RELIABLE SCHEDULE - the composition of
   transfer_zw_from_net_init (Proofs/TcpProgressZw6.v: handshake, every octet written delivered, zero windows
   included) with orderly_close_completes (Proofs/TcpProgressCl7.v).  The schedule is
       evsD ++ NClose SA :: evs1 ++ NClose SB :: evs2
   reliable from net_init; evsD is the one-way workload, then A closes, B closes once it is in CLOSE-WAIT.
   What joins the two theorems is ONE premise about ONE state: [close_start] at the state right after A's
   close() - the connection is quiet there (everything written delivered and acknowledged, nothing tracked
   on the channels).  That the connection BECOMES quiet after the last ACK is not derived here.
   NON-VACUITY: transfer_then_close_applies - handshake, 12 octets through an 8-octet window that closes in
   the middle, close of A, close of B, TIME-WAIT, both CLOSED; every premise decided by a sound procedure. *)
From SV Require Import Lib.Base Gen.Consts.
From SV Require Import Model.Seq32 Model.Assembler Model.TcpBuf Model.TcpTypes Model.Tcp Model.TcpNet.
From SV Require Import Proofs.TcpSendBase Proofs.TcpLiveBase Proofs.TcpLiveProofs Proofs.TcpLiveMore
  Proofs.TcpLiveProgress.
From SV Require Import Proofs.TcpNetBase.
From SV Require Proofs.TcpNetInv.
From SV Require Import Proofs.TcpProgressBase Proofs.TcpProgressFrame Proofs.TcpProgressCtl Proofs.TcpProgressRecv
  Proofs.TcpProgressSend Proofs.TcpProgressNet Proofs.TcpProgressData Proofs.TcpProgressAck
  Proofs.TcpProgressAll Proofs.TcpProgressSafe Proofs.TcpProgressHs Proofs.TcpProgressHsD
  Proofs.TcpProgressHsNet Proofs.TcpProgressHsInit Proofs.TcpProgressHsLive Proofs.TcpProgressHsLive2
  Proofs.TcpProgressExample Proofs.TcpProgressWitness Proofs.TcpProgressSafeWitness Proofs.TcpProgressZwDup
  Proofs.TcpProgressZw1 Proofs.TcpProgressZw2 Proofs.TcpProgressZw3 Proofs.TcpProgressZwWitness
  Proofs.TcpProgressZw4 Proofs.TcpProgressZw5 Proofs.TcpProgressZw6 Proofs.TcpProgressZwWitness3
  Proofs.TcpProgressCl1 Proofs.TcpProgressCl2 Proofs.TcpProgressCl3 Proofs.TcpProgressCl4 Proofs.TcpProgressCl5
  Proofs.TcpProgressCl6 Proofs.TcpProgressCl7 Proofs.TcpProgressCl8.

Lemma reliable_prefix Dt Da st a b st1 :
  net_run st a = Ok st1 -> reliable_schedule Dt Da st (a ++ b) ->
  reliable_schedule Dt Da st a /\
  fair_run Dt Da (fa_run Dt Da (fa_init Dt Da st) st a) st1 b /\
  once_run Dt Da (fa_run Dt Da (fa_init Dt Da st) st a) st1 b.
Proof.
  intros Hr ((H1 & H2 & H3 & Hf) & Ho).
  destruct (fair_run_app Dt Da a b _ st st1 Hr Hf) as (Fa & Fb).
  destruct (once_run_app Dt Da a b _ st st1 Hr Ho) as (Oa & Ob).
  split; [split; [split; [exact H1|]; split; [exact H2|]; split; [exact H3 | exact Fa] | exact Oa]|].
  split; assumption.
Qed.

Theorem transfer_then_close_from_net_init Dt Da Dack ca cb st0 tA X Y MA MB dk T0 :
  forall evsD evs1 evs2 stD stC st_m st',
  start_ok Dack ca cb st0 -> 2 * Dt < tcp_RTTE_MIN_RTO * 1000 ->
  reliable_schedule Dt Da st0 (evsD ++ NClose SA :: evs1 ++ NClose SB :: evs2) ->
  (* the data phase *)
  Forall (app_ev SA) evsD -> net_run st0 evsD = Ok stD ->
  (forall z, l_len (ep_written (net_get stD z)) < 2 ^ 30) ->
  run_all (zregime Dack) st0 evsD -> net_now st0 SA + 3 * Dt < net_now stD SA ->
  (* A closes; the connection is quiet *)
  net_step stD (NClose SA) = Ok stC ->
  close_start tA X Y MA MB Da dk T0 (fa_run Dt Da (fa_init Dt Da st0) st0 (evsD ++ [NClose SA])) stC ->
  tuple_nz tA -> 0 <= X < 4294967296 -> 0 <= Y < 4294967296 ->
  match MB with Some m => seq_gt m Y = false | None => True end -> mlim MB Y ->
  (* B closes in CLOSE-WAIT *)
  Forall (cl_ev SA false) evs1 -> net_run stC evs1 = Ok st_m -> T0 + 2 * Dt < net_now st_m SA ->
  net_run st_m (NClose SB :: evs2) = Ok st' ->
  net_now st_m SA + 3 * Dt + tcp_CLOSE_DELAY < net_now st' SA ->
  (exists pre post st1,
     evsD = pre ++ post /\ net_run st0 pre = Ok st1 /\ net_run st1 post = Ok stD /\
     (forall z, s_state (net_sock st1 z) = Established) /\ net_now st1 SA <= net_now st0 SA + 3 * Dt /\
     forall L0 n,
       L0 <= l_len (ep_written (net_get st1 SA)) ->
       Z.max 0 (L0 - una_off (net_get st1 SA)) + Z.max 0 (L0 - read_off (net_get st1 SB)) <= Z.of_nat n ->
       net_now st1 SA + Z.of_nat n * Wz Dt Da < net_now stD SA ->
       exists p1 p2 st2, post = p1 ++ p2 /\ net_run st1 p1 = Ok st2 /\ net_run st2 p2 = Ok stD /\
                         L0 <= read_off (net_get st2 SB)) /\
  (exists pre post st_c,
     evs2 = pre ++ post /\ net_run st_m (NClose SB :: pre) = Ok st_c /\ net_run st_c post = Ok st' /\
     both_closed st_c).
Proof.
  intros evsD evs1 evs2 stD stC st_m st' Hstart HDt2 Hrel Happ HrD Hsz Hreg HlD HsC Hcs Hnz HX HY HMB HMB2
         HE1 Hr1 Hp1 Hr2 Hp2.
  pose proof Hrel as ((HDt & _) & _).
  destruct (reliable_prefix Dt Da st0 evsD _ stD HrD Hrel) as (HrelD & _ & _).
  split; [exact (transfer_zw_from_net_init Dt Da Dack ca cb st0 evsD stD Hstart HrelD Happ HrD Hsz Hreg HlD)|].
  assert (HrDC : net_run st0 (evsD ++ [NClose SA]) = Ok stC).
  { apply (net_run_app evsD [NClose SA] st0 stD stC HrD). cbn [net_run]. rewrite HsC. reflexivity. }
  assert (Hrel' : reliable_schedule Dt Da st0 ((evsD ++ [NClose SA]) ++ evs1 ++ NClose SB :: evs2))
    by (rewrite <- app_assoc; exact Hrel).
  destruct (reliable_prefix Dt Da st0 _ _ stC HrDC Hrel') as (_ & Hf & Ho).
  exact (orderly_close_completes tA X Y MA MB Dt Da dk HDt HDt2 Hnz HX HY HMB HMB2 T0 evs1 evs2 _ stC st_m st'
           Hcs HE1 Hf Ho Hr1 Hp1 Hr2 Hp2).
Qed.

(* ---------------------------------------------------------------------------------------- *)
(* non-vacuity                                                                               *)
(* ---------------------------------------------------------------------------------------- *)
Notation sz st z := (net_sock st z).

Definition e2e_check (ca cb : ep_config) (evsD evs1 evs2 : list net_event) (Dt Da T0 : Z) : bool :=
  zfull_check ca cb evsD Dt Da &&
  match net_init ca cb with
  | Ok st0 =>
      let all := evsD ++ NClose SA :: evs1 ++ NClose SB :: evs2 in
      fair_runb Dt Da (fa_init Dt Da st0) st0 all && once_runb Dt Da (fa_init Dt Da st0) st0 all &&
      (2 * Dt <? tcp_RTTE_MIN_RTO * 1000) && forallb cl_evb evs1 &&
      match net_run st0 evsD with
      | Ok stD =>
          match net_step stD (NClose SA) with
          | Ok stC =>
              match s_tuple (sz stC SA) with
              | Some tA =>
                  close_startb tA T0 (fa_run Dt Da (fa_init Dt Da st0) st0 (evsD ++ [NClose SA])) stC &&
                  match net_run stC evs1 with
                  | Ok st_m =>
                      (T0 + 2 * Dt <? net_now st_m SA) &&
                      match net_run st_m (NClose SB :: evs2) with
                      | Ok st' => net_now st_m SA + 3 * Dt + tcp_CLOSE_DELAY <? net_now st' SA
                      | _ => false
                      end
                  | _ => false
                  end
              | None => false
              end
          | _ => false
          end
      | _ => false
      end
  | _ => false
  end.

Lemma e2e_package ca cb evsD evs1 evs2 Dt Da Dack T0 L n :
  cfg_good ca -> cfg_good cb -> cfg_plain ca -> cfg_plain cb -> c_addr ca <> 0 ->
  match c_ack_delay cb with Some d => 0 <= d <= Dack | None => True end ->
  e2e_check ca cb evsD evs1 evs2 Dt Da T0 = true ->
  exists st0 stD st_m st',
    start_ok Dack ca cb st0 /\
    reliable_schedule Dt Da st0 (evsD ++ NClose SA :: evs1 ++ NClose SB :: evs2) /\
    net_run st0 evsD = Ok stD /\ net_run stD (NClose SA :: evs1) = Ok st_m /\
    net_run st_m (NClose SB :: evs2) = Ok st' /\
    (exists pre post st1,
       evsD = pre ++ post /\ net_run st0 pre = Ok st1 /\ net_run st1 post = Ok stD /\
       (forall z, s_state (net_sock st1 z) = Established) /\
       (L <= l_len (ep_written (net_get st1 SA)) ->
        Z.max 0 (L - una_off (net_get st1 SA)) + Z.max 0 (L - read_off (net_get st1 SB)) <= Z.of_nat n ->
        net_now st1 SA + Z.of_nat n * Wz Dt Da < net_now stD SA ->
        exists p1 p2 st2, post = p1 ++ p2 /\ net_run st1 p1 = Ok st2 /\ net_run st2 p2 = Ok stD /\
                          L <= read_off (net_get st2 SB))) /\
    (exists pre post st_c,
       evs2 = pre ++ post /\ net_run st_m (NClose SB :: pre) = Ok st_c /\ net_run st_c post = Ok st' /\
       both_closed st_c).
Proof.
  intros Ga Gb Pa Pb Haddr Hdel H. unfold e2e_check in H.
  apply andb_true_iff in H. destruct H as (Hz & H). unfold zfull_check in Hz.
  destruct (net_init ca cb) as [st0|e|] eqn:Ei; try discriminate.
  apply andb_true_iff in Hz. destruct Hz as (Hz & Hend).
  apply andb_true_iff in Hz. destruct Hz as (Hz & Hd2).
  apply andb_true_iff in Hz. destruct Hz as (Hz & Hd1).
  apply andb_true_iff in Hz. destruct Hz as (Hz & Hzr).
  apply andb_true_iff in Hz. destruct Hz as (Hz & _).
  apply andb_true_iff in Hz. destruct Hz as (Hz & _).
  apply andb_true_iff in Hz. destruct Hz as (Hz & Ho).
  apply andb_true_iff in Hz. destruct Hz as (Hst & Hpa).
  cbv zeta in H.
  apply andb_true_iff in H. destruct H as (H & Hrest).
  apply andb_true_iff in H. destruct H as (H & Hcl).
  apply andb_true_iff in H. destruct H as (H & HDt2).
  apply andb_true_iff in H. destruct H as (Hf & Honce).
  destruct (net_run st0 evsD) as [stD|e|] eqn:Es; try discriminate.
  apply andb_true_iff in Hend. destruct Hend as (Hend & Hsb).
  apply andb_true_iff in Hend. destruct Hend as (Hclk & Hsa).
  destruct (net_step stD (NClose SA)) as [stC|e|] eqn:EC; try discriminate.
  destruct (s_tuple (sz stC SA)) as [tA|] eqn:Et; try discriminate.
  apply andb_true_iff in Hrest. destruct Hrest as (Hcs & Hrest).
  destruct (net_run stC evs1) as [st_m|e|] eqn:E1; try discriminate.
  apply andb_true_iff in Hrest. destruct Hrest as (Hc1 & Hrest).
  destruct (net_run st_m (NClose SB :: evs2)) as [st'|e|] eqn:E2; try discriminate.
  apply Z.leb_le in Hd1, Hd2. apply Z.ltb_lt in Hclk, Hsa, Hsb, HDt2, Hc1, Hrest.
  assert (Hstart : start_ok Dack ca cb st0) by (unfold start_ok; auto 10).
  assert (Hrel : reliable_schedule Dt Da st0 (evsD ++ NClose SA :: evs1 ++ NClose SB :: evs2)).
  { split; [|exact (proj1 (once_runb_iff _ _ _ _ _) Honce)].
    split; [lia|]. split; [lia|]. split; [apply opts_okb_sound; exact Ho | apply fair_runb_sound; exact Hf]. }
  pose proof (run_zregimeb_sound Dack evsD st0 Hzr) as Hzz.
  assert (Hsz : forall z, l_len (ep_written (net_get stD z)) < 2 ^ 30) by (intros z; destruct z; cbn [net_get] in *; lia).
  assert (HrDC : net_run st0 (evsD ++ [NClose SA]) = Ok stC).
  { apply (net_run_app evsD [NClose SA] st0 stD stC Es). cbn [net_run]. rewrite EC. reflexivity. }
  set (faC := fa_run Dt Da (fa_init Dt Da st0) st0 (evsD ++ [NClose SA])) in *.
  assert (HN : NI stC).
  { apply reach_NI. exists ca, cb, st0, (evsD ++ [NClose SA]). auto. }
  assert (Hsy : dl_sync Da faC stC).
  { assert (Hrel' : reliable_schedule Dt Da st0 ((evsD ++ [NClose SA]) ++ evs1 ++ NClose SB :: evs2))
      by (rewrite <- app_assoc; exact Hrel).
    destruct (reliable_prefix Dt Da st0 _ _ stC HrDC Hrel') as (((_ & _ & _ & HfDC) & _) & _).
    exact (dl_sync_run Dt Da _ _ st0 stC (fa_init_sync Dt Da st0) HfDC HrDC). }
  destruct (close_startb_sound tA T0 Da faC stC HN Hsy Hcs) as (Hstart2 & Hnz & HX & HY & HMB & HMB2).
  destruct (transfer_then_close_from_net_init Dt Da Dack ca cb st0 tA _ _ _ _ _ T0 evsD evs1 evs2 stD stC st_m st'
              Hstart HDt2 Hrel (app_evb_sound SA _ Hpa) Es Hsz Hzz Hclk EC Hstart2 Hnz HX HY HMB HMB2
              (cl_evb_sound _ Hcl) E1 Hc1 E2 Hrest) as (HD & HC).
  exists st0, stD, st_m, st'. split; [exact Hstart|]. split; [exact Hrel|]. split; [exact Es|].
  split; [cbn [net_run]; rewrite EC; cbn [obind]; exact E1|]. split; [exact E2|].
  split; [|exact HC].
  destruct HD as (pre & post & st1 & E & Hp1 & Hp2 & Hest & _ & HL).
  exists pre, post, st1. split; [exact E|]. split; [exact Hp1|]. split; [exact Hp2|]. split; [exact Hest|].
  exact (HL L n).
Qed.

(* B closes when A's FIN has been acknowledged; TIME-WAIT runs out after 10 s *)
Definition e2e_evs1 : list net_event := [NPoll SA true; NDeliver SB 3; NPoll SB true; NDeliver SA 5; NTick 20000].
Definition e2e_evs2 : list net_event :=
  [NPoll SB true; NDeliver SA 6; NPoll SA true; NDeliver SB 4; NTick 10000000; NPoll SA true; NTick 100000].

Lemma e2e_check_ok : e2e_check zcfg_a zcfg_b zw_full_sched e2e_evs1 e2e_evs2 5000 5000 4400000000 = true.
Proof. vm_compute. reflexivity. Qed.

(* handshake, 12 octets through an 8-octet window (it closes in the middle), every octet read by B's
   application, A closes, B closes, TIME-WAIT expires: both CLOSED - on one reliable schedule from net_init,
   every premise of the composed theorem checked *)
Theorem transfer_then_close_applies :
  exists st0 stD st_m st',
    start_ok 10000 zcfg_a zcfg_b st0 /\
    reliable_schedule 5000 5000 st0 (zw_full_sched ++ NClose SA :: e2e_evs1 ++ NClose SB :: e2e_evs2) /\
    net_run st0 zw_full_sched = Ok stD /\ net_run stD (NClose SA :: e2e_evs1) = Ok st_m /\
    net_run st_m (NClose SB :: e2e_evs2) = Ok st' /\
    (exists pre post st1,
       zw_full_sched = pre ++ post /\ net_run st0 pre = Ok st1 /\ net_run st1 post = Ok stD /\
       (forall z, s_state (net_sock st1 z) = Established) /\
       (12 <= l_len (ep_written (net_get st1 SA)) ->
        Z.max 0 (12 - una_off (net_get st1 SA)) + Z.max 0 (12 - read_off (net_get st1 SB)) <= Z.of_nat 24 ->
        net_now st1 SA + Z.of_nat 24 * Wz 5000 5000 < net_now stD SA ->
        exists p1 p2 st2, post = p1 ++ p2 /\ net_run st1 p1 = Ok st2 /\ net_run st2 p2 = Ok stD /\
                          12 <= read_off (net_get st2 SB))) /\
    (exists pre post st_c,
       e2e_evs2 = pre ++ post /\ net_run st_m (NClose SB :: pre) = Ok st_c /\ net_run st_c post = Ok st' /\
       both_closed st_c).
Proof.
  destruct zcfg_good as (Ga & Gb).
  apply (e2e_package zcfg_a zcfg_b zw_full_sched e2e_evs1 e2e_evs2 5000 5000 10000 4400000000 12 24 Ga Gb);
    try exact e2e_check_ok.
  - split; reflexivity.
  - split; reflexivity.
  - cbn. lia.
  - cbn. exact I.
Qed.
