(* C02 (liveness half), quiescence, layer 1: AN ESTABLISHED SOCKET WITH NOTHING TO SEND, at socket level.
     disp_est_ack    it owes an ACK whose delay has expired, or a window update is due: a bare ACK goes out
                     (numbered SND.NXT, acknowledging RCV.NXT, advertising the current window); afterwards
                     nothing is owed and no window update is due
     disp_est_wait   nothing is due (an owed ACK may still be delayed): nothing is sent, nothing changes
     est_lsn_keep    whatever segment it processes, SND.UNA stays (the only acceptable acknowledgment number
                     is SND.UNA itself)
     qsock / clean   the view of such a socket; clean = nothing owed, no delayed-ACK timer, no update due *)
From SV Require Import Lib.Base Gen.Consts.
From SV Require Import Model.Seq32 Model.Assembler Model.TcpBuf Model.TcpTypes Model.Tcp.
From SV Require Import Proofs.AssemblerProofs Proofs.TcpRecvBase Proofs.TcpRecvWindow
  Proofs.TcpRecvPayload Proofs.TcpRecvInv Proofs.TcpRecvProcess.
From SV Require Proofs.TcpSendBase Proofs.TcpRecvDispatch.
From SV Require Proofs.TcpLiveBase Proofs.TcpLiveProofs.
From SV Require Import Proofs.TcpProgressFrame Proofs.TcpProgressCtl Proofs.TcpProgressHs Proofs.TcpProgressHsD
  Proofs.TcpProgressCl1 Proofs.TcpProgressCl2.

Lemma est_prelude cx s t ok s' res tags :
  ctl_sock cx s t -> s_state s = Established -> s_remote_last_seq s = s_local_seq_no s -> s_timer s = TIdle None ->
  tcp_dispatch cx s ok = Ok (s', res, tags) ->
  exists q t1, q = LP.dt_pre cx s /\ cveq q s /\ ctl_sock cx q t /\ tcp_seq_to_transmit cx q = Ok false /\
               disp_rest cx q t ok t1 = Ok (s', res, tags).
Proof.
  intros K Hst Hfl Htm H.
  rewrite (dispatch_unfold cx s t ok (k_tuple _ _ _ K) (k_addr _ _ _ K)) in H.
  apply obind_ok_inv in H. destruct H as ((s1 & t1) & H1 & H).
  assert (E : s1 = LP.dt_pre cx s).
  { apply (dt_notdue cx s s1 t1 (k_to _ _ _ K)); [rewrite Htm; reflexivity | exact H1]. }
  subst s1. pose proof (dt_pre_cveq cx s) as V.
  pose proof (cveq_ctl_sock _ _ _ _ V K) as K1.
  exists (LP.dt_pre cx s), t1. split; [reflexivity|]. split; [exact V|]. split; [exact K1|]. split; [|exact H].
  destruct V as (E1 & E2 & E3 & E4 & E5 & E6 & _).
  rewrite (ctl_stt cx _ t K1); [rewrite E1, Hst; reflexivity | rewrite E1, Hst; exact I | left; rewrite E6, E5; exact Hfl].
Qed.

Theorem disp_est_ack cx s t s' res tags :
  ctl_sock cx s t -> s_state s = Established -> s_remote_last_seq s = s_local_seq_no s -> s_timer s = TIdle None ->
  (tcp_ack_to_transmit s && tcp_delayed_ack_expired s (cx_now cx) = true \/ tcp_window_to_update s = Ok true) ->
  tcp_dispatch cx s true = Ok (s', res, tags) ->
  exists p, res = DSent p /\ ack_sent cx s s' t p.
Proof.
  intros K Hst Hfl Htm Htrig H.
  destruct (est_prelude cx s t true s' res tags K Hst Hfl Htm H) as (q & t1 & _ & V & K1 & Hstt & Hr).
  pose proof V as (E1 & E2 & E3 & E4 & E5 & E6 & E7 & E8 & E9 & E10 & E11 & E12).
  pose proof (rxv_eq_window_start _ _ E9) as Hws. pose proof (rxv_eq_scaled_window _ _ E9) as Hsw.
  assert (Hflq : s_remote_last_seq q = s_local_seq_no q) by (rewrite E6, E5; exact Hfl).
  assert (Hgo : exists t2, tcp_dispatch_decide cx q = Ok (q, true, t2)).
  { unfold tcp_dispatch_decide. rewrite Hstt. cbn [obind].
    assert (Ea : tcp_ack_to_transmit q && tcp_delayed_ack_expired q (cx_now cx) =
                 tcp_ack_to_transmit s && tcp_delayed_ack_expired s (cx_now cx)).
    { unfold tcp_ack_to_transmit, tcp_delayed_ack_expired. destruct E9 as (_ & _ & _ & _ & R5 & _).
      destruct E10 as (_ & A). rewrite R5, Hws, A. reflexivity. }
    assert (Ew : tcp_window_to_update q = tcp_window_to_update s).
    { unfold tcp_window_to_update, tcp_last_scaled_window, tcp_scaled_window.
      destruct E9 as (_ & R2 & _ & R4 & R5 & R6 & R7). rewrite E12, E1, R2, R4, R5, R6, R7. reflexivity. }
    rewrite Ea, Ew. destruct Htrig as [-> | Hw]; [eexists; reflexivity|].
    destruct (tcp_ack_to_transmit s && tcp_delayed_ack_expired s (cx_now cx)); [eexists; reflexivity|].
    rewrite Hw. cbn [obind]. eexists. reflexivity. }
  destruct Hgo as (t2 & Hgo). unfold disp_rest in Hr. rewrite Hgo in Hr. cbn [obind negb] in Hr.
  apply obind_ok_inv in Hr. destruct Hr as (((((s3 & o) & z) & k) & t3) & Hb & Hr).
  destruct (build_ctl _ _ _ _ _ _ _ _ Hb K1) as (-> & -> & -> & repr & -> & B1 & B2 & B3 & B4 & B5 & B6 & B7).
  { rewrite E1, Hst. right. right. right. right. right. reflexivity. }
  { left. exact Hflq. } { rewrite E2, Htm. reflexivity. } { rewrite E2, Htm. reflexivity. }
  assert (Hwf : want_fin (s_state q) = false) by (rewrite E1, Hst; reflexivity).
  rewrite Hwf in B3, B5. cbn [negb] in Hr.
  assert (Hsl : repr_segment_len repr = 0) by (unfold repr_segment_len; rewrite B3, B4; reflexivity).
  pose proof (finish_ctl cx q repr) as F. cbv zeta in F.
  destruct (tcp_dispatch_finish cx q repr false false) as (s4, t4). cbn [fst] in F.
  inversion Hr; subst s' res tags; clear Hr.
  destruct F as (F1 & F2 & F3 & F4 & F5 & F6 & F7 & F8 & F9 & F10 & F11 & F12 & F13 & _).
  { rewrite E1, Hst. discriminate. } { exact (k_ka _ _ _ K1). } { rewrite B3. discriminate. }
  destruct (F13 Hsl) as (G1 & G2 & G3).
  assert (Hnx : tcp_send_next_seq q = tcp_send_next_seq s) by (unfold tcp_send_next_seq; rewrite E8, E6; reflexivity).
  eexists. split; [reflexivity|].
  constructor; unfold with_payload_len; cbn [fst snd ip_src ip_dst]; try assumption; try reflexivity; try congruence.
  - rewrite G3, E2, Htm. reflexivity.
  - exact (rxv_rest_eq_trans _ _ _ F6 E9).
  - exact (cfgf_trans _ _ _ F10 (proj1 E10)).
Qed.

Theorem disp_est_wait cx s t ok s' res tags :
  ctl_sock cx s t -> s_state s = Established -> s_remote_last_seq s = s_local_seq_no s -> s_timer s = TIdle None ->
  tcp_ack_to_transmit s && tcp_delayed_ack_expired s (cx_now cx) = false -> tcp_window_to_update s = Ok false ->
  tcp_dispatch cx s ok = Ok (s', res, tags) ->
  res = DNothing /\ s' = LP.dt_pre cx s.
Proof.
  intros K Hst Hfl Htm Hna Hnw H.
  destruct (est_prelude cx s t ok s' res tags K Hst Hfl Htm H) as (q & t1 & Eq & V & K1 & Hstt & Hr).
  pose proof V as (E1 & E2 & E3 & E4 & E5 & E6 & E7 & E8 & E9 & E10 & E11 & E12).
  pose proof (rxv_eq_window_start _ _ E9) as Hws.
  assert (Ea : tcp_ack_to_transmit q && tcp_delayed_ack_expired q (cx_now cx) = false).
  { unfold tcp_ack_to_transmit, tcp_delayed_ack_expired in *. destruct E9 as (_ & _ & _ & _ & R5 & _).
    destruct E10 as (_ & A). rewrite R5, Hws, A. exact Hna. }
  assert (Ew : tcp_window_to_update q = Ok false).
  { unfold tcp_window_to_update, tcp_last_scaled_window, tcp_scaled_window in *.
    destruct E9 as (_ & R2 & _ & R4 & R5 & R6 & R7). rewrite E12, E1, R2, R4, R5, R6, R7. exact Hnw. }
  unfold disp_rest, tcp_dispatch_decide in Hr. rewrite Hstt in Hr. cbn [obind] in Hr. rewrite Ea, Ew in Hr. cbn [obind] in Hr.
  rewrite E1, Hst, E2, Htm in Hr. cbn in Hr. inversion Hr; subst. split; reflexivity.
Qed.

(* when neither an expired owed ACK nor anything else triggers the dispatch, window_to_update was evaluated *)
Lemma disp_est_wtu_ok cx s t ok s' res tags :
  ctl_sock cx s t -> s_state s = Established -> s_remote_last_seq s = s_local_seq_no s -> s_timer s = TIdle None ->
  tcp_ack_to_transmit s && tcp_delayed_ack_expired s (cx_now cx) = false ->
  tcp_dispatch cx s ok = Ok (s', res, tags) -> exists b, tcp_window_to_update s = Ok b.
Proof.
  intros K Hst Hfl Htm Hna H.
  destruct (est_prelude cx s t ok s' res tags K Hst Hfl Htm H) as (q & t1 & Eq & V & K1 & Hstt & Hr).
  pose proof V as (E1 & E2 & E3 & E4 & E5 & E6 & E7 & E8 & E9 & E10 & E11 & E12).
  pose proof (rxv_eq_window_start _ _ E9) as Hws.
  assert (Ea : tcp_ack_to_transmit q && tcp_delayed_ack_expired q (cx_now cx) = false).
  { unfold tcp_ack_to_transmit, tcp_delayed_ack_expired in *. destruct E9 as (_ & _ & _ & _ & R5 & _).
    destruct E10 as (_ & A). rewrite R5, Hws, A. exact Hna. }
  assert (Ew : tcp_window_to_update q = tcp_window_to_update s).
  { unfold tcp_window_to_update, tcp_last_scaled_window, tcp_scaled_window.
    destruct E9 as (_ & R2 & _ & R4 & R5 & R6 & R7). rewrite E12, E1, R2, R4, R5, R6, R7. reflexivity. }
  unfold disp_rest, tcp_dispatch_decide in Hr. rewrite Hstt in Hr. cbn [obind] in Hr. rewrite Ea, Ew in Hr.
  destruct (tcp_window_to_update s) as [b|e|]; [exists b; reflexivity | discriminate | discriminate].
Qed.
