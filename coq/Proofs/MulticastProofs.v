(* Proofs about the multicast host state machine model (Model/Multicast.v): table invariant,
   membership characterisation (C11), legality of every emitted IGMP / MLD packet (C10),
   panic-freedom, loop termination and bounded work of multicast_egress, termination of the
   query-response machines (C03). *)
From Coq Require Import Permutation.
From SV Require Import Lib.Base Gen.Consts Gen.WireFields Model.Addr Model.Ingress Model.WireIgmp Model.Multicast.
From SV Require Import Proofs.IngressProofs.

(* ================================================================== vocabulary *)

Definition keys (l : gtable) : list ipaddr := map fst l.

(* the LinearMap invariant: distinct keys, all multicast, within the configured capacity *)
Definition tbl_inv (l : gtable) : Prop :=
  NoDup (keys l) /\
  Forall (fun k => ip_is_multicast k = true) (keys l) /\
  Z.of_nat (length l) <= cfg_IFACE_MAX_MULTICAST_GROUP_COUNT.

(* number of entries in a given state *)
Fixpoint count_state (s : gstate) (l : gtable) : nat :=
  match l with
  | [] => O
  | (_, s0) :: t => if gstate_eqb s0 s then S (count_state s t) else count_state s t
  end.

(* everything of the state a pass of multicast_egress cannot touch *)
Definition same_base (a b : mstate) : Prop :=
  mc_medium a = mc_medium b /\ mc_ip_mtu a = mc_ip_mtu b /\ mc_addrs a = mc_addrs b /\ mc_rand a = mc_rand b.

(* IPv4 is not carried over IEEE 802.15.4: no IPv4 address is configured there (otherwise every
   IPv4 transmission - not only IGMP - reaches unreachable!() in lookup_hardware_addr) *)
Definition cfg_ok (st : mstate) : Prop :=
  mc_medium st = M154 -> first_v4 (mc_addrs st) = None.

(* the addresses update_ip_addrs accepts without panicking (documented: "panics if any of the
   addresses are not unicast"): IPv6 unicast; IPv4 unicast or the unspecified address, which
   check_ip_addrs lets through (0.0.0.0/0 is the usual placeholder before DHCP configures) *)
Definition addr_ok (c : cidr) : Prop :=
  match c_addr c with
  | V6 a => v6_x_is_unicast a = true
  | V4 a => v4_x_is_unicast a || v4_is_unspecified a = true
  end.
Definition addrs6_ok (l : list cidr) : Prop := Forall addr_ok l.

(* the index of the general-query response machine is a usize *)
Definition igmp_ok (x : igmp_rs) : Prop :=
  match x with IgGeneral _ _ _ idx => 0 <= idx | _ => True end.

Definition mc_inv (st : mstate) : Prop :=
  tbl_inv (mc_groups st) /\ addrs6_ok (mc_addrs st) /\ cfg_ok st /\ igmp_ok (mc_igmp st).

(* ================================================================== small tools *)

Lemma gstate_eqb_eq a b : gstate_eqb a b = true <-> a = b.
Proof. destruct a, b; cbn; split; intros H; try discriminate; reflexivity. Qed.

Lemma gstate_eqb_neq a b : gstate_eqb a b = false <-> a <> b.
Proof. destruct a, b; cbn; split; intros H; try discriminate; try congruence; try reflexivity; exfalso; apply H; reflexivity. Qed.

Lemma ip_eqb_neq x y : ip_eqb x y = false <-> x <> y.
Proof.
  split.
  - intros H E. apply ip_eqb_eq in E. congruence.
  - intros H. destruct (ip_eqb x y) eqn:E; [apply ip_eqb_eq in E; contradiction | reflexivity].
Qed.

Lemma ip_eqb_sym x y : ip_eqb x y = ip_eqb y x.
Proof.
  destruct (ip_eqb x y) eqn:E.
  - apply ip_eqb_eq in E. subst. symmetry. apply ip_eqb_refl.
  - symmetry. apply ip_eqb_neq. apply ip_eqb_neq in E. congruence.
Qed.

Lemma v4_multicast_not_unspec a : v4_is_multicast a = true -> v4_is_unspecified a = false.
Proof.
  unfold v4_is_multicast, v4_is_unspecified. intros H. apply Z.eqb_eq in H. apply Z.eqb_neq. lia.
Qed.

Lemma v6_multicast_not_unspec a : v6_is_multicast a = true -> v6_is_unspecified a = false.
Proof.
  unfold v6_is_multicast, v6_is_unspecified. intros H. apply Z.eqb_eq in H. apply Z.eqb_neq.
  change (2 ^ 120) with 1329227995784915872903807060280344576 in H. lia.
Qed.

Lemma ip_multicast_not_unspec x : ip_is_multicast x = true -> ip_is_unspecified x = false.
Proof. destruct x; cbn; [apply v4_multicast_not_unspec | apply v6_multicast_not_unspec]. Qed.

(* ================================================================== LinearMap operations *)

Lemma mc_get_in g l s : mc_get g l = Some s -> In (g, s) l.
Proof.
  induction l as [|[k s0] t IH]; cbn; [discriminate|].
  destruct (ip_eqb k g) eqn:E.
  - intros H. inv H. apply ip_eqb_eq in E. subst. left. reflexivity.
  - intros H. right. apply IH. exact H.
Qed.

Lemma mc_get_none g l : mc_get g l = None <-> ~ In g (keys l).
Proof.
  induction l as [|[k s0] t IH]; cbn; [tauto|].
  destruct (ip_eqb k g) eqn:E.
  - apply ip_eqb_eq in E. subst. split; [discriminate | intros H; exfalso; apply H; left; reflexivity].
  - apply ip_eqb_neq in E. rewrite IH. tauto.
Qed.

Lemma mc_get_some_key g l s : mc_get g l = Some s -> In g (keys l).
Proof. intros H. apply mc_get_in in H. apply in_map with (f := fst) in H. exact H. Qed.

(* with distinct keys the first match is the only one *)
Lemma mc_get_nodup g l s : NoDup (keys l) -> In (g, s) l -> mc_get g l = Some s.
Proof.
  induction l as [|[k s0] t IH]; cbn; [tauto|].
  intros Hn Hin. inversion Hn as [|? ? Hk Ht]; subst.
  destruct Hin as [H | H].
  - inv H. rewrite ip_eqb_refl. reflexivity.
  - destruct (ip_eqb k g) eqn:E.
    + apply ip_eqb_eq in E. subst. exfalso. apply Hk. apply in_map with (f := fst) in H. exact H.
    + apply IH; assumption.
Qed.

Lemma keys_mc_set g s l : keys (mc_set g s l) = keys l.
Proof.
  induction l as [|[k s0] t IH]; cbn; [reflexivity|].
  destruct (ip_eqb k g); cbn; [reflexivity | f_equal; exact IH].
Qed.

Lemma length_mc_set g s l : length (mc_set g s l) = length l.
Proof. rewrite <- (map_length fst), <- (map_length fst l). fold (keys (mc_set g s l)). rewrite keys_mc_set. reflexivity. Qed.

Lemma mc_get_set_same g s l : In g (keys l) -> mc_get g (mc_set g s l) = Some s.
Proof.
  induction l as [|[k s0] t IH]; cbn; [tauto|].
  destruct (ip_eqb k g) eqn:E; cbn; rewrite E.
  - reflexivity.
  - intros [H | H]; [apply ip_eqb_neq in E; contradiction | apply IH; exact H].
Qed.

Lemma mc_get_set_other g h s l : h <> g -> mc_get h (mc_set g s l) = mc_get h l.
Proof.
  intros Hne. induction l as [|[k s0] t IH]; cbn; [reflexivity|].
  destruct (ip_eqb k g) eqn:E; cbn.
  - apply ip_eqb_eq in E. subst. assert (ip_eqb g h = false) by (apply ip_eqb_neq; congruence).
    rewrite H. reflexivity.
  - destruct (ip_eqb k h); [reflexivity | exact IH].
Qed.

Lemma tbl_inv_set g s l : tbl_inv l -> tbl_inv (mc_set g s l).
Proof.
  intros (H1 & H2 & H3). unfold tbl_inv. rewrite keys_mc_set, length_mc_set. auto.
Qed.

Lemma keys_app a b : keys (a ++ b) = keys a ++ keys b.
Proof. apply map_app. Qed.

Lemma mc_get_app_notin g a b : ~ In g (keys a) -> mc_get g (a ++ b) = mc_get g b.
Proof.
  induction a as [|[k s0] t IH]; cbn; [reflexivity|].
  intros H. destruct (ip_eqb k g) eqn:E.
  - apply ip_eqb_eq in E. subst. exfalso. apply H. left. reflexivity.
  - apply IH. tauto.
Qed.

Lemma mc_get_app_in g a b : In g (keys a) -> mc_get g (a ++ b) = mc_get g a.
Proof.
  induction a as [|[k s0] t IH]; cbn; [tauto|].
  intros H. destruct (ip_eqb k g) eqn:E; [reflexivity|].
  apply IH. destruct H as [H | H]; [apply ip_eqb_neq in E; contradiction | exact H].
Qed.

(* insert: replace in place, or push when there is room *)
Lemma mc_insert_spec g s l l' : mc_insert g s l = Some l' ->
  (In g (keys l) /\ l' = mc_set g s l) \/
  (~ In g (keys l) /\ l' = l ++ [(g, s)] /\ Z.of_nat (length l) < cfg_IFACE_MAX_MULTICAST_GROUP_COUNT).
Proof.
  unfold mc_insert. destruct (mc_get g l) eqn:E.
  - intros H. inv H. left. split; [eapply mc_get_some_key; exact E | reflexivity].
  - destruct (Z.of_nat (length l) <? cfg_IFACE_MAX_MULTICAST_GROUP_COUNT) eqn:L; [|discriminate].
    intros H. inv H. right. apply mc_get_none in E. apply Z.ltb_lt in L. auto.
Qed.

Lemma mc_insert_present g s l : In g (keys l) -> mc_insert g s l = Some (mc_set g s l).
Proof.
  intros H. unfold mc_insert. destruct (mc_get g l) eqn:E; [reflexivity|].
  apply mc_get_none in E. contradiction.
Qed.

Lemma tbl_inv_insert g s l l' : ip_is_multicast g = true -> tbl_inv l -> mc_insert g s l = Some l' -> tbl_inv l'.
Proof.
  intros Hm Hi H. apply mc_insert_spec in H. destruct H as [(Hin & ->) | (Hn & -> & Hl)].
  - apply tbl_inv_set. exact Hi.
  - destruct Hi as (H1 & H2 & H3). unfold tbl_inv. rewrite keys_app, app_length. cbn. repeat split.
    + eapply Permutation_NoDup; [apply Permutation_cons_append|]. constructor; [exact Hn | exact H1].
    + apply Forall_app. split; [exact H2 | constructor; [exact Hm | constructor]].
    + lia.
Qed.

(* replace_first *)
Lemma replace_first_notin g e l : ~ In g (keys l) -> mc_replace_first g e l = l.
Proof.
  induction l as [|[k s0] t IH]; cbn; [reflexivity|].
  intros H. destruct (ip_eqb k g) eqn:E.
  - apply ip_eqb_eq in E. subst. exfalso. apply H. left. reflexivity.
  - f_equal. apply IH. tauto.
Qed.

Lemma replace_first_in g e l : In g (keys l) ->
  exists a s b, l = a ++ (g, s) :: b /\ ~ In g (keys a) /\ mc_replace_first g e l = a ++ e :: b.
Proof.
  induction l as [|[k s0] t IH]; cbn; [tauto|].
  intros H. destruct (ip_eqb k g) eqn:E.
  - apply ip_eqb_eq in E. subst. exists [], s0, t. cbn. auto.
  - destruct H as [H | H]; [apply ip_eqb_neq in E; contradiction|].
    destruct (IH H) as (a & s & b & -> & Hn & Hr). exists ((k, s0) :: a), s, b. cbn. repeat split.
    + intros [X | X]; [apply ip_eqb_neq in E; contradiction | contradiction].
    + rewrite Hr. reflexivity.
Qed.

(* remove = swap_remove: the result is the table without that entry, up to order *)
Lemma mc_remove_perm g l s : mc_get g l = Some s -> Permutation ((g, s) :: mc_remove g l) l.
Proof.
  intros Hg. unfold mc_remove. rewrite Hg.
  destruct (rev l) as [|lst r] eqn:R.
  - apply (f_equal (@rev _)) in R. rewrite rev_involutive in R. subst. discriminate.
  - assert (Hl : l = rev r ++ [lst]) by (rewrite <- (rev_involutive l), R; reflexivity).
    replace (removelast l) with (rev r) by (rewrite Hl, removelast_last; reflexivity).
    destruct (in_dec (fun x y => match ip_eqb x y as b return ip_eqb x y = b -> _ with
                                 | true => fun E => left (proj1 (ip_eqb_eq x y) E)
                                 | false => fun E => right (proj1 (ip_eqb_neq x y) E)
                                 end eq_refl) g (keys (rev r))) as [Hin | Hn].
    + destruct (replace_first_in g lst (rev r) Hin) as (a & s0 & b & Ha & Hna & Hr).
      rewrite Hr. rewrite Hl in Hg. rewrite mc_get_app_in in Hg by exact Hin.
      rewrite Ha in Hg. rewrite mc_get_app_notin in Hg by exact Hna. cbn in Hg. rewrite ip_eqb_refl in Hg. injection Hg as Hs. subst s0.
      rewrite Hl, Ha. rewrite <- app_assoc. cbn.
      apply Permutation_trans with (l' := a ++ (g, s) :: lst :: b).
      * apply Permutation_middle.
      * apply Permutation_app_head. apply perm_skip. apply Permutation_cons_append.
    + rewrite replace_first_notin by exact Hn.
      rewrite Hl in Hg. rewrite mc_get_app_notin in Hg by exact Hn. destruct lst as [k s0]. cbn in Hg.
      destruct (ip_eqb k g) eqn:E; [|discriminate]. injection Hg as Hs. apply ip_eqb_eq in E. subst k s0.
      rewrite Hl. apply Permutation_cons_append.
Qed.

Lemma mc_remove_absent g l : mc_get g l = None -> mc_remove g l = l.
Proof. intros H. unfold mc_remove. rewrite H. reflexivity. Qed.

Lemma keys_perm a b : Permutation a b -> Permutation (keys a) (keys b).
Proof. apply Permutation_map. Qed.

Lemma tbl_inv_remove g l : tbl_inv l -> tbl_inv (mc_remove g l).
Proof.
  intros Hi. destruct (mc_get g l) as [s|] eqn:E; [|rewrite mc_remove_absent by exact E; exact Hi].
  pose proof (mc_remove_perm g l s E) as P. destruct Hi as (H1 & H2 & H3).
  pose proof (keys_perm _ _ P) as PK. cbn in PK.
  assert (N : NoDup (g :: keys (mc_remove g l))) by (eapply Permutation_NoDup; [apply Permutation_sym; exact PK | exact H1]).
  assert (F : Forall (fun k => ip_is_multicast k = true) (g :: keys (mc_remove g l)))
    by (eapply Permutation_Forall; [apply Permutation_sym; exact PK | exact H2]).
  apply Permutation_length in P. cbn in P.
  repeat split.
  - inversion N; assumption.
  - inversion F; assumption.
  - lia.
Qed.

Lemma mc_remove_gone g l : NoDup (keys l) -> mc_get g (mc_remove g l) = None.
Proof.
  intros Hn. destruct (mc_get g l) as [s|] eqn:E; [|rewrite mc_remove_absent by exact E; exact E].
  pose proof (keys_perm _ _ (mc_remove_perm g l s E)) as PK. cbn in PK.
  assert (N : NoDup (g :: keys (mc_remove g l))) by (eapply Permutation_NoDup; [apply Permutation_sym; exact PK | exact Hn]).
  apply mc_get_none. inversion N; assumption.
Qed.

Lemma mc_remove_other g h l : NoDup (keys l) -> h <> g -> mc_get h (mc_remove g l) = mc_get h l.
Proof.
  intros Hn Hne. destruct (mc_get g l) as [s|] eqn:E; [|rewrite mc_remove_absent by exact E; reflexivity].
  pose proof (mc_remove_perm g l s E) as P.
  pose proof (keys_perm _ _ P) as PK. cbn in PK.
  assert (N : NoDup (g :: keys (mc_remove g l))) by (eapply Permutation_NoDup; [apply Permutation_sym; exact PK | exact Hn]).
  assert (N' : NoDup (keys (mc_remove g l))) by (inversion N; assumption).
  destruct (mc_get h l) as [sh|] eqn:Eh.
  - apply mc_get_nodup; [exact N'|]. apply mc_get_in in Eh.
    apply (Permutation_in _ (Permutation_sym P)) in Eh. destruct Eh as [X | X]; [inv X; contradiction | exact X].
  - apply mc_get_none. apply mc_get_none in Eh. intros X. apply Eh.
    apply (Permutation_in _ PK). right. exact X.
Qed.

Lemma length_mc_remove g l s : mc_get g l = Some s -> S (length (mc_remove g l)) = length l.
Proof. intros E. pose proof (Permutation_length (mc_remove_perm g l s E)) as P. exact P. Qed.

(* ================================================================== membership (C11) *)

Lemma joined_keys_in g l : In g (mc_joined_keys l) <-> exists s, In (g, s) l /\ s <> GLeaving.
Proof.
  unfold mc_joined_keys. rewrite in_map_iff. split.
  - intros ([k s] & Hk & Hf). cbn in Hk. subst k. apply filter_In in Hf. destruct Hf as (Hin & Hs).
    exists s. split; [exact Hin|]. cbn in Hs. destruct s; congruence.
  - intros (s & Hin & Hs). exists (g, s). split; [reflexivity|]. apply filter_In. split; [exact Hin|].
    cbn. destruct s; congruence.
Qed.

Lemma state_has_spec l g : NoDup (keys l) ->
  (mc_state_has l g = true <-> exists s, In (g, s) l /\ s <> GLeaving).
Proof.
  intros Hn. unfold mc_state_has. split.
  - destruct (mc_get g l) as [s|] eqn:E; [|discriminate].
    intros H. exists s. split; [apply mc_get_in; exact E | destruct s; congruence].
  - intros (s & Hin & Hs). rewrite (mc_get_nodup g l s Hn Hin). destruct s; congruence.
Qed.

Lemma state_has_joined_keys l g : NoDup (keys l) -> (mc_state_has l g = true <-> In g (mc_joined_keys l)).
Proof. intros Hn. rewrite state_has_spec by exact Hn. rewrite joined_keys_in. tauto. Qed.

(* the model's has_multicast_group is Model/Ingress.v's, for the interface whose group list is
   the set of keys in state Joining / Joined *)
Lemma has_multicast_group_ing st g : NoDup (keys (mc_groups st)) ->
  mc_has_multicast_group st g = ing_has_multicast_group (mc_iface st) g.
Proof.
  intros Hn. unfold mc_has_multicast_group, ing_has_multicast_group. cbn [if_groups mc_iface].
  assert (E : mc_state_has (mc_groups st) g = existsb (ip_eqb g) (mc_joined_keys (mc_groups st))).
  { destruct (existsb (ip_eqb g) (mc_joined_keys (mc_groups st))) eqn:X.
    - apply existsb_In in X. destruct X as (k & Hin & Hk). apply ip_eqb_eq in Hk. subst k.
      apply state_has_joined_keys; assumption.
    - destruct (mc_state_has (mc_groups st) g) eqn:Y; [|reflexivity].
      apply state_has_joined_keys in Y; [|exact Hn].
      assert (existsb (ip_eqb g) (mc_joined_keys (mc_groups st)) = true)
        by (apply existsb_In; exists g; split; [exact Y | apply ip_eqb_refl]).
      congruence. }
  rewrite E. reflexivity.
Qed.

Theorem has_group_iff_joined st g : tbl_inv (mc_groups st) ->
  (mc_has_multicast_group st g = true <-> joined (mc_iface st) g).
Proof.
  intros (Hn & _). rewrite has_multicast_group_ing by exact Hn. apply has_multicast_group_joined.
Qed.

(* spelled out without Model/Ingress.v's vocabulary *)
Theorem has_group_exactly st g : tbl_inv (mc_groups st) ->
  (mc_has_multicast_group st g = true <->
   (exists s, In (g, s) (mc_groups st) /\ s <> GLeaving) \/
   g = V4 v4_MULTICAST_ALL_SYSTEMS \/ g = V6 v6_LINK_LOCAL_ALL_NODES \/
   exists b pl, In (mkCidr (V6 b) pl) (mc_addrs st) /\ b <> v6_LOCALHOST /\ g = V6 (v6_solicited_node b)).
Proof.
  intros Hi. rewrite has_group_iff_joined by exact Hi. unfold joined. cbn [if_groups if_addrs mc_iface].
  rewrite joined_keys_in. tauto.
Qed.

Lemma has_group_is_multicast st g : tbl_inv (mc_groups st) -> mc_has_multicast_group st g = true ->
  ip_is_multicast g = true.
Proof.
  intros Hi H. apply has_group_exactly in H; [|exact Hi].
  destruct H as [(s & Hin & _) | [H | [H | (b & pl & _ & _ & H)]]].
  - destruct Hi as (_ & Hm & _). rewrite Forall_forall in Hm. apply Hm.
    apply in_map with (f := fst) in Hin. exact Hin.
  - subst. vm_compute. reflexivity.
  - subst. vm_compute. reflexivity.
  - subst. cbn. apply solicited_node_is_multicast.
Qed.

(* membership only depends on the table through State::has_multicast_group, and on the addresses *)
Lemma has_group_ext st st' : mc_addrs st = mc_addrs st' ->
  (forall g, mc_state_has (mc_groups st) g = mc_state_has (mc_groups st') g) ->
  forall g, mc_has_multicast_group st g = mc_has_multicast_group st' g.
Proof.
  intros Ha Hs g. unfold mc_has_multicast_group. rewrite (Hs g).
  destruct g as [a|a]; [reflexivity|].
  unfold ing_has_solicited_node. cbn [if_addrs mc_iface]. rewrite Ha. reflexivity.
Qed.

(* ---- join *)

Lemma join_base st g : same_base st (fst (mc_join st g)) /\ mc_igmp (fst (mc_join st g)) = mc_igmp st /\
  mc_mld (fst (mc_join st g)) = mc_mld st.
Proof.
  unfold mc_join, same_base. destruct (negb (ip_is_multicast g)); [cbn; auto 10|].
  destruct (mc_get g (mc_groups st)); [cbn; auto 10|].
  destruct (mc_insert g GJoining (mc_groups st)); cbn; auto 10.
Qed.

Lemma join_tbl_inv st g : tbl_inv (mc_groups st) -> tbl_inv (mc_groups (fst (mc_join st g))).
Proof.
  intros Hi. unfold mc_join. destruct (ip_is_multicast g) eqn:M; cbn [negb]; [|exact Hi].
  destruct (mc_get g (mc_groups st)) eqn:E; cbn.
  - apply tbl_inv_set. exact Hi.
  - destruct (mc_insert g GJoining (mc_groups st)) eqn:I; cbn; [|exact Hi].
    eapply tbl_inv_insert; eassumption.
Qed.

Lemma join_unaddressable st g : ip_is_multicast g = false -> mc_join st g = (st, mc_UNADDRESSABLE).
Proof. intros H. unfold mc_join. rewrite H. reflexivity. Qed.

Lemma join_ret st g : snd (mc_join st g) = mc_OK \/ snd (mc_join st g) = mc_GROUP_TABLE_FULL \/
  snd (mc_join st g) = mc_UNADDRESSABLE.
Proof.
  unfold mc_join. destruct (negb (ip_is_multicast g)); [auto|].
  destruct (mc_get g (mc_groups st)); [auto|]. destruct (mc_insert g GJoining (mc_groups st)); auto.
Qed.

(* a successful join makes the interface listen to the group *)
Lemma join_ok_member st g : tbl_inv (mc_groups st) -> snd (mc_join st g) = mc_OK ->
  ip_is_multicast g = true /\ mc_state_has (mc_groups (fst (mc_join st g))) g = true.
Proof.
  intros Hi. unfold mc_join. destruct (ip_is_multicast g) eqn:M; cbn [negb]; [|cbn; discriminate].
  destruct (mc_get g (mc_groups st)) as [s|] eqn:E; cbn.
  - intros _. split; [reflexivity|]. unfold mc_state_has.
    rewrite mc_get_set_same by (eapply mc_get_some_key; exact E). destruct s; reflexivity.
  - destruct (mc_insert g GJoining (mc_groups st)) as [l|] eqn:I; cbn; [|discriminate].
    intros _. split; [reflexivity|]. apply mc_insert_spec in I.
    destruct I as [(Hin & _) | (Hn & -> & _)]; [apply mc_get_none in E; contradiction|].
    unfold mc_state_has. rewrite mc_get_app_notin by exact Hn. cbn. rewrite ip_eqb_refl. reflexivity.
Qed.

(* a join on a full table (for a group that has no entry) fails and changes nothing *)
Lemma join_full st g : ip_is_multicast g = true -> mc_get g (mc_groups st) = None ->
  Z.of_nat (length (mc_groups st)) >= cfg_IFACE_MAX_MULTICAST_GROUP_COUNT ->
  mc_join st g = (st, mc_GROUP_TABLE_FULL).
Proof.
  intros M E L. unfold mc_join. rewrite M, E. cbn [negb]. unfold mc_insert. rewrite E.
  destruct (Z.of_nat (length (mc_groups st)) <? cfg_IFACE_MAX_MULTICAST_GROUP_COUNT) eqn:X; [|reflexivity].
  apply Z.ltb_lt in X. lia.
Qed.

(* ... and it fails only then *)
Lemma join_full_only st g : snd (mc_join st g) = mc_GROUP_TABLE_FULL ->
  fst (mc_join st g) = st /\ mc_get g (mc_groups st) = None /\
  Z.of_nat (length (mc_groups st)) >= cfg_IFACE_MAX_MULTICAST_GROUP_COUNT.
Proof.
  unfold mc_join. destruct (negb (ip_is_multicast g)); [cbn; discriminate|].
  destruct (mc_get g (mc_groups st)) eqn:E; [cbn; discriminate|].
  unfold mc_insert. rewrite E.
  destruct (Z.of_nat (length (mc_groups st)) <? cfg_IFACE_MAX_MULTICAST_GROUP_COUNT) eqn:X; cbn; [discriminate|].
  intros _. apply Z.ltb_ge in X. repeat split; lia.
Qed.

Lemma join_other st g h : h <> g ->
  mc_get h (mc_groups (fst (mc_join st g))) = mc_get h (mc_groups st).
Proof.
  intros Hne. unfold mc_join. destruct (negb (ip_is_multicast g)); [reflexivity|].
  destruct (mc_get g (mc_groups st)) eqn:E; cbn.
  - apply mc_get_set_other. exact Hne.
  - destruct (mc_insert g GJoining (mc_groups st)) as [l|] eqn:I; cbn; [|reflexivity].
    apply mc_insert_spec in I. destruct I as [(Hin & _) | (Hn & -> & _)]; [apply mc_get_none in E; contradiction|].
    destruct (mc_get h (mc_groups st)) eqn:Eh.
    + rewrite mc_get_app_in by (eapply mc_get_some_key; exact Eh). exact Eh.
    + rewrite mc_get_app_notin by (apply mc_get_none; exact Eh). cbn.
      assert (ip_eqb g h = false) by (apply ip_eqb_neq; congruence). rewrite H. reflexivity.
Qed.

(* ---- leave *)

Lemma leave_base st g : same_base st (fst (mc_leave st g)) /\ mc_igmp (fst (mc_leave st g)) = mc_igmp st /\
  mc_mld (fst (mc_leave st g)) = mc_mld st.
Proof.
  unfold mc_leave, same_base. destruct (negb (ip_is_multicast g)); [cbn; auto 10|].
  destruct (mc_get g (mc_groups st)) as [[]|]; cbn; auto 10.
Qed.

Lemma leave_tbl_inv st g : tbl_inv (mc_groups st) -> tbl_inv (mc_groups (fst (mc_leave st g))).
Proof.
  intros Hi. unfold mc_leave. destruct (negb (ip_is_multicast g)); [exact Hi|].
  destruct (mc_get g (mc_groups st)) as [[]|]; cbn; try exact Hi.
  - apply tbl_inv_remove. apply tbl_inv_set. exact Hi.
  - apply tbl_inv_set. exact Hi.
  - apply tbl_inv_set. exact Hi.
Qed.

Lemma leave_ret st g : snd (mc_leave st g) = if ip_is_multicast g then mc_OK else mc_UNADDRESSABLE.
Proof.
  unfold mc_leave. destruct (ip_is_multicast g); cbn [negb]; [|reflexivity].
  destruct (mc_get g (mc_groups st)) as [[]|]; reflexivity.
Qed.

(* after leave the group is no longer listened to (State::has_multicast_group), at once *)
Lemma leave_not_member st g : tbl_inv (mc_groups st) -> ip_is_multicast g = true ->
  mc_state_has (mc_groups (fst (mc_leave st g))) g = false.
Proof.
  intros (Hn & _) M. unfold mc_leave. rewrite M. cbn [negb].
  destruct (mc_get g (mc_groups st)) as [s|] eqn:E.
  - assert (Hk : In g (keys (mc_groups st))) by (eapply mc_get_some_key; exact E).
    destruct s; cbn; unfold mc_state_has.
    + rewrite mc_remove_gone; [reflexivity | rewrite keys_mc_set; exact Hn].
    + rewrite mc_get_set_same by exact Hk. reflexivity.
    + rewrite mc_get_set_same by exact Hk. reflexivity.
  - cbn. unfold mc_state_has. rewrite E. reflexivity.
Qed.

Lemma leave_other st g h : NoDup (keys (mc_groups st)) -> h <> g ->
  mc_get h (mc_groups (fst (mc_leave st g))) = mc_get h (mc_groups st).
Proof.
  intros Hn Hne. unfold mc_leave. destruct (negb (ip_is_multicast g)); [reflexivity|].
  destruct (mc_get g (mc_groups st)) as [[]|] eqn:E; cbn; try reflexivity.
  - rewrite mc_remove_other; [apply mc_get_set_other; exact Hne | rewrite keys_mc_set; exact Hn | exact Hne].
  - apply mc_get_set_other. exact Hne.
  - apply mc_get_set_other. exact Hne.
Qed.

(* ================================================================== counting and searching *)

Lemma find_state_in s l g : mc_find_state s l = Some g -> In (g, s) l.
Proof.
  induction l as [|[k s0] t IH]; cbn; [discriminate|].
  destruct (gstate_eqb s0 s) eqn:E.
  - intros H. inv H. apply gstate_eqb_eq in E. subst. left. reflexivity.
  - intros H. right. apply IH. exact H.
Qed.

Lemma find_state_none s l : mc_find_state s l = None -> count_state s l = O.
Proof.
  induction l as [|[k s0] t IH]; cbn; [reflexivity|].
  destruct (gstate_eqb s0 s); [discriminate | exact IH].
Qed.

Lemma find_state_some_count s l g : mc_find_state s l = Some g -> (1 <= count_state s l)%nat.
Proof.
  induction l as [|[k s0] t IH]; cbn; [discriminate|].
  destruct (gstate_eqb s0 s); [lia | exact IH].
Qed.

Lemma count_zero_find s l : count_state s l = O -> mc_find_state s l = None.
Proof.
  induction l as [|[k s0] t IH]; cbn; [reflexivity|].
  destruct (gstate_eqb s0 s); [discriminate | exact IH].
Qed.

Lemma count_le_length s l : (count_state s l <= length l)%nat.
Proof. induction l as [|[k s0] t IH]; cbn; [lia|]. destruct (gstate_eqb s0 s); lia. Qed.

Lemma count_set_from g l s s' : mc_get g l = Some s -> s' <> s ->
  S (count_state s (mc_set g s' l)) = count_state s l.
Proof.
  induction l as [|[k s0] t IH]; cbn; [discriminate|].
  destruct (ip_eqb k g) eqn:E; cbn.
  - intros H Hne. inv H. assert (gstate_eqb s s = true) by (apply gstate_eqb_eq; reflexivity).
    assert (gstate_eqb s' s = false) by (apply gstate_eqb_neq; exact Hne). rewrite H, H0. reflexivity.
  - intros H Hne. destruct (gstate_eqb s0 s); rewrite <- (IH H Hne); reflexivity.
Qed.

Lemma count_set_other g l s s0 s' : mc_get g l = Some s0 -> s0 <> s -> s' <> s ->
  count_state s (mc_set g s' l) = count_state s l.
Proof.
  induction l as [|[k s1] t IH]; cbn; [discriminate|].
  destruct (ip_eqb k g) eqn:E; cbn.
  - intros H H1 H2. inv H. assert (gstate_eqb s0 s = false) by (apply gstate_eqb_neq; exact H1).
    assert (gstate_eqb s' s = false) by (apply gstate_eqb_neq; exact H2). rewrite H, H0. reflexivity.
  - intros H H1 H2. rewrite (IH H H1 H2). reflexivity.
Qed.

Lemma count_perm s a b : Permutation a b -> count_state s a = count_state s b.
Proof.
  induction 1 as [| [k s0] a b P IH | [k1 s1] [k2 s2] a | a b c P1 IH1 P2 IH2]; cbn.
  - reflexivity.
  - rewrite IH. reflexivity.
  - destruct (gstate_eqb s1 s), (gstate_eqb s2 s); reflexivity.
  - congruence.
Qed.

Lemma count_remove g l s : mc_get g l = Some s -> S (count_state s (mc_remove g l)) = count_state s l.
Proof.
  intros E. rewrite <- (count_perm s _ _ (mc_remove_perm g l s E)). cbn.
  assert (gstate_eqb s s = true) by (apply gstate_eqb_eq; reflexivity). rewrite H. reflexivity.
Qed.

Lemma count_remove_other g l s s0 : mc_get g l = Some s0 -> s0 <> s ->
  count_state s (mc_remove g l) = count_state s l.
Proof.
  intros E Hne. rewrite <- (count_perm s _ _ (mc_remove_perm g l s0 E)). cbn.
  assert (gstate_eqb s0 s = false) by (apply gstate_eqb_neq; exact Hne). rewrite H. reflexivity.
Qed.

(* member keys (not Leaving) *)
Lemma member4_set g l s s' : mc_get g l = Some s -> (s = GLeaving <-> s' = GLeaving) ->
  mc_v4_member_keys (mc_set g s' l) = mc_v4_member_keys l.
Proof.
  induction l as [|[k s0] t IH]; cbn; [discriminate|].
  destruct (ip_eqb k g) eqn:E; cbn.
  - intros H Hs. inv H. destruct k; [|reflexivity].
    destruct s, s'; cbn; try reflexivity; exfalso; destruct Hs as [X Y]; (discriminate (X eq_refl) || discriminate (Y eq_refl)).
  - intros H Hs. destruct k; [destruct (gstate_eqb s0 GLeaving)|]; rewrite (IH H Hs); reflexivity.
Qed.

Lemma member6_set g l s s' : mc_get g l = Some s -> (s = GLeaving <-> s' = GLeaving) ->
  mc_v6_member_keys (mc_set g s' l) = mc_v6_member_keys l.
Proof.
  induction l as [|[k s0] t IH]; cbn; [discriminate|].
  destruct (ip_eqb k g) eqn:E; cbn.
  - intros H Hs. inv H. destruct k; [reflexivity|].
    destruct s, s'; cbn; try reflexivity; exfalso; destruct Hs as [X Y]; (discriminate (X eq_refl) || discriminate (Y eq_refl)).
  - intros H Hs. destruct k; [|destruct (gstate_eqb s0 GLeaving)]; rewrite (IH H Hs); reflexivity.
Qed.

Lemma member4_perm a b : Permutation a b -> Permutation (mc_v4_member_keys a) (mc_v4_member_keys b).
Proof.
  induction 1 as [| [k s0] a b P IH | [k1 s1] [k2 s2] a | a b c P1 IH1 P2 IH2]; cbn.
  - constructor.
  - destruct k; [destruct (gstate_eqb s0 GLeaving); [exact IH | constructor; exact IH] | exact IH].
  - destruct k1, k2; try destruct (gstate_eqb s1 GLeaving); try destruct (gstate_eqb s2 GLeaving);
      try apply Permutation_refl; apply perm_swap.
  - eapply Permutation_trans; eassumption.
Qed.

Lemma member6_perm a b : Permutation a b -> Permutation (mc_v6_member_keys a) (mc_v6_member_keys b).
Proof.
  induction 1 as [| [k s0] a b P IH | [k1 s1] [k2 s2] a | a b c P1 IH1 P2 IH2]; cbn.
  - constructor.
  - destruct k; [exact IH | destruct (gstate_eqb s0 GLeaving); [exact IH | constructor; exact IH]].
  - destruct k1, k2; try destruct (gstate_eqb s1 GLeaving); try destruct (gstate_eqb s2 GLeaving);
      try apply Permutation_refl; apply perm_swap.
  - eapply Permutation_trans; eassumption.
Qed.

(* removing an entry in state Leaving leaves the member keys alone, up to order *)
Lemma member4_remove_leaving g l : mc_get g l = Some GLeaving ->
  Permutation (mc_v4_member_keys (mc_remove g l)) (mc_v4_member_keys l).
Proof.
  intros E. pose proof (member4_perm _ _ (mc_remove_perm g l GLeaving E)) as P. cbn in P.
  destruct g; exact P.
Qed.

Lemma member6_remove_leaving g l : mc_get g l = Some GLeaving ->
  Permutation (mc_v6_member_keys (mc_remove g l)) (mc_v6_member_keys l).
Proof.
  intros E. pose proof (member6_perm _ _ (mc_remove_perm g l GLeaving E)) as P. cbn in P.
  destruct g; exact P.
Qed.

(* member keys are keys whose State::has_multicast_group is true *)
Lemma member4_has l a : NoDup (keys l) -> In a (mc_v4_member_keys l) -> mc_state_has l (V4 a) = true.
Proof.
  intros Hn H. apply state_has_spec; [exact Hn|].
  induction l as [|[k s0] t IH]; cbn in H; [contradiction|].
  assert (Hn' : NoDup (keys t)) by (inversion Hn; assumption).
  destruct k as [b|b].
  - destruct (gstate_eqb s0 GLeaving) eqn:E.
    + destruct (IH Hn' H) as (s & Hin & Hs). exists s. split; [right; exact Hin | exact Hs].
    + destruct H as [H | H].
      * subst. exists s0. split; [left; reflexivity | apply gstate_eqb_neq; exact E].
      * destruct (IH Hn' H) as (s & Hin & Hs). exists s. split; [right; exact Hin | exact Hs].
  - destruct (IH Hn' H) as (s & Hin & Hs). exists s. split; [right; exact Hin | exact Hs].
Qed.

Lemma member6_has l a : NoDup (keys l) -> In a (mc_v6_member_keys l) -> mc_state_has l (V6 a) = true.
Proof.
  intros Hn H. apply state_has_spec; [exact Hn|].
  induction l as [|[k s0] t IH]; cbn in H; [contradiction|].
  assert (Hn' : NoDup (keys t)) by (inversion Hn; assumption).
  destruct k as [b|b].
  - destruct (IH Hn' H) as (s & Hin & Hs). exists s. split; [right; exact Hin | exact Hs].
  - destruct (gstate_eqb s0 GLeaving) eqn:E.
    + destruct (IH Hn' H) as (s & Hin & Hs). exists s. split; [right; exact Hin | exact Hs].
    + destruct H as [H | H].
      * subst. exists s0. split; [left; reflexivity | apply gstate_eqb_neq; exact E].
      * destruct (IH Hn' H) as (s & Hin & Hs). exists s. split; [right; exact Hin | exact Hs].
Qed.

Lemma member4_le_length l : (length (mc_v4_member_keys l) <= length l)%nat.
Proof. induction l as [|[[a|a] s0] t IH]; cbn; [lia | destruct (gstate_eqb s0 GLeaving); cbn; lia | lia]. Qed.

(* ================================================================== packets (C10) *)

(* IGMP: the first IPv4 address of the interface; MLD: the first link-local IPv6 address, the
   unspecified address when there is none *)
Definition src4_ok (addrs : list cidr) (x : ipaddr) : Prop := exists a, x = V4 a /\ first_v4 addrs = Some a.
Definition src6_ok (addrs : list cidr) (x : ipaddr) : Prop :=
  x = V6 (match first_link_local addrs with Some a => a | None => 0 end).

(* destination, hop limit, router alert and source of an emitted packet *)
Definition pkt_legal (addrs : list cidr) (p : mpkt) : Prop :=
  pk_hop p = 1 /\
  match pk_kind p with
  | KIgmpReport _ g => pk_dst p = V4 g /\ pk_ra p = false /\ src4_ok addrs (pk_src p)
  | KIgmpLeave _ => pk_dst p = V4 v4_MULTICAST_ALL_ROUTERS /\ pk_ra p = false /\ src4_ok addrs (pk_src p)
  | KMldReport _ => pk_dst p = V6 v6_LINK_LOCAL_ALL_MLDV2_ROUTERS /\ pk_ra p = true /\ src6_ok addrs (pk_src p)
  end.

(* the groups a packet names: a report (IGMP report, MLD IS_EX / TO_IN record) only names groups
   the interface listens to, a leave (IGMP leave, MLD TO_EX record) only multicast groups it does
   not keep as member *)
Definition rec_ok (st : mstate) (r : mrec_type * Z) : Prop :=
  match fst r with
  | RChangeToExclude => mc_state_has (mc_groups st) (V6 (snd r)) = false /\ v6_is_multicast (snd r) = true
  | _ => mc_has_multicast_group st (V6 (snd r)) = true
  end.

Definition pkt_groups_ok (st : mstate) (p : mpkt) : Prop :=
  match pk_kind p with
  | KIgmpReport _ g => mc_has_multicast_group st (V4 g) = true
  | KIgmpLeave g => mc_state_has (mc_groups st) (V4 g) = false /\ v4_is_multicast g = true
  | KMldReport recs => Forall (rec_ok st) recs
  end.

Lemma pkt_groups_ok_ext st st' p : mc_addrs st = mc_addrs st' ->
  (forall g, mc_state_has (mc_groups st) g = mc_state_has (mc_groups st') g) ->
  pkt_groups_ok st p -> pkt_groups_ok st' p.
Proof.
  intros Ha Hs. unfold pkt_groups_ok. destruct (pk_kind p) as [v g | g | recs].
  - rewrite (has_group_ext st st' Ha Hs). tauto.
  - rewrite (Hs (V4 g)). tauto.
  - apply Forall_impl. intros [t a]. unfold rec_ok. cbn.
    rewrite (has_group_ext st st' Ha Hs). rewrite (Hs (V6 a)). tauto.
Qed.

(* ---- constructors *)

Lemma igmp_report_packet_spec st v g c p : mc_igmp_report_packet st v g c = Some p ->
  pkt_legal (mc_addrs st) p /\ pk_kind p = KIgmpReport v g /\ pk_cause p = c /\ pk_dst p = V4 g /\
  exists a, first_v4 (mc_addrs st) = Some a.
Proof.
  unfold mc_igmp_report_packet, ing_igmp_report_src, ing_ipv4_addr. cbn [if_addrs mc_iface].
  destruct (first_v4 (mc_addrs st)) as [a|] eqn:E; [|discriminate]. intros H. inv H. cbn.
  repeat split; try reflexivity; [exists a; auto | exists a; reflexivity].
Qed.

Lemma igmp_leave_packet_spec st g c p : mc_igmp_leave_packet st g c = Some p ->
  pkt_legal (mc_addrs st) p /\ pk_kind p = KIgmpLeave g /\ pk_cause p = c /\
  pk_dst p = V4 v4_MULTICAST_ALL_ROUTERS /\ exists a, first_v4 (mc_addrs st) = Some a.
Proof.
  unfold mc_igmp_leave_packet, ing_igmp_report_src, ing_ipv4_addr. cbn [if_addrs mc_iface].
  destruct (first_v4 (mc_addrs st)) as [a|] eqn:E; [|discriminate]. intros H. inv H. cbn.
  repeat split; try reflexivity; [exists a; auto | exists a; reflexivity].
Qed.

Lemma mld_report_packet_spec st recs c : exists p, mc_mldv2_report_packet st recs c = Some p /\
  pkt_legal (mc_addrs st) p /\ pk_kind p = KMldReport recs /\ pk_cause p = c /\
  pk_dst p = V6 v6_LINK_LOCAL_ALL_MLDV2_ROUTERS.
Proof.
  eexists. split; [reflexivity|]. cbn. repeat split; reflexivity.
Qed.

(* ---- dispatch_ip(..).unwrap() cannot fail for these packets *)

Lemma dispatch_ok st p : ip_is_multicast (pk_dst p) = true ->
  (mc_medium st = M154 -> exists a, pk_dst p = V6 a) ->
  exists l, mc_dispatch_unwrap st p = Ok l /\ (l = [p] \/ l = []).
Proof.
  intros Hm H154. unfold mc_dispatch_unwrap, mc_dispatch_ip.
  rewrite (ip_multicast_not_unspec _ Hm), Hm. cbn [orb negb].
  destruct (mc_medium st) eqn:M.
  - destruct (mc_pkt_ip_len p <=? mc_ip_mtu st); eexists; split; try reflexivity; auto.
  - destruct (mc_pkt_ip_len p <=? mc_ip_mtu st); eexists; split; try reflexivity; auto.
  - destruct (H154 eq_refl) as (a & ->). eexists; split; [reflexivity | auto].
Qed.

Lemma all_routers_multicast : ip_is_multicast (V4 v4_MULTICAST_ALL_ROUTERS) = true.
Proof. vm_compute. reflexivity. Qed.
Lemma mld_routers_multicast : ip_is_multicast (V6 v6_LINK_LOCAL_ALL_MLDV2_ROUTERS) = true.
Proof. vm_compute. reflexivity. Qed.

Lemma transmit_length dev : (length (snd (mc_transmit dev)) <= length dev)%nat.
Proof. destruct dev; cbn; lia. Qed.

(* ================================================================== the two `while let` loops *)

(* what a loop over the entries in state [s] guarantees (c = ghost cause of its packets) *)
Definition loop_post (st : mstate) (acc : list mpkt) (dev : list bool) (c : mcause) (s : gstate)
    (r : outcome egress_res) : Prop :=
  exists st' dev' new,
    r = Ok (st', dev', acc ++ new) /\
    same_base st st' /\ mc_igmp st' = mc_igmp st /\ mc_mld st' = mc_mld st /\
    tbl_inv (mc_groups st') /\
    (forall g, mc_state_has (mc_groups st') g = mc_state_has (mc_groups st) g) /\
    Permutation (mc_v4_member_keys (mc_groups st')) (mc_v4_member_keys (mc_groups st)) /\
    Permutation (mc_v6_member_keys (mc_groups st')) (mc_v6_member_keys (mc_groups st)) /\
    Forall (fun p => pkt_legal (mc_addrs st) p /\ pkt_groups_ok st p /\ pk_cause p = c) new /\
    (length new + count_state s (mc_groups st') <= count_state s (mc_groups st))%nat /\
    (forall s2, s2 <> s -> s2 <> GJoined -> count_state s2 (mc_groups st') = count_state s2 (mc_groups st)) /\
    (length (mc_groups st') <= length (mc_groups st))%nat /\
    (length dev' <= length dev)%nat /\
    (forallb (fun b => b) dev = true -> (count_state s (mc_groups st) <= length dev)%nat ->
     count_state s (mc_groups st') = O) /\
    (forallb (fun b => b) dev = true ->
     forallb (fun b => b) dev' = true /\
     (length dev <= length dev' + (count_state s (mc_groups st) - count_state s (mc_groups st')))%nat).

Ltac splits := repeat match goal with |- _ /\ _ => split end.

Lemma same_base_refl st : same_base st st.
Proof. unfold same_base. auto. Qed.

Lemma same_base_trans a b c : same_base a b -> same_base b c -> same_base a c.
Proof. unfold same_base. intros (A1 & A2 & A3 & A4) (B1 & B2 & B3 & B4). repeat split; congruence. Qed.

Lemma loop_post_done st acc dev c s : tbl_inv (mc_groups st) -> count_state s (mc_groups st) = O ->
  loop_post st acc dev c s (Ok (st, dev, acc)).
Proof.
  intros Hi Hc. exists st, dev, []. rewrite app_nil_r.
  splits; auto using same_base_refl; try apply Permutation_refl; try lia.
  intros F. split; [exact F | lia].
Qed.

(* a refused token: the loop breaks, nothing changed *)
Lemma loop_post_break st acc dev dev' c s : tbl_inv (mc_groups st) ->
  (length dev' <= length dev)%nat ->
  (forallb (fun b => b) dev = true -> (1 <= length dev)%nat -> False) ->
  (1 <= count_state s (mc_groups st))%nat ->
  loop_post st acc dev c s (Ok (st, dev', acc)).
Proof.
  intros Hi Hl Hd Hc. exists st, dev', []. rewrite app_nil_r.
  splits; auto using same_base_refl; try apply Permutation_refl; try lia.
  intros F. destruct dev as [|b d]; [|exfalso; apply Hd; [exact F | cbn; lia]].
  destruct dev'; [split; [reflexivity | cbn; lia] | cbn in Hl; lia].
Qed.

(* compose one iteration (state st -> st1, packets l) with the rest of the loop *)
Lemma loop_post_step st st1 acc l dev d c s r :
  same_base st st1 -> mc_igmp st1 = mc_igmp st -> mc_mld st1 = mc_mld st ->
  (forall g, mc_state_has (mc_groups st1) g = mc_state_has (mc_groups st) g) ->
  Permutation (mc_v4_member_keys (mc_groups st1)) (mc_v4_member_keys (mc_groups st)) ->
  Permutation (mc_v6_member_keys (mc_groups st1)) (mc_v6_member_keys (mc_groups st)) ->
  Forall (fun p => pkt_legal (mc_addrs st) p /\ pkt_groups_ok st p /\ pk_cause p = c) l ->
  (length l <= 1)%nat ->
  S (count_state s (mc_groups st1)) = count_state s (mc_groups st) ->
  (forall s2, s2 <> s -> s2 <> GJoined -> count_state s2 (mc_groups st1) = count_state s2 (mc_groups st)) ->
  (length (mc_groups st1) <= length (mc_groups st))%nat ->
  (length d <= length dev)%nat ->
  (forallb (fun b => b) dev = true -> forallb (fun b => b) d = true) ->
  (l <> [] -> S (length d) = length dev) ->
  (l = [] -> d = dev \/ S (length d) = length dev) ->
  loop_post st1 (acc ++ l) d c s r ->
  loop_post st acc dev c s r.
Proof.
  intros B I M Hs P4 P6 Fl Ll Cs Co Lg Ld Fd Hd1 Hd2 (st' & dev' & new & -> & B' & I' & M' & Ti & Hs' & P4' & P6' & F' & C' & Co' & Lg' & Ld' & Z' & Y').
  exists st', dev', (l ++ new). rewrite app_assoc.
  assert (B3 : mc_addrs st = mc_addrs st1) by apply B.
  splits.
  - reflexivity.
  - eapply same_base_trans; eassumption.
  - congruence.
  - congruence.
  - exact Ti.
  - intros g. rewrite Hs'. apply Hs.
  - eapply Permutation_trans; eassumption.
  - eapply Permutation_trans; eassumption.
  - apply Forall_app. split; [exact Fl|].
    eapply Forall_impl; [|exact F']. intros p (X1 & X2 & X3). rewrite B3. split; [exact X1 | split; [| exact X3]].
    eapply pkt_groups_ok_ext; [symmetry; exact B3 | | exact X2]. intros g. apply Hs.
  - rewrite app_length. lia.
  - intros s2 H1 H2. rewrite Co' by assumption. apply Co; assumption.
  - lia.
  - lia.
  - intros F L. apply Z'; [apply Fd; exact F|].
    destruct l as [|p l'].
    + destruct (Hd2 eq_refl) as [-> | X]; lia.
    + assert (S (length d) = length dev) by (apply Hd1; discriminate). lia.
  - intros F. destruct (Y' (Fd F)) as (Y1 & Y2). split; [exact Y1|].
    assert (length dev <= S (length d))%nat.
    { destruct l as [|p l'].
      - destruct (Hd2 eq_refl) as [-> | X]; lia.
      - assert (S (length d) = length dev) by (apply Hd1; discriminate). lia. }
    lia.
Qed.

Lemma cfg_ok_groups st l : cfg_ok st -> cfg_ok (mc_set_groups st l).
Proof. unfold cfg_ok. cbn. auto. Qed.

Lemma forallb_tail (b : bool) d : forallb (fun x => x) (b :: d) = true -> forallb (fun x => x) d = true.
Proof. cbn. intros H. apply andb_true_iff in H. apply H. Qed.

(* facts about one iteration of the join loop *)
Lemma join_iter_facts st addr : tbl_inv (mc_groups st) ->
  mc_find_state GJoining (mc_groups st) = Some addr ->
  let l1 := mc_set addr GJoined (mc_groups st) in
  mc_insert addr GJoined (mc_groups st) = Some l1 /\
  tbl_inv l1 /\ ip_is_multicast addr = true /\ mc_state_has (mc_groups st) addr = true /\
  (forall g, mc_state_has l1 g = mc_state_has (mc_groups st) g) /\
  mc_v4_member_keys l1 = mc_v4_member_keys (mc_groups st) /\
  mc_v6_member_keys l1 = mc_v6_member_keys (mc_groups st) /\
  S (count_state GJoining l1) = count_state GJoining (mc_groups st) /\
  (forall s2, s2 <> GJoining -> s2 <> GJoined -> count_state s2 l1 = count_state s2 (mc_groups st)) /\
  length l1 = length (mc_groups st).
Proof.
  intros Hi F. cbv zeta. apply find_state_in in F.
  assert (Hn : NoDup (keys (mc_groups st))) by apply Hi.
  assert (G : mc_get addr (mc_groups st) = Some GJoining) by (apply mc_get_nodup; assumption).
  assert (K : In addr (keys (mc_groups st))) by (eapply mc_get_some_key; exact G).
  splits.
  - apply mc_insert_present. exact K.
  - apply tbl_inv_set. exact Hi.
  - destruct Hi as (_ & Hm & _). rewrite Forall_forall in Hm. apply Hm. exact K.
  - unfold mc_state_has. rewrite G. reflexivity.
  - intros g. unfold mc_state_has. destruct (ip_eqb g addr) eqn:E.
    + apply ip_eqb_eq in E. subst g. rewrite mc_get_set_same by exact K. rewrite G. reflexivity.
    + apply ip_eqb_neq in E. rewrite mc_get_set_other by exact E. reflexivity.
  - apply member4_set with (s := GJoining); [exact G | split; discriminate].
  - apply member6_set with (s := GJoining); [exact G | split; discriminate].
  - apply count_set_from; [exact G | discriminate].
  - intros s2 H1 H2. apply count_set_other with (s0 := GJoining); [exact G | congruence | congruence].
  - apply length_mc_set.
Qed.

Lemma joins_spec : forall fuel st dev acc,
  tbl_inv (mc_groups st) -> cfg_ok st -> (count_state GJoining (mc_groups st) <= fuel)%nat ->
  loop_post st acc dev CJoin GJoining (mc_egress_joins fuel st dev acc).
Proof.
  induction fuel as [|f IH]; intros st dev acc Hi Hc Hf.
  - assert (Z : count_state GJoining (mc_groups st) = O) by lia.
    cbn [mc_egress_joins]. rewrite (count_zero_find _ _ Z). apply loop_post_done; assumption.
  - cbn [mc_egress_joins]. destruct (mc_find_state GJoining (mc_groups st)) as [addr|] eqn:F.
    2:{ apply loop_post_done; [exact Hi | apply find_state_none; exact F]. }
    pose proof (find_state_some_count _ _ _ F) as C1.
    destruct (join_iter_facts st addr Hi F) as (Hins & Hi1 & Hm & Hh & Hs & M4 & M6 & Cj & Co & Ll).
    set (st1 := mc_set_groups st (mc_set addr GJoined (mc_groups st))).
    assert (IH1 : forall d a, loop_post st1 a d CJoin GJoining (mc_egress_joins f st1 d a)).
    { intros d a. apply IH; [exact Hi1 | apply cfg_ok_groups; exact Hc | cbn [mc_groups st1 mc_set_groups]; lia]. }
    assert (STEP : forall l d, 
      Forall (fun p => pkt_legal (mc_addrs st) p /\ pkt_groups_ok st p /\ pk_cause p = CJoin) l ->
      (length l <= 1)%nat -> (length d <= length dev)%nat ->
      (forallb (fun b => b) dev = true -> forallb (fun b => b) d = true) ->
      (l <> [] -> S (length d) = length dev) -> (l = [] -> d = dev \/ S (length d) = length dev) ->
      loop_post st acc dev CJoin GJoining (mc_egress_joins f st1 d (acc ++ l))).
    { intros l d X1 X2 X3 X4 X5 X6.
      apply loop_post_step with (st1 := st1) (l := l) (d := d); try assumption; try reflexivity.
      - unfold same_base. cbn. auto.
      - cbn [mc_groups st1 mc_set_groups]. rewrite M4. apply Permutation_refl.
      - cbn [mc_groups st1 mc_set_groups]. rewrite M6. apply Permutation_refl.
      - cbn [mc_groups st1 mc_set_groups]. lia.
      - apply IH1. }
    destruct addr as [a|a].
    + (* IPv4 group: IGMPv2 report *)
      destruct (mc_igmp_report_packet st IgmpV2 a CJoin) as [p|] eqn:P.
      * destruct (igmp_report_packet_spec _ _ _ _ _ P) as (PL & PK & PC & PD & (a4 & A4)).
        destruct dev as [|b d]; cbn [mc_transmit].
        -- apply loop_post_break; [exact Hi | cbn; lia | cbn; lia | exact C1].
        -- destruct b.
           ++ destruct (dispatch_ok st p) as (l & D & Dl).
              { rewrite PD. exact Hm. }
              { intros M. rewrite (Hc M) in A4. discriminate. }
              rewrite D. cbn [obind]. rewrite Hins. fold st1.
              apply STEP.
              ** destruct Dl as [-> | ->]; [|constructor]. constructor; [|constructor].
                 split; [exact PL|]. split; [|exact PC]. unfold pkt_groups_ok. rewrite PK.
                 unfold mc_has_multicast_group. rewrite Hh. reflexivity.
              ** destruct Dl as [-> | ->]; cbn; lia.
              ** cbn; lia.
              ** apply forallb_tail.
              ** intros _. reflexivity.
              ** intros _. right. reflexivity.
           ++ apply loop_post_break; [exact Hi | cbn; lia | cbn; discriminate | exact C1].
      * rewrite Hins. fold st1. rewrite <- (app_nil_r acc) at 2. apply STEP; try (cbn; lia); auto.
        congruence.
    + (* IPv6 group: MLDv2 report, ChangeToInclude *)
      destruct (mld_report_packet_spec st [(RChangeToInclude, a)] CJoin) as (p & P & PL & PK & PC & PD).
      rewrite P. destruct dev as [|b d]; cbn [mc_transmit].
      * apply loop_post_break; [exact Hi | cbn; lia | cbn; lia | exact C1].
      * destruct b.
        -- destruct (dispatch_ok st p) as (l & D & Dl).
           { rewrite PD. apply mld_routers_multicast. }
           { intros _. rewrite PD. eexists. reflexivity. }
           rewrite D. cbn [obind]. rewrite Hins. fold st1.
           apply STEP.
           ++ destruct Dl as [-> | ->]; [|constructor]. constructor; [|constructor].
              split; [exact PL|]. split; [|exact PC]. unfold pkt_groups_ok. rewrite PK.
              constructor; [|constructor]. unfold rec_ok. cbn.
              unfold mc_has_multicast_group. rewrite Hh. reflexivity.
           ++ destruct Dl as [-> | ->]; cbn; lia.
           ++ cbn; lia.
           ++ apply forallb_tail.
           ++ intros _. reflexivity.
           ++ intros _. right. reflexivity.
        -- apply loop_post_break; [exact Hi | cbn; lia | cbn; discriminate | exact C1].
Qed.

(* facts about one iteration of the leave loop *)
Lemma leave_iter_facts st addr : tbl_inv (mc_groups st) ->
  mc_find_state GLeaving (mc_groups st) = Some addr ->
  let l1 := mc_remove addr (mc_groups st) in
  tbl_inv l1 /\ ip_is_multicast addr = true /\ mc_state_has (mc_groups st) addr = false /\
  (forall g, mc_state_has l1 g = mc_state_has (mc_groups st) g) /\
  Permutation (mc_v4_member_keys l1) (mc_v4_member_keys (mc_groups st)) /\
  Permutation (mc_v6_member_keys l1) (mc_v6_member_keys (mc_groups st)) /\
  S (count_state GLeaving l1) = count_state GLeaving (mc_groups st) /\
  (forall s2, s2 <> GLeaving -> s2 <> GJoined -> count_state s2 l1 = count_state s2 (mc_groups st)) /\
  (length l1 <= length (mc_groups st))%nat.
Proof.
  intros Hi F. cbv zeta. apply find_state_in in F.
  assert (Hn : NoDup (keys (mc_groups st))) by apply Hi.
  assert (G : mc_get addr (mc_groups st) = Some GLeaving) by (apply mc_get_nodup; assumption).
  assert (K : In addr (keys (mc_groups st))) by (eapply mc_get_some_key; exact G).
  splits.
  - apply tbl_inv_remove. exact Hi.
  - destruct Hi as (_ & Hm & _). rewrite Forall_forall in Hm. apply Hm. exact K.
  - unfold mc_state_has. rewrite G. reflexivity.
  - intros g. unfold mc_state_has. destruct (ip_eqb g addr) eqn:E.
    + apply ip_eqb_eq in E. subst g. rewrite mc_remove_gone by exact Hn. rewrite G. reflexivity.
    + apply ip_eqb_neq in E. rewrite mc_remove_other by assumption. reflexivity.
  - apply member4_remove_leaving. exact G.
  - apply member6_remove_leaving. exact G.
  - apply count_remove. exact G.
  - intros s2 H1 H2. apply count_remove_other with (s0 := GLeaving); [exact G | congruence].
  - pose proof (length_mc_remove _ _ _ G). lia.
Qed.

Lemma leaves_spec : forall fuel st dev acc,
  tbl_inv (mc_groups st) -> cfg_ok st -> (count_state GLeaving (mc_groups st) <= fuel)%nat ->
  loop_post st acc dev CLeave GLeaving (mc_egress_leaves fuel st dev acc).
Proof.
  induction fuel as [|f IH]; intros st dev acc Hi Hc Hf.
  - assert (Z : count_state GLeaving (mc_groups st) = O) by lia.
    cbn [mc_egress_leaves]. rewrite (count_zero_find _ _ Z). apply loop_post_done; assumption.
  - cbn [mc_egress_leaves]. destruct (mc_find_state GLeaving (mc_groups st)) as [addr|] eqn:F.
    2:{ apply loop_post_done; [exact Hi | apply find_state_none; exact F]. }
    pose proof (find_state_some_count _ _ _ F) as C1.
    destruct (leave_iter_facts st addr Hi F) as (Hi1 & Hm & Hh & Hs & M4 & M6 & Cj & Co & Ll).
    set (st1 := mc_set_groups st (mc_remove addr (mc_groups st))).
    assert (IH1 : forall d a, loop_post st1 a d CLeave GLeaving (mc_egress_leaves f st1 d a)).
    { intros d a. apply IH; [exact Hi1 | apply cfg_ok_groups; exact Hc | cbn [mc_groups st1 mc_set_groups]; lia]. }
    assert (STEP : forall l d, 
      Forall (fun p => pkt_legal (mc_addrs st) p /\ pkt_groups_ok st p /\ pk_cause p = CLeave) l ->
      (length l <= 1)%nat -> (length d <= length dev)%nat ->
      (forallb (fun b => b) dev = true -> forallb (fun b => b) d = true) ->
      (l <> [] -> S (length d) = length dev) -> (l = [] -> d = dev \/ S (length d) = length dev) ->
      loop_post st acc dev CLeave GLeaving (mc_egress_leaves f st1 d (acc ++ l))).
    { intros l d X1 X2 X3 X4 X5 X6.
      apply loop_post_step with (st1 := st1) (l := l) (d := d); try assumption; try reflexivity.
      - unfold same_base. cbn. auto.
      - apply IH1. }
    destruct addr as [a|a].
    + (* IPv4 group: IGMP leave *)
      destruct (mc_igmp_leave_packet st a CLeave) as [p|] eqn:P.
      * destruct (igmp_leave_packet_spec _ _ _ _ P) as (PL & PK & PC & PD & (a4 & A4)).
        destruct dev as [|b d]; cbn [mc_transmit].
        -- apply loop_post_break; [exact Hi | cbn; lia | cbn; lia | exact C1].
        -- destruct b.
           ++ destruct (dispatch_ok st p) as (l & D & Dl).
              { rewrite PD. apply all_routers_multicast. }
              { intros M. rewrite (Hc M) in A4. discriminate. }
              rewrite D. cbn [obind]. fold st1.
              apply STEP.
              ** destruct Dl as [-> | ->]; [|constructor]. constructor; [|constructor].
                 split; [exact PL|]. split; [|exact PC]. unfold pkt_groups_ok. rewrite PK.
                 split; [exact Hh | exact Hm].
              ** destruct Dl as [-> | ->]; cbn; lia.
              ** cbn; lia.
              ** apply forallb_tail.
              ** intros _. reflexivity.
              ** intros _. right. reflexivity.
           ++ apply loop_post_break; [exact Hi | cbn; lia | cbn; discriminate | exact C1].
      * fold st1. rewrite <- (app_nil_r acc) at 2. apply STEP; try (cbn; lia); auto.
        congruence.
    + (* IPv6 group: MLDv2 report, ChangeToExclude *)
      destruct (mld_report_packet_spec st [(RChangeToExclude, a)] CLeave) as (p & P & PL & PK & PC & PD).
      rewrite P. destruct dev as [|b d]; cbn [mc_transmit].
      * apply loop_post_break; [exact Hi | cbn; lia | cbn; lia | exact C1].
      * destruct b.
        -- destruct (dispatch_ok st p) as (l & D & Dl).
           { rewrite PD. apply mld_routers_multicast. }
           { intros _. rewrite PD. eexists. reflexivity. }
           rewrite D. cbn [obind]. fold st1.
           apply STEP.
           ++ destruct Dl as [-> | ->]; [|constructor]. constructor; [|constructor].
              split; [exact PL|]. split; [|exact PC]. unfold pkt_groups_ok. rewrite PK.
              constructor; [|constructor]. unfold rec_ok. cbn. split; [exact Hh | exact Hm].
           ++ destruct Dl as [-> | ->]; cbn; lia.
           ++ cbn; lia.
           ++ apply forallb_tail.
           ++ intros _. reflexivity.
           ++ intros _. right. reflexivity.
        -- apply loop_post_break; [exact Hi | cbn; lia | cbn; discriminate | exact C1].
Qed.

(* ================================================================== the two report machines *)

(* IGMP membership reports the pending query response may still send *)
Definition igmp_reports_left (st : mstate) : nat :=
  match mc_igmp st with
  | IgInactive => O
  | IgSpecific _ _ _ => 1%nat
  | IgGeneral _ _ _ idx => (length (mc_v4_member_keys (mc_groups st)) - Z.to_nat idx)%nat
  end.

Definition mld_reports_left (st : mstate) : nat :=
  match mc_mld st with MlInactive => O | _ => 1%nat end.

Definition resp_cause (p : mpkt) : Prop := pk_cause p = CSpecific \/ pk_cause p = CGeneral.

Lemma egress_igmp_spec st dev now acc : tbl_inv (mc_groups st) -> cfg_ok st -> igmp_ok (mc_igmp st) ->
  exists st' dev' new,
    mc_egress_igmp st dev now acc = Ok (st', dev', acc ++ new) /\
    same_base st st' /\ mc_groups st' = mc_groups st /\ mc_mld st' = mc_mld st /\ igmp_ok (mc_igmp st') /\
    Forall (fun p => pkt_legal (mc_addrs st) p /\ pkt_groups_ok st p /\ resp_cause p /\
                     exists v g, pk_kind p = KIgmpReport v g) new /\
    (length new + igmp_reports_left st' <= igmp_reports_left st)%nat /\
    (length new <= 1)%nat /\ (length dev' <= length dev)%nat.
Proof.
  intros Hi Hc Hk.
  assert (NOP : exists st' dev' new,
    Ok (st, dev, acc) = Ok (st', dev', acc ++ new) /\
    same_base st st' /\ mc_groups st' = mc_groups st /\ mc_mld st' = mc_mld st /\ igmp_ok (mc_igmp st') /\
    Forall (fun p => pkt_legal (mc_addrs st) p /\ pkt_groups_ok st p /\ resp_cause p /\
                     exists v g, pk_kind p = KIgmpReport v g) new /\
    (length new + igmp_reports_left st' <= igmp_reports_left st)%nat /\
    (length new <= 1)%nat /\ (length dev' <= length dev)%nat).
  { exists st, dev, []. rewrite app_nil_r. splits; auto using same_base_refl; try (cbn; lia). }
  assert (NOPD : forall d : list bool, (length d <= length dev)%nat -> exists st' dev' new,
    Ok (st, d, acc) = Ok (st', dev', acc ++ new) /\
    same_base st st' /\ mc_groups st' = mc_groups st /\ mc_mld st' = mc_mld st /\ igmp_ok (mc_igmp st') /\
    Forall (fun p => pkt_legal (mc_addrs st) p /\ pkt_groups_ok st p /\ resp_cause p /\
                     exists v g, pk_kind p = KIgmpReport v g) new /\
    (length new + igmp_reports_left st' <= igmp_reports_left st)%nat /\
    (length new <= 1)%nat /\ (length dev' <= length dev)%nat).
  { intros d Hd. exists st, d, []. rewrite app_nil_r. splits; auto using same_base_refl; try (cbn; lia). }
  unfold mc_egress_igmp. destruct (mc_igmp st) as [|ver timeout interval idx|ver timeout group] eqn:I.
  - exact NOP.
  - destruct (now >=? timeout); [|exact NOP].
    destruct (nth_error (mc_v4_member_keys (mc_groups st)) (Z.to_nat idx)) as [addr|] eqn:N.
    + assert (Hin : In addr (mc_v4_member_keys (mc_groups st))) by (eapply nth_error_In; exact N).
      assert (Hh : mc_has_multicast_group st (V4 addr) = true).
      { unfold mc_has_multicast_group. rewrite (member4_has _ _ (proj1 Hi) Hin). reflexivity. }
      assert (Hlt : (Z.to_nat idx < length (mc_v4_member_keys (mc_groups st)))%nat)
        by (apply nth_error_Some; congruence).
      destruct (mc_igmp_report_packet st ver addr CGeneral) as [p|] eqn:P; [|exact NOP].
      destruct (igmp_report_packet_spec _ _ _ _ _ P) as (PL & PK & PC & PD & (a4 & A4)).
      destruct dev as [|b d]; cbn [mc_transmit]; [apply NOPD; cbn; lia|].
      destruct b; [|apply NOPD; cbn; lia].
      destruct (dispatch_ok st p) as (l & D & Dl).
      { rewrite PD. apply (has_group_is_multicast st (V4 addr) Hi Hh). }
      { intros M. rewrite (Hc M) in A4. discriminate. }
      rewrite D. cbn [obind].
      eexists _, d, l. splits; try reflexivity.
      * unfold same_base. cbn. auto.
      * cbn. cbn in Hk. lia.
      * destruct Dl as [-> | ->]; [|constructor]. constructor; [|constructor].
        split; [exact PL|]. split; [unfold pkt_groups_ok; rewrite PK; exact Hh|].
        split; [right; exact PC | eauto].
      * unfold igmp_reports_left. cbn [mc_igmp mc_set_igmp mc_groups]. rewrite I. cbn in Hk.
        replace (Z.to_nat (idx + 1)) with (S (Z.to_nat idx)) by lia.
        destruct Dl as [-> | ->]; cbn [length]; lia.
      * destruct Dl as [-> | ->]; cbn; lia.
      * cbn. lia.
    + exists (mc_set_igmp st IgInactive), dev, []. rewrite app_nil_r.
      splits; try reflexivity; try (cbn; lia); try (constructor; fail); unfold same_base; cbn; auto.
  - destruct (now >=? timeout); [|exact NOP].
    destruct (mc_has_multicast_group st (V4 group)) eqn:Hh; cbn [negb].
    + destruct (mc_igmp_report_packet st ver group CSpecific) as [p|] eqn:P; [|exact NOP].
      destruct (igmp_report_packet_spec _ _ _ _ _ P) as (PL & PK & PC & PD & (a4 & A4)).
      destruct dev as [|b d]; cbn [mc_transmit]; [apply NOPD; cbn; lia|].
      destruct b; [|apply NOPD; cbn; lia].
      destruct (dispatch_ok st p) as (l & D & Dl).
      { rewrite PD. apply (has_group_is_multicast st (V4 group) Hi Hh). }
      { intros M. rewrite (Hc M) in A4. discriminate. }
      rewrite D. cbn [obind].
      eexists _, d, l. splits; try reflexivity.
      * unfold same_base. cbn. auto.
      * destruct Dl as [-> | ->]; [|constructor]. constructor; [|constructor].
        split; [exact PL|]. split; [unfold pkt_groups_ok; rewrite PK; exact Hh|].
        split; [left; exact PC | eauto].
      * unfold igmp_reports_left. cbn [mc_igmp mc_set_igmp]. rewrite I.
        destruct Dl as [-> | ->]; cbn [length]; lia.
      * destruct Dl as [-> | ->]; cbn; lia.
      * cbn. lia.
    + exists (mc_set_igmp st IgInactive), dev, []. rewrite app_nil_r.
      splits; try reflexivity; try (cbn; lia); try (constructor; fail); unfold same_base; cbn; auto.
Qed.

Lemma egress_mld_spec st dev now acc : tbl_inv (mc_groups st) ->
  exists st' dev' new,
    mc_egress_mld st dev now acc = Ok (st', dev', acc ++ new) /\
    same_base st st' /\ mc_groups st' = mc_groups st /\ mc_igmp st' = mc_igmp st /\
    Forall (fun p => pkt_legal (mc_addrs st) p /\ pkt_groups_ok st p /\ resp_cause p /\
                     exists recs, pk_kind p = KMldReport recs) new /\
    (length new + mld_reports_left st' <= mld_reports_left st)%nat /\
    (length new <= 1)%nat /\ (length dev' <= length dev)%nat /\
    (* a due response is given up whether or not it could be sent *)
    (match mc_mld st with
     | MlGeneral t | MlSpecific _ t => t <= now -> mc_mld st' = MlInactive
     | MlInactive => mc_mld st' = MlInactive
     end).
Proof.
  intros Hi.
  assert (INACT : forall (d : list bool) (l accl : list mpkt), accl = acc ++ l ->
    (length d <= length dev)%nat -> (length l <= 1)%nat ->
    mc_mld st <> MlInactive ->
    (match mc_mld st with
     | MlGeneral t | MlSpecific _ t => t <= now -> True
     | MlInactive => True end) ->
    Forall (fun p => pkt_legal (mc_addrs st) p /\ pkt_groups_ok st p /\ resp_cause p /\
                     exists recs, pk_kind p = KMldReport recs) l ->
    exists st' dev' new,
    Ok (mc_set_mld st MlInactive, d, accl) = Ok (st', dev', acc ++ new) /\
    same_base st st' /\ mc_groups st' = mc_groups st /\ mc_igmp st' = mc_igmp st /\
    Forall (fun p => pkt_legal (mc_addrs st) p /\ pkt_groups_ok st p /\ resp_cause p /\
                     exists recs, pk_kind p = KMldReport recs) new /\
    (length new + mld_reports_left st' <= mld_reports_left st)%nat /\
    (length new <= 1)%nat /\ (length dev' <= length dev)%nat /\
    (match mc_mld st with
     | MlGeneral t | MlSpecific _ t => t <= now -> mc_mld st' = MlInactive
     | MlInactive => mc_mld st' = MlInactive
     end)).
  { intros d l accl -> Hd Hl Hne _ Fl. exists (mc_set_mld st MlInactive), d, l. splits; try reflexivity; try assumption.
    - unfold same_base. cbn. auto.
    - unfold mld_reports_left. cbn [mc_mld mc_set_mld]. destruct (mc_mld st); [congruence | lia | lia].
    - destruct (mc_mld st); reflexivity. }
  unfold mc_egress_mld. destruct (mc_mld st) as [|timeout|group timeout] eqn:M.
  - exists st, dev, []. rewrite app_nil_r. splits; auto using same_base_refl; try (cbn; lia).
  - destruct (now >=? timeout) eqn:T.
    2:{ exists st, dev, []. rewrite app_nil_r. splits; auto using same_base_refl; try (cbn; lia). }
    destruct (mld_report_packet_spec st (map (fun a => (RModeIsExclude, a)) (mc_v6_member_keys (mc_groups st))) CGeneral)
      as (p & P & PL & PK & PC & PD).
    rewrite P. destruct dev as [|b d]; cbn [mc_transmit].
    + apply INACT with (l := []); try (cbn; lia); [symmetry; apply app_nil_r | discriminate | constructor].
    + destruct b.
      * destruct (dispatch_ok st p) as (l & D & Dl).
        { rewrite PD. apply mld_routers_multicast. }
        { intros _. rewrite PD. eexists. reflexivity. }
        rewrite D. cbn [obind]. apply INACT with (l := l); try (cbn; lia); [reflexivity | destruct Dl as [-> | ->]; cbn; lia | discriminate |].
        destruct Dl as [-> | ->]; [|constructor]. constructor; [|constructor].
        split; [exact PL|]. split; [|split; [right; exact PC | eauto]].
        unfold pkt_groups_ok. rewrite PK. apply Forall_forall. intros [t a] Hin.
        apply in_map_iff in Hin. destruct Hin as (a' & E & Hin). inv E. unfold rec_ok. cbn.
        unfold mc_has_multicast_group. rewrite (member6_has _ _ (proj1 Hi) Hin). reflexivity.
      * apply INACT with (l := []); try (cbn; lia); [symmetry; apply app_nil_r | discriminate | constructor].
  - destruct (now >=? timeout) eqn:T.
    2:{ exists st, dev, []. rewrite app_nil_r. splits; auto using same_base_refl; try (cbn; lia). }
    destruct (mc_has_multicast_group st (V6 group)) eqn:Hh; cbn [negb].
    2:{ apply INACT with (l := []); try (cbn; lia); [symmetry; apply app_nil_r | discriminate | constructor]. }
    destruct (mld_report_packet_spec st [(RModeIsExclude, group)] CSpecific) as (p & P & PL & PK & PC & PD).
    rewrite P. destruct dev as [|b d]; cbn [mc_transmit].
    + apply INACT with (l := []); try (cbn; lia); [symmetry; apply app_nil_r | discriminate | constructor].
    + destruct b.
      * destruct (dispatch_ok st p) as (l & D & Dl).
        { rewrite PD. apply mld_routers_multicast. }
        { intros _. rewrite PD. eexists. reflexivity. }
        rewrite D. cbn [obind]. apply INACT with (l := l); try (cbn; lia); [reflexivity | destruct Dl as [-> | ->]; cbn; lia | discriminate |].
        destruct Dl as [-> | ->]; [|constructor]. constructor; [|constructor].
        split; [exact PL|]. split; [|split; [left; exact PC | eauto]].
        unfold pkt_groups_ok. rewrite PK. constructor; [|constructor]. unfold rec_ok. cbn. exact Hh.
      * apply INACT with (l := []); try (cbn; lia); [symmetry; apply app_nil_r | discriminate | constructor].
Qed.

(* ================================================================== one pass of multicast_egress *)

Definition pkt_ok (st : mstate) (p : mpkt) : Prop := pkt_legal (mc_addrs st) p /\ pkt_groups_ok st p.

Lemma pkt_ok_transfer a b (X : mpkt -> Prop) l : mc_addrs b = mc_addrs a ->
  (forall g, mc_state_has (mc_groups b) g = mc_state_has (mc_groups a) g) ->
  Forall (fun p => pkt_legal (mc_addrs b) p /\ pkt_groups_ok b p /\ X p) l ->
  Forall (fun p => pkt_ok a p /\ X p) l.
Proof.
  intros Ha Hs. apply Forall_impl. intros p (H1 & H2 & H3). split; [|exact H3]. split.
  - rewrite <- Ha. exact H1.
  - eapply pkt_groups_ok_ext; [exact Ha | exact Hs | exact H2].
Qed.

(* query-response IGMP reports among the packets of one pass *)
Definition is_igmp_response (p : mpkt) : bool :=
  match pk_kind p, pk_cause p with
  | KIgmpReport _ _, CSpecific | KIgmpReport _ _, CGeneral => true
  | _, _ => false
  end.
Definition is_mld_response (p : mpkt) : bool :=
  match pk_kind p, pk_cause p with
  | KMldReport _, CSpecific | KMldReport _, CGeneral => true
  | _, _ => false
  end.

Lemma count_filter_none {A} (f : A -> bool) l : Forall (fun x => f x = false) l -> length (filter f l) = O.
Proof. induction 1 as [|x t H _ IH]; cbn; [reflexivity|]. rewrite H. exact IH. Qed.

Lemma filter_length_le {A} (f : A -> bool) l : (length (filter f l) <= length l)%nat.
Proof. induction l as [|x t IH]; cbn; [lia|]. destruct (f x); cbn; lia. Qed.

Theorem egress_spec st dev now : mc_inv st ->
  exists st' dev' pkts,
    mc_multicast_egress st dev now = Ok (st', dev', pkts) /\
    same_base st st' /\ mc_inv st' /\
    (forall g, mc_state_has (mc_groups st') g = mc_state_has (mc_groups st) g) /\
    Forall (pkt_ok st) pkts /\
    (length pkts <= count_state GJoining (mc_groups st) + count_state GLeaving (mc_groups st) + 2)%nat /\
    (length (mc_groups st') <= length (mc_groups st))%nat /\
    (length (filter is_igmp_response pkts) + igmp_reports_left st' <= igmp_reports_left st)%nat /\
    (length (filter is_mld_response pkts) + mld_reports_left st' <= mld_reports_left st)%nat /\
    (length dev' <= length dev)%nat /\
    (forallb (fun b => b) dev = true ->
     (count_state GJoining (mc_groups st) + count_state GLeaving (mc_groups st) <= length dev)%nat ->
     count_state GJoining (mc_groups st') = O /\ count_state GLeaving (mc_groups st') = O) /\
    (match mc_mld st with
     | MlGeneral t | MlSpecific _ t => t <= now -> mc_mld st' = MlInactive
     | MlInactive => mc_mld st' = MlInactive
     end).
Proof.
  intros (Hi & Ha & Hc & Hk). unfold mc_multicast_egress.
  destruct (joins_spec (length (mc_groups st)) st dev [] Hi Hc (count_le_length _ _))
    as (st1 & d1 & n1 & E1 & B1 & I1 & M1 & T1 & S1 & P41 & P61 & F1 & C1 & O1 & L1 & D1 & Z1 & Y1).
  rewrite E1. cbn [obind app].
  assert (Hc1 : cfg_ok st1).
  { unfold cfg_ok. destruct B1 as (X1 & _ & X3 & _). rewrite <- X1, <- X3. exact Hc. }
  destruct (leaves_spec (length (mc_groups st1)) st1 d1 n1 T1 Hc1 (count_le_length _ _))
    as (st2 & d2 & n2 & E2 & B2 & I2 & M2 & T2 & S2 & P42 & P62 & F2 & C2 & O2 & L2 & D2 & Z2 & Y2).
  rewrite E2. cbn [obind].
  assert (Hc2 : cfg_ok st2).
  { unfold cfg_ok. destruct B2 as (X1 & _ & X3 & _). rewrite <- X1, <- X3. exact Hc1. }
  assert (Hk2 : igmp_ok (mc_igmp st2)) by (rewrite I2, I1; exact Hk).
  destruct (egress_igmp_spec st2 d2 now (n1 ++ n2) T2 Hc2 Hk2)
    as (st3 & d3 & n3 & E3 & B3 & G3 & M3 & K3 & F3 & W3 & L3 & D3).
  rewrite E3. cbn [obind].
  assert (T3 : tbl_inv (mc_groups st3)) by (rewrite G3; exact T2).
  destruct (egress_mld_spec st3 d3 now ((n1 ++ n2) ++ n3) T3)
    as (st4 & d4 & n4 & E4 & B4 & G4 & I4 & F4 & W4 & L4 & D4 & Q4).
  rewrite E4.
  (* addresses and membership are the same in all intermediate states *)
  assert (A1 : mc_addrs st1 = mc_addrs st) by (symmetry; apply B1).
  assert (A2 : mc_addrs st2 = mc_addrs st) by (rewrite <- A1; symmetry; apply B2).
  assert (A3 : mc_addrs st3 = mc_addrs st) by (rewrite <- A2; symmetry; apply B3).
  assert (A4 : mc_addrs st4 = mc_addrs st) by (rewrite <- A3; symmetry; apply B4).
  assert (H2s : forall g, mc_state_has (mc_groups st2) g = mc_state_has (mc_groups st) g)
    by (intros g; rewrite S2; apply S1).
  assert (H3s : forall g, mc_state_has (mc_groups st3) g = mc_state_has (mc_groups st) g)
    by (intros g; rewrite G3; apply H2s).
  assert (H4s : forall g, mc_state_has (mc_groups st4) g = mc_state_has (mc_groups st) g)
    by (intros g; rewrite G4; apply H3s).
  pose proof (pkt_ok_transfer st st _ n1 eq_refl (fun g => eq_refl) F1) as F1'.
  pose proof (pkt_ok_transfer st st1 _ n2 A1 S1 F2) as F2'.
  pose proof (pkt_ok_transfer st st2 _ n3 A2 H2s F3) as F3'.
  pose proof (pkt_ok_transfer st st3 _ n4 A3 H3s F4) as F4'.
  exists st4, d4, (((n1 ++ n2) ++ n3) ++ n4). splits.
  - reflexivity.
  - eapply same_base_trans; [|exact B4]. eapply same_base_trans; [|exact B3].
    eapply same_base_trans; [exact B1 | exact B2].
  - unfold mc_inv. splits.
    + rewrite G4. exact T3.
    + rewrite A4. exact Ha.
    + unfold cfg_ok. rewrite A4.
      assert (mc_medium st4 = mc_medium st).
      { destruct B1 as (X1 & _), B2 as (X2 & _), B3 as (X3 & _), B4 as (X4 & _). congruence. }
      rewrite H. exact Hc.
    + rewrite I4. exact K3.
  - exact H4s.
  - repeat (apply Forall_app; split); eapply Forall_impl; try eassumption; cbn; tauto.
  - rewrite !app_length.
    assert (count_state GLeaving (mc_groups st1) = count_state GLeaving (mc_groups st))
      by (apply O1; discriminate).
    lia.
  - rewrite G4, G3. lia.
  - (* IGMP responses: only the third stage emits them *)
    rewrite !filter_app, !app_length.
    rewrite (count_filter_none is_igmp_response n1).
    2:{ eapply Forall_impl; [|exact F1]. intros p (_ & _ & X). unfold is_igmp_response. rewrite X. destruct (pk_kind p); reflexivity. }
    rewrite (count_filter_none is_igmp_response n2).
    2:{ eapply Forall_impl; [|exact F2]. intros p (_ & _ & X). unfold is_igmp_response. rewrite X. destruct (pk_kind p); reflexivity. }
    rewrite (count_filter_none is_igmp_response n4).
    2:{ eapply Forall_impl; [|exact F4]. intros p (_ & _ & _ & (r & X)). unfold is_igmp_response. rewrite X. reflexivity. }
    pose proof (filter_length_le is_igmp_response n3).
    assert (R4 : igmp_reports_left st4 = igmp_reports_left st3)
      by (unfold igmp_reports_left; rewrite I4, G4; reflexivity).
    assert (R2 : igmp_reports_left st2 = igmp_reports_left st).
    { unfold igmp_reports_left. rewrite I2, I1.
      rewrite (Permutation_length P42), (Permutation_length P41). reflexivity. }
    lia.
  - rewrite !filter_app, !app_length.
    rewrite (count_filter_none is_mld_response n1).
    2:{ eapply Forall_impl; [|exact F1]. intros p (_ & _ & X). unfold is_mld_response. rewrite X. destruct (pk_kind p); reflexivity. }
    rewrite (count_filter_none is_mld_response n2).
    2:{ eapply Forall_impl; [|exact F2]. intros p (_ & _ & X). unfold is_mld_response. rewrite X. destruct (pk_kind p); reflexivity. }
    rewrite (count_filter_none is_mld_response n3).
    2:{ eapply Forall_impl; [|exact F3]. intros p (_ & _ & _ & (v & g & X)). unfold is_mld_response. rewrite X. reflexivity. }
    pose proof (filter_length_le is_mld_response n4).
    assert (R3 : mld_reports_left st3 = mld_reports_left st)
      by (unfold mld_reports_left; rewrite M3, M2, M1; reflexivity).
    lia.
  - lia.
  - intros Fd Ld.
    assert (CL1 : count_state GLeaving (mc_groups st1) = count_state GLeaving (mc_groups st))
      by (apply O1; discriminate).
    assert (J1 : count_state GJoining (mc_groups st1) = O) by (apply Z1; [exact Fd | lia]).
    destruct (Y1 Fd) as (Fd1 & Ld1).
    assert (CL2 : count_state GLeaving (mc_groups st2) = O) by (apply Z2; [exact Fd1 | lia]).
    rewrite G4, G3. split; [|exact CL2].
    rewrite (O2 GJoining) by discriminate. exact J1.
  - rewrite M3, M2, M1 in Q4. exact Q4.
Qed.

(* ================================================================== every event (C03) *)

(* events the API contract allows: update_ip_addrs is only given addresses it accepts, and no
   IPv4 address is configured on an IEEE 802.15.4 interface *)
Definition ev_ok (m : medium) (ev : mc_event) : Prop :=
  match ev with
  | EvAddrAdd c => addr_ok c /\ (m = M154 -> ip_is_v4 (c_addr c) = false)
  | _ => True
  end.

(* everything but the group table is the same *)
Definition st_rel (a b : mstate) : Prop :=
  same_base a b /\ mc_igmp b = mc_igmp a /\ mc_mld b = mc_mld a.

Lemma st_rel_refl a : st_rel a a.
Proof. unfold st_rel. auto using same_base_refl. Qed.

Lemma st_rel_trans a b c : st_rel a b -> st_rel b c -> st_rel a c.
Proof.
  intros (A1 & A2 & A3) (B1 & B2 & B3). unfold st_rel. splits; [eapply same_base_trans; eassumption | congruence | congruence].
Qed.

Lemma first_v4_none l : first_v4 l = None <-> Forall (fun c => ip_is_v4 (c_addr c) = false) l.
Proof.
  induction l as [|c t IH]; cbn; [split; [constructor | reflexivity]|].
  destruct (c_addr c) eqn:E.
  - split; [discriminate | intros H; inversion H as [|? ? X]; rewrite E in X; discriminate].
  - rewrite IH. split; [intros H; constructor; [rewrite E; reflexivity | exact H] | intros H; inversion H; assumption].
Qed.

Lemma addr_ok_check l : Forall addr_ok l -> mc_check_ip_addrs l = true.
Proof.
  intros H. unfold mc_check_ip_addrs. apply forallb_forall. rewrite Forall_forall in H.
  intros c Hin. specialize (H c Hin). unfold addr_ok in H. destruct (c_addr c) as [a|a]; cbn.
  - exact H.
  - rewrite H. reflexivity.
Qed.

Lemma fold_leave_spec l : forall st, tbl_inv (mc_groups st) ->
  tbl_inv (mc_groups (fold_left (fun s k => fst (mc_leave s k)) l st)) /\
  st_rel st (fold_left (fun s k => fst (mc_leave s k)) l st).
Proof.
  induction l as [|k t IH]; intros st Hi; cbn; [split; [exact Hi | apply st_rel_refl]|].
  destruct (IH (fst (mc_leave st k)) (leave_tbl_inv st k Hi)) as (H1 & H2).
  split; [exact H1|]. eapply st_rel_trans; [|exact H2]. exact (leave_base st k).
Qed.

Lemma join_solicited_spec l : forall st, Forall addr_ok l -> tbl_inv (mc_groups st) ->
  exists st', mc_join_solicited l st = Ok st' /\ tbl_inv (mc_groups st') /\ st_rel st st'.
Proof.
  induction l as [|c t IH]; intros st Hl Hi; cbn; [exists st; auto using st_rel_refl|].
  inversion Hl as [|? ? Hc Ht]; subst. unfold addr_ok in Hc. destruct (c_addr c) as [a|a].
  - apply IH; assumption.
  - rewrite Hc.
    destruct (IH (fst (mc_join st (V6 (v6_solicited_node a)))) Ht (join_tbl_inv _ _ Hi)) as (st' & E & H1 & H2).
    exists st'. split; [exact E|]. split; [exact H1|]. eapply st_rel_trans; [|exact H2]. exact (join_base st _).
Qed.

Lemma update_ip_addrs_spec st addrs : tbl_inv (mc_groups st) -> Forall addr_ok addrs ->
  exists st', mc_update_ip_addrs st addrs = Ok st' /\ tbl_inv (mc_groups st') /\
    mc_addrs st' = addrs /\ mc_medium st' = mc_medium st /\ mc_ip_mtu st' = mc_ip_mtu st /\
    mc_rand st' = mc_rand st /\ mc_igmp st' = mc_igmp st /\ mc_mld st' = mc_mld st.
Proof.
  intros Hi Ha. unfold mc_update_ip_addrs. rewrite (addr_ok_check _ Ha). cbn [negb].
  destruct (mc_medium st) eqn:M.
  - eexists. split; [reflexivity|]. cbn. auto 10.
  - unfold mc_update_solicited_node_groups.
    set (st0 := mc_set_addrs st addrs).
    set (removals := filter _ _).
    destruct (fold_leave_spec removals st0 Hi) as (H1 & H2).
    set (st1 := fold_left _ removals st0) in *.
    assert (A1 : mc_addrs st1 = addrs) by (destruct H2 as ((_ & _ & X & _) & _); rewrite <- X; reflexivity).
    destruct (join_solicited_spec (mc_addrs st1) st1) as (st' & E & H3 & H4); [rewrite A1; exact Ha | exact H1|].
    exists st'. split; [exact E|]. split; [exact H3|].
    pose proof (st_rel_trans _ _ _ H2 H4) as ((X1 & X2 & X3 & X4) & X5 & X6). cbn in X1, X2, X3, X4, X5, X6.
    splits; congruence.
  - eexists. split; [reflexivity|]. cbn. auto 10.
Qed.

Lemma mc_inv_new m mtu seed : mc_inv (mc_new m mtu seed).
Proof.
  unfold mc_inv, mc_new, tbl_inv, addrs6_ok, cfg_ok. cbn. splits; try constructor; try reflexivity.
  unfold cfg_IFACE_MAX_MULTICAST_GROUP_COUNT. lia.
Qed.

Lemma process_igmp_code_spec st now dst group code :
  let st' := mc_process_igmp_code st now dst group code in
  mc_groups st' = mc_groups st /\ same_base st st' /\ mc_mld st' = mc_mld st /\ igmp_ok (mc_igmp st') \/
  st' = st.
Proof.
  cbv zeta. unfold mc_process_igmp_code, mc_process_igmp.
  destruct (v4_is_unspecified group && (dst =? v4_MULTICAST_ALL_SYSTEMS)).
  - destruct (negb (mc_count_v4 (mc_groups st) =? 0)); [|right; reflexivity].
    left. cbn. unfold same_base. cbn. splits; auto. lia.
  - destruct (mc_has_multicast_group st (V4 group) && (dst =? group)); [|right; reflexivity].
    left. cbn. unfold same_base. cbn. splits; auto.
Qed.

Lemma process_mld_query_spec st now hop src dst mcast code :
  let st' := mc_process_mld_query st now hop src dst mcast code in
  mc_groups st' = mc_groups st /\ mc_medium st' = mc_medium st /\ mc_ip_mtu st' = mc_ip_mtu st /\
  mc_addrs st' = mc_addrs st /\ mc_igmp st' = mc_igmp st.
Proof.
  cbv zeta. unfold mc_process_mld_query.
  destruct (negb (ing_has_ip_addr (mc_iface st) (V6 dst)) && negb (mc_has_multicast_group st (V6 dst))); [auto|].
  destruct ((hop =? 1) && v6_is_link_local src); [|auto].
  unfold mc_process_mldv2.
  destruct (if code >? 0 then let '(v, r') := mc_rand_u16 (mc_rand st) in (v mod code, r') else (0, mc_rand st)) as [delay r'].
  set (st1 := mc_set_rand st r').
  destruct (v6_is_unspecified mcast && ((dst =? v6_LINK_LOCAL_ALL_NODES) || ing_has_ip_addr (mc_iface st1) (V6 dst)));
    [destruct (negb (mc_count_v6 (mc_groups st1) =? 0))|];
    match goal with |- context [if ?c then _ else _] => destruct c end; cbn; auto.
Qed.

Theorem step_ok st ev : mc_inv st -> ev_ok (mc_medium st) ev ->
  exists st' o, mc_step st ev = Ok (st', o) /\ mc_inv st' /\ mc_medium st' = mc_medium st.
Proof.
  intros Inv He. pose proof Inv as (Hi & Ha & Hc & Hk). unfold addrs6_ok in Ha. destruct ev as [g | g | c | c | now dst group code | now hop src dst mcast code | now dev]; cbn [mc_step].
  - destruct (mc_join st g) as [st' r] eqn:E. exists st', (ORet r). split; [reflexivity|].
    pose proof (join_base st g) as ((B1 & B2 & B3 & B4) & I & M). pose proof (join_tbl_inv st g Hi) as T.
    rewrite E in *. cbn [fst] in *. split; [|symmetry; exact B1].
    unfold mc_inv, cfg_ok. rewrite <- B1, <- B3, I. auto.
  - destruct (mc_leave st g) as [st' r] eqn:E. exists st', (ORet r). split; [reflexivity|].
    pose proof (leave_base st g) as ((B1 & B2 & B3 & B4) & I & M). pose proof (leave_tbl_inv st g Hi) as T.
    rewrite E in *. cbn [fst] in *. split; [|symmetry; exact B1].
    unfold mc_inv, cfg_ok. rewrite <- B1, <- B3, I. auto.
  - cbn in He. destruct He as (Hc1 & Hc2). unfold mc_addr_add.
    set (addrs := if _ <? _ then _ else _).
    assert (Hadd : Forall addr_ok addrs).
    { unfold addrs. destruct (_ <? _); [|exact Ha]. apply Forall_app. split; [exact Ha | constructor; [exact Hc1 | constructor]]. }
    destruct (update_ip_addrs_spec st addrs Hi Hadd) as (st' & E & T & A & M & _ & _ & I & _).
    rewrite E. cbn [obind]. exists st', ONone. split; [reflexivity|]. split; [|exact M].
    unfold mc_inv, cfg_ok. rewrite A, M, I. splits; auto.
    intros X. apply first_v4_none. unfold addrs. specialize (Hc X). apply first_v4_none in Hc.
    destruct (_ <? _); [|exact Hc]. apply Forall_app. split; [exact Hc | constructor; [exact (Hc2 X) | constructor]].
  - unfold mc_addr_remove.
    set (addrs := filter _ _).
    assert (Hadd : Forall addr_ok addrs).
    { unfold addrs. apply Forall_forall. intros x Hx. apply filter_In in Hx. rewrite Forall_forall in Ha. apply Ha. apply Hx. }
    destruct (update_ip_addrs_spec st addrs Hi Hadd) as (st' & E & T & A & M & _ & _ & I & _).
    rewrite E. cbn [obind]. exists st', ONone. split; [reflexivity|]. split; [|exact M].
    unfold mc_inv, cfg_ok. rewrite A, M, I. splits; auto.
    intros X. apply first_v4_none. specialize (Hc X). apply first_v4_none in Hc.
    unfold addrs. apply Forall_forall. intros x Hx. apply filter_In in Hx. rewrite Forall_forall in Hc. apply Hc. apply Hx.
  - eexists _, ONone. split; [reflexivity|].
    destruct (process_igmp_code_spec st now dst group code) as [(G & (B1 & B2 & B3 & B4) & M & K) | ->]; [|auto].
    split; [|symmetry; exact B1]. unfold mc_inv, cfg_ok. rewrite G, <- B1, <- B3. auto.
  - eexists _, ONone. split; [reflexivity|].
    destruct (process_mld_query_spec st now hop src dst mcast code) as (G & M & _ & A & I).
    split; [|exact M]. unfold mc_inv, cfg_ok. rewrite G, M, A, I. auto.
  - destruct (egress_spec st dev now Inv) as (st' & dev' & pkts & E & (B1 & _) & Inv' & _).
    rewrite E. cbn [obind]. exists st', (OPkts pkts). split; [reflexivity|]. split; [exact Inv' | symmetry; exact B1].
Qed.

Theorem run_ok evs : forall st, mc_inv st -> Forall (ev_ok (mc_medium st)) evs ->
  exists st' obs, mc_run st evs = Ok (st', obs) /\ mc_inv st' /\ mc_medium st' = mc_medium st /\
                  length obs = length evs.
Proof.
  induction evs as [|e t IH]; intros st Inv Hev; cbn [mc_run].
  - exists st, []. auto.
  - inversion Hev as [|? ? He Ht]; subst.
    destruct (step_ok st e Inv He) as (st1 & o & E & Inv1 & M1). rewrite E. cbn [obind].
    destruct (IH st1 Inv1) as (st2 & os & E2 & Inv2 & M2 & L2); [rewrite M1; exact Ht|].
    rewrite E2. cbn [obind]. exists st2, (o :: os). splits; auto; [congruence | cbn; lia].
Qed.

(* ================================================================== property-level statements *)

(* ---- C10 *)

(* what property C10 asks of a multicast control packet, in the vocabulary of the ingress
   development: [own] = an address configured on the interface *)
Definition c10_pkt_legal (st : mstate) (p : mpkt) : Prop :=
  pk_hop p = 1 /\ ip_is_multicast (pk_dst p) = true /\
  match pk_kind p with
  | KIgmpReport _ g =>
      pk_dst p = V4 g /\ pk_ra p = false /\
      exists a, pk_src p = V4 a /\ ing_igmp_report_src (mc_iface st) = Some a /\ own (mc_iface st) (V4 a)
  | KIgmpLeave _ =>
      pk_dst p = V4 v4_MULTICAST_ALL_ROUTERS /\ pk_ra p = false /\
      exists a, pk_src p = V4 a /\ ing_igmp_report_src (mc_iface st) = Some a /\ own (mc_iface st) (V4 a)
  | KMldReport _ =>
      pk_dst p = V6 v6_LINK_LOCAL_ALL_MLDV2_ROUTERS /\ pk_ra p = true /\
      exists s, pk_src p = V6 s /\ s = ing_mld_report_src (mc_iface st) /\
        ((own (mc_iface st) (V6 s) /\ v6_is_link_local s = true) \/
         (s = 0 /\ first_link_local (mc_addrs st) = None))
  end.

Lemma pkt_ok_c10 st p : tbl_inv (mc_groups st) -> pkt_ok st p -> c10_pkt_legal st p.
Proof.
  intros Hi ((Hh & Hk) & Hg). unfold c10_pkt_legal. split; [exact Hh|].
  destruct (c10_multicast_report_src (mc_iface st)) as (C6 & C4).
  unfold pkt_groups_ok in Hg. destruct (pk_kind p) as [v g | g | recs].
  - destruct Hk as (Hd & Hr & (a & Hs & Ha)). split.
    + rewrite Hd. apply (has_group_is_multicast st (V4 g) Hi Hg).
    + split; [exact Hd|]. split; [exact Hr|]. exists a. split; [exact Hs|]. split; [exact Ha | apply C4; exact Ha].
  - destruct Hk as (Hd & Hr & (a & Hs & Ha)). split.
    + rewrite Hd. apply all_routers_multicast.
    + split; [exact Hd|]. split; [exact Hr|]. exists a. split; [exact Hs|]. split; [exact Ha | apply C4; exact Ha].
  - destruct Hk as (Hd & Hr & Hs). split.
    + rewrite Hd. apply mld_routers_multicast.
    + split; [exact Hd|]. split; [exact Hr|]. eexists. split; [exact Hs|]. split; [reflexivity | exact C6].
Qed.

Theorem c10mc_egress_packets_legal st dev now st' dev' pkts :
  mc_inv st -> mc_multicast_egress st dev now = Ok (st', dev', pkts) -> Forall (c10_pkt_legal st) pkts.
Proof.
  intros Inv E. destruct (egress_spec st dev now Inv) as (st2 & d2 & p2 & E2 & _ & _ & _ & F & _).
  rewrite E in E2. inv E2. eapply Forall_impl; [|exact F]. intros p. apply pkt_ok_c10. apply Inv.
Qed.

(* with every configured address unicast (Model/Ingress.v's wf_iface) the source is a unicast
   address of the interface - never broadcast or multicast - except the unspecified address of an
   MLD report sent while the interface has no link-local address *)
Theorem c10mc_source_unicast_or_required_unspec st p :
  Forall (fun c => ip_is_unicast (c_addr c) = true) (mc_addrs st) -> c10_pkt_legal st p ->
  (own (mc_iface st) (pk_src p) /\ ip_is_unicast (pk_src p) = true) \/
  (exists recs, pk_kind p = KMldReport recs) /\ pk_src p = V6 0 /\ first_link_local (mc_addrs st) = None.
Proof.
  intros Hu (_ & _ & Hk).
  assert (U : forall x, own (mc_iface st) x -> ip_is_unicast x = true).
  { intros x (c & Hin & <-). rewrite Forall_forall in Hu. apply Hu. exact Hin. }
  destruct (pk_kind p) as [v g | g | recs].
  - destruct Hk as (_ & _ & (a & -> & _ & Ho)). left. auto.
  - destruct Hk as (_ & _ & (a & -> & _ & Ho)). left. auto.
  - destruct Hk as (_ & _ & (s & -> & _ & [(Ho & _) | (-> & Hn)])); [left; auto | right; eauto].
Qed.

(* the same over whole histories: every poll observation of every run from Interface::new *)
Fixpoint run_polls_legal (st : mstate) (evs : list mc_event) : Prop :=
  match evs with
  | [] => True
  | e :: t =>
      match mc_step st e with
      | Ok (st', o) => (match o with OPkts l => Forall (c10_pkt_legal st) l | _ => True end) /\ run_polls_legal st' t
      | _ => True
      end
  end.

Theorem c10mc_run_packets_legal evs : forall st, mc_inv st -> Forall (ev_ok (mc_medium st)) evs ->
  run_polls_legal st evs.
Proof.
  induction evs as [|e t IH]; intros st Inv Hev; cbn [run_polls_legal]; [exact I|].
  inversion Hev as [|? ? He Ht]; subst.
  destruct (step_ok st e Inv He) as (st1 & o & E & Inv1 & M1). rewrite E. split.
  - destruct o as [r | | l]; try exact I. destruct e; cbn [mc_step] in E;
      try (destruct (mc_join st g); discriminate); try (destruct (mc_leave st g); discriminate);
      try (destruct (mc_addr_add st c); discriminate); try (destruct (mc_addr_remove st c); discriminate);
      try discriminate.
    destruct (mc_multicast_egress st dev now) as [[[s2 d2] p2]| |] eqn:EE; cbn [obind] in E; try discriminate.
    inv E. eapply c10mc_egress_packets_legal; eassumption.
  - apply IH; [exact Inv1 | rewrite M1; exact Ht].
Qed.

(* ---- C11 *)

Lemma mc_get_count g l s : mc_get g l = Some s -> (1 <= count_state s l)%nat.
Proof.
  induction l as [|[k s0] t IH]; cbn; [discriminate|].
  destruct (ip_eqb k g).
  - intros H. inv H. assert (gstate_eqb s s = true) by (apply gstate_eqb_eq; reflexivity). rewrite H. lia.
  - intros H. specialize (IH H). destruct (gstate_eqb s0 s); lia.
Qed.

(* membership is not changed by a pass of multicast_egress (Joining -> Joined both count as
   member, a Leaving entry that is dropped did not) *)
Theorem c11mc_egress_preserves_membership st dev now st' dev' pkts :
  mc_inv st -> mc_multicast_egress st dev now = Ok (st', dev', pkts) ->
  forall g, mc_has_multicast_group st' g = mc_has_multicast_group st g.
Proof.
  intros Inv E. destruct (egress_spec st dev now Inv) as (st2 & d2 & p2 & E2 & B & _ & S & _).
  rewrite E in E2. inv E2. apply has_group_ext; [symmetry; apply B | exact S].
Qed.

(* leave takes effect at once, survives every later poll, and a poll on an accepting device
   removes the entry from the table *)
Theorem c11mc_leave_then_egress st g dev now st' dev' pkts :
  mc_inv st -> ip_is_multicast g = true ->
  let st1 := fst (mc_leave st g) in
  snd (mc_leave st g) = mc_OK /\
  mc_state_has (mc_groups st1) g = false /\
  (mc_multicast_egress st1 dev now = Ok (st', dev', pkts) ->
   mc_state_has (mc_groups st') g = false /\
   (forallb (fun b => b) dev = true ->
    (count_state GJoining (mc_groups st1) + count_state GLeaving (mc_groups st1) <= length dev)%nat ->
    mc_get g (mc_groups st') = None)).
Proof.
  intros Inv M. cbv zeta. pose proof Inv as (Hi & Ha & Hc & Hk).
  assert (L : mc_state_has (mc_groups (fst (mc_leave st g))) g = false) by (apply leave_not_member; assumption).
  split; [rewrite leave_ret, M; reflexivity|]. split; [exact L|].
  intros E.
  assert (Inv1 : mc_inv (fst (mc_leave st g))).
  { pose proof (leave_base st g) as ((B1 & B2 & B3 & B4) & I & _).
    unfold mc_inv, cfg_ok. rewrite <- B1, <- B3, I. splits; auto. apply leave_tbl_inv. exact Hi. }
  destruct (egress_spec _ dev now Inv1) as (st2 & d2 & p2 & E2 & _ & _ & S & _ & _ & _ & _ & _ & _ & Z & _).
  rewrite E in E2. inv E2. split; [rewrite S; exact L|].
  intros F Ld. destruct (Z F Ld) as (_ & Z2).
  specialize (S g). rewrite L in S. unfold mc_state_has in S.
  destruct (mc_get g (mc_groups st2)) as [s|] eqn:G; [|reflexivity].
  destruct s; try discriminate. apply mc_get_count in G. lia.
Qed.

(* the table never exceeds its capacity (part of the invariant every event preserves) *)
Theorem c11mc_table_bounded evs st st' obs : mc_inv st -> Forall (ev_ok (mc_medium st)) evs ->
  mc_run st evs = Ok (st', obs) ->
  Z.of_nat (length (mc_groups st')) <= cfg_IFACE_MAX_MULTICAST_GROUP_COUNT /\ NoDup (keys (mc_groups st')).
Proof.
  intros Inv Hev E. destruct (run_ok evs st Inv Hev) as (s2 & o2 & E2 & ((N & _ & L) & _) & _).
  rewrite E in E2. inv E2. auto.
Qed.

(* every membership report names only groups the interface listens to at that moment; every
   leave names a multicast group it does not keep as a member *)
Theorem c11mc_reports_only_for_members st dev now st' dev' pkts :
  mc_inv st -> mc_multicast_egress st dev now = Ok (st', dev', pkts) ->
  Forall (pkt_groups_ok st) pkts /\ Forall (pkt_groups_ok st') pkts.
Proof.
  intros Inv E. destruct (egress_spec st dev now Inv) as (st2 & d2 & p2 & E2 & B & _ & S & F & _).
  rewrite E in E2. inv E2. split.
  - eapply Forall_impl; [|exact F]. intros p X. apply X.
  - eapply Forall_impl; [|exact F]. intros p X.
    eapply pkt_groups_ok_ext; [apply B | | apply X]. intros g. symmetry. apply S.
Qed.

(* ---- C03 *)

Lemma count_join_leave_le l : (count_state GJoining l + count_state GLeaving l <= length l)%nat.
Proof. induction l as [|[k []] t IH]; cbn; lia. Qed.

(* one pass never panics, never runs out of loop fuel and hands the device at most
   (table size + 2) <= capacity + 2 frames *)
Theorem c03mc_egress_total_and_bounded st dev now : mc_inv st ->
  exists st' dev' pkts, mc_multicast_egress st dev now = Ok (st', dev', pkts) /\ mc_inv st' /\
    (Z.of_nat (length pkts) <= Z.of_nat (length (mc_groups st)) + 2 <= cfg_IFACE_MAX_MULTICAST_GROUP_COUNT + 2).
Proof.
  intros Inv. destruct (egress_spec st dev now Inv) as (st2 & d2 & p2 & E2 & _ & Inv2 & _ & _ & L & _).
  exists st2, d2, p2. split; [exact E2|]. split; [exact Inv2|].
  pose proof (count_join_leave_le (mc_groups st)). destruct Inv as ((_ & _ & C) & _). lia.
Qed.

(* the `while let` loops terminate: with fuel = number of entries still to do (or more) they
   never report exhaustion *)
Theorem c03mc_loops_terminate st dev acc fuel : mc_inv st ->
  ((count_state GJoining (mc_groups st) <= fuel)%nat ->
   exists r, mc_egress_joins fuel st dev acc = Ok r) /\
  ((count_state GLeaving (mc_groups st) <= fuel)%nat ->
   exists r, mc_egress_leaves fuel st dev acc = Ok r).
Proof.
  intros (Hi & _ & Hc & _). split; intros Hf.
  - destruct (joins_spec fuel st dev acc Hi Hc Hf) as (s & d & n & E & _). eauto.
  - destruct (leaves_spec fuel st dev acc Hi Hc Hf) as (s & d & n & E & _). eauto.
Qed.

(* a sequence of polls, at any times and with any device behaviour, sends at most
   igmp_reports_left IGMP query responses (at most one per member group after a general query,
   one after a specific query) and at most one MLD query response *)
Definition is_poll (e : mc_event) : Prop := match e with EvPoll _ _ => True | _ => False end.
Definition obs_pkts (o : mc_obs) : list mpkt := match o with OPkts l => l | _ => [] end.

Theorem c03mc_query_responses_bounded evs : forall st st' obs, mc_inv st -> Forall is_poll evs ->
  mc_run st evs = Ok (st', obs) ->
  (length (filter is_igmp_response (flat_map obs_pkts obs)) + igmp_reports_left st' <= igmp_reports_left st)%nat /\
  (length (filter is_mld_response (flat_map obs_pkts obs)) + mld_reports_left st' <= mld_reports_left st)%nat.
Proof.
  induction evs as [|e t IH]; intros st st' obs Inv Hp E; cbn [mc_run] in E.
  - inv E. cbn. lia.
  - inversion Hp as [|? ? He Ht]; subst. destruct e; try contradiction. cbn [mc_step] in E.
    destruct (egress_spec st dev now Inv) as (s2 & d2 & p2 & E2 & _ & Inv2 & _ & _ & _ & _ & W4 & W6 & _).
    rewrite E2 in E. cbn [obind] in E.
    destruct (mc_run s2 t) as [[s3 os]| |] eqn:R; cbn [obind] in E; try discriminate. inv E.
    destruct (IH s2 st' os Inv2 Ht R) as (I4 & I6).
    cbn [flat_map obs_pkts]. rewrite !filter_app, !app_length. lia.
Qed.

Lemma igmp_reports_left_le_cap st : mc_inv st ->
  Z.of_nat (igmp_reports_left st) <= Z.max 1 cfg_IFACE_MAX_MULTICAST_GROUP_COUNT.
Proof.
  intros ((_ & _ & C) & _). unfold igmp_reports_left. destruct (mc_igmp st); try lia.
  pose proof (member4_le_length (mc_groups st)). lia.
Qed.

(* a due MLD response is given up in that very poll (sent or not) *)
Theorem c03mc_mld_response_one_shot st dev now st' dev' pkts :
  mc_inv st -> mc_multicast_egress st dev now = Ok (st', dev', pkts) ->
  match mc_mld st with
  | MlGeneral t | MlSpecific _ t => t <= now -> mc_mld st' = MlInactive
  | MlInactive => mc_mld st' = MlInactive
  end.
Proof.
  intros Inv E. destruct (egress_spec st dev now Inv) as (s2 & d2 & p2 & E2 & X).
  rewrite E in E2. inv E2. apply X.
Qed.

(* ================================================================== a general query is answered completely and on time *)

Lemma joins_none st dev acc fuel : mc_find_state GJoining (mc_groups st) = None ->
  mc_egress_joins fuel st dev acc = Ok (st, dev, acc).
Proof. intros F. destruct fuel; cbn [mc_egress_joins]; rewrite F; reflexivity. Qed.

Lemma leaves_none st dev acc fuel : mc_find_state GLeaving (mc_groups st) = None ->
  mc_egress_leaves fuel st dev acc = Ok (st, dev, acc).
Proof. intros F. destruct fuel; cbn [mc_egress_leaves]; rewrite F; reflexivity. Qed.

(* no join or leave pending *)
Definition quiet (st : mstate) : Prop :=
  count_state GJoining (mc_groups st) = O /\ count_state GLeaving (mc_groups st) = O.

Lemma egress_quiet st dev now : quiet st ->
  mc_multicast_egress st dev now =
  (do '(st3, d3, a3) <- mc_egress_igmp st dev now []; mc_egress_mld st3 d3 now a3).
Proof.
  intros (Q1 & Q2). unfold mc_multicast_egress.
  rewrite joins_none by (apply count_zero_find; exact Q1). cbn [obind].
  rewrite leaves_none by (apply count_zero_find; exact Q2). cbn [obind]. reflexivity.
Qed.

Lemma member4_quiet l : count_state GLeaving l = O -> mc_v4_member_keys l = mc_v4_keys l.
Proof.
  induction l as [|[[a|a] s] t IH]; cbn; [reflexivity| |].
  - destruct (gstate_eqb s GLeaving); [discriminate|]. intros H. rewrite (IH H). reflexivity.
  - destruct (gstate_eqb s GLeaving); [discriminate | exact IH].
Qed.

Lemma nth_error_skipn {A} (l : list A) : forall i g, nth_error l i = Some g -> skipn i l = g :: skipn (S i) l.
Proof.
  induction l as [|x t IH]; intros [|i] g H; cbn in *; try discriminate.
  - inv H. reflexivity.
  - apply IH. exact H.
Qed.

Lemma v4_keys_multicast l a : tbl_inv l -> In a (mc_v4_keys l) -> v4_is_multicast a = true.
Proof.
  intros (_ & Hm & _) H. rewrite Forall_forall in Hm. apply (Hm (V4 a)).
  induction l as [|[[b|b] s] t IH]; cbn in *; [contradiction| |].
  - destruct H as [-> | H]; [left; reflexivity | right; apply IH; [|exact H]].
    intros x Hx. apply Hm. right. exact Hx.
  - right. apply IH; [|exact H]. intros x Hx. apply Hm. right. exact Hx.
Qed.

(* the report the response machine sends for group g *)
Definition general_report (ver : igmp_version) (a g : Z) : mpkt :=
  mkPkt (KIgmpReport ver g) (V4 a) (V4 g) 1 false CGeneral.

Section GeneralQuery.
Variable b : mstate.                       (* the interface when the query arrives *)
Variable a : Z.
Variable ver : igmp_version.
Variable interval : Z.
Hypothesis Hinv : tbl_inv (mc_groups b).
Hypothesis Hquiet : quiet b.
Hypothesis Haddr : first_v4 (mc_addrs b) = Some a.
Hypothesis Hmed : mc_medium b <> M154.
Hypothesis Hmtu : wipv4_HEADER_LEN + snd wigmp_f_GROUP_ADDRESS <= mc_ip_mtu b.
Hypothesis Hmld : mc_mld b = MlInactive.
Hypothesis Hint : 0 <= interval.

Let keys4 := mc_v4_keys (mc_groups b).

Lemma general_step T i g d : nth_error keys4 i = Some g ->
  mc_multicast_egress (mc_set_igmp b (IgGeneral ver T interval (Z.of_nat i))) (true :: d) T =
  Ok (mc_set_igmp b (IgGeneral ver (T + interval) interval (Z.of_nat (S i))), d, [general_report ver a g]).
Proof.
  intros N. rewrite egress_quiet by exact Hquiet.
  unfold mc_egress_igmp. cbn [mc_igmp mc_set_igmp mc_groups].
  assert (T >=? T = true) by lia. rewrite H. rewrite Nat2Z.id.
  rewrite member4_quiet by apply Hquiet. fold keys4. rewrite N.
  unfold mc_igmp_report_packet, ing_igmp_report_src, ing_ipv4_addr. cbn [mc_iface if_addrs mc_addrs mc_set_igmp].
  rewrite Haddr. cbn [mc_transmit].
  assert (Mg : v4_is_multicast g = true) by (apply (v4_keys_multicast (mc_groups b)); [exact Hinv | eapply nth_error_In; exact N]).
  unfold mc_dispatch_unwrap, mc_dispatch_ip. cbn [pk_dst ip_is_unspecified ip_is_multicast ip_is_broadcast].
  rewrite (v4_multicast_not_unspec g Mg), Mg. cbn [orb negb mc_medium mc_set_igmp].
  assert (L : mc_pkt_ip_len (mkPkt (KIgmpReport ver g) (V4 a) (V4 g) 1 false CGeneral) <=? mc_ip_mtu b = true).
  { unfold mc_pkt_ip_len. cbn [pk_kind]. apply Z.leb_le. exact Hmtu. }
  destruct (mc_medium b) eqn:M; try contradiction; cbn [mc_ip_mtu mc_set_igmp]; rewrite L; cbn [obind app];
    unfold mc_egress_mld; cbn [mc_mld mc_set_igmp]; rewrite Hmld;
    replace (Z.max (T + interval) T) with (T + interval) by lia;
    replace (Z.of_nat i + 1) with (Z.of_nat (S i)) by lia; reflexivity.
Qed.

Lemma general_end T i dev : nth_error keys4 i = None ->
  mc_multicast_egress (mc_set_igmp b (IgGeneral ver T interval (Z.of_nat i))) dev T =
  Ok (mc_set_igmp b IgInactive, dev, []).
Proof.
  intros N. rewrite egress_quiet by exact Hquiet.
  unfold mc_egress_igmp. cbn [mc_igmp mc_set_igmp mc_groups].
  assert (T >=? T = true) by lia. rewrite H. rewrite Nat2Z.id.
  rewrite member4_quiet by apply Hquiet. fold keys4. rewrite N. cbn [obind].
  unfold mc_egress_mld. cbn [mc_mld mc_set_igmp]. rewrite Hmld. reflexivity.
Qed.

(* poll exactly when the response machine's timer expires, on a device that accepts frames *)
Fixpoint mc_drive (k : nat) (st : mstate) : outcome (mstate * list (Z * list mpkt)) :=
  match k with
  | O => Ok (st, [])
  | S k' =>
      match mc_igmp st with
      | IgInactive => Ok (st, [])
      | IgGeneral _ t _ _ | IgSpecific _ t _ =>
          do '(st1, _, pkts) <- mc_multicast_egress st [true; true] t;
          do '(st2, l) <- mc_drive k' st1;
          Ok (st2, (t, pkts) :: l)
      end
  end.

(* the expected transcript: one report per group, one interval apart, then a silent poll that
   switches the machine off *)
Fixpoint sched (T : Z) (gs : list Z) : list (Z * list mpkt) :=
  match gs with
  | [] => [(T, [])]
  | g :: t => (T, [general_report ver a g]) :: sched (T + interval) t
  end.

Lemma drive_S k st : mc_drive (S k) st =
  match mc_igmp st with
  | IgInactive => Ok (st, [])
  | IgGeneral _ t _ _ | IgSpecific _ t _ =>
      do '(st1, _, pkts) <- mc_multicast_egress st [true; true] t;
      do '(st2, l) <- mc_drive k st1;
      Ok (st2, (t, pkts) :: l)
  end.
Proof. reflexivity. Qed.

Lemma drive_general : forall k i T, length keys4 = (i + k)%nat ->
  mc_drive (S k) (mc_set_igmp b (IgGeneral ver T interval (Z.of_nat i))) =
  Ok (mc_set_igmp b IgInactive, sched T (skipn i keys4)).
Proof.
  induction k as [|k IH]; intros i T L.
  - assert (N : nth_error keys4 i = None) by (apply nth_error_None; lia).
    rewrite drive_S. cbn [mc_igmp mc_set_igmp]. rewrite (general_end T i _ N). cbn [obind mc_drive].
    rewrite skipn_all2 by lia. reflexivity.
  - destruct (nth_error keys4 i) as [g|] eqn:N; [|apply nth_error_None in N; lia].
    rewrite drive_S. cbn [mc_igmp mc_set_igmp]. rewrite (general_step T i g _ N). cbn [obind].
    rewrite (IH (S i) (T + interval)) by lia. cbn [obind].
    rewrite (nth_error_skipn keys4 i g N). reflexivity.
Qed.

Lemma sched_times T gs : Forall (fun e => T <= fst e <= T + Z.of_nat (length gs) * interval) (sched T gs).
Proof.
  revert T. induction gs as [|g t IH]; intros T; cbn [sched length].
  - constructor; [cbn; lia | constructor].
  - constructor; [cbn; nia|]. eapply Forall_impl; [|apply (IH (T + interval))]. intros e. cbn. nia.
Qed.

Lemma sched_reports T gs : flat_map snd (sched T gs) = map (general_report ver a) gs.
Proof. revert T. induction gs as [|g t IH]; intros T; cbn; [reflexivity | rewrite IH; reflexivity]. Qed.

Lemma sched_length T gs : length (sched T gs) = S (length gs).
Proof. revert T. induction gs as [|g t IH]; intros T; cbn; [reflexivity | rewrite IH; reflexivity]. Qed.

End GeneralQuery.

(* After a general IGMP query, an interface with an IPv4 address and n >= 1 IPv4 groups (none of
   them being joined or left at that moment), polled whenever the response timer expires on a
   device that accepts frames, reports every group exactly once, in table order, and its report
   machine is Inactive again after n + 1 polls; for an IGMPv2 query all of this happens within the
   query's Max Resp Time (the v1 spacing is 100 ms). *)
Theorem igmp_general_query_answered b a t0 code :
  tbl_inv (mc_groups b) -> quiet b -> first_v4 (mc_addrs b) = Some a -> mc_medium b <> M154 ->
  wipv4_HEADER_LEN + snd wigmp_f_GROUP_ADDRESS <= mc_ip_mtu b -> mc_mld b = MlInactive ->
  0 <= code -> mc_v4_keys (mc_groups b) <> [] ->
  let keys4 := mc_v4_keys (mc_groups b) in
  let n := Z.of_nat (length keys4) in
  let ver := if code =? 0 then IgmpV1 else IgmpV2 in
  let mrt := igmp_max_resp_code_to_duration code in
  let interval := match ver with IgmpV1 => mc_IGMP_V1_INTERVAL | IgmpV2 => mrt / (n + 1) end in
  let st0 := mc_process_igmp_code b t0 v4_MULTICAST_ALL_SYSTEMS 0 code in
  exists l,
    mc_drive (S (length keys4)) st0 = Ok (mc_set_igmp b IgInactive, l) /\
    flat_map snd l = map (general_report ver a) keys4 /\
    length l = S (length keys4) /\
    Forall (fun e => t0 <= fst e <= t0 + (n + 1) * interval) l /\
    (ver = IgmpV2 -> Forall (fun e => fst e <= t0 + mrt) l).
Proof.
  intros Hi Hq Ha Hm Hmtu Hmld Hcode Hne. cbv zeta.
  remember (mc_v4_keys (mc_groups b)) as keys4 eqn:K. set (n := Z.of_nat (length keys4)).
  set (ver := if code =? 0 then IgmpV1 else IgmpV2).
  set (mrt := igmp_max_resp_code_to_duration code).
  set (interval := match ver with IgmpV1 => mc_IGMP_V1_INTERVAL | IgmpV2 => mrt / (n + 1) end).
  assert (Hn : 0 < n) by (unfold n; destruct keys4; [contradiction | cbn [length]; lia]).
  assert (Hmrt : 0 <= mrt).
  { unfold mrt, igmp_max_resp_code_to_duration. destruct (code <? 128) eqn:C; [lia|].
    assert (0 <= Z.shiftl (Z.lor (Z.land code 15) 16) (Z.land (Z.shiftr code 4) 7 + 3)).
    { apply Z.shiftl_nonneg. apply Z.lor_nonneg. split; [apply Z.land_nonneg; lia | lia]. }
    lia. }
  assert (Hint : 0 <= interval).
  { unfold interval. destruct ver; [unfold mc_IGMP_V1_INTERVAL; lia | apply Z.div_pos; lia]. }
  assert (E0 : mc_process_igmp_code b t0 v4_MULTICAST_ALL_SYSTEMS 0 code =
               mc_set_igmp b (IgGeneral ver (t0 + interval) interval (Z.of_nat 0))).
  { unfold mc_process_igmp_code, mc_process_igmp. cbn [v4_is_unspecified].
    replace (0 =? 0) with true by reflexivity. rewrite Z.eqb_refl. cbn [andb].
    unfold mc_count_v4. rewrite <- K. fold n.
    assert (X : negb (n =? 0) = true) by (apply negb_true_iff, Z.eqb_neq; lia). rewrite X.
    fold ver. fold mrt. reflexivity. }
  rewrite E0.
  pose proof (drive_general b a ver interval Hi Hq Ha Hm Hmtu Hmld Hint (length keys4) 0%nat (t0 + interval)) as D.
  rewrite <- K in D. specialize (D eq_refl).
  cbn [skipn] in D.
  exists (sched a ver interval (t0 + interval) keys4). splits.
  - exact D.
  - apply sched_reports.
  - apply sched_length.
  - eapply Forall_impl; [|apply sched_times; exact Hint]. intros e. cbn. fold n. nia.
  - intros V. eapply Forall_impl; [|apply sched_times; exact Hint]. intros e. cbn. fold n.
    unfold interval. rewrite V.
    assert ((n + 1) * (mrt / (n + 1)) <= mrt) by (apply Z.mul_div_le; lia). nia.
Qed.

(* ================================================================== examples (non-vacuity) *)

Definition ex_ll1 : Z := 338288524927261089654018896841347694593.     (* fe80::1 *)
Definition ex_g4 : Z := 3758162435.                                    (* 224.1.2.3 *)
Definition ex_g6 : Z := v6_LINK_LOCAL_ALL_NODES + 250.                 (* ff02::fb *)

(* Ethernet interface: two addresses, two joins, a poll (three reports: the solicited-node group
   of fe80::1, the IPv4 group, the IPv6 group), a general IGMPv2 query answered one interval
   later, a further poll that switches the machine off, a leave and its Leave Group message *)
Definition ex_events : list mc_event :=
  [EvAddrAdd (mkCidr (V4 167772161) 24); EvAddrAdd (mkCidr (V6 ex_ll1) 64);
   EvJoin (V4 ex_g4); EvJoin (V6 ex_g6);
   EvPoll 0 [true; true; true; true];
   EvIgmpQuery 1000 v4_MULTICAST_ALL_SYSTEMS 0 100;
   EvPoll 5001000 [true];
   EvPoll 10001000 [true];
   EvLeave (V4 ex_g4);
   EvPoll 10002000 [true]].

Example mc_example_run :
  Forall (ev_ok MEth) ex_events /\
  exists st obs, mc_run (mc_new MEth 1486 1) ex_events = Ok (st, obs) /\
    map (fun o => length (obs_pkts o)) obs = [0; 0; 0; 0; 3; 0; 1; 0; 0; 1]%nat /\
    mc_igmp st = IgInactive /\ length (mc_groups st) = 2%nat /\
    mc_has_multicast_group st (V4 ex_g4) = false /\ mc_has_multicast_group st (V6 ex_g6) = true /\
    nth 6 obs ONone = OPkts [general_report IgmpV2 167772161 ex_g4].
Proof.
  split.
  - repeat constructor; cbn; try discriminate.
  - eexists. eexists. split; [vm_compute; reflexivity|]. vm_compute. auto 10.
Qed.

(* why cfg_ok is a hypothesis: an IPv4 address on an IEEE 802.15.4 interface makes the join report
   of an IPv4 group reach unreachable!() in lookup_hardware_addr (a configuration error: every
   IPv4 transmission of such an interface panics there, not only IGMP) *)
Definition ex_154_v4 : mstate :=
  mkMc M154 1280 [mkCidr (V4 167772161) 24] [(V4 ex_g4, GJoining)] IgInactive MlInactive 0.

Lemma c03mc_ipv4_on_ieee802154_refuted :
  tbl_inv (mc_groups ex_154_v4) /\ ~ cfg_ok ex_154_v4 /\ mc_multicast_egress ex_154_v4 [true] 0 = Panic.
Proof.
  split; [|split].
  - unfold tbl_inv. cbn. splits; [repeat constructor; intros [] | repeat constructor | unfold cfg_IFACE_MAX_MULTICAST_GROUP_COUNT; lia].
  - intros H. specialize (H eq_refl). discriminate.
  - vm_compute. reflexivity.
Qed.

(* the hypotheses of igmp_general_query_answered are satisfiable *)
Definition ex_quiet : mstate :=
  mkMc MEth 1486 [mkCidr (V4 167772161) 24] [(V4 ex_g4, GJoined); (V4 (ex_g4 + 1), GJoined)] IgInactive MlInactive 0.

Example igmp_general_query_answered_example :
  (* the hypotheses of the theorem hold for ex_quiet ... *)
  (tbl_inv (mc_groups ex_quiet) /\ quiet ex_quiet /\ first_v4 (mc_addrs ex_quiet) = Some 167772161 /\
   mc_medium ex_quiet <> M154 /\ mc_mld ex_quiet = MlInactive) /\
  (* ... and its conclusion, evaluated: two groups, Max Resp Time 9 s, reports at 3 s and 6 s *)
  exists l,
  mc_drive 3 (mc_process_igmp_code ex_quiet 1000 v4_MULTICAST_ALL_SYSTEMS 0 90) = Ok (mc_set_igmp ex_quiet IgInactive, l) /\
  flat_map snd l = [general_report IgmpV2 167772161 ex_g4; general_report IgmpV2 167772161 (ex_g4 + 1)] /\
  map fst l = [3001000; 6001000; 9001000].
Proof.
  split; [split; [|split; [|split; [|split]]]|].
  - unfold tbl_inv. cbn. splits; [repeat constructor; cbn; intuition discriminate | repeat constructor | unfold cfg_IFACE_MAX_MULTICAST_GROUP_COUNT; lia].
  - vm_compute. auto.
  - reflexivity.
  - discriminate.
  - reflexivity.
  - eexists. split; [vm_compute; reflexivity|]. split; vm_compute; reflexivity.
Qed.
