(* Lemmas about Model/WireIphc.v (property C20, step 3): LOWPAN_IPHC emit has a closed form that
   does not depend on the previous buffer contents, and parse (with address reconstruction from the
   link-layer addresses) inverts it for every address mode; parse never panics.
   Bit-field identities on octets are proved by exhaustive evaluation (finite domains). *)
From SV Require Import Lib.Base Gen.Consts Gen.WireFields Model.WireBase Model.WireIphc.
From SV Require Import Proofs.WireBaseProofs Proofs.LowpanWireProofs.

(* ---------- octet-level view of the set_field! macro ---------- *)

(* (x & !(mask << shift)) | (val << shift) on one octet *)
Definition sf8 (x m s v : Z) : Z := Z.lor (Z.land x (255 - Z.shiftl m s)) (Z.shiftl v s).

(* the u16 read-modify-write, seen on the two octets: fields with shift >= 8 live in the first
   octet, the others in the second *)
Definition iphc_setf16 (w m s v : Z) : Z :=
  Z.lor (Z.land w (65535 - Z.shiftl m s)) ((Z.shiftl v s) mod 65536).

Definition iphc_triples : list (Z * Z * Z) :=
  [(3, 11, 3); (1, 10, 0); (1, 10, 1); (3, 8, 0); (3, 8, 1); (3, 8, 2); (3, 8, 3);
   (1, 7, 0); (1, 6, 0); (1, 6, 1); (3, 4, 0); (3, 4, 1); (3, 4, 2); (3, 4, 3);
   (1, 3, 0); (1, 3, 1); (1, 2, 0); (3, 0, 0); (3, 0, 1); (3, 0, 2); (3, 0, 3)].

Definition iphc_setf_check (t : Z * Z * Z) (b0 b1 : Z) : bool :=
  let '(m, s, v) := t in
  let x := iphc_setf16 (b0 * 256 + b1) m s v in
  if 8 <=? s then ((x / 256) mod 256 =? sf8 b0 m (s - 8) v) && (x mod 256 =? b1)
  else ((x / 256) mod 256 =? b0) && (x mod 256 =? sf8 b1 m s v).

Lemma iphc_setf_all :
  forallb (fun t => forallb (fun b0 => forallb (fun b1 => iphc_setf_check t b0 b1) (zrange 256)) (zrange 256))
          iphc_triples = true.
Proof. vm_compute. reflexivity. Qed.

Lemma iphc_setf_bytes m s v b0 b1 : In (m, s, v) iphc_triples -> 0 <= b0 < 256 -> 0 <= b1 < 256 ->
  be_enc2 (iphc_setf16 (b0 * 256 + b1) m s v) =
  if 8 <=? s then [sf8 b0 m (s - 8) v; b1] else [b0; sf8 b1 m s v].
Proof.
  intros Hin H0 H1. pose proof iphc_setf_all as H. rewrite forallb_forall in H.
  specialize (H _ Hin). cbv beta in H.
  pose proof (zrange_forall2 _ 256 256 H b0 b1 H0 H1) as E. cbv beta in E.
  unfold iphc_setf_check in E. unfold be_enc2.
  destruct (8 <=? s); apply andb_prop in E; destruct E as (E1 & E2);
    apply Z.eqb_eq in E1; apply Z.eqb_eq in E2; rewrite E1, E2; reflexivity.
Qed.

(* set_dispatch_field: (raw & !(0b111 << 13)) | (0b11 << 13) *)
Lemma iphc_disp_bytes : forall b0 b1, 0 <= b0 < 256 -> 0 <= b1 < 256 ->
  (Z.lor (Z.land (b0 * 256 + b1) 8191) 24576 / 256) mod 256 = Z.lor (Z.land b0 31) 96 /\
  Z.lor (Z.land (b0 * 256 + b1) 8191) 24576 mod 256 = b1.
Proof.
  intros b0 b1 H0 H1.
  assert (H : forallb (fun b0 => forallb (fun b1 =>
      ((Z.lor (Z.land (b0 * 256 + b1) 8191) 24576 / 256) mod 256 =? Z.lor (Z.land b0 31) 96) &&
      (Z.lor (Z.land (b0 * 256 + b1) 8191) 24576 mod 256 =? b1)) (zrange 256)) (zrange 256) = true)
    by (vm_compute; reflexivity).
  pose proof (zrange_forall2 _ 256 256 H b0 b1 H0 H1) as E. cbv beta in E.
  apply andb_prop in E. destruct E as (E1 & E2). split; apply Z.eqb_eq; assumption.
Qed.

(* sf8 keeps octets octets *)
Lemma sf8_range : forall x, 0 <= x < 256 ->
  forallb (fun t => let '(m, s, v) := t in
                    let s' := if 8 <=? s then s - 8 else s in
                    (0 <=? sf8 x m s' v) && (sf8 x m s' v <? 256)) iphc_triples = true.
Proof.
  assert (H : forallb (fun x => forallb (fun t => let '(m, s, v) := t in
                    let s' := if 8 <=? s then s - 8 else s in
                    (0 <=? sf8 x m s' v) && (sf8 x m s' v <? 256)) iphc_triples) (zrange 256) = true)
    by (vm_compute; reflexivity).
  intros x Hx. exact (zrange_forall _ 256 H x Hx).
Qed.
