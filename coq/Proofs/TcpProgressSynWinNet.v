(* C02 (liveness half): syn_win_open IS A THEOREM.  From net_init, with the configuration premise cfg_rx, in every
   state of every run of the one-way workload: if B is in SYN-RECEIVED and has sent its SYN|ACK, the window it has
   advertised is open.
     bsw st      : B in SYN-RECEIVED with remote_last_ack = Some a: a = RCV.NXT, the last window is positive and
                   (last window << shift) fits the receive buffer
     bview st    : B's receive buffer is empty in LISTEN / SYN-RECEIVED (from C04's part of the network invariant)
   The window is written in SYN-RECEIVED only by an emission (Proofs/TcpProgressSynWin.v), and what an emission
   records is positive because 2^shift <= capacity (Proofs/TcpProgressCapNet.v). *)
From SV Require Import Lib.Base Gen.Consts.
From SV Require Import Model.Seq32 Model.Assembler Model.TcpBuf Model.TcpTypes Model.Tcp Model.TcpNet.
From SV Require Import Proofs.TcpSendBase Proofs.TcpLiveBase Proofs.TcpLiveProofs Proofs.TcpLiveMore
  Proofs.TcpLiveProgress.
From SV Require Import Proofs.TcpNetBase.
From SV Require Proofs.TcpNetInv Proofs.TcpRecvBase Proofs.TcpRecvInv Proofs.TcpRecvProcess Proofs.TcpRecvTrace.
From SV Require Import Proofs.TcpProgressBase Proofs.TcpProgressFrame Proofs.TcpProgressCtl Proofs.TcpProgressRecv
  Proofs.TcpProgressSend Proofs.TcpProgressNet Proofs.TcpProgressData Proofs.TcpProgressAck
  Proofs.TcpProgressAll Proofs.TcpProgressSafe Proofs.TcpProgressHs Proofs.TcpProgressHsD Proofs.TcpProgressHs2
  Proofs.TcpProgressHsNet Proofs.TcpProgressHsInit Proofs.TcpProgressHsLive Proofs.TcpProgressHsLive2
  Proofs.TcpProgressHsRtx Proofs.TcpProgressCap Proofs.TcpProgressCapNet Proofs.TcpProgressSynWin.

Module RI := TcpRecvInv.
Module RT := TcpRecvTrace.
Module CC := TcpNetCompose.

Notation sb st := (net_sock st SB).

Definition bview (st : net) : Prop :=
  (s_state (sb st) = Listen \/ s_state (sb st) = SynReceived) -> rb_len (s_rx_buffer (sb st)) = 0.

Lemma INVo_bview isn st : INVo isn st -> bview st.
Proof.
  intros (Sa & Sb & ga & gb & (Ea & Eb & _)) Hst. unfold net_sock in *. cbn [net_get] in *.
  destruct Eb as (_ & _ & Hg & _). unfold RT.ginv in Hg.
  destruct (RT.g_irs (CC.eg_rx gb)) as [irs|].
  - destruct Hg as ((_ & _ & _ & _ & Hsto) & _). unfold RI.st_ok in Hsto.
    destruct Hst as [X | X]; rewrite X in Hsto; [contradiction | exact (proj1 Hsto)].
  - destruct Hg as ((_ & _ & Hl & _) & _). exact Hl.
Qed.

Definition bsw (st : net) : Prop :=
  s_state (sb st) = SynReceived -> forall a, s_remote_last_ack (sb st) = Some a ->
  a = tcp_window_start (sb st) /\ 0 < s_remote_last_win (sb st) /\
  shl (s_remote_last_win (sb st)) (s_remote_win_shift (sb st)) <= rb_cap (s_rx_buffer (sb st)).

(* arithmetic *)
Lemma shl_shr_le x n : 0 <= x -> 0 <= n -> shl (shr x n) n <= x.
Proof.
  intros Hx Hn. unfold shl, shr. assert (Hp : 0 < 2 ^ n) by (apply Z.pow_pos_nonneg; lia).
  rewrite Z.mul_comm. apply Z.mul_div_le. exact Hp.
Qed.

Lemma u16_try_le x : 0 <= x -> 0 <= u16_try x <= x.
Proof. intros Hx. unfold u16_try, u16_max. destruct (Z.leb_spec x 65535); lia. Qed.

Lemma shr_pos x n : 0 <= n -> 2 ^ n <= x -> 0 < shr x n.
Proof.
  intros Hn Hx. unfold shr. assert (Hp : 0 < 2 ^ n) by (apply Z.pow_pos_nonneg; lia).
  assert (1 <= x / 2 ^ n) by (apply Z.div_le_lower_bound; lia). lia.
Qed.

Lemma capw_pow s : capw s -> 0 < rb_cap (s_rx_buffer s) -> rb_cap (s_rx_buffer s) < 2 ^ 30 ->
  0 <= s_remote_win_shift s <= 14 /\ 2 ^ s_remote_win_shift s <= rb_cap (s_rx_buffer s).
Proof.
  intros [E | E] Hc Hb; rewrite E.
  - change (2 ^ 0) with 1. lia.
  - split; [|exact (shift_for_le _ Hc)].
    unfold tcp_win_shift_for, sat_sub. destruct (_ <=? 0) eqn:E0; [lia|].
    assert (Hl : Z.log2 (rb_cap (s_rx_buffer s)) < 30) by (apply Z.log2_lt_pow2; [lia | exact Hb]). lia.
Qed.

(* what an emission in SYN-RECEIVED records, with an empty buffer *)
Lemma syn_window_pos s :
  capw s -> 0 < rb_cap (s_rx_buffer s) -> rb_cap (s_rx_buffer s) < 2 ^ 30 -> rb_len (s_rx_buffer s) = 0 ->
  0 < shr (u16_try (rb_window (s_rx_buffer s))) (s_remote_win_shift s) /\
  shl (shr (u16_try (rb_window (s_rx_buffer s))) (s_remote_win_shift s)) (s_remote_win_shift s) <= rb_cap (s_rx_buffer s).
Proof.
  intros Hw Hc Hb Hl. destruct (capw_pow s Hw Hc Hb) as ((Hn0 & Hn1) & Hp).
  unfold rb_window. rewrite Hl, Z.sub_0_r.
  pose proof (u16_try_le _ (Z.lt_le_incl _ _ Hc)) as (U0 & U1).
  split.
  - apply shr_pos; [exact Hn0|]. unfold u16_try, u16_max. destruct (Z.leb_spec (rb_cap (s_rx_buffer s)) 65535); [exact Hp|].
    apply Z.le_trans with (2 ^ 14); [apply Z.pow_le_mono_r; lia | vm_compute; discriminate].
  - pose proof (shl_shr_le _ _ U0 Hn0). lia.
Qed.

Lemma ack_window_pos s :
  capw s -> 0 < rb_cap (s_rx_buffer s) -> rb_cap (s_rx_buffer s) < 2 ^ 30 -> rb_len (s_rx_buffer s) = 0 ->
  0 < tcp_scaled_window s /\ shl (tcp_scaled_window s) (s_remote_win_shift s) <= rb_cap (s_rx_buffer s).
Proof.
  intros Hw Hc Hb Hl. split; [exact (capw_window s Hw Hc Hl)|].
  destruct (capw_pow s Hw Hc Hb) as ((Hn0 & _) & _).
  unfold tcp_scaled_window, rb_window. rewrite Hl, Z.sub_0_r.
  assert (H0 : 0 <= shr (rb_cap (s_rx_buffer s)) (s_remote_win_shift s)).
  { unfold shr. apply Z.div_pos; [lia | apply Z.pow_pos_nonneg; lia]. }
  pose proof (u16_try_le _ H0) as (U0 & U1).
  pose proof (shl_shr_le (rb_cap (s_rx_buffer s)) _ (Z.lt_le_incl _ _ Hc) Hn0) as H1.
  unfold shl in *. assert (Hp : 0 < 2 ^ s_remote_win_shift s) by (apply Z.pow_pos_nonneg; lia). nia.
Qed.

Lemma ingress_cases cx s ip r s' rep tags :
  iface_tcp_ingress cx s ip r = Ok (s', rep, tags) -> s' = s \/ tcp_process cx s ip r = Ok (s', rep, tags).
Proof.
  unfold iface_tcp_ingress. intros H.
  destruct ((ip_src ip =? 0) || (ip_dst ip =? 0)); [inversion H; subst; left; reflexivity|].
  destruct ((r_src_port r =? 0) || (r_dst_port r =? 0)); [inversion H; subst; left; reflexivity|].
  destruct (tcp_accepts s ip r); [right; exact H|].
  destruct (control_eqb (r_control r) CRst); [inversion H; subst; left; reflexivity|].
  apply obind_ok in H. destruct H as (p & _ & H). inversion H; subst. left; reflexivity.
Qed.

Section Step.
Variables isn Dack : Z.

Lemma bsw_step st ev st' :
  HSR isn Dack st -> HSR isn Dack st' -> inv_at SA st -> inv_at SA st' -> bview st -> capst st ->
  script_ev SA ev -> net_step st ev = Ok st' -> bsw st -> bsw st'.
Proof.
  intros HR HR' HI HI' Hbv Hcap Hsc H Hsw Hsb' a Ha'.
  pose proof HR as (Hinv & HV & HN & Ho).
  destruct Hcap as (Hcw & Hc0). destruct (Hcw SB) as (Hw & Hc30).
  (* B was in LISTEN or SYN-RECEIVED *)
  destruct Hinv as [HP | HG].
  2:{ exfalso. pose proof (reg_step SA Dack st ev st' HN Ho HG HI HI' Hsc H) as HG'.
      rewrite (rg_est _ _ _ HG' SB) in Hsb'. discriminate. }
  destruct (ph_tup _ _ _ HP) as (tA & T1 & T2 & T3' & T4 & T5 & T6 & _).
  assert (HB : s_state (sb st) = Listen \/ s_state (sb st) = SynReceived).
  { destruct (ph_phase _ _ _ HP) as [(_ & [B | B]) | (_ & B)]; auto. }
  pose proof (Hbv HB) as Hrx0.
  destruct (step_cases st ev st' SB H) as [(ev0 & e' & Hse & He & ->) | E].
  2:{ rewrite E in *. exact (Hsw Hsb' a Ha'). }
  destruct (ep_step_spec _ _ _ He) as (s' & out & tags & Hs & Hk & _).
  unfold net_sock in Hsb', Ha' |- *. rewrite net_get_set_same in *. rewrite Hk in *.
  unfold net_sock in *.
  set (s := ep_sock (net_get st SB)) in *.
  (* the view is unchanged *)
  assert (Hkeep : s_rx_buffer s' = s_rx_buffer s -> s_remote_win_shift s' = s_remote_win_shift s ->
                  tcp_window_start s' = tcp_window_start s -> s_remote_last_ack s' = s_remote_last_ack s ->
                  s_remote_last_win s' = s_remote_last_win s -> s_state s = SynReceived ->
                  a = tcp_window_start s' /\ 0 < s_remote_last_win s' /\
                  shl (s_remote_last_win s') (s_remote_win_shift s') <= rb_cap (s_rx_buffer s')).
  { intros E1 E2 E3 E4 E5 Est. rewrite E1, E2, E3, E5. rewrite E4 in Ha'. exact (Hsw Est a Ha'). }
  destruct ev as [to i | to i | to i | d | z i1 t1 | z ok | z data | z n | z]; cbn [sock_event script_ev] in Hse, Hsc; try contradiction.
  - (* a segment *)
    destruct Hse as (_ & p & _ & ->). cbn [tcp_step] in Hs.
    apply obind_ok in Hs. destruct Hs as (((s1 & rep) & tg) & Hi & Hs). inversion Hs; subst s1 out tags; clear Hs.
    destruct (ingress_cases _ _ _ _ _ _ _ Hi) as [-> | Hp].
    { destruct HB as [B | B]; [congruence|]. exact (Hsw B a Ha'). }
    destruct HB as [B | B].
    + rewrite (process_listen_view _ _ _ _ _ _ _ B Hp Hsb') in Ha'. discriminate.
    + destruct (process_synrecv_view _ _ _ _ _ _ _ B Hp Hsb') as [Hq | Hq].
      * pose proof (RI.rxv_eq_window_start _ _ Hq) as Ews.
        destruct Hq as (_ & Q2 & _ & _ & Q5 & Q6 & Q7). exact (Hkeep Q2 Q7 Ews Q5 Q6 B).
      * pose proof (TcpRecvProcess.acked_window_start _ _ Hq) as Ews.
        destruct Hq as (_ & Q2 & _ & _ & Q5 & Q6 & Q7).
        rewrite Q5 in Ha'. inversion Ha'; subst a. rewrite Ews, Q6, Q7, Q2.
        split; [reflexivity|]. exact (ack_window_pos s Hw Hc0 Hc30 Hrx0).
  - (* a poll *)
    destruct Hse as (_ & ->). cbn [tcp_step] in Hs.
    apply obind_ok in Hs. destruct Hs as (((s1 & res) & tg) & Hd & Hs). inversion Hs; subst s1 out tags; clear Hs.
    destruct HB as [B | B].
    + exfalso. destruct (T5 B) as (Tn & _). unfold net_sock in Tn. fold s in Tn.
      unfold tcp_dispatch in Hd. rewrite Tn in Hd. inversion Hd; subst. congruence.
    + pose proof (T6 B) as Htb. destruct (Ho SB) as (Hto & _). pose proof (NI_live st SB HN) as Il.
      assert (Hla : tu_local_addr (mirror tA) = cx_addr (ep_cx (net_get st SB))) by (unfold mirror; cbn; exact T3').
      destruct (dispatch_synrecv_view _ _ _ _ _ _ _ Il B Hto Htb Hla Hd) as (D1 & D2 & D3 & [(D4 & D5) | (D4 & D5)]).
      * exact (Hkeep D1 D2 D3 D4 D5 B).
      * rewrite D4 in Ha'. inversion Ha'; subst a. rewrite D3, D5, D2, D1.
        split; [reflexivity|]. exact (syn_window_pos s Hw Hc0 Hc30 Hrx0).
  - (* send at B: not an event of the script *)
    destruct Hse as (-> & _). discriminate Hsc.
  - (* recv: refused, the buffer is empty *)
    destruct Hse as (_ & ->). cbn [tcp_step] in Hs.
    assert (Herr : exists e, tcp_recv_slice s (Z.max 0 n) = Err e).
    { unfold tcp_recv_slice, tcp_recv_error_check, tcp_may_recv, tcp_can_recv, rb_is_empty.
      rewrite Hrx0. change (0 =? 0) with true. cbn [negb].
      destruct HB as [B | B]; rewrite B; destruct (s_rx_fin_received s); cbn [obind]; eexists; reflexivity. }
    destruct Herr as (e & Herr).
    rewrite Herr in Hs. assert (Es : s' = s) by (inversion Hs; reflexivity). rewrite Es in *.
    destruct HB as [B | B]; [congruence | exact (Hsw B a Ha')].
Qed.

End Step.

(* the advertised window is open *)
Lemma bsw_open st : bsw st -> capst st -> syn_win_open st.
Proof.
  intros Hsw (Hcw & Hc0) Hsb Hla. destruct (Hcw SB) as (Hw & Hc30).
  destruct (s_remote_last_ack (sb st)) as [a|] eqn:Ea; [|contradiction].
  destruct (Hsw Hsb a Ea) as (-> & Hlw & Hle).
  destruct (capw_pow _ Hw Hc0 Hc30) as ((Hn0 & _) & _).
  set (W := shl (s_remote_last_win (sb st)) (s_remote_win_shift (sb st))) in *.
  assert (HW0 : 0 < W).
  { unfold W, shl. apply Z.mul_pos_pos; [exact Hlw | apply Z.pow_pos_nonneg; lia]. }
  exists W. split; [unfold p30, TcpRecvWindow.p30; lia|].
  unfold tcp_window_end. rewrite Ea. fold W.
  pose proof (window_start_range (sb st)) as Hws.
  set (ws := tcp_window_start (sb st)) in *.
  rewrite seq_add_raw.
  replace (seq_max (sq (ws + W)) ws) with (seq_max (sq (ws + W)) (sq (ws + 0)))
    by (f_equal; rewrite Z.add_0_r; apply sq_small; change (2 ^ 32) with 4294967296; exact Hws).
  rewrite seq_max_sq by (change (2 ^ 31) with 2147483648; change (2 ^ 30) with 1073741824 in Hc30; lia).
  replace (Z.max W 0) with W by lia. reflexivity.
Qed.

(* ---------------------------------------------------------------------------------------- *)
(* runs from net_init                                                                        *)
(* ---------------------------------------------------------------------------------------- *)
Module NVW := TcpNetInv.

Section Run.
Variables Dack : Z.
Variables ca cb : ep_config.
Variable st0 : net.
Hypothesis Hstart : start_ok Dack ca cb st0.
Hypothesis Hcfg : cfg_rx ca cb.

Let isn := cx_isn (ep_cx (n_a st0)).

Lemma here_w pre st1 :
  net_run st0 pre = Ok st1 -> hs_inv isn Dack st1 -> opts_ok st1 -> NVW.small st1 ->
  HSR isn Dack st1 /\ inv_at SA st1 /\ bview st1 /\ capst st1.
Proof.
  intros Hpre Hinv Ho Hsm1. pose proof Hstart as (Hi & Hstart0 & Ga & Gb & Pa & Pb & Haddr & Hdel).
  destruct (hsr_here Dack ca cb st0 Hstart pre st1 Hpre Hinv Ho Hsm1) as (HR & HI).
  destruct (hs_inv_closed _ _ _ Hinv) as (Hcl1 & Hbw1).
  pose proof (INVo_reach _ _ _ _ _ Ga Gb Hi Hpre Hsm1 Hcl1) as HI1.
  split; [exact HR|]. split; [exact HI|]. split; [exact (INVo_bview _ _ HI1)|].
  exact (capst_run _ _ _ Hpre (capst_init ca cb st0 Hi Hcfg)).
Qed.

Lemma bsw_run_all : forall evs pre st1 st,
  net_run st0 pre = Ok st1 -> hs_inv isn Dack st1 -> opts_ok st1 -> bsw st1 ->
  Forall (script_ev SA) evs -> net_run st1 evs = Ok st -> NVW.small st ->
  run_all syn_win_open st1 evs /\ bsw st.
Proof.
  induction evs as [|ev rest IH]; intros pre st1 st Hpre Hinv Ho Hpl Hsc Hrun Hsm.
  - cbn [net_run] in Hrun. inversion Hrun; subst st. cbn [run_all].
    destruct (here_w pre st1 Hpre Hinv Ho Hsm) as (_ & _ & _ & Hc).
    split; [split; [exact (bsw_open st1 Hpl Hc) | exact I] | exact Hpl].
  - cbn [net_run] in Hrun. apply obind_ok in Hrun. destruct Hrun as (st2 & Hs & Hrun).
    inversion Hsc as [|? ? Hsc1 Hsc2]; subst.
    pose proof (net_run_mono _ _ _ Hrun) as Hm2. pose proof (net_step_mono _ _ _ Hs) as Hm1.
    assert (Hsm2 : NVW.small st2) by exact (NVW.small_mono _ _ Hm2 Hsm).
    assert (Hsm1 : NVW.small st1) by exact (NVW.small_mono _ _ Hm1 Hsm2).
    assert (Hpre2 : net_run st0 (pre ++ [ev]) = Ok st2).
    { apply (net_run_app pre [ev] st0 st1 st2 Hpre). cbn [net_run]. rewrite Hs. reflexivity. }
    destruct (hs_run Dack ca cb st0 Hstart [ev] pre st1 st2 Hpre Hinv Ho ltac:(constructor; [exact Hsc1 | constructor])
                ltac:(cbn [net_run]; rewrite Hs; reflexivity) Hsm2) as (Hinv2 & Ho2).
    destruct (here_w pre st1 Hpre Hinv Ho Hsm1) as (HR1 & HI1 & Hbv1 & Hc1).
    destruct (here_w (pre ++ [ev]) st2 Hpre2 Hinv2 Ho2 Hsm2) as (HR2 & HI2 & _ & _).
    pose proof (bsw_step isn Dack st1 ev st2 HR1 HR2 HI1 HI2 Hbv1 Hc1 Hsc1 Hs Hpl) as Hpl2.
    destruct (IH (pre ++ [ev]) st2 st Hpre2 Hinv2 Ho2 Hpl2 Hsc2 Hrun Hsm) as (IH1 & IH2).
    split; [|exact IH2]. cbn [run_all]. rewrite Hs. split; [exact (bsw_open st1 Hpl Hc1) | exact IH1].
Qed.

(* SYN_WIN_OPEN IN EVERY STATE OF EVERY RUN OF THE ONE-WAY WORKLOAD FROM net_init *)
Theorem syn_win_open_from_net_init : forall pre st evs st',
  net_run st0 pre = Ok st -> Forall (script_ev SA) pre ->
  Forall (script_ev SA) evs -> net_run st evs = Ok st' -> NVW.small st' ->
  run_all syn_win_open st evs.
Proof.
  intros pre st evs st' Hpre Hscp Hsce Hrun Hsm.
  pose proof Hstart as (Hi & Hst0 & Ga & Gb & Pa & Pb & Haddr & Hdel).
  destruct (hs_init ca cb st0 isn Dack Hi Hst0 Pa Pb Haddr Hdel) as (HP0 & Ho0).
  pose proof (net_run_mono _ _ _ Hrun) as Hm.
  assert (Hsm0 : NVW.small st) by exact (NVW.small_mono _ _ Hm Hsm).
  destruct (hs_run Dack ca cb st0 Hstart pre [] st0 st eq_refl (or_introl HP0) Ho0 Hscp Hpre Hsm0) as (Hinv & Ho).
  assert (Hsw0 : bsw st0).
  { intros Hsb. exfalso. unfold net_started in Hst0. apply andb_true_iff in Hst0. destruct Hst0 as (_ & S2).
    apply state_eqb_eq in S2. unfold net_sock in Hsb. cbn [net_get] in Hsb. rewrite S2 in Hsb. discriminate. }
  destruct (bsw_run_all pre [] st0 st eq_refl (or_introl HP0) Ho0 Hsw0 Hscp Hpre Hsm0) as (_ & Hsw).
  exact (proj1 (bsw_run_all evs pre st st' Hpre Hinv Ho Hsw Hsce Hrun Hsm)).
Qed.

End Run.
