(* Property C03 — no received frame sequence can panic, hang or wedge the interface.
   PARTIAL by design (DESIGN.md §8 C03): this file collects the panic-freedom theorems for the
   ingress "glue" arithmetic on attacker-controlled lengths (Model/Glue.v).  Panic-freedom and
   termination of the wire decoders themselves are the C07 theorems (Props/C07.v), of DNS
   response processing C19, of 6LoWPAN decompression C20, bounded reassembly/neighbor state C12 /
   C16; the whole of Interface::poll is covered only by the fuzz oracle (harness h_fuzz). *)
From SV Require Import Lib.Base Gen.Consts Model.Glue Proofs.GlueProofs.

(* ICMPv4 errors (port / protocol unreachable): for every offending payload length the length
   computation and the quoting slice do not panic, quote min(len, MIN_MTU - 2*hdr - 8) bytes,
   and the resulting error datagram fits the IPv4 minimum MTU (constants from the source). *)
Theorem C03_icmpv4_error_quote_total : forall len,
  0 <= len ->
  exists n, glue_quote_v4 len = Ok n /\ n = Z.min len (wipv4_MIN_MTU - 2 * wipv4_HEADER_LEN - 8) /\
            0 <= n <= len /\ glue_error_size wipv4_HEADER_LEN n <= wipv4_MIN_MTU.
Proof. exact glue_quote_v4_spec. Qed.
Print Assumptions C03_icmpv4_error_quote_total.

Theorem C03_icmpv6_error_quote_total : forall len,
  0 <= len ->
  exists n, glue_quote_v6 len = Ok n /\ n = Z.min len (wipv6_MIN_MTU - 2 * wipv6_HEADER_LEN - 8) /\
            0 <= n <= len /\ glue_error_size wipv6_HEADER_LEN n <= wipv6_MIN_MTU.
Proof. exact glue_quote_v6_spec. Qed.
Print Assumptions C03_icmpv6_error_quote_total.

(* hop-by-hop processing: for every payload length, header length field, option list and
   destination class the walk terminates without panic; "continue" hands on exactly the bytes
   after the extension header; a notification quotes at most the payload and fits the minimum MTU *)
Theorem C03_hopbyhop_total : forall len l unknown mc,
  0 <= len -> 0 <= l ->
  match glue_process_hopbyhop len l unknown mc with
  | Panic => False
  | Err _ => len < (l + 1) * 8
  | Ok (HbhContinue r) => r = len - (l + 1) * 8 /\ 0 <= r
  | Ok HbhDiscard => True
  | Ok (HbhDiscardNotify q) => 0 <= q <= len /\ glue_error_size wipv6_HEADER_LEN q <= wipv6_MIN_MTU
  end.
Proof. exact c03_hopbyhop_total. Qed.
Print Assumptions C03_hopbyhop_total.

Theorem C03_glue_example :
  glue_quote_v6 1500 = Ok 1192 /\ glue_quote_v4 1500 = Ok 528 /\ glue_quote_v4 10 = Ok 10 /\
  glue_process_hopbyhop 108 0 [128] false = Ok (HbhDiscardNotify 108) /\
  glue_process_hopbyhop 108 0 [192] true = Ok HbhDiscard /\
  glue_process_hopbyhop 108 0 [30] false = Ok (HbhContinue 100) /\
  glue_process_hopbyhop 7 0 [] false = Err 1.
Proof. exact c03_glue_example. Qed.
Print Assumptions C03_glue_example.
