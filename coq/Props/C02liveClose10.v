(* Property C02, LIVENESS half, part 21: THE ORDERLY CLOSE WITH THE SERVER FIRST.  The half-close stage, the
   stability between the halves and TIME-WAIT (Proofs/TcpProgressCl5.v, Cl6.v) are parametric in the closer; with the
   roles exchanged (Proofs/TcpProgressCl17.v, Cl18.v): B closes first in the quiet state, A's application closes once A
   is in CLOSE-WAIT (it neither writes nor closes before), B's TIME-WAIT expires; both CLOSED.
     orderly_close_server_first        from close_start_b (B in FIN-WAIT-1 with its FIN unsent or awaiting its
                                       retransmission, A quiet, nothing tracked): both CLOSED; tA is the closer's
                                       (B's) tuple, X its sequence number, Y the peer's, dk the skew seen from B
     quiesce_close_server_first_after_fault_prefix   part 17 with the closing order exchanged:
                                       pre (ANY script prefix ending with both ESTABLISHED), then the reliable schedule
                                       evsD ++ evsQ ++ NClose SB :: evs1 ++ NClose SA :: evs2
   Only theorems closed by [exact] and [Print Assumptions]; statements pinned in Pins/C02liveClose10.v. *)
From SV Require Import Lib.Base Gen.Consts.
From SV Require Import Model.Seq32 Model.Assembler Model.TcpBuf Model.TcpTypes Model.Tcp Model.TcpNet.
From SV Require Import Proofs.TcpSendBase Proofs.TcpLiveBase Proofs.TcpLiveProofs Proofs.TcpLiveMore Proofs.TcpLiveProgress.
From SV Require Import Proofs.TcpNetBase.
From SV Require Import Proofs.TcpProgressBase Proofs.TcpProgressFrame Proofs.TcpProgressCtl Proofs.TcpProgressRecv Proofs.TcpProgressSend Proofs.TcpProgressNet Proofs.TcpProgressData Proofs.TcpProgressAck Proofs.TcpProgressAll Proofs.TcpProgressSafe Proofs.TcpProgressHs Proofs.TcpProgressHsD Proofs.TcpProgressHsNet Proofs.TcpProgressHsInit Proofs.TcpProgressHsLive Proofs.TcpProgressHsLive2 Proofs.TcpProgressZwp Proofs.TcpProgressExample Proofs.TcpProgressWitness Proofs.TcpProgressSafeWitness Proofs.TcpProgressZwDup Proofs.TcpProgressZw1 Proofs.TcpProgressZw1b Proofs.TcpProgressZw2 Proofs.TcpProgressZw3 Proofs.TcpProgressZwWitness Proofs.TcpProgressZw4 Proofs.TcpProgressZw5 Proofs.TcpProgressZw6 Proofs.TcpProgressZwWitness3 Proofs.TcpProgressZw7 Proofs.TcpProgressCl1 Proofs.TcpProgressCl2 Proofs.TcpProgressCl3 Proofs.TcpProgressCl4 Proofs.TcpProgressCl5 Proofs.TcpProgressCl6 Proofs.TcpProgressCl7 Proofs.TcpProgressCl8 Proofs.TcpProgressCl9 Proofs.TcpProgressCl10 Proofs.TcpProgressCl11 Proofs.TcpProgressCl12 Proofs.TcpProgressCl13 Proofs.TcpProgressCl14 Proofs.TcpProgressHsRtx Proofs.TcpProgressHsAll Proofs.TcpProgressHsSrv1 Proofs.TcpProgressHsSrv2 Proofs.TcpProgressCl15 Proofs.TcpProgressRtxWitness Proofs.TcpProgressHsSrvWitness Proofs.TcpProgressCl16 Proofs.TcpProgressCl17 Proofs.TcpProgressCl18.

Theorem C02live_orderly_close_server_first : forall tA X Y MA MB Dt Da dk,
  0 <= Dt -> 2 * Dt < tcp_RTTE_MIN_RTO * 1000 -> tuple_nz tA ->
  0 <= X < 4294967296 -> 0 <= Y < 4294967296 ->
  match MB with Some m => seq_gt m Y = false | None => True end -> mlim MB Y ->
  forall T0 evs1 evs2 fa st st_m st',
  close_start_b tA X Y MA MB Da dk T0 fa st -> Forall (cl_ev SB false) evs1 ->
  fair_run Dt Da fa st (evs1 ++ NClose SA :: evs2) -> once_run Dt Da fa st (evs1 ++ NClose SA :: evs2) ->
  net_run st evs1 = Ok st_m -> T0 + 2 * Dt < net_now st_m SB ->
  net_run st_m (NClose SA :: evs2) = Ok st' ->
  net_now st_m SB + 3 * Dt + tcp_CLOSE_DELAY < net_now st' SB ->
  exists pre post st_c,
    evs2 = pre ++ post /\ net_run st_m (NClose SA :: pre) = Ok st_c /\ net_run st_c post = Ok st' /\
    both_closed_b st_c.
Proof. exact orderly_close_completes_b. Qed.
Print Assumptions C02live_orderly_close_server_first.

Theorem C02live_quiesce_close_server_first_after_fault_prefix : forall Dt Da Dack ca cb st0 (n : nat),
  forall pre st evsD evsQ evs1 evs2 stD stQ stC st_m st',
  start_ok Dack ca cb st0 -> 2 * Dt < tcp_RTTE_MIN_RTO * 1000 -> 0 <= Dack ->
  (* the fault prefix *)
  net_run st0 pre = Ok st -> Forall (script_ev SA) pre ->
  (forall z, s_state (net_sock st z) = Established) ->
  (* from there on delivery is reliable *)
  reliable_schedule Dt Da st (evsD ++ evsQ ++ NClose SB :: evs1 ++ NClose SA :: evs2) ->
  Forall (app_ev SA) evsD -> net_run st evsD = Ok stD ->
  Forall qev evsQ -> net_run stD evsQ = Ok stQ ->
  (forall z, l_len (ep_written (net_get stQ z)) < 2 ^ 30) ->
  run_all qregime stD evsQ ->
  (l_len (ep_written (net_get stD SA)) - una_off (net_get stD SA)) +
  (l_len (ep_written (net_get stD SA)) - read_off (net_get stD SB)) <= Z.of_nat n ->
  net_now stD SA + Z.of_nat n * Wz Dt Da + 2 * Dt + Dack < net_now stQ SA ->
  (* B closes; A closes in CLOSE-WAIT *)
  net_step stQ (NClose SB) = Ok stC ->
  Forall (cl_ev SB false) evs1 -> net_run stC evs1 = Ok st_m -> net_now stQ SB + 2 * Dt < net_now st_m SB ->
  net_run st_m (NClose SA :: evs2) = Ok st' ->
  net_now st_m SB + 3 * Dt + tcp_CLOSE_DELAY < net_now st' SB ->
  (exists p1 p2 sta,
     evsQ = p1 ++ p2 /\ net_run stD p1 = Ok sta /\ net_run sta p2 = Ok stQ /\
     una_off (net_get sta SA) = l_len (ep_written (net_get stD SA)) /\
     read_off (net_get sta SB) = l_len (ep_written (net_get stD SA))) /\
  (exists pre2 post st_c,
     evs2 = pre2 ++ post /\ net_run st_m (NClose SA :: pre2) = Ok st_c /\ net_run st_c post = Ok st' /\
     both_closed st_c).
Proof. exact quiesce_close_server_first_after_fault_prefix. Qed.
Print Assumptions C02live_quiesce_close_server_first_after_fault_prefix.

(* NON-VACUITY: the fault prefix and the quiet part of part 17 (first data segment lost, a frame delivered twice; RTO
   1 s, the window closes in the middle, all 12 octets read, quiet); then B closes first, A closes in CLOSE-WAIT, B's
   TIME-WAIT expires, both CLOSED *)
Theorem C02live_quiesce_close_server_first_applies :
  exists st0 st stD stQ st_m st',
    start_ok 10000 zcfg_a zcfg_b st0 /\ net_run st0 qcf_pre = Ok st /\
    (forall z, s_state (net_sock st z) = Established) /\
    reliable_schedule 5000 5000 st ([] ++ qcf_evsQ ++ NClose SB :: qcb_evs1 ++ NClose SA :: qcb_evs2) /\
    net_run st [] = Ok stD /\
    net_run stD qcf_evsQ = Ok stQ /\ run_all qregime stD qcf_evsQ /\
    net_run stQ (NClose SB :: qcb_evs1) = Ok st_m /\ net_run st_m (NClose SA :: qcb_evs2) = Ok st' /\
    (exists p1 p2 sta,
       qcf_evsQ = p1 ++ p2 /\ net_run stD p1 = Ok sta /\ net_run sta p2 = Ok stQ /\
       una_off (net_get sta SA) = l_len (ep_written (net_get stD SA)) /\
       read_off (net_get sta SB) = l_len (ep_written (net_get stD SA))) /\
    (exists pre2 post st_c,
       qcb_evs2 = pre2 ++ post /\ net_run st_m (NClose SA :: pre2) = Ok st_c /\ net_run st_c post = Ok st' /\
       both_closed st_c).
Proof. exact quiesce_close_server_first_applies. Qed.
Print Assumptions C02live_quiesce_close_server_first_applies.
