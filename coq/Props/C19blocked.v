(* Property C19 under device back-pressure: dispatch with a failing emit closure.  Only `exact` proofs;
   lemmas in Proofs/DnsBlockedProofs.v. *)
From SV Require Import Lib.Base Gen.Consts Gen.WireFields Model.WireDns Model.Dns Proofs.WireDnsProofs Proofs.DnsProofs.
From SV Require Import Proofs.DnsBlockedProofs.

(* a dispatch whose emit fails takes the same decisions as one whose emit succeeds, up to the emit itself, and
   leaves the query in the state dns_pq2: timers of the attempt applied (timeout armed / fail-over done),
   retransmission not scheduled - so it is due again at once *)
Theorem C19_dispatch_emit_failure : forall cfg servers now pq,
  match dns_dispatch_query cfg servers now true pq with
  | Ok (DqEmit _ _) => dns_dispatch_query cfg servers now false pq = Ok (DqEmitErr (QPending (dns_pq2 now pq)))
  | x => dns_dispatch_query cfg servers now false pq = x
  end.
Proof. exact dns_dispatch_query_emit_fail. Qed.
Print Assumptions C19_dispatch_emit_failure.

(* every dispatch attempt arms the per-server timer: it exists afterwards and lies in the future *)
Theorem C19_attempt_arms_timeout : forall now pq,
  exists t, pq_timeout_at (dns_pq2 now pq) = Some t /\ now < t.
Proof. exact dns_pq2_timeout_armed. Qed.
Print Assumptions C19_attempt_arms_timeout.

(* the 10 s of a server run from the first ATTEMPT, sent or not: an attempt RETRANSMIT_TIMEOUT later moves on *)
Theorem C19_blocked_failover : forall now now' pq,
  pq_timeout_at pq = None -> now + dns_RETRANSMIT_TIMEOUT <= now' ->
  pq_server_idx (dns_pq2 now' (dns_pq2 now pq)) = pq_server_idx pq + 1.
Proof. exact dns_blocked_failover. Qed.
Print Assumptions C19_blocked_failover.

(* ... and with no server left the query fails at that attempt, whether or not the device has a transmit token:
   a query whose every transmission is refused below the socket still terminates *)
Theorem C19_blocked_query_fails : forall cfg servers now now' pq b,
  pq_timeout_at pq = None -> now + dns_RETRANSMIT_TIMEOUT <= now' ->
  Z.of_nat (length (dns_eff_servers servers pq)) <= pq_server_idx pq + 1 ->
  dns_dispatch_query cfg servers now' b (dns_pq2 now pq) = Ok (DqContinue QFailure).
Proof. exact dns_dispatch_after_blocked_attempt. Qed.
Print Assumptions C19_blocked_query_fails.
