(* Property C07, pretty-printer clause: "... the pretty-printer return[s] without panicking and
   without reading outside the buffer" — theorems over Model/WirePretty.v, the control-flow and
   buffer-access model of the nine `impl PrettyPrint` of src/wire/*.rs and of
   `wire::ip::pretty_print_ip_payload` (the printed text is not modelled).

   [pp_F bs] is `format!("{}", PrettyPrinter::<F>::new("", &bs))` reduced to its trace: one entry
   (printer, offset, length, status, number shown) per printer that ran.  Every slice index of the
   Rust code is a checked read of the outcome monad, an exhausted recursion budget is a Panic.
     C07_pp_F_total              for EVERY octet string, printer F does not panic (11 printers)
     C07_pp_*_recursion_shrinks  termination: the printer a printer calls only matters on slices that
                                 are at least 20 (IPv4) / 8 (ICMPv4) / 40 (IPv6) / 14 (Ethernet) octets shorter
     C07_pp_*_fuel_suffices      ... hence the fuel of the IPv4-in-ICMPv4 cycle is never exhausted and
                                 its amount is irrelevant
     C07_pp_F_reads_within_buffer  every slice a printer ran on lies inside the input; at most
                                 len/8 + 1 printers run (nesting is bounded by the length)
     C07_pp_F_nested             ... and is nested in the slice of the printer that called it
     C07_pp_F_compositional      every trace entry (fmt, off, len, ..) is what printer fmt yields on
                                 the octets input[off .. off+len]: the offsets are the real ones
   sum_ok / psum_ok: the checksum verifications (property C08), arbitrary here. *)
From SV Require Import Lib.Base Gen.WireFields Model.WireBase Proofs.WireBaseProofs.
From SV Require Import Model.WirePretty Proofs.WirePrettyProofs.

(* ---------------- no panic, for every printer and every octet string ---------------- *)

Theorem C07_pp_ethernet_total : forall sum_ok psum_ok bs,
  bytes_ok bs = true -> pp_ethernet sum_ok psum_ok bs <> Panic.
Proof. exact pp_ethernet_total. Qed.
Print Assumptions C07_pp_ethernet_total.

Theorem C07_pp_arp_total : forall bs, bytes_ok bs = true -> pp_arp bs <> Panic.
Proof. exact pp_arp_total. Qed.
Print Assumptions C07_pp_arp_total.

Theorem C07_pp_ipv4_total : forall sum_ok psum_ok bs,
  bytes_ok bs = true -> pp_ipv4 sum_ok psum_ok bs <> Panic.
Proof. exact pp_ipv4_total. Qed.
Print Assumptions C07_pp_ipv4_total.

Theorem C07_pp_ipv6_total : forall sum_ok psum_ok bs,
  bytes_ok bs = true -> pp_ipv6 sum_ok psum_ok bs <> Panic.
Proof. exact pp_ipv6_total. Qed.
Print Assumptions C07_pp_ipv6_total.

Theorem C07_pp_icmpv4_total : forall sum_ok psum_ok bs,
  bytes_ok bs = true -> pp_icmpv4 sum_ok psum_ok bs <> Panic.
Proof. exact pp_icmpv4_total. Qed.
Print Assumptions C07_pp_icmpv4_total.

Theorem C07_pp_udp_total : forall bs, bytes_ok bs = true -> pp_udp bs <> Panic.
Proof. exact pp_udp_total'. Qed.
Print Assumptions C07_pp_udp_total.

Theorem C07_pp_tcp_total : forall bs, bytes_ok bs = true -> pp_tcp bs <> Panic.
Proof. exact pp_tcp_total'. Qed.
Print Assumptions C07_pp_tcp_total.

Theorem C07_pp_igmp_total : forall bs, pp_igmp bs <> Panic.
Proof. exact pp_igmp_total. Qed.
Print Assumptions C07_pp_igmp_total.

Theorem C07_pp_ndopt_total : forall bs, bytes_ok bs = true -> pp_ndopt bs <> Panic.
Proof. exact pp_ndopt_total. Qed.
Print Assumptions C07_pp_ndopt_total.

(* the UDP / TCP arms of pretty_print_ip_payload (they do not go through udp.rs / tcp.rs PrettyPrint) *)
Theorem C07_pp_udp_in_ip_total : forall psum_ok is_v4 off bs,
  bytes_ok bs = true -> pp_udp_in_ip psum_ok is_v4 off bs <> Panic.
Proof. exact pp_udp_in_ip_total. Qed.
Print Assumptions C07_pp_udp_in_ip_total.

Theorem C07_pp_tcp_in_ip_total : forall psum_ok off bs,
  bytes_ok bs = true -> pp_tcp_in_ip psum_ok off bs <> Panic.
Proof. exact pp_tcp_in_ip_total. Qed.
Print Assumptions C07_pp_tcp_in_ip_total.

(* ---------------- termination ---------------- *)

(* Ipv4Packet::pretty_print calls the ICMPv4 printer only on slices at least 20 octets shorter
   than its own: two callees that agree on those give the same result *)
Theorem C07_pp_ipv4_recursion_shrinks : forall sum_ok psum_ok f g off bs,
  bytes_ok bs = true ->
  (forall o s, bytes_ok s = true -> (length s + 20 <= length bs)%nat -> f o s = g o s) ->
  pp_ipv4_with sum_ok psum_ok f off bs = pp_ipv4_with sum_ok psum_ok g off bs.
Proof. exact pp_ipv4_with_ext. Qed.
Print Assumptions C07_pp_ipv4_recursion_shrinks.

(* Icmpv4Packet::pretty_print calls the IPv4 printer only on slices at least 8 octets shorter *)
Theorem C07_pp_icmpv4_recursion_shrinks : forall sum_ok f g off bs,
  bytes_ok bs = true ->
  (forall o s, bytes_ok s = true -> (length s + 8 <= length bs)%nat -> f o s = g o s) ->
  pp_icmpv4_with sum_ok f off bs = pp_icmpv4_with sum_ok g off bs.
Proof. exact pp_icmpv4_with_ext'. Qed.
Print Assumptions C07_pp_icmpv4_recursion_shrinks.

Theorem C07_pp_ipv6_recursion_shrinks : forall psum_ok f g off bs,
  bytes_ok bs = true ->
  (forall o s, bytes_ok s = true -> (length s + 40 <= length bs)%nat -> f o s = g o s) ->
  pp_ipv6_with psum_ok f off bs = pp_ipv6_with psum_ok g off bs.
Proof. exact pp_ipv6_with_ext'. Qed.
Print Assumptions C07_pp_ipv6_recursion_shrinks.

Theorem C07_pp_ethernet_recursion_shrinks : forall a1 a2 f1 f2 g1 g2 off bs,
  bytes_ok bs = true ->
  (forall o s, bytes_ok s = true -> (length s + 14 <= length bs)%nat ->
     a1 o s = a2 o s /\ f1 o s = f2 o s /\ g1 o s = g2 o s) ->
  pp_ethernet_with a1 f1 g1 off bs = pp_ethernet_with a2 f2 g2 off bs.
Proof. exact pp_ethernet_with_ext'. Qed.
Print Assumptions C07_pp_ethernet_recursion_shrinks.

(* the IPv4 -> ICMPv4 -> IPv4 cycle: any fuel above the number of octets gives the same result
   (and by C07_pp_ipv4_total that result is not the out-of-fuel Panic) *)
Theorem C07_pp_ipv4_fuel_suffices : forall sum_ok psum_ok f1 f2 off bs,
  bytes_ok bs = true -> (length bs < f1)%nat -> (length bs < f2)%nat ->
  pp_ipv4_fuel sum_ok psum_ok f1 off bs = pp_ipv4_fuel sum_ok psum_ok f2 off bs.
Proof. exact pp_ipv4_fuel_suffices. Qed.
Print Assumptions C07_pp_ipv4_fuel_suffices.

Theorem C07_pp_icmpv4_fuel_suffices : forall sum_ok psum_ok f1 f2 off bs,
  bytes_ok bs = true -> (length bs <= f1)%nat -> (length bs <= f2)%nat ->
  pp_icmpv4_fuel sum_ok psum_ok f1 off bs = pp_icmpv4_fuel sum_ok psum_ok f2 off bs.
Proof. exact pp_icmpv4_fuel_suffices. Qed.
Print Assumptions C07_pp_icmpv4_fuel_suffices.

Theorem C07_pp_ipv6_fuel_suffices : forall sum_ok psum_ok f1 f2 off bs,
  bytes_ok bs = true -> (length bs <= f1)%nat -> (length bs <= f2)%nat ->
  pp_ipv6_fuel sum_ok psum_ok f1 off bs = pp_ipv6_fuel sum_ok psum_ok f2 off bs.
Proof. exact pp_ipv6_fuel_suffices. Qed.
Print Assumptions C07_pp_ipv6_fuel_suffices.

Theorem C07_pp_ethernet_fuel_suffices : forall sum_ok psum_ok f1 f2 off bs,
  bytes_ok bs = true -> (length bs <= f1)%nat -> (length bs <= f2)%nat ->
  pp_ethernet_fuel sum_ok psum_ok f1 off bs = pp_ethernet_fuel sum_ok psum_ok f2 off bs.
Proof. exact pp_ethernet_fuel_suffices. Qed.
Print Assumptions C07_pp_ethernet_fuel_suffices.

(* ---------------- every slice lies within the input; nesting depth bounded ---------------- *)

Theorem C07_pp_ethernet_reads_within_buffer : forall sum_ok psum_ok bs tr,
  bytes_ok bs = true -> pp_ethernet sum_ok psum_ok bs = Ok tr ->
  Forall (fun e => 0 <= pp_off e /\ 0 <= pp_len e /\ pp_off e + pp_len e <= blen bs) tr /\
  Z.of_nat (length tr) <= blen bs / 8 + 1.
Proof. exact pp_ethernet_within. Qed.
Print Assumptions C07_pp_ethernet_reads_within_buffer.

Theorem C07_pp_ipv4_reads_within_buffer : forall sum_ok psum_ok bs tr,
  bytes_ok bs = true -> pp_ipv4 sum_ok psum_ok bs = Ok tr ->
  Forall (fun e => 0 <= pp_off e /\ 0 <= pp_len e /\ pp_off e + pp_len e <= blen bs) tr /\
  Z.of_nat (length tr) <= blen bs / 8 + 1.
Proof. exact pp_ipv4_within. Qed.
Print Assumptions C07_pp_ipv4_reads_within_buffer.

Theorem C07_pp_ipv6_reads_within_buffer : forall sum_ok psum_ok bs tr,
  bytes_ok bs = true -> pp_ipv6 sum_ok psum_ok bs = Ok tr ->
  Forall (fun e => 0 <= pp_off e /\ 0 <= pp_len e /\ pp_off e + pp_len e <= blen bs) tr /\
  Z.of_nat (length tr) <= blen bs / 8 + 1.
Proof. exact pp_ipv6_within. Qed.
Print Assumptions C07_pp_ipv6_reads_within_buffer.

Theorem C07_pp_icmpv4_reads_within_buffer : forall sum_ok psum_ok bs tr,
  bytes_ok bs = true -> pp_icmpv4 sum_ok psum_ok bs = Ok tr ->
  Forall (fun e => 0 <= pp_off e /\ 0 <= pp_len e /\ pp_off e + pp_len e <= blen bs) tr /\
  Z.of_nat (length tr) <= blen bs / 8 + 1.
Proof. exact pp_icmpv4_within. Qed.
Print Assumptions C07_pp_icmpv4_reads_within_buffer.

(* the printers that never descend yield exactly one entry, for the whole input (so they never yield Err either) *)
Theorem C07_pp_leaf_printers_single : forall bs, bytes_ok bs = true ->
  (exists st info, pp_arp bs = Ok [mkPP pp_ARP 0 (blen bs) st info]) /\
  (exists st info, pp_udp bs = Ok [mkPP pp_UDP 0 (blen bs) st info]) /\
  (exists st info, pp_tcp bs = Ok [mkPP pp_TCP 0 (blen bs) st info]) /\
  (exists st info, pp_igmp bs = Ok [mkPP pp_IGMP 0 (blen bs) st info]) /\
  (exists st info, pp_ndopt bs = Ok [mkPP pp_NDOPT 0 (blen bs) st info]).
Proof. exact pp_leaf_printers_single. Qed.
Print Assumptions C07_pp_leaf_printers_single.

(* nested: what follows an entry lies inside that entry's slice, at least 8 octets further in *)
Theorem C07_pp_ethernet_nested : forall sum_ok psum_ok bs,
  bytes_ok bs = true -> exists tr, pp_ethernet sum_ok psum_ok bs = Ok tr /\ pp_chain 0 (blen bs) tr.
Proof. exact pp_ethernet_result. Qed.
Print Assumptions C07_pp_ethernet_nested.

Theorem C07_pp_ipv4_nested : forall sum_ok psum_ok bs,
  bytes_ok bs = true -> exists tr, pp_ipv4 sum_ok psum_ok bs = Ok tr /\ pp_chain 0 (blen bs) tr.
Proof. exact pp_ipv4_result. Qed.
Print Assumptions C07_pp_ipv4_nested.

Theorem C07_pp_ipv6_nested : forall sum_ok psum_ok bs,
  bytes_ok bs = true -> exists tr, pp_ipv6 sum_ok psum_ok bs = Ok tr /\ pp_chain 0 (blen bs) tr.
Proof. exact pp_ipv6_result. Qed.
Print Assumptions C07_pp_ipv6_nested.

Theorem C07_pp_icmpv4_nested : forall sum_ok psum_ok bs,
  bytes_ok bs = true -> exists tr, pp_icmpv4 sum_ok psum_ok bs = Ok tr /\ pp_chain 0 (blen bs) tr.
Proof. exact pp_icmpv4_result. Qed.
Print Assumptions C07_pp_icmpv4_nested.

(* ---------------- the recorded offsets are the real ones ---------------- *)

(* [pp_sound W tr]: for every entry e of tr, followed by t, the printer [pp_fmt e] run on the octets
   W[pp_off e .. pp_off e + pp_len e] yields exactly e :: t *)
Theorem C07_pp_ethernet_compositional : forall sum_ok psum_ok bs,
  bytes_ok bs = true ->
  exists tr, pp_ethernet sum_ok psum_ok bs = Ok tr /\ pp_sound sum_ok psum_ok bs tr.
Proof. exact pp_ethernet_sound. Qed.
Print Assumptions C07_pp_ethernet_compositional.

Theorem C07_pp_ipv4_compositional : forall sum_ok psum_ok bs,
  bytes_ok bs = true ->
  exists tr, pp_ipv4 sum_ok psum_ok bs = Ok tr /\ pp_sound sum_ok psum_ok bs tr.
Proof. exact pp_ipv4_sound. Qed.
Print Assumptions C07_pp_ipv4_compositional.

Theorem C07_pp_ipv6_compositional : forall sum_ok psum_ok bs,
  bytes_ok bs = true ->
  exists tr, pp_ipv6 sum_ok psum_ok bs = Ok tr /\ pp_sound sum_ok psum_ok bs tr.
Proof. exact pp_ipv6_sound. Qed.
Print Assumptions C07_pp_ipv6_compositional.

Theorem C07_pp_icmpv4_compositional : forall sum_ok psum_ok bs,
  bytes_ok bs = true ->
  exists tr, pp_icmpv4 sum_ok psum_ok bs = Ok tr /\ pp_sound sum_ok psum_ok bs tr.
Proof. exact pp_icmpv4_sound. Qed.
Print Assumptions C07_pp_icmpv4_compositional.

(* ---------------- non-vacuity: concrete runs ---------------- *)

Theorem C07_pp_example_doc_frame :
  pp_ethernet wb_plain_ok (fun _ => true) pp_example_doc_frame =
  Ok [mkPP pp_ETH 0 46 pp_ST_OK 2048; mkPP pp_IPV4 14 32 pp_ST_OK 1; mkPP pp_ICMPV4 34 12 1 4].
Proof. exact pp_example_doc. Qed.
Print Assumptions C07_pp_example_doc_frame.

Theorem C07_pp_example_nested_icmp_error :
  pp_ethernet wb_plain_ok (fun _ => true) pp_example_nested_frame =
  Ok [mkPP pp_ETH 0 74 pp_ST_OK 2048; mkPP pp_IPV4 14 60 pp_ST_OK 1; mkPP pp_ICMPV4 34 40 3 0;
      mkPP pp_IPV4 42 32 pp_ST_OK 17; mkPP pp_UDP_IN_IP 62 12 pp_ST_OK 4].
Proof. exact pp_example_nested. Qed.
Print Assumptions C07_pp_example_nested_icmp_error.

Theorem C07_pp_example_truncated_frame :
  pp_ethernet wb_plain_ok (fun _ => true) (firstn 66 pp_example_nested_frame) =
  Ok [mkPP pp_ETH 0 66 pp_ST_OK 2048; mkPP pp_IPV4 14 52 pp_ST_ERR 0].
Proof. exact pp_example_truncated. Qed.
Print Assumptions C07_pp_example_truncated_frame.
