(* Property C02, LIVENESS half, part 5: the ZERO WINDOW (step 4).
   fair_schedule as first defined bounds loss and delay but not DUPLICATION (a delivered frame stays on
   the channel and may be delivered again, arbitrarily late and often); the property's wording confines
   duplication to the finite fault prefix.  [once_run] is that missing premise as a run predicate, and
   C02live_zero_window_starved_by_redelivery is the witness that it is needed (the same run on two real
   interfaces: corpus/C02/tcpnet-zero-window-stale-ack-duplicates.case).
   Only theorems closed by [exact] and [Print Assumptions]; statements pinned in Pins/C02liveZw.v. *)
From SV Require Import Lib.Base Gen.Consts.
From SV Require Import Model.Seq32 Model.Assembler Model.TcpBuf Model.TcpTypes Model.Tcp Model.TcpNet.
From SV Require Import Proofs.TcpSendBase Proofs.TcpLiveBase Proofs.TcpLiveProofs Proofs.TcpLiveMore Proofs.TcpLiveProgress.
From SV Require Import Proofs.TcpNetBase.
From SV Require Import Proofs.TcpProgressBase Proofs.TcpProgressFrame Proofs.TcpProgressCtl Proofs.TcpProgressRecv Proofs.TcpProgressSend Proofs.TcpProgressNet Proofs.TcpProgressData Proofs.TcpProgressAck Proofs.TcpProgressAll Proofs.TcpProgressSafe Proofs.TcpProgressZwp Proofs.TcpProgressExample Proofs.TcpProgressWitness Proofs.TcpProgressSafeWitness Proofs.TcpProgressZwDup Proofs.TcpProgressZw1 Proofs.TcpProgressZw2 Proofs.TcpProgressZw3 Proofs.TcpProgressZwWitness.

(* the decision procedure for the premise is exact *)
Theorem C02live_once_runb_iff : forall Dt Da evs fa st,
  once_runb Dt Da fa st evs = true <-> once_run Dt Da fa st evs.
Proof. exact once_runb_iff. Qed.
Print Assumptions C02live_once_runb_iff.

(* WITHOUT a bound on re-delivery the zero-window probe can be starved on a run that satisfies
   fair_schedule: from a state reached from net_init, 30 s pass, A has 4 octets queued and believes the
   window closed, B's buffer is empty and the window it advertises is 8 octets wide, and A transmits
   nothing (the channel towards B has not grown).  The run re-delivers two old ACKs of B (same sequence
   and acknowledgment numbers; win 8, then win 0) before each poll of A and violates [once_run]. *)
Theorem C02live_zero_window_starved_by_redelivery :
  exists st0 st st',
    net_init zcfg_a zcfg_b = Ok st0 /\ net_run st0 zw_pre = Ok st /\ net_run st zw_suf = Ok st' /\
    fair_schedule 5000 5000 st zw_suf /\ ~ once_run 5000 5000 (fa_init 5000 5000 st) st zw_suf /\
    net_now st' SA = net_now st SA + 30000000 /\
    (forall z, s_state (net_sock st' z) = Established) /\
    rb_len (s_tx_buffer (net_sock st' SA)) = 4 /\ s_remote_win_len (net_sock st' SA) = 0 /\
    rx_len st' SB = 0 /\
    (exists W', 8 <= W' <= TcpRecvWindow.p30 /\
                tcp_window_end (net_sock st' SB) = seq_norm (tcp_window_start (net_sock st' SB) + W')) /\
    length (chan_to st' SB) = length (chan_to st SB).
Proof. exact zero_window_starved_by_redelivery. Qed.
Print Assumptions C02live_zero_window_starved_by_redelivery.

(* ---------------------------------------------------------------------------------------------
   THE WINDOW REOPENS on every reliable schedule (fair_run + once_run)
   --------------------------------------------------------------------------------------------- *)
(* whatever tcp_process replies is a RST or carries the scaled window of the state it leaves *)
Theorem C02live_reply_carries_current_window : forall cx s ip r s' rep tags,
  tcp_process cx s ip r = Ok (s', rep, tags) -> wsh s' rep.
Proof. exact process_reply_win. Qed.
Print Assumptions C02live_reply_carries_current_window.

(* ... and so does whatever an ESTABLISHED socket transmits *)
Theorem C02live_transmit_carries_current_window : forall cx s ok s' res tags t,
  s_state s = Established -> s_state s' = Established ->
  s_tuple s = Some t -> tu_local_addr t = cx_addr cx ->
  tcp_dispatch cx s ok = Ok (s', res, tags) ->
  forall p, res = DSent p -> r_window_len (snd p) = tcp_scaled_window s'.
Proof. exact dispatch_est_win. Qed.
Print Assumptions C02live_transmit_carries_current_window.

(* a segment at an ESTABLISHED sender changes nothing but bookkeeping, or the learned window becomes
   the advertised one *)
Theorem C02live_sender_learns_advertised_window : forall cx s ip r s' reply tags,
  ctx_ok cx -> seg_ok r -> tcp_live_inv s ->
  s_state s = Established -> s_state s' = Established ->
  rb_len (s_tx_buffer s) < 2 ^ 31 ->
  tcp_process cx s ip r = Ok (s', reply, tags) ->
  core_eq s s' \/
  (r_control r <> CSyn /\ s_remote_win_len s' = shl (r_window_len r) (win_scale_of s r)).
Proof. exact process_sender_win. Qed.
Print Assumptions C02live_sender_learns_advertised_window.

(* poll_at is never later than an armed retransmission / probe timer, and Now for a fast retransmit *)
Theorem C02live_poll_at_not_after_armed_timer : forall cx s,
  s_tuple s <> None ->
  match tcp_poll_at cx s with
  | Ok PNow => True
  | Ok (PTime t) => match s_timer s with
                    | TRetransmit e | TZeroWindowProbe e _ => t <= e
                    | TFastRetransmit => False
                    | _ => True
                    end
  | Ok PIngress => match s_timer s with
                   | TRetransmit _ | TZeroWindowProbe _ _ | TFastRetransmit => False
                   | _ => True
                   end
  | _ => True
  end.
Proof. exact poll_at_le_timer. Qed.
Print Assumptions C02live_poll_at_not_after_armed_timer.

(* window believed closed, probe timer not due: the dispatch leaves the timer and sends no data *)
Theorem C02live_zero_window_probe_timer_kept : forall cx s t ok s' res tags e d,
  tcp_live_inv s -> s_state s = Established -> s_timeout s = None ->
  s_tuple s = Some t -> tu_local_addr t = cx_addr cx ->
  s_remote_win_len s = 0 -> s_remote_last_seq s = s_local_seq_no s ->
  s_timer s = TZeroWindowProbe e d -> cx_now cx < e ->
  tcp_dispatch cx s ok = Ok (s', res, tags) ->
  s_timer s' = TZeroWindowProbe e d /\ s_remote_win_len s' = 0 /\
  forall p, res = DSent p -> repr_segment_len (snd p) = 0.
Proof. exact dispatch_zw_not_due. Qed.
Print Assumptions C02live_zero_window_probe_timer_kept.

(* window believed closed, the retransmission timer fires: the probe timer is armed within RTTE_MAX_RTO *)
Theorem C02live_zero_window_rto_arms_probe : forall cx s t ok s' res tags e,
  tcp_live_inv s -> s_state s = Established -> s_timeout s = None ->
  s_tuple s = Some t -> tu_local_addr t = cx_addr cx ->
  s_remote_win_len s = 0 -> 0 < rb_len (s_tx_buffer s) ->
  s_timer s = TRetransmit e -> e <= cx_now cx ->
  tcp_dispatch cx s ok = Ok (s', res, tags) ->
  (exists e' d', s_timer s' = TZeroWindowProbe e' d' /\ cx_now cx < e' <= cx_now cx + max_rto_us) /\
  s_remote_win_len s' = 0 /\ forall p, res = DSent p -> repr_segment_len (snd p) = 0.
Proof. exact dispatch_zw_rto. Qed.
Print Assumptions C02live_zero_window_rto_arms_probe.

(* the induction principle for reliable runs *)
Theorem C02live_reliable_leads : forall (Dt Da : Z) (R : net -> Prop) (J Q : fair_aux -> net -> Prop) (x : side) (T : Z),
  (forall fa st, J fa st -> net_now st x <= T) ->
  (forall fa st ev st', R st -> R st' -> J fa st -> fair_ev fa st ev -> once_ev fa ev -> net_step st ev = Ok st' ->
     Q (fa_after Dt Da fa ev st') st' \/ J (fa_after Dt Da fa ev st') st') ->
  forall evs fa st st',
    J fa st -> run_all R st evs -> fair_run Dt Da fa st evs -> once_run Dt Da fa st evs ->
    net_run st evs = Ok st' -> T < net_now st' x ->
    exists pre post fa1 st1,
      evs = pre ++ post /\ net_run st pre = Ok st1 /\ net_run st1 post = Ok st' /\
      run_all R st1 post /\ fair_run Dt Da fa1 st1 post /\ once_run Dt Da fa1 st1 post /\ Q fa1 st1 /\
      exists fa0 st0 ev0, J fa0 st0 /\ R st0 /\ fair_ev fa0 st0 ev0 /\ net_step st0 ev0 = Ok st1 /\
                          fa1 = fa_after Dt Da fa0 ev0 st1.
Proof. exact rel_leads. Qed.
Print Assumptions C02live_reliable_leads.

(* one step of a reliable schedule in each phase *)
Theorem C02live_zero_window_deadline_step : forall x Dt Da u0 d0 dk T1 fa st ev st',
  0 <= Dt -> 0 <= Da ->
  zsafe x st -> zsafe x st' -> Z1 x Da u0 d0 dk T1 fa st -> fair_ev fa st ev -> once_ev fa ev -> net_step st ev = Ok st' ->
  (Qz x u0 d0 st' \/ JR x Da d0 (T1 + dk + Da) (fa_after Dt Da fa ev st') st' \/
   Z2 x Da u0 d0 dk (T1 + dk + Dt) (fa_after Dt Da fa ev st') st') \/
  Z1 x Da u0 d0 dk T1 (fa_after Dt Da fa ev st') st'.
Proof. exact Z1_step. Qed.
Print Assumptions C02live_zero_window_deadline_step.

Theorem C02live_zero_window_probe_in_flight_step : forall x Dt Da u0 d0 dk T2 fa st ev st',
  0 <= Dt -> 0 <= Da ->
  zsafe x st -> zsafe x st' -> Z2 x Da u0 d0 dk T2 fa st -> fair_ev fa st ev -> once_ev fa ev -> net_step st ev = Ok st' ->
  (Qz x u0 d0 st' \/ JR x Da d0 (T2 + Da) (fa_after Dt Da fa ev st') st' \/
   Z4 x Da u0 d0 dk (T2 - dk + Dt) (fa_after Dt Da fa ev st') st') \/
  Z2 x Da u0 d0 dk T2 (fa_after Dt Da fa ev st') st'.
Proof. exact Z2_step. Qed.
Print Assumptions C02live_zero_window_probe_in_flight_step.

Theorem C02live_zero_window_ack_in_flight_step : forall x Dt Da u0 d0 dk T4 fa st ev st',
  0 <= Da ->
  zsafe x st -> zsafe x st' -> Z4 x Da u0 d0 dk T4 fa st -> fair_ev fa st ev -> once_ev fa ev -> net_step st ev = Ok st' ->
  (Qz x u0 d0 st' \/ JR x Da d0 (T4 + dk + Da) (fa_after Dt Da fa ev st') st') \/
  Z4 x Da u0 d0 dk T4 (fa_after Dt Da fa ev st') st'.
Proof. exact Z4_step. Qed.
Print Assumptions C02live_zero_window_ack_in_flight_step.

(* ZERO WINDOW EVENTUALLY REOPENS (under the run hypothesis zsafe) *)
Theorem C02live_zero_window_eventually_reopens : forall x Dt Da evs fa st st' u0 d0,
  0 <= Dt -> 0 <= Da ->
  NI st -> opts_ok st -> dl_sync Da fa st ->
  run_all (zsafe x) st evs -> fair_run Dt Da fa st evs -> once_run Dt Da fa st evs -> net_run st evs = Ok st' ->
  0 < txl x st -> s_remote_win_len (net_sock st x) = 0 -> wpos x fa st ->
  una_off (net_get st x) = u0 -> read_off (net_get st (side_other x)) = d0 ->
  net_now st x + 2 * max_rto_us + 2 * Dt + Da < net_now st' x ->
  exists pre post st1, evs = pre ++ post /\ net_run st pre = Ok st1 /\ net_run st1 post = Ok st' /\
                       Qz x u0 d0 st1.
Proof. exact zero_window_eventually_reopens. Qed.
Print Assumptions C02live_zero_window_eventually_reopens.

(* the run hypothesis derived from the regime invariant and C01's invariant, but for zextra *)
Theorem C02live_zero_window_safety_discharged : forall x Dack evs st st',
  reach st -> NI st -> opts_ok st -> reg x Dack st ->
  Forall (script_ev x) evs -> net_run st evs = Ok st' ->
  TcpNetInv.small st' -> wr_small x st' -> run_all (zextra x) st evs ->
  run_all (zsafe x) st evs.
Proof. exact zsafe_run. Qed.
Print Assumptions C02live_zero_window_safety_discharged.

(* ZERO WINDOW EVENTUALLY REOPENS, from a state reached from net_init: the only premises about the states
   of the run are zextra (a probe timer runs only with nothing in flight; an empty receive buffer
   advertises a non-zero window) *)
Theorem C02live_zero_window_reopens_from_established : forall x Dt Da Dack evs fa st st',
  reach st -> reg x Dack st -> opts_ok st ->
  0 <= Dt -> 0 <= Da -> dl_sync Da fa st ->
  fair_run Dt Da fa st evs -> once_run Dt Da fa st evs ->
  Forall (app_ev x) evs -> net_run st evs = Ok st' ->
  (forall z, l_len (ep_written (net_get st' z)) < 2 ^ 30) ->
  run_all (zextra x) st evs ->
  0 < txl x st -> s_remote_win_len (net_sock st x) = 0 -> wpos x fa st ->
  net_now st x + 2 * max_rto_us + 2 * Dt + Da < net_now st' x ->
  exists pre post st1, evs = pre ++ post /\ net_run st pre = Ok st1 /\ net_run st1 post = Ok st' /\
                       Qz x (una_off (net_get st x)) (read_off (net_get st (side_other x))) st1.
Proof. exact zero_window_reopens_from_established. Qed.
Print Assumptions C02live_zero_window_reopens_from_established.

(* NON-VACUITY: B's window update is lost in the prefix; on the reliable suffix every premise holds
   (sound decision procedures) and the theorem yields the progress state *)
Theorem C02live_zero_window_reopens_applies :
  exists st0 st st',
    net_init zcfg_a zcfg_b = Ok st0 /\ net_run st0 zww_prefix = Ok st /\ net_run st zww_suffix = Ok st' /\
    reach st /\ reg SA 10000 st /\ reliable_schedule 5000 5000 st zww_suffix /\ Forall (app_ev SA) zww_suffix /\
    run_all (zextra SA) st zww_suffix /\
    0 < txl SA st /\ s_remote_win_len (net_sock st SA) = 0 /\
    exists p1 p2 st1, zww_suffix = p1 ++ p2 /\ net_run st p1 = Ok st1 /\ net_run st1 p2 = Ok st' /\
                      Qz SA (una_off (net_get st SA)) (read_off (net_get st SB)) st1.
Proof. exact zero_window_reopens_applies. Qed.
Print Assumptions C02live_zero_window_reopens_applies.
