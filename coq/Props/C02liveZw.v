(* Property C02, LIVENESS half, part 5: the ZERO WINDOW (step 4).
   fair_schedule as first defined bounds loss and delay but not DUPLICATION (a delivered frame stays on
   the channel and may be delivered again, arbitrarily late and often); the property's wording confines
   duplication to the finite fault prefix.  [once_run] is that missing premise as a run predicate, and
   C02live_zero_window_starved_by_redelivery is the witness that it is needed (the same run on two real
   interfaces: corpus/C02/tcpnet-zero-window-stale-ack-duplicates.case).
   Only theorems closed by [exact] and [Print Assumptions]; statements pinned in Pins/C02liveZw.v. *)
From SV Require Import Lib.Base Gen.Consts.
From SV Require Import Model.Seq32 Model.Assembler Model.TcpBuf Model.TcpTypes Model.Tcp Model.TcpNet.
From SV Require Import Proofs.TcpSendBase Proofs.TcpLiveBase Proofs.TcpLiveProofs Proofs.TcpLiveMore Proofs.TcpLiveProgress.
From SV Require Import Proofs.TcpNetBase.
From SV Require Import Proofs.TcpProgressBase Proofs.TcpProgressExample Proofs.TcpProgressWitness Proofs.TcpProgressZwDup.

(* the decision procedure for the premise is exact *)
Theorem C02live_once_runb_iff : forall Dt Da evs fa st,
  once_runb Dt Da fa st evs = true <-> once_run Dt Da fa st evs.
Proof. exact once_runb_iff. Qed.
Print Assumptions C02live_once_runb_iff.

(* WITHOUT a bound on re-delivery the zero-window probe can be starved on a run that satisfies
   fair_schedule: from a state reached from net_init, 30 s pass, A has 4 octets queued and believes the
   window closed, B's buffer is empty and the window it advertises is 8 octets wide, and A transmits
   nothing (the channel towards B has not grown).  The run re-delivers two old ACKs of B (same sequence
   and acknowledgment numbers; win 8, then win 0) before each poll of A and violates [once_run]. *)
Theorem C02live_zero_window_starved_by_redelivery :
  exists st0 st st',
    net_init zcfg_a zcfg_b = Ok st0 /\ net_run st0 zw_pre = Ok st /\ net_run st zw_suf = Ok st' /\
    fair_schedule 5000 5000 st zw_suf /\ ~ once_run 5000 5000 (fa_init 5000 5000 st) st zw_suf /\
    net_now st' SA = net_now st SA + 30000000 /\
    (forall z, s_state (net_sock st' z) = Established) /\
    rb_len (s_tx_buffer (net_sock st' SA)) = 4 /\ s_remote_win_len (net_sock st' SA) = 0 /\
    rx_len st' SB = 0 /\
    (exists W', 8 <= W' <= TcpRecvWindow.p30 /\
                tcp_window_end (net_sock st' SB) = seq_norm (tcp_window_start (net_sock st' SB) + W')) /\
    length (chan_to st' SB) = length (chan_to st SB).
Proof. exact zero_window_starved_by_redelivery. Qed.
Print Assumptions C02live_zero_window_starved_by_redelivery.
