(* Property C07 — checked packet views never panic on arbitrary bytes: second wave, group
   "v6opts": IPv6 extension-header options and their iterator, Hop-by-Hop options header, Routing
   header (same shape as Props/C07b.v).  For every format F:
     F_accessors_safe   check_len bs = Ok -> no accessor applicable to the packet panics
     F_parse_total      for every byte string bs, Repr::parse bs is Ok or Err, never Panic
   [bytes_ok bs] says that the elements of the list are octets (0..255).  Termination is by
   construction: every model function is a Gallina function; the options walk has fuel = number
   of octets and fuel-suffices is proved. *)
From SV Require Import Lib.Base Gen.Consts Gen.WireFields Model.WireBase Proofs.WireBaseProofs.
From SV Require Import Model.WireIpv6Opt Proofs.WireIpv6OptProofs.
From SV Require Import Model.WireIpv6Hbh Proofs.WireIpv6HbhProofs.
From SV Require Import Model.WireIpv6Routing Proofs.WireIpv6RoutingProofs.

(* ---------------- IPv6 extension-header option ----------------
   data_len / data are documented to panic on a one-octet Pad1 option: they apply to every
   other option type. *)

Theorem C07_v6opt_accessors_safe : forall bs,
  bytes_ok bs = true -> v6opt_check_len bs = Ok tt ->
  v6opt_option_type bs <> Panic /\
  (forall t, v6opt_option_type bs = Ok t -> v6opt_failure_type t <> Panic) /\
  (v6opt_option_type bs <> Ok v6opt_T_PAD1 -> v6opt_data_len bs <> Panic /\ v6opt_data bs <> Panic).
Proof. exact v6opt_accessors_safe. Qed.
Print Assumptions C07_v6opt_accessors_safe.

Theorem C07_v6opt_check_len_total : forall bs, v6opt_check_len bs <> Panic.
Proof. exact v6opt_check_len_total. Qed.
Print Assumptions C07_v6opt_check_len_total.

Theorem C07_v6opt_parse_total : forall bs, bytes_ok bs = true -> v6opt_parse bs <> Panic.
Proof. exact v6opt_parse_total. Qed.
Print Assumptions C07_v6opt_parse_total.

(* FailureType::from(u8): the unreachable!() arm is unreachable *)
Theorem C07_v6opt_failure_type_total : forall v, 0 <= v < 256 -> v6opt_failure_type v <> Panic.
Proof. exact v6opt_failure_type_total. Qed.
Print Assumptions C07_v6opt_failure_type_total.

(* Ipv6OptionsIterator: |data| calls of next() suffice (more fuel changes nothing), because every
   successful call advances by buffer_len() >= 1; zero-length options (PadN(0), Unknown with
   length 0) advance by 2, oversized lengths end the walk with Err *)
Theorem C07_v6opt_iter_fuel_suffices : forall data, bytes_ok data = true ->
  forall fuel pos k, 0 <= pos -> blen data - pos <= Z.of_nat fuel ->
  v6opt_iter_fuel (fuel + k) data pos = v6opt_iter_fuel fuel data pos.
Proof. exact v6opt_iter_fuel_suffices. Qed.
Print Assumptions C07_v6opt_iter_fuel_suffices.

Theorem C07_v6opt_iter_no_panic : forall data, bytes_ok data = true -> ~ In Panic (v6opt_iter data).
Proof. exact v6opt_iter_no_panic. Qed.
Print Assumptions C07_v6opt_iter_no_panic.

(* once next() has returned an Err it returns None: an Err can only be the last item *)
Theorem C07_v6opt_iter_err_last : forall fuel data pos pre x post,
  v6opt_iter_fuel fuel data pos = pre ++ x :: post -> post <> [] -> exists r, x = Ok r.
Proof. exact v6opt_iter_fuel_err_last. Qed.
Print Assumptions C07_v6opt_iter_err_last.

(* ---------------- Hop-by-Hop options header ----------------
   The only accessor is options() (the whole buffer).  Repr::parse drains the options iterator
   (terminating by C07_v6opt_iter_fuel_suffices) and stops collecting when the Vec is full. *)

Theorem C07_v6hbh_accessors_safe : forall bs, v6hbh_check_len bs = Ok tt -> v6hbh_options bs <> Panic.
Proof. exact v6hbh_accessors_safe. Qed.
Print Assumptions C07_v6hbh_accessors_safe.

Theorem C07_v6hbh_parse_total : forall bs, bytes_ok bs = true -> v6hbh_parse bs <> Panic.
Proof. exact v6hbh_parse_total. Qed.
Print Assumptions C07_v6hbh_parse_total.

(* ---------------- Routing header ----------------
   routing_type / segments_left apply to every header; home_address to Type 2 headers; cmpr_i,
   cmpr_e, pad, addresses to RPL source routing headers (documented "may panic if this header is
   not ..."). *)

Theorem C07_v6rt_accessors_safe : forall bs,
  v6rt_check_len bs = Ok tt ->
  v6rt_routing_type bs <> Panic /\ v6rt_segments_left bs <> Panic /\
  (v6rt_routing_type bs = Ok v6rt_T_TYPE2 -> v6rt_home_address bs <> Panic) /\
  (v6rt_routing_type bs = Ok v6rt_T_RPL ->
     v6rt_cmpr_i bs <> Panic /\ v6rt_cmpr_e bs <> Panic /\ v6rt_pad bs <> Panic /\ v6rt_addresses bs <> Panic).
Proof. exact v6rt_accessors_safe. Qed.
Print Assumptions C07_v6rt_accessors_safe.

Theorem C07_v6rt_parse_total : forall bs, v6rt_parse bs <> Panic.
Proof. exact v6rt_parse_total. Qed.
Print Assumptions C07_v6rt_parse_total.
