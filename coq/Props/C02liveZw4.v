(* Property C02, LIVENESS half, part 9: FROM net_init TO DELIVERY on one reliable schedule, ZERO WINDOWS
   INCLUDED (no "window open" premise for the data phase).
   Only theorems closed by [exact] and [Print Assumptions]; statements pinned in Pins/C02liveZw4.v. *)
From SV Require Import Lib.Base Gen.Consts.
From SV Require Import Model.Seq32 Model.Assembler Model.TcpBuf Model.TcpTypes Model.Tcp Model.TcpNet.
From SV Require Import Proofs.TcpSendBase Proofs.TcpLiveBase Proofs.TcpLiveProofs Proofs.TcpLiveMore Proofs.TcpLiveProgress.
From SV Require Import Proofs.TcpNetBase.
From SV Require Import Proofs.TcpProgressBase Proofs.TcpProgressFrame Proofs.TcpProgressCtl Proofs.TcpProgressRecv Proofs.TcpProgressSend Proofs.TcpProgressNet Proofs.TcpProgressData Proofs.TcpProgressAck Proofs.TcpProgressAll Proofs.TcpProgressSafe Proofs.TcpProgressHs Proofs.TcpProgressHsD Proofs.TcpProgressHsNet Proofs.TcpProgressHsInit Proofs.TcpProgressHsLive Proofs.TcpProgressHsLive2 Proofs.TcpProgressZwp Proofs.TcpProgressExample Proofs.TcpProgressWitness Proofs.TcpProgressSafeWitness Proofs.TcpProgressZwDup Proofs.TcpProgressZw1 Proofs.TcpProgressZw1b Proofs.TcpProgressZw2 Proofs.TcpProgressZw3 Proofs.TcpProgressZwWitness Proofs.TcpProgressZw4 Proofs.TcpProgressZw5 Proofs.TcpProgressZw6 Proofs.TcpProgressZwWitness3.

(* the handshake completes within 3 Dt on a schedule that is fair and delivers nothing twice from net_init
   on; the rest of the run is again reliable, with its bookkeeping *)
Theorem C02live_handshake_completes_reliable : forall Dt Da Dack ca cb st0, start_ok Dack ca cb st0 ->
  forall evs st',
  reliable_schedule Dt Da st0 evs -> Forall (app_ev SA) evs -> net_run st0 evs = Ok st' -> TcpNetInv.small st' ->
  run_all syn_win_open st0 evs ->
  net_now st0 SA + 3 * Dt < net_now st' SA ->
  exists pre post fa1 st1,
    evs = pre ++ post /\ net_run st0 pre = Ok st1 /\ net_run st1 post = Ok st' /\
    reg SA Dack st1 /\ reach st1 /\ opts_ok st1 /\
    dl_sync Da fa1 st1 /\ dlb Dt fa1 st1 /\ fair_run Dt Da fa1 st1 post /\ once_run Dt Da fa1 st1 post /\
    net_now st1 SA <= net_now st0 SA + 3 * Dt.
Proof. exact handshake_completes_rel. Qed.
Print Assumptions C02live_handshake_completes_reliable.

(* the delivery theorem with the bookkeeping of a run in progress *)
Theorem C02live_delivery_zero_windows_in_progress : forall x Dt Da Dack n evs fa st st' L0,
  reach st -> reg x Dack st -> opts_ok st ->
  0 <= Dt -> 0 <= Da -> dl_sync Da fa st -> dlb Dt fa st ->
  fair_run Dt Da fa st evs -> once_run Dt Da fa st evs ->
  Forall (app_ev x) evs -> net_run st evs = Ok st' ->
  (forall z, l_len (ep_written (net_get st' z)) < 2 ^ 30) ->
  run_all (zextra x) st evs ->
  L0 <= l_len (ep_written (net_get st x)) ->
  Z.max 0 (L0 - una_off (net_get st x)) + Z.max 0 (L0 - read_off (net_get st (side_other x))) <= Z.of_nat n ->
  net_now st x + Z.of_nat n * Wz Dt Da < net_now st' x ->
  exists pre post st1, evs = pre ++ post /\ net_run st pre = Ok st1 /\ net_run st1 post = Ok st' /\
                       L0 <= read_off (net_get st1 (side_other x)).
Proof. exact oneway_delivery_zw_fa. Qed.
Print Assumptions C02live_delivery_zero_windows_in_progress.

(* FROM net_init TO DELIVERY, zero windows included: within 3 Dt both sockets are ESTABLISHED, and every
   octet written by then is handed to B's application within n * (3 RTTE_MAX_RTO + 3 Dt + Da) more.
   Premises about the states of the run: zregime (the window B advertises in SYN-RECEIVED is open; once both
   are ESTABLISHED, zextra) *)
Theorem C02live_transfer_from_net_init_zero_windows : forall Dt Da Dack ca cb st0 evs st',
  start_ok Dack ca cb st0 ->
  reliable_schedule Dt Da st0 evs -> Forall (app_ev SA) evs -> net_run st0 evs = Ok st' ->
  (forall z, l_len (ep_written (net_get st' z)) < 2 ^ 30) ->
  run_all (zregime Dack) st0 evs ->
  net_now st0 SA + 3 * Dt < net_now st' SA ->
  exists pre post st1,
    evs = pre ++ post /\ net_run st0 pre = Ok st1 /\ net_run st1 post = Ok st' /\
    (forall z, s_state (net_sock st1 z) = Established) /\ net_now st1 SA <= net_now st0 SA + 3 * Dt /\
    forall L0 n,
      L0 <= l_len (ep_written (net_get st1 SA)) ->
      Z.max 0 (L0 - una_off (net_get st1 SA)) + Z.max 0 (L0 - read_off (net_get st1 SB)) <= Z.of_nat n ->
      net_now st1 SA + Z.of_nat n * Wz Dt Da < net_now st' SA ->
      exists p1 p2 st2, post = p1 ++ p2 /\ net_run st1 p1 = Ok st2 /\ net_run st2 p2 = Ok st' /\
                        L0 <= read_off (net_get st2 SB).
Proof. exact transfer_zw_from_net_init. Qed.
Print Assumptions C02live_transfer_from_net_init_zero_windows.

(* NON-VACUITY: a reliable schedule from net_init on which the window closes in the middle (12 octets into
   an 8-octet buffer, ACK with window 0, probe timer armed, the application reads, the update arrives) and
   zregime holds in every state (sound decision procedure) *)
Theorem C02live_transfer_from_net_init_zero_windows_applies :
  exists st0 st' pre post st1,
    start_ok 10000 zcfg_a zcfg_b st0 /\ reliable_schedule 5000 5000 st0 zw_full_sched /\
    run_all (zregime 10000) st0 zw_full_sched /\
    net_run st0 zw_full_sched = Ok st' /\ zw_full_sched = pre ++ post /\ net_run st0 pre = Ok st1 /\
    net_run st1 post = Ok st' /\ (forall z, s_state (net_sock st1 z) = Established) /\
    net_now st1 SA <= net_now st0 SA + 3 * 5000.
Proof. exact transfer_zw_from_net_init_applies. Qed.
Print Assumptions C02live_transfer_from_net_init_zero_windows_applies.
