(* Property C06 — wire representations survive emit-then-parse unchanged: SECOND WAVE of formats
   (IGMP, IPv6 fragment / extension / hop-by-hop / routing headers and options, MLD, NDISC and
   its options, IEEE 802.15.4, DHCPv4).  Same shape as Props/C06.v: this file contains only the
   property theorems (each closed by [exact]) and [Print Assumptions]; statements are pinned in
   Pins/C06b.v.  For every format F:
     F_emit_no_panic           wf r -> |b| = buffer_len r -> emit r b <> Panic
     F_emit_ignores_old_bytes  emit r b1 = emit r b2 for buffers of the declared length
     F_roundtrip               parse (emit r b) = Ok r
     F_reparse                 parse bs = Ok r -> wf r /\ parse (emit r b) = Ok r
   [wf] is the format's precise reading of the proviso "its variable-length parts fit what the
   protocol permits" (justified clause by clause in Model/Wire<F>.v). *)
From SV Require Import Lib.Base Gen.WireFields Model.WireBase Proofs.WireBaseProofs.
From SV Require Import Model.WireIgmp Proofs.WireIgmpProofs.
From SV Require Import Model.WireIpv6Frag Proofs.WireIpv6FragProofs.
From SV Require Import Model.WireIpv6Ext Proofs.WireIpv6ExtProofs.
From SV Require Import Model.WireIcmpv6Hdr Proofs.WireIcmpv6HdrProofs Model.WireMld Proofs.WireMldProofs.

(* ---------------- IGMPv1/v2 (src/wire/igmp.rs) ----------------
   [sum_fill] is `!checksum::data(..)` (property C08); `Repr::parse` does not verify the
   checksum, so the round trip needs no hypothesis about it. *)

Theorem C06_igmp_emit_no_panic : forall (sum_fill : list Z -> Z) r b,
  igmp_wf r = true -> blen b = igmp_buffer_len r -> igmp_emit sum_fill r b <> Panic.
Proof. exact igmp_emit_no_panic. Qed.
Print Assumptions C06_igmp_emit_no_panic.

Theorem C06_igmp_emit_ignores_old_bytes : forall (sum_fill : list Z -> Z) r b1 b2,
  igmp_wf r = true -> blen b1 = igmp_buffer_len r -> blen b2 = igmp_buffer_len r ->
  igmp_emit sum_fill r b1 = igmp_emit sum_fill r b2.
Proof. exact igmp_emit_ignores_old_bytes. Qed.
Print Assumptions C06_igmp_emit_ignores_old_bytes.

Theorem C06_igmp_roundtrip : forall (sum_fill : list Z -> Z) r b,
  igmp_wf r = true -> blen b = igmp_buffer_len r ->
  exists bs, igmp_emit sum_fill r b = Ok bs /\ blen bs = igmp_buffer_len r /\ igmp_parse bs = Ok r.
Proof. exact igmp_roundtrip. Qed.
Print Assumptions C06_igmp_roundtrip.

Theorem C06_igmp_reparse : forall (sum_fill : list Z -> Z) bs r,
  bytes_ok bs = true -> igmp_parse bs = Ok r ->
  igmp_wf r = true /\
  forall b, blen b = igmp_buffer_len r ->
    exists bs', igmp_emit sum_fill r b = Ok bs' /\ igmp_parse bs' = Ok r.
Proof. exact igmp_reparse. Qed.
Print Assumptions C06_igmp_reparse.

(* ---------------- IPv6 Fragment header (src/wire/ipv6fragment.rs) ---------------- *)

Theorem C06_v6frag_emit_no_panic : forall r b,
  v6frag_wf r = true -> blen b = v6frag_buffer_len r -> v6frag_emit r b <> Panic.
Proof. exact v6frag_emit_no_panic. Qed.
Print Assumptions C06_v6frag_emit_no_panic.

Theorem C06_v6frag_emit_ignores_old_bytes : forall r b1 b2,
  v6frag_wf r = true -> blen b1 = v6frag_buffer_len r -> blen b2 = v6frag_buffer_len r ->
  v6frag_emit r b1 = v6frag_emit r b2.
Proof. exact v6frag_emit_ignores_old_bytes. Qed.
Print Assumptions C06_v6frag_emit_ignores_old_bytes.

Theorem C06_v6frag_roundtrip : forall r b,
  v6frag_wf r = true -> blen b = v6frag_buffer_len r ->
  exists bs, v6frag_emit r b = Ok bs /\ blen bs = v6frag_buffer_len r /\ v6frag_parse bs = Ok r.
Proof. exact v6frag_roundtrip. Qed.
Print Assumptions C06_v6frag_roundtrip.

Theorem C06_v6frag_reparse : forall bs r,
  bytes_ok bs = true -> v6frag_parse bs = Ok r ->
  v6frag_wf r = true /\
  forall b, blen b = v6frag_buffer_len r ->
    exists bs', v6frag_emit r b = Ok bs' /\ v6frag_parse bs' = Ok r.
Proof. exact v6frag_reparse. Qed.
Print Assumptions C06_v6frag_reparse.

(* ---------------- generic IPv6 extension header (src/wire/ipv6ext_header.rs) ----------------
   `Repr::emit` writes the two fixed octets (`header_len()` = 2); the payload `data` is written
   by the caller into `payload_mut()`.  [v6ext_emit] is Repr::emit on its declared 2 octets
   (and, by [v6ext_emit_frame], on the front of a longer buffer); [v6ext_emit_full] is
   emit + the caller's copy on the whole header of length * 8 + 8 octets. *)

Theorem C06_v6ext_emit_no_panic : forall r b,
  v6ext_wf r = true -> blen b = v6ext_buffer_len r -> v6ext_emit r b <> Panic.
Proof. exact v6ext_emit_no_panic. Qed.
Print Assumptions C06_v6ext_emit_no_panic.

Theorem C06_v6ext_emit_ignores_old_bytes : forall r b1 b2,
  v6ext_wf r = true -> blen b1 = v6ext_buffer_len r -> blen b2 = v6ext_buffer_len r ->
  v6ext_emit r b1 = v6ext_emit r b2.
Proof. exact v6ext_emit_ignores_old_bytes. Qed.
Print Assumptions C06_v6ext_emit_ignores_old_bytes.

Theorem C06_v6ext_emit_frame : forall r h t,
  blen h = v6ext_buffer_len r -> v6ext_emit r (h ++ t) = omap (fun x => x ++ t) (v6ext_emit r h).
Proof. exact v6ext_emit_frame. Qed.
Print Assumptions C06_v6ext_emit_frame.

Theorem C06_v6ext_roundtrip : forall r b,
  v6ext_wf r = true -> blen b = v6ext_buffer_len r ->
  exists bs, v6ext_emit r b = Ok bs /\ blen bs = v6ext_buffer_len r /\
             forall rest, v6ext_parse (bs ++ v6ext_data r ++ rest) = Ok r.
Proof. exact v6ext_roundtrip. Qed.
Print Assumptions C06_v6ext_roundtrip.

Theorem C06_v6ext_full_emit_no_panic : forall r b,
  v6ext_wf r = true -> blen b = v6ext_total_len r -> v6ext_emit_full r b <> Panic.
Proof. exact v6ext_emit_full_no_panic. Qed.
Print Assumptions C06_v6ext_full_emit_no_panic.

Theorem C06_v6ext_full_emit_ignores_old_bytes : forall r b1 b2,
  v6ext_wf r = true -> blen b1 = v6ext_total_len r -> blen b2 = v6ext_total_len r ->
  v6ext_emit_full r b1 = v6ext_emit_full r b2.
Proof. exact v6ext_emit_full_ignores_old_bytes. Qed.
Print Assumptions C06_v6ext_full_emit_ignores_old_bytes.

Theorem C06_v6ext_full_roundtrip : forall r b,
  v6ext_wf r = true -> blen b = v6ext_total_len r ->
  exists bs, v6ext_emit_full r b = Ok bs /\ blen bs = v6ext_total_len r /\ v6ext_parse bs = Ok r.
Proof. exact v6ext_full_roundtrip. Qed.
Print Assumptions C06_v6ext_full_roundtrip.

Theorem C06_v6ext_reparse : forall bs r,
  bytes_ok bs = true -> v6ext_parse bs = Ok r ->
  v6ext_wf r = true /\
  forall b, blen b = v6ext_total_len r ->
    exists bs', v6ext_emit_full r b = Ok bs' /\ v6ext_parse bs' = Ok r.
Proof. exact v6ext_reparse. Qed.
Print Assumptions C06_v6ext_reparse.

(* ---------------- MLDv2 (src/wire/mld.rs) ----------------
   MldRepr is a view of the ICMPv6 packet and is emitted only through `Icmpv6Repr::Mld(r).emit`,
   which owns the checksum octets 2..3: [mld_icmp_emit sum_fill tx] is that composition
   ([sum_fill] = the ICMPv6 pseudo-header checksum of property C08, [tx] = caps.icmpv6.tx());
   `MldRepr::emit` alone ([mld_emit]) writes every other octet ([C06_mld_emit_spec]: the result is
   determined by r and the two old checksum octets).  `MldRepr::parse` verifies no checksum;
   `Icmpv6Repr::parse` ([mld_icmp_parse sum_ok rx]) does when rx, and demands message code 0.
   [mld_canon] is the identity on Query / Report; the emit-only spelling ReportRecordReprs is
   read back as the Report carrying the same record headers.
   An address record (AddressRecordRepr) is emitted as its 20-octet header; its payload
   (sources, auxiliary data) is not written by emit, the round trip is for header ++ payload. *)

Theorem C06_mldrec_emit_no_panic : forall r b,
  mldrec_wf r = true -> blen b = mldrec_buffer_len r -> mldrec_emit r b <> Panic.
Proof. exact mldrec_emit_no_panic. Qed.
Print Assumptions C06_mldrec_emit_no_panic.

Theorem C06_mldrec_emit_ignores_old_bytes : forall r b1 b2,
  mldrec_wf r = true -> blen b1 = mldrec_buffer_len r -> blen b2 = mldrec_buffer_len r ->
  mldrec_emit r b1 = mldrec_emit r b2.
Proof. exact mldrec_emit_ignores_old_bytes. Qed.
Print Assumptions C06_mldrec_emit_ignores_old_bytes.

Theorem C06_mldrec_emit_frame : forall r h t,
  blen h = mldrec_buffer_len r -> mldrec_emit r (h ++ t) = omap (fun x => x ++ t) (mldrec_emit r h).
Proof. exact mldrec_emit_frame. Qed.
Print Assumptions C06_mldrec_emit_frame.

Theorem C06_mldrec_roundtrip : forall r b,
  mldrec_wf r = true -> blen b = mldrec_buffer_len r ->
  exists bs, mldrec_emit r b = Ok bs /\ blen bs = mldrec_buffer_len r /\
             mldrec_parse (bs ++ mldrec_payload r) = Ok r.
Proof. exact mldrec_roundtrip. Qed.
Print Assumptions C06_mldrec_roundtrip.

Theorem C06_mldrec_reparse : forall bs r,
  bytes_ok bs = true ->
  mldrec_parse bs = Ok r -> ipv6_addr_is_multicast (mldrec_addr r) = true ->
  mldrec_wf r = true /\
  forall b, blen b = mldrec_buffer_len r ->
    exists bs', mldrec_emit r b = Ok bs' /\ mldrec_parse (bs' ++ mldrec_payload r) = Ok r.
Proof. exact mldrec_reparse. Qed.
Print Assumptions C06_mldrec_reparse.

Theorem C06_mld_emit_spec : forall r b,
  mld_wf r = true -> blen b = mld_buffer_len r ->
  mld_emit r b = Ok (mld_bytes_ck r (nth 2 b 0) (nth 3 b 0)).
Proof. exact mld_emit_spec. Qed.
Print Assumptions C06_mld_emit_spec.

Theorem C06_mld_emit_no_panic : forall (sum_fill : list Z -> Z) tx r b,
  mld_wf r = true -> blen b = mld_buffer_len r ->
  mld_emit r b <> Panic /\ mld_icmp_emit sum_fill tx r b <> Panic.
Proof. exact mld_emit_no_panic_both. Qed.
Print Assumptions C06_mld_emit_no_panic.

Theorem C06_mld_emit_ignores_old_bytes : forall (sum_fill : list Z -> Z) tx r b1 b2,
  mld_wf r = true -> blen b1 = mld_buffer_len r -> blen b2 = mld_buffer_len r ->
  mld_icmp_emit sum_fill tx r b1 = mld_icmp_emit sum_fill tx r b2.
Proof. exact mld_icmp_emit_ignores_old_bytes. Qed.
Print Assumptions C06_mld_emit_ignores_old_bytes.

Theorem C06_mld_roundtrip : forall (sum_fill : list Z -> Z) tx r b,
  mld_wf r = true -> blen b = mld_buffer_len r ->
  exists bs, mld_icmp_emit sum_fill tx r b = Ok bs /\ blen bs = mld_buffer_len r /\
             mld_parse bs = Ok (mld_canon r).
Proof. exact mld_roundtrip. Qed.
Print Assumptions C06_mld_roundtrip.

Theorem C06_mld_icmp_roundtrip : forall sum_ok sum_fill tx rx r b,
  icmp6h_cksum_link sum_ok sum_fill -> (rx = true -> tx = true) ->
  mld_wf r = true -> blen b = mld_buffer_len r ->
  exists bs, mld_icmp_emit sum_fill tx r b = Ok bs /\ mld_icmp_parse sum_ok rx bs = Ok (mld_canon r).
Proof. exact mld_icmp_roundtrip. Qed.
Print Assumptions C06_mld_icmp_roundtrip.

Theorem C06_mld_reparse : forall (sum_fill : list Z -> Z) tx bs r,
  bytes_ok bs = true -> mld_parse bs = Ok r ->
  mld_wf r = true /\
  forall b, blen b = mld_buffer_len r ->
    exists bs', mld_icmp_emit sum_fill tx r b = Ok bs' /\ mld_parse bs' = Ok r.
Proof. exact mld_reparse. Qed.
Print Assumptions C06_mld_reparse.
