(* Property C20 -- 6LoWPAN compression and fragmentation are lossless.
   This file contains only the property theorems (each closed by [exact]) and
   [Print Assumptions]; statements are pinned in Pins/C20.v.
   Step 1 (wire formats): fragment header and LOWPAN_NHC UDP header.
   Step 2 (fragmentation arithmetic and reassembly): dispatch_sixlowpan / dispatch_sixlowpan_frag,
   process_sixlowpan_fragment over the C15 tracker.
   Step 3 (LOWPAN_IPHC): Repr::emit / Repr::parse with address reconstruction.
   Step 4 (whole datagrams): sixlowpan_to_ipv6 with decompress_ext_hdr / decompress_udp. *)
From SV Require Import Lib.Base Gen.Consts Gen.WireFields Model.WireBase Model.WireSixFrag Model.WireNhc.
From SV Require Import Model.Assembler Model.LowpanFrag Model.WireIphc Model.Lowpan.
From SV Require Import Proofs.WireBaseProofs Proofs.AssemblerProofs Proofs.LowpanWireProofs Proofs.LowpanFragProofs.
From SV Require Import Proofs.LowpanIphcBitsProofs Proofs.LowpanIphcProofs Proofs.LowpanProofs.

(* ---------- fragment header (FRAG1 / FRAGN) ---------- *)

(* For ALL field values the format can hold (11-bit size, u16 tag, u8 offset) and ANY previous
   buffer content: emit writes exactly [sixfrag_bytes r] over the first buffer_len octets, leaves
   the rest alone, and parse / payload invert it. *)
Theorem C20_frag_hdr_roundtrip : forall r b,
  sixfrag_wf r = true -> bytes_ok b = true -> sixfrag_buffer_len r <= blen b ->
  exists bs, sixfrag_emit r b = Ok bs /\ blen bs = blen b /\
             firstn (Z.to_nat (sixfrag_buffer_len r)) bs = sixfrag_bytes r /\
             skipn (Z.to_nat (sixfrag_buffer_len r)) bs = skipn (Z.to_nat (sixfrag_buffer_len r)) b /\
             sixfrag_parse bs = Ok r /\
             sixfrag_payload bs = Ok (skipn (Z.to_nat (sixfrag_buffer_len r)) b).
Proof. exact sixfrag_roundtrip. Qed.
Print Assumptions C20_frag_hdr_roundtrip.

Theorem C20_frag_hdr_emit_ignores_old_bytes : forall r b1 b2,
  sixfrag_wf r = true -> bytes_ok b1 = true -> bytes_ok b2 = true ->
  sixfrag_buffer_len r <= blen b1 -> sixfrag_buffer_len r <= blen b2 ->
  omap (firstn (Z.to_nat (sixfrag_buffer_len r))) (sixfrag_emit r b1) =
  omap (firstn (Z.to_nat (sixfrag_buffer_len r))) (sixfrag_emit r b2).
Proof. exact sixfrag_emit_ignores_old_bytes. Qed.
Print Assumptions C20_frag_hdr_emit_ignores_old_bytes.

(* dispatch / new_checked / parse never panic, on ANY octet string (no range hypothesis) *)
Theorem C20_frag_hdr_parse_no_panic : forall b,
  sixlowpan_dispatch b <> Panic /\ sixfrag_new_checked b <> Panic /\ sixfrag_parse b <> Panic.
Proof. exact sixfrag_no_panic. Qed.
Print Assumptions C20_frag_hdr_parse_no_panic.

(* after new_checked every accessor used by process_sixlowpan_fragment is panic-free *)
Theorem C20_frag_hdr_accessors_safe : forall b, sixfrag_new_checked b = Ok tt ->
  sixfrag_datagram_size b <> Panic /\ sixfrag_datagram_tag b <> Panic /\
  sixfrag_datagram_offset b <> Panic /\ sixfrag_is_first b <> Panic /\ sixfrag_payload b <> Panic.
Proof. exact sixfrag_accessors_safe. Qed.
Print Assumptions C20_frag_hdr_accessors_safe.

(* ---------- LOWPAN_NHC UDP header ---------- *)

(* For ALL u16 port pairs (all four port-compression forms), all payloads and ANY previous buffer
   content: emit (checksum computed, in-line) writes exactly header ++ payload, and parse, payload(),
   checksum() give back the ports, the payload and the transmitted checksum. *)
Theorem C20_nhc_udp_roundtrip : forall r src dst payload b,
  nhc_ports_wf r = true -> is_arr 16 src = true -> is_arr 16 dst = true ->
  bytes_ok payload = true -> blen payload < 65528 ->
  bytes_ok b = true -> blen b = nhc_udp_header_len r + blen payload ->
  exists ck bs,
    nhc_udp_cksum src dst (np_src r) (np_dst r) payload = Ok ck /\
    nhc_udp_emit r src dst payload true b = Ok bs /\
    bs = nhc_udp_hdr_bytes r (nhc_ck_tx ck) ++ payload /\
    nhc_udp_parse bs src dst false = Ok r /\
    nhc_udp_payload bs = Ok payload /\
    nhc_udp_checksum bs = Ok (Some (nhc_ck_tx ck)).
Proof. exact nhc_udp_roundtrip. Qed.
Print Assumptions C20_nhc_udp_roundtrip.

Theorem C20_nhc_udp_emit_ignores_old_bytes : forall r src dst payload b1 b2,
  nhc_ports_wf r = true -> is_arr 16 src = true -> is_arr 16 dst = true ->
  bytes_ok payload = true -> blen payload < 65528 ->
  bytes_ok b1 = true -> bytes_ok b2 = true ->
  blen b1 = nhc_udp_header_len r + blen payload -> blen b2 = nhc_udp_header_len r + blen payload ->
  nhc_udp_emit r src dst payload true b1 = nhc_udp_emit r src dst payload true b2.
Proof. exact nhc_udp_emit_ignores_old_bytes. Qed.
Print Assumptions C20_nhc_udp_emit_ignores_old_bytes.

(* a verifying receiver accepts what the sender emitted (checksum never 0 on the wire) *)
Theorem C20_nhc_udp_roundtrip_verified : forall r src dst payload ck,
  nhc_ports_wf r = true -> is_arr 16 src = true -> is_arr 16 dst = true ->
  bytes_ok payload = true -> blen payload < 65528 ->
  nhc_udp_cksum src dst (np_src r) (np_dst r) payload = Ok ck ->
  nhc_udp_parse (nhc_udp_hdr_bytes r (nhc_ck_tx ck) ++ payload) src dst true = Ok r.
Proof. exact nhc_udp_roundtrip_verified. Qed.
Print Assumptions C20_nhc_udp_roundtrip_verified.

(* NHC dispatch / check_len / parse never panic on ANY octet string shorter than 65528 octets
   (an 802.15.4 frame has at most 127); after check_len no accessor panics. *)
Theorem C20_nhc_udp_parse_no_panic : forall b src dst rx, blen b < 65528 ->
  nhc_dispatch b <> Panic /\ nhc_udp_check_len b <> Panic /\ nhc_udp_parse b src dst rx <> Panic /\
  (nhc_udp_check_len b = Ok tt ->
     nhc_udp_src_port b <> Panic /\ nhc_udp_dst_port b <> Panic /\ nhc_udp_checksum b <> Panic /\
     nhc_udp_payload b <> Panic /\ nhc_udp_dispatch_field b <> Panic).
Proof. exact nhc_udp_no_panic. Qed.
Print Assumptions C20_nhc_udp_parse_no_panic.

(* ---------- step 2: fragmentation arithmetic (dispatch_sixlowpan, dispatch_sixlowpan_frag) ---------- *)

(* frag_sizes_multiple_of_8_uncompressed, frames fit, nothing lost: for EVERY compressed packet c
   that needs fragmentation, every MAC header length 5..21, every header_diff = uhdr - chdr >= 0:
   the first fragment covers a multiple of 8 octets of the UNCOMPRESSED datagram, each FRAGN offset
   is exactly (position + header_diff) / 8, all FRAGN but the last carry lpf_fn (a multiple of 8)
   octets, the payloads concatenate to c, and every frame is <= 125 octets. *)
Theorem C20_frag_send_structure : forall ieee_len c chdr uhdr payload_length tag frames,
  5 <= ieee_len <= 21 -> 0 <= chdr <= uhdr -> lpf_needs_frag (blen c) ieee_len = true ->
  blen c <= lpf_BUFFER -> blen c + (uhdr - chdr) < 2048 ->
  lpf_send ieee_len c chdr uhdr payload_length tag = Ok frames ->
  let hd := uhdr - chdr in
  exists f1 fs, frames = f1 :: fs /\
    fr_hdr f1 = Some (SfFirst ((payload_length + lpf_IPV6_HDR) mod 65536) tag) /\
    fr_payload f1 = firstn (Z.to_nat (blen (fr_payload f1))) c /\
    0 < blen (fr_payload f1) < blen c /\ (blen (fr_payload f1) + hd) mod 8 = 0 /\
    (forall f, In f fs -> exists p n,
        fr_hdr f = Some (SfNext ((payload_length + lpf_IPV6_HDR) mod 65536) tag ((p + hd) / 8)) /\
        (p + hd) / 8 * 8 = p + hd /\ 0 <= (p + hd) / 8 < 256 /\ blen (fr_payload f1) <= p /\
        0 < n <= lpf_fn ieee_len /\ p + n <= blen c /\ (p + n < blen c -> n = lpf_fn ieee_len) /\
        fr_payload f = firstn (Z.to_nat n) (skipn (Z.to_nat p) c)) /\
    lpf_fn ieee_len mod 8 = 0 /\
    concat (map fr_payload frames) = c /\
    Forall (fun f => lpf_frame_len ieee_len f <= lpf_MAX_FRAME) frames.
Proof. exact lpf_send_structure. Qed.
Print Assumptions C20_frag_send_structure.

Theorem C20_unfragmented_frame_fits : forall ieee_len c chdr uhdr payload_length tag,
  lpf_needs_frag (blen c) ieee_len = false ->
  lpf_send ieee_len c chdr uhdr payload_length tag = Ok [mkFrame None c] /\
  lpf_frame_len ieee_len (mkFrame None c) <= lpf_MAX_FRAME.
Proof. exact lpf_send_small. Qed.
Print Assumptions C20_unfragmented_frame_fits.

(* frag_offsets_consistent: the sender's offsets are exactly where the receiver places the octets.
   D = uncompressed datagram, c = compressed packet; the octets behind the headers are the same
   (Hrest), decompressing the first fragment gives the first f1 + header_diff octets of D (Hdec,
   discharged for the real decompressor in step 4).  Then every frame of the sender is, as the
   receiver reads it, a piece of D at the offset named by its header. *)
Theorem C20_frag_offsets_consistent : forall ieee_len c D chdr uhdr payload_length tag dec1,
  5 <= ieee_len <= 21 -> 0 <= chdr <= uhdr -> lpf_needs_frag (blen c) ieee_len = true ->
  blen c <= lpf_BUFFER -> blen c + (uhdr - chdr) < 2048 ->
  skipn (Z.to_nat chdr) c = skipn (Z.to_nat uhdr) D -> chdr <= blen c -> uhdr <= blen D ->
  payload_length + lpf_IPV6_HDR = blen D ->
  chdr <= lpf_f1 ieee_len (uhdr - chdr) ->
  (forall n, blen D <= n ->
     dec1 n = Ok (firstn (Z.to_nat (lpf_f1 ieee_len (uhdr - chdr) + (uhdr - chdr))) D)) ->
  forall frames, lpf_send ieee_len c chdr uhdr payload_length tag = Ok frames ->
  forall fr, In fr frames -> exists rf, lpf_rx_of_frame dec1 fr = Some rf /\ piece_ok D tag rf.
Proof. exact lpf_sender_pieces_ok. Qed.
Print Assumptions C20_frag_offsets_consistent.

(* ---------- step 2: reassembly (process_sixlowpan_fragment, PacketAssembler, slot set) ---------- *)

(* reassembly is exact or silent: from ANY slot-set state satisfying the invariant (in particular
   a fresh one), ANY sequence of pieces of D (any order, duplicates, omissions, interleaved with
   completions) never panics, and every datagram delivered is D. *)
Theorem C20_reassembly_exact_or_nothing : forall D tag now timeout ll_src ll_dst fs ss,
  lpf_IPV6_HDR <= blen D ->
  Forall (slot_inv D (ll_src, ll_dst, blen D, tag)) ss -> Forall (piece_ok D tag) fs ->
  exists ss' ds, lpf_process_all now timeout ll_src ll_dst fs ss = Ok (ss', ds) /\
                 Forall (slot_inv D (ll_src, ll_dst, blen D, tag)) ss' /\ Forall (fun d => d = D) ds.
Proof. exact lpf_process_all_safe. Qed.
Print Assumptions C20_reassembly_exact_or_nothing.

Theorem C20_fresh_slots_satisfy_invariant : forall D k, Forall (slot_inv D k) lpf_slots_new.
Proof. exact lpf_slots_new_inv. Qed.
Print Assumptions C20_fresh_slots_satisfy_invariant.

(* lowpan_fragments_reassemble: sender and receiver together, for any arrival order with
   duplicates and omissions of the sender's frames *)
Theorem C20_lowpan_fragments_reassemble :
  forall ieee_len c D chdr uhdr payload_length tag dec1,
  5 <= ieee_len <= 21 -> 0 <= chdr <= uhdr -> lpf_needs_frag (blen c) ieee_len = true ->
  blen c <= lpf_BUFFER -> blen c + (uhdr - chdr) < 2048 ->
  skipn (Z.to_nat chdr) c = skipn (Z.to_nat uhdr) D -> chdr <= blen c -> uhdr <= blen D ->
  payload_length + lpf_IPV6_HDR = blen D ->
  chdr <= lpf_f1 ieee_len (uhdr - chdr) ->
  (forall n, blen D <= n ->
     dec1 n = Ok (firstn (Z.to_nat (lpf_f1 ieee_len (uhdr - chdr) + (uhdr - chdr))) D)) ->
  forall frames arrivals rfs now timeout ll_src ll_dst ss,
    lpf_send ieee_len c chdr uhdr payload_length tag = Ok frames ->
    incl arrivals frames ->
    map (lpf_rx_of_frame dec1) arrivals = map Some rfs ->
    lpf_IPV6_HDR <= blen D ->
    Forall (slot_inv D (ll_src, ll_dst, blen D, tag)) ss ->
    exists ss' ds, lpf_process_all now timeout ll_src ll_dst rfs ss = Ok (ss', ds) /\
                   Forall (slot_inv D (ll_src, ll_dst, blen D, tag)) ss' /\ Forall (fun d => d = D) ds.
Proof. exact lpf_fragments_reassemble. Qed.
Print Assumptions C20_lowpan_fragments_reassemble.

(* tie to the configuration in build.rs (regenerated into Gen/Consts.v on every run): the
   fragmentation buffer bounds the datagram size below the 11-bit field / one-octet offsets,
   the tracker has at least one segment and there is at least one reassembly slot *)
Theorem C20_configured_sizes : lpf_BUFFER + 48 < 2048 /\ 1 <= lpf_N /\ 1 <= lpf_SLOTS.
Proof. exact lpf_config_fits. Qed.
Print Assumptions C20_configured_sizes.

(* ---------- step 3: LOWPAN_IPHC ---------- *)

(* iphc_roundtrip: for EVERY header the stack can build (any 16-octet source / destination: unspecified,
   link-local derived from a short or extended link-layer address, other link-local, global,
   every multicast form; any next header / hop limit; any link-layer addresses), ANY previous buffer
   content and ANY context table at the receiver: buffer_len is the emitted length, emit writes
   exactly [iphc_bytes r] and leaves the rest, and parse with the same link-layer addresses gives r
   back; payload() is what follows the header. *)
Theorem C20_iphc_roundtrip : forall r b ctx,
  iphc_repr_wf r = true -> bytes_ok b = true -> blen (iphc_bytes r) <= blen b ->
  iphc_buffer_len r = Ok (blen (iphc_bytes r)) /\
  iphc_emit r b = Ok (iphc_bytes r ++ skipn (Z.to_nat (blen (iphc_bytes r))) b) /\
  iphc_parse (iphc_bytes r ++ skipn (Z.to_nat (blen (iphc_bytes r))) b) (ir_ll_src r) (ir_ll_dst r) ctx = Ok r /\
  iphc_payload (iphc_bytes r ++ skipn (Z.to_nat (blen (iphc_bytes r))) b) = Ok (skipn (Z.to_nat (blen (iphc_bytes r))) b).
Proof. exact iphc_roundtrip. Qed.
Print Assumptions C20_iphc_roundtrip.

(* Repr::parse (all SAC/SAM/M/DAC/DAM/CID/TF combinations, stateful contexts included) never
   panics on ANY octet string, nor do check_len, payload and header_len after check_len *)
Theorem C20_iphc_parse_no_panic : forall b lls lld ctx,
  iphc_ll_wf lls = true -> iphc_ll_wf lld = true ->
  iphc_parse b lls lld ctx <> Panic /\ iphc_check_len b <> Panic /\
  (iphc_check_len b = Ok tt -> iphc_payload b <> Panic /\ iphc_header_len b <> Panic).
Proof. exact iphc_parse_total. Qed.
Print Assumptions C20_iphc_parse_no_panic.

(* ---------- step 4: decompression of whole datagrams ---------- *)

(* decompress_no_panic: sixlowpan_to_ipv6 -- IPHC parse, the next-header loop, decompress_ext_hdr,
   decompress_udp and every length computation in them -- never panics: for ALL octet strings (of at
   most 65527 octets; an 802.15.4 frame has 127), any link-layer addresses, any context table of
   8-octet prefixes, any buffer of at least 40 octets and, for a first fragment, any announced
   datagram size of at least 40 (what process_sixlowpan_fragment checks).  What it writes fits the
   buffer (the assert! of PacketAssembler::add_with). *)
Theorem C20_decompress_no_panic : forall ctx lls lld b total_len buflen,
  bytes_ok b = true -> blen b < 65528 -> iphc_ll_wf lls = true -> iphc_ll_wf lld = true ->
  lp_ctx_wf ctx ->
  lp_IPV6_HDR <= buflen -> (forall t, total_len = Some t -> lp_IPV6_HDR <= t) ->
  lp_sixlowpan_to_ipv6 ctx lls lld b total_len buflen <> Panic /\
  forall d, lp_sixlowpan_to_ipv6 ctx lls lld b total_len buflen = Ok d -> blen d <= buflen.
Proof. exact lp_sixlowpan_to_ipv6_total. Qed.
Print Assumptions C20_decompress_no_panic.

(* lowpan_roundtrip: for EVERY IPv6 datagram the stack can send over 802.15.4 (lp_dgram_wf: UDP on
   any ports through LOWPAN_NHC, or the emitted octets of an ICMPv6 message / TCP segment; any 16-octet
   addresses, hop limit, link-layer addresses), ANY previous content of the buffer it is compressed
   into and ANY context table at the receiver:  ipv6_to_sixlowpan writes the compressed form c, and
   sixlowpan_to_ipv6 c (same link-layer addresses) is exactly the datagram's octets D, where D is what
   the same stack sends over a plain IPv6 medium (UDP checksum included). *)
Theorem C20_lowpan_roundtrip : forall d lls lld ctx c D buffer buflen,
  lp_dgram_wf d lls lld -> lp_compressed d lls lld = Ok c -> lp_ipv6_bytes d = Ok D ->
  bytes_ok buffer = true -> blen c <= blen buffer -> blen D <= buflen ->
  lp_ipv6_to_sixlowpan d lls lld buffer = Ok (c ++ skipn (Z.to_nat (blen c)) buffer) /\
  lp_sixlowpan_to_ipv6 ctx lls lld c None buflen = Ok D.
Proof. exact lp_roundtrip. Qed.
Print Assumptions C20_lowpan_roundtrip.

(* ... and with fragmentation in between: the frames of dispatch_sixlowpan / dispatch_sixlowpan_frag
   for the compressed packet, ANY sub-multiset of them in ANY order (duplicates, omissions), at a
   receiver whose slots satisfy the reassembly invariant (e.g. fresh): every datagram delivered is
   D, octet for octet; otherwise nothing is delivered.  The receiver's view of a frame
   ([lpf_rx_of_frame]: parsed fragment header, payload, sixlowpan_to_ipv6 of the first fragment) is
   what process_sixlowpan builds from the frame octets by C20_frag_hdr_roundtrip. *)
Theorem C20_lowpan_roundtrip_fragmented : forall d lls lld ctx c D ieee_len tag chdr uhdr,
  lp_dgram_wf d lls lld -> lp_compressed d lls lld = Ok c -> lp_ipv6_bytes d = Ok D ->
  lp_compressed_packet_size d lls lld = Ok (blen c, chdr, uhdr) ->
  5 <= ieee_len <= 21 -> lpf_needs_frag (blen c) ieee_len = true -> blen c <= lpf_BUFFER ->
  forall frames arrivals rfs now timeout ll_src ll_dst ss,
    lpf_send ieee_len c chdr uhdr (lp_payload_len (ld_pl d)) tag = Ok frames ->
    incl arrivals frames ->
    map (lpf_rx_of_frame (fun buflen =>
           lp_sixlowpan_to_ipv6 ctx lls lld (firstn (Z.to_nat (lpf_f1 ieee_len (uhdr - chdr))) c)
                                (Some (blen D)) buflen)) arrivals = map Some rfs ->
    Forall (slot_inv D (ll_src, ll_dst, blen D, tag)) ss ->
    exists ss' ds, lpf_process_all now timeout ll_src ll_dst rfs ss = Ok (ss', ds) /\
                   Forall (slot_inv D (ll_src, ll_dst, blen D, tag)) ss' /\ Forall (fun x => x = D) ds.
Proof. exact lp_roundtrip_fragmented. Qed.
Print Assumptions C20_lowpan_roundtrip_fragmented.
