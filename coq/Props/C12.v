(* Property C12 — IPv4 fragmentation and reassembly reproduce the datagram or deliver nothing.
   This file contains only the property theorems (each closed by [exact]) and
   [Print Assumptions]; statements are pinned in Pins/C12.v.
   Models: Model/Frag4.v (sender), Model/Reasm.v (receiver, on the C15 Assembler model),
   Model/Egress.v (order of fragment egress, socket egress and ingress-triggered replies). *)
From SV Require Import Lib.Base Gen.Consts Gen.WireFields Model.Assembler Proofs.AssemblerProofs.
From SV Require Import Model.Frag4 Model.Reasm Model.Egress Proofs.Frag4Proofs Proofs.ReasmProofs.

(* ---------------- sender ---------------- *)

(* Every payload that needs fragmentation and fits the fragmentation buffer, every IP MTU with
   room for the header and one 8-byte unit, every ident, every (idle) fragmenter whatever stale
   bytes its buffer holds: the packets emitted -- first fragment by dispatch_ip, one more per
   egress step by dispatch_ipv4_frag -- carry, concatenated in order, exactly the payload;
   offsets are the running sums (and multiples of 8); MF is set on all but the last; every
   non-last fragment has a non-zero length that is a multiple of 8; every fragment plus header
   fits the MTU; all carry the datagram's ident; there are at least two. *)
Theorem C12_fragments_cover_exactly : forall ip_mtu ident fr0 P,
  f4_hdr + 8 <= ip_mtu -> fr_finished fr0 = true ->
  ip_mtu < f4_hdr + zlen P -> f4_hdr + zlen P <= zlen (fr_buffer fr0) ->
  let frs := f4_fragment_datagram ip_mtu ident fr0 P in
  concat (map p_payload frs) = P /\
  offsets_consistent 0 frs /\
  mf_all_but_last frs /\
  Forall (fun p => p_ident p = ident) frs /\
  Forall (fun p => f4_hdr + zlen (p_payload p) <= ip_mtu) frs /\
  Forall (fun p => p_offset p mod 8 = 0) frs /\
  (2 <= length frs)%nat.
Proof. exact c12_fragments_cover_exactly. Qed.
Print Assumptions C12_fragments_cover_exactly.

(* ... in particular for every device MTU >= 68 on Medium::Ip and Medium::Ethernet and every
   payload up to the configured FRAGMENTATION_BUFFER_SIZE (value regenerated from build.rs). *)
Theorem C12_fragments_cover_exactly_mtu68 : forall m mtu ident fr0 P,
  68 <= mtu -> fr_finished fr0 = true ->
  zlen (fr_buffer fr0) = cfg_FRAGMENTATION_BUFFER_SIZE ->
  f4_ip_mtu m mtu < f4_hdr + zlen P -> f4_hdr + zlen P <= cfg_FRAGMENTATION_BUFFER_SIZE ->
  let frs := f4_fragment_datagram (f4_ip_mtu m mtu) ident fr0 P in
  concat (map p_payload frs) = P /\
  offsets_consistent 0 frs /\
  mf_all_but_last frs /\
  Forall (fun p => p_ident p = ident) frs /\
  Forall (fun p => f4_hdr + zlen (p_payload p) <= f4_ip_mtu m mtu) frs /\
  Forall (fun p => p_offset p mod 8 = 0) frs /\
  (2 <= length frs)%nat.
Proof. exact c12_fragments_cover_exactly_mtu. Qed.
Print Assumptions C12_fragments_cover_exactly_mtu68.

(* A datagram that fits the MTU is emitted whole and leaves the fragmenter alone. *)
Theorem C12_small_datagram_whole : forall ip_mtu ident fr P,
  f4_hdr + zlen P <= ip_mtu ->
  f4_dispatch_ip ip_mtu ident fr P = (fr, [mkPkt 0 0 false P], DipSent).
Proof. exact dispatch_ip_small. Qed.
Print Assumptions C12_small_datagram_whole.

(* ---------------- receiver ---------------- *)

(* For ANY arrival history -- any order, any duplicates, any times (so any expiries), packets of
   other datagrams (other keys, even hostile ones) interleaved, any number of slots, any
   assembler capacity -- in which every packet with key k is a piece of the datagram P
   (its bytes are P's bytes at its offset; MF clear only on a piece that ends where P ends):
   whatever the reassembler hands on at an arrival of key k is exactly P, or nothing. *)
Theorem C12_reassembly_exact_or_nothing : forall k P n timeout slots arr,
  Forall (fun tf => fi_key (snd tf) = k -> piece P (snd tf)) arr ->
  Forall2 (fun tf r => fi_key (snd tf) = k -> r = None \/ r = Some P)
          arr (snd (rs_run n timeout (pas_new slots) arr)).
Proof. exact c12_reassembly_exact_or_nothing. Qed.
Print Assumptions C12_reassembly_exact_or_nothing.

(* Sender and receiver together: any list over the set of fragments the sender model emits for
   P, received under one key in any order with any duplication: exactly P, or nothing. *)
Theorem C12_sender_receiver_exact_or_nothing : forall ip_mtu ident fr0 P k n timeout slots arr,
  f4_hdr + 8 <= ip_mtu -> fr_finished fr0 = true ->
  ip_mtu < f4_hdr + zlen P -> f4_hdr + zlen P <= zlen (fr_buffer fr0) ->
  (forall tf, In tf arr -> fi_key (snd tf) = k ->
     exists p, In p (f4_fragment_datagram ip_mtu ident fr0 P) /\ snd tf = to_frag_in k p) ->
  Forall2 (fun tf r => fi_key (snd tf) = k -> r = None \/ r = Some P)
          arr (snd (rs_run n timeout (pas_new slots) arr)).
Proof. exact c12_sender_receiver_exact_or_nothing. Qed.
Print Assumptions C12_sender_receiver_exact_or_nothing.

(* Delivery.  The first packet of the datagram arrives at t0 when no slot is claimed for its key
   and one slot is free; every packet of that key is a piece of P; the later ones arrive (any
   order, duplicates, other datagrams interleaved) no later than the slot's expiry t0+timeout;
   along the arrival order the merged union of the received ranges never needs more than n
   ranges (n = ASSEMBLER_MAX_SEGMENT_COUNT; asm_add_unb is the canonical union of C15); the
   pieces cover P and one has MF clear.  Then P IS delivered. *)
Theorem C12_reassembly_delivers_if_gaps_fit : forall k P n timeout s0 t0 f0 rest,
  0 < zlen P -> 0 <= timeout ->
  set_ok k P s0 ->
  (forall j, (j < length s0)%nat -> pa_key (nth j s0 pa_new) <> Some k) ->
  (exists j, (j < length s0)%nat /\ pa_key (nth j s0 pa_new) = None) ->
  fi_key f0 = k ->
  Forall (fun tf => fi_key (snd tf) = k -> piece P (snd tf)) ((t0, f0) :: rest) ->
  Forall (fun tf => fst tf <= t0 + timeout) rest ->
  gaps_fit n k [] ((t0, f0) :: rest) ->
  (forall x, 0 <= x < zlen P ->
     Exists (fun tf => fi_key (snd tf) = k /\ covers (snd tf) x) ((t0, f0) :: rest)) ->
  Exists (fun tf => fi_key (snd tf) = k /\ fi_mf (snd tf) = false) ((t0, f0) :: rest) ->
  In (Some P) (snd (rs_run n timeout s0 ((t0, f0) :: rest))).
Proof. exact c12_reassembly_delivers_if_gaps_fit. Qed.
Print Assumptions C12_reassembly_delivers_if_gaps_fit.

(* ... e.g. on a freshly created interface with at least one reassembly slot. *)
Theorem C12_reassembly_delivers_fresh : forall k P n timeout slots t0 f0 rest,
  0 < zlen P -> 0 <= timeout -> (1 <= slots)%nat ->
  fi_key f0 = k ->
  Forall (fun tf => fi_key (snd tf) = k -> piece P (snd tf)) ((t0, f0) :: rest) ->
  Forall (fun tf => fst tf <= t0 + timeout) rest ->
  gaps_fit n k [] ((t0, f0) :: rest) ->
  (forall x, 0 <= x < zlen P ->
     Exists (fun tf => fi_key (snd tf) = k /\ covers (snd tf) x) ((t0, f0) :: rest)) ->
  Exists (fun tf => fi_key (snd tf) = k /\ fi_mf (snd tf) = false) ((t0, f0) :: rest) ->
  In (Some P) (snd (rs_run n timeout (pas_new slots) ((t0, f0) :: rest))).
Proof. exact c12_reassembly_delivers_fresh. Qed.
Print Assumptions C12_reassembly_delivers_fresh.

(* ---------------- back to back ---------------- *)

(* For every sequence of datagrams queued on any sockets, ingress-triggered replies and polls
   with any device budgets (back-pressure), from a fresh interface, each datagram carrying the
   link-layer address resolved for its next hop when dispatch_ip admitted it: the fragment
   frames on the wire are, in order, complete correct trains -- each reassembling to exactly one
   of the datagrams handed to the stack, EVERY FRAME OF A TRAIN ADDRESSED TO THAT DATAGRAM'S
   LINK-LAYER ADDRESS -- followed by the part already sent of the train in progress; the
   address stored in the fragmenter is that datagram's; and that part followed by what the
   fragmenter will still send, one fragment per egress step, is again a complete correct train.
   Fragments of different datagrams are never interleaved, overwritten, misdirected or dropped
   mid-train. *)
Theorem C12_back_to_back_not_mixed : forall ip_mtu bufsize id0 nsocks ops,
  f4_hdr + 8 <= ip_mtu ->
  let '(st, out) := eg_run ip_mtu (eg_init bufsize id0 nsocks) ops in
  exists done cur,
    filter frame_is_fragment out = concat done ++ cur /\
    Forall (fun t => exists ident d, In d (ops_payloads ops) /\
                       ltrain_ok ip_mtu ident (fst d) 0 t (snd d)) done /\
    ((fr_finished (eg_fr st) = true /\ cur = []) \/
     (exists d, In d (ops_payloads ops) /\ fr_finished (eg_fr st) = false /\
        eg_hw st = fst d /\ Forall (fun f => fst f = fst d) cur /\
        forall fuel, (length (snd d) <= fuel)%nat ->
          train_ok ip_mtu (fr_ident (eg_fr st)) 0
                   (map snd cur ++ f4_drain fuel ip_mtu (eg_fr st)) (snd d))).
Proof. exact c12_back_to_back. Qed.
Print Assumptions C12_back_to_back_not_mixed.

(* Wire order.  Scanning EVERYTHING the interface emits (whole packets and fragments): between
   the first and the last fragment of a train no SOCKET packet appears at all -- the only whole
   packets that may interleave are ingress-triggered replies (is_reply) -- and the scan ends
   inside a train exactly when the fragmenter still holds unsent fragments.  A small datagram
   queued behind an oversized one therefore cannot overtake its remaining fragments. *)
Theorem C12_no_socket_packet_inside_train : forall ip_mtu bufsize id0 nsocks ops,
  f4_hdr + 8 <= ip_mtu ->
  let '(st, out) := eg_run ip_mtu (eg_init bufsize id0 nsocks) ops in
  wire_ok (ops_replies ops) false out /\
  train_state false out = negb (fr_finished (eg_fr st)).
Proof. exact c12_no_socket_packet_inside_train. Qed.
Print Assumptions C12_no_socket_packet_inside_train.

(* A packet that dispatch_ip drops (fragmentation buffer too small, fragmenter busy) or emits
   whole changes NOTHING in the fragmenter -- buffer, counters, ident and the stored link-layer
   address; only starting a train stores the address resolved for that datagram, and a train is
   never started while fragments are unsent.  Whatever dispatch_ip emits itself goes to the
   address resolved for the packet. *)
Theorem C12_dropped_packet_changes_nothing : forall ip_mtu ident fr hwst d,
  let '(fr', hw', out, r) := eg_dispatch_ip ip_mtu ident fr hwst d in
  Forall (fun f => fst f = fst d) out /\
  (r <> DipFragStarted -> fr' = fr /\ hw' = hwst) /\
  (r = DipFragStarted -> hw' = fst d) /\
  (fr_finished fr = false -> r <> DipFragStarted).
Proof. exact dispatch_ip_hw. Qed.
Print Assumptions C12_dropped_packet_changes_nothing.

(* what a correct train is, spelled out *)
Theorem C12_train_ok_means : forall ip_mtu ident frs off data,
  train_ok ip_mtu ident off frs data ->
  concat (map p_payload frs) = data /\
  offsets_consistent off frs /\
  mf_all_but_last frs /\
  Forall (fun p => p_ident p = ident) frs /\
  Forall (fun p => f4_hdr + zlen (p_payload p) <= ip_mtu) frs /\
  Forall (fun p => p_offset p mod 8 = 0) frs \/ off mod 8 <> 0.
Proof. exact train_ok_props. Qed.
Print Assumptions C12_train_ok_means.

(* While fragments are unsent no dispatch_ip call -- from a socket, from an ingress reply --
   changes the fragmenter (buffer, counters, ident) or emits a fragment of another datagram. *)
Theorem C12_busy_fragmenter_not_overwritten : forall ip_mtu ident fr P,
  fr_finished fr = false ->
  fst (fst (f4_dispatch_ip ip_mtu ident fr P)) = fr /\
  filter p_is_fragment (snd (fst (f4_dispatch_ip ip_mtu ident fr P))) = [].
Proof.
  exact (fun ip_mtu ident fr P H =>
           conj (dispatch_ip_busy_preserves ip_mtu ident fr P H)
                (dispatch_ip_busy_emits_no_fragment ip_mtu ident fr P H)).
Qed.
Print Assumptions C12_busy_fragmenter_not_overwritten.

(* A datagram leaves a socket in socket_egress only by being emitted whole, by starting its own
   train on an idle fragmenter, or because it can never fit the fragmentation buffer: a busy
   fragmenter never makes a socket lose a datagram (it stays queued). *)
Theorem C12_socket_datagram_kept_while_busy : forall ip_mtu B,
  f4_hdr + 8 <= ip_mtu -> forall socks fr hwst id b,
  zlen (fr_buffer fr) = B ->
  let '(fr', _, _, _, socks', out, _) := eg_socket_egress ip_mtu fr hwst id b socks in
  zlen (fr_buffer fr') = B /\ Forall2 (dequeued_ok ip_mtu B out) socks socks'.
Proof. exact socket_egress_conserves. Qed.
Print Assumptions C12_socket_datagram_kept_while_busy.

(* Pending fragments go before sockets: a poll_egress pass with device capacity and a datagram in
   progress first emits that datagram's next fragment. *)
Theorem C12_pending_fragment_first : forall ip_mtu st b P off,
  f4_hdr + 8 <= ip_mtu -> fr_progress (eg_fr st) P off -> bud_has b = true ->
  let '(_, _, out, _) := eg_poll_egress ip_mtu st b in
  exists rest, out = (eg_hw st, snd (f4_dispatch_ipv4_frag ip_mtu (eg_fr st))) :: rest.
Proof. exact poll_egress_pending_first. Qed.
Print Assumptions C12_pending_fragment_first.

(* ---------------- non-vacuity ---------------- *)

(* 1200-byte UDP datagram (1208 bytes of IP payload) at MTU 576: three fragments *)
Theorem C12_example_three_fragments :
  map (fun p => (p_offset p, p_mf p, zlen (p_payload p)))
      (f4_fragment_datagram 576 42 (fr_new cfg_FRAGMENTATION_BUFFER_SIZE) (repeat 1 1208)) =
  [(0, true, 552); (552, true, 552); (1104, false, 104)].
Proof. exact c12_three_fragments_example. Qed.
Print Assumptions C12_example_three_fragments.

(* the scenario of defect D8 on the repaired code: two such datagrams queued back to back *)
Theorem C12_example_two_datagrams_back_to_back :
  map (fun f => (fst f, p_ident (snd f), p_offset (snd f), p_mf (snd f), zlen (p_payload (snd f)),
                 hd 0 (p_payload (snd f))))
      (snd (eg_run 576 (eg_init cfg_FRAGMENTATION_BUFFER_SIZE 7 1) c12_d8_ops)) =
  [(1, 7, 0, true, 552, 17); (1, 7, 552, true, 552, 17); (1, 7, 1104, false, 104, 17);
   (1, 8, 0, true, 552, 34); (1, 8, 552, true, 552, 34); (1, 8, 1104, false, 104, 34)].
Proof. exact c12_d8_example. Qed.
Print Assumptions C12_example_two_datagrams_back_to_back.

(* Ethernet, MTU 576: a datagram to neighbour 1 mid-fragmentation under back-pressure (one frame
   per poll); an oversized reply towards neighbour 2 arrives and is dropped as a whole: the
   remaining fragments of the first datagram still go to neighbour 1 *)
Theorem C12_example_two_neighbours :
  map (fun f => (fst f, p_ident (snd f), p_offset (snd f), p_mf (snd f), zlen (p_payload (snd f)),
                 hd 0 (p_payload (snd f))))
      (snd (eg_run 562 (eg_init cfg_FRAGMENTATION_BUFFER_SIZE 7 1) c12_two_neighbours_ops)) =
  [(1, 7, 0, true, 536, 17); (1, 7, 536, true, 536, 17); (1, 7, 1072, false, 336, 17)].
Proof. exact c12_two_neighbours_example. Qed.
Print Assumptions C12_example_two_neighbours.

(* one socket, 1400 / 1200 / 10 bytes of UDP payload queued back to back at IP MTU 576 (the C09/C12
   overtaking defect on the repaired code): the small datagram leaves after both trains *)
Theorem C12_example_small_datagram_does_not_overtake :
  map (fun f => (p_is_fragment (snd f), p_offset (snd f), zlen (p_payload (snd f)), hd 0 (p_payload (snd f))))
      (snd (eg_run 576 (eg_init cfg_FRAGMENTATION_BUFFER_SIZE 7 1) c12_overtake_ops)) =
  [(true, 0, 552, 17); (true, 552, 552, 17); (true, 1104, 304, 17);
   (true, 0, 552, 34); (true, 552, 552, 34); (true, 1104, 104, 34); (false, 0, 18, 51)].
Proof. exact c12_overtake_example. Qed.
Print Assumptions C12_example_small_datagram_does_not_overtake.

(* a permuted arrival with a duplicate (last, first, first, middle) of the sender's fragments *)
Theorem C12_example_permuted_duplicate :
  map (fun f => (fi_offset f, fi_mf f, zlen (fi_payload f))) c12_ex_frags =
    [(0, true, 552); (552, true, 552); (1104, false, 104)] /\
  snd (rs_run cfg_ASSEMBLER_MAX_SEGMENT_COUNT 60000
              (pas_new (Z.to_nat cfg_REASSEMBLY_BUFFER_COUNT)) c12_ex_arrival) =
    [None; None; None; Some c12_ex_payload] /\
  gaps_fit cfg_ASSEMBLER_MAX_SEGMENT_COUNT c12_ex_key [] c12_ex_arrival.
Proof. exact c12_example_permuted_duplicate. Qed.
Print Assumptions C12_example_permuted_duplicate.

(* expiry: the completing fragment one tick after the slot expired delivers nothing, at the
   expiry instant itself it still delivers *)
Theorem C12_example_expired :
  match c12_ex_frags with
  | [a; b; c] =>
      snd (rs_run cfg_ASSEMBLER_MAX_SEGMENT_COUNT 60000 (pas_new 1) [(0, c); (1, a); (60001, b)])
        = [None; None; None] /\
      snd (rs_run cfg_ASSEMBLER_MAX_SEGMENT_COUNT 60000 (pas_new 1) [(0, c); (1, a); (60000, b)])
        = [None; None; Some c12_ex_payload]
  | _ => False
  end.
Proof. exact c12_example_expired. Qed.
Print Assumptions C12_example_expired.

(* ---------------- tie to the source ---------------- *)

(* Values regenerated from the Rust sources on every run: the alignment the proofs rely on is 8,
   the IPv4 header the stack emits has 20 bytes, IPV4_MIN_MTU leaves room for header + 8, the
   configured limits satisfy the side conditions of the theorems above, and the fragmentation
   buffer is small enough for Ipv4Fragmenter::frag_offset (u16) never to overflow. *)
Theorem C12_configured_constants :
  phy_IPV4_FRAGMENT_PAYLOAD_ALIGNMENT = 8 /\ wipv4_HEADER_LEN = 20 /\ weth_f_PAYLOAD = 14 /\
  f4_hdr + 8 <= wipv4_MIN_MTU /\
  f4_hdr + 8 <= cfg_FRAGMENTATION_BUFFER_SIZE <= 65535 /\
  1 <= cfg_ASSEMBLER_MAX_SEGMENT_COUNT /\ 1 <= cfg_REASSEMBLY_BUFFER_COUNT.
Proof. vm_compute. repeat split; discriminate. Qed.
Print Assumptions C12_configured_constants.
