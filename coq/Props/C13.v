(* Property C13 — poll_at is a sufficient and non-spinning wake-up schedule (interface level:
   Interface::poll_at composition and the SLAAC state machine; the per-socket obligations are
   stated for an abstract component and discharged in the socket models' own files).
   Only theorems closed by [exact] and [Print Assumptions]; statements pinned in Pins/C13.v. *)
From SV Require Import Lib.Base Gen.Consts Model.PollAt Proofs.PollAtProofs.

(* Interface::poll_at (no fragment pending) is exactly the least of all deadlines reported by
   the sockets and — when enabled — SLAAC; it is absent only if every one of them is absent.
   (The unrepaired code used Option::min, for which None wins: defect D7a.) *)
Theorem C13_iface_poll_at_is_least_deadline : forall socks en s now,
  match iface_poll_at false socks en s now with
  | Some m => In (Some m) (all_deadlines socks en s now) /\
              forall x, In (Some x) (all_deadlines socks en s now) -> m <= x
  | None => forall x, ~ In (Some x) (all_deadlines socks en s now)
  end.
Proof. exact c13_iface_poll_at_least. Qed.
Print Assumptions C13_iface_poll_at_is_least_deadline.

(* SLAAC, sufficiency: a poll at any instant before the reported deadline (no frames in
   between) transmits no router solicitation ... *)
Theorem C13_slaac_early_poll_silent : forall cp cr s now now',
  now <= now' -> opt_future now' (slaac_poll_at s now) ->
  snd (slaac_poll cp cr s [] now') = false.
Proof. exact c13_slaac_early_poll_silent. Qed.
Print Assumptions C13_slaac_early_poll_silent.

(* ... equivalently a solicitation that is due is never later than the reported deadline. *)
Theorem C13_slaac_timer_not_delayed : forall cp cr s now now',
  now <= now' -> snd (slaac_poll cp cr s [] now') = true ->
  exists t, slaac_poll_at s now = Some t /\ t <= now'.
Proof. exact c13_slaac_timer_not_delayed. Qed.
Print Assumptions C13_slaac_timer_not_delayed.

(* SLAAC, non-spinning: after ANY poll (whatever advertisements it ingested) the deadline is
   absent or strictly later than that poll.  Uses 0 < RTR_SOLICITATION_INTERVAL from the
   generated constants.  (False for the unrepaired code once all solicitations were sent: D7c.) *)
Theorem C13_slaac_no_spin : forall cp cr s ras now,
  opt_future now (slaac_poll_at (fst (slaac_poll cp cr s ras now)) now).
Proof. exact c13_slaac_no_spin. Qed.
Print Assumptions C13_slaac_no_spin.

(* the solicitation counter only decreases, by one per solicitation sent, and never below 0:
   at most MAX_RTR_SOLICITATIONS solicitations in any execution *)
Theorem C13_slaac_solicitations_bounded : forall cp cr s ras now,
  slaac_counter_ok s ->
  let '(s', sent) := slaac_poll cp cr s ras now in
  slaac_counter_ok s' /\
  sl_num_solicitations s' = sl_num_solicitations s - (if sent then 1 else 0).
Proof. exact c13_slaac_counter. Qed.
Print Assumptions C13_slaac_solicitations_bounded.

(* Composition, sufficiency: if every component transmits at an instant only when its own
   reported deadline has been reached, then polling while the interface deadline (their
   minimum) is still in the future makes no component transmit. *)
Theorem C13_iface_early_poll_silent : forall (comps : list (option Z * bool)) now',
  opt_future now' (opt_min_list (map fst comps)) ->
  Forall (comp_sound now') comps ->
  Forall (fun c => snd c = false) comps.
Proof. exact c13_iface_early_poll_silent. Qed.
Print Assumptions C13_iface_early_poll_silent.

(* Composition, non-spinning: if after a poll every socket's deadline and the SLAAC deadline
   are absent or strictly later than the poll, so is Interface::poll_at. *)
Theorem C13_iface_no_spin : forall socks en s now,
  Forall (fun p => opt_future now (pollat_instant p)) socks ->
  (en = true -> opt_future now (slaac_poll_at s now)) ->
  opt_future now (iface_poll_at false socks en s now).
Proof. exact c13_iface_no_spin. Qed.
Print Assumptions C13_iface_no_spin.

(* poll_delay is the distance to the deadline, 0 exactly when the deadline is not in the future *)
Theorem C13_poll_delay : forall pa now,
  match iface_poll_delay pa now with
  | Some d => 0 <= d /\ (0 < d <-> opt_future now pa /\ pa <> None) /\
              (forall t, pa = Some t -> now < t -> now + d = t)
  | None => pa = None
  end.
Proof. exact c13_poll_delay. Qed.
Print Assumptions C13_poll_delay.

(* Non-vacuity: three solicitations 4 s apart, silence afterwards (no past deadline), then an
   advertisement schedules the expiry of what it announced. *)
Theorem C13_example :
  c13_example_run =
  [(0, true, Some 4000000); (4000000, true, Some 8000000); (8000000, true, None);
   (12000000, false, None); (13000000, false, Some 43000000)].
Proof. exact c13_example. Qed.
Print Assumptions C13_example.
