(* Property C03, egress loop: DNS resolver sockets plugged into the shared-environment loop theorem.
   Only `exact` proofs; lemmas in Proofs/DnsLoop.v. *)
From SV Require Import Lib.Base Gen.Consts Gen.WireFields Model.WireDns Model.Dns Model.EgressLoop.
From SV Require Import Proofs.WireDnsProofs Proofs.DnsProofs Proofs.DnsBlockedProofs Proofs.EgressLoopProofs Proofs.DnsLoop.

(* one dispatch of a DNS socket inside the loop: well-formedness is kept, an emitted query lowers the number of
   due queries, anything else (nothing due, refused emit, exhausted device, fail-over, failure) does not raise it *)
Theorem C03_dns_dispatch_step : forall cfg now, cfg_ok cfg ->
  forall (E : Type) (decide : E -> dns_sock -> (bool * bool) * E) e s e' s' r,
  sock_ok cfg s -> dnsl_dispatch cfg now E decide e s = (e', s', r) ->
  sock_ok cfg s' /\ (r = RSent -> (dnsl_mu now s' < dnsl_mu now s)%nat) /\
  (r <> RSent -> (dnsl_mu now s' <= dnsl_mu now s)%nat).
Proof. exact dnsl_step. Qed.
Print Assumptions C03_dns_dispatch_step.

(* for EVERY set of well-formed DNS sockets, every environment type with every oracle [decide] and every
   interface activity [pre] between passes, the egress loop returns after at most (number of due queries)
   emitting passes; by C03_egress_loop_mixed_set_returns the same holds for sets mixing DNS sockets with TCP
   and datagram sockets *)
Theorem C03_dns_socket_set_egress_returns : forall cfg now, cfg_ok cfg ->
  forall (E : Type) (decide : E -> dns_sock -> (bool * bool) * E) (pre : E -> E) fuel e ss,
  Forall (sock_ok cfg) ss -> (total2 dns_sock (dnsl_mu now) ss < fuel)%nat ->
  exists e' r n, poll_loop2 E dns_sock (dnsl_dispatch cfg now E decide) pre fuel e ss = Some (e', r, n) /\
                 (n + total2 dns_sock (dnsl_mu now) r <= total2 dns_sock (dnsl_mu now) ss)%nat /\
                 length r = length ss /\ Forall (sock_ok cfg) r.
Proof. exact dns_socket_set_egress_returns. Qed.
Print Assumptions C03_dns_socket_set_egress_returns.
