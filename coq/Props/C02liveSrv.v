(* Property C02, LIVENESS half, part 16: THE HANDSHAKE AFTER LOSSES (server side).  The client A is ESTABLISHED,
   the server B still in SYN-RECEIVED, and the fault prefix has lost everything A transmitted since its SYN
   (the ACK of the SYN|ACK; A has transmitted no data yet - [fresh]: only SYNs / SYN|ACKs are in flight).
   On every fair schedule B's retransmission timer (bounded by RTTE_MAX_RTO) fires, the SYN|ACK goes out again,
   A answers the duplicate with a challenge ACK - rate-limited to one per second: C = max (now,
   challenge_ack_timer) is the instant from which it answers - and B is ESTABLISHED before A's clock passes
   C + RTTE_MAX_RTO + 2 Dt.  Premise about the states of the run, as in part 4 (C02liveHs2): the window B
   advertises in SYN-RECEIVED is open.
   Only theorems closed by [exact] and [Print Assumptions]; statements pinned in Pins/C02liveSrv.v. *)
From SV Require Import Lib.Base Gen.Consts.
From SV Require Import Model.Seq32 Model.Assembler Model.TcpBuf Model.TcpTypes Model.Tcp Model.TcpNet.
From SV Require Import Proofs.TcpSendBase Proofs.TcpLiveBase Proofs.TcpLiveProofs Proofs.TcpLiveMore Proofs.TcpLiveProgress.
From SV Require Import Proofs.TcpNetBase.
From SV Require Import Proofs.TcpProgressBase Proofs.TcpProgressFrame Proofs.TcpProgressCtl Proofs.TcpProgressRecv Proofs.TcpProgressSend Proofs.TcpProgressNet Proofs.TcpProgressData Proofs.TcpProgressAck Proofs.TcpProgressAll Proofs.TcpProgressSafe Proofs.TcpProgressHs Proofs.TcpProgressHsD Proofs.TcpProgressHs2 Proofs.TcpProgressHsNet Proofs.TcpProgressHsInit Proofs.TcpProgressHsLive Proofs.TcpProgressHsLive2 Proofs.TcpProgressExample Proofs.TcpProgressWitness Proofs.TcpProgressSafeWitness Proofs.TcpProgressFullWitness Proofs.TcpProgressHsRtx Proofs.TcpProgressRtxWitness Proofs.TcpProgressHsSrv1 Proofs.TcpProgressHsSrv2 Proofs.TcpProgressHsSrvWitness.

(* the challenge-ACK rate limiter is written by nothing but a challenge ACK: a dispatch that transmits nothing
   leaves it alone *)
Theorem C02live_silent_dispatch_keeps_challenge_limiter : forall cx s ok s' tags t,
  s_tuple s = Some t -> tu_local_addr t = cx_addr cx ->
  tcp_dispatch cx s ok = Ok (s', DNothing, tags) -> s_challenge_ack_timer s' = s_challenge_ack_timer s.
Proof. exact dispatch_nothing_chf. Qed.
Print Assumptions C02live_silent_dispatch_keeps_challenge_limiter.

(* ... and so do send and recv *)
Theorem C02live_send_recv_keep_challenge_limiter : forall cx s ev s' out tags,
  ((exists d, ev = EvSend d) \/ (exists n, ev = EvRecv n)) ->
  tcp_step cx s ev = Ok (s', out, tags) -> s_challenge_ack_timer s' = s_challenge_ack_timer s.
Proof. exact quiet_chf. Qed.
Print Assumptions C02live_send_recv_keep_challenge_limiter.

(* an ESTABLISHED socket with nothing in flight is polled and transmits nothing: SND.UNA / SND.NXT stay *)
Theorem C02live_established_silent_dispatch_keeps_snd : forall cx s t ok s' tags,
  tcp_live_inv s -> s_state s = Established -> s_timeout s = None ->
  s_tuple s = Some t -> tu_local_addr t = cx_addr cx ->
  s_remote_last_seq s = s_local_seq_no s -> tcp_send_next_seq s = s_local_seq_no s ->
  tcp_dispatch cx s ok = Ok (s', DNothing, tags) ->
  s_local_seq_no s' = s_local_seq_no s /\ s_remote_last_seq s' = s_local_seq_no s /\
  tcp_send_next_seq s' = s_local_seq_no s.
Proof. exact dispatch_est_nothing. Qed.
Print Assumptions C02live_established_silent_dispatch_keeps_snd.

(* a duplicate SYN|ACK at an ESTABLISHED socket (sequence number RCV.NXT - 1, no payload, acknowledging
   SND.UNA): once the rate limiter has expired a challenge ACK is replied; if nothing is replied the socket
   is unchanged *)
Theorem C02live_duplicate_synack_is_challenged : forall cx s ip r s' rep tags,
  tcp_live_inv s -> s_state s = Established -> r_control r = CSyn -> r_payload r = [] ->
  r_ack_number r = Some (s_local_seq_no s) -> rb_len (s_tx_buffer s) < 2 ^ 31 ->
  u32 (r_seq_number r) -> r_seq_number r = seq_subn (tcp_window_start s) 1 ->
  tcp_process cx s ip r = Ok (s', rep, tags) ->
  (rep = None -> s' = s) /\ (s_challenge_ack_timer s <= cx_now cx -> rep <> None).
Proof. exact process_est_dupsyn. Qed.
Print Assumptions C02live_duplicate_synack_is_challenged.

(* B's timer stays idle-or-retransmission while B is in LISTEN / SYN-RECEIVED, along every step of the
   one-way workload (also after A is ESTABLISHED) *)
Theorem C02live_server_timer_plain_step : forall isn Dack st ev st',
  HSR isn Dack st -> HSR isn Dack st' -> inv_at SA st -> inv_at SA st' ->
  script_ev SA ev -> net_step st ev = Ok st' -> bplain st -> bplain st'.
Proof. exact bplain_step. Qed.
Print Assumptions C02live_server_timer_plain_step.

(* one step of a fair schedule in the server leg with retransmissions *)
Theorem C02live_server_leg_retransmission_step : forall isn Dack Dt Da C dk fa st ev st',
  0 <= Dt -> R3 isn Dack st -> R3 isn Dack st' -> Js isn Dt Da C dk fa st -> fair_ev fa st ev -> net_step st ev = Ok st' ->
  Qs isn Dack Dt Da C dk (fa_after Dt Da fa ev st') st' \/ Js isn Dt Da C dk (fa_after Dt Da fa ev st') st'.
Proof. exact Js_step. Qed.
Print Assumptions C02live_server_leg_retransmission_step.

(* THE SERVER IS ESTABLISHED AFTER THE LOSS OF THE CLIENT'S ACK: from net_init, after ANY prefix of the one-way
   workload (drops, duplicates, reordering, any clock) that ends with A ESTABLISHED, B in SYN-RECEIVED and A
   fresh, on every fair schedule along which the window B advertises in SYN-RECEIVED is open: both ESTABLISHED,
   the regime invariant holds and the rest of the run is again fair, before A's clock passes
   max (now, challenge_ack_timer) + RTTE_MAX_RTO + 2 Dt *)
Theorem C02live_server_established_after_ack_loss : forall Dt Da Dack ca cb st0, start_ok Dack ca cb st0 ->
  forall pre st evs st',
  net_run st0 pre = Ok st -> Forall (script_ev SA) pre ->
  s_state (net_sock st SA) = Established -> s_state (net_sock st SB) = SynReceived ->
  fresh (cx_isn (ep_cx (n_a st0))) st ->
  fair_schedule Dt Da st evs -> Forall (app_ev SA) evs -> net_run st evs = Ok st' -> TcpNetInv.small st' ->
  run_all syn_win_open st evs ->
  Z.max (net_now st SA) (cA st) + max_rto_us + 2 * Dt < net_now st' SA ->
  exists p1 p2 fa1 st1,
    evs = p1 ++ p2 /\ net_run st p1 = Ok st1 /\ net_run st1 p2 = Ok st' /\
    reg SA Dack st1 /\ reach st1 /\ opts_ok st1 /\
    dl_sync Da fa1 st1 /\ fair_run Dt Da fa1 st1 p2 /\
    net_now st1 SA <= Z.max (net_now st SA) (cA st) + max_rto_us + 2 * Dt.
Proof. exact server_established_after_ack_loss. Qed.
Print Assumptions C02live_server_established_after_ack_loss.

(* NON-VACUITY: A's ACK of the SYN|ACK is lost in the prefix; on the fair suffix (B's RTO 1 s, SYN|ACK again,
   A's challenge ACK, the clock runs on) every premise holds and the theorem yields the state in which both
   are ESTABLISHED *)
Theorem C02live_server_established_after_ack_loss_applies :
  exists st0 st st',
    start_ok 10000 ex_cfg_a ex_cfg_b st0 /\ net_run st0 srv_prefix = Ok st /\
    s_state (net_sock st SA) = Established /\ s_state (net_sock st SB) = SynReceived /\
    fair_schedule 5000 5000 st srv_suffix /\ net_run st srv_suffix = Ok st' /\
    exists p1 p2 st1, srv_suffix = p1 ++ p2 /\ net_run st p1 = Ok st1 /\ net_run st1 p2 = Ok st' /\
                      (forall z, s_state (net_sock st1 z) = Established) /\
                      net_now st1 SA <= Z.max (net_now st SA) (cA st) + max_rto_us + 2 * 5000.
Proof. exact server_established_after_ack_loss_applies. Qed.
Print Assumptions C02live_server_established_after_ack_loss_applies.

Theorem C02live_srv_prefix_is_lossy : In (NDrop SB 1) srv_prefix.
Proof. do 5 right. left. reflexivity. Qed.
Print Assumptions C02live_srv_prefix_is_lossy.
