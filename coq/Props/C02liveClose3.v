(* Property C02, LIVENESS half, part 13: FROM net_init TO BOTH CLOSED ON ONE RELIABLE SCHEDULE
   evsD ++ NClose SA :: evs1 ++ NClose SB :: evs2 (one-way workload, then A closes, then B closes in CLOSE-WAIT):
   the handshake completes, every octet written is handed to B's application (zero windows included), and both
   sockets end CLOSED with their tuples released.  Composition of transfer_zw_from_net_init and
   orderly_close_completes; what joins them is close_start at the ONE state right after A's close() (the
   connection is quiet there) - a premise, decided on the witness, not derived from the data phase.
   Only theorems closed by [exact] and [Print Assumptions]; statements pinned in Pins/C02liveClose3.v. *)
From SV Require Import Lib.Base Gen.Consts.
From SV Require Import Model.Seq32 Model.Assembler Model.TcpBuf Model.TcpTypes Model.Tcp Model.TcpNet.
From SV Require Import Proofs.TcpSendBase Proofs.TcpLiveBase Proofs.TcpLiveProofs Proofs.TcpLiveMore Proofs.TcpLiveProgress.
From SV Require Import Proofs.TcpNetBase.
From SV Require Import Proofs.TcpProgressBase Proofs.TcpProgressFrame Proofs.TcpProgressCtl Proofs.TcpProgressRecv Proofs.TcpProgressSend Proofs.TcpProgressNet Proofs.TcpProgressData Proofs.TcpProgressAck Proofs.TcpProgressAll Proofs.TcpProgressSafe Proofs.TcpProgressHs Proofs.TcpProgressHsD Proofs.TcpProgressHsNet Proofs.TcpProgressHsInit Proofs.TcpProgressHsLive Proofs.TcpProgressHsLive2 Proofs.TcpProgressExample Proofs.TcpProgressWitness Proofs.TcpProgressSafeWitness Proofs.TcpProgressZwDup Proofs.TcpProgressZw1 Proofs.TcpProgressZw2 Proofs.TcpProgressZw3 Proofs.TcpProgressZwWitness Proofs.TcpProgressZw4 Proofs.TcpProgressZw5 Proofs.TcpProgressZw6 Proofs.TcpProgressZwWitness3 Proofs.TcpProgressCl1 Proofs.TcpProgressCl2 Proofs.TcpProgressCl3 Proofs.TcpProgressCl4 Proofs.TcpProgressCl5 Proofs.TcpProgressCl6 Proofs.TcpProgressCl7 Proofs.TcpProgressCl8 Proofs.TcpProgressCl9.

Theorem C02live_transfer_then_close_from_net_init : forall Dt Da Dack ca cb st0 tA X Y MA MB dk T0
  evsD evs1 evs2 stD stC st_m st',
  start_ok Dack ca cb st0 -> 2 * Dt < tcp_RTTE_MIN_RTO * 1000 ->
  reliable_schedule Dt Da st0 (evsD ++ NClose SA :: evs1 ++ NClose SB :: evs2) ->
  Forall (app_ev SA) evsD -> net_run st0 evsD = Ok stD ->
  (forall z, l_len (ep_written (net_get stD z)) < 2 ^ 30) ->
  run_all (zregime Dack) st0 evsD -> net_now st0 SA + 3 * Dt < net_now stD SA ->
  net_step stD (NClose SA) = Ok stC ->
  close_start tA X Y MA MB Da dk T0 (fa_run Dt Da (fa_init Dt Da st0) st0 (evsD ++ [NClose SA])) stC ->
  tuple_nz tA -> 0 <= X < 4294967296 -> 0 <= Y < 4294967296 ->
  match MB with Some m => seq_gt m Y = false | None => True end -> mlim MB Y ->
  Forall (cl_ev SA false) evs1 -> net_run stC evs1 = Ok st_m -> T0 + 2 * Dt < net_now st_m SA ->
  net_run st_m (NClose SB :: evs2) = Ok st' ->
  net_now st_m SA + 3 * Dt + tcp_CLOSE_DELAY < net_now st' SA ->
  (exists pre post st1,
     evsD = pre ++ post /\ net_run st0 pre = Ok st1 /\ net_run st1 post = Ok stD /\
     (forall z, s_state (net_sock st1 z) = Established) /\ net_now st1 SA <= net_now st0 SA + 3 * Dt /\
     forall L0 n,
       L0 <= l_len (ep_written (net_get st1 SA)) ->
       Z.max 0 (L0 - una_off (net_get st1 SA)) + Z.max 0 (L0 - read_off (net_get st1 SB)) <= Z.of_nat n ->
       net_now st1 SA + Z.of_nat n * Wz Dt Da < net_now stD SA ->
       exists p1 p2 st2, post = p1 ++ p2 /\ net_run st1 p1 = Ok st2 /\ net_run st2 p2 = Ok stD /\
                         L0 <= read_off (net_get st2 SB)) /\
  (exists pre post st_c,
     evs2 = pre ++ post /\ net_run st_m (NClose SB :: pre) = Ok st_c /\ net_run st_c post = Ok st' /\
     both_closed st_c).
Proof. exact transfer_then_close_from_net_init. Qed.
Print Assumptions C02live_transfer_then_close_from_net_init.

(* NON-VACUITY: handshake, 12 octets through an 8-octet window that closes in the middle, every octet read by
   B's application, A closes, B closes, TIME-WAIT expires - both CLOSED; every premise checked *)
Theorem C02live_transfer_then_close_applies :
  exists st0 stD st_m st',
    start_ok 10000 zcfg_a zcfg_b st0 /\
    reliable_schedule 5000 5000 st0 (zw_full_sched ++ NClose SA :: e2e_evs1 ++ NClose SB :: e2e_evs2) /\
    net_run st0 zw_full_sched = Ok stD /\ net_run stD (NClose SA :: e2e_evs1) = Ok st_m /\
    net_run st_m (NClose SB :: e2e_evs2) = Ok st' /\
    (exists pre post st1,
       zw_full_sched = pre ++ post /\ net_run st0 pre = Ok st1 /\ net_run st1 post = Ok stD /\
       (forall z, s_state (net_sock st1 z) = Established) /\
       (12 <= l_len (ep_written (net_get st1 SA)) ->
        Z.max 0 (12 - una_off (net_get st1 SA)) + Z.max 0 (12 - read_off (net_get st1 SB)) <= Z.of_nat 24 ->
        net_now st1 SA + Z.of_nat 24 * Wz 5000 5000 < net_now stD SA ->
        exists p1 p2 st2, post = p1 ++ p2 /\ net_run st1 p1 = Ok st2 /\ net_run st2 p2 = Ok stD /\
                          12 <= read_off (net_get st2 SB))) /\
    (exists pre post st_c,
       e2e_evs2 = pre ++ post /\ net_run st_m (NClose SB :: pre) = Ok st_c /\ net_run st_c post = Ok st' /\
       both_closed st_c).
Proof. exact transfer_then_close_applies. Qed.
Print Assumptions C02live_transfer_then_close_applies.
