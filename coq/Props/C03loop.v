(* Property C03, "Interface::poll … never fails to return": termination of the egress loop of
   Interface::poll over ANY set of sockets, from a per-socket burst measure.

   The loop `loop { if poll_egress() == None { break } }` re-runs socket_egress (one dispatch per socket,
   at most one packet each) while some socket emitted, at a fixed instant.  If every socket has a measure
   that strictly decreases on an emitting dispatch and does not increase on a silent one, the loop returns
   after at most (sum of the measures) emitting passes — whatever the sockets are and however many.
   The first three theorems below treat the sockets as independent components; the later ones make what
   the sockets share (device budget, neighbor cache, fragmenter) an explicit environment of ARBITRARY
   behaviour, so no independence assumption is left (C03_egress_loop_shared_env_returns).

   What is instantiated, machine-checked:
   - TCP socket sets: Props/C03tcp.v `C03_tcp_socket_set_egress_returns` (per-socket facts
     `C03_tcp_burst_step` / `C03_tcp_silent_step`: measure mu, bound 6 + ceil(min(win, txlen)/eff_mss));
   - UDP/ICMP/raw socket sets: `C03_dgram_socket_set_egress_returns` below (measure = queued datagrams; the
     model is the one C09 ties to udp.rs / icmp.rs / raw.rs);
   - mixed sets: `C03_egress_loop_mixed_set_returns` below shows the three hypotheses closed under sums of
     two component kinds (iterate for more), so a set mixing TCP and datagram sockets needs no further
     argument; the concrete TCP + datagram instance is not stated as a theorem of its own.
   What is NOT plugged in mechanically: DNS (`C19_poll_is_one_dispatch_each`: one dispatch per pending query
   per poll) and DHCPv4 (`C18_solicit_when_due`: at most one message per dispatch and the retry timer moves
   strictly into the future) - their per-dispatch facts are theorems of C19 / C18, but no measure / invariant
   instance of the loop hypotheses is proved for them.  The environment itself (the real device, neighbor
   cache and fragmenter) is an arbitrary oracle, not a model (stated in checks/C03.loop.json). *)
From SV Require Import Lib.Base Model.EgressLoop Proofs.EgressLoopProofs.
From SV Require Import Gen.Consts Model.DgramQueue Model.Dgram Proofs.DgramProofs Proofs.DgramLoop.

Theorem C03_egress_loop_returns : forall (St : Type) (dispatch : St -> St * bool) (mu : St -> nat),
  (forall s s', dispatch s = (s', true) -> (mu s' < mu s)%nat) ->
  (forall s s', dispatch s = (s', false) -> (mu s' <= mu s)%nat) ->
  forall fuel ss, (total St mu ss < fuel)%nat ->
  exists r n, poll_loop St dispatch fuel ss = Some (r, n) /\ (n + total St mu r <= total St mu ss)%nat /\
              length r = length ss.
Proof. exact poll_loop_returns. Qed.
Print Assumptions C03_egress_loop_returns.

Theorem C03_egress_loop_fuel_irrelevant : forall (St : Type) (dispatch : St -> St * bool) (mu : St -> nat),
  (forall s s', dispatch s = (s', true) -> (mu s' < mu s)%nat) ->
  (forall s s', dispatch s = (s', false) -> (mu s' <= mu s)%nat) ->
  forall f1 f2 ss, (total St mu ss < f1)%nat -> (total St mu ss < f2)%nat ->
  poll_loop St dispatch f1 ss = poll_loop St dispatch f2 ss.
Proof. exact poll_loop_fuel_irrelevant. Qed.
Print Assumptions C03_egress_loop_fuel_irrelevant.

Theorem C03_egress_loop_example :
  poll_loop nat ex_dispatch 10 [2; 0; 3]%nat = Some ([0; 0; 0]%nat, 3%nat).
Proof. exact egress_loop_example. Qed.
Print Assumptions C03_egress_loop_example.

(* The same loop with what the sockets SHARE made explicit (Model/EgressLoop.v, second section): an
   environment [E] (device transmit budget, neighbor cache, fragmenter) read and written by every
   dispatch and by the interface's own transmissions before each pass ([pre]); a pass breaks at the first
   socket that finds the device exhausted.  For ANY environment behaviour: if an invariant of each socket
   is kept by its dispatch, a sent packet strictly decreases the socket's measure and any other outcome
   (nothing to send, refused emit, exhausted device) does not increase it, the loop returns.  No
   independence assumption is left: the hypotheses quantify over every environment value. *)
Theorem C03_egress_loop_shared_env_returns :
  forall (E St : Type) (dispatch : E -> St -> E * St * dres) (pre : E -> E)
         (Inv : St -> Prop) (mu : St -> nat),
  (forall e s e' s' r, Inv s -> dispatch e s = (e', s', r) -> Inv s') ->
  (forall e s e' s', Inv s -> dispatch e s = (e', s', RSent) -> (mu s' < mu s)%nat) ->
  (forall e s e' s' r, Inv s -> dispatch e s = (e', s', r) -> r <> RSent -> (mu s' <= mu s)%nat) ->
  forall fuel e ss, Forall Inv ss -> (total2 St mu ss < fuel)%nat ->
  exists e' r n, poll_loop2 E St dispatch pre fuel e ss = Some (e', r, n) /\
                 (n + total2 St mu r <= total2 St mu ss)%nat /\ length r = length ss /\ Forall Inv r.
Proof. exact poll_loop2_returns. Qed.
Print Assumptions C03_egress_loop_shared_env_returns.

Theorem C03_egress_loop_shared_env_example :
  poll_loop2 nat nat ex_dispatch2 Nat.pred 10 4%nat [2; 0; 3]%nat = Some (0%nat, [1; 0; 2]%nat, 1%nat) /\
  poll_loop2 nat nat ex_dispatch2 Nat.pred 10 20%nat [2; 0; 3]%nat = Some (11%nat, [0; 0; 0]%nat, 3%nat).
Proof. exact egress_loop2_example. Qed.
Print Assumptions C03_egress_loop_shared_env_example.

(* Instantiation, machine-checked, for UDP / ICMP / raw sockets (Model/Dgram.v, the model property C09
   ties to udp.rs / icmp.rs / raw.rs): for EVERY set of well-formed datagram sockets, every environment
   type E with every oracle [decide] fixing per dispatch what the emit closure answers (packet sent,
   device exhausted, dispatch_ip failed) and every interface activity [pre] between passes, the egress
   loop returns after at most (number of queued datagrams) emitting passes. *)
Theorem C03_dgram_socket_set_egress_returns :
  forall (E : Type) (ev : env) (decide : E -> sock -> Z * E) (pre : E -> E) fuel e ss,
  Forall sock_wf ss -> (total2 sock dg_mu ss < fuel)%nat ->
  exists e' r n, poll_loop2 E sock (dg_dispatch E ev decide) pre fuel e ss = Some (e', r, n) /\
                 (n + total2 sock dg_mu r <= total2 sock dg_mu ss)%nat /\
                 length r = length ss /\ Forall sock_wf r.
Proof. exact dgram_socket_set_egress_returns. Qed.
Print Assumptions C03_dgram_socket_set_egress_returns.

(* Mixed socket sets: the three hypotheses are closed under sums of component kinds (iterate for more
   than two kinds), so a set mixing e.g. TCP sockets (C03_tcp_* in Props/C03tcp.v) and datagram sockets
   (above) needs no further argument. *)
Theorem C03_egress_loop_mixed_set_returns :
  forall (E A B : Type) (dA : E -> A -> E * A * dres) (dB : E -> B -> E * B * dres)
         (InvA : A -> Prop) (InvB : B -> Prop) (muA : A -> nat) (muB : B -> nat),
  (forall e s e' s' r, InvA s -> dA e s = (e', s', r) -> InvA s') ->
  (forall e s e' s', InvA s -> dA e s = (e', s', RSent) -> (muA s' < muA s)%nat) ->
  (forall e s e' s' r, InvA s -> dA e s = (e', s', r) -> r <> RSent -> (muA s' <= muA s)%nat) ->
  (forall e s e' s' r, InvB s -> dB e s = (e', s', r) -> InvB s') ->
  (forall e s e' s', InvB s -> dB e s = (e', s', RSent) -> (muB s' < muB s)%nat) ->
  (forall e s e' s' r, InvB s -> dB e s = (e', s', r) -> r <> RSent -> (muB s' <= muB s)%nat) ->
  forall pre fuel e ss,
  Forall (sum_inv A B InvA InvB) ss -> (total2 (A + B) (sum_mu A B muA muB) ss < fuel)%nat ->
  exists e' r n, poll_loop2 E (A + B) (sum_dispatch E A B dA dB) pre fuel e ss = Some (e', r, n) /\
                 (n + total2 (A + B) (sum_mu A B muA muB) r <= total2 (A + B) (sum_mu A B muA muB) ss)%nat /\
                 length r = length ss /\ Forall (sum_inv A B InvA InvB) r.
Proof. exact mixed_set_returns. Qed.
Print Assumptions C03_egress_loop_mixed_set_returns.
