(* Property C03, "Interface::poll … never fails to return": termination of the egress loop of
   Interface::poll over ANY set of sockets, from a per-socket burst measure.

   The loop `loop { if poll_egress() == None { break } }` re-runs socket_egress (one dispatch per socket,
   at most one packet each) while some socket emitted, at a fixed instant.  If every socket has a measure
   that strictly decreases on an emitting dispatch and does not increase on a silent one, the loop returns
   after at most (sum of the measures) emitting passes — whatever the sockets are and however many.
   The per-socket hypotheses are theorems of the socket models: TCP `C03tcp_burst_step` (Props/C03tcp.v:
   measure mu, bound 6 + ceil(min(win, txlen)/eff_mss)); DNS `C19_poll_is_one_dispatch_each` (one dispatch per
   pending query per poll); UDP/ICMP/raw: the transmit queue length (`C09_tx_exactly_once_when_emit_ok`: each
   emitting dispatch removes exactly one datagram); DHCPv4: at most one message per dispatch and the retry
   timer moves strictly into the future (`C18_solicit_when_due`).  Sockets are treated as independent
   components (they share the device and the neighbor cache only through "emit refused", which is a silent
   dispatch); that independence and the instantiation of this abstract theorem for a mixed socket set are
   NOT machine-checked here (stated in checks/C03.loop.json). *)
From SV Require Import Lib.Base Model.EgressLoop Proofs.EgressLoopProofs.

Theorem C03_egress_loop_returns : forall (St : Type) (dispatch : St -> St * bool) (mu : St -> nat),
  (forall s s', dispatch s = (s', true) -> (mu s' < mu s)%nat) ->
  (forall s s', dispatch s = (s', false) -> (mu s' <= mu s)%nat) ->
  forall fuel ss, (total St mu ss < fuel)%nat ->
  exists r n, poll_loop St dispatch fuel ss = Some (r, n) /\ (n + total St mu r <= total St mu ss)%nat /\
              length r = length ss.
Proof. exact poll_loop_returns. Qed.
Print Assumptions C03_egress_loop_returns.

Theorem C03_egress_loop_fuel_irrelevant : forall (St : Type) (dispatch : St -> St * bool) (mu : St -> nat),
  (forall s s', dispatch s = (s', true) -> (mu s' < mu s)%nat) ->
  (forall s s', dispatch s = (s', false) -> (mu s' <= mu s)%nat) ->
  forall f1 f2 ss, (total St mu ss < f1)%nat -> (total St mu ss < f2)%nat ->
  poll_loop St dispatch f1 ss = poll_loop St dispatch f2 ss.
Proof. exact poll_loop_fuel_irrelevant. Qed.
Print Assumptions C03_egress_loop_fuel_irrelevant.

Theorem C03_egress_loop_example :
  poll_loop nat ex_dispatch 10 [2; 0; 3]%nat = Some ([0; 0; 0]%nat, 3%nat).
Proof. exact egress_loop_example. Qed.
Print Assumptions C03_egress_loop_example.
