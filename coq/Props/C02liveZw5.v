(* Property C02, LIVENESS half, part 10: DELIVERY AFTER ANY FAULT PREFIX that ends with both sockets
   ESTABLISHED, on every reliable schedule, ZERO WINDOWS INCLUDED.
   Only theorems closed by [exact] and [Print Assumptions]; statements pinned in Pins/C02liveZw5.v. *)
From SV Require Import Lib.Base Gen.Consts.
From SV Require Import Model.Seq32 Model.Assembler Model.TcpBuf Model.TcpTypes Model.Tcp Model.TcpNet.
From SV Require Import Proofs.TcpSendBase Proofs.TcpLiveBase Proofs.TcpLiveProofs Proofs.TcpLiveMore Proofs.TcpLiveProgress.
From SV Require Import Proofs.TcpNetBase.
From SV Require Import Proofs.TcpProgressBase Proofs.TcpProgressFrame Proofs.TcpProgressCtl Proofs.TcpProgressRecv Proofs.TcpProgressSend Proofs.TcpProgressNet Proofs.TcpProgressData Proofs.TcpProgressAck Proofs.TcpProgressAll Proofs.TcpProgressSafe Proofs.TcpProgressHs Proofs.TcpProgressHsD Proofs.TcpProgressHsNet Proofs.TcpProgressHsInit Proofs.TcpProgressHsLive Proofs.TcpProgressHsLive2 Proofs.TcpProgressZwp Proofs.TcpProgressExample Proofs.TcpProgressWitness Proofs.TcpProgressSafeWitness Proofs.TcpProgressZwDup Proofs.TcpProgressZw1 Proofs.TcpProgressZw1b Proofs.TcpProgressZw2 Proofs.TcpProgressZw3 Proofs.TcpProgressZwWitness Proofs.TcpProgressZw4 Proofs.TcpProgressZw5 Proofs.TcpProgressZwWitness2 Proofs.TcpProgressZw6 Proofs.TcpProgressZwWitness3.

(* AFTER ANY FAULT PREFIX: from net_init, after ANY run of application/network events (loss, duplication,
   reordering, delay - no fairness asked of it) that ends with both sockets ESTABLISHED, on every reliable
   schedule every octet written is delivered, zero windows included; the only state premise is zextra *)
Theorem C02live_delivery_zero_windows_after_fault_prefix : forall Dt Da Dack ca cb st0 n pre evs st st' L0,
  start_ok Dack ca cb st0 ->
  Forall (app_ev SA) pre -> net_run st0 pre = Ok st ->
  (forall z, s_state (net_sock st z) = Established) ->
  reliable_schedule Dt Da st evs ->
  Forall (app_ev SA) evs -> net_run st evs = Ok st' ->
  (forall z, l_len (ep_written (net_get st' z)) < 2 ^ 30) ->
  run_all (zextra SA) st evs ->
  L0 <= l_len (ep_written (net_get st SA)) ->
  Z.max 0 (L0 - una_off (net_get st SA)) + Z.max 0 (L0 - read_off (net_get st SB)) <= Z.of_nat n ->
  net_now st SA + Z.of_nat n * Wz Dt Da < net_now st' SA ->
  exists p1 p2 st1, evs = p1 ++ p2 /\ net_run st p1 = Ok st1 /\ net_run st1 p2 = Ok st' /\
                    L0 <= read_off (net_get st1 SB).
Proof. exact oneway_delivery_zw_from_net_init. Qed.
Print Assumptions C02live_delivery_zero_windows_after_fault_prefix.

(* NON-VACUITY: the prefix loses the window update (NDrop) before delivery becomes reliable; all 12 octets
   are read by B's application inside the reliable part *)
Theorem C02live_delivery_zero_windows_after_fault_prefix_applies :
  exists st0 st st',
    start_ok 10000 zcfg_a zcfg_b st0 /\ net_run st0 zww_prefix = Ok st /\ net_run st zwd_suffix = Ok st' /\
    reliable_schedule 5000 5000 st zwd_suffix /\ run_all (zextra SA) st zwd_suffix /\
    exists p1 p2 st1, zwd_suffix = p1 ++ p2 /\ net_run st p1 = Ok st1 /\ net_run st1 p2 = Ok st' /\
                      12 <= read_off (net_get st1 SB).
Proof. exact delivery_zw_from_net_init_applies. Qed.
Print Assumptions C02live_delivery_zero_windows_after_fault_prefix_applies.
