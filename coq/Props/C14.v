(* Property C14 — ring and packet buffers are faithful bounded FIFO queues.
   This file contains only the property theorems (each closed by [exact]) and
   [Print Assumptions]; statements are pinned in Pins/C14.v.
   Model: Model/Ring.v, Model/PacketBuf.v (the code as fixed by the three `fix:` commits listed in
   known_findings.txt).  Specification: the list-queue machine [qs_*] of Model/Ring.v
   (queue [q_q], scratch area [q_fr], cursor [q_pos]; only ++/firstn/skipn, no array). *)
From SV Require Import Lib.Base Model.Ring Proofs.RingProofs.

(* Every reachable ring (any element type, any capacity including 0, any op sequence): the
   invariant holds, the capacity never changes, 0 <= len <= capacity, len = |abstract queue|. *)
Theorem C14_ring_invariant_all_sequences : forall (A : Type) (store : list A) (ops : list (ring_op A)),
  Forall (@ring_op_ok A) ops ->
  let r := fst (ring_run (ring_new store) ops) in
  ring_inv r /\ ring_capacity r = zlen store /\ 0 <= ring_len r <= zlen store /\
  ring_len r = zlen (ring_abs r).
Proof. exact c14_ring_invariant. Qed.
Print Assumptions C14_ring_invariant_all_sequences.

(* One step: the ring and the list queue agree on the outcome kind (Ok / Err Full|Empty / Panic),
   on every returned number and element, and the resulting ring represents the resulting queue. *)
Theorem C14_ring_step_refines_queue : forall (A : Type) (r : ring A) (op : ring_op A),
  ring_inv r -> ring_op_ok op ->
  match ring_step r op with
  | Ok (r', out) => ring_inv r' /\ qs_step (ring_view r) op = Ok (ring_view r', out)
  | Err e => qs_step (ring_view r) op = Err e
  | Panic => qs_step (ring_view r) op = Panic
  end.
Proof. exact ring_step_refines. Qed.
Print Assumptions C14_ring_step_refines_queue.

(* Whole runs: same observations (results and len/capacity/window/contiguous_window/is_empty/
   is_full after every op) as the list queue. *)
Theorem C14_ring_refines_queue : forall (A : Type) (ops : list (ring_op A)) (r : ring A),
  ring_inv r -> Forall (@ring_op_ok A) ops ->
  ring_inv (fst (ring_run r ops)) /\
  qs_run (ring_view r) ops = (ring_view (fst (ring_run r ops)), snd (ring_run r ops)).
Proof. exact ring_run_refines. Qed.
Print Assumptions C14_ring_refines_queue.

(* Elements come back in order, each once: along any run, (queue at start ++ everything accepted)
   = (everything removed ++ queue at the end); the queue never holds more than the capacity. *)
Theorem C14_ring_fifo : forall (A : Type) (ops : list (ring_op A)) (r : ring A),
  ring_inv r -> Forall (@ring_op_ok A) ops ->
  ring_abs r ++ fst (ring_hist r ops) = snd (ring_hist r ops) ++ ring_abs (fst (ring_run r ops)) /\
  ring_capacity (fst (ring_run r ops)) = ring_capacity r /\
  zlen (ring_abs (fst (ring_run r ops))) <= ring_capacity r.
Proof. exact ring_run_fifo. Qed.
Print Assumptions C14_ring_fifo.

(* The only panics are the documented assert!s, under exactly these conditions; in particular no
   slice index, element index or remainder-by-zero panic is reachable. *)
Theorem C14_ring_panics_only_documented : forall (A : Type) (r : ring A) (op : ring_op A),
  ring_inv r -> ring_op_ok op ->
  (ring_step r op = Panic <->
   match op with
   | ROEnqManyWith _ k => ring_contiguous_window (ring_reset_if_empty r) < k
   | RODeqManyWith k => Z.min (ring_len r) (ring_capacity r - r_read r) < k
   | ROEnqUnalloc n => ring_window r < n
   | RODeqAlloc n => ring_len r < n
   | _ => False
   end).
Proof. exact ring_panic_iff. Qed.
Print Assumptions C14_ring_panics_only_documented.

(* The usize subtractions of the source cannot underflow. *)
Theorem C14_ring_no_underflow : forall (A : Type) (r : ring A), ring_inv r ->
  0 <= ring_window r /\ 0 <= ring_capacity r - r_read r /\
  (forall i, 0 <= i <= ring_capacity r -> 0 <= ring_capacity r - ring_get_idx r i) /\
  0 <= ring_contiguous_window r.
Proof. exact ring_sub_ok. Qed.
Print Assumptions C14_ring_no_underflow.

(* Random access: write_unallocated(offset, d) leaves the queue unchanged, writes min(|d|, window -
   offset) elements at logical position len + offset of the scratch area, and a following
   enqueue_unallocated commits them in order. *)
Theorem C14_ring_random_access : forall (A : Type) (r r1 : ring A) off d n,
  ring_inv r -> 0 <= off ->
  ring_write_unallocated r off d = Ok (r1, n) ->
  ring_inv r1 /\ ring_abs r1 = ring_abs r /\
  n = (if ring_window r <? off then 0 else Z.min (zlen d) (ring_window r - off)) /\
  (off <= ring_window r ->
     q_fr (ring_view r1) = put (q_fr (ring_view r)) off (firstn (Z.to_nat n) d)) /\
  forall r2, off = 0 -> ring_enqueue_unallocated r1 n = Ok r2 ->
     ring_inv r2 /\ ring_abs r2 = ring_abs r ++ firstn (Z.to_nat n) d.
Proof. exact c14_ring_random_access. Qed.
Print Assumptions C14_ring_random_access.

(* Non-vacuity: a reachable wrapped ring (read_at = 2, 3 of 4 slots used, data wraps around the end,
   one scratch byte written) satisfying the invariant. *)
Theorem C14_ring_example :
  let r := fst (ring_run (ring_new [0; 0; 0; 0]) c14_ring_example_ops) in
  r = mkRing [5; 9; 3; 4] 2 3 /\ ring_abs r = [3; 4; 5] /\ q_fr (ring_view r) = [9] /\
  ring_inv r /\ ring_contiguous_window r = 1 /\
  Forall (@ring_op_ok Z) c14_ring_example_ops.
Proof. exact c14_ring_example. Qed.
Print Assumptions C14_ring_example.
