(* Property C14 — ring and packet buffers are faithful bounded FIFO queues.
   This file contains only the property theorems (each closed by [exact]) and
   [Print Assumptions]; statements are pinned in Pins/C14.v.
   Model: Model/Ring.v, Model/PacketBuf.v (the code as fixed by the three `fix:` commits listed in
   known_findings.txt).  Specification: the list-queue machine [qs_*] of Model/Ring.v
   (queue [q_q], scratch area [q_fr], cursor [q_pos]; only ++/firstn/skipn, no array). *)
From SV Require Import Lib.Base Model.Ring Proofs.RingProofs.

(* Every reachable ring (any element type, any capacity including 0, any op sequence): the
   invariant holds, the capacity never changes, 0 <= len <= capacity, len = |abstract queue|. *)
Theorem C14_ring_invariant_all_sequences : forall (A : Type) (store : list A) (ops : list (ring_op A)),
  Forall (@ring_op_ok A) ops ->
  let r := fst (ring_run (ring_new store) ops) in
  ring_inv r /\ ring_capacity r = zlen store /\ 0 <= ring_len r <= zlen store /\
  ring_len r = zlen (ring_abs r).
Proof. exact c14_ring_invariant. Qed.
Print Assumptions C14_ring_invariant_all_sequences.

(* One step: the ring and the list queue agree on the outcome kind (Ok / Err Full|Empty / Panic),
   on every returned number and element, and the resulting ring represents the resulting queue. *)
Theorem C14_ring_step_refines_queue : forall (A : Type) (r : ring A) (op : ring_op A),
  ring_inv r -> ring_op_ok op ->
  match ring_step r op with
  | Ok (r', out) => ring_inv r' /\ qs_step (ring_view r) op = Ok (ring_view r', out)
  | Err e => qs_step (ring_view r) op = Err e
  | Panic => qs_step (ring_view r) op = Panic
  end.
Proof. exact ring_step_refines. Qed.
Print Assumptions C14_ring_step_refines_queue.

(* Whole runs: same observations (results and len/capacity/window/contiguous_window/is_empty/
   is_full after every op) as the list queue. *)
Theorem C14_ring_refines_queue : forall (A : Type) (ops : list (ring_op A)) (r : ring A),
  ring_inv r -> Forall (@ring_op_ok A) ops ->
  ring_inv (fst (ring_run r ops)) /\
  qs_run (ring_view r) ops = (ring_view (fst (ring_run r ops)), snd (ring_run r ops)).
Proof. exact ring_run_refines. Qed.
Print Assumptions C14_ring_refines_queue.

(* Elements come back in order, each once: along any run, (queue at start ++ everything accepted)
   = (everything removed ++ queue at the end); the queue never holds more than the capacity. *)
Theorem C14_ring_fifo : forall (A : Type) (ops : list (ring_op A)) (r : ring A),
  ring_inv r -> Forall (@ring_op_ok A) ops ->
  ring_abs r ++ fst (ring_hist r ops) = snd (ring_hist r ops) ++ ring_abs (fst (ring_run r ops)) /\
  ring_capacity (fst (ring_run r ops)) = ring_capacity r /\
  zlen (ring_abs (fst (ring_run r ops))) <= ring_capacity r.
Proof. exact ring_run_fifo. Qed.
Print Assumptions C14_ring_fifo.

(* The only panics are the documented assert!s, under exactly these conditions; in particular no
   slice index, element index or remainder-by-zero panic is reachable. *)
Theorem C14_ring_panics_only_documented : forall (A : Type) (r : ring A) (op : ring_op A),
  ring_inv r -> ring_op_ok op ->
  (ring_step r op = Panic <->
   match op with
   | ROEnqManyWith _ k => ring_contiguous_window (ring_reset_if_empty r) < k
   | RODeqManyWith k => Z.min (ring_len r) (ring_capacity r - r_read r) < k
   | ROEnqUnalloc n => ring_window r < n
   | RODeqAlloc n => ring_len r < n
   | _ => False
   end).
Proof. exact ring_panic_iff. Qed.
Print Assumptions C14_ring_panics_only_documented.

(* The usize subtractions of the source cannot underflow. *)
Theorem C14_ring_no_underflow : forall (A : Type) (r : ring A), ring_inv r ->
  0 <= ring_window r /\ 0 <= ring_capacity r - r_read r /\
  (forall i, 0 <= i <= ring_capacity r -> 0 <= ring_capacity r - ring_get_idx r i) /\
  0 <= ring_contiguous_window r.
Proof. exact ring_sub_ok. Qed.
Print Assumptions C14_ring_no_underflow.

(* Random access: write_unallocated(offset, d) leaves the queue unchanged, writes min(|d|, window -
   offset) elements at logical position len + offset of the scratch area, and a following
   enqueue_unallocated commits them in order. *)
Theorem C14_ring_random_access : forall (A : Type) (r r1 : ring A) off d n,
  ring_inv r -> 0 <= off ->
  ring_write_unallocated r off d = Ok (r1, n) ->
  ring_inv r1 /\ ring_abs r1 = ring_abs r /\
  n = (if ring_window r <? off then 0 else Z.min (zlen d) (ring_window r - off)) /\
  (off <= ring_window r ->
     q_fr (ring_view r1) = put (q_fr (ring_view r)) off (firstn (Z.to_nat n) d)) /\
  forall r2, off = 0 -> ring_enqueue_unallocated r1 n = Ok r2 ->
     ring_inv r2 /\ ring_abs r2 = ring_abs r ++ firstn (Z.to_nat n) d.
Proof. exact c14_ring_random_access. Qed.
Print Assumptions C14_ring_random_access.

(* Non-vacuity: a reachable wrapped ring (read_at = 2, 3 of 4 slots used, data wraps around the end,
   one scratch byte written) satisfying the invariant. *)
Theorem C14_ring_example :
  let r := fst (ring_run (ring_new [0; 0; 0; 0]) c14_ring_example_ops) in
  r = mkRing [5; 9; 3; 4] 2 3 /\ ring_abs r = [3; 4; 5] /\ q_fr (ring_view r) = [9] /\
  ring_inv r /\ ring_contiguous_window r = 1 /\
  Forall (@ring_op_ok Z) c14_ring_example_ops.
Proof. exact c14_ring_example. Qed.
Print Assumptions C14_ring_example.

(* ------------------------------ packet buffer ------------------------------ *)
From SV Require Import Model.PacketBuf Proofs.PacketBufProofs.

(* Every packet buffer reachable from new() by any op sequence (any metadata / payload capacity,
   including 0) satisfies the invariant: records tile the payload queue, no record straddles the end
   of the payload storage, every padding record is followed by a packet. *)
Theorem C14_pb_invariant_all_sequences : forall (H : Type) mcap pcap (ops : list (pb_op H)) b,
  Forall (@pb_op_ok H) ops -> pb_run (pb_new H mcap pcap) ops = Some b ->
  pb_inv b.
Proof. exact c14_pb_invariant. Qed.
Print Assumptions C14_pb_invariant_all_sequences.

(* One step refines the FIFO queue of (header, payload) pairs [pq_rel]; the only panic is the ring's
   assert when the callback of enqueue_with_infallible claims more than the slice it was given. *)
Theorem C14_pb_refines_queue : forall (H : Type) (b : pbuf H) (op : pb_op H),
  pb_inv b -> pb_op_ok op ->
  match pb_step b op with
  | Ok (b', out) => pb_inv b' /\ pq_rel (pb_abs b) op out (pb_abs b')
  | Err _ => False
  | Panic => match op with POEnqInf max _ _ k => max < k | _ => False end
  end.
Proof. exact pb_step_refines. Qed.
Print Assumptions C14_pb_refines_queue.

(* enqueue: refused (state unchanged) or the returned payload slice has exactly the requested size and
   the pair is appended; refusal happens exactly when make_room refuses. *)
Theorem C14_pb_enqueue : forall (H : Type) (b : pbuf H) size h w, pb_inv b -> 0 <= size ->
  exists b' res, pb_enqueue b size h w = Ok (b', res) /\
    (res = None <-> exists b1, pb_make_room b size = Ok (b1, true)) /\
    match res with
    | None => b' = b
    | Some old => zlen old = size /\ pb_inv b' /\ pb_abs b' = pb_abs b ++ [(h, overlay w old)]
    end.
Proof. exact pb_enqueue_spec. Qed.
Print Assumptions C14_pb_enqueue.

Theorem C14_pb_enqueue_with_infallible : forall (H : Type) (b : pbuf H) max h (f : list Z -> list Z * Z),
  pb_inv b -> 0 <= max -> (forall buf, 0 <= snd (f buf)) ->
  (exists b' res, pb_enqueue_with_infallible b max h f = Ok (b', res) /\
     (res = None <-> exists b1, pb_make_room b max = Ok (b1, true)) /\
     match res with
     | None => b' = b
     | Some (k, seen) =>
         zlen seen = max /\ k = snd (f seen) /\ pb_inv b' /\
         exists pl, zlen pl = k /\ pb_abs b' = pb_abs b ++ [(h, pl)] /\
           (k <= max -> pl = firstn (Z.to_nat k) (overlay (fst (f seen)) seen))
     end) \/
  (pb_enqueue_with_infallible b max h f = Panic /\
   exists seen, zlen seen = max /\ max < snd (f seen)).
Proof. exact pb_enqueue_with_infallible_spec. Qed.
Print Assumptions C14_pb_enqueue_with_infallible.

(* a refused enqueue (either interface) leaves the state, hence the queued packets, unchanged *)
Theorem C14_pb_refused_unchanged : forall (H : Type) (b b' : pbuf H) size h,
  pb_inv b -> 0 <= size ->
  (forall w, pb_enqueue b size h w = Ok (b', None) -> b' = b) /\
  (forall f, (forall buf, 0 <= snd (f buf)) ->
     pb_enqueue_with_infallible b size h f = Ok (b', None) -> b' = b).
Proof. exact pb_refused_unchanged. Qed.
Print Assumptions C14_pb_refused_unchanged.

(* dequeue returns the oldest pair, payload contiguous and of exact size (it is the recorded list) *)
Theorem C14_pb_dequeue : forall (H : Type) (b : pbuf H), pb_inv b ->
  exists b' res, pb_dequeue b = Ok (b', res) /\ pb_inv b' /\
    match res with
    | None => pb_abs b = [] /\ pb_abs b' = []
    | Some (h, p) => pb_abs b = (h, p) :: pb_abs b'
    end.
Proof. exact pb_dequeue_spec. Qed.
Print Assumptions C14_pb_dequeue.

Theorem C14_pb_dequeue_with : forall (H : Type) (b : pbuf H) (f : H -> list Z -> bool), pb_inv b ->
  exists b' res, pb_dequeue_with b f = Ok (b', res) /\ pb_inv b' /\
    match res with
    | None => pb_abs b = [] /\ pb_abs b' = []
    | Some (h, p, acc) =>
        acc = f h p /\
        exists rest, pb_abs b = (h, p) :: rest /\
                     pb_abs b' = if acc then rest else (h, p) :: rest
    end.
Proof. exact pb_dequeue_with_spec. Qed.
Print Assumptions C14_pb_dequeue_with.

Theorem C14_pb_dequeue_with_decline_unchanged : forall (H : Type) (b b' : pbuf H) f res,
  pb_inv b -> (forall h p, f h p = false) ->
  pb_dequeue_with b f = Ok (b', res) -> pb_inv b' /\ pb_abs b' = pb_abs b.
Proof. exact pb_dequeue_with_decline_unchanged. Qed.
Print Assumptions C14_pb_dequeue_with_decline_unchanged.

Theorem C14_pb_peek : forall (H : Type) (b : pbuf H), pb_inv b ->
  exists b' res, pb_peek b = Ok (b', res) /\ pb_inv b' /\ pb_abs b' = pb_abs b /\
    match res with
    | None => pb_abs b = []
    | Some (h, p) => exists rest, pb_abs b = (h, p) :: rest
    end.
Proof. exact pb_peek_spec. Qed.
Print Assumptions C14_pb_peek.

Theorem C14_pb_reset : forall (H : Type) (b : pbuf H), pb_inv b ->
  pb_inv (pb_reset b) /\ pb_abs (pb_reset b) = [].
Proof. exact pb_reset_spec. Qed.
Print Assumptions C14_pb_reset.

(* An empty packet buffer (no packet queued) with at least one metadata slot accepts, through BOTH
   enqueue interfaces, any packet up to its payload capacity.  (False before the fixes for D1 and for
   the dangling padding record: see known_findings.txt.) *)
Theorem C14_pb_empty_accepts : forall (H : Type) (b : pbuf H) size h, pb_inv b -> pb_abs b = [] ->
  1 <= pb_packet_capacity b -> 0 <= size <= pb_payload_capacity b ->
  (forall w, exists b' old, pb_enqueue b size h w = Ok (b', Some old) /\
     pb_inv b' /\ pb_abs b' = [(h, overlay w old)] /\ zlen old = size) /\
  (forall f, (forall buf, 0 <= snd (f buf) <= size) ->
     exists b' k seen, pb_enqueue_with_infallible b size h f = Ok (b', Some (k, seen)) /\
       pb_inv b' /\ zlen seen = size /\ k = snd (f seen) /\
       pb_abs b' = [(h, firstn (Z.to_nat k) (overlay (fst (f seen)) seen))]).
Proof. exact pb_empty_accepts. Qed.
Print Assumptions C14_pb_empty_accepts.

(* Non-vacuity: a reachable packet buffer whose payload ring wrapped around with a padding record. *)
Theorem C14_pb_example :
  exists b, pb_run (pb_new Z 4 16) c14_pb_example_ops = Some b /\
    ring_abs (pb_meta b) = [pm_packet 8 2; pm_padding Z 2; pm_packet 4 3] /\
    r_read (pb_payload b) = 6 /\ r_len (pb_payload b) = 14 /\
    pb_abs b = [(2, [11; 12; 13; 14; 15; 16; 17; 18]); (3, [21; 22; 23; 24])] /\
    pb_inv b /\ Forall (@pb_op_ok Z) c14_pb_example_ops.
Proof. exact c14_pb_example. Qed.
Print Assumptions C14_pb_example.
