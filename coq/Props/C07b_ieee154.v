(* Property C07 — checked packet views never panic on arbitrary bytes: IEEE 802.15.4 frames
   (src/wire/ieee802154.rs), group ieee154 of the second wave.  Same shape as Props/C07b.v.
     f154_accessors_safe   check_len bs = Ok -> no accessor applicable to the frame panics (the
                           auxiliary-security-header accessors apply when the security bit is set)
     f154_parse_total      for every byte string bs, Repr::parse bs is Ok or Err, never Panic
   Frame::new_checked = check_len + three tests of the frame control word, so the guarantee of
   check_len carries over (f154_new_checked_check_len).  There is no loop in this format: every
   model function is a composition of checked slice reads. *)
From SV Require Import Lib.Base Gen.WireFields Model.WireBase Proofs.WireBaseProofs.
From SV Require Import Model.WireIeee802154 Proofs.WireIeee802154Proofs.

Theorem C07_f154_accessors_safe : forall bs,
  f154_check_len bs = Ok tt ->
  f154_frame_type bs <> Panic /\ f154_security_enabled bs <> Panic /\ f154_frame_pending bs <> Panic /\
  f154_ack_request bs <> Panic /\ f154_pan_id_compression bs <> Panic /\
  f154_sequence_number_suppression bs <> Panic /\ f154_ie_present bs <> Panic /\
  f154_dst_addressing_mode bs <> Panic /\ f154_frame_version bs <> Panic /\
  f154_src_addressing_mode bs <> Panic /\ f154_sequence_number bs <> Panic /\
  f154_dst_pan_id bs <> Panic /\ f154_dst_addr bs <> Panic /\ f154_src_pan_id bs <> Panic /\
  f154_src_addr bs <> Panic /\ f154_mac_header bs <> Panic /\ f154_payload bs <> Panic /\
  (f154_security_enabled bs = Ok true ->
   f154_security_level bs <> Panic /\ f154_key_identifier_mode bs <> Panic /\
   f154_frame_counter_suppressed bs <> Panic /\ f154_frame_counter bs <> Panic /\
   f154_key_source bs <> Panic /\ f154_key_index bs <> Panic /\
   f154_message_integrity_code bs <> Panic).
Proof. exact f154_accessors_safe. Qed.
Print Assumptions C07_f154_accessors_safe.

Theorem C07_f154_parse_total : forall bs, f154_parse bs <> Panic.
Proof. exact f154_parse_total. Qed.
Print Assumptions C07_f154_parse_total.

Theorem C07_f154_check_len_no_panic : forall bs, f154_check_len bs <> Panic.
Proof. exact f154_check_len_no_panic. Qed.
Print Assumptions C07_f154_check_len_no_panic.

Theorem C07_f154_new_checked_no_panic : forall bs, f154_new_checked bs <> Panic.
Proof. exact f154_new_checked_no_panic. Qed.
Print Assumptions C07_f154_new_checked_no_panic.

Theorem C07_f154_new_checked_check_len : forall bs,
  f154_new_checked bs = Ok tt -> f154_check_len bs = Ok tt.
Proof. exact f154_new_checked_check_len. Qed.
Print Assumptions C07_f154_new_checked_check_len.
