(* Property C06 — wire representations survive emit-then-parse unchanged: IEEE 802.15.4 frames
   (src/wire/ieee802154.rs), group ieee154 of the second wave.  Same shape as Props/C06b.v: only the
   property theorems (each closed by [exact]) and [Print Assumptions]; statements are pinned in
   Pins/C06b_ieee154.v.
     f154_emit_no_panic           wf r -> |b| = buffer_len r -> emit r b <> Panic
     f154_emit_ignores_old_bytes  emit r b1 = emit r b2 for buffers of the declared length
     f154_roundtrip               parse (emit r b) = Ok r
     f154_reparse_partial         parse bs = Ok r, for the frames whose frame control word is
                                  [f154_emittable]: wf r /\ parse (emit r b) = Ok r
   [f154_wf] (Model/WireIeee802154.v) is the set of representations the ONE addressing layout of
   Repr::emit / buffer_len carries.  Repr::parse accepts more frames than that; for them the
   re-emission clause is false (f154_reparse_refuted_*, f154_emit_old_bytes_refuted_*: reported
   defects of the crate, not repairable inside ieee802154.rs without changing what the interface
   relies on). *)
From SV Require Import Lib.Base Gen.WireFields Model.WireBase Proofs.WireBaseProofs.
From SV Require Import Model.WireIeee802154 Proofs.WireIeee802154Proofs.

Theorem C06_f154_emit_no_panic : forall r b,
  f154_wf r = true -> blen b = f154_buffer_len r -> f154_emit r b <> Panic.
Proof. exact f154_emit_no_panic. Qed.
Print Assumptions C06_f154_emit_no_panic.

Theorem C06_f154_emit_ignores_old_bytes : forall r b1 b2,
  f154_wf r = true -> blen b1 = f154_buffer_len r -> blen b2 = f154_buffer_len r ->
  f154_emit r b1 = f154_emit r b2.
Proof. exact f154_emit_ignores_old_bytes. Qed.
Print Assumptions C06_f154_emit_ignores_old_bytes.

Theorem C06_f154_roundtrip : forall r b,
  f154_wf r = true -> blen b = f154_buffer_len r ->
  exists bs, f154_emit r b = Ok bs /\ blen bs = f154_buffer_len r /\ f154_parse bs = Ok r.
Proof. exact f154_roundtrip. Qed.
Print Assumptions C06_f154_roundtrip.

(* the octets: frame control word (little endian), sequence number, destination PAN id (little
   endian), destination address reversed, source PAN id unless compressed, source address reversed *)
Theorem C06_f154_emit_spec : forall r b,
  f154_wf r = true -> blen b = f154_buffer_len r -> f154_emit r b = Ok (f154_bytes r).
Proof. exact f154_emit_spec. Qed.
Print Assumptions C06_f154_emit_spec.

Theorem C06_f154_reparse_partial : forall bs r raw,
  bytes_ok bs = true -> f154_parse bs = Ok r -> f154_fc bs = Ok raw -> f154_emittable raw = true ->
  f154_wf r = true /\
  forall b, blen b = f154_buffer_len r ->
    exists bs', f154_emit r b = Ok bs' /\ f154_parse bs' = Ok r.
Proof. exact f154_reparse_partial. Qed.
Print Assumptions C06_f154_reparse_partial.

(* the addressing layouts of f154_wf / f154_emittable, spelled out *)
Theorem C06_f154_wf_table : forall ver dm sm c,
  f154_known_mode dm = true -> f154_known_mode sm = true ->
  f154_layout_ok ver dm sm c =
  (((ver =? 0) || (ver =? 1)) && negb (dm =? 0) && (negb (sm =? 0) || c)) ||
  ((ver =? 2) && (((dm =? 0) && (sm =? 0) && c) ||
                  (negb (dm =? 0) && negb (sm =? 0) && negb ((dm =? 3) && (sm =? 3))))).
Proof. exact f154_wf_table. Qed.
Print Assumptions C06_f154_wf_table.

(* parse accepts frames emit cannot reproduce: no destination PAN id in the layout *)
Theorem C06_f154_reparse_refuted_dst_absent :
  let bs := [0; 144; 7; 205; 171; 52; 18] in
  exists r, bytes_ok bs = true /\ f154_new_checked bs = Ok tt /\ f154_parse bs = Ok r /\
    f154_wf r = false /\
    exists bs', f154_emit r (repeat 0 (Z.to_nat (f154_buffer_len r))) = Ok bs' /\ f154_parse bs' <> Ok r.
Proof. exact f154_reparse_refuted_dst_absent. Qed.
Print Assumptions C06_f154_reparse_refuted_dst_absent.

(* ... an auxiliary security header (the crate's own test vector) *)
Theorem C06_f154_reparse_refuted_security :
  let bs := [105; 220; 50; 205; 171; 191; 155; 21; 6; 0; 75; 18; 0; 199; 217; 181; 20; 0; 75; 18; 0;
             5; 49; 1; 0; 0; 62; 232; 251; 133; 228; 204; 244; 72; 144; 254; 86; 102; 247; 28; 101;
             158; 249; 147; 200; 52; 46] in
  exists r, bytes_ok bs = true /\ f154_new_checked bs = Ok tt /\ f154_parse bs = Ok r /\
    f154_wf r = false /\
    exists bs', f154_emit r (repeat 0 (Z.to_nat (f154_buffer_len r))) = Ok bs' /\ f154_parse bs' = Err 0.
Proof. exact f154_reparse_refuted_security. Qed.
Print Assumptions C06_f154_reparse_refuted_security.

(* ... a frame type without addressing fields: buffer_len reserves octets emit never writes *)
Theorem C06_f154_emit_old_bytes_refuted_no_addressing :
  let bs := [2; 0; 9; 0; 0] in
  exists r, f154_new_checked bs = Ok tt /\ f154_parse bs = Ok r /\ f154_wf r = false /\
    f154_buffer_len r = 7 /\
    f154_emit r [0; 0; 0; 0; 0; 0; 0] <> f154_emit r [255; 255; 255; 255; 255; 255; 255].
Proof. exact f154_emit_old_bytes_refuted_no_addressing. Qed.
Print Assumptions C06_f154_emit_old_bytes_refuted_no_addressing.

(* non-vacuity of the proviso: the representation of the crate's `prepare_frame` test *)
Theorem C06_f154_wf_example :
  f154_wf (mkF154 1 false false true (Some 1) true 2 (Some 43981) (Some (F154Short [255; 255])) None
             (Some (F154Ext [199; 217; 181; 20; 0; 75; 18; 0]))) = true.
Proof. exact f154_wf_example. Qed.
Print Assumptions C06_f154_wf_example.
