(* Property C15 — the reassembly tracker is an exact, bounded set of byte ranges.
   This file contains only the property theorems (each closed by [exact]) and
   [Print Assumptions]; statements are pinned in Pins/C15.v. *)
From SV Require Import Lib.Base Gen.Consts Model.Assembler Proofs.AssemblerProofs.

(* Every reachable tracker (any op sequence, any capacity n >= 1): well-formed, at most n
   ranges, and the reported ranges are sorted, non-empty and separated by gaps (merged). *)
Theorem C15_invariant_all_sequences : forall n ops,
  1 <= n -> Forall op_args_ok ops ->
  let l := asm_run n asm_new ops in
  asm_wf l /\ Z.of_nat (length l) <= n /\
  Z.of_nat (length (asm_iter_data l)) <= n /\ ranges_canonical 0 false (asm_iter_data l).
Proof. exact c15_invariant. Qed.
Print Assumptions C15_invariant_all_sequences.

(* A successful insertion reports exactly the union. *)
Theorem C15_add_union : forall n l o s l',
  asm_wf l -> 0 <= o -> 0 <= s -> asm_add n l o s = (l', true) ->
  asm_wf l' /\ forall x, tracked l' x <-> tracked l x \/ o <= x < o + s.
Proof. exact c15_add_union. Qed.
Print Assumptions C15_add_union.

(* A refused insertion leaves the tracker unchanged and happens only when every
   merged representation of the union needs more than n ranges. *)
Theorem C15_add_refused_only_when_too_many : forall n l o s l',
  asm_wf l -> Z.of_nat (length l) <= n -> 0 <= o -> 0 <= s ->
  asm_add n l o s = (l', false) ->
  l' = l /\
  forall u, asm_wf u -> (forall x, tracked u x <-> tracked l x \/ o <= x < o + s) ->
            Z.of_nat (length u) > n.
Proof. exact c15_add_refused. Qed.
Print Assumptions C15_add_refused_only_when_too_many.

(* ... and conversely: if the union fits in n ranges the insertion is accepted. *)
Theorem C15_add_accepts_when_fits : forall n l o s u,
  asm_wf l -> 0 <= o -> 0 <= s ->
  asm_wf u -> (forall x, tracked u x <-> tracked l x \/ o <= x < o + s) ->
  Z.of_nat (length u) <= n ->
  snd (asm_add n l o s) = true.
Proof. exact c15_add_accepts_when_fits. Qed.
Print Assumptions C15_add_accepts_when_fits.

(* The merged representation is unique: two well-formed trackers reporting the same set
   are equal, so "reports exactly the union, merged" determines iter_data. *)
Theorem C15_canonical : forall l1 l2,
  asm_wf l1 -> asm_wf l2 -> (forall x, amem 0 l1 x <-> amem 0 l2 x) -> l1 = l2.
Proof. exact canon_unique. Qed.
Print Assumptions C15_canonical.

(* Front removal returns the maximal run at offset 0 and shifts the rest. *)
Theorem C15_remove_front : forall l l' r,
  asm_wf l -> asm_remove_front l = (l', r) ->
  asm_wf l' /\ 0 <= r /\
  (r = 0 -> l' = l /\ ~ tracked l 0) /\
  (0 < r -> (forall x, 0 <= x < r -> tracked l x) /\ ~ tracked l r /\
            forall x, tracked l' x <-> tracked l (x + r) /\ 0 <= x).
Proof. exact c15_remove_front. Qed.
Print Assumptions C15_remove_front.

(* add_then_remove_front = insertion (of the union) followed by front removal; it is
   refused only for offset <> 0 when the union needs more than n ranges. *)
Theorem C15_add_then_remove_front : forall n l o s l' res,
  asm_wf l -> Z.of_nat (length l) <= n -> 1 <= n -> 0 <= o -> 0 <= s ->
  asm_atrf n l o s = (l', res) ->
  match res with
  | Some r =>
      exists u, asm_wf u /\ (forall x, tracked u x <-> tracked l x \/ o <= x < o + s) /\
                asm_remove_front u = (l', r)
  | None =>
      o <> 0 /\ l' = l /\
      forall u, asm_wf u -> (forall x, tracked u x <-> tracked l x \/ o <= x < o + s) ->
                Z.of_nat (length u) > n
  end.
Proof. exact c15_atrf. Qed.
Print Assumptions C15_add_then_remove_front.

Theorem C15_atrf_offset0_never_fails : forall n l s,
  asm_wf l -> Z.of_nat (length l) <= n -> 1 <= n -> 0 <= s ->
  snd (asm_atrf n l 0 s) <> None.
Proof. exact c15_atrf_offset0_never_fails. Qed.
Print Assumptions C15_atrf_offset0_never_fails.

Theorem C15_clear : forall l, asm_clear l = asm_new /\ forall x, ~ tracked asm_new x.
Proof. exact c15_clear. Qed.
Print Assumptions C15_clear.

(* Non-vacuity: a reachable, full tracker satisfying every hypothesis above. *)
Theorem C15_example :
  let l := asm_run 4 asm_new c15_example_ops in
  asm_iter_data l = [(2, 4); (6, 7); (10, 13); (20, 25)] /\
  asm_wf l /\ Z.of_nat (length l) <= 4 /\
  snd (asm_add 4 l 15 1) = false /\
  asm_atrf 4 l 0 1 = ([mkContig 1 2; mkContig 2 1; mkContig 3 3; mkContig 7 5], Some 1) /\
  snd (asm_atrf 4 l 0 2) = Some 4.
Proof. exact c15_example. Qed.
Print Assumptions C15_example.

(* Tie to the source: the capacity configured by build.rs (regenerated into Gen/Consts.v on
   every run) satisfies the side condition 1 <= n of the theorems above. *)
Theorem C15_configured_capacity : 1 <= cfg_ASSEMBLER_MAX_SEGMENT_COUNT.
Proof. vm_compute. discriminate. Qed.
Print Assumptions C15_configured_capacity.
