(* Property C03, the "fail to return" clause for the TCP socket: a burst of dispatches at one fixed
   instant terminates, so the egress loop of Interface::poll returns; ingress answers one segment
   with at most one segment.  Only theorems closed by [exact] and [Print Assumptions]; statements
   pinned in Pins/C03tcp.v.  Definitions: Proofs/TcpBurstBase.v (measure [mu], bound [burst_bound],
   hypotheses [sinv] [rx_ok] [ka_pos] [mtu_ok]), Proofs/TcpBurstProofs.v ([binv], [burst_run]).

   [binv cx s] = the context is sane (32-bit ISN; MTU > IPv4 + TCP header + 12, implied by the
   RFC 791 minimum of 68), the C02 invariant [tcp_live_inv] and the C05 sender invariant [inv] hold,
   [sinv] (probe timer only with octets queued and a positive back-off; remote MSS >= MIN_REMOTE_MSS;
   the SYN|ACK-unacknowledged flag only in FIN-WAIT-1), [rx_ok] (window shift >= 0, free receive
   space < 2^31) and [ka_pos] (the keep-alive interval is not Some 0). *)
From SV Require Import Lib.Base Gen.Consts.
From SV Require Import Model.Seq32 Model.Assembler Model.TcpBuf Model.TcpTypes Model.Tcp.
From SV Require Import Proofs.TcpSendBase Proofs.TcpSendInv Proofs.TcpLiveBase Proofs.TcpLiveProofs.
From SV Require Import Proofs.TcpBurstBase Proofs.TcpBurstStep Proofs.TcpBurstEmit Proofs.TcpBurstProofs.
From SV Require Import Model.EgressLoop Proofs.EgressLoopProofs Proofs.TcpBurstLoop.
From SV Require Import Proofs.TcpBurstExamples Proofs.TcpBurstInv.
From SV Require Import Proofs.AssemblerProofs Proofs.TcpRecvBase Proofs.TcpRecvWindow Proofs.TcpRecvPayload Proofs.TcpRecvInv Proofs.TcpBurstRx.
From SV Require Import Proofs.TcpSendTrace.

(* One dispatch that emitted a frame (device accepted it) strictly decreases the measure, and the
   hypotheses hold again afterwards (or the socket has forgotten its connection: RST sent). *)
Theorem C03_tcp_burst_step : forall cx s s' p tags,
  binv cx s -> tcp_dispatch cx s true = Ok (s', DSent p, tags) ->
  mu cx s' < mu cx s /\ (s_tuple s' = None \/ binv cx s').
Proof. exact burst_step. Qed.
Print Assumptions C03_tcp_burst_step.

(* The measure is a natural number below the closed bound
     burst_bound cx s = 6 + ceil (max 0 (min peer_window tx_queue_length) / effective_MSS)
   where effective_MSS = min (MTU - 40) remote_mss - (12 if timestamps) >= 1. *)
Theorem C03_tcp_burst_measure_bounds : forall cx s,
  binv cx s -> 0 <= mu cx s <= burst_bound cx s.
Proof. exact mu_bounds. Qed.
Print Assumptions C03_tcp_burst_measure_bounds.

(* At one fixed instant (same context), with a device that accepts every frame and neither ingress
   nor API calls in between, at most [mu cx s] <= [burst_bound cx s] consecutive dispatches emit. *)
Theorem C03_tcp_egress_burst_terminates : forall cx s n s',
  binv cx s -> burst_run cx s n s' ->
  Z.of_nat n <= mu cx s /\ mu cx s <= burst_bound cx s.
Proof. exact tcp_egress_burst_terminates. Qed.
Print Assumptions C03_tcp_egress_burst_terminates.

(* The egress loop of Interface::poll for the socket (Model/Tcp.v [iface_poll_egress]: dispatch
   until nothing is emitted or the device refuses a frame) sends at most [mu cx s] frames and, with
   more fuel than [burst_bound cx s], ends by itself - for every device budget. *)
Theorem C03_tcp_poll_egress_returns : forall fuel cx s budget s' sent tags fin,
  binv cx s ->
  iface_poll_egress fuel cx s budget = Ok (s', sent, tags, fin) ->
  Z.of_nat (length sent) <= mu cx s /\ mu cx s <= burst_bound cx s /\
  (burst_bound cx s < Z.of_nat fuel -> fin = true).
Proof. exact tcp_poll_egress_returns. Qed.
Print Assumptions C03_tcp_poll_egress_returns.

(* Ingress: one received segment produces at most one reply, and that reply carries neither payload
   nor SYN/FIN (a bare ACK or an RST), for EVERY socket value and segment. *)
Theorem C03_tcp_ingress_reply_bounded : forall cx s ip r s' reply tags,
  iface_tcp_ingress cx s ip r = Ok (s', reply, tags) ->
  (length (replies reply) <= 1)%nat /\
  forall p, reply = Some p ->
    r_payload (snd p) = [] /\ (r_control (snd p) = CNone \/ r_control (snd p) = CRst).
Proof. exact tcp_ingress_reply_bounded. Qed.
Print Assumptions C03_tcp_ingress_reply_bounded.

(* Non-vacuity: a socket reached from tcp_new (connect, SYN, SYN|ACK with MSS option 1 -> clamped to
   MIN_REMOTE_MSS = 48, Nagle off, 200 octets written) satisfies every hypothesis; the egress loop
   sends exactly five segments (48, 48, 48, 48, 8 octets) and ends by itself; mu = 7 <= 11. *)
Theorem C03_tcp_burst_example :
  binv (bx_cx 1000 1500) ex1 /\
  s_state ex1 = Established /\ rb_len (s_tx_buffer ex1) = 200 /\ s_remote_mss ex1 = 48 /\
  mu (bx_cx 1000 1500) ex1 = 7 /\ burst_bound (bx_cx 1000 1500) ex1 = 11 /\
  ex1_poll = Some ([48; 48; 48; 48; 8], true, 1).
Proof. exact burst_example. Qed.
Print Assumptions C03_tcp_burst_example.

(* The hypothesis on the keep-alive interval is necessary: a reachable ESTABLISHED socket that
   satisfies every other hypothesis, with set_keep_alive(Some(0)), emits a keep-alive on EVERY
   dispatch - bursts of every length exist (Interface::poll never returns; reproduced on the real
   socket: `ret LIVELOCK`). *)
Theorem C03_tcp_burst_keep_alive_zero_refuted :
  exists cx s, binv_core cx s /\ mtu_ok cx /\ s_keep_alive s = Some 0 /\
               forall n, exists s', burst_run cx s n s'.
Proof. exact burst_keep_alive_zero_refuted. Qed.
Print Assumptions C03_tcp_burst_keep_alive_zero_refuted.

(* The hypothesis on the MTU is necessary: with an interface MTU of 52 and TCP timestamps the
   effective MSS is 0 and a socket with octets queued emits an empty segment on every dispatch. *)
Theorem C03_tcp_burst_small_mtu_refuted :
  exists cx s, binv_core cx s /\ ka_pos s /\ cx_ip_mtu cx = 52 /\ emss cx s = 0 /\
               forall n, exists s', burst_run cx s n s'.
Proof. exact burst_small_mtu_refuted. Qed.
Print Assumptions C03_tcp_burst_small_mtu_refuted.

(* The socket-side hypotheses hold in every reachable state: sockets built by tcp_new (sane
   congestion controller, transmit buffer <= 2^30 octets) and driven by ANY sequence of API calls,
   parsed segments and dispatches satisfy the C02 invariant, the C05 invariant and [sinv] (whose
   probe-timer clause is what the repair of D19, /repo 1789dc0, established). *)
Theorem C03_tcp_burst_reachable_inv : forall s, burst_reach s ->
  tcp_live_inv s /\ (exists g, inv g s) /\ sinv s.
Proof. exact burst_reach_inv. Qed.
Print Assumptions C03_tcp_burst_reachable_inv.

(* [sinv]'s two clauses that are not part of C05's invariant are preserved by every single event. *)
Theorem C03_tcp_burst_sinv_step : forall cx s ev s' out tags,
  TcpLiveProofs.ctx_ok cx -> ev_ok ev -> tcp_live_inv s -> sinv13 s ->
  tcp_step cx s ev = Ok (s', out, tags) -> sinv13 s'.
Proof. exact step_sinv13. Qed.
Print Assumptions C03_tcp_burst_sinv_step.

(* For reachable sockets the egress loop returns: what remains as hypotheses are the receive-side
   arithmetic fact [rx_ok] (part of C04's receiver invariant, next two theorems) and the two
   user/device-settable ones. *)
Theorem C03_tcp_poll_egress_returns_reachable : forall fuel cx s budget s' sent tags fin,
  burst_reach s -> TcpSendInv.ctx_ok cx -> mtu_ok cx -> rx_ok s -> ka_pos s ->
  iface_poll_egress fuel cx s budget = Ok (s', sent, tags, fin) ->
  Z.of_nat (length sent) <= burst_bound cx s /\
  (burst_bound cx s < Z.of_nat fuel -> fin = true).
Proof. exact tcp_poll_egress_returns_reachable. Qed.
Print Assumptions C03_tcp_poll_egress_returns_reachable.

Theorem C03_tcp_rx_ok_of_synced : forall S F have irs c s,
  rx_synced S F have irs c s -> rx_ok s.
Proof. exact rx_ok_of_synced. Qed.
Print Assumptions C03_tcp_rx_ok_of_synced.

Theorem C03_tcp_rx_ok_of_unsynced : forall s, rx_unsynced s -> rx_ok s.
Proof. exact rx_ok_of_unsynced. Qed.
Print Assumptions C03_tcp_rx_ok_of_unsynced.

(* A dispatch that does NOT emit - nothing to send, or the emit closure refused the frame (device
   exhausted, neighbor missing, fragmenter busy; [e] = false) - never increases the measure and keeps
   the hypotheses.  The real dispatch runs its timer-driven part (retransmission rewind, rtte / cc
   on_retransmit, timeout -> CLOSED) before the emit closure and keeps those changes when the emit
   fails; [mu] is evaluated after that part, so a refused emit cannot raise it. *)
Theorem C03_tcp_silent_step : forall cx s e s' out tags,
  binv cx s -> tcp_dispatch cx s e = Ok (s', out, tags) -> (forall p, out <> DSent p) ->
  mu cx s' <= mu cx s /\ (s_tuple s' = None \/ binv cx s').
Proof. exact burst_silent_step. Qed.
Print Assumptions C03_tcp_silent_step.

(* Several TCP sockets sharing one poll: instance of C03_egress_loop_shared_env_returns
   (Model/EgressLoop.v [poll_loop2]).  The shared environment E (device transmit budget, neighbor
   cache, fragmenter) decides for every dispatch whether the emit closure succeeds ([can_emit]) and
   whether a refusal is an exhausted device ([exhausted]: the pass over the sockets breaks); [pre] is
   what the interface itself does before each pass; all three are arbitrary.  For every list of
   sockets that have no connection or satisfy [binv], and more fuel than the sum of their burst
   bounds, the loop returns after at most that many emitting passes. *)
Theorem C03_tcp_socket_set_egress_returns :
  forall (E : Type) (can_emit : E -> socket -> bool * E) (exhausted : E -> socket -> bool)
         (pre : E -> E) (cx : ctx) fuel e ss,
  Forall (sock_inv cx) ss -> (sum_bound cx ss < fuel)%nat ->
  exists e' r n,
    poll_loop2 E socket (tcp_dispatch2 E can_emit exhausted cx) pre fuel e ss = Some (e', r, n) /\
    (n <= sum_bound cx ss)%nat /\ length r = length ss /\ Forall (sock_inv cx) r.
Proof. exact tcp_socket_set_egress_returns. Qed.
Print Assumptions C03_tcp_socket_set_egress_returns.

(* Non-vacuity: two connected sockets (each with five segments to send) and a closed one behind a
   device with a transmit budget: with 100 tokens the loop makes five emitting passes (ten frames);
   with 3 tokens the second pass breaks at the exhausted device and the third emits nothing. *)
Theorem C03_tcp_socket_set_example :
  Forall (sock_inv (bx_cx 1000 1500)) set3 /\
  sum_bound (bx_cx 1000 1500) set3 = 28%nat /\
  set3_poll 100 = Some (90%nat, 5%nat, [1; 0; 1]) /\
  set3_poll 3 = Some (0%nat, 2%nat, [4; 0; 5]).
Proof. exact socket_set_example. Qed.
Print Assumptions C03_tcp_socket_set_example.
