(* Property C18 — the DHCPv4 client never uses an address beyond its lease.
   Only the property theorems (each closed by [exact]) and [Print Assumptions]; statements are pinned in Pins/C18.v.

   Vocabulary (Model/Dhcp.v, Proofs/DhcpProofs.v):
   * [dhcp_call] = one call of the socket's API by the interface or the application (process with the parsed
     datagram, dispatch with the random xid on offer and whether the device/neighbor lets the frame out, poll, reset,
     setters); [dhcp_run hw calls] = socket state and observer after the history [calls] from Socket::new
     (a call that panics ends the history).  [call_typed] only says that arguments lie in their Rust types.
   * [request_sent_by hw pre c = Some x]: call c, made after history pre, put a DHCPREQUEST with xid x on the wire;
     [ack_received_by hw pre c = Some (t, r, l)]: c handed the socket at time t a DHCPACK r with own hardware address,
     a server identifier, a contiguous mask, a unicast address and the xid of the most recent REQUEST sent in pre;
     l = min(lease of r (default 120 s), max_lease setting then). *)
From SV Require Import Lib.Base Gen.Consts Model.Dhcp Proofs.DhcpProofs.

(* The invariant behind everything below holds after EVERY history. *)
Theorem C18_invariant_all_histories : forall hw calls, Forall call_typed calls ->
  dhcp_inv hw (fst (dhcp_run hw calls)) (snd (dhcp_run hw calls)).
Proof. exact dhcp_inv_run. Qed.
Print Assumptions C18_invariant_all_histories.

(* configured_only_by_valid_ack: every clause of the property text. *)
Theorem C18_configured_only_by_valid_ack : forall hw calls, Forall call_typed calls ->
  forall c pk, snd (dhcp_poll (fst (dhcp_run hw calls))) = Some (EvConfigured c pk) ->
  exists calls1 calls2 t src sp dp r l,
    calls = calls1 ++ CProcess t src sp dp (Some r) :: calls2 /\
    ack_received_by hw calls1 (CProcess t src sp dp (Some r)) = Some (t, r, l) /\
    cfg_from_ack c r /\
    ack_clauses hw r /\
    (exists calls0 d calls01, calls1 = calls0 ++ d :: calls01 /\
        request_sent_by hw calls0 d = Some (r_transaction_id r) /\
        forall x d' y, calls01 = x ++ d' :: y -> request_sent_by hw (calls0 ++ d :: x) d' = None) /\
    (forall x d' y, calls2 = x ++ d' :: y ->
        ack_received_by hw (calls1 ++ CProcess t src sp dp (Some r) :: x) d' = None).
Proof. exact c18_configured_only_by_valid_ack. Qed.
Print Assumptions C18_configured_only_by_valid_ack.

(* the clauses, spelled out *)
Theorem C18_ack_clauses_meaning : forall hw pre c t r l,
  ack_received_by hw pre c = Some (t, r, l) ->
  (exists src sp dp, c = CProcess t src sp dp (Some r)) /\
  (r_message_type r = MtAck /\
   r_client_hardware_address r = hw /\
   (exists sid, r_server_identifier r = Some sid) /\
   (exists mask p, r_subnet_mask r = Some mask /\ 0 <= p <= 32 /\ mask = ip_netmask p) /\
   ip_x_is_unicast (r_your_ip r) = true) /\
  m_last_req (snd (dhcp_run hw pre)) = Some (r_transaction_id r) /\
  l = dhcp_lease_duration r (m_max_lease (snd (dhcp_run hw pre))).
Proof. exact ack_received_by_spec. Qed.
Print Assumptions C18_ack_clauses_meaning.

(* lease_bound: while configured, expires_at = t_ack + min(lease, max_lease) of the most recent such ACK,
   and poll_at never exceeds it. *)
Theorem C18_lease_bound : forall hw calls, Forall call_typed calls ->
  forall cfg ra rb rbg e, ds_state (fst (dhcp_run hw calls)) = Renewing cfg ra rb rbg e ->
  exists calls1 calls2 t src sp dp r l,
    calls = calls1 ++ CProcess t src sp dp (Some r) :: calls2 /\
    ack_received_by hw calls1 (CProcess t src sp dp (Some r)) = Some (t, r, l) /\
    (forall x d' y, calls2 = x ++ d' :: y ->
        ack_received_by hw (calls1 ++ CProcess t src sp dp (Some r) :: x) d' = None) /\
    cfg_from_ack cfg r /\
    l = dhcp_lease_duration r (m_max_lease (snd (dhcp_run hw calls1))) /\
    e = t + l /\ dhcp_poll_at (fst (dhcp_run hw calls)) <= e.
Proof. exact c18_lease_bound. Qed.
Print Assumptions C18_lease_bound.

(* the first dispatch at or after expiry drops the lease: the next poll() is Deconfigured (every socket value) *)
Theorem C18_expiry_deconfigures : forall s cfg ra rb rbg e mtu now xid emit s' res,
  ds_state s = Renewing cfg ra rb rbg e -> e <= now ->
  dhcp_dispatch mtu now xid emit s = Ok (s', res) ->
  (exists ra', ds_state s' = Discovering ra') /\
  snd (dhcp_poll s') = Some EvDeconfigured /\
  (0 <= now -> (forall f, emit f = true) -> exists f, res = DrSent f /\ tx_message_type f = MtDiscover).
Proof. exact c18_expiry_deconfigures. Qed.
Print Assumptions C18_expiry_deconfigures.

(* renew_before_rebind_before_expiry: for ALL lease / T1 / T2 / max_lease values ... *)
Theorem C18_t1_t2_order_all_values : forall now r ml server c ra rb e,
  repr_typed r -> (forall m, ml = Some m -> 0 <= m) ->
  dhcp_parse_ack now r ml server = Ok (Some (c, ra, rb, e)) ->
  now <= ra /\ ra <= rb /\ rb <= e /\ e = now + dhcp_lease_duration r ml.
Proof. exact c18_t1_t2_order. Qed.
Print Assumptions C18_t1_t2_order_all_values.

(* ... and in every reachable state, with what each renewal transmission looks like *)
Theorem C18_renew_before_rebind_before_expiry : forall hw calls, Forall call_typed calls ->
  forall cfg ra rb rbg e, ds_state (fst (dhcp_run hw calls)) = Renewing cfg ra rb rbg e ->
  (rbg = false -> ra <= rb /\ rb <= e) /\
  forall mtu now xid emit s' f,
    dhcp_dispatch mtu now xid emit (fst (dhcp_run hw calls)) = Ok (s', DrSent f) ->
    tx_message_type f = MtRequest ->
    now < e /\
    exists ra' rb', ds_state s' = Renewing cfg ra' rb' (rbg || (rb <=? now)) e /\
      if rbg || (rb <=? now)
      then tx_dst_addr f = ip_BROADCAST
      else ra <= now /\ now < rb /\ tx_dst_addr f = si_address (cf_server cfg) /\ ra' <= rb /\ rb' = rb.
Proof. exact c18_renew_before_rebind_before_expiry. Qed.
Print Assumptions C18_renew_before_rebind_before_expiry.

(* solicits_at_bounded_intervals (1): the deadline of an unconfigured client is never later than
   max(latest timestamp it was given, instant of its last transmission + solicit_bound(configuration then)) *)
Theorem C18_solicits_at_bounded_intervals : forall hw calls, Forall call_typed calls ->
  let s := fst (dhcp_run hw calls) in let m := snd (dhcp_run hw calls) in
  dhcp_unconfigured s -> dhcp_poll_at s <= Z.max (m_clock m) (m_deadline m).
Proof. exact c18_solicit_deadline. Qed.
Print Assumptions C18_solicits_at_bounded_intervals.

(* (2): polled at or after the deadline on a device that takes the frame, it always transmits a DISCOVER/REQUEST and
   re-arms within  solicit_bound rc = max(discover_timeout, initial_request_timeout * 2^((request_retries-1)/2)) *)
Theorem C18_solicit_when_due : forall s mtu now xid emit s' res,
  dhcp_unconfigured s -> retry_cfg_typed (ds_retry_config s) ->
  (match ds_state s with Requesting _ retry _ _ => 0 <= retry | _ => True end) ->
  dhcp_poll_at s <= now -> 0 <= now -> (forall f, emit f = true) ->
  dhcp_dispatch mtu now xid emit s = Ok (s', res) ->
  exists f, res = DrSent f /\ tx_client_ip f = 0 /\ tx_dst_addr f = ip_BROADCAST /\
    (tx_message_type f = MtDiscover \/ tx_message_type f = MtRequest) /\
    dhcp_unconfigured s' /\ dhcp_poll_at s' <= now + solicit_bound (ds_retry_config s).
Proof. exact c18_solicit_when_due. Qed.
Print Assumptions C18_solicit_when_due.

(* dispatch_no_panic (and every other call): timestamps in [0, 2^62 us), retry configuration with
   request_retries <= 128 and a back-off below 2^62 us, MTU >= 68, process() called with the socket's ports *)
Theorem C18_no_panic : forall hw calls c,
  Forall call_sane calls -> ports_ok hw [] calls ->
  call_sane c -> ports_match (fst (dhcp_run hw calls)) c ->
  dhcp_call_step hw (fst (dhcp_run hw calls)) c <> Panic.
Proof. exact c18_no_panic. Qed.
Print Assumptions C18_no_panic.

Theorem C18_dispatch_no_panic : forall hw calls mtu now xid emit,
  Forall call_sane calls -> ports_ok hw [] calls ->
  time_ok now -> dhcp_MAX_IPV4_HEADER_LEN + wudp_HEADER_LEN <= mtu ->
  dhcp_dispatch mtu now xid emit (fst (dhcp_run hw calls)) <> Panic.
Proof. exact c18_dispatch_no_panic. Qed.
Print Assumptions C18_dispatch_no_panic.

(* outside those bounds the `<<` overflow is reachable (request_retries = 200, initial_request_timeout = 0) *)
Theorem C18_shift_overflow_reachable :
  Forall call_typed ex_overflow_calls /\
  dhcp_call_step 1 (fst (dhcp_run 1 ex_overflow_calls)) (CDispatch 1500 0 78 true) = Panic.
Proof. exact c18_shift_overflow_reachable. Qed.
Print Assumptions C18_shift_overflow_reachable.

(* interface level (Interface::poll + socket.poll() on the glue model): Deconfigured by the first poll at or after
   expiry — except in the known class d14b-expiry-while-neighbor-silenced, which is not empty *)
Theorem C18_iface_expiry_deconfigures_unless_silenced : forall xid_of hw mtu apply now i cfg ra rb rbg e i' obs,
  ds_state (if_sock i) = Renewing cfg ra rb rbg e -> e <= now ->
  if_rxq i = [] ->
  ~ dhif_silenced i now ->
  dhif_poll xid_of hw mtu apply now i = (i', obs) -> obs <> [ObPanic] ->
  In (ObEvent (Some EvDeconfigured)) obs.
Proof. exact c18_iface_expiry_deconfigures_unless_silenced. Qed.
Print Assumptions C18_iface_expiry_deconfigures_unless_silenced.

Theorem C18_iface_expiry_refuted_when_silenced :
  (exists cfg ra rb rbg, ds_state (if_sock ex_d14b_state) = Renewing cfg ra rb rbg 10002000) /\
  if_rxq ex_d14b_state = [] /\
  dhif_silenced ex_d14b_state 10002000 /\
  snd (dhif_poll ex_xid_of 1 1500 true 10002000 ex_d14b_state) = [ObEvent None; ObPollAt 10500000].
Proof. exact c18_iface_expiry_refuted_when_silenced. Qed.
Print Assumptions C18_iface_expiry_refuted_when_silenced.

(* reset() (also mid-lease) and the run-time setters (ports, max lease None->Some->None, retry config, NAK policy,
   receive buffer) never let an address outlive its lease: reset drops it and the next poll() says so; the setters do not
   touch the phase, its timers or the pending event.  (They are calls of the histories quantified over above, so
   C18_lease_bound / C18_configured_only_by_valid_ack hold across them.)  set_outgoing_options and
   set_parameter_request_list only change option bytes of emitted messages, which the model does not carry. *)
Theorem C18_reset_and_setters_never_extend_lease : forall s,
  ds_state (dhcp_reset s) = Discovering 0 /\
  (forall cfg ra rb rbg e, ds_state s = Renewing cfg ra rb rbg e ->
     snd (dhcp_poll (dhcp_reset s)) = Some EvDeconfigured) /\
  (forall sp cp, ds_state (dhcp_set_ports s sp cp) = ds_state s /\
                 ds_config_changed (dhcp_set_ports s sp cp) = ds_config_changed s) /\
  (forall m, ds_state (dhcp_set_max_lease_duration s m) = ds_state s /\
             ds_config_changed (dhcp_set_max_lease_duration s m) = ds_config_changed s) /\
  (forall c, ds_state (dhcp_set_retry_config s c) = ds_state s /\
             ds_config_changed (dhcp_set_retry_config s c) = ds_config_changed s) /\
  (forall b, ds_state (dhcp_set_ignore_naks s b) = ds_state s /\
             ds_config_changed (dhcp_set_ignore_naks s b) = ds_config_changed s) /\
  (ds_state (dhcp_set_receive_packet_buffer s) = ds_state s /\
   ds_config_changed (dhcp_set_receive_packet_buffer s) = ds_config_changed s).
Proof. exact c18_reset_and_setters. Qed.
Print Assumptions C18_reset_and_setters_never_extend_lease.

(* Non-vacuity: DISCOVER -> OFFER -> REQUEST -> ACK -> Configured -> renew -> rebind -> expiry -> Deconfigured *)
Theorem C18_example :
  Forall call_typed ex_calls /\ Forall call_sane ex_calls /\ ports_ok 1 [] ex_calls /\
  map dhcp_ret_summary (dhcp_rets 1 dhcp_new ex_calls) =
    [ (1, 77, ip_BROADCAST); (20, 0, 0); (3, 77, ip_BROADCAST); (20, 0, 0); (10, ex_ip, 24);
      (0, 0, 0); (3, 79, ex_srv); (3, 80, ip_BROADCAST); (0, 0, 0); (1, 81, ip_BROADCAST); (11, 0, 0) ] /\
  m_ack (snd (dhcp_run 1 ex_calls)) = Some (2000, ex_ack, 10000000) /\
  m_last_req (snd (dhcp_run 1 ex_calls)) = Some 80.
Proof. exact c18_example. Qed.
Print Assumptions C18_example.
