(* Property C08 — Internet checksums are computed correctly, emitted valid and enforced.
   This file contains only the property theorems (each closed by [exact]) and
   [Print Assumptions]; statements are pinned in Pins/C08.v.

   Vocabulary (Proofs/ChecksumProofs.v): [bytes l] every element in 0..255; [rfc1071_sum l] the
   RFC 1071 one's-complement sum (end-around carry, [oc_add]) of the big-endian 16-bit words of l,
   odd tail padded with a zero octet; [cksum_max_len] = 131074 bytes, the largest length for which
   the u32 accumulator provably cannot overflow; [dbg] overflow-checks on/off, [be] endianness of
   the machine; [flip_at l i k] l with bit k of byte i inverted; [addr_ok] = 4- or 16-byte address. *)
From SV Require Import Lib.Base Gen.WireFields Model.Checksum Proofs.ChecksumProofs.

(* propagate_carries: neither intermediate addition overflows its type, the result is a u16,
   congruent to the argument modulo 65535, and zero only for zero. *)
Theorem C08_propagate_carries_no_overflow : forall w, 0 <= w <= cksum_u32_MAX ->
  let sum := Z.shiftr w 16 + Z.land w 65535 in
  0 <= sum <= 131070 /\
  0 <= (Z.shiftr sum 16) mod 65536 + sum mod 65536 <= 65535 /\
  0 <= cksum_propagate_carries w <= 65535 /\
  cksum_propagate_carries w mod 65535 = w mod 65535 /\
  (cksum_propagate_carries w = 0 <-> w = 0).
Proof. exact propagate_carries_no_overflow. Qed.
Print Assumptions C08_propagate_carries_no_overflow.

(* `data` = RFC 1071 for every content and every length up to 131074 bytes (so for every length
   0..=65535 of the property), on little- and big-endian machines, with and without overflow
   checks; chunking (4-byte chunks, 2-byte tail, odd byte) does not matter.  Alignment does not
   enter: the code reads bytes (as_chunks / from_ne_bytes), never casts pointers. *)
Theorem C08_data_eq_rfc1071 : forall dbg be l, bytes l -> Z.of_nat (length l) <= cksum_max_len ->
  cksum_data dbg be l = Ok (rfc1071_sum l).
Proof. exact data_eq_rfc1071. Qed.
Print Assumptions C08_data_eq_rfc1071.

(* beyond the bound: still RFC 1071 unless the u32 accumulator overflows; then debug builds
   panic and release builds return the fold of the wrapped accumulator (wrong, see C08_bound_sharp) *)
Theorem C08_data_beyond_bound : forall dbg be l, bytes l ->
  cksum_data dbg be l =
    if cksum_accum be l <=? cksum_u32_MAX then Ok (rfc1071_sum l)
    else if dbg then Panic
    else Ok (cksum_u16_to_be be (cksum_propagate_carries (cksum_accum be l mod 4294967296))).
Proof. exact data_beyond_bound. Qed.
Print Assumptions C08_data_beyond_bound.

Theorem C08_bound_sharp :
  let ff n := repeat 255 (Z.to_nat n) in
  cksum_accum false (ff 131074) = cksum_u32_MAX /\
  cksum_data true false (ff 131074) = Ok 65535 /\
  cksum_data true false (ff 131076) = Panic /\
  cksum_data false false (ff 131076) = Ok 65279 /\
  cksum_data false true (ff 131076) = Ok 65534 /\
  rfc1071_sum (ff 131076) = 65535.
Proof. exact c08_bound_sharp. Qed.
Print Assumptions C08_bound_sharp.

(* combine: n-ary one's-complement addition — associative, commutative, and compatible with
   splitting the data at any even offset *)
Theorem C08_combine_assoc : forall a b c, 0 <= a <= 65535 -> 0 <= b <= 65535 -> 0 <= c <= 65535 ->
  cksum_combine [cksum_combine [a; b]; c] = cksum_combine [a; cksum_combine [b; c]] /\
  cksum_combine [cksum_combine [a; b]; c] = cksum_combine [a; b; c].
Proof. exact combine_assoc. Qed.
Print Assumptions C08_combine_assoc.

Theorem C08_combine_app : forall a b, words16 a -> words16 b ->
  Z.of_nat (length a) <= 65537 -> Z.of_nat (length b) <= 65537 ->
  Z.of_nat (length (a ++ b)) <= 65537 ->
  cksum_combine (a ++ b) = cksum_combine [cksum_combine a; cksum_combine b].
Proof. exact combine_app. Qed.
Print Assumptions C08_combine_app.

Theorem C08_combine_comm : forall a b, Permutation.Permutation a b -> cksum_combine a = cksum_combine b.
Proof. exact combine_perm. Qed.
Print Assumptions C08_combine_comm.

Theorem C08_combine_is_rfc1071_fold : forall ws, words16 ws -> Z.of_nat (length ws) <= 65537 ->
  cksum_combine ws = fold_left oc_add ws 0.
Proof. exact combine_is_fold. Qed.
Print Assumptions C08_combine_is_rfc1071_fold.

Theorem C08_combine_data_app : forall dbg be l1 l2 d1 d2, bytes l1 -> bytes l2 ->
  Nat.even (length l1) = true -> Z.of_nat (length (l1 ++ l2)) <= cksum_max_len ->
  cksum_data dbg be l1 = Ok d1 -> cksum_data dbg be l2 = Ok d2 ->
  cksum_data dbg be (l1 ++ l2) = Ok (cksum_combine [d1; d2]).
Proof. exact combine_data_app. Qed.
Print Assumptions C08_combine_data_app.

(* pseudo_header (v4 and v6) = RFC 1071 sum of src ++ dst ++ [0; proto; len_hi; len_lo];
   mixed address families panic (unreachable!()) *)
Theorem C08_pseudo_header_rfc : forall dbg be src dst nh len,
  addr_ok src -> addr_ok dst -> same_family src dst -> 0 <= nh < 256 ->
  cksum_pseudo_header dbg be src dst nh len = Ok (rfc1071_sum (pseudo_bytes src dst nh len)).
Proof. exact pseudo_header_rfc. Qed.
Print Assumptions C08_pseudo_header_rfc.

(* verify = "the RFC 1071 sum over pseudo header ++ segment is 0xffff" *)
Theorem C08_tcp_verify_rfc : forall dbg be src dst p, bytes p ->
  addr_ok src -> addr_ok dst -> same_family src dst ->
  Z.of_nat (length p) <= cksum_max_len ->
  cksum_tcp_verify dbg be src dst p =
    Ok (rfc1071_sum (pseudo_bytes src dst cksum_PROTO_TCP (Z.of_nat (length p)) ++ p) =? 65535).
Proof. exact tcp_verify_rfc. Qed.
Print Assumptions C08_tcp_verify_rfc.

Theorem C08_icmpv4_verify_rfc : forall dbg be p, bytes p -> Z.of_nat (length p) <= cksum_max_len ->
  cksum_icmpv4_verify dbg be p = Ok (rfc1071_sum p =? 65535).
Proof. exact icmpv4_verify_rfc. Qed.
Print Assumptions C08_icmpv4_verify_rfc.

(* the checksum fields are 16-bit aligned two-byte fields (values regenerated from the source) *)
Theorem C08_field_layout :
  (field16_ok wipv4_f_CHECKSUM /\ wipv4_f_VER_IHL = 0) /\ field16_ok wicmpv4_f_CHECKSUM /\
  field16_ok wicmpv6_f_CHECKSUM /\ field16_ok wtcp_f_CHECKSUM /\
  (field16_ok wudp_f_CHECKSUM /\ field16_ok wudp_f_LENGTH /\ snd wudp_f_LENGTH <= fst wudp_f_CHECKSUM).
Proof. exact (conj ipv4_field_ok (conj icmpv4_field_ok (conj icmpv6_field_ok (conj tcp_field_ok udp_field_ok)))). Qed.
Print Assumptions C08_field_layout.

(* fill_then_verify: for each protocol, every content, every length for which fill does not panic
   (the buffer contains the checksum field / the header), both pseudo headers *)
Theorem C08_fill_then_verify_ipv4 : forall dbg be p, bytes p ->
  snd wipv4_f_CHECKSUM <= ipv4_hl p <= Z.of_nat (length p) ->
  exists p', cksum_ipv4_fill dbg be p = Ok p' /\ length p' = length p /\ bytes p' /\
             cksum_ipv4_verify dbg be p' = Ok true.
Proof. exact ipv4_fill_then_verify. Qed.
Print Assumptions C08_fill_then_verify_ipv4.

Theorem C08_fill_then_verify_icmpv4 : forall dbg be p, bytes p ->
  snd wicmpv4_f_CHECKSUM <= Z.of_nat (length p) <= cksum_max_len ->
  exists p', cksum_icmpv4_fill dbg be p = Ok p' /\ length p' = length p /\ bytes p' /\
             cksum_icmpv4_verify dbg be p' = Ok true.
Proof. exact icmpv4_fill_then_verify. Qed.
Print Assumptions C08_fill_then_verify_icmpv4.

Theorem C08_fill_then_verify_icmpv6 : forall dbg be src dst p, bytes p -> v6_ok src -> v6_ok dst ->
  snd wicmpv6_f_CHECKSUM <= Z.of_nat (length p) <= cksum_max_len ->
  exists p', cksum_icmpv6_fill dbg be src dst p = Ok p' /\ length p' = length p /\ bytes p' /\
             cksum_icmpv6_verify dbg be src dst p' = Ok true.
Proof. exact icmpv6_fill_then_verify. Qed.
Print Assumptions C08_fill_then_verify_icmpv6.

Theorem C08_fill_then_verify_tcp : forall dbg be src dst p, bytes p ->
  addr_ok src -> addr_ok dst -> same_family src dst ->
  snd wtcp_f_CHECKSUM <= Z.of_nat (length p) <= cksum_max_len ->
  exists p', cksum_tcp_fill dbg be src dst p = Ok p' /\ length p' = length p /\ bytes p' /\
             cksum_tcp_verify dbg be src dst p' = Ok true.
Proof. exact tcp_fill_then_verify. Qed.
Print Assumptions C08_fill_then_verify_tcp.

(* UDP: additionally the transmitted field is never 0 (0 -> 0xffff rule), so the result also
   verifies over IPv6 where 0 is not allowed *)
Theorem C08_fill_then_verify_udp : forall dbg be src dst p, bytes p ->
  addr_ok src -> addr_ok dst -> same_family src dst ->
  snd wudp_f_CHECKSUM <= udp_len p <= Z.of_nat (length p) ->
  exists p', cksum_udp_fill dbg be src dst p = Ok p' /\ length p' = length p /\ bytes p' /\
             cksum_udp_checksum p' = Ok (udp_ck p') /\ udp_ck p' <> 0 /\
             cksum_udp_verify dbg be src dst p' = Ok true.
Proof. exact udp_fill_then_verify. Qed.
Print Assumptions C08_fill_then_verify_udp.

(* udp_zero_only_v4 (the fixed code; defect D6): a zero checksum field is accepted as
   "no checksum" exactly when both addresses are IPv4 — by verify_checksum and by Repr::parse *)
Theorem C08_udp_zero_only_v4 : forall dbg be src dst p,
  snd wudp_f_CHECKSUM <= Z.of_nat (length p) -> udp_ck p = 0 ->
  cksum_udp_verify dbg be src dst p = Ok (cksum_is_v4 src && cksum_is_v4 dst) /\
  cksum_udp_parse_check true dbg be src dst p = Ok (cksum_is_v4 src && cksum_is_v4 dst).
Proof. exact udp_zero_only_v4. Qed.
Print Assumptions C08_udp_zero_only_v4.

(* single_bit_flip_detected *)
Theorem C08_single_bit_flip_detected_ipv4 : forall dbg be p i k, bytes p ->
  ipv4_hl p <= Z.of_nat (length p) -> (Z.of_nat i < ipv4_hl p) -> 0 <= k < 8 ->
  (i <> O \/ 4 <= k) ->
  cksum_ipv4_verify dbg be p = Ok true ->
  cksum_ipv4_verify dbg be (flip_at p i k) = Ok false.
Proof. exact ipv4_flip_detected. Qed.
Print Assumptions C08_single_bit_flip_detected_ipv4.

Theorem C08_single_bit_flip_detected_icmpv4 : forall dbg be p i k, bytes p ->
  Z.of_nat (length p) <= cksum_max_len -> (i < length p)%nat -> 0 <= k < 8 ->
  cksum_icmpv4_verify dbg be p = Ok true ->
  cksum_icmpv4_verify dbg be (flip_at p i k) = Ok false.
Proof. exact icmpv4_flip_detected. Qed.
Print Assumptions C08_single_bit_flip_detected_icmpv4.

Theorem C08_single_bit_flip_detected_icmpv6 : forall dbg be src dst p i k, bytes p -> v6_ok src -> v6_ok dst ->
  Z.of_nat (length p) <= cksum_max_len -> (i < length p)%nat -> 0 <= k < 8 ->
  cksum_icmpv6_verify dbg be src dst p = Ok true ->
  cksum_icmpv6_verify dbg be src dst (flip_at p i k) = Ok false.
Proof. exact icmpv6_flip_detected. Qed.
Print Assumptions C08_single_bit_flip_detected_icmpv6.

Theorem C08_single_bit_flip_detected_tcp : forall dbg be src dst p i k, bytes p ->
  addr_ok src -> addr_ok dst -> same_family src dst ->
  Z.of_nat (length p) <= cksum_max_len -> (i < length p)%nat -> 0 <= k < 8 ->
  cksum_tcp_verify dbg be src dst p = Ok true ->
  cksum_tcp_verify dbg be src dst (flip_at p i k) = Ok false.
Proof. exact tcp_flip_detected. Qed.
Print Assumptions C08_single_bit_flip_detected_tcp.

Theorem C08_single_bit_flip_detected_tcp_addr : forall dbg be src dst p i k (which : bool), bytes p ->
  addr_ok src -> addr_ok dst -> same_family src dst ->
  Z.of_nat (length p) <= cksum_max_len -> 0 <= k < 8 ->
  (i < length (addr_octets (if which then src else dst)))%nat ->
  cksum_tcp_verify dbg be src dst p = Ok true ->
  cksum_tcp_verify dbg be (if which then addr_flip src i k else src)
                          (if which then dst else addr_flip dst i k) p = Ok false.
Proof. exact tcp_addr_flip_detected. Qed.
Print Assumptions C08_single_bit_flip_detected_tcp_addr.

(* UDP: accepted after corruption only in the case the property allows (IPv4, field became 0) *)
Theorem C08_single_bit_flip_detected_udp : forall dbg be src dst p i k, bytes p ->
  addr_ok src -> addr_ok dst -> same_family src dst ->
  snd wudp_f_CHECKSUM <= Z.of_nat (length p) -> udp_len p <= Z.of_nat (length p) ->
  Z.of_nat i < udp_len p -> 0 <= k < 8 ->
  i <> foff wudp_f_LENGTH -> i <> S (foff wudp_f_LENGTH) ->
  udp_ck p <> 0 ->
  cksum_udp_verify dbg be src dst p = Ok true ->
  cksum_udp_verify dbg be src dst (flip_at p i k) =
    Ok (cksum_is_v4 src && cksum_is_v4 dst && (udp_ck (flip_at p i k) =? 0)).
Proof. exact udp_flip_detected. Qed.
Print Assumptions C08_single_bit_flip_detected_udp.

Theorem C08_single_bit_flip_detected_udp_v6 : forall dbg be src dst p i k, bytes p ->
  addr_ok src -> addr_ok dst -> same_family src dst -> cksum_is_v4 src = false ->
  snd wudp_f_CHECKSUM <= Z.of_nat (length p) -> udp_len p <= Z.of_nat (length p) ->
  Z.of_nat i < udp_len p -> 0 <= k < 8 ->
  i <> foff wudp_f_LENGTH -> i <> S (foff wudp_f_LENGTH) ->
  cksum_udp_verify dbg be src dst p = Ok true ->
  cksum_udp_verify dbg be src dst (flip_at p i k) = Ok false.
Proof. exact udp_flip_detected_v6. Qed.
Print Assumptions C08_single_bit_flip_detected_udp_v6.

(* double-bit corruption, exact characterisation: two distinct inverted bits of a valid packet go
   undetected exactly when they sit in the same bit column of their 16-bit words ([col]) and had
   opposite values; every other double flip makes verify false.  (The property demands only that
   what does not verify is dropped; this says which double corruptions the checksum cannot see.) *)
Theorem C08_double_bit_flip_icmpv4 : forall dbg be p i1 k1 i2 k2, bytes p ->
  Z.of_nat (length p) <= cksum_max_len ->
  (i1 < length p)%nat -> (i2 < length p)%nat -> 0 <= k1 < 8 -> 0 <= k2 < 8 ->
  (i1 <> i2 \/ k1 <> k2) ->
  cksum_icmpv4_verify dbg be p = Ok true ->
  cksum_icmpv4_verify dbg be (flip_at (flip_at p i1 k1) i2 k2) =
    Ok ((col i1 k1 =? col i2 k2) && xorb (bit_of p i1 k1) (bit_of p i2 k2)).
Proof. exact icmpv4_double_flip. Qed.
Print Assumptions C08_double_bit_flip_icmpv4.

Theorem C08_double_bit_flip_tcp : forall dbg be src dst p i1 k1 i2 k2, bytes p ->
  addr_ok src -> addr_ok dst -> same_family src dst ->
  Z.of_nat (length p) <= cksum_max_len ->
  (i1 < length p)%nat -> (i2 < length p)%nat -> 0 <= k1 < 8 -> 0 <= k2 < 8 ->
  (i1 <> i2 \/ k1 <> k2) ->
  cksum_tcp_verify dbg be src dst p = Ok true ->
  cksum_tcp_verify dbg be src dst (flip_at (flip_at p i1 k1) i2 k2) =
    Ok ((col i1 k1 =? col i2 k2) && xorb (bit_of p i1 k1) (bit_of p i2 k2)).
Proof. exact tcp_double_flip. Qed.
Print Assumptions C08_double_bit_flip_tcp.

Theorem C08_double_bit_flip_generic : forall P region i1 k1 i2 k2, 0 <= P -> bytes region ->
  (i1 < length region)%nat -> (i2 < length region)%nat -> 0 <= k1 < 8 -> 0 <= k2 < 8 ->
  (i1 <> i2 \/ k1 <> k2) ->
  gen_verify P region = true ->
  gen_verify P (flip_at (flip_at region i1 k1) i2 k2) =
    (col i1 k1 =? col i2 k2) && xorb (bit_of region i1 k1) (bit_of region i2 k2).
Proof. exact gen_double_flip. Qed.
Print Assumptions C08_double_bit_flip_generic.

(* enforcement at the wire level (Repr::parse's checksum gate with rx checksumming on) *)
Theorem C08_parse_rejects_bad_checksum : forall dbg be,
  (forall p, cksum_ipv4_verify dbg be p = Ok false -> cksum_ipv4_parse_check true dbg be p = Ok false) /\
  (forall p, cksum_icmpv4_verify dbg be p = Ok false -> cksum_icmpv4_parse_check true dbg be p = Ok false) /\
  (forall s d p, cksum_icmpv6_verify dbg be s d p = Ok false ->
                 cksum_icmpv6_parse_check true dbg be s d p = Ok false) /\
  (forall s d p, cksum_tcp_verify dbg be s d p = Ok false ->
                 cksum_tcp_parse_check true dbg be s d p = Ok false) /\
  (forall s d p, cksum_udp_verify dbg be s d p = Ok false ->
                 cksum_udp_parse_check true dbg be s d p = Ok false).
Proof. exact parse_rejects_bad_checksum. Qed.
Print Assumptions C08_parse_rejects_bad_checksum.

(* non-vacuity: the unit-test vectors of smoltcp verify, are reproduced by fill, a flipped bit is
   rejected, a zero UDP checksum passes over IPv4 and fails over IPv6, a computed 0 is sent as 0xffff *)
Theorem C08_examples :
  forall_be (fun dbg be =>
    outcome_eqb Z.eqb (cksum_data dbg be ex_icmpv4) (Ok 65535) &&
    outcome_eqb Z.eqb (cksum_data dbg be [0x12; 0x34; 0x56]) (Ok (0x1234 + 0x5600)) &&
    outcome_eqb Z.eqb (cksum_data dbg be []) (Ok 0) &&
    outcome_eqb Z.eqb (cksum_data dbg be [0xff; 0xff; 0x00; 0x01]) (Ok 1) &&
    outcome_eqb Bool.eqb (cksum_ipv4_verify dbg be ex_ipv4) (Ok true) &&
    outcome_eqb list_eqb (cksum_ipv4_fill dbg be (w16 ex_ipv4 10 0xeeee)) (Ok ex_ipv4) &&
    outcome_eqb Bool.eqb (cksum_udp_verify dbg be ex_v4_src ex_v4_dst ex_udp) (Ok true) &&
    outcome_eqb list_eqb (cksum_udp_fill dbg be ex_v4_src ex_v4_dst ex_udp_nock) (Ok ex_udp) &&
    outcome_eqb Bool.eqb (cksum_udp_verify dbg be ex_v4_src ex_v4_dst ex_udp_nock) (Ok true) &&
    outcome_eqb Bool.eqb (cksum_udp_verify dbg be ex_v6_src ex_v6_dst ex_udp_nock) (Ok false) &&
    outcome_eqb Bool.eqb (cksum_udp_parse_check true dbg be ex_v6_src ex_v6_dst ex_udp_nock) (Ok false) &&
    outcome_eqb Bool.eqb (cksum_udp_parse_check true dbg be ex_v4_src ex_v4_dst ex_udp_nock) (Ok true) &&
    outcome_eqb list_eqb (cksum_udp_fill dbg be ex_v6_src ex_v6_dst ex_udp6_zero)
                         (Ok (w16 ex_udp6_zero 6 0xffff)) &&
    outcome_eqb Bool.eqb (cksum_udp_verify dbg be ex_v6_src ex_v6_dst (w16 ex_udp6_zero 6 0xffff)) (Ok true) &&
    outcome_eqb Bool.eqb (cksum_udp_verify dbg be ex_v6_src ex_v6_dst ex_udp6_zero) (Ok false) &&
    outcome_eqb Bool.eqb (cksum_tcp_verify dbg be ex_v4_src ex_v4_dst ex_tcp) (Ok true) &&
    outcome_eqb list_eqb (cksum_tcp_fill dbg be ex_v4_src ex_v4_dst (w16 ex_tcp 16 0xeeee)) (Ok ex_tcp) &&
    outcome_eqb Bool.eqb (cksum_tcp_verify dbg be ex_v4_src ex_v4_dst (flip_at ex_tcp 27 0)) (Ok false) &&
    outcome_eqb Bool.eqb (cksum_tcp_verify dbg be ex_v4_src ex_v6_dst ex_tcp) Panic &&
    outcome_eqb Bool.eqb (cksum_icmpv4_verify dbg be ex_icmpv4) (Ok true) &&
    outcome_eqb list_eqb (cksum_icmpv4_fill dbg be (w16 ex_icmpv4 2 0)) (Ok ex_icmpv4) &&
    outcome_eqb Bool.eqb (cksum_icmpv6_verify dbg be (addr_octets ex_v6_src) (addr_octets ex_v6_dst) ex_icmpv6) (Ok true) &&
    outcome_eqb list_eqb (cksum_icmpv6_fill dbg be (addr_octets ex_v6_src) (addr_octets ex_v6_dst) (w16 ex_icmpv6 2 0))
                         (Ok ex_icmpv6) &&
    outcome_eqb list_eqb (cksum_icmpv4_fill dbg be [8; 0; 0]) Panic) = true.
Proof. exact c08_examples. Qed.
Print Assumptions C08_examples.
