(* Property C11, multicast part: which multicast groups the interface listens to
   (has_multicast_group of src/iface/interface/multicast.rs + mod.rs, model Model/Multicast.v),
   how join / leave / multicast_egress change that, and that nothing is reported on behalf of a
   group that is not joined.  Only property theorems (closed by [exact]) and [Print Assumptions];
   statements are pinned in Pins/C11mc.v.  [joined] is the C11 vocabulary of
   Proofs/IngressProofs.v: this file ties the group list the ingress theorems quantify over
   ([if_groups]) to the state machine that maintains it. *)
From SV Require Import Lib.Base Gen.Consts Gen.WireFields Model.Addr Model.Ingress Model.WireIgmp Model.Multicast.
From SV Require Import Proofs.IngressProofs Proofs.MulticastProofs.

(* has_multicast_group is exactly C11's [joined] for the interface whose group list is the set of
   table entries in state Joining or Joined (an entry in state Leaving does NOT count) ... *)
Theorem C11mc_has_group_iff_joined : forall st g,
  tbl_inv (mc_groups st) -> (mc_has_multicast_group st g = true <-> joined (mc_iface st) g).
Proof. exact has_group_iff_joined. Qed.
Print Assumptions C11mc_has_group_iff_joined.

(* ... spelled out: a table entry that is not Leaving, 224.0.0.1, ff02::1, or the solicited-node
   group of an own IPv6 address other than ::1 - nothing else. *)
Theorem C11mc_has_group_exactly : forall st g,
  tbl_inv (mc_groups st) ->
  (mc_has_multicast_group st g = true <->
   (exists s, In (g, s) (mc_groups st) /\ s <> GLeaving) \/
   g = V4 v4_MULTICAST_ALL_SYSTEMS \/ g = V6 v6_LINK_LOCAL_ALL_NODES \/
   exists b pl, In (mkCidr (V6 b) pl) (mc_addrs st) /\ b <> v6_LOCALHOST /\ g = V6 (v6_solicited_node b)).
Proof. exact has_group_exactly. Qed.
Print Assumptions C11mc_has_group_exactly.

(* join: Unaddressable exactly for non-multicast addresses (state unchanged); Ok makes the group
   a member at once; other groups keep their entries *)
Theorem C11mc_join_ok_member : forall st g,
  tbl_inv (mc_groups st) -> snd (mc_join st g) = mc_OK ->
  ip_is_multicast g = true /\ mc_state_has (mc_groups (fst (mc_join st g))) g = true.
Proof. exact join_ok_member. Qed.
Print Assumptions C11mc_join_ok_member.

Theorem C11mc_join_unaddressable : forall st g,
  ip_is_multicast g = false -> mc_join st g = (st, mc_UNADDRESSABLE).
Proof. exact join_unaddressable. Qed.
Print Assumptions C11mc_join_unaddressable.

Theorem C11mc_join_other_groups_untouched : forall st g h,
  h <> g -> mc_get h (mc_groups (fst (mc_join st g))) = mc_get h (mc_groups st).
Proof. exact join_other. Qed.
Print Assumptions C11mc_join_other_groups_untouched.

(* the table is bounded: a join for a group without entry on a full table fails with
   GroupTableFull and changes nothing, and join fails in no other situation *)
Theorem C11mc_join_full_table_fails : forall st g,
  ip_is_multicast g = true -> mc_get g (mc_groups st) = None ->
  Z.of_nat (length (mc_groups st)) >= cfg_IFACE_MAX_MULTICAST_GROUP_COUNT ->
  mc_join st g = (st, mc_GROUP_TABLE_FULL).
Proof. exact join_full. Qed.
Print Assumptions C11mc_join_full_table_fails.

Theorem C11mc_join_fails_only_when_full : forall st g,
  snd (mc_join st g) = mc_GROUP_TABLE_FULL ->
  fst (mc_join st g) = st /\ mc_get g (mc_groups st) = None /\
  Z.of_nat (length (mc_groups st)) >= cfg_IFACE_MAX_MULTICAST_GROUP_COUNT.
Proof. exact join_full_only. Qed.
Print Assumptions C11mc_join_fails_only_when_full.

(* for every event sequence the table stays within IFACE_MAX_MULTICAST_GROUP_COUNT entries with
   distinct keys *)
Theorem C11mc_table_bounded : forall evs st st' obs,
  mc_inv st -> Forall (ev_ok (mc_medium st)) evs -> mc_run st evs = Ok (st', obs) ->
  Z.of_nat (length (mc_groups st')) <= cfg_IFACE_MAX_MULTICAST_GROUP_COUNT /\ NoDup (keys (mc_groups st')).
Proof. exact c11mc_table_bounded. Qed.
Print Assumptions C11mc_table_bounded.

(* leave: Ok for every multicast address; the group stops being a member at once (State::
   has_multicast_group: Leaving counts as absent), stays so through any later poll, and a poll
   whose device accepts the pending frames removes the entry *)
Theorem C11mc_leave_then_egress : forall st g dev now st' dev' pkts,
  mc_inv st -> ip_is_multicast g = true ->
  let st1 := fst (mc_leave st g) in
  snd (mc_leave st g) = mc_OK /\
  mc_state_has (mc_groups st1) g = false /\
  (mc_multicast_egress st1 dev now = Ok (st', dev', pkts) ->
   mc_state_has (mc_groups st') g = false /\
   (forallb (fun b => b) dev = true ->
    (count_state GJoining (mc_groups st1) + count_state GLeaving (mc_groups st1) <= length dev)%nat ->
    mc_get g (mc_groups st') = None)).
Proof. exact c11mc_leave_then_egress. Qed.
Print Assumptions C11mc_leave_then_egress.

Theorem C11mc_leave_other_groups_untouched : forall st g h,
  NoDup (keys (mc_groups st)) -> h <> g ->
  mc_get h (mc_groups (fst (mc_leave st g))) = mc_get h (mc_groups st).
Proof. exact leave_other. Qed.
Print Assumptions C11mc_leave_other_groups_untouched.

(* a pass of multicast_egress never changes what the interface listens to *)
Theorem C11mc_egress_preserves_membership : forall st dev now st' dev' pkts,
  mc_inv st -> mc_multicast_egress st dev now = Ok (st', dev', pkts) ->
  forall g, mc_has_multicast_group st' g = mc_has_multicast_group st g.
Proof. exact c11mc_egress_preserves_membership. Qed.
Print Assumptions C11mc_egress_preserves_membership.

(* nothing is answered on behalf of an unjoined group: every IGMP report and every MLD IS_EX /
   TO_IN record names a group has_multicast_group is true for at that moment (before and after
   the pass), every IGMP leave / MLD TO_EX record a multicast group that is not kept as member.
   Before /repo e8e2d09 this was false: a delayed query response was sent for a group left in
   the meantime. *)
Theorem C11mc_reports_only_for_members : forall st dev now st' dev' pkts,
  mc_inv st -> mc_multicast_egress st dev now = Ok (st', dev', pkts) ->
  Forall (pkt_groups_ok st) pkts /\ Forall (pkt_groups_ok st') pkts.
Proof. exact c11mc_reports_only_for_members. Qed.
Print Assumptions C11mc_reports_only_for_members.
