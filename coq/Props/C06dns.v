(* Property C06, DNS: Repr::emit of a query and reading the octets back (src/wire/dns.rs).
   Only `exact` proofs; lemmas in Proofs/WireDnsEmitProofs.v. *)
From SV Require Import Lib.Base Gen.Consts Gen.WireFields Model.WireDns Proofs.WireDnsProofs.
From SV Require Import Model.WireBase Proofs.WireBaseProofs Model.WireSixFrag Model.WireNhc Proofs.LowpanWireProofs.
From SV Require Import Proofs.WireDnsEmitProofs.

(* emit into ANY buffer of the declared length: no panic, and the octets are the closed form wdns_repr_bytes -
   id, the flags word (flags with the opcode in bits 11..14), counts 1/0/0/0, name, type, class IN -
   whatever the buffer contained before *)
Theorem C06_dns_repr_emit_exact : forall r buf,
  0 <= rp_flags r < 65536 ->
  wdns_len buf = wdns_repr_buffer_len r ->
  wdns_repr_emit r buf = Ok (wdns_repr_bytes r).
Proof. exact wdns_repr_emit_exact. Qed.
Print Assumptions C06_dns_repr_emit_exact.

(* reading the emitted octets back: every header accessor returns the representation's field (flags up to
   Flags::from_bits_truncate), and Question::parse on the payload returns the question with nothing left *)
Theorem C06_dns_repr_roundtrip : forall r buf,
  wdns_repr_wf r -> wdns_len buf = wdns_repr_buffer_len r ->
  exists b,
    wdns_repr_emit r buf = Ok b /\ b = wdns_repr_bytes r /\
    wdns_check_len b = Ok tt /\
    wdns_transaction_id b = Ok (rp_transaction_id r) /\
    wdns_flags b = Ok (Z.land (rp_flags r) wdns_FLAGS_ALL) /\
    wdns_opcode b = Ok (rp_opcode r) /\
    wdns_question_count b = Ok 1 /\ wdns_answer_record_count b = Ok 0 /\
    wdns_authority_record_count b = Ok 0 /\ wdns_additional_record_count b = Ok 0 /\
    (do pl <- wdns_payload b; wdns_question_parse pl) = Ok ([], rp_question r).
Proof. exact wdns_repr_roundtrip. Qed.
Print Assumptions C06_dns_repr_roundtrip.

(* the flags word: flags and opcode do not disturb each other, whatever was there before *)
Theorem C06_dns_flags_word : forall f o, 0 <= o < 16 ->
  Z.land (wdns_flags_word f o) wdns_FLAGS_ALL = Z.land f wdns_FLAGS_ALL /\
  Z.land (Z.shiftr (wdns_flags_word f o) 11) 15 = o /\
  0 <= wdns_flags_word f o < 65536.
Proof. exact wdns_flags_word_spec. Qed.
Print Assumptions C06_dns_flags_word.

(* Question::parse reads an encoded name the same with anything behind it *)
Theorem C06_dns_name_part_app : forall name rest p,
  wdns_parse_name_part name = Ok ([], p) -> wdns_parse_name_part (name ++ rest) = Ok (rest, p).
Proof. exact wdns_parse_name_part_app. Qed.
Print Assumptions C06_dns_name_part_app.

(* non-vacuity: the query smoltcp sends for "a.bc" type AAAA with RECURSION_DESIRED, into a 0xff-filled buffer
   (the witness of D3) *)
Example C06_dns_roundtrip_witness :
  let r := mkRepr 4660 0 256 (mkQuestion [1; 97; 2; 98; 99; 0] 28) in
  wdns_repr_wf r /\
  wdns_repr_emit r (repeat 255 22) = Ok [18; 52; 1; 0; 0; 1; 0; 0; 0; 0; 0; 0; 1; 97; 2; 98; 99; 0; 0; 28; 0; 1].
Proof.
  cbv zeta. split; [|vm_compute; reflexivity].
  unfold wdns_repr_wf. cbn [rp_transaction_id rp_flags rp_opcode rp_question q_type q_name].
  repeat (split; [lia|]). exists None. vm_compute. reflexivity.
Qed.
