(* Property C11 — only traffic addressed to the interface is delivered; no replies to non-unicast.
   Only the property theorems (each closed by [exact]) and [Print Assumptions]; statements are
   pinned in Pins/C11.v.  Vocabulary (addressed_to_us, sock_matches, is_bcast, joined,
   link_nonunicast, src_nonunicast, packet_is_error, tcp_dst_nonunicast, known_…) is defined at
   the top of Proofs/IngressProofs.v independently of the model's decision functions. *)
From SV Require Import Lib.Base Gen.Consts Model.Addr Model.Ingress Proofs.IngressProofs.

(* The ingress decision is total: for every interface state, socket set and packet the modelled
   code returns (no assert!/unreachable! is reached, nothing is left undecided). *)
Theorem C11_ingress_total : forall ifc socks p,
  exists res, ing_process ifc socks p = Ok res.
Proof. exact process_total. Qed.
Print Assumptions C11_ingress_total.

(* Clause 1.  A frame for another station / another PAN, a packet for a foreign unicast address
   or an unjoined multicast group: no reply is produced and no TCP, UDP, ICMP or DNS socket
   receives anything (raw sockets, which by design see every IPv4 packet, are the only ones that
   may). *)
Theorem C11_foreign_not_delivered_not_answered : forall ifc socks p,
  ~ addressed_to_us ifc p ->
  exists res, ing_process ifc socks p = Ok res /\
    res_reply res = None /\
    (forall i, In i (res_deliv res) -> is_raw (nth i socks STcpClosed) = true).
Proof. exact c11_foreign_not_delivered_not_answered. Qed.
Print Assumptions C11_foreign_not_delivered_not_answered.

(* Clause 2.  A socket receives a segment / datagram only if it matches its bound endpoint (and,
   raw sockets apart, only if the packet is addressed to the interface). *)
Theorem C11_socket_gets_only_matching : forall ifc socks p res i,
  ing_process ifc socks p = Ok res -> In i (res_deliv res) ->
  (i < length socks)%nat /\ sock_matches ifc (nth i socks STcpClosed) p /\
  (is_raw (nth i socks STcpClosed) = false -> addressed_to_us ifc p).
Proof. exact c11_socket_gets_only_matching. Qed.
Print Assumptions C11_socket_gets_only_matching.

(* Clause 3.  Never a TCP RST or an ICMP error in answer to a packet whose destination is a
   broadcast (limited or subnet) or multicast address — at the IP or at the link layer — or whose
   source is not unicast; the reply goes to the packet's source.  Excluded: exactly the known
   finding icmpv6-param-problem-to-multicast-dst (see C11_known_param_problem_refuted). *)
Theorem C11_no_rst_or_icmp_error_to_bcast_mcast_dst_or_nonunicast_src : forall ifc socks p res r,
  ing_process ifc socks p = Ok res -> res_reply res = Some r -> rkind_is_error (r_kind r) = true ->
  ~ known_param_problem_to_multicast p r ->
  ~ is_bcast ifc (p_dst p) /\ ip_is_multicast (p_dst p) = false /\ ~ link_nonunicast ifc p /\
  ~ src_nonunicast ifc (p_src p) /\ r_dst r = p_src p.
Proof. exact c11_no_rst_or_icmp_error_to_bcast_mcast_dst_or_nonunicast_src. Qed.
Print Assumptions C11_no_rst_or_icmp_error_to_bcast_mcast_dst_or_nonunicast_src.

(* The excluded class is not empty: the model (like the crate, whose unit test
   unknown_proto_with_multicast_dst_address pins it) answers an unknown next header sent to ff02::1
   with a Parameter Problem. *)
Theorem C11_known_param_problem_refuted :
  exists ifc socks p res r,
    ing_process ifc socks p = Ok res /\ res_reply res = Some r /\ rkind_is_error (r_kind r) = true /\
    known_param_problem_to_multicast p r /\ ip_is_multicast (p_dst p) = true.
Proof. exact c11_known_param_problem_refuted. Qed.
Print Assumptions C11_known_param_problem_refuted.

(* Clause 4.  An ICMP error message or a TCP reset is never answered with another error / reset. *)
Theorem C11_no_error_about_error : forall ifc socks p res r,
  ing_process ifc socks p = Ok res -> res_reply res = Some r -> packet_is_error p ->
  rkind_is_error (r_kind r) = false.
Proof. exact c11_no_error_about_error. Qed.
Print Assumptions C11_no_error_about_error.

(* Clause 5.  A TCP segment for a broadcast, multicast or (not configured, i.e. arriving from the
   network) loopback destination is handed to no TCP socket — so no socket state can change — and
   is not answered with a reset. *)
Theorem C11_tcp_to_nonunicast_never_changes_state : forall ifc socks p res,
  tcp_dst_nonunicast ifc (p_dst p) ->
  ing_process ifc socks p = Ok res ->
  (forall i, In i (res_deliv res) -> is_tcp_sock (nth i socks STcpClosed) = false) /\
  (forall i, In i (ing_changed socks p (res_deliv res)) -> is_tcp_sock (nth i socks STcpClosed) = false) /\
  (forall r, res_reply res = Some r -> r_kind r <> KRst).
Proof. exact c11_tcp_to_nonunicast_never_changes_state. Qed.
Print Assumptions C11_tcp_to_nonunicast_never_changes_state.

(* Non-vacuity: a concrete Ethernet interface (10.0.0.1/24, fe80::1/64, listener on :80, UDP socket
   on :5000, ICMP socket) on which every hypothesis above is met and the decisions are the expected
   ones (D5 and D12 among them). *)
Theorem C11_examples :
  ing_process ex_ifc ex_socks (ex_pkt eth_BROADCAST ex_peer4 ex_bcast4 (UTcp 40000 80 CtlSyn false 0)) = Ok res_none /\
  tcp_dst_nonunicast ex_ifc ex_bcast4 /\
  ing_process ex_ifc ex_socks (ex_pkt ex_mac ex_peer4 ex_own4 (UTcp 40000 80 CtlSyn false 0)) = Ok (mkRes [0%nat] None) /\
  ing_process ex_ifc ex_socks (ex_pkt ex_mac ex_peer4 ex_own4 (UTcp 40000 81 CtlSyn false 0))
    = Ok (mkRes [] (Some (mkReply KRst ex_own4 ex_peer4 40))) /\
  ing_process ex_ifc ex_socks (ex_pkt ex_mac ex_peer4 ex_own4 (UTcp 40000 81 CtlRst false 0)) = Ok res_none /\
  ing_process ex_ifc ex_socks (ex_pkt ex_mac ex_peer4 ex_own4 (UUdp 40000 5000 10)) = Ok (mkRes [1%nat] None) /\
  ing_process ex_ifc ex_socks (ex_pkt ex_mac ex_peer4 ex_own4 (UUdp 40000 9 10))
    = Ok (mkRes [] (Some (mkReply KPortUnreach ex_own4 ex_peer4 66))) /\
  ing_process ex_ifc ex_socks (ex_pkt eth_BROADCAST ex_peer4 ex_bcast4 (UUdp 40000 9 10)) = Ok res_none /\
  ing_process ex_ifc ex_socks (ex_pkt 56294136348673 ex_peer6 (V6 v6_LINK_LOCAL_ALL_NODES) (UUdp 40000 9 10)) = Ok res_none /\
  ing_process ex_ifc ex_socks (ex_pkt 56294136348673 ex_peer6 (V6 v6_LINK_LOCAL_ALL_NODES) (UIcmp (IEchoReq 7 8)))
    = Ok (mkRes [2%nat] (Some (mkReply KEchoReply (V6 338288524927261089654018896841347694593) ex_peer6 56))) /\
  ing_process ex_ifc ex_socks (ex_pkt 2199023255705 ex_peer4 ex_own4 (UUdp 40000 5000 10)) = Ok res_none /\
  ~ addressed_to_us ex_ifc (ex_pkt 2199023255705 ex_peer4 ex_own4 (UUdp 40000 5000 10)) /\
  ing_process ex_ifc ex_socks (ex_pkt ex_mac ex_peer4 (V4 167772238) (UUdp 40000 5000 10)) = Ok res_none /\
  ing_process ex_ifc ex_socks (ex_pkt ex_mac ex_peer4 ex_own4 (UIcmp (IErr 3 (QUdp 9) 48))) = Ok res_none /\
  packet_is_error (ex_pkt ex_mac ex_peer4 ex_own4 (UIcmp (IErr 3 (QUdp 9) 48))).
Proof. exact c11_examples. Qed.
Print Assumptions C11_examples.
