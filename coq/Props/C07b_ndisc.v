(* Property C07 — checked packet views never panic on arbitrary bytes: second wave, group
   `ndisc`: NDISC options (src/wire/ndiscoption.rs) and NDISC messages (src/wire/ndisc.rs).
   Same shape as Props/C07b.v.  [bytes_ok bs] says that the elements of the list are octets. *)
From SV Require Import Lib.Base Gen.WireFields Model.WireBase Proofs.WireBaseProofs.
From SV Require Import Model.WireIpv6 Model.WireNdiscOpt Proofs.WireNdiscOptProofs.
From SV Require Import Model.WireIcmpv6Hdr Proofs.WireIcmpv6HdrProofs Model.WireNdisc Proofs.WireNdiscProofs.

(* ---------------- NDISC option ----------------
   The checked view is `NdiscOption::new_checked` (check_len + "a length field of 0 is invalid").
   After it the generic accessors, link_layer_addr and mtu are safe for every option type; the
   prefix-information accessors are safe on a Prefix Information option (check_len guarantees
   its 32 octets for that type only). *)

Theorem C07_ndopt_accessors_safe : forall bs,
  bytes_ok bs = true -> ndopt_new_checked bs = Ok tt ->
  ndopt_option_type bs <> Panic /\ ndopt_data_len bs <> Panic /\ ndopt_data bs <> Panic /\
  ndopt_link_layer_addr bs <> Panic /\ ndopt_mtu bs <> Panic /\
  (ndopt_option_type bs = Ok ndopt_T_PREFIX ->
   ndopt_prefix_len bs <> Panic /\ ndopt_prefix_flags bs <> Panic /\ ndopt_valid_lifetime bs <> Panic /\
   ndopt_preferred_lifetime bs <> Panic /\ ndopt_prefix bs <> Panic).
Proof. exact ndopt_accessors_safe. Qed.
Print Assumptions C07_ndopt_accessors_safe.

Theorem C07_ndopt_check_len_total : forall bs, ndopt_check_len bs <> Panic.
Proof. exact ndopt_check_len_total. Qed.
Print Assumptions C07_ndopt_check_len_total.

Theorem C07_ndopt_parse_total : forall bs, bytes_ok bs = true -> ndopt_parse bs <> Panic.
Proof. exact ndopt_parse_total. Qed.
Print Assumptions C07_ndopt_parse_total.

(* ---------------- NDISC messages ----------------
   The checked view is `Icmpv6Packet::new_checked` ([icmp6h_check_len]); each NDISC accessor is
   safe on a packet of the message type it belongs to.  [ndisc_parse] runs the option loop with
   fuel = |payload| and reports fuel exhaustion as Panic: [C07_ndisc_parse_total] therefore also
   says that the loop terminates within that fuel; [C07_ndisc_parse_opts_fuel] says that fuel
   beyond the remaining length never changes the result (an option with length field 0 is
   rejected by NdiscOption::new_checked, so `offset` grows by at least 8 per iteration). *)

Theorem C07_ndisc_accessors_safe : forall bs,
  icmp6h_check_len bs = Ok tt ->
  (icmp6h_msg_type bs = Ok icmp6h_ROUTER_ADVERT ->
     ndisc_current_hop_limit bs <> Panic /\ ndisc_router_flags bs <> Panic /\ ndisc_router_lifetime bs <> Panic /\
     ndisc_reachable_time bs <> Panic /\ ndisc_retrans_time bs <> Panic) /\
  (icmp6h_msg_type bs = Ok icmp6h_NEIGHBOR_SOLICIT -> ndisc_target_addr bs <> Panic) /\
  (icmp6h_msg_type bs = Ok icmp6h_NEIGHBOR_ADVERT ->
     ndisc_neighbor_flags bs <> Panic /\ ndisc_target_addr bs <> Panic) /\
  (icmp6h_msg_type bs = Ok icmp6h_REDIRECT -> ndisc_target_addr bs <> Panic /\ ndisc_dest_addr bs <> Panic).
Proof. exact ndisc_accessors_safe. Qed.
Print Assumptions C07_ndisc_accessors_safe.

Theorem C07_ndisc_parse_total : forall bs, bytes_ok bs = true -> ndisc_parse bs <> Panic.
Proof. exact ndisc_parse_total. Qed.
Print Assumptions C07_ndisc_parse_total.

Theorem C07_ndisc_icmp_parse_total : forall (sum_ok : list Z -> bool) rx bs,
  bytes_ok bs = true -> ndisc_icmp_parse sum_ok rx bs <> Panic.
Proof. exact ndisc_icmp_parse_total. Qed.
Print Assumptions C07_ndisc_icmp_parse_total.

Theorem C07_ndisc_parse_opts_fuel : forall fuel k p off st,
  bytes_ok p = true -> 0 <= off -> (Z.to_nat (blen p - off) <= fuel)%nat ->
  ndisc_parse_opts (fuel + k) p off st = ndisc_parse_opts fuel p off st.
Proof. exact ndisc_parse_opts_fuel. Qed.
Print Assumptions C07_ndisc_parse_opts_fuel.
