(* Property C07 — checked packet views never panic on arbitrary bytes: second wave, group
   `ndisc`: NDISC options (src/wire/ndiscoption.rs) and NDISC messages (src/wire/ndisc.rs).
   Same shape as Props/C07b.v.  [bytes_ok bs] says that the elements of the list are octets. *)
From SV Require Import Lib.Base Gen.WireFields Model.WireBase Proofs.WireBaseProofs.
From SV Require Import Model.WireIpv6 Model.WireNdiscOpt Proofs.WireNdiscOptProofs.

(* ---------------- NDISC option ----------------
   The checked view is `NdiscOption::new_checked` (check_len + "a length field of 0 is invalid").
   After it the generic accessors, link_layer_addr and mtu are safe for every option type; the
   prefix-information accessors are safe on a Prefix Information option (check_len guarantees
   its 32 octets for that type only). *)

Theorem C07_ndopt_accessors_safe : forall bs,
  bytes_ok bs = true -> ndopt_new_checked bs = Ok tt ->
  ndopt_option_type bs <> Panic /\ ndopt_data_len bs <> Panic /\ ndopt_data bs <> Panic /\
  ndopt_link_layer_addr bs <> Panic /\ ndopt_mtu bs <> Panic /\
  (ndopt_option_type bs = Ok ndopt_T_PREFIX ->
   ndopt_prefix_len bs <> Panic /\ ndopt_prefix_flags bs <> Panic /\ ndopt_valid_lifetime bs <> Panic /\
   ndopt_preferred_lifetime bs <> Panic /\ ndopt_prefix bs <> Panic).
Proof. exact ndopt_accessors_safe. Qed.
Print Assumptions C07_ndopt_accessors_safe.

Theorem C07_ndopt_check_len_total : forall bs, ndopt_check_len bs <> Panic.
Proof. exact ndopt_check_len_total. Qed.
Print Assumptions C07_ndopt_check_len_total.

Theorem C07_ndopt_parse_total : forall bs, bytes_ok bs = true -> ndopt_parse bs <> Panic.
Proof. exact ndopt_parse_total. Qed.
Print Assumptions C07_ndopt_parse_total.
