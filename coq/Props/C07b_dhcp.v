(* Property C07 — checked packet views never panic on arbitrary bytes: DHCPv4
   (src/wire/dhcpv4.rs; model Model/WireDhcpv4.v, lemmas Proofs/WireDhcpv4Proofs.v).
   Same shape as Props/C07b.v: only theorems closed by [exact] + Print Assumptions; statements
   are pinned in Pins/C07b_dhcp.v.
     accessors_safe      check_len bs = Ok -> no accessor panics (fixed header, options(),
                         get_sname, get_boot_file)
     options walk        `Packet::options()`: one `next()` ([dhcpw_opt_next]) and the whole
                         iteration ([dhcpw_options_go]) never fail or panic on any octet string —
                         zero lengths, lengths past the end, a missing END, truncated option
                         headers all end the iteration silently —, every yielded option has a
                         kind other than PAD/END and <= 255 data octets, each `next()` that
                         yields consumes at least 2 octets, and any fuel above the buffer length
                         gives the same result (fuel suffices: the Rust loops terminate)
     parse_total         for every octet string bs, Repr::parse bs is Ok or Err, never Panic
   [bytes_ok bs] says that the elements of the list are octets (0..255). *)
From SV Require Import Lib.Base Gen.Consts Gen.WireFields Model.WireBase Proofs.WireBaseProofs.
From SV Require Import Model.WireDhcpv4 Proofs.WireDhcpv4Proofs.

Theorem C07_dhcpw_accessors_safe : forall bs,
  bytes_ok bs = true -> dhcpw_check_len bs = Ok tt ->
  dhcpw_opcode bs <> Panic /\ dhcpw_hardware_type bs <> Panic /\ dhcpw_hardware_len bs <> Panic /\
  dhcpw_transaction_id bs <> Panic /\ dhcpw_client_hardware_address bs <> Panic /\
  dhcpw_hops bs <> Panic /\ dhcpw_secs bs <> Panic /\ dhcpw_magic_number bs <> Panic /\
  dhcpw_client_ip bs <> Panic /\ dhcpw_your_ip bs <> Panic /\ dhcpw_server_ip bs <> Panic /\
  dhcpw_relay_agent_ip bs <> Panic /\ dhcpw_flags bs <> Panic /\ dhcpw_options bs <> Panic /\
  dhcpw_get_sname bs <> Panic /\ dhcpw_get_boot_file bs <> Panic.
Proof. exact dhcpw_accessors_safe. Qed.
Print Assumptions C07_dhcpw_accessors_safe.

(* one call of the iterator closure *)
Theorem C07_dhcpw_opt_next_total : forall fuel buf,
  bytes_ok buf = true -> (length buf < fuel)%nat ->
  dhcpw_opt_next fuel buf = Ok None \/
  exists o rest, dhcpw_opt_next fuel buf = Ok (Some (o, rest)) /\
    (length rest + 2 <= length buf)%nat /\ bytes_ok rest = true /\
    dhcpw_opt_ok o = true /\ dhcpw_o_kind o <> wdhcp_OPT_PAD /\ dhcpw_o_kind o <> wdhcp_OPT_END.
Proof. exact dhcpw_opt_next_spec. Qed.
Print Assumptions C07_dhcpw_opt_next_total.

Theorem C07_dhcpw_opt_next_fuel : forall f1 f2 buf,
  (length buf < f1)%nat -> (length buf < f2)%nat ->
  dhcpw_opt_next f1 buf = dhcpw_opt_next f2 buf.
Proof. exact dhcpw_opt_next_fuel. Qed.
Print Assumptions C07_dhcpw_opt_next_fuel.

(* the whole iteration, on any octet string *)
Theorem C07_dhcpw_options_go_total : forall buf, bytes_ok buf = true ->
  exists l, dhcpw_options_go (S (length buf)) buf = Ok l /\
    Forall (fun o => dhcpw_opt_ok o = true /\ dhcpw_o_kind o <> wdhcp_OPT_PAD /\
                     dhcpw_o_kind o <> wdhcp_OPT_END) l.
Proof. exact dhcpw_options_go_total. Qed.
Print Assumptions C07_dhcpw_options_go_total.

Theorem C07_dhcpw_options_go_fuel : forall f1 f2 buf, bytes_ok buf = true ->
  (length buf < f1)%nat -> (length buf < f2)%nat ->
  dhcpw_options_go f1 buf = dhcpw_options_go f2 buf.
Proof. exact dhcpw_options_go_fuel. Qed.
Print Assumptions C07_dhcpw_options_go_fuel.

(* Packet::options() of a checked packet *)
Theorem C07_dhcpw_options_walk_total : forall bs,
  bytes_ok bs = true -> dhcpw_check_len bs = Ok tt ->
  exists l, dhcpw_options bs = Ok l /\
    Forall (fun o => dhcpw_opt_ok o = true /\ dhcpw_o_kind o <> wdhcp_OPT_PAD /\
                     dhcpw_o_kind o <> wdhcp_OPT_END) l.
Proof. exact dhcpw_options_walk_total. Qed.
Print Assumptions C07_dhcpw_options_walk_total.

Theorem C07_dhcpw_parse_total : forall bs, bytes_ok bs = true -> dhcpw_parse bs <> Panic.
Proof. exact dhcpw_parse_total. Qed.
Print Assumptions C07_dhcpw_parse_total.
