(* Property C02, LIVENESS half, part 17: AFTER A FAULT PREFIX - delivery, quiescence and close.
       net_init --pre--> st --evsD ++ evsQ ++ NClose SA :: evs1 ++ NClose SB :: evs2--> st'
   pre is ANY run of the one-way workload from net_init (drops, duplicates, reordering, any clock, A's writes) that
   ends with both sockets ESTABLISHED; only the rest of the run is a reliable schedule (fair_schedule + once_run,
   counted from st).  The regime invariant at the end of the prefix is derived; there is no handshake premise and
   no window premise.  Conclusions as in part 15 (Props/C02liveClose5.v): every octet written - in the prefix or
   in evsD - is acknowledged and handed to B's application (zero windows included), the connection becomes quiet,
   A closes, B closes in CLOSE-WAIT, TIME-WAIT expires, both CLOSED.  Premises about the states of the run: in evsQ
   qregime = zextra and, once A's queue is empty and everything is read, qstatic.
   Only theorems closed by [exact] and [Print Assumptions]; statements pinned in Pins/C02liveClose6.v. *)
From SV Require Import Lib.Base Gen.Consts.
From SV Require Import Model.Seq32 Model.Assembler Model.TcpBuf Model.TcpTypes Model.Tcp Model.TcpNet.
From SV Require Import Proofs.TcpSendBase Proofs.TcpLiveBase Proofs.TcpLiveProofs Proofs.TcpLiveMore Proofs.TcpLiveProgress.
From SV Require Import Proofs.TcpNetBase.
From SV Require Import Proofs.TcpProgressBase Proofs.TcpProgressFrame Proofs.TcpProgressCtl Proofs.TcpProgressRecv Proofs.TcpProgressSend Proofs.TcpProgressNet Proofs.TcpProgressData Proofs.TcpProgressAck Proofs.TcpProgressAll Proofs.TcpProgressSafe Proofs.TcpProgressHs Proofs.TcpProgressHsD Proofs.TcpProgressHsNet Proofs.TcpProgressHsInit Proofs.TcpProgressHsLive Proofs.TcpProgressHsLive2 Proofs.TcpProgressZwp Proofs.TcpProgressExample Proofs.TcpProgressWitness Proofs.TcpProgressSafeWitness Proofs.TcpProgressZwDup Proofs.TcpProgressZw1 Proofs.TcpProgressZw1b Proofs.TcpProgressZw2 Proofs.TcpProgressZw3 Proofs.TcpProgressZwWitness Proofs.TcpProgressZw4 Proofs.TcpProgressZw5 Proofs.TcpProgressZw6 Proofs.TcpProgressZwWitness3 Proofs.TcpProgressZw7 Proofs.TcpProgressCl1 Proofs.TcpProgressCl2 Proofs.TcpProgressCl3 Proofs.TcpProgressCl4 Proofs.TcpProgressCl5 Proofs.TcpProgressCl6 Proofs.TcpProgressCl7 Proofs.TcpProgressCl8 Proofs.TcpProgressCl9 Proofs.TcpProgressCl10 Proofs.TcpProgressCl11 Proofs.TcpProgressCl12 Proofs.TcpProgressCl13 Proofs.TcpProgressCl14 Proofs.TcpProgressCl15 Proofs.TcpProgressHsRtx Proofs.TcpProgressRtxWitness Proofs.TcpProgressCl16.

Theorem C02live_quiesce_close_after_fault_prefix : forall Dt Da Dack ca cb st0 (n : nat),
  forall pre st evsD evsQ evs1 evs2 stD stQ stC st_m st',
  start_ok Dack ca cb st0 -> 2 * Dt < tcp_RTTE_MIN_RTO * 1000 -> 0 <= Dack ->
  (* the fault prefix *)
  net_run st0 pre = Ok st -> Forall (script_ev SA) pre ->
  (forall z, s_state (net_sock st z) = Established) ->
  (* from there on delivery is reliable *)
  reliable_schedule Dt Da st (evsD ++ evsQ ++ NClose SA :: evs1 ++ NClose SB :: evs2) ->
  (* A may go on writing, B reads *)
  Forall (app_ev SA) evsD -> net_run st evsD = Ok stD ->
  (* the applications neither write nor close *)
  Forall qev evsQ -> net_run stD evsQ = Ok stQ ->
  (forall z, l_len (ep_written (net_get stQ z)) < 2 ^ 30) ->
  run_all qregime stD evsQ ->
  (l_len (ep_written (net_get stD SA)) - una_off (net_get stD SA)) +
  (l_len (ep_written (net_get stD SA)) - read_off (net_get stD SB)) <= Z.of_nat n ->
  net_now stD SA + Z.of_nat n * Wz Dt Da + 2 * Dt + Dack < net_now stQ SA ->
  (* A closes; B closes in CLOSE-WAIT *)
  net_step stQ (NClose SA) = Ok stC ->
  Forall (cl_ev SA false) evs1 -> net_run stC evs1 = Ok st_m -> net_now stQ SA + 2 * Dt < net_now st_m SA ->
  net_run st_m (NClose SB :: evs2) = Ok st' ->
  net_now st_m SA + 3 * Dt + tcp_CLOSE_DELAY < net_now st' SA ->
  (exists p1 p2 sta,
     evsQ = p1 ++ p2 /\ net_run stD p1 = Ok sta /\ net_run sta p2 = Ok stQ /\
     una_off (net_get sta SA) = l_len (ep_written (net_get stD SA)) /\
     read_off (net_get sta SB) = l_len (ep_written (net_get stD SA))) /\
  (exists pre2 post st_c,
     evs2 = pre2 ++ post /\ net_run st_m (NClose SB :: pre2) = Ok st_c /\ net_run st_c post = Ok st' /\
     both_closed st_c).
Proof. exact quiesce_close_after_fault_prefix. Qed.
Print Assumptions C02live_quiesce_close_after_fault_prefix.

(* NON-VACUITY: the prefix loses the first data segment (8 of the 12 octets written) and delivers A's handshake ACK
   twice; from its end on the schedule is reliable: the retransmission timer fires after 1 s, the window closes in
   the middle, all 12 octets are acknowledged and read, quiet, A closes, B closes, TIME-WAIT expires, both CLOSED;
   every premise is decided (qregime in every state of the quiet part) *)
Theorem C02live_quiesce_close_after_fault_prefix_applies :
  exists st0 st stD stQ st_m st',
    start_ok 10000 zcfg_a zcfg_b st0 /\ net_run st0 qcf_pre = Ok st /\
    (forall z, s_state (net_sock st z) = Established) /\
    reliable_schedule 5000 5000 st ([] ++ qcf_evsQ ++ NClose SA :: qcf_evs1 ++ NClose SB :: qcf_evs2) /\
    net_run st [] = Ok stD /\
    net_run stD qcf_evsQ = Ok stQ /\ run_all qregime stD qcf_evsQ /\
    net_run stQ (NClose SA :: qcf_evs1) = Ok st_m /\ net_run st_m (NClose SB :: qcf_evs2) = Ok st' /\
    (exists p1 p2 sta,
       qcf_evsQ = p1 ++ p2 /\ net_run stD p1 = Ok sta /\ net_run sta p2 = Ok stQ /\
       una_off (net_get sta SA) = l_len (ep_written (net_get stD SA)) /\
       read_off (net_get sta SB) = l_len (ep_written (net_get stD SA))) /\
    (exists pre2 post st_c,
       qcf_evs2 = pre2 ++ post /\ net_run st_m (NClose SB :: pre2) = Ok st_c /\ net_run st_c post = Ok st' /\
       both_closed st_c).
Proof. exact quiesce_close_after_fault_prefix_applies. Qed.
Print Assumptions C02live_quiesce_close_after_fault_prefix_applies.

(* the prefix of the witness is faulty: a segment is dropped, a frame is delivered twice *)
Theorem C02live_fault_prefix_is_faulty :
  In (NDrop SB 2) qcf_pre /\ nth_error qcf_pre 5 = Some (NDeliver SB 1) /\ nth_error qcf_pre 9 = Some (NDeliver SB 1).
Proof. exact qcf_pre_faults. Qed.
Print Assumptions C02live_fault_prefix_is_faulty.
