(* Property C01 - TCP delivers the peer's byte stream intact, in order, exactly once.
   System model: Model/TcpNet.v (two Model/Tcp.v sockets, two channels, an adversary that delivers
   any in-flight segment any number of times in any order, drops, corrupts (= drops, by C08's
   checksum theorems), advances time and chooses the random ISNs/timestamps; application calls
   send / recv / close on both sides).  [ep_written] = every octet send has accepted, [ep_read] =
   every octet recv has returned, [ep_finished] = some recv answered Finished.
   This file contains only the property theorems (each closed by [exact]) and [Print Assumptions];
   statements are pinned in Pins/C01.v.

   The composition consumes C04's closed theorems (Proofs/TcpRecvTheorems.v), C05's closed theorems
   (assembled in Proofs/TcpNetTx.v into the one statement c05_contract; the position of a
   keep-alive probe is TcpSendKa.keep_alive_below_una, provable since the D23 repair resets the RTT
   estimator of a listener that falls back to LISTEN - a defect this composition exposed) and
   tcp-c02's tcp_live_inv.  No premise about the sockets remains; the only hypothesis on the
   adversary is the sequence-age assumption [run_age], proved redundant below 2 GiB. *)
From SV Require Import Lib.Base Gen.Consts.
From SV Require Import Model.Seq32 Model.Assembler Model.TcpBuf Model.TcpTypes Model.Tcp Model.TcpNet.
From SV Require Import Proofs.TcpNetBase Proofs.TcpNetContract Proofs.TcpNetTx Proofs.TcpNetCompose Proofs.TcpNetInv Proofs.TcpNetProofs.

(* (ii) of the derivation: everything the network holds - hence everything it can ever deliver -
   was emitted by the other socket.  By construction of the model, in every reachable state. *)
Theorem C01_channel_subset_of_emitted : forall ca cb st0 evs st,
  net_init ca cb = Ok st0 -> net_run st0 evs = Ok st ->
  forall x, incl (ep_out (net_get st x)) (ep_sent (net_get st x)).
Proof. exact chan_sub_sent. Qed.
Print Assumptions C01_channel_subset_of_emitted.

(* The property, both directions: in every reachable state what B's application has been handed
   is a prefix of what A's application wrote, and symmetrically - under the age hypothesis
   [run_age] (every delivered segment is within 2^31 of the receiver's RCV.NXT / the sender's
   SND.UNA: RFC 9293's MSL assumption, stated on model states only, see Proofs/TcpNetCompose.v). *)
Theorem C01_e2e_prefix : forall ca cb st0 evs st,
  cfg_ok ca -> cfg_ok cb -> net_init ca cb = Ok st0 ->
  net_run st0 evs = Ok st -> run_age st0 evs ->
  prefix (ep_read (n_b st)) (ep_written (n_a st)) /\ prefix (ep_read (n_a st)) (ep_written (n_b st)).
Proof. exact e2e_prefix_c. Qed.
Print Assumptions C01_e2e_prefix.

(* recv reports Finished only after every octet the peer wrote before closing has been handed over *)
Theorem C01_e2e_finished_complete : forall ca cb st0 evs st,
  cfg_ok ca -> cfg_ok cb -> net_init ca cb = Ok st0 ->
  net_run st0 evs = Ok st -> run_age st0 evs ->
  (ep_finished (n_b st) = true -> ep_read (n_b st) = ep_written (n_a st)) /\
  (ep_finished (n_a st) = true -> ep_read (n_a st) = ep_written (n_b st)).
Proof. exact e2e_finished_complete_c. Qed.
Print Assumptions C01_e2e_finished_complete.

(* the age hypothesis is implied when fewer than 2^31 - 1 octets are written in each direction *)
Theorem C01_seg_age_implied_below_2GiB : forall ca cb st0 evs st,
  cfg_ok ca -> cfg_ok cb -> net_init ca cb = Ok st0 -> net_run st0 evs = Ok st ->
  l_len (ep_written (n_a st)) < 2147483647 /\ l_len (ep_written (n_b st)) < 2147483647 ->
  run_age st0 evs.
Proof. exact seg_age_when_small_c. Qed.
Print Assumptions C01_seg_age_implied_below_2GiB.

(* ... so below 2 GiB per direction the property holds against EVERY adversary schedule, every
   pair of ISNs (including ones that wrap 2^31 / 2^32 during the transfer), every configuration *)
Theorem C01_e2e_below_2GiB : forall ca cb st0 evs st,
  cfg_ok ca -> cfg_ok cb -> net_init ca cb = Ok st0 -> net_run st0 evs = Ok st ->
  l_len (ep_written (n_a st)) < 2147483647 /\ l_len (ep_written (n_b st)) < 2147483647 ->
  (prefix (ep_read (n_b st)) (ep_written (n_a st)) /\ prefix (ep_read (n_a st)) (ep_written (n_b st))) /\
  (ep_finished (n_b st) = true -> ep_read (n_b st) = ep_written (n_a st)) /\
  (ep_finished (n_a st) = true -> ep_read (n_a st) = ep_written (n_b st)).
Proof. exact e2e_small_c. Qed.
Print Assumptions C01_e2e_below_2GiB.

(* non-vacuity: a concrete schedule with reordering, duplication and loss (A's sequence numbers
   wrap 2^32 inside the transfer): first a strict prefix is delivered, then - after the
   retransmission and the FIN - everything, once, in order, and recv reports Finished *)
Theorem C01_example_adversarial_schedule :
  ex_view (ex_run ex_schedule) =
    Some ([1;2;3;4;5;6;7;8;9;10;11;12;13;14;15], [1;2;3;4;5], false) /\
  ex_view (ex_run ex_schedule_2) =
    Some ([1;2;3;4;5;6;7;8;9;10;11;12;13;14;15], [1;2;3;4;5;6;7;8;9;10;11;12;13;14;15], true) /\
  cfg_ok ex_cfg_a /\ cfg_ok ex_cfg_b.
Proof. exact (conj e2e_example_prefix (conj e2e_example_complete e2e_example_cfg_ok)). Qed.
Print Assumptions C01_example_adversarial_schedule.
