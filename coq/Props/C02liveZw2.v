(* Property C02, LIVENESS half, part 7: STEPS 4 + 5 COMPOSED - every octet written is delivered, ZERO
   WINDOWS INCLUDED, on every reliable schedule (fair_run + once_run).  The rounds of Props/C02live.v need
   "the window is open" in every state; here one round needs nothing of the kind: flush (Dt), window
   update due (no time), probe / retransmission deadline, segment in flight, ACK in flight, reader.
   Only theorems closed by [exact] and [Print Assumptions]; statements pinned in Pins/C02liveZw2.v. *)
From SV Require Import Lib.Base Gen.Consts.
From SV Require Import Model.Seq32 Model.Assembler Model.TcpBuf Model.TcpTypes Model.Tcp Model.TcpNet.
From SV Require Import Proofs.TcpSendBase Proofs.TcpLiveBase Proofs.TcpLiveProofs Proofs.TcpLiveMore Proofs.TcpLiveProgress.
From SV Require Import Proofs.TcpNetBase.
From SV Require Import Proofs.TcpProgressBase Proofs.TcpProgressFrame Proofs.TcpProgressCtl Proofs.TcpProgressRecv Proofs.TcpProgressSend Proofs.TcpProgressNet Proofs.TcpProgressData Proofs.TcpProgressAck Proofs.TcpProgressAll Proofs.TcpProgressSafe Proofs.TcpProgressZwp Proofs.TcpProgressExample Proofs.TcpProgressWitness Proofs.TcpProgressSafeWitness Proofs.TcpProgressZwDup Proofs.TcpProgressZw1 Proofs.TcpProgressZw1b Proofs.TcpProgressZw2 Proofs.TcpProgressZw3 Proofs.TcpProgressZwWitness Proofs.TcpProgressZw4 Proofs.TcpProgressZw5 Proofs.TcpProgressZwWitness2.

(* a segment at an ESTABLISHED sender, whatever its timer: SND.UNA advances, or SND.UNA and the queue stay *)
Theorem C02live_sender_segment_una_or_same : forall cx s ip r s' reply tags,
  ctx_ok cx -> seg_ok r -> tcp_live_inv s ->
  s_state s = Established -> s_state s' = Established ->
  rb_len (s_tx_buffer s) < 2 ^ 31 ->
  tcp_process cx s ip r = Ok (s', reply, tags) ->
  rb_len (s_tx_buffer s') < rb_len (s_tx_buffer s) \/
  (s_local_seq_no s' = s_local_seq_no s /\ s_tx_buffer s' = s_tx_buffer s).
Proof. exact process_sender_core. Qed.
Print Assumptions C02live_sender_segment_una_or_same.

(* whatever tcp_process replies is a RST, or the advertisement it leaves is fresh: of RCV.NXT and of the
   scaled window of that very state *)
Theorem C02live_reply_advertises_afresh : forall cx s ip r s' rep tags,
  tcp_process cx s ip r = Ok (s', rep, tags) -> fsh s' rep.
Proof. exact process_reply_fresh. Qed.
Print Assumptions C02live_reply_advertises_afresh.

(* a data / ACK segment that is neither answered nor accepted leaves the advertised window where it was *)
Theorem C02live_quiet_segment_keeps_advertised_window : forall cx s ip r s' tags,
  s_state s = Established -> rcv_wf s -> adv_ok s ->
  l_len (r_payload r) <= TcpRecvWindow.p30 -> 0 <= r_seq_number r < 4294967296 ->
  (r_control r = CNone \/ r_control r = CPsh) ->
  r_ack_number r = Some (s_local_seq_no s) ->
  0 <= s_local_seq_no s < 4294967296 -> 0 <= rb_len (s_tx_buffer s) < 2147483648 ->
  tcp_process cx s ip r = Ok (s', None, tags) ->
  rb_len (s_rx_buffer s') = rb_len (s_rx_buffer s) ->
  tcp_window_start s' = tcp_window_start s /\ tcp_window_end s' = tcp_window_end s.
Proof. exact process_quiet_window. Qed.
Print Assumptions C02live_quiet_segment_keeps_advertised_window.

(* a dispatch of an ESTABLISHED socket leaves the advertised window, or advertises afresh *)
Theorem C02live_dispatch_keeps_or_renews_advertisement : forall cx s ok s' res tags t,
  s_state s = Established -> s_state s' = Established ->
  s_tuple s = Some t -> tu_local_addr t = cx_addr cx ->
  tcp_dispatch cx s ok = Ok (s', res, tags) ->
  tcp_window_start s' = tcp_window_start s /\
  (tcp_window_end s' = tcp_window_end s \/ fresh_adv s').
Proof. exact dispatch_est_adv. Qed.
Print Assumptions C02live_dispatch_keeps_or_renews_advertisement.

(* a fresh advertisement of a non-zero scaled window is an open window *)
Theorem C02live_fresh_advertisement_is_open : forall s,
  fresh_adv s -> 0 < tcp_scaled_window s -> 0 <= s_remote_win_shift s ->
  shl (s_remote_last_win s) (s_remote_win_shift s) <= rb_cap (s_rx_buffer s) ->
  rb_cap (s_rx_buffer s) <= 2 ^ 30 ->
  adv_open' s.
Proof. exact fresh_open. Qed.
Print Assumptions C02live_fresh_advertisement_is_open.

(* advertised window closed, buffer with room: window_to_update (so poll_at = Now) *)
Theorem C02live_window_update_due_when_closed : forall s,
  s_state s = Established -> s_syn_unacked_in_fin_wait s = false ->
  s_remote_last_ack s <> None -> tcp_window_end s = tcp_window_start s ->
  0 < tcp_scaled_window s ->
  tcp_window_to_update s = Ok true.
Proof. exact wtu_when_closed. Qed.
Print Assumptions C02live_window_update_due_when_closed.

(* SND.UNA never moves back in a step of the regime *)
Theorem C02live_snd_una_never_moves_back : forall x fa st ev st',
  NI st -> opts_ok st -> zsafe x st -> zsafe x st' -> fair_ev fa st ev -> net_step st ev = Ok st' ->
  una_off (net_get st x) <= una_off (net_get st' x).
Proof. exact una_step_mono. Qed.
Print Assumptions C02live_snd_una_never_moves_back.

(* one step of a reliable schedule in the deadline phases *)
Theorem C02live_closed_window_deadline_step : forall x Dt Da Dack u0 d0 dk T fa st ev st',
  0 <= Dt -> 0 <= Da ->
  zsafe2 x Dack st -> zsafe2 x Dack st' -> JD0 x Dt Da u0 d0 dk T fa st -> fair_ev fa st ev -> once_ev fa ev -> net_step st ev = Ok st' ->
  (G x u0 d0 st' \/ JR x Da d0 (T + dk + Da) (fa_after Dt Da fa ev st') st' \/
   S2 x Dt Da u0 d0 dk (T + dk + Dt) (fa_after Dt Da fa ev st') st' \/
   JD1 x Dt Da u0 d0 dk (T + max_rto_us) (fa_after Dt Da fa ev st') st') \/
  JD0 x Dt Da u0 d0 dk T (fa_after Dt Da fa ev st') st'.
Proof. exact D0_step. Qed.
Print Assumptions C02live_closed_window_deadline_step.

Theorem C02live_open_window_deadline_step : forall x Dt Da Dack u0 d0 dk T fa st ev st',
  0 <= Dt -> 0 <= Da ->
  zsafe2 x Dack st -> zsafe2 x Dack st' -> JD1 x Dt Da u0 d0 dk T fa st -> fair_ev fa st ev -> once_ev fa ev -> net_step st ev = Ok st' ->
  (G x u0 d0 st' \/ JR x Da d0 (T + dk + Da) (fa_after Dt Da fa ev st') st' \/
   S2 x Dt Da u0 d0 dk (T + dk + Dt) (fa_after Dt Da fa ev st') st') \/
  JD1 x Dt Da u0 d0 dk T (fa_after Dt Da fa ev st') st'.
Proof. exact D1_step. Qed.
Print Assumptions C02live_open_window_deadline_step.

