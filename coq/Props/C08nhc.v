(* Property C08, LOWPAN_NHC UDP header checksum (src/wire/sixlowpan/nhc.rs).  Only `exact` proofs. *)
From SV Require Import Lib.Base Gen.Consts Gen.WireFields Model.WireBase Model.WireSixFrag Model.WireNhc.
From SV Require Import Proofs.WireBaseProofs Proofs.LowpanWireProofs Proofs.NhcCksumProofs.

(* enforcement: with checksum verification on, a header that carries its checksum in-line is accepted only
   if the checksum is not 0 and the sum over pseudo header, ports, length, payload and checksum is 0xffff *)
Theorem C08_nhc_udp_parse_enforces : forall b src dst r c,
  nhc_udp_parse b src dst true = Ok r -> nhc_udp_checksum b = Ok (Some c) ->
  exists payload,
    nhc_udp_payload b = Ok payload /\ c <> 0 /\
    wb_cksum_combine (nhc_udp_sum_words src dst (np_src r) (np_dst r) payload ++ [c]) = 65535.
Proof. exact nhc_udp_parse_enforces. Qed.
Print Assumptions C08_nhc_udp_parse_enforces.

(* what emit writes is accepted by the verifying parser, for every port pair / address pair / payload *)
Theorem C08_nhc_udp_emitted_verifies : forall r src dst payload ck,
  nhc_ports_wf r = true -> is_arr 16 src = true -> is_arr 16 dst = true ->
  bytes_ok payload = true -> blen payload < 65528 ->
  nhc_udp_cksum src dst (np_src r) (np_dst r) payload = Ok ck ->
  nhc_udp_parse (nhc_udp_hdr_bytes r (nhc_ck_tx ck) ++ payload) src dst true = Ok r.
Proof. exact nhc_udp_roundtrip_verified. Qed.
Print Assumptions C08_nhc_udp_emitted_verifies.

(* the checksum emit puts on the wire is never 0 (a computed 0 goes out as 0xffff) and is a u16 *)
Theorem C08_nhc_ck_tx_range : forall ck, 0 <= ck < 65536 -> 0 < nhc_ck_tx ck < 65536.
Proof. exact nhc_ck_tx_range. Qed.
Print Assumptions C08_nhc_ck_tx_range.

(* a header with the checksum elided (C = 1, RFC 6282 4.3.2) is accepted without any verification: the
   property's `only UDP over IPv4 may carry no checksum` does not hold for received 6LoWPAN frames - the
   stack itself never elides (emit always writes C = 0) *)
Theorem C08_nhc_udp_elided_unverified_refuted :
  exists b src dst r, nhc_udp_checksum b = Ok None /\ nhc_udp_parse b src dst true = Ok r.
Proof. exact nhc_udp_parse_elided_unverified. Qed.
Print Assumptions C08_nhc_udp_elided_unverified_refuted.
