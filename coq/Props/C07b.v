(* Property C07 — checked packet views never panic on arbitrary bytes: SECOND WAVE of formats
   (same shape as Props/C07.v).  For every format F:
     F_accessors_safe   check_len bs = Ok -> no accessor applicable to the packet panics
     F_parse_total      for every byte string bs, Repr::parse bs is Ok or Err, never Panic
   [bytes_ok bs] says that the elements of the list are octets (0..255).  Termination is by
   construction: every model function is a Gallina function (structural recursion, or fuel
   equal to the remaining length with fuel-suffices proved where a loop exists). *)
From SV Require Import Lib.Base Gen.WireFields Model.WireBase Proofs.WireBaseProofs.
From SV Require Import Model.WireIgmp Proofs.WireIgmpProofs.
From SV Require Import Model.WireIpv6Frag Proofs.WireIpv6FragProofs.
From SV Require Import Model.WireIpv6Ext Proofs.WireIpv6ExtProofs.
From SV Require Import Model.WireIcmpv6Hdr Proofs.WireIcmpv6HdrProofs Model.WireMld Proofs.WireMldProofs.

(* ---------------- IGMP ---------------- *)

Theorem C07_igmp_accessors_safe : forall sum_ok bs,
  igmp_check_len bs = Ok tt ->
  igmp_msg_type bs <> Panic /\ igmp_max_resp_code bs <> Panic /\ igmp_checksum bs <> Panic /\
  igmp_group_addr bs <> Panic /\ igmp_verify_checksum sum_ok bs <> Panic.
Proof. exact igmp_accessors_safe. Qed.
Print Assumptions C07_igmp_accessors_safe.

Theorem C07_igmp_parse_total : forall bs, igmp_parse bs <> Panic.
Proof. exact igmp_parse_total. Qed.
Print Assumptions C07_igmp_parse_total.

(* the `while` loop of duration_to_max_resp_code: more fuel than 8 - exp changes nothing *)
Theorem C07_igmp_mant_exp_fuel : forall k m e, 0 <= e ->
  igmp_mant_exp (Z.to_nat (8 - e) + k) m e = igmp_mant_exp (Z.to_nat (8 - e)) m e.
Proof. exact igmp_mant_exp_fuel. Qed.
Print Assumptions C07_igmp_mant_exp_fuel.

(* ---------------- IPv6 Fragment header ---------------- *)

Theorem C07_v6frag_accessors_safe : forall bs,
  v6frag_check_len bs = Ok tt ->
  v6frag_frag_offset bs <> Panic /\ v6frag_more_frags bs <> Panic /\ v6frag_ident_ bs <> Panic.
Proof. exact v6frag_accessors_safe. Qed.
Print Assumptions C07_v6frag_accessors_safe.

Theorem C07_v6frag_parse_total : forall bs, v6frag_parse bs <> Panic.
Proof. exact v6frag_parse_total. Qed.
Print Assumptions C07_v6frag_parse_total.

(* ---------------- generic IPv6 extension header ---------------- *)

Theorem C07_v6ext_accessors_safe : forall bs,
  bytes_ok bs = true -> v6ext_check_len bs = Ok tt ->
  v6ext_next_header bs <> Panic /\ v6ext_header_len bs <> Panic /\ v6ext_payload bs <> Panic.
Proof. exact v6ext_accessors_safe. Qed.
Print Assumptions C07_v6ext_accessors_safe.

Theorem C07_v6ext_parse_total : forall bs, bytes_ok bs = true -> v6ext_parse bs <> Panic.
Proof. exact v6ext_parse_total. Qed.
Print Assumptions C07_v6ext_parse_total.

(* ---------------- ICMPv6 packet view as used by MLD / NDISC, and MLDv2 ----------------
   The MLD accessors live on icmpv6::Packet; "applicable to the packet's own message type" =
   the query accessors for type 130, the report accessor for type 143 (check_len validated the
   header length of exactly that type).  AddressRecordRepr::parse has no check of its own: it
   is safe on a checked record view. *)

Theorem C07_icmp6h_generic_safe : forall bs, icmp6h_check_len bs = Ok tt ->
  icmp6h_msg_type bs <> Panic /\ icmp6h_msg_code bs <> Panic /\ icmp6h_checksum bs <> Panic /\
  icmp6h_header_len bs <> Panic /\ icmp6h_payload bs <> Panic.
Proof. exact icmp6h_generic_safe. Qed.
Print Assumptions C07_icmp6h_generic_safe.

Theorem C07_icmp6h_check_len_total : forall bs, icmp6h_check_len bs <> Panic.
Proof. exact icmp6h_check_len_nopanic. Qed.
Print Assumptions C07_icmp6h_check_len_total.

Theorem C07_mld_accessors_safe : forall bs, icmp6h_check_len bs = Ok tt ->
  (icmp6h_msg_type bs = Ok icmp6h_MLD_QUERY ->
     mld_max_resp_code bs <> Panic /\ mld_mcast_addr bs <> Panic /\ mld_s_flag bs <> Panic /\
     mld_qrv bs <> Panic /\ mld_qqic bs <> Panic /\ mld_num_srcs bs <> Panic) /\
  (icmp6h_msg_type bs = Ok icmp6h_MLD_REPORT -> mld_nr_mcast_addr_rcrds bs <> Panic) /\
  icmp6h_payload bs <> Panic.
Proof. exact mld_accessors_safe. Qed.
Print Assumptions C07_mld_accessors_safe.

Theorem C07_mld_parse_total : forall bs, mld_parse bs <> Panic.
Proof. exact mld_parse_total. Qed.
Print Assumptions C07_mld_parse_total.

Theorem C07_mld_icmp_parse_total : forall sum_ok rx bs, mld_icmp_parse sum_ok rx bs <> Panic.
Proof. exact mld_icmp_parse_total. Qed.
Print Assumptions C07_mld_icmp_parse_total.

Theorem C07_mldrec_accessors_safe : forall bs, mldrec_check_len bs = Ok tt ->
  mldrec_record_type bs <> Panic /\ mldrec_aux_data_len bs <> Panic /\ mldrec_num_srcs_ bs <> Panic /\
  mldrec_mcast_addr bs <> Panic /\ mldrec_payload_ bs <> Panic.
Proof. exact mldrec_accessors_safe. Qed.
Print Assumptions C07_mldrec_accessors_safe.

Theorem C07_mldrec_parse_total : forall bs, mldrec_parse bs <> Panic.
Proof. exact mldrec_parse_total. Qed.
Print Assumptions C07_mldrec_parse_total.
