(* Property C02, LIVENESS half, part 8: STEPS 4 + 5 COMPOSED (rounds, induction, discharge, witness) - every octet written is delivered, ZERO
   WINDOWS INCLUDED, on every reliable schedule (fair_run + once_run).  The rounds of Props/C02live.v need
   "the window is open" in every state; here one round needs nothing of the kind: flush (Dt), window
   update due (no time), probe / retransmission deadline, segment in flight, ACK in flight, reader.
   Only theorems closed by [exact] and [Print Assumptions]; statements pinned in Pins/C02liveZw3.v. *)
From SV Require Import Lib.Base Gen.Consts.
From SV Require Import Model.Seq32 Model.Assembler Model.TcpBuf Model.TcpTypes Model.Tcp Model.TcpNet.
From SV Require Import Proofs.TcpSendBase Proofs.TcpLiveBase Proofs.TcpLiveProofs Proofs.TcpLiveMore Proofs.TcpLiveProgress.
From SV Require Import Proofs.TcpNetBase.
From SV Require Import Proofs.TcpProgressBase Proofs.TcpProgressFrame Proofs.TcpProgressCtl Proofs.TcpProgressRecv Proofs.TcpProgressSend Proofs.TcpProgressNet Proofs.TcpProgressData Proofs.TcpProgressAck Proofs.TcpProgressAll Proofs.TcpProgressSafe Proofs.TcpProgressZwp Proofs.TcpProgressExample Proofs.TcpProgressWitness Proofs.TcpProgressSafeWitness Proofs.TcpProgressZwDup Proofs.TcpProgressZw1 Proofs.TcpProgressZw1b Proofs.TcpProgressZw2 Proofs.TcpProgressZw3 Proofs.TcpProgressZwWitness Proofs.TcpProgressZw4 Proofs.TcpProgressZw5 Proofs.TcpProgressZwWitness2.

(* ONE ROUND, no premise on the windows *)
Theorem C02live_round_without_open_window : forall x Dt Da Dack evs fa st st' u0 d0,
  0 <= Dt -> 0 <= Da ->
  NI st -> opts_ok st -> dl_sync Da fa st -> dlb Dt fa st ->
  run_all (zsafe2 x Dack) st evs -> fair_run Dt Da fa st evs -> once_run Dt Da fa st evs -> net_run st evs = Ok st' ->
  una_off (net_get st x) = u0 -> read_off (net_get st (side_other x)) = d0 ->
  (0 < txl x st \/ d0 < rcv_off (net_get st (side_other x))) ->
  net_now st x + Wz Dt Da < net_now st' x ->
  exists pre post fa1 st1,
    evs = pre ++ post /\ net_run st pre = Ok st1 /\ net_run st1 post = Ok st' /\
    run_all (zsafe2 x Dack) st1 post /\ fair_run Dt Da fa1 st1 post /\ once_run Dt Da fa1 st1 post /\
    NI st1 /\ opts_ok st1 /\ dl_sync Da fa1 st1 /\ dlb Dt fa1 st1 /\
    G x u0 d0 st1 /\ net_now st1 x <= net_now st x + Wz Dt Da.
Proof. exact zround. Qed.
Print Assumptions C02live_round_without_open_window.

(* STEPS 4 + 5 under the run hypothesis zsafe2 *)
Theorem C02live_all_written_bytes_eventually_delivered_zero_windows : forall x Dt Da Dack n evs fa st st' L0,
  0 <= Dt -> 0 <= Da ->
  NI st -> opts_ok st -> dl_sync Da fa st -> dlb Dt fa st ->
  run_all (zsafe2 x Dack) st evs -> fair_run Dt Da fa st evs -> once_run Dt Da fa st evs -> net_run st evs = Ok st' ->
  L0 <= l_len (ep_written (net_get st x)) ->
  Z.max 0 (L0 - una_off (net_get st x)) + Z.max 0 (L0 - read_off (net_get st (side_other x))) <= Z.of_nat n ->
  net_now st x + Z.of_nat n * Wz Dt Da < net_now st' x ->
  exists pre post st1, evs = pre ++ post /\ net_run st pre = Ok st1 /\ net_run st1 post = Ok st' /\
                       L0 <= read_off (net_get st1 (side_other x)).
Proof. exact all_written_bytes_eventually_delivered_zw. Qed.
Print Assumptions C02live_all_written_bytes_eventually_delivered_zero_windows.

(* the run hypothesis derived from the regime invariant and C01's invariant, but for zextra *)
Theorem C02live_zero_window_regime_discharged : forall x Dack evs st st',
  reach st -> NI st -> opts_ok st -> reg x Dack st ->
  Forall (script_ev x) evs -> net_run st evs = Ok st' ->
  TcpNetInv.small st' -> wr_small x st' -> run_all (zextra x) st evs ->
  run_all (zsafe2 x Dack) st evs.
Proof. exact zsafe2_run. Qed.
Print Assumptions C02live_zero_window_regime_discharged.

(* ALL WRITTEN OCTETS ARE DELIVERED, ZERO WINDOWS INCLUDED: from a state reached from net_init with both
   sockets ESTABLISHED, every reliable schedule of the one-way workload; no premise that the window stays
   open; the only premise about the states of the run is zextra *)
Theorem C02live_delivery_zero_windows_included : forall x Dt Da Dack n evs st st' L0,
  reach st -> reg x Dack st ->
  reliable_schedule Dt Da st evs ->
  Forall (app_ev x) evs -> net_run st evs = Ok st' ->
  (forall z, l_len (ep_written (net_get st' z)) < 2 ^ 30) ->
  run_all (zextra x) st evs ->
  L0 <= l_len (ep_written (net_get st x)) ->
  Z.max 0 (L0 - una_off (net_get st x)) + Z.max 0 (L0 - read_off (net_get st (side_other x))) <= Z.of_nat n ->
  net_now st x + Z.of_nat n * Wz Dt Da < net_now st' x ->
  exists pre post st1, evs = pre ++ post /\ net_run st pre = Ok st1 /\ net_run st1 post = Ok st' /\
                       L0 <= read_off (net_get st1 (side_other x)).
Proof. exact oneway_delivery_zw. Qed.
Print Assumptions C02live_delivery_zero_windows_included.

(* NON-VACUITY: B's window update is lost in the prefix, A believes the window closed with 4 of 12 octets
   queued; on the reliable suffix every premise holds and all 12 octets reach B's application *)
Theorem C02live_delivery_zero_windows_applies :
  exists st0 st st',
    net_init zcfg_a zcfg_b = Ok st0 /\ net_run st0 zww_prefix = Ok st /\ net_run st zwd_suffix = Ok st' /\
    reach st /\ reg SA 10000 st /\ reliable_schedule 5000 5000 st zwd_suffix /\ Forall (app_ev SA) zwd_suffix /\
    run_all (zextra SA) st zwd_suffix /\ s_remote_win_len (net_sock st SA) = 0 /\
    exists p1 p2 st1, zwd_suffix = p1 ++ p2 /\ net_run st p1 = Ok st1 /\ net_run st1 p2 = Ok st' /\
                      12 <= read_off (net_get st1 SB).
Proof. exact delivery_zw_applies. Qed.
Print Assumptions C02live_delivery_zero_windows_applies.
