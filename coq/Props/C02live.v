(* Property C02, LIVENESS half: the two-socket composition over Model/TcpNet.v.
   Only theorems closed by [exact] and [Print Assumptions]; statements pinned in Pins/C02live.v.

   HYPOTHESIS  [fair_schedule Dt Da st evs] / [fair_run] (Proofs/TcpProgressBase.v): from [st] on no
   segment is lost or corrupted, every in-flight segment is delivered within Dt (duplicates and
   reordering stay possible), the clock never runs past an instant reported by tcp_poll_at nor past
   a delivery / application-read deadline, every dispatch finds a transmit token, no user timeout /
   keep-alive is configured.  "Time is unbounded" is how the theorems are phrased: on every fair run
   whose clock advances by more than the stated bound, the goal state occurs inside the run.
   SAFETY INPUT  [run_all (oneway_safe x)]: facts about every state of the run that are C04 / C05 /
   C01 content (regime: both ESTABLISHED, no zero window advertised; RCV.NXT of the receiver lies
   within the sender's unacknowledged octets; in-flight segments acknowledge the receiver's SND.UNA;
   assembler well-formed) - assumed of the run in sections 2-5, DISCHARGED in Props/C02liveSafe.v: derived for
   every run from a state reached from net_init from C01's network invariant (INV_reach, closed) and
   the regime invariant [reg] proved here; what remains is a premise on the start state ([reg]), on
   the applications (only x writes, nobody closes, < 2^30 octets) and [win_open] (no zero window).
   Level: PARTIAL - see checks/C02.live.json. *)
From SV Require Import Lib.Base Gen.Consts.
From SV Require Import Model.Seq32 Model.Assembler Model.TcpBuf Model.TcpTypes Model.Tcp Model.TcpNet.
From SV Require Import Proofs.TcpSendBase Proofs.TcpLiveBase Proofs.TcpLiveProofs Proofs.TcpLiveMore Proofs.TcpLiveProgress.
From SV Require Import Proofs.TcpNetBase.
From SV Require Import Proofs.TcpProgressBase Proofs.TcpProgressFrame Proofs.TcpProgressRecv Proofs.TcpProgressSend Proofs.TcpProgressNet Proofs.TcpProgressData Proofs.TcpProgressAck Proofs.TcpProgressAll Proofs.TcpProgressZwp Proofs.TcpProgressExample Proofs.TcpProgressWitness.

(* ---------------------------------------------------------------------------------------------
   1. the fairness hypothesis is satisfiable, and what the model does on a fair run
   --------------------------------------------------------------------------------------------- *)
(* the decision procedure used for concrete runs is sound *)
Theorem C02live_fair_runb_sound : forall Dt Da evs fa st,
  fair_runb Dt Da fa st evs = true -> fair_run Dt Da fa st evs.
Proof. exact fair_runb_sound. Qed.
Print Assumptions C02live_fair_runb_sound.

(* NON-VACUITY: a fair schedule from the initial state (handshake, 5 octets, delayed ACK at exactly
   ACK_DELAY_DEFAULT, close from both sides, TIME-WAIT expiry at CLOSE_DELAY) on which the model
   delivers every octet and both sockets end CLOSED *)
Theorem C02live_fair_schedule_example :
  exists st0 st,
    net_init ex_cfg_a ex_cfg_b = Ok st0 /\ fair_schedule 5000 5000 st0 ex_sched /\
    net_run st0 ex_sched = Ok st /\
    ep_written (n_a st) = [1;2;3;4;5] /\ ep_read (n_b st) = [1;2;3;4;5] /\
    ep_finished (n_b st) = true /\ ep_finished (n_a st) = true /\
    s_state (net_sock st SA) = Closed /\ s_state (net_sock st SB) = Closed.
Proof. exact fair_schedule_example. Qed.
Print Assumptions C02live_fair_schedule_example.

(* the induction principle of every progress theorem: an obligation that forbids the clock to pass T
   and is kept unless the goal is reached => on a fair run whose clock passes T the goal is reached,
   and the rest of the run is fair again *)
Theorem C02live_fair_leads : forall (Dt Da : Z) (R : net -> Prop) (J Q : fair_aux -> net -> Prop) (x : side) (T : Z),
  (forall fa st, J fa st -> net_now st x <= T) ->
  (forall fa st ev st', R st -> R st' -> J fa st -> fair_ev fa st ev -> net_step st ev = Ok st' ->
     Q (fa_after Dt Da fa ev st') st' \/ J (fa_after Dt Da fa ev st') st') ->
  forall evs fa st st',
    J fa st -> run_all R st evs -> fair_run Dt Da fa st evs -> net_run st evs = Ok st' ->
    T < net_now st' x ->
    exists pre post fa1 st1,
      evs = pre ++ post /\ net_run st pre = Ok st1 /\ net_run st1 post = Ok st' /\
      run_all R st1 post /\ fair_run Dt Da fa1 st1 post /\ Q fa1 st1.
Proof. exact fair_leads_under. Qed.
Print Assumptions C02live_fair_leads.

(* ---------------------------------------------------------------------------------------------
   2. invariants of every run of the two-endpoint model
   --------------------------------------------------------------------------------------------- *)
(* tcp-c02's invariant + bounded timer deadline + bounded delayed-ACK deadline hold along every run *)
Theorem C02live_run_invariant : forall st ev st',
  NI st -> net_step st ev = Ok st' -> NI st'.
Proof. exact NI_step. Qed.
Print Assumptions C02live_run_invariant.

(* a waiting delayed ACK is due at most ack_delay after the last event of the socket *)
Theorem C02live_delayed_ack_bounded : forall cx s ev s' out tags,
  run_ev ev -> tcp_step cx s ev = Ok (s', out, tags) ->
  delack_bounded (cx_now cx) s -> delack_bounded (cx_now cx) s'.
Proof. exact step_delack. Qed.
Print Assumptions C02live_delayed_ack_bounded.

(* "no user timeout, no keep-alive" is kept by every event of a run *)
Theorem C02live_options_invariant : forall st ev st',
  opts_ok st -> net_step st ev = Ok st' -> opts_ok st'.
Proof. exact opts_step. Qed.
Print Assumptions C02live_options_invariant.

(* ---------------------------------------------------------------------------------------------
   3. the receiver's half of the interaction
   --------------------------------------------------------------------------------------------- *)
(* an in-window, in-sequence data segment IS accepted: RCV.NXT advances by at least
   min(window, payload) >= 1 and an ACK of the new RCV.NXT is sent at once or owed *)
Theorem C02live_receiver_accepts_in_order : forall cx s ip r s' rep tags W,
  s_state s = Established -> rcv_wf s ->
  tcp_window_end s = seq_norm (tcp_window_start s + W) -> 0 < W <= TcpRecvWindow.p30 ->
  r_seq_number r = tcp_window_start s ->
  0 < l_len (r_payload r) <= TcpRecvWindow.p30 ->
  (r_control r = CNone \/ r_control r = CPsh) ->
  r_ack_number r = Some (s_local_seq_no s) ->
  0 <= s_local_seq_no s < 4294967296 -> 0 <= rb_len (s_tx_buffer s) < 2147483648 ->
  tcp_process cx s ip r = Ok (s', rep, tags) ->
  exists m, Z.min W (l_len (r_payload r)) <= m /\
    rb_len (s_rx_buffer s') = rb_len (s_rx_buffer s) + m /\
    rb_cap (s_rx_buffer s') = rb_cap (s_rx_buffer s) /\
    s_remote_seq_no s' = s_remote_seq_no s /\ s_state s' = Established /\
    s_rx_fin_received s' = s_rx_fin_received s /\ s_remote_win_shift s' = s_remote_win_shift s /\
    ((exists p, rep = Some p /\ r_ack_number (snd p) = Some (tcp_window_start s') /\
                r_control (snd p) = CNone /\ r_payload (snd p) = [] /\
                s_remote_last_ack s' = Some (tcp_window_start s'))
     \/ (rep = None /\ s_remote_last_ack s' = s_remote_last_ack s /\
         s_remote_last_win s' = s_remote_last_win s)).
Proof. exact process_in_order. Qed.
Print Assumptions C02live_receiver_accepts_in_order.

(* whatever data/ACK segment of the peer arrives, RCV.NXT never moves back and a reply is an empty
   ACK carrying RCV.NXT *)
Theorem C02live_receiver_never_moves_back : forall cx s ip r s' rep tags,
  s_state s = Established -> rcv_wf s -> adv_ok s ->
  l_len (r_payload r) <= TcpRecvWindow.p30 -> 0 <= r_seq_number r < 4294967296 ->
  (r_control r = CNone \/ r_control r = CPsh) ->
  r_ack_number r = Some (s_local_seq_no s) ->
  0 <= s_local_seq_no s < 4294967296 -> 0 <= rb_len (s_tx_buffer s) < 2147483648 ->
  tcp_process cx s ip r = Ok (s', rep, tags) ->
  rcv_wf s' /\ rb_len (s_rx_buffer s) <= rb_len (s_rx_buffer s') /\
  rb_cap (s_rx_buffer s') = rb_cap (s_rx_buffer s) /\
  s_remote_seq_no s' = s_remote_seq_no s /\ s_state s' = Established /\
  s_rx_fin_received s' = s_rx_fin_received s /\
  pure_ack_of s' rep /\
  (rep = None -> s_remote_last_ack s' = s_remote_last_ack s).
Proof. exact process_rcv_mono. Qed.
Print Assumptions C02live_receiver_never_moves_back.

(* a data segment that is not acceptable (already received, beyond the window, window closed) is
   answered at once by an ACK carrying RCV.NXT *)
Theorem C02live_stale_data_acked_at_once : forall cx s ip r s' rep tags W d,
  s_state s = Established ->
  0 <= W <= TcpRecvWindow.p30 -> tcp_window_end s = seq_norm (tcp_window_start s + W) ->
  r_seq_number r = seq_norm (tcp_window_start s + d) -> -2147483648 <= d < 2147483648 ->
  0 < l_len (r_payload r) <= TcpRecvWindow.p30 ->
  ~ TcpRecvWindow.in_window_Z W d (l_len (r_payload r)) ->
  (r_control r = CNone \/ r_control r = CPsh) ->
  r_ack_number r = Some (s_local_seq_no s) ->
  0 <= s_local_seq_no s < 4294967296 -> 0 <= rb_len (s_tx_buffer s) < 2147483648 ->
  tcp_process cx s ip r = Ok (s', rep, tags) ->
  exists p, rep = Some p /\ pure_ack_of s' (Some p) /\ rcv_same s' s.
Proof. exact process_stale_data. Qed.
Print Assumptions C02live_stale_data_acked_at_once.

(* whatever an ESTABLISHED socket transmits carries ack = RCV.NXT and its current window; an owed
   ACK whose delay has expired is transmitted when the device accepts the frame *)
Theorem C02live_established_transmits_carry_rcv_nxt : forall cx s ok s' res tags t,
  s_state s = Established -> s_tuple s = Some t -> tu_local_addr t = cx_addr cx ->
  tcp_dispatch cx s ok = Ok (s', res, tags) ->
  (forall p, res = DSent p \/ res = DEmitFailed p ->
     r_ack_number (snd p) = Some (tcp_window_start s) /\ r_window_len (snd p) = tcp_scaled_window s /\
     r_control (snd p) <> CSyn) /\
  (tcp_ack_to_transmit s = true -> tcp_delayed_ack_expired s (cx_now cx) = true -> ok = true ->
   exists p, res = DSent p).
Proof. exact dispatch_established. Qed.
Print Assumptions C02live_established_transmits_carry_rcv_nxt.

(* ---------------------------------------------------------------------------------------------
   4. the sender's half of the interaction
   --------------------------------------------------------------------------------------------- *)
(* third duplicate ACK, window believed open: the dispatch sends again from SND.UNA *)
Theorem C02live_fast_retransmit_from_snd_una : forall cx s s' res tags,
  tcp_live_inv s -> s_state s = Established ->
  s_timer s = TFastRetransmit ->
  0 < rb_len (s_tx_buffer s) -> 0 < s_remote_win_len s ->
  s_timeout s = None ->
  (forall t, s_tuple s = Some t -> tu_local_addr t = cx_addr cx) ->
  mss_ok cx s ->
  tcp_dispatch cx s true = Ok (s', res, tags) ->
  exists ip repr,
    res = DSent (ip, repr) /\
    r_seq_number repr = s_local_seq_no s /\ 0 < repr_segment_len repr /\
    (exists e', s_timer s' = TRetransmit e' /\ cx_now cx < e' <= cx_now cx + max_rto_us) /\
    s_local_seq_no s' = s_local_seq_no s /\ s_state s' = s_state s.
Proof. exact fast_retransmits. Qed.
Print Assumptions C02live_fast_retransmit_from_snd_una.

(* nothing in flight, something unacknowledged, window not closed: the dispatch sends from SND.UNA
   and arms the retransmission timer *)
Theorem C02live_idle_transmit_from_snd_una : forall cx s s' res tags,
  tcp_live_inv s -> tcp_need s ->
  timer_is_idle (s_timer s) = true -> s_remote_last_seq s = s_local_seq_no s ->
  s_timeout s = None ->
  (forall t, s_tuple s = Some t -> tu_local_addr t = cx_addr cx) ->
  (0 < rb_len (s_tx_buffer s) -> s_remote_win_len s <> 0) ->
  mss_ok cx s ->
  tcp_dispatch cx s true = Ok (s', res, tags) ->
  exists ip repr,
    res = DSent (ip, repr) /\
    r_seq_number repr = s_local_seq_no s /\ 0 < repr_segment_len repr /\
    (exists e', s_timer s' = TRetransmit e' /\ cx_now cx < e' <= cx_now cx + max_rto_us) /\
    s_local_seq_no s' = s_local_seq_no s /\ s_state s' = s_state s.
Proof. exact idle_transmits. Qed.
Print Assumptions C02live_idle_transmit_from_snd_una.

(* a retransmission timer that is not yet due survives a dispatch (its deadline does not move) *)
Theorem C02live_undue_rto_survives_dispatch : forall cx s t ok s' res tags e,
  tcp_live_inv s -> s_state s = Established -> s_timeout s = None ->
  s_tuple s = Some t -> tu_local_addr t = cx_addr cx ->
  s_timer s = TRetransmit e -> cx_now cx < e ->
  tcp_dispatch cx s ok = Ok (s', res, tags) -> s_timer s' = TRetransmit e.
Proof. exact dispatch_not_due. Qed.
Print Assumptions C02live_undue_rto_survives_dispatch.

(* while octets are unacknowledged and no probe timer runs, poll_at is Now or an instant not later
   than the retransmission deadline: a fair schedule cannot let the clock pass that deadline *)
Theorem C02live_poll_at_bounded_by_rto_deadline : forall cx s,
  tcp_live_inv s -> tcp_need s ->
  timer_is_zero_window_probe (s_timer s) = false ->
  (0 < rb_len (s_tx_buffer s) -> s_remote_win_len s <> 0) ->
  match tcp_poll_at cx s with
  | Ok Tcp.PNow => True
  | Ok (Tcp.PTime t) => exists e, s_timer s = TRetransmit e /\ t <= e
  | Ok Tcp.PIngress => False
  | _ => True
  end.
Proof. exact poll_at_ready. Qed.
Print Assumptions C02live_poll_at_bounded_by_rto_deadline.

(* any segment: the transmit queue shrinks (SND.UNA advanced), or SND.UNA, the queue and the
   retransmission deadline are as before (or "fast retransmit now" / idle / probe armed) *)
Theorem C02live_sender_progress_or_deadline_kept : forall cx s ip r s' reply tags,
  ctx_ok cx -> seg_ok r -> tcp_live_inv s ->
  s_state s = Established -> s_state s' = Established ->
  timer_is_zero_window_probe (s_timer s) = false ->
  rb_len (s_tx_buffer s) < 2 ^ 31 ->
  tcp_process cx s ip r = Ok (s', reply, tags) ->
  rb_len (s_tx_buffer s') < rb_len (s_tx_buffer s) \/
  (s_local_seq_no s' = s_local_seq_no s /\ s_tx_buffer s' = s_tx_buffer s /\
   (s_timer s' = s_timer s \/ s_timer s' = TFastRetransmit \/ timer_is_idle (s_timer s') = true \/
    timer_is_zero_window_probe (s_timer s') = true)).
Proof. exact process_sender_step. Qed.
Print Assumptions C02live_sender_progress_or_deadline_kept.

(* ---------------------------------------------------------------------------------------------
   5. the composition (two sockets, every fair schedule)
   --------------------------------------------------------------------------------------------- *)
(* STEP 2.  x has unacknowledged octets and y's RCV.NXT stands at x's SND.UNA.  On every fair run
   (with the safety input above) whose clock advances by more than RTTE_MAX_RTO + Dt, the run passes
   through a state in which y has accepted the oldest unacknowledged octet. *)
Theorem C02live_retransmission_eventually_delivered_partial : forall x Dt Da evs fa st st' u0,
  0 <= Dt ->
  NI st -> opts_ok st -> dl_sync Da fa st ->
  run_all (oneway_safe x) st evs -> fair_run Dt Da fa st evs -> net_run st evs = Ok st' ->
  0 < txl x st -> una_off (net_get st x) = u0 -> rcv_off (net_get st (side_other x)) = u0 ->
  net_now st x + max_rto_us + Dt < net_now st' x ->
  exists pre post st1, evs = pre ++ post /\ net_run st pre = Ok st1 /\ net_run st1 post = Ok st' /\
                       Qf x u0 st1.
Proof. exact retransmission_eventually_delivered. Qed.
Print Assumptions C02live_retransmission_eventually_delivered_partial.

(* a retransmission (a data segment that starts at or below RCV.NXT): its new part is accepted
   (RCV.NXT advances, ACK owed) or an ACK of RCV.NXT goes out at once *)
Theorem C02live_receiver_accepts_retransmission : forall cx s ip r s' rep tags W k,
  s_state s = Established -> rcv_wf s ->
  tcp_window_end s = seq_norm (tcp_window_start s + W) -> 0 <= W <= TcpRecvWindow.p30 ->
  r_seq_number r = seq_norm (tcp_window_start s - k) -> 0 <= k <= TcpRecvWindow.p30 ->
  0 < l_len (r_payload r) <= TcpRecvWindow.p30 ->
  (r_control r = CNone \/ r_control r = CPsh) ->
  r_ack_number r = Some (s_local_seq_no s) ->
  0 <= s_local_seq_no s < 4294967296 -> 0 <= rb_len (s_tx_buffer s) < 2147483648 ->
  tcp_process cx s ip r = Ok (s', rep, tags) ->
  s_remote_seq_no s' = s_remote_seq_no s /\ s_state s' = Established /\
  s_rx_fin_received s' = s_rx_fin_received s /\
  ((exists p, rep = Some p /\ pure_ack_of s' (Some p) /\
              rb_len (s_rx_buffer s) <= rb_len (s_rx_buffer s') /\
              (0 < W -> k = 0 -> rb_len (s_rx_buffer s) < rb_len (s_rx_buffer s')))
   \/ (rep = None /\ s_remote_last_ack s' = s_remote_last_ack s /\
       exists m, 1 <= m /\ rb_len (s_rx_buffer s') = rb_len (s_rx_buffer s) + m)).
Proof. exact process_data_below. Qed.
Print Assumptions C02live_receiver_accepts_retransmission.

(* an owed ACK shows in poll_at: Now, or an instant not later than the delayed-ACK deadline *)
Theorem C02live_poll_at_while_ack_owed : forall cx s,
  s_tuple s <> None -> tcp_ack_to_transmit s = true ->
  match tcp_poll_at cx s with
  | Ok Tcp.PNow => True
  | Ok (Tcp.PTime t) => exists t0, s_ack_delay_timer s = ADWaiting t0 /\ t <= t0
  | Ok Tcp.PIngress => False
  | _ => True
  end.
Proof. exact poll_at_owed. Qed.
Print Assumptions C02live_poll_at_while_ack_owed.

(* an empty segment at RCV.NXT that acknowledges d > 0 queued octets IS accepted: the octets leave
   the queue (SND.UNA advances by d) *)
Theorem C02live_ack_of_new_data_accepted : forall cx s ip r s' reply tags d W,
  ctx_ok cx -> seg_ok r -> tcp_live_inv s -> s_state s = Established ->
  r_control r = CNone -> r_payload r = [] ->
  r_seq_number r = tcp_window_start s ->
  tcp_window_end s = seq_norm (tcp_window_start s + W) -> 0 <= W <= 2 ^ 30 ->
  r_ack_number r = Some (sq (s_local_seq_no s + d)) ->
  0 < d <= rb_len (s_tx_buffer s) -> rb_len (s_tx_buffer s) < 2 ^ 30 ->
  tcp_process cx s ip r = Ok (s', reply, tags) ->
  rb_len (s_tx_buffer s') = rb_len (s_tx_buffer s) - d.
Proof. exact process_ack_advances. Qed.
Print Assumptions C02live_ack_of_new_data_accepted.

(* STEP 3 (and one whole round).  x has unacknowledged octets.  On every fair run (safety input
   [safe3] = oneway_safe + ack_safe) whose clock advances by more than RTTE_MAX_RTO + 2 Dt + Dack,
   SND.UNA of x advances inside the run - no later than that bound after the start - and the rest
   of the run is again a fair run from the progress state. *)
Theorem C02live_ack_eventually_advances_snd_una_partial : forall x Dt Da Dack evs fa st st' u0,
  0 <= Dt -> 0 <= Dack ->
  NI st -> opts_ok st -> dl_sync Da fa st ->
  run_all (safe3 x Dack) st evs -> fair_run Dt Da fa st evs -> net_run st evs = Ok st' ->
  0 < txl x st -> una_off (net_get st x) = u0 ->
  net_now st x + max_rto_us + 2 * Dt + Dack < net_now st' x ->
  exists pre post fa1 st1,
    evs = pre ++ post /\ net_run st pre = Ok st1 /\ net_run st1 post = Ok st' /\
    run_all (safe3 x Dack) st1 post /\ fair_run Dt Da fa1 st1 post /\
    NI st1 /\ opts_ok st1 /\ dl_sync Da fa1 st1 /\
    Qg x u0 st1 /\ net_now st1 x <= net_now st x + max_rto_us + 2 * Dt + Dack.
Proof. exact ack_round. Qed.
Print Assumptions C02live_ack_eventually_advances_snd_una_partial.

(* STEP 5 (data).  Every octet written so far is acknowledged, hence accepted by the peer's receive
   path, before the clock has advanced by n * (RTTE_MAX_RTO + 2 Dt + Dack), n bounding the number of
   octets still unacknowledged: induction over the rounds. *)
Theorem C02live_all_written_bytes_eventually_acked_partial : forall x Dt Da Dack n evs fa st st' L0,
  0 <= Dt -> 0 <= Dack ->
  NI st -> opts_ok st -> dl_sync Da fa st ->
  run_all (safe3 x Dack) st evs -> fair_run Dt Da fa st evs -> net_run st evs = Ok st' ->
  L0 <= l_len (ep_written (net_get st x)) ->
  L0 - una_off (net_get st x) <= Z.of_nat n ->
  net_now st x + Z.of_nat n * W3 Dt Dack < net_now st' x ->
  exists pre post st1, evs = pre ++ post /\ net_run st pre = Ok st1 /\ net_run st1 post = Ok st' /\
                       L0 <= una_off (net_get st1 x) /\ L0 <= rcv_off (net_get st1 (side_other x)).
Proof. exact all_written_bytes_eventually_acked. Qed.
Print Assumptions C02live_all_written_bytes_eventually_acked_partial.

(* NI holds in the initial state of the system model (hence, with C02live_run_invariant, in every
   state of every run): NoControl / Reno with a positive window, clocks not negative *)
Theorem C02live_run_invariant_initial : forall ca cb st,
  cc_ok (c_cc ca) -> cc_ok (c_cc cb) -> 0 <= c_now ca -> 0 <= c_now cb ->
  net_init ca cb = Ok st -> NI st.
Proof. exact NI_init. Qed.
Print Assumptions C02live_run_invariant_initial.

(* STEP 5, the property's own words for the data part: every octet accepted by send (the L0 octets
   written so far) is eventually DELIVERED TO THE PEER APPLICATION, on every fair run of the regime:
   before the clock has advanced by n * W3 + m * Da (n: octets unacknowledged, m: octets the peer
   application has still to read, W3 = RTTE_MAX_RTO + 2 Dt + Dack). *)
Theorem C02live_all_written_bytes_eventually_delivered_partial : forall x Dt Da Dack n m evs fa st st' L0,
  0 <= Dt -> 0 <= Dack -> 0 <= Da ->
  NI st -> opts_ok st -> dl_sync Da fa st ->
  run_all (safe3 x Dack) st evs -> fair_run Dt Da fa st evs -> net_run st evs = Ok st' ->
  L0 <= l_len (ep_written (net_get st x)) ->
  L0 - una_off (net_get st x) <= Z.of_nat n ->
  L0 - read_off (net_get st (side_other x)) <= Z.of_nat m ->
  net_now st x + Z.of_nat n * W3 Dt Dack + Z.of_nat m * Da < net_now st' x ->
  exists pre post st1, evs = pre ++ post /\ net_run st pre = Ok st1 /\ net_run st1 post = Ok st' /\
                       L0 <= read_off (net_get st1 (side_other x)).
Proof. exact all_written_bytes_eventually_delivered. Qed.
Print Assumptions C02live_all_written_bytes_eventually_delivered_partial.

(* NON-VACUITY of the composition: a run from net_init with a LOSSY prefix (A's data segment is
   dropped) and a fair suffix (retransmission at the RTO deadline, delivery, the application reads,
   delayed ACK, then more than 5 rounds of time) satisfies EVERY hypothesis of the step-5 theorem -
   the run hypotheses [safe3] are checked in every state of the suffix by a decision procedure proved
   sound - ... *)
Theorem C02live_composition_hypotheses_satisfiable :
  exists st0 st st',
    net_init ex_cfg_a ex_cfg_b = Ok st0 /\ net_run st0 wit_prefix = Ok st /\
    NI st /\ opts_ok st /\ dl_sync 5000 (fa_init 5000 5000 st) st /\
    run_all (safe3 SA 10000) st wit_suffix /\ fair_run 5000 5000 (fa_init 5000 5000 st) st wit_suffix /\
    net_run st wit_suffix = Ok st' /\
    5 <= l_len (ep_written (net_get st SA)) /\ 5 - una_off (net_get st SA) <= Z.of_nat 5 /\
    5 - read_off (net_get st SB) <= Z.of_nat 5 /\ 0 <= 5000 /\ 0 <= 5000 /\ 0 <= 10000 /\
    net_now st SA + Z.of_nat 5 * W3 5000 10000 + Z.of_nat 5 * 5000 < net_now st' SA.
Proof. exact composition_hypotheses_satisfiable. Qed.
Print Assumptions C02live_composition_hypotheses_satisfiable.

(* ... and the prefix really loses a segment *)
Theorem C02live_witness_prefix_is_lossy : In (NDrop SB 2) wit_prefix.
Proof. exact wit_prefix_lossy. Qed.
Print Assumptions C02live_witness_prefix_is_lossy.

(* ... so the theorem applies: the run passes through a state in which all 5 octets have been handed
   to B's application *)
Theorem C02live_composition_applies :
  exists st0 st st',
    net_init ex_cfg_a ex_cfg_b = Ok st0 /\ net_run st0 wit_prefix = Ok st /\ net_run st wit_suffix = Ok st' /\
    exists pre post st1, wit_suffix = pre ++ post /\ net_run st pre = Ok st1 /\ net_run st1 post = Ok st' /\
                         5 <= read_off (net_get st1 SB).
Proof. exact composition_applies. Qed.
Print Assumptions C02live_composition_applies.

(* ---------------------------------------------------------------------------------------------
   6. STEP 4 (zero window): PARTIAL - the socket-level reactions only.  Missing: their composition
   over fair schedules in the regime "remote window believed closed" (window-update path: reader
   reads -> update due at once -> delivered -> learned; probe path: probe timer <= RTTE_MAX_RTO ->
   one octet from SND.UNA -> answered by an ACK carrying the current window -> learned).
   --------------------------------------------------------------------------------------------- *)
(* reader side: once window_to_update holds, poll_at is Now *)
Theorem C02live_zero_window_update_due_partial : forall cx s,
  s_tuple s <> None -> tcp_window_to_update s = Ok true ->
  match tcp_poll_at cx s with Ok Tcp.PNow => True | Ok _ => False | _ => True end.
Proof. exact window_update_due. Qed.
Print Assumptions C02live_zero_window_update_due_partial.

(* sender side: an empty segment at RCV.NXT carrying a window w > 0 is accepted and the learned remote
   window becomes w << scale > 0 *)
Theorem C02live_zero_window_update_learned_partial : forall cx s ip r s' reply tags d W,
  ctx_ok cx -> seg_ok r -> tcp_live_inv s -> s_state s = Established ->
  r_control r = CNone -> r_payload r = [] ->
  r_seq_number r = tcp_window_start s ->
  tcp_window_end s = seq_norm (tcp_window_start s + W) -> 0 <= W <= 2 ^ 30 ->
  r_ack_number r = Some (sq (s_local_seq_no s + d)) ->
  0 <= d <= rb_len (s_tx_buffer s) -> rb_len (s_tx_buffer s) < 2 ^ 30 ->
  0 < r_window_len r ->
  tcp_process cx s ip r = Ok (s', reply, tags) ->
  s_remote_win_len s' = shl (r_window_len r) (win_scale_of s r) /\ 0 < s_remote_win_len s' /\
  rb_len (s_tx_buffer s') = rb_len (s_tx_buffer s) - d.
Proof. exact window_update_learned. Qed.
Print Assumptions C02live_zero_window_update_learned_partial.

(* sender side: probe timer due, window believed closed, nothing in flight: exactly one octet from
   SND.UNA is sent and the probe timer re-armed within (now, now + RTTE_MAX_RTO] *)
Theorem C02live_zero_window_probe_sent_partial : forall cx s e d0 s' res tags,
  tcp_live_inv s -> s_state s = Established ->
  s_timer s = TZeroWindowProbe e d0 -> e <= cx_now cx -> 0 < d0 ->
  s_remote_win_len s = 0 -> 0 < rb_len (s_tx_buffer s) ->
  s_remote_last_seq s = s_local_seq_no s ->
  s_timeout s = None ->
  (forall t, s_tuple s = Some t -> tu_local_addr t = cx_addr cx) ->
  mss_ok cx s ->
  tcp_dispatch cx s true = Ok (s', res, tags) ->
  exists ip repr,
    res = DSent (ip, repr) /\
    r_seq_number repr = s_local_seq_no s /\ l_len (r_payload repr) = 1 /\
    (exists e' d', s_timer s' = TZeroWindowProbe e' d' /\ cx_now cx < e' <= cx_now cx + max_rto_us) /\
    s_local_seq_no s' = s_local_seq_no s /\ s_state s' = s_state s.
Proof. exact zero_window_probe_sent. Qed.
Print Assumptions C02live_zero_window_probe_sent_partial.
