(* Property C06 — wire representations survive emit-then-parse unchanged.
   One block of theorems per wire format (append new formats at the end).  This file contains
   only the property theorems (each closed by [exact]) and [Print Assumptions]; statements are
   pinned in Pins/C06.v.  For every format F:
     F_emit_no_panic           wf r -> |b| = buffer_len r -> emit r b <> Panic
     F_emit_ignores_old_bytes  emit r b1 = emit r b2 for buffers of the declared length
     F_roundtrip               parse (emit r b) = Ok r        (and the payload is read back)
     F_reparse                 parse bs = Ok r -> wf r /\ parse (emit r b) = Ok r
   [wf] is the format's precise reading of the proviso "its variable-length parts fit what the
   protocol permits" (justified clause by clause in Model/Wire<F>.v).  Header-only
   representations (Ethernet, IPv4, IPv6) additionally have F_emit_frame: emitting into a longer
   buffer (header followed by payload space, as in the crate's documentation example) writes the
   same header and leaves the rest untouched; their round trip is stated for the header followed
   by any payload of the announced length. *)
From SV Require Import Lib.Base Gen.WireFields Model.WireBase Proofs.WireBaseProofs.
From SV Require Import Model.WireEth Proofs.WireEthProofs.
From SV Require Import Model.WireArp Proofs.WireArpProofs.
From SV Require Import Model.WireUdp Proofs.WireUdpProofs.
From SV Require Import Model.WireIpv4 Proofs.WireIpv4Proofs.
From SV Require Import Model.WireIpv6 Proofs.WireIpv6Proofs.
From SV Require Import Model.WireIcmpv4 Proofs.WireIcmpv4Proofs.
From SV Require Import Model.WireIcmpv6 Proofs.WireIcmpv6Proofs.
From SV Require Import Model.WireTcp Proofs.WireTcpProofs Proofs.WireTcpEmitProofs.
From SV Require Import Proofs.WireTcpParseProofs Proofs.WireTcpReparseProofs.

(* ---------------- Ethernet II (src/wire/ethernet.rs) ---------------- *)

Theorem C06_eth_emit_no_panic : forall r b,
  eth_wf r = true -> blen b = eth_buffer_len r -> eth_emit r b <> Panic.
Proof. exact eth_emit_no_panic. Qed.
Print Assumptions C06_eth_emit_no_panic.

Theorem C06_eth_emit_ignores_old_bytes : forall r b1 b2,
  eth_wf r = true -> blen b1 = eth_buffer_len r -> blen b2 = eth_buffer_len r ->
  eth_emit r b1 = eth_emit r b2.
Proof. exact eth_emit_ignores_old_bytes. Qed.
Print Assumptions C06_eth_emit_ignores_old_bytes.

Theorem C06_eth_emit_frame : forall r h t,
  blen h = eth_buffer_len r -> eth_emit r (h ++ t) = omap (fun x => x ++ t) (eth_emit r h).
Proof. exact eth_emit_frame. Qed.
Print Assumptions C06_eth_emit_frame.

Theorem C06_eth_roundtrip : forall r b,
  eth_wf r = true -> blen b = eth_buffer_len r ->
  exists bs, eth_emit r b = Ok bs /\ blen bs = eth_buffer_len r /\
             forall payload, eth_parse (bs ++ payload) = Ok r.
Proof. exact eth_roundtrip. Qed.
Print Assumptions C06_eth_roundtrip.

Theorem C06_eth_reparse : forall bs r,
  bytes_ok bs = true -> eth_parse bs = Ok r ->
  eth_wf r = true /\
  forall b, blen b = eth_buffer_len r ->
    exists bs', eth_emit r b = Ok bs' /\ forall payload, eth_parse (bs' ++ payload) = Ok r.
Proof. exact eth_reparse. Qed.
Print Assumptions C06_eth_reparse.

(* ---------------- ARP (src/wire/arp.rs) ---------------- *)

Theorem C06_arp_emit_no_panic : forall r b,
  arp_wf r = true -> blen b = arp_buffer_len r -> arp_emit r b <> Panic.
Proof. exact arp_emit_no_panic. Qed.
Print Assumptions C06_arp_emit_no_panic.

Theorem C06_arp_emit_ignores_old_bytes : forall r b1 b2,
  arp_wf r = true -> blen b1 = arp_buffer_len r -> blen b2 = arp_buffer_len r ->
  arp_emit r b1 = arp_emit r b2.
Proof. exact arp_emit_ignores_old_bytes. Qed.
Print Assumptions C06_arp_emit_ignores_old_bytes.

Theorem C06_arp_roundtrip : forall r b,
  arp_wf r = true -> blen b = arp_buffer_len r ->
  exists bs, arp_emit r b = Ok bs /\ blen bs = arp_buffer_len r /\ arp_parse bs = Ok r.
Proof. exact arp_roundtrip. Qed.
Print Assumptions C06_arp_roundtrip.

Theorem C06_arp_reparse : forall bs r,
  bytes_ok bs = true -> arp_parse bs = Ok r ->
  arp_wf r = true /\
  forall b, blen b = arp_buffer_len r ->
    exists bs', arp_emit r b = Ok bs' /\ arp_parse bs' = Ok r.
Proof. exact arp_reparse. Qed.
Print Assumptions C06_arp_reparse.

(* ---------------- UDP (src/wire/udp.rs) ----------------
   [sum_ok]/[sum_fill] are the RFC 1071 verification / fill functions for the address pair of
   the call (property C08); [udp_cksum_link] = "a filled-in checksum verifies and is a u16".
   [tx]/[rx] are ChecksumCapabilities.udp.tx()/rx(); the round trip holds for every combination
   under which a receiver can accept what the sender produced: a verifying receiver (rx) needs a
   computed checksum (tx) unless both addresses are IPv4, where a zero checksum means "none". *)

Theorem C06_udp_emit_no_panic : forall (sum_ok : list Z -> bool) sum_fill tx r payload b,
  udp_wf r payload = true -> blen b = udp_buffer_len r payload ->
  udp_emit sum_fill tx r payload b <> Panic.
Proof. exact udp_emit_no_panic. Qed.
Print Assumptions C06_udp_emit_no_panic.

Theorem C06_udp_emit_ignores_old_bytes : forall (sum_ok : list Z -> bool) sum_fill tx r payload b1 b2,
  udp_wf r payload = true ->
  blen b1 = udp_buffer_len r payload -> blen b2 = udp_buffer_len r payload ->
  udp_emit sum_fill tx r payload b1 = udp_emit sum_fill tx r payload b2.
Proof. exact udp_emit_ignores_old_bytes. Qed.
Print Assumptions C06_udp_emit_ignores_old_bytes.

Theorem C06_udp_roundtrip : forall sum_ok sum_fill is_v4 tx rx r payload b,
  udp_cksum_link sum_ok sum_fill -> udp_wf r payload = true ->
  (rx = true -> tx = true \/ is_v4 = true) ->
  blen b = udp_buffer_len r payload ->
  exists bs, udp_emit sum_fill tx r payload b = Ok bs /\ blen bs = udp_buffer_len r payload /\
             udp_parse sum_ok is_v4 rx bs = Ok r /\ udp_payload bs = Ok payload.
Proof. exact udp_roundtrip. Qed.
Print Assumptions C06_udp_roundtrip.

Theorem C06_udp_reparse : forall sum_ok sum_fill is_v4 tx rx bs r p,
  udp_cksum_link sum_ok sum_fill -> bytes_ok bs = true ->
  (rx = true -> tx = true \/ is_v4 = true) ->
  udp_parse sum_ok is_v4 rx bs = Ok r -> udp_payload bs = Ok p ->
  udp_wf r p = true /\
  forall b, blen b = udp_buffer_len r p ->
    exists bs', udp_emit sum_fill tx r p b = Ok bs' /\
                udp_parse sum_ok is_v4 rx bs' = Ok r /\ udp_payload bs' = Ok p.
Proof. exact udp_reparse. Qed.
Print Assumptions C06_udp_reparse.

(* ---------------- IPv4 header (src/wire/ipv4.rs) ----------------
   [sum_ok]/[sum_fill]: RFC 1071 verification / fill over the header (property C08);
   a verifying receiver (rx) needs a computed checksum (tx). *)

Theorem C06_ipv4_emit_no_panic : forall (sum_ok : list Z -> bool) sum_fill tx r b,
  ipv4_wf r = true -> blen b = ipv4_buffer_len r -> ipv4_emit sum_fill tx r b <> Panic.
Proof. exact ipv4_emit_no_panic. Qed.
Print Assumptions C06_ipv4_emit_no_panic.

Theorem C06_ipv4_emit_ignores_old_bytes : forall (sum_ok : list Z -> bool) sum_fill tx r b1 b2,
  ipv4_wf r = true -> blen b1 = ipv4_buffer_len r -> blen b2 = ipv4_buffer_len r ->
  ipv4_emit sum_fill tx r b1 = ipv4_emit sum_fill tx r b2.
Proof. exact ipv4_emit_ignores_old_bytes. Qed.
Print Assumptions C06_ipv4_emit_ignores_old_bytes.

Theorem C06_ipv4_emit_frame : forall (sum_ok : list Z -> bool) sum_fill tx r h t,
  ipv4_wf r = true -> blen h = ipv4_buffer_len r ->
  ipv4_emit sum_fill tx r (h ++ t) = omap (fun x => x ++ t) (ipv4_emit sum_fill tx r h).
Proof. exact ipv4_emit_frame. Qed.
Print Assumptions C06_ipv4_emit_frame.

Theorem C06_ipv4_roundtrip : forall sum_ok sum_fill tx rx r b,
  ipv4_cksum_link sum_ok sum_fill -> ipv4_wf r = true -> (rx = true -> tx = true) ->
  blen b = ipv4_buffer_len r ->
  exists bs, ipv4_emit sum_fill tx r b = Ok bs /\ blen bs = ipv4_buffer_len r /\
    forall payload, blen payload = ipv4_payload_len r ->
      ipv4_parse sum_ok rx (bs ++ payload) = Ok r /\ ipv4_payload (bs ++ payload) = Ok payload.
Proof. exact ipv4_roundtrip. Qed.
Print Assumptions C06_ipv4_roundtrip.

Theorem C06_ipv4_reparse : forall sum_ok sum_fill tx rx bs r,
  ipv4_cksum_link sum_ok sum_fill -> bytes_ok bs = true -> (rx = true -> tx = true) ->
  ipv4_parse sum_ok rx bs = Ok r ->
  ipv4_wf r = true /\
  forall b, blen b = ipv4_buffer_len r ->
    exists bs', ipv4_emit sum_fill tx r b = Ok bs' /\
      forall payload, blen payload = ipv4_payload_len r -> ipv4_parse sum_ok rx (bs' ++ payload) = Ok r.
Proof. exact ipv4_reparse. Qed.
Print Assumptions C06_ipv4_reparse.

(* ---------------- IPv6 header (src/wire/ipv6.rs) ---------------- *)

Theorem C06_ipv6_emit_no_panic : forall r b,
  ipv6_wf r = true -> blen b = ipv6_buffer_len r -> ipv6_emit r b <> Panic.
Proof. exact ipv6_emit_no_panic. Qed.
Print Assumptions C06_ipv6_emit_no_panic.

Theorem C06_ipv6_emit_ignores_old_bytes : forall r b1 b2,
  ipv6_wf r = true -> blen b1 = ipv6_buffer_len r -> blen b2 = ipv6_buffer_len r ->
  ipv6_emit r b1 = ipv6_emit r b2.
Proof. exact ipv6_emit_ignores_old_bytes. Qed.
Print Assumptions C06_ipv6_emit_ignores_old_bytes.

Theorem C06_ipv6_emit_frame : forall r h t,
  ipv6_wf r = true -> blen h = ipv6_buffer_len r ->
  ipv6_emit r (h ++ t) = omap (fun x => x ++ t) (ipv6_emit r h).
Proof. exact ipv6_emit_frame. Qed.
Print Assumptions C06_ipv6_emit_frame.

Theorem C06_ipv6_roundtrip : forall r b,
  ipv6_wf r = true -> blen b = ipv6_buffer_len r ->
  exists bs, ipv6_emit r b = Ok bs /\ blen bs = ipv6_buffer_len r /\
    forall payload, blen payload = ipv6_payload_len r ->
      ipv6_parse (bs ++ payload) = Ok r /\ ipv6_payload (bs ++ payload) = Ok payload.
Proof. exact ipv6_roundtrip. Qed.
Print Assumptions C06_ipv6_roundtrip.

Theorem C06_ipv6_reparse : forall bs r,
  bytes_ok bs = true -> ipv6_parse bs = Ok r ->
  ipv6_wf r = true /\
  forall b, blen b = ipv6_buffer_len r ->
    exists bs', ipv6_emit r b = Ok bs' /\
      forall payload, blen payload = ipv6_payload_len r -> ipv6_parse (bs' ++ payload) = Ok r.
Proof. exact ipv6_reparse. Qed.
Print Assumptions C06_ipv6_reparse.

(* ---------------- ICMPv4 (src/wire/icmpv4.rs): echo request/reply, destination unreachable,
   time exceeded ----------------
   [tx]/[rx] = checksum_caps.icmpv4.tx()/rx(), [tx4] = checksum_caps.ipv4.tx() (embedded header).
   Re-parse is stated for messages that fit an IPv4 datagram (|bs| <= 65535). *)

Theorem C06_icmpv4_emit_no_panic : forall (sum_ok : list Z -> bool) sum_fill tx tx4 r b,
  icmpv4_wf r = true -> blen b = icmpv4_buffer_len r -> icmpv4_emit sum_fill tx tx4 r b <> Panic.
Proof. exact icmpv4_emit_no_panic. Qed.
Print Assumptions C06_icmpv4_emit_no_panic.

Theorem C06_icmpv4_emit_ignores_old_bytes : forall (sum_ok : list Z -> bool) sum_fill tx tx4 r b1 b2,
  icmpv4_wf r = true -> blen b1 = icmpv4_buffer_len r -> blen b2 = icmpv4_buffer_len r ->
  icmpv4_emit sum_fill tx tx4 r b1 = icmpv4_emit sum_fill tx tx4 r b2.
Proof. exact icmpv4_emit_ignores_old_bytes. Qed.
Print Assumptions C06_icmpv4_emit_ignores_old_bytes.

Theorem C06_icmpv4_roundtrip : forall sum_ok sum_fill tx tx4 rx r b,
  icmpv4_cksum_link sum_ok sum_fill -> icmpv4_wf r = true -> (rx = true -> tx = true) ->
  blen b = icmpv4_buffer_len r ->
  exists bs, icmpv4_emit sum_fill tx tx4 r b = Ok bs /\ blen bs = icmpv4_buffer_len r /\
             icmpv4_parse sum_ok rx bs = Ok r.
Proof. exact icmpv4_roundtrip. Qed.
Print Assumptions C06_icmpv4_roundtrip.

Theorem C06_icmpv4_reparse : forall sum_ok sum_fill tx tx4 rx bs r,
  icmpv4_cksum_link sum_ok sum_fill -> bytes_ok bs = true -> blen bs <= 65535 ->
  (rx = true -> tx = true) -> icmpv4_parse sum_ok rx bs = Ok r ->
  icmpv4_wf r = true /\
  forall b, blen b = icmpv4_buffer_len r ->
    exists bs', icmpv4_emit sum_fill tx tx4 r b = Ok bs' /\ icmpv4_parse sum_ok rx bs' = Ok r.
Proof. exact icmpv4_reparse. Qed.
Print Assumptions C06_icmpv4_reparse.

(* ---------------- ICMPv6, RFC 4443 messages (src/wire/icmpv6.rs): destination unreachable, packet
   too big, time exceeded, parameter problem, echo request/reply ----------------
   Re-parse of an error message is stated for messages within the RFC 4443 2.4(c) limit
   (|bs| <= MAX_ERROR_PACKET_LEN = IPV6_MIN_MTU - 40); NDISC and MLD messages are delegated. *)

Theorem C06_icmpv6_emit_no_panic : forall (sum_ok : list Z -> bool) sum_fill tx r b,
  icmpv6_wf r = true -> blen b = icmpv6_buffer_len r -> icmpv6_emit sum_fill tx r b <> Panic.
Proof. exact icmpv6_emit_no_panic. Qed.
Print Assumptions C06_icmpv6_emit_no_panic.

Theorem C06_icmpv6_emit_ignores_old_bytes : forall (sum_ok : list Z -> bool) sum_fill tx r b1 b2,
  icmpv6_wf r = true -> blen b1 = icmpv6_buffer_len r -> blen b2 = icmpv6_buffer_len r ->
  icmpv6_emit sum_fill tx r b1 = icmpv6_emit sum_fill tx r b2.
Proof. exact icmpv6_emit_ignores_old_bytes. Qed.
Print Assumptions C06_icmpv6_emit_ignores_old_bytes.

Theorem C06_icmpv6_roundtrip : forall sum_ok sum_fill tx rx r b,
  icmpv6_cksum_link sum_ok sum_fill -> icmpv6_wf r = true -> (rx = true -> tx = true) ->
  blen b = icmpv6_buffer_len r ->
  exists bs, icmpv6_emit sum_fill tx r b = Ok bs /\ blen bs = icmpv6_buffer_len r /\
             icmpv6_parse sum_ok rx bs = Ok r.
Proof. exact icmpv6_roundtrip. Qed.
Print Assumptions C06_icmpv6_roundtrip.

Theorem C06_icmpv6_reparse : forall sum_ok sum_fill tx rx bs r,
  icmpv6_cksum_link sum_ok sum_fill -> bytes_ok bs = true ->
  (icmpv6_repr_is_error r = true -> blen bs <= icmpv6_MAX_ERROR_PACKET_LEN) ->
  (rx = true -> tx = true) -> icmpv6_parse sum_ok rx bs = Ok r ->
  icmpv6_wf r = true /\
  forall b, blen b = icmpv6_buffer_len r ->
    exists bs', icmpv6_emit sum_fill tx r b = Ok bs' /\ icmpv6_parse sum_ok rx bs' = Ok r.
Proof. exact icmpv6_reparse. Qed.
Print Assumptions C06_icmpv6_reparse.

(* ---------------- TCP incl. all options (src/wire/tcp.rs) ----------------
   [tcp_wf] is the proviso (Model/WireTcp.v): ports <> 0, window scale <= 14, option space <= 40,
   SACK ranges a prefix of the array and only with an ACK and without SACK-permitted (decision on
   candidate defect D15).  Every clause except the last ([tcp_sack_ok]) holds of whatever Repr::parse
   accepts; re-parse is therefore stated for parsed representations with [tcp_sack_ok r = true]
   (a received segment carrying SACK ranges without ACK, or together with SACK-permitted, parses
   but is re-emitted without the ranges). *)

Theorem C06_tcp_emit_no_panic : forall sum_fill tx r b,
  tcp_wf r = true -> blen b = tcp_buffer_len r -> tcp_emit sum_fill tx r b <> Panic.
Proof. exact tcp_emit_no_panic. Qed.
Print Assumptions C06_tcp_emit_no_panic.

Theorem C06_tcp_emit_ignores_old_bytes : forall sum_fill tx r b1 b2,
  tcp_wf r = true -> blen b1 = tcp_buffer_len r -> blen b2 = tcp_buffer_len r ->
  tcp_emit sum_fill tx r b1 = tcp_emit sum_fill tx r b2.
Proof. exact tcp_emit_ignores_old_bytes. Qed.
Print Assumptions C06_tcp_emit_ignores_old_bytes.

Theorem C06_tcp_roundtrip : forall sum_ok sum_fill tx rx r b,
  tcp_cksum_link sum_ok sum_fill -> tcp_wf r = true -> (rx = true -> tx = true) ->
  blen b = tcp_buffer_len r ->
  exists bs, tcp_emit sum_fill tx r b = Ok bs /\ blen bs = tcp_buffer_len r /\ tcp_parse sum_ok rx bs = Ok r.
Proof. exact tcp_roundtrip. Qed.
Print Assumptions C06_tcp_roundtrip.

Theorem C06_tcp_reparse : forall sum_ok sum_fill tx rx bs r,
  tcp_cksum_link sum_ok sum_fill -> bytes_ok bs = true -> (rx = true -> tx = true) ->
  tcp_parse sum_ok rx bs = Ok r -> tcp_sack_ok r = true ->
  tcp_wf r = true /\
  forall b, blen b = tcp_buffer_len r ->
    exists bs', tcp_emit sum_fill tx r b = Ok bs' /\ tcp_parse sum_ok rx bs' = Ok r.
Proof. exact tcp_reparse. Qed.
Print Assumptions C06_tcp_reparse.
