(* Property C06 — wire representations survive emit-then-parse unchanged: second wave, group
   `ndisc`: NDISC options (src/wire/ndiscoption.rs) and NDISC messages (src/wire/ndisc.rs).
   Same shape as Props/C06b.v: only the property theorems (each closed by [exact]) and
   [Print Assumptions]; statements are pinned in Pins/C06b_ndisc.v.
   [wf] is the format's precise reading of the proviso "its variable-length parts fit what the
   protocol permits" (justified clause by clause in Model/WireNdiscOpt.v / Model/WireNdisc.v). *)
From SV Require Import Lib.Base Gen.WireFields Model.WireBase Proofs.WireBaseProofs.
From SV Require Import Model.WireIpv6 Model.WireNdiscOpt Proofs.WireNdiscOptProofs.
From SV Require Import Model.WireIcmpv6Hdr Proofs.WireIcmpv6HdrProofs Model.WireNdisc Proofs.WireNdiscProofs.

(* ---------------- NDISC option (src/wire/ndiscoption.rs) ----------------
   Link-layer addresses are 6 or 8 octets, so the option is 8 or 16 octets (6 padding octets);
   lifetimes are second counts; the Redirected Header carries the first-wave Ipv6Repr model.
   [ndopt_emit_frame]: NdiscRepr::emit opens the option view on the whole rest of the message;
   emitting there writes exactly the option's octets. *)

Theorem C06_ndopt_emit_no_panic : forall r b,
  ndopt_wf r = true -> blen b = ndopt_buffer_len r -> ndopt_emit r b <> Panic.
Proof. exact ndopt_emit_no_panic. Qed.
Print Assumptions C06_ndopt_emit_no_panic.

Theorem C06_ndopt_emit_ignores_old_bytes : forall r b1 b2,
  ndopt_wf r = true -> blen b1 = ndopt_buffer_len r -> blen b2 = ndopt_buffer_len r ->
  ndopt_emit r b1 = ndopt_emit r b2.
Proof. exact ndopt_emit_ignores_old_bytes. Qed.
Print Assumptions C06_ndopt_emit_ignores_old_bytes.

Theorem C06_ndopt_emit_frame : forall r h t,
  ndopt_wf r = true -> blen h = ndopt_buffer_len r ->
  ndopt_emit r (h ++ t) = omap (fun x => x ++ t) (ndopt_emit r h).
Proof. exact ndopt_emit_frame. Qed.
Print Assumptions C06_ndopt_emit_frame.

Theorem C06_ndopt_roundtrip : forall r b,
  ndopt_wf r = true -> blen b = ndopt_buffer_len r ->
  exists bs, ndopt_emit r b = Ok bs /\ blen bs = ndopt_buffer_len r /\ ndopt_parse bs = Ok r.
Proof. exact ndopt_roundtrip. Qed.
Print Assumptions C06_ndopt_roundtrip.

Theorem C06_ndopt_reparse : forall bs r,
  bytes_ok bs = true -> ndopt_parse bs = Ok r ->
  ndopt_wf r = true /\
  forall b, blen b = ndopt_buffer_len r ->
    exists bs', ndopt_emit r b = Ok bs' /\ ndopt_parse bs' = Ok r.
Proof. exact ndopt_reparse. Qed.
Print Assumptions C06_ndopt_reparse.

(* ---------------- NDISC messages (src/wire/ndisc.rs) ----------------
   NdiscRepr::emit does not own the ICMPv6 checksum field (octets 2..3): it is only called from
   Icmpv6Repr::emit, which ends with fill_checksum / set_checksum(0).  The emit theorems are
   therefore stated for [ndisc_icmp_emit] = NdiscRepr::emit followed by that checksum step
   ([sum_fill] = `!checksum::combine(..)` of property C08, [tx] = caps.icmpv6.tx());
   [C06_ndisc_raw_emit_no_panic] is NdiscRepr::emit alone.  NdiscRepr::parse verifies no
   checksum, so [C06_ndisc_roundtrip] needs no hypothesis about it; [C06_ndisc_icmp_roundtrip]
   goes through Icmpv6Repr::parse (checksum verified when [rx]; [icmp6h_cksum_link]: the
   value stored by fill_checksum verifies - the arithmetic is C08's). *)

Theorem C06_ndisc_raw_emit_no_panic : forall r b,
  ndisc_wf r = true -> blen b = ndisc_buffer_len r -> ndisc_emit r b <> Panic.
Proof. exact ndisc_emit_no_panic. Qed.
Print Assumptions C06_ndisc_raw_emit_no_panic.

Theorem C06_ndisc_emit_no_panic : forall (sum_fill : list Z -> Z) tx r b,
  ndisc_wf r = true -> blen b = ndisc_buffer_len r -> ndisc_icmp_emit sum_fill tx r b <> Panic.
Proof. exact ndisc_icmp_emit_no_panic. Qed.
Print Assumptions C06_ndisc_emit_no_panic.

Theorem C06_ndisc_emit_ignores_old_bytes : forall (sum_fill : list Z -> Z) tx r b1 b2,
  ndisc_wf r = true -> blen b1 = ndisc_buffer_len r -> blen b2 = ndisc_buffer_len r ->
  ndisc_icmp_emit sum_fill tx r b1 = ndisc_icmp_emit sum_fill tx r b2.
Proof. exact ndisc_emit_ignores_old_bytes. Qed.
Print Assumptions C06_ndisc_emit_ignores_old_bytes.

Theorem C06_ndisc_roundtrip : forall (sum_fill : list Z -> Z) tx r b,
  ndisc_wf r = true -> blen b = ndisc_buffer_len r ->
  exists bs, ndisc_icmp_emit sum_fill tx r b = Ok bs /\ blen bs = ndisc_buffer_len r /\
             ndisc_parse bs = Ok r.
Proof. exact ndisc_roundtrip. Qed.
Print Assumptions C06_ndisc_roundtrip.

Theorem C06_ndisc_icmp_roundtrip : forall (sum_ok : list Z -> bool) (sum_fill : list Z -> Z) tx rx r b,
  icmp6h_cksum_link sum_ok sum_fill -> (rx = true -> tx = true) ->
  ndisc_wf r = true -> blen b = ndisc_buffer_len r ->
  exists bs, ndisc_icmp_emit sum_fill tx r b = Ok bs /\ ndisc_icmp_parse sum_ok rx bs = Ok r.
Proof. exact ndisc_icmp_roundtrip. Qed.
Print Assumptions C06_ndisc_icmp_roundtrip.

Theorem C06_ndisc_reparse : forall (sum_fill : list Z -> Z) tx bs r,
  bytes_ok bs = true -> ndisc_parse bs = Ok r ->
  ndisc_wf r = true /\
  forall b, blen b = ndisc_buffer_len r ->
    exists bs', ndisc_icmp_emit sum_fill tx r b = Ok bs' /\ ndisc_parse bs' = Ok r.
Proof. exact ndisc_reparse. Qed.
Print Assumptions C06_ndisc_reparse.
