(* Property C06 — wire representations survive emit-then-parse unchanged: second wave, group
   `ndisc`: NDISC options (src/wire/ndiscoption.rs) and NDISC messages (src/wire/ndisc.rs).
   Same shape as Props/C06b.v: only the property theorems (each closed by [exact]) and
   [Print Assumptions]; statements are pinned in Pins/C06b_ndisc.v.
   [wf] is the format's precise reading of the proviso "its variable-length parts fit what the
   protocol permits" (justified clause by clause in Model/WireNdiscOpt.v / Model/WireNdisc.v). *)
From SV Require Import Lib.Base Gen.WireFields Model.WireBase Proofs.WireBaseProofs.
From SV Require Import Model.WireIpv6 Model.WireNdiscOpt Proofs.WireNdiscOptProofs.

(* ---------------- NDISC option (src/wire/ndiscoption.rs) ----------------
   Link-layer addresses are 6 or 8 octets, so the option is 8 or 16 octets (6 padding octets);
   lifetimes are second counts; the Redirected Header carries the first-wave Ipv6Repr model.
   [ndopt_emit_frame]: NdiscRepr::emit opens the option view on the whole rest of the message;
   emitting there writes exactly the option's octets. *)

Theorem C06_ndopt_emit_no_panic : forall r b,
  ndopt_wf r = true -> blen b = ndopt_buffer_len r -> ndopt_emit r b <> Panic.
Proof. exact ndopt_emit_no_panic. Qed.
Print Assumptions C06_ndopt_emit_no_panic.

Theorem C06_ndopt_emit_ignores_old_bytes : forall r b1 b2,
  ndopt_wf r = true -> blen b1 = ndopt_buffer_len r -> blen b2 = ndopt_buffer_len r ->
  ndopt_emit r b1 = ndopt_emit r b2.
Proof. exact ndopt_emit_ignores_old_bytes. Qed.
Print Assumptions C06_ndopt_emit_ignores_old_bytes.

Theorem C06_ndopt_emit_frame : forall r h t,
  ndopt_wf r = true -> blen h = ndopt_buffer_len r ->
  ndopt_emit r (h ++ t) = omap (fun x => x ++ t) (ndopt_emit r h).
Proof. exact ndopt_emit_frame. Qed.
Print Assumptions C06_ndopt_emit_frame.

Theorem C06_ndopt_roundtrip : forall r b,
  ndopt_wf r = true -> blen b = ndopt_buffer_len r ->
  exists bs, ndopt_emit r b = Ok bs /\ blen bs = ndopt_buffer_len r /\ ndopt_parse bs = Ok r.
Proof. exact ndopt_roundtrip. Qed.
Print Assumptions C06_ndopt_roundtrip.

Theorem C06_ndopt_reparse : forall bs r,
  bytes_ok bs = true -> ndopt_parse bs = Ok r ->
  ndopt_wf r = true /\
  forall b, blen b = ndopt_buffer_len r ->
    exists bs', ndopt_emit r b = Ok bs' /\ ndopt_parse bs' = Ok r.
Proof. exact ndopt_reparse. Qed.
Print Assumptions C06_ndopt_reparse.
