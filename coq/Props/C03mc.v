(* Property C03, multicast part: no join / leave / address change / IGMP or MLD query / poll makes
   the multicast host state machine (src/iface/interface/multicast.rs, model Model/Multicast.v)
   panic or loop; the work of one poll and the number of query responses are bounded; a general
   query is answered completely and the report machine falls back to Inactive.  Only property
   theorems (closed by [exact]) and [Print Assumptions]; statements are pinned in Pins/C03mc.v.

   Why the six `dispatch_ip(..).unwrap()` of multicast_egress cannot fail (mc_dispatch_ip): every
   destination is a multicast address (the reported group - a table key or a group has_multicast_
   group answered true for -, 224.0.0.2, ff02::16), for which lookup_hardware_addr answers without
   routing table or neighbor cache; the assert!(!dst.is_unspecified()) holds for the same reason;
   a packet above the IP MTU is dropped or fragmented with Ok(()), never Err.  The only reachable
   panic is the configuration error excluded by [cfg_ok] (C03mc_ipv4_on_ieee802154_refuted). *)
From SV Require Import Lib.Base Gen.Consts Gen.WireFields Model.Addr Model.Ingress Model.WireIgmp Model.Multicast.
From SV Require Import Proofs.IngressProofs Proofs.MulticastProofs.

(* the invariant holds for Interface::new ... *)
Theorem C03mc_inv_initial : forall m mtu seed, mc_inv (mc_new m mtu seed).
Proof. exact mc_inv_new. Qed.
Print Assumptions C03mc_inv_initial.

(* ... every event - with the arguments the API contract allows: update_ip_addrs is given
   unicast (IPv4: or unspecified) addresses, no IPv4 address on an IEEE 802.15.4 interface -
   returns (no Panic, no loop-fuel exhaustion) and preserves it ... *)
Theorem C03mc_step_total : forall st ev,
  mc_inv st -> ev_ok (mc_medium st) ev ->
  exists st' o, mc_step st ev = Ok (st', o) /\ mc_inv st' /\ mc_medium st' = mc_medium st.
Proof. exact step_ok. Qed.
Print Assumptions C03mc_step_total.

(* ... hence every finite event sequence runs to completion. *)
Theorem C03mc_run_total : forall evs st,
  mc_inv st -> Forall (ev_ok (mc_medium st)) evs ->
  exists st' obs, mc_run st evs = Ok (st', obs) /\ mc_inv st' /\ mc_medium st' = mc_medium st /\
                  length obs = length evs.
Proof. exact run_ok. Qed.
Print Assumptions C03mc_run_total.

(* bounded work per poll: at most (table size + 2) <= IFACE_MAX_MULTICAST_GROUP_COUNT + 2 frames *)
Theorem C03mc_egress_total_and_bounded : forall st dev now,
  mc_inv st ->
  exists st' dev' pkts, mc_multicast_egress st dev now = Ok (st', dev', pkts) /\ mc_inv st' /\
    (Z.of_nat (length pkts) <= Z.of_nat (length (mc_groups st)) + 2 <= cfg_IFACE_MAX_MULTICAST_GROUP_COUNT + 2).
Proof. exact c03mc_egress_total_and_bounded. Qed.
Print Assumptions C03mc_egress_total_and_bounded.

(* the two `while let` loops terminate after at most one iteration per Joining / Leaving entry *)
Theorem C03mc_loops_terminate : forall st dev acc fuel,
  mc_inv st ->
  ((count_state GJoining (mc_groups st) <= fuel)%nat ->
   exists r, mc_egress_joins fuel st dev acc = Ok r) /\
  ((count_state GLeaving (mc_groups st) <= fuel)%nat ->
   exists r, mc_egress_leaves fuel st dev acc = Ok r).
Proof. exact c03mc_loops_terminate. Qed.
Print Assumptions C03mc_loops_terminate.

(* the report machines terminate: over ANY sequence of polls (any times, any device answers) at
   most igmp_reports_left IGMP query responses are sent - one per member group still to report
   after a general query, one after a group-specific query - and at most one MLD response *)
Theorem C03mc_query_responses_bounded : forall evs st st' obs,
  mc_inv st -> Forall is_poll evs -> mc_run st evs = Ok (st', obs) ->
  (length (filter is_igmp_response (flat_map obs_pkts obs)) + igmp_reports_left st' <= igmp_reports_left st)%nat /\
  (length (filter is_mld_response (flat_map obs_pkts obs)) + mld_reports_left st' <= mld_reports_left st)%nat.
Proof. exact c03mc_query_responses_bounded. Qed.
Print Assumptions C03mc_query_responses_bounded.

(* a due MLD response leaves the Delaying state in that very poll (sent or not) *)
Theorem C03mc_mld_response_one_shot : forall st dev now st' dev' pkts,
  mc_inv st -> mc_multicast_egress st dev now = Ok (st', dev', pkts) ->
  match mc_mld st with
  | MlGeneral t | MlSpecific _ t => t <= now -> mc_mld st' = MlInactive
  | MlInactive => mc_mld st' = MlInactive
  end.
Proof. exact c03mc_mld_response_one_shot. Qed.
Print Assumptions C03mc_mld_response_one_shot.

(* a general IGMP query is answered completely: polled at the response timer on an accepting
   device, an interface with an IPv4 address and n >= 1 IPv4 groups reports each group exactly
   once, in table order, is Inactive after n + 1 polls, and for an IGMPv2 query all of that
   happens within the query's Max Resp Time *)
Theorem C03mc_igmp_general_query_answered : forall b a t0 code,
  tbl_inv (mc_groups b) -> quiet b -> first_v4 (mc_addrs b) = Some a -> mc_medium b <> M154 ->
  wipv4_HEADER_LEN + snd wigmp_f_GROUP_ADDRESS <= mc_ip_mtu b -> mc_mld b = MlInactive ->
  0 <= code -> mc_v4_keys (mc_groups b) <> [] ->
  let keys4 := mc_v4_keys (mc_groups b) in
  let n := Z.of_nat (length keys4) in
  let ver := if code =? 0 then IgmpV1 else IgmpV2 in
  let mrt := igmp_max_resp_code_to_duration code in
  let interval := match ver with IgmpV1 => mc_IGMP_V1_INTERVAL | IgmpV2 => mrt / (n + 1) end in
  let st0 := mc_process_igmp_code b t0 v4_MULTICAST_ALL_SYSTEMS 0 code in
  exists l,
    mc_drive (S (length keys4)) st0 = Ok (mc_set_igmp b IgInactive, l) /\
    flat_map snd l = map (general_report ver a) keys4 /\
    length l = S (length keys4) /\
    Forall (fun e => t0 <= fst e <= t0 + (n + 1) * interval) l /\
    (ver = IgmpV2 -> Forall (fun e => fst e <= t0 + mrt) l).
Proof. exact igmp_general_query_answered. Qed.
Print Assumptions C03mc_igmp_general_query_answered.

(* its hypotheses are satisfiable and its conclusion evaluates as expected *)
Theorem C03mc_igmp_general_query_answered_example :
  (tbl_inv (mc_groups ex_quiet) /\ quiet ex_quiet /\ first_v4 (mc_addrs ex_quiet) = Some 167772161 /\
   mc_medium ex_quiet <> M154 /\ mc_mld ex_quiet = MlInactive) /\
  exists l,
  mc_drive 3 (mc_process_igmp_code ex_quiet 1000 v4_MULTICAST_ALL_SYSTEMS 0 90) = Ok (mc_set_igmp ex_quiet IgInactive, l) /\
  flat_map snd l = [general_report IgmpV2 167772161 ex_g4; general_report IgmpV2 167772161 (ex_g4 + 1)] /\
  map fst l = [3001000; 6001000; 9001000].
Proof. exact igmp_general_query_answered_example. Qed.
Print Assumptions C03mc_igmp_general_query_answered_example.

(* the excluded configuration is a real panic of the model (and of the crate: every IPv4
   transmission on Medium::Ieee802154 reaches unreachable!() in lookup_hardware_addr) *)
Theorem C03mc_ipv4_on_ieee802154_refuted :
  tbl_inv (mc_groups ex_154_v4) /\ ~ cfg_ok ex_154_v4 /\ mc_multicast_egress ex_154_v4 [true] 0 = Panic.
Proof. exact c03mc_ipv4_on_ieee802154_refuted. Qed.
Print Assumptions C03mc_ipv4_on_ieee802154_refuted.
