(* Property C02, LIVENESS half, part 14: THE CONNECTION BECOMES QUIET, AND FROM net_init TO BOTH CLOSED WITH THE
   JOINT DERIVED.  One-way regime (both ESTABLISHED, B has written nothing; C01's invariant), reliable schedules.
     all_written_acked_and_read   when the writer stops, before n * Wz (n = octets not yet acknowledged + not yet
                                  read) everything written is acknowledged AND read - zero windows included
     connection_becomes_quiet     from there (A's queue empty, everything read, the applications neither write nor
                                  close), within 2 Dt + Dack: nothing is tracked as undelivered, neither socket owes
                                  an ACK or a window update, no delayed-ACK timer runs (Qd) - frames still in flight
                                  are delivered (<= Dt), B then A send what they owe (<= Dack), that is delivered (<= Dt)
     transfer_quiesce_close_from_net_init   ONE reliable schedule evsD ++ evsQ ++ NClose SA :: evs1 ++ NClose SB :: evs2
                                  from net_init: handshake, everything acknowledged and read, quiet, A closes, B closes
                                  in CLOSE-WAIT, TIME-WAIT expires, both CLOSED.  No premise about a single joint state.
   Premises about the states of the run: zregime in evsD (as in C02liveZw4); in evsQ qregime = zextra and, once A's
   queue is empty and everything is read, qstatic (static facts of the two sockets; decided on the witness).
   Only theorems closed by [exact] and [Print Assumptions]; statements pinned in Pins/C02liveClose4.v. *)
From SV Require Import Lib.Base Gen.Consts.
From SV Require Import Model.Seq32 Model.Assembler Model.TcpBuf Model.TcpTypes Model.Tcp Model.TcpNet.
From SV Require Import Proofs.TcpSendBase Proofs.TcpLiveBase Proofs.TcpLiveProofs Proofs.TcpLiveMore Proofs.TcpLiveProgress.
From SV Require Import Proofs.TcpNetBase.
From SV Require Import Proofs.TcpProgressBase Proofs.TcpProgressFrame Proofs.TcpProgressCtl Proofs.TcpProgressRecv Proofs.TcpProgressSend Proofs.TcpProgressNet Proofs.TcpProgressData Proofs.TcpProgressAck Proofs.TcpProgressAll Proofs.TcpProgressSafe Proofs.TcpProgressHs Proofs.TcpProgressHsD Proofs.TcpProgressHsNet Proofs.TcpProgressHsInit Proofs.TcpProgressHsLive Proofs.TcpProgressHsLive2 Proofs.TcpProgressZwp Proofs.TcpProgressExample Proofs.TcpProgressWitness Proofs.TcpProgressSafeWitness Proofs.TcpProgressZwDup Proofs.TcpProgressZw1 Proofs.TcpProgressZw1b Proofs.TcpProgressZw2 Proofs.TcpProgressZw3 Proofs.TcpProgressZwWitness Proofs.TcpProgressZw4 Proofs.TcpProgressZw5 Proofs.TcpProgressZw6 Proofs.TcpProgressZwWitness3 Proofs.TcpProgressZw7 Proofs.TcpProgressCl1 Proofs.TcpProgressCl2 Proofs.TcpProgressCl3 Proofs.TcpProgressCl4 Proofs.TcpProgressCl5 Proofs.TcpProgressCl6 Proofs.TcpProgressCl7 Proofs.TcpProgressCl8 Proofs.TcpProgressCl9 Proofs.TcpProgressCl10 Proofs.TcpProgressCl11 Proofs.TcpProgressCl12 Proofs.TcpProgressCl13 Proofs.TcpProgressCl14.

Theorem C02live_all_written_acked_and_read : forall x Dt Da Dack n evs fa st st' L,
  0 <= Dt -> 0 <= Da ->
  NI st -> opts_ok st -> dl_sync Da fa st -> dlb Dt fa st ->
  run_all (zsafe2 x Dack) st evs -> fair_run Dt Da fa st evs -> once_run Dt Da fa st evs -> net_run st evs = Ok st' ->
  Forall nosend evs -> l_len (ep_written (net_get st x)) = L ->
  (L - una_off (net_get st x)) + (L - read_off (net_get st (side_other x))) <= Z.of_nat n ->
  net_now st x + Z.of_nat n * Wz Dt Da < net_now st' x ->
  exists pre post st1, evs = pre ++ post /\ net_run st pre = Ok st1 /\ net_run st1 post = Ok st' /\
                       una_off (net_get st1 x) = L /\ read_off (net_get st1 (side_other x)) = L /\
                       net_now st1 x <= net_now st x + Z.of_nat n * Wz Dt Da.
Proof. exact all_written_bytes_eventually_acked_zw. Qed.
Print Assumptions C02live_all_written_acked_and_read.

Theorem C02live_connection_becomes_quiet : forall Dt Da Dack dk tA X Y,
  0 <= Dt -> 0 <= Dack ->
  forall evs fa st st',
  K0 Dt Da dk tA X Y fa st -> Rest Dt Da Dack fa st evs st' ->
  net_now st SA + 2 * Dt + Dack < net_now st' SA ->
  Reach Dt Da Dack (Qd Dt Da dk tA X Y) (net_now st SA + 2 * Dt + Dack) fa st evs st'.
Proof. exact connection_becomes_quiet. Qed.
Print Assumptions C02live_connection_becomes_quiet.

(* the quiet pair stays quiet while the applications neither write nor close, and A's close() turns it into the
   start of the orderly close (close_start of C02liveClose2) *)
Theorem C02live_quiet_is_close_start : forall Dt Da Dack dk tA X Y fa st st',
  QR Dack st -> Qd Dt Da dk tA X Y fa st -> fair_ev fa st (NClose SA) -> net_step st (NClose SA) = Ok st' ->
  let MA := rt_max_seq_sent (s_rtte (net_sock st SA)) in let MB := rt_max_seq_sent (s_rtte (net_sock st SB)) in
  close_start tA X Y MA MB Da dk (net_now st SA) (fa_after Dt Da fa (NClose SA) st') st' /\
  tuple_nz tA /\ 0 <= X < 4294967296 /\ 0 <= Y < 4294967296 /\
  match MB with Some m => seq_gt m Y = false | None => True end /\ mlim MB Y.
Proof. exact Qd_close. Qed.
Print Assumptions C02live_quiet_is_close_start.
