(* Property C17 - TCP sockets follow the RFC 9293 connection state diagram.
   This file contains only the property theorems (each closed by [exact]) and
   [Print Assumptions]; statements are pinned in Pins/C17.v.

   Vocabulary (Proofs/TcpStateProofs.v): [allowed s g cx ev st'] = event [ev] may leave socket [s]
   in state [st'] (the RFC 793/9293 diagram edges with the side conditions of the property text;
   abort / reset / timeout -> CLOSED; RST in SYN-RECEIVED returning a listener to LISTEN);
   [inv s g] = the invariant; [g] = ghost bookkeeping computed from the inputs only (own ISN,
   octets accepted by send), so "ACK of ISS+1" and "ACK of the own FIN" refer to what the socket
   was given, not to what the code believes; [tcp_step] = one API call, one received segment
   (any field values) or one dispatch; times in microseconds. *)
From SV Require Import Lib.Base Gen.Consts Model.Seq32 Model.Assembler Model.TcpBuf Model.TcpTypes Model.Tcp Proofs.Seq32Proofs Proofs.TcpStateProofs.

(* Every event, from every state satisfying the invariant, takes an allowed edge (or none), and
   the invariant holds again. *)
Theorem C17_step_allowed : forall cx s g ev s' out tags,
  inv s g -> wf_ctx cx -> wf_event ev ->
  tcp_step cx s ev = Ok (s', out, tags) ->
  allowed s g cx ev (s_state s') /\ inv s' (ghost_step cx s g ev s' out).
Proof. exact step_ok. Qed.
Print Assumptions C17_step_allowed.

(* A freshly created socket satisfies the invariant ... *)
Theorem C17_invariant_initially : forall rx tx cc ts s0,
  tcp_new rx tx cc ts = Ok s0 -> inv s0 ghost0.
Proof. exact inv_new. Qed.
Print Assumptions C17_invariant_initially.

(* ... and so does every state reached by any sequence of well-formed events. *)
Theorem C17_invariant_all_sequences : forall evs s g s' g',
  inv s g -> Forall wf_input evs -> run s g evs = Some (s', g') -> inv s' g'.
Proof. exact inv_all_sequences. Qed.
Print Assumptions C17_invariant_all_sequences.

(* Hence every transition of every execution is an allowed one. *)
Theorem C17_all_transitions_allowed : forall pre cx ev s0 g0 s g s' out tags,
  inv s0 g0 -> Forall wf_input pre -> wf_ctx cx -> wf_event ev ->
  run s0 g0 pre = Some (s, g) ->
  tcp_step cx s ev = Ok (s', out, tags) ->
  allowed s g cx ev (s_state s').
Proof. exact all_transitions_allowed. Qed.
Print Assumptions C17_all_transitions_allowed.

(* Only an acceptable RST resets: an RST that is neither in the receive window of a synchronized
   connection nor the handshake RST acknowledging exactly ISS+1 leaves the state unchanged. *)
Theorem C17_blind_rst_ignored : forall cx s g ip r s' out tags,
  inv s g -> wf_ctx cx -> wf_repr r ->
  tcp_step cx s (EvSegment ip r) = Ok (s', out, tags) ->
  r_control r = CRst ->
  ~ (synchronized (s_state s) /\ rst_acceptable s r) ->
  ~ (s_state s = SynSent /\ acks_iss g r) ->
  s_state s' = s_state s.
Proof. exact blind_rst_ignored. Qed.
Print Assumptions C17_blind_rst_ignored.

(* TIME-WAIT is entered only by a segment and arms the timer with exactly 10 s
   (tcp.rs CLOSE_DELAY, read from the source by the translator). *)
Theorem C17_time_wait_entry : forall cx s g ev s' out tags,
  inv s g -> wf_ctx cx -> wf_event ev ->
  tcp_step cx s ev = Ok (s', out, tags) ->
  s_state s <> TimeWait -> s_state s' = TimeWait ->
  (exists ip r, ev = EvSegment ip r) /\ s_timer s' = TClose (cx_now cx + 10 * 1000000).
Proof. exact time_wait_entry. Qed.
Print Assumptions C17_time_wait_entry.

(* TIME-WAIT ends by itself after 10 s: entered at t0, a poll at any t >= t0 + 10 s closes it. *)
Theorem C17_time_wait_expires_after_close_delay : forall cx0 s0 g ev s out tags fuel cx s' ps tags',
  inv s0 g -> wf_ctx cx0 -> wf_event ev ->
  tcp_step cx0 s0 ev = Ok (s, out, tags) ->
  s_state s0 <> TimeWait -> s_state s = TimeWait ->
  cx_now cx0 + 10 * 1000000 <= cx_now cx ->
  iface_poll_egress fuel cx s None = Ok (s', ps, tags', true) ->
  s_state s' = Closed.
Proof. exact time_wait_10s. Qed.
Print Assumptions C17_time_wait_expires_after_close_delay.

(* ... from any TIME-WAIT state whose deadline has passed (also after restarts of the timer). *)
Theorem C17_time_wait_expires : forall fuel cx s g e sent tags0 s' ps tags,
  inv s g ->
  (s_state s = Closed \/ (s_state s = TimeWait /\ s_timer s = TClose e /\ e <= cx_now cx)) ->
  iface_poll_egress_acc fuel cx s None sent tags0 = Ok (s', ps, tags, true) ->
  s_state s' = Closed.
Proof. exact time_wait_expires. Qed.
Print Assumptions C17_time_wait_expires.

(* It does not end earlier by itself: leaving TIME-WAIT takes an abort / re-open call, an
   acceptable RST, or a dispatch at or after the deadline (or the user timeout, or the interface
   losing the address). *)
Theorem C17_time_wait_not_before : forall cx s g ev s' out tags e,
  inv s g -> wf_ctx cx -> wf_event ev ->
  tcp_step cx s ev = Ok (s', out, tags) ->
  s_state s = TimeWait -> s_timer s = TClose e -> s_state s' <> TimeWait ->
  match ev with
  | EvAbort | EvListen _ | EvConnect _ _ _ => True
  | EvSegment _ r => rst_acceptable s r
  | EvDispatch _ => e <= cx_now cx \/ user_timeout_expired cx s \/ address_removed cx s
  | _ => False
  end.
Proof. exact time_wait_not_before. Qed.
Print Assumptions C17_time_wait_not_before.

(* While in TIME-WAIT the deadline is kept, or restarted at now + 10 s; never moved earlier. *)
Theorem C17_time_wait_timer_kept : forall cx s g ev s' out tags e,
  inv s g -> wf_ctx cx -> wf_event ev ->
  tcp_step cx s ev = Ok (s', out, tags) ->
  s_state s = TimeWait -> s_timer s = TClose e -> s_state s' = TimeWait ->
  s_timer s' = TClose e \/ s_timer s' = TClose (cx_now cx + 10 * 1000000).
Proof. exact time_wait_timer_kept. Qed.
Print Assumptions C17_time_wait_timer_kept.

(* Non-vacuity: an ESTABLISHED state is reachable (listen, SYN, SYN|ACK out, ACK of ISS+1) and
   satisfies the invariant. *)
Theorem C17_established_reachable :
  exists s0 s g,
    tcp_new [0;0;0;0] [0;0;0;0] CcNone false = Ok s0 /\
    Forall wf_input ex_events /\
    run s0 ghost0 ex_events = Some (s, g) /\
    s_state s = Established /\ inv s g.
Proof. exact established_reachable. Qed.
Print Assumptions C17_established_reachable.

(* --- the rest of the public API (closure send/recv, connect with explicit address families) --- *)

(* The state predicates are the functions of the state the documentation / RFC 9293 name. *)
Theorem C17_predicates : forall s,
  (tcp_is_open s = true <-> s_state s <> Closed /\ s_state s <> TimeWait) /\
  (tcp_is_active s = true <-> s_state s <> Closed /\ s_state s <> TimeWait /\ s_state s <> Listen) /\
  (tcp_is_listening s = true <-> s_state s = Listen) /\
  (tcp_may_send s = true <-> s_state s = Established \/ s_state s = CloseWait) /\
  (tcp_can_recv s = true <-> rb_len (s_rx_buffer s) <> 0) /\
  (tcp_may_recv s = true <->
     s_state s = Established \/ s_state s = FinWait1 \/ s_state s = FinWait2 \/ rb_len (s_rx_buffer s) <> 0) /\
  (tcp_can_send s = true <->
     (s_state s = Established \/ s_state s = CloseWait) /\ rb_len (s_tx_buffer s) <> rb_cap (s_tx_buffer s)).
Proof. exact predicates_spec. Qed.
Print Assumptions C17_predicates.

(* A call that fails (listen, connect, send, recv, ... returning an error) changes nothing at all. *)
Theorem C17_failed_call_unchanged : forall cx s ev s' e tags,
  tcp_step_x cx s ev = Ok (s', XOut (OErr e), tags) -> s' = s.
Proof. exact failed_call_unchanged. Qed.
Print Assumptions C17_failed_call_unchanged.

(* connect returns InvalidState exactly on an open socket, Unaddressable exactly for remote port 0,
   unspecified remote, local port 0, unspecified local address or an address-family mismatch, and
   otherwise succeeds into SYN-SENT. *)
Theorem C17_connect_results : forall cx s v6 ra rp local,
  match tcp_connect_af cx s v6 ra rp local with
  | Err 1 => tcp_is_open s = true
  | Err _ => tcp_is_open s = false /\
             (rp = 0 \/ ra = 0 \/ le_port local = 0 \/ le_addr local = Some 0 \/
              (v6 = true /\ le_addr local <> None))
  | Ok s' => tcp_is_open s = false /\ rp <> 0 /\ ra <> 0 /\ le_port local <> 0 /\
             tcp_connect cx s ra rp local = Ok s' /\ s_state s' = SynSent
  | Panic => False
  end.
Proof. exact connect_af_spec. Qed.
Print Assumptions C17_connect_results.

(* C17_step_allowed extended to the closure API send(f)/recv(f) (never a state change) and to
   connect with explicit address families. *)
Theorem C17_step_allowed_all_calls : forall cx s g ev s' out tags,
  inv s g -> wf_ctx cx -> wf_event_x ev ->
  tcp_step_x cx s ev = Ok (s', out, tags) ->
  allowed_x s g cx ev (s_state s') /\ inv s' (ghost_step_x cx s g ev s' out).
Proof. exact step_x_ok. Qed.
Print Assumptions C17_step_allowed_all_calls.

(* --- the listen endpoint (bound local address) --- *)

(* listen() records exactly the endpoint it was given. *)
Theorem C17_listen_sets_endpoint : forall s ep s',
  tcp_listen s ep = Ok s' -> s_listen_endpoint s' = ep /\ s_state s' = Listen.
Proof. exact listen_sets_endpoint. Qed.
Print Assumptions C17_listen_sets_endpoint.

(* No received segment changes it: the RST that returns a half-open connection to LISTEN restores
   exactly that endpoint - address and port - and leaves no connection tuple behind. *)
Theorem C17_relisten_restores_endpoint : forall cx s ip r s' out tags,
  wf_repr r -> tcp_step cx s (EvSegment ip r) = Ok (s', out, tags) ->
  s_listen_endpoint s' = s_listen_endpoint s /\
  (s_state s = SynReceived -> s_state s' = Listen -> s_tuple s' = None).
Proof. exact segment_keeps_listen_endpoint. Qed.
Print Assumptions C17_relisten_restores_endpoint.

(* A listener bound to one local address is untouched by segments addressed to another one. *)
Theorem C17_bound_listener_ignores_other_address : forall cx s ip r a s' out tags,
  s_state s = Listen -> s_tuple s = None -> le_addr (s_listen_endpoint s) = Some a ->
  ip_dst ip <> a ->
  tcp_step cx s (EvSegment ip r) = Ok (s', out, tags) -> s' = s.
Proof. exact bound_listener_ignores_other_address. Qed.
Print Assumptions C17_bound_listener_ignores_other_address.
