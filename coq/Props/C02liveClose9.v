(* Property C02, LIVENESS half, part 20: THE CORE OF PARTS 17-19.
     quiesce_close_from_regime        from a reachable state of the regime, with ANY bookkeeping fa of the run so far
                                      (dl_sync, dlb, fair_run, once_run): everything acknowledged and read, quiet, A
                                      closes, B closes, both CLOSED; the theorems of parts 17 (both ESTABLISHED after
                                      the prefix), 18 (client in SYN-SENT) and 19 (client's ACK lost) are instances
   Only theorems closed by [exact] and [Print Assumptions]; statements pinned in Pins/C02liveClose9.v. *)
From SV Require Import Lib.Base Gen.Consts.
From SV Require Import Model.Seq32 Model.Assembler Model.TcpBuf Model.TcpTypes Model.Tcp Model.TcpNet.
From SV Require Import Proofs.TcpSendBase Proofs.TcpLiveBase Proofs.TcpLiveProofs Proofs.TcpLiveMore Proofs.TcpLiveProgress.
From SV Require Import Proofs.TcpNetBase.
From SV Require Import Proofs.TcpProgressBase Proofs.TcpProgressFrame Proofs.TcpProgressCtl Proofs.TcpProgressRecv Proofs.TcpProgressSend Proofs.TcpProgressNet Proofs.TcpProgressData Proofs.TcpProgressAck Proofs.TcpProgressAll Proofs.TcpProgressSafe Proofs.TcpProgressHs Proofs.TcpProgressHsD Proofs.TcpProgressHsNet Proofs.TcpProgressHsInit Proofs.TcpProgressHsLive Proofs.TcpProgressHsLive2 Proofs.TcpProgressZwp Proofs.TcpProgressExample Proofs.TcpProgressWitness Proofs.TcpProgressSafeWitness Proofs.TcpProgressZwDup Proofs.TcpProgressZw1 Proofs.TcpProgressZw1b Proofs.TcpProgressZw2 Proofs.TcpProgressZw3 Proofs.TcpProgressZwWitness Proofs.TcpProgressZw4 Proofs.TcpProgressZw5 Proofs.TcpProgressZw6 Proofs.TcpProgressZwWitness3 Proofs.TcpProgressZw7 Proofs.TcpProgressCl1 Proofs.TcpProgressCl2 Proofs.TcpProgressCl3 Proofs.TcpProgressCl4 Proofs.TcpProgressCl5 Proofs.TcpProgressCl6 Proofs.TcpProgressCl7 Proofs.TcpProgressCl8 Proofs.TcpProgressCl9 Proofs.TcpProgressCl10 Proofs.TcpProgressCl11 Proofs.TcpProgressCl12 Proofs.TcpProgressCl13 Proofs.TcpProgressCl14 Proofs.TcpProgressHsRtx Proofs.TcpProgressHsAll Proofs.TcpProgressHsSrv1 Proofs.TcpProgressHsSrv2 Proofs.TcpProgressCl15 Proofs.TcpProgressRtxWitness Proofs.TcpProgressHsSrvWitness Proofs.TcpProgressCl16.

Theorem C02live_quiesce_close_from_regime : forall Dt Da Dack (n : nat),
  forall fa st evsD evsQ evs1 evs2 stD stQ stC st_m st',
  0 <= Dt -> 0 <= Da -> 2 * Dt < tcp_RTTE_MIN_RTO * 1000 -> 0 <= Dack ->
  reach st -> reg SA Dack st -> opts_ok st -> dl_sync Da fa st -> dlb Dt fa st ->
  fair_run Dt Da fa st (evsD ++ evsQ ++ NClose SA :: evs1 ++ NClose SB :: evs2) ->
  once_run Dt Da fa st (evsD ++ evsQ ++ NClose SA :: evs1 ++ NClose SB :: evs2) ->
  Forall (app_ev SA) evsD -> net_run st evsD = Ok stD ->
  Forall qev evsQ -> net_run stD evsQ = Ok stQ ->
  (forall z, l_len (ep_written (net_get stQ z)) < 2 ^ 30) ->
  run_all qregime stD evsQ ->
  (l_len (ep_written (net_get stD SA)) - una_off (net_get stD SA)) +
  (l_len (ep_written (net_get stD SA)) - read_off (net_get stD SB)) <= Z.of_nat n ->
  net_now stD SA + Z.of_nat n * Wz Dt Da + 2 * Dt + Dack < net_now stQ SA ->
  net_step stQ (NClose SA) = Ok stC ->
  Forall (cl_ev SA false) evs1 -> net_run stC evs1 = Ok st_m -> net_now stQ SA + 2 * Dt < net_now st_m SA ->
  net_run st_m (NClose SB :: evs2) = Ok st' ->
  net_now st_m SA + 3 * Dt + tcp_CLOSE_DELAY < net_now st' SA ->
  (exists p1 p2 sta,
     evsQ = p1 ++ p2 /\ net_run stD p1 = Ok sta /\ net_run sta p2 = Ok stQ /\
     una_off (net_get sta SA) = l_len (ep_written (net_get stD SA)) /\
     read_off (net_get sta SB) = l_len (ep_written (net_get stD SA))) /\
  (exists pre2 post st_c,
     evs2 = pre2 ++ post /\ net_run st_m (NClose SB :: pre2) = Ok st_c /\ net_run st_c post = Ok st' /\
     both_closed st_c).
Proof. exact quiesce_close_from_reg. Qed.
Print Assumptions C02live_quiesce_close_from_regime.

