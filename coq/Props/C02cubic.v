(* C02, CUBIC half - "whenever a socket has unacknowledged outgoing data ... the connection can
   never stall silently": the congestion window of the CUBIC controller
   (src/socket/tcp/congestion/cubic.rs) always allows at least one segment.

   Model/Cubic.v models every usize computation of the controller exactly and takes the result of
   every f64 computation as an input ranging over all values (NaN and infinities included), so the
   statements hold whatever the floating-point arithmetic does.  Proofs in Proofs/CubicProofs.v. *)
From SV Require Import Lib.Base Gen.Consts.
From SV Require Import Model.Cubic Proofs.CubicProofs.

(* the initial controller Cubic::new() satisfies the invariant *)
Theorem C02_cubic_initial : cubic_inv cubic_new.
Proof. exact cubic_new_inv. Qed.
Print Assumptions C02_cubic_initial.

(* after every sequence of controller events (set_mss with a positive MSS, set_remote_window,
   on_ack, on_dup_ack, on_loss, on_rto, pre/post_transmit; any times, lengths, flight sizes) and
   every choice of the float results, in the debug (dbg = true) and the release profile:
   0 < mss <= window() *)
Theorem C02_cubic_window_ge_mss : forall dbg evs c',
  Forall cubic_ev_ok evs -> cubic_run dbg cubic_new evs = Ok c' ->
  0 < cb_mss c' <= cubic_window c'.
Proof. exact cubic_window_ge_mss. Qed.
Print Assumptions C02_cubic_window_ge_mss.

(* the same from any controller state satisfying the invariant *)
Theorem C02_cubic_window_ge_mss_from : forall dbg evs c c',
  cubic_inv c -> Forall cubic_ev_ok evs -> cubic_run dbg c evs = Ok c' ->
  0 < cb_mss c' <= cubic_window c'.
Proof. exact cubic_window_ge_mss_from. Qed.
Print Assumptions C02_cubic_window_ge_mss_from.

(* the release profile never panics: the only panic source left there is `/ self.cwnd`, and
   cwnd > 0 (so "run = Ok" above is no restriction in release builds) *)
Theorem C02_cubic_release_never_panics : forall evs,
  Forall cubic_ev_ok evs -> exists c', cubic_run false cubic_new evs = Ok c'.
Proof. exact cubic_release_never_panics. Qed.
Print Assumptions C02_cubic_release_never_panics.

(* the debug profile (overflow checks) does not panic when MSS <= M, peer windows <= W,
   beta * in_flight <= S, w_cubic_target <= T and max(W + 3 M, S) + T * M fits a usize *)
Theorem C02_cubic_debug_never_panics : forall M W S T evs,
  cubic_DEFAULT_MSS <= M -> 64 * cubic_DEFAULT_MSS <= W ->
  Z.max (W + 3 * M) S + T * M <= cubic_usize_max ->
  Forall cubic_ev_ok evs -> Forall (cubic_ev_bounded M W S) evs -> Forall (cubic_ev_small T) evs ->
  exists c', cubic_run true cubic_new evs = Ok c'.
Proof. exact cubic_debug_never_panics. Qed.
Print Assumptions C02_cubic_debug_never_panics.

(* upper clamp: the window never exceeds max(largest peer window + 3 MSS, largest ssthresh) *)
Theorem C02_cubic_window_le_bounds : forall dbg M W S evs c',
  cubic_DEFAULT_MSS <= M -> 64 * cubic_DEFAULT_MSS <= W ->
  Forall cubic_ev_ok evs -> Forall (cubic_ev_bounded M W S) evs ->
  cubic_run dbg cubic_new evs = Ok c' ->
  cubic_window c' <= Z.max (W + 3 * M) S.
Proof. exact cubic_window_le_bounds. Qed.
Print Assumptions C02_cubic_window_le_bounds.

(* the code before the repairs /repo 46f8035 and c276435 violated the statement (faithful
   counter-models, reproduced on the real crate: corpus/C02/cubic-*.case) *)
Theorem C02_cubic_unrepaired_set_mss_refuted :
  exists c1, cubic_on_rto true cubic_new 1000000 1 (Some 0) = Ok c1 /\
  let c2 := cubic_set_mss_unrepaired c1 1460 in
  cubic_window c2 = 1024 /\ cb_mss c2 = 1460.
Proof. exact cubic_unrepaired_set_mss_refuted. Qed.
Print Assumptions C02_cubic_unrepaired_set_mss_refuted.

Theorem C02_cubic_unrepaired_fr_exit_refuted :
  exists c1, cubic_on_loss true (cubic_set_mss cubic_new 536) 0 1072 None (Some 750) = Ok c1 /\
  cb_in_fast_recovery c1 = true /\
  let c2 := cubic_fr_exit_unrepaired (cubic_set_mss c1 1460) in
  cubic_window c2 = 1072 /\ cb_mss c2 = 1460.
Proof. exact cubic_unrepaired_fr_exit_refuted. Qed.
Print Assumptions C02_cubic_unrepaired_fr_exit_refuted.
