(* Property C06 — wire representations survive emit-then-parse unchanged: DHCPv4
   (src/wire/dhcpv4.rs; model Model/WireDhcpv4.v, lemmas Proofs/WireDhcpv4Proofs.v).
   Same shape as Props/C06b.v: only theorems closed by [exact] + Print Assumptions; statements
   are pinned in Pins/C06b_dhcp.v.

   [dhcpw_wf_emit] = the Rust type ranges of the fields + "an option carries at most 255 data
   octets" (parameter_request_list, additional_options); [dhcpw_wf] = [dhcpw_wf_emit] + no
   additional_options (Repr::parse never produces them, so a Repr carrying any cannot come back
   equal).  The emit theorems are stated under the weaker [dhcpw_wf_emit]; what happens to
   additional options in the round trip is [C06_dhcpw_roundtrip_additional].
   Modelled code = /repo after a1bbe1b (emit / buffer_len write renew_duration and rebind_duration). *)
From SV Require Import Lib.Base Gen.Consts Gen.WireFields Model.WireBase Proofs.WireBaseProofs.
From SV Require Import Model.WireDhcpv4 Proofs.WireDhcpv4Proofs.

Theorem C06_dhcpw_wf_implies_wf_emit : forall r, dhcpw_wf r = true -> dhcpw_wf_emit r = true.
Proof. exact dhcpw_wf_wf_emit. Qed.
Print Assumptions C06_dhcpw_wf_implies_wf_emit.

(* the explicit octets: 240-octet fixed header (sname/file/chaddr padding zeroed, reserved flag
   bits zero), the options in emit order, END; nothing else fits into buffer_len *)
Theorem C06_dhcpw_emit_spec : forall r b,
  dhcpw_wf_emit r = true -> blen b = dhcpw_buffer_len r ->
  dhcpw_emit r b = Ok (dhcpw_hdr r ++ dhcpw_opts_bytes (dhcpw_opts_of r) ++ [wdhcp_OPT_END]).
Proof. exact dhcpw_emit_spec. Qed.
Print Assumptions C06_dhcpw_emit_spec.

Theorem C06_dhcpw_emit_no_panic : forall r b,
  dhcpw_wf_emit r = true -> blen b = dhcpw_buffer_len r -> dhcpw_emit r b <> Panic.
Proof. exact dhcpw_emit_no_panic. Qed.
Print Assumptions C06_dhcpw_emit_no_panic.

Theorem C06_dhcpw_emit_ignores_old_bytes : forall r b1 b2,
  dhcpw_wf_emit r = true -> blen b1 = dhcpw_buffer_len r -> blen b2 = dhcpw_buffer_len r ->
  dhcpw_emit r b1 = dhcpw_emit r b2.
Proof. exact dhcpw_emit_ignores_old_bytes. Qed.
Print Assumptions C06_dhcpw_emit_ignores_old_bytes.

Theorem C06_dhcpw_roundtrip : forall r b,
  dhcpw_wf r = true -> blen b = dhcpw_buffer_len r ->
  exists bs, dhcpw_emit r b = Ok bs /\ blen bs = dhcpw_buffer_len r /\ dhcpw_parse bs = Ok r.
Proof. exact dhcpw_roundtrip. Qed.
Print Assumptions C06_dhcpw_roundtrip.

(* additional options of kinds the parser does not interpret (and other than PAD / END) are
   emitted, walked over and dropped by parse: every other field comes back *)
Theorem C06_dhcpw_roundtrip_additional : forall r b,
  dhcpw_wf_emit r = true ->
  forallb dhcpw_add_ok (dhcpw_r_additional_options r) = true -> blen b = dhcpw_buffer_len r ->
  exists bs, dhcpw_emit r b = Ok bs /\ blen bs = dhcpw_buffer_len r /\
             dhcpw_parse bs = Ok (dhcpw_clear_additional r).
Proof. exact dhcpw_roundtrip_additional. Qed.
Print Assumptions C06_dhcpw_roundtrip_additional.

Theorem C06_dhcpw_reparse : forall bs r,
  bytes_ok bs = true -> dhcpw_parse bs = Ok r ->
  dhcpw_wf r = true /\
  forall b, blen b = dhcpw_buffer_len r ->
    exists bs', dhcpw_emit r b = Ok bs' /\ dhcpw_parse bs' = Ok r.
Proof. exact dhcpw_reparse. Qed.
Print Assumptions C06_dhcpw_reparse.

(* DhcpOptionWriter::emit of one option into a buffer that has room for it *)
Theorem C06_dhcpw_ow_emit_ok : forall done buffer o,
  blen (dhcpw_o_data o) <= 255 -> 2 + blen (dhcpw_o_data o) <= blen buffer ->
  dhcpw_ow_emit (done, buffer) o =
    Ok (done ++ dhcpw_o_kind o :: blen (dhcpw_o_data o) :: dhcpw_o_data o,
        skipn (Z.to_nat (2 + blen (dhcpw_o_data o))) buffer).
Proof. exact dhcpw_ow_emit_ok. Qed.
Print Assumptions C06_dhcpw_ow_emit_ok.

(* the iterator reads back exactly the options a writer wrote (any option list without PAD/END kinds) *)
Theorem C06_dhcpw_walk_of_written : forall l rest fuel,
  Forall (fun o => dhcpw_opt_ok o = true /\ dhcpw_o_kind o <> wdhcp_OPT_PAD /\
                   dhcpw_o_kind o <> wdhcp_OPT_END) l ->
  (length (dhcpw_opts_bytes l ++ wdhcp_OPT_END :: rest) < fuel)%nat ->
  dhcpw_options_go fuel (dhcpw_opts_bytes l ++ wdhcp_OPT_END :: rest) = Ok l.
Proof. exact dhcpw_options_go_bytes. Qed.
Print Assumptions C06_dhcpw_walk_of_written.
