(* Property C09 -- datagram sockets (udp / icmp / raw) preserve message boundaries, order and
   addressing.  Only the property theorems (each closed by [exact]) and [Print Assumptions];
   statements are pinned in Pins/C09.v.

   Vocabulary (Model/Dgram.v, Model/DgramQueue.v, Proofs/DgramProofs.v):
     sock_run ev s ops        runs any list of operations (bind close set_hop_limit send send_with recv
                              recv_slice peek peek_slice, arrivals delivered by the interface [OpProcess],
                              interface polls with the outcome of the emit callback [OpDispatch code])
                              on a socket of any of the three kinds, over queues of ANY capacities;
     tx_pending / rx_pending  the datagrams (metadata, payload) waiting in the two queues;
     ghost_tx, ghost_rx       ghost histories computed from the (operation, result) log since the last
                              close: (accepted by send, taken out by dispatch) and (stored by process,
                              handed out or dropped-with-Truncated by recv / recv_slice);
     evt_local                what each single logged event guarantees (emitted packet = the queued
                              datagram, field by field [pkt_faithful]; lengths; Truncated only for a
                              too small buffer);
     op_args_ok               caller obligations of the Rust API (send: buffer filled with `size` bytes;
                              send_with: the closure returns at most max_size; hop limit <> 0). *)
From SV Require Import Lib.Base Gen.Consts Model.DgramQueue Model.Dgram Proofs.DgramProofs.

(* Every datagram accepted by send is taken out of the queue at most once, in queue order and
   unmodified: accepted = taken ++ still pending; a datagram is taken only by a dispatch whose emit
   callback answered Ok (or by a documented silent drop), and the packet handed to the callback
   carries exactly the queued payload, destination, port and (udp) local address. *)
Theorem C09_tx_at_most_once_in_order_unmodified : forall ev s ops s' rs,
  sock_is_new s -> Forall op_args_ok ops -> sock_run ev s ops = Ok (s', rs) ->
  let '(accepted, taken) := ghost_tx (tx_hdr s) (combine ops rs) in
  accepted = taken ++ tx_pending s' /\
  Forall (evt_local (sock_kind s)) (combine ops rs).
Proof. exact c09_tx_at_most_once_in_order_unmodified. Qed.
Print Assumptions C09_tx_at_most_once_in_order_unmodified.

(* ... and exactly once when every emit succeeds and polling continues: from any reachable state,
   as many successful polls as there are pending datagrams empty the queue, each datagram being
   handed to emit once, in order (None = the documented drops: no source address, IP version
   mismatch, malformed icmp / raw packet). *)
Theorem C09_tx_exactly_once_when_emit_ok : forall ev s0 ops s rs,
  sock_is_new s0 -> Forall op_args_ok ops -> sock_run ev s0 ops = Ok (s, rs) ->
  let '(accepted, taken) := ghost_tx (tx_hdr s0) (combine ops rs) in
  accepted = taken ++ tx_pending s /\
  exists s' rs',
    sock_run ev s (repeat (OpDispatch EMIT_OK) (length (tx_pending s))) = Ok (s', rs') /\
    tx_pending s' = [] /\ rx_pending s' = rx_pending s /\
    rs' = map (fun x => SR_Dispatch (Some x) (sock_prepare ev s (fst x) (snd x)) 0) (tx_pending s).
Proof. exact c09_tx_exactly_once_reachable. Qed.
Print Assumptions C09_tx_exactly_once_when_emit_ok.

(* What the interface's emit closure does to the wire.  Ok => the datagram is transmitted exactly
   once if it fits the link; if it is an IPv4 datagram above the MTU that fits the fragmentation
   buffer its first fragment is transmitted and the datagram is parked in the (then free)
   fragmenter -- a busy fragmenter makes the closure answer EMIT_BUSY, so the datagram stays in
   its socket and is never "Ok and dropped"; it is dropped only if it can never be sent (IPv6
   above the MTU, IPv4 above the fragmentation buffer).  Err => nothing of it is transmitted
   (at most a neighbor-discovery frame) and the fragmenter is untouched. *)
Theorem C09_interface_emit : forall ev p st na res st' na' res' c,
  if_respond ev p (st, na, res) = Ok ((st', na', res'), c) ->
  (c = EMIT_OK ->
     (pkt_total_len p <= if_mtu st /\ if_out st' = if_out st ++ [FO_Pkt p] /\ if_frag st' = if_frag st) \/
     (pkt_total_len p > if_mtu st /\ a_ver (p_dst p) = 4 /\ pkt_total_len p <= cfg_FRAGMENTATION_BUFFER_SIZE /\
      if_out st' = if_out st ++ [FO_Frag 0 (if_max_frag st) true] /\
      if_frag st' = Some (FO_Pkt p, pkt_total_len p, if_max_frag st + wipv4_HEADER_LEN)) \/
     (pkt_total_len p > if_mtu st /\
      (a_ver (p_dst p) <> 4 \/ cfg_FRAGMENTATION_BUFFER_SIZE < pkt_total_len p) /\
      if_out st' = if_out st /\ if_frag st' = if_frag st)) /\
  (c <> EMIT_OK ->
     if_frag st' = if_frag st /\
     (if_out st' = if_out st \/ exists k a, if_out st' = if_out st ++ [FO_Aux k a])).
Proof. exact c09_interface_emit. Qed.
Print Assumptions C09_interface_emit.

(* A datagram parked in the fragmenter leaves completely: ipv4_egress sends the remaining
   fragments one per call (contiguous offsets, every piece but the last a multiple of 8 via
   if_max_frag) and the datagram is reported exactly once, with its last fragment. *)
Theorem C09_fragment_train_completes : forall fuel st f len sent,
  if_frag st = Some (f, len, sent) -> if_budget st = None -> 0 < if_max_frag st ->
  sent < len -> (Z.to_nat (len - sent) <= fuel)%nat ->
  let st' := ipv4_egress_n fuel st in
  if_frag_finished st' = true /\
  if_out st' = if_out st ++ frag_train fuel (if_max_frag st) len sent ++ [f].
Proof. exact c09_fragment_train_completes. Qed.
Print Assumptions C09_fragment_train_completes.

(* Order on the wire as a peer behind an order-preserving link sees it.  [wire_scan open out] walks
   over the transmitted frames and fails (None) iff a whole socket datagram appears while a
   fragment train is unfinished; [wire_coherent] ties it to the fragmenter.  While a train is
   unfinished the emit closure of socket_egress sends NOTHING of any socket and the datagram
   stays queued; it never answers Ok then.  So all fragments of a datagram precede every frame
   of the datagram queued behind it, and completed datagrams of a socket appear in queue order. *)
Theorem C09_fragments_before_next_datagram : forall ev p st na res st' na' res' c o0,
  if_respond ev p (st, na, res) = Ok ((st', na', res'), c) ->
  wire_coherent o0 st -> 0 < if_max_frag st -> if_max_frag st + wipv4_HEADER_LEN <= if_mtu st ->
  (if_frag_finished st = false -> c = EMIT_BUSY /\ st' = st) /\
  (c = EMIT_OK -> if_frag_finished st = true) /\
  wire_coherent o0 st' /\
  exists o', wire_scan o0 (if_out st') = Some o'.
Proof. exact c09_fragments_before_next_datagram. Qed.
Print Assumptions C09_fragments_before_next_datagram.

(* ... and the fragmenter's own egress step keeps that order (next fragment, or last fragment
   followed by the report of the completed datagram). *)
Theorem C09_ipv4_egress_keeps_wire_order : forall st o0,
  wire_coherent o0 st -> 0 < if_max_frag st -> wire_coherent o0 (if_ipv4_egress st).
Proof. exact ipv4_egress_coherent. Qed.
Print Assumptions C09_ipv4_egress_keeps_wire_order.

(* Every arrival stored by process is handed to the application exactly once, whole, in order
   -- or consumed by a recv_slice that reported Truncated; stored = consumed ++ still pending. *)
Theorem C09_rx_exactly_once_whole_or_not_at_all : forall ev s ops s' rs,
  sock_is_new s -> Forall op_args_ok ops -> sock_run ev s ops = Ok (s', rs) ->
  let '(stored, consumed) := ghost_rx (combine ops rs) in
  stored = consumed ++ rx_pending s' /\
  Forall (evt_local (sock_kind s)) (combine ops rs).
Proof. exact c09_rx_exactly_once_whole_or_not_at_all. Qed.
Print Assumptions C09_rx_exactly_once_whole_or_not_at_all.

(* An arrival is either stored with the source endpoint and the destination address of the
   arriving packet as its metadata, or (queue refuses it) nothing of it becomes visible. *)
Theorem C09_rx_metadata_correct : forall ev s src sport dst payload,
  sock_wf s -> sock_kind s = 1 ->
  exists s' ok, sock_step ev s (OpProcess (ArrUdp src sport dst payload)) = Ok (s', SR_Process ok) /\
    tx_pending s' = tx_pending s /\
    rx_pending s' = if ok then rx_pending s ++ [(mkDM src sport (Some dst), payload)] else rx_pending s.
Proof. exact c09_rx_metadata_correct. Qed.
Print Assumptions C09_rx_metadata_correct.

(* A user buffer smaller than the datagram yields the Truncated error (recv_slice drops the
   datagram by documented design, peek_slice keeps it); otherwise the whole datagram is returned. *)
Theorem C09_truncated_is_error_not_short_data : forall ev s cap m d rest,
  sock_wf s -> rx_pending s = (m, d) :: rest ->
  exists s' rr,
    sock_step ev s (OpRecvSlice cap) = Ok (s', SR_Recv rr) /\ rx_pending s' = rest /\
    (if cap <? zlen d then rr = RR_Trunc (zlen d) (Some (m, d)) else rr = RR_Ok (zlen d) m d) /\
    (forall s2 r2, sock_step ev s (OpPeekSlice cap) = Ok (s2, r2) ->
       r2 = SR_NA \/
       (rx_pending s2 = (m, d) :: rest /\
        r2 = SR_Recv (if cap <? zlen d then RR_Trunc (zlen d) None else RR_Ok (zlen d) m d))).
Proof. exact c09_truncated_is_error_not_short_data. Qed.
Print Assumptions C09_truncated_is_error_not_short_data.

(* Message boundaries: position by position, what was handed out is what was stored. *)
Theorem C09_no_merge_no_split : forall ev s ops s' rs,
  sock_is_new s -> Forall op_args_ok ops -> sock_run ev s ops = Ok (s', rs) ->
  let '(stored, consumed) := ghost_rx (combine ops rs) in
  forall i x, nth_error consumed i = Some x -> nth_error stored i = Some x.
Proof. exact c09_no_merge_no_split. Qed.
Print Assumptions C09_no_merge_no_split.

(* Interface demultiplexing: a udp datagram goes to the first udp socket that accepts it and to
   no other socket. *)
Theorem C09_first_matching_udp_socket_only : forall ev src sport dst dport payload ss ss' handled,
  if_process_udp ev ss src sport dst dport payload = Ok (ss', handled) ->
  udp_demux ev src sport dst dport payload ss ss' handled.
Proof. exact c09_first_matching_udp_socket_only. Qed.
Print Assumptions C09_first_matching_udp_socket_only.

(* Complete specification of every single call in any reachable state (includes peek, bind,
   close, the refused send that leaves the queue unchanged, ...). *)
Theorem C09_step_spec : forall ev s op, sock_wf s -> op_args_ok op ->
  exists s' r, sock_step ev s op = Ok (s', r) /\ sock_wf s' /\ step_rel ev s op r s'.
Proof. exact c09_step_spec. Qed.
Print Assumptions C09_step_spec.

Theorem C09_reachable_wf : forall ev s ops s' rs,
  sock_is_new s -> Forall op_args_ok ops -> sock_run ev s ops = Ok (s', rs) -> sock_wf s'.
Proof. exact c09_reachable_wf. Qed.
Print Assumptions C09_reachable_wf.

(* None of the panic sources of the modelled code (unwrap on a padding record, debug_assert on
   the slice length, slice indexing, copy_from_slice) is reachable. *)
Theorem C09_no_panic : forall ev s ops,
  sock_is_new s -> Forall op_args_ok ops -> is_panic (sock_run ev s ops) = false.
Proof. exact c09_no_panic. Qed.
Print Assumptions C09_no_panic.

(* The queue specification accepts and refuses exactly like PacketBuffer::enqueue and is a FIFO
   of whole (header, payload) records. *)
Theorem C09_queue_enqueue : forall q size h data,
  pq_wf q -> 0 <= size -> Z.of_nat (length data) = size ->
  exists q' b, pq_enqueue q size h data = Ok (q', b) /\
    (if b then enq_result q size h data q' else same_packets q q').
Proof. exact pq_enqueue_spec. Qed.
Print Assumptions C09_queue_enqueue.

Theorem C09_queue_dequeue : forall q, pq_wf q ->
  exists q' r, pq_dequeue q = Ok (q', r) /\ pq_wf q' /\
    q_mcap q' = q_mcap q /\ q_pcap q' = q_pcap q /\
    match r with
    | None => pq_packets q = [] /\ pq_packets q' = []
    | Some x => pq_packets q = x :: pq_packets q'
    end.
Proof. exact pq_dequeue_spec. Qed.
Print Assumptions C09_queue_dequeue.

(* Non-vacuity: 3-slot / 8-byte rings forced to wrap around with a padding record, an emit that
   fails, a refused send, Truncated on peek_slice and recv_slice, a dropped arrival. *)
Theorem C09_example_tx :
  match sock_run ex_env ex_sock ex_ops with
  | Ok (s', rs) =>
      map (fun r => match r with SR_Code c => c | SR_Dispatch _ (Some p) c => 100 + c + 10 * zlen (p_payload p)
                               | SR_Dispatch _ None c => 200 + c | _ => -1 end) rs
        = [0; 0; 0; 150; 0; 2; 122; 120; 140; 200] /\
      ghost_tx (tx_hdr ex_sock) (combine ex_ops rs) =
        ([(ex_m, [1;2;3;4;5]); (ex_m, [6;7]); (ex_m, [8;9;10;11])],
         [(ex_m, [1;2;3;4;5]); (ex_m, [6;7]); (ex_m, [8;9;10;11])]) /\
      tx_pending s' = []
  | _ => False
  end /\
  match sock_run ex_env ex_sock (firstn 5 ex_ops) with
  | Ok (s', _) => map (fun it => (match it_hdr it with Some _ => 1 | None => 0 end, it_size it)) (q_items (sock_tx s'))
                  = [(1, 2); (0, 1); (1, 4)] /\ q_read (sock_tx s') = 5 /\ q_len (sock_tx s') = 7
  | _ => False
  end.
Proof. exact c09_example_tx. Qed.
Print Assumptions C09_example_tx.

Theorem C09_example_rx :
  match sock_run ex_env (SUdp (udp_new (pq_new 3 8) (pq_new 1 8))) ex_rx_ops with
  | Ok (s', rs) =>
      map (fun r => match r with
                    | SR_Recv (RR_Ok n m d) => (1, n, a_id (dm_addr m), match dm_local m with Some a => a_id a | None => -1 end)
                    | SR_Recv (RR_Trunc n (Some _)) => (2, n, 0, 0)
                    | SR_Recv (RR_Trunc n None) => (3, n, 0, 0)
                    | SR_Recv (RR_Err e) => (4, e, 0, 0)
                    | SR_Process true => (5, 0, 0, 0)
                    | SR_Process false => (6, 0, 0, 0)
                    | _ => (0, 0, 0, 0) end) rs
      = [(0,0,0,0); (5,0,0,0); (5,0,0,0); (1,5,3,1); (5,0,0,0); (6,0,0,0); (3,2,0,0); (2,2,0,0); (1,4,3,1); (4,3,0,0)]
  | _ => False
  end.
Proof. exact c09_example_rx. Qed.
Print Assumptions C09_example_rx.

(* Tie to the source: the header lengths and timer constants regenerated from /repo on every run. *)
Theorem C09_constants :
  wudp_HEADER_LEN = 8 /\ wipv4_HEADER_LEN = 20 /\ wipv6_HEADER_LEN = 40 /\ wicmpv4_HEADER_END = 8 /\
  neigh_SILENT_TIME_ms = 1000 /\ neigh_ENTRY_LIFETIME_ms = 60000 /\ meta_DISCOVERY_SILENT_TIME_ms = 1000 /\
  0 < cfg_FRAGMENTATION_BUFFER_SIZE.
Proof. exact c09_constants. Qed.
Print Assumptions C09_constants.
