(* Property C05 - a TCP sender stays inside the peer's window and MSS and never alters data.
   This file contains only the property theorems (each closed by [exact]) and
   [Print Assumptions]; statements are pinned in Pins/C05.v.

   Setting (Proofs/TcpSendInv.v): ghost g = (g_iss, g_stream, g_acked, g_phase, g_flight, g_fin,
   g_hw): the initial send sequence number of the current connection (epoch), every byte [send]
   accepted in it (W; stream offset 0 follows the SYN), the number of stream bytes acknowledged,
   whether SYN / FIN are acknowledged, SND.NXT - SND.UNA, "the application closed the sending side",
   the highest sequence offset reached.  A wire sequence number is [sq (g_iss g + 1 + k)] for the
   stream offset k ([sq x = x mod 2^32]).  [inv g s] is the sender invariant J1-J3 + timer clauses
   of DESIGN.md Appendix A + the keep-alive clauses [kinv] (rtte.max_seq_sent stays within the
   sequence space of this connection's stream; remote_mss >= 48; a listener has no max_seq_sent).
   It does not mention the congestion controller: every theorem holds
   for NoControl, Reno in any state and any other reported congestion window.
   [ctx_ok]: the ISN is a u32 and the IP MTU is at least 40.  [repr_ok r]: what TcpRepr::parse
   guarantees (u32 sequence numbers, u16 window, window scale <= 14). *)
From SV Require Import Lib.Base Gen.Consts.
From SV Require Import Model.Seq32 Model.Assembler Model.TcpBuf Model.TcpTypes Model.Tcp.
From SV Require Import Proofs.TcpSendBase Proofs.TcpSendInv Proofs.TcpSendAck Proofs.TcpSendProc.
From SV Require Import Proofs.TcpSendApi Proofs.TcpSendDisp Proofs.TcpSendDisp2 Proofs.TcpSendDisp3.
From SV Require Import Proofs.TcpSendTrace Proofs.TcpSendProps Proofs.TcpSendReply Proofs.TcpSendKa.
From SV Require Proofs.TcpLiveProofs.

(* ---- the inductive invariant ---- *)

(* base: a new socket (transmit buffer of at most 2^30 bytes) *)
Theorem C05_invariant_initially : forall rxs txs cc ts s,
  tcp_new rxs txs cc ts = Ok s -> l_len txs <= 2 ^ 30 -> inv ghost0 s.
Proof. exact new_inv. Qed.
Print Assumptions C05_invariant_initially.

(* step: ANY event - API call, any parsed segment (acceptable or not, stale, duplicated, reordered,
   shrinking the window, acknowledging data never sent), dispatch at any time with any device
   answer - preserves the invariant; the ghost stays in its epoch (same ISS, stream only extended
   by what send accepted, acked only grows) or a new connection starts *)
Theorem C05_tx_invariant_preserved : forall cx g s ev s' out tags,
  inv g s -> ctx_ok cx -> tx_ev_ok ev ->
  tcp_step cx s ev = Ok (s', out, tags) ->
  exists g', inv g' s' /\ ghost_rel g g'.
Proof. exact tx_step_inv. Qed.
Print Assumptions C05_tx_invariant_preserved.

(* every phase of process: invariant, and what the segment taught the socket *)
Theorem C05_process_preserves : forall cx g s ip r s' reply tags,
  inv g s -> ctx_ok cx -> repr_ok r ->
  tcp_process cx s ip r = Ok (s', reply, tags) ->
  exists g', inv g' s' /\ ghost_rel g g' /\ learned s r s' /\ proc_ghost cx g s r g' s'.
Proof. exact process_inv. Qed.
Print Assumptions C05_process_preserves.

(* send appends exactly the accepted prefix to the stream *)
Theorem C05_send_appends : forall g s data s' n,
  inv g s -> tcp_send_slice s data = Ok (s', n) ->
  inv (g_send g (l_take n data)) s' /\ 0 <= n <= l_len data /\
  rb_len (s_tx_buffer s') = rb_len (s_tx_buffer s) + n /\ tcp_may_send s = true.
Proof. exact send_inv. Qed.
Print Assumptions C05_send_appends.

(* lift: every list of events from any state satisfying the invariant *)
Theorem C05_invariant_all_histories : forall evs g s s' outs,
  inv g s -> Forall (fun ce => ctx_ok (fst ce) /\ tx_ev_ok (snd ce)) evs ->
  tcp_run s evs = Ok (s', outs) -> exists g', inv g' s'.
Proof. exact tx_invariant_preserved. Qed.
Print Assumptions C05_invariant_all_histories.

(* ... and every segment emitted along every history satisfies all claims below, relative to the
   ghost of the moment it was built; consecutive ghosts are related by ghost_rel *)
Theorem C05_all_histories_all_segments : forall evs g s,
  inv g s -> Forall (fun ce => ctx_ok (fst ce) /\ tx_ev_ok (snd ce)) evs -> hist_ok g s evs.
Proof. exact tx_all_histories. Qed.
Print Assumptions C05_all_histories_all_segments.

(* ---- every segment dispatch transmits (DSent p).  The only side condition: the model did not
   turn the (empty) segment into a keep-alive, which tcp_dispatch itself reports as branch tag 245
   (keep-alive segments: payload [0] at SND.NXT-1, exempted by interpretation).  The same claims for
   every BUILT segment, transmitted or refused, are part of C05_all_histories_all_segments. ---- *)

Theorem C05_tx_payload_is_stream : forall cx g s e s' tags p,
  inv g s -> ctx_ok cx -> tcp_dispatch cx s e = Ok (s', DSent p, tags) -> ~ In 245 tags ->
  0 < l_len (r_payload (snd p)) ->
  exists k, r_seq_number (snd p) = sq (g_iss g + 1 + k) /\ g_acked g <= k /\
            k + l_len (r_payload (snd p)) <= l_len (g_stream g) /\
            r_payload (snd p) = l_slice k (l_len (r_payload (snd p))) (g_stream g).
Proof. exact tx_payload_is_stream. Qed.
Print Assumptions C05_tx_payload_is_stream.

(* a retransmission carries the bytes of the first transmission: the stream only grows at its end *)
Theorem C05_retransmission_same_bytes : forall g g' k n,
  same_epoch g g' -> 0 <= k -> 0 <= n -> k + n <= l_len (g_stream g) ->
  l_slice k n (g_stream g') = l_slice k n (g_stream g).
Proof. exact same_epoch_slice. Qed.
Print Assumptions C05_retransmission_same_bytes.

Theorem C05_tx_within_window : forall cx g s e s' tags p,
  inv g s -> ctx_ok cx -> tcp_dispatch cx s e = Ok (s', DSent p, tags) -> ~ In 245 tags ->
  0 < l_len (r_payload (snd p)) ->
  exists k, r_seq_number (snd p) = sq (g_iss g + 1 + k) /\
    (k + l_len (r_payload (snd p)) <= g_acked g + s_remote_win_len s \/
     (l_len (r_payload (snd p)) = 1 /\ s_remote_win_len s = 0 /\
      exists s1, frame s s1 /\ timer_should_zero_window_probe (s_timer s1) (cx_now cx) = true)).
Proof. exact tx_within_window. Qed.
Print Assumptions C05_tx_within_window.

Theorem C05_tx_within_mss_mtu : forall cx g s e s' tags p,
  inv g s -> ctx_ok cx -> tcp_dispatch cx s e = Ok (s', DSent p, tags) -> ~ In 245 tags ->
  0 < l_len (r_payload (snd p)) ->
  l_len (r_payload (snd p)) <= s_remote_mss s /\
  wipv4_HEADER_LEN + ip_payload_len (fst p) <= cx_ip_mtu cx.
Proof. exact tx_within_mss_mtu. Qed.
Print Assumptions C05_tx_within_mss_mtu.

(* the MSS the socket works with: default after reset, from a SYN the announced value raised to
   MIN_REMOTE_MSS, 0 or absent = keep; nothing else changes it *)
Theorem C05_mss_of_syn : forall s r,
  s_remote_mss (tcp_apply_mss s r) =
  match r_max_seg_size r with
  | Some m => if m =? 0 then s_remote_mss s else Z.max m tcp_MIN_REMOTE_MSS
  | None => s_remote_mss s
  end.
Proof. exact mss_of_syn. Qed.
Print Assumptions C05_mss_of_syn.

Theorem C05_reset_forgets : forall s,
  s_remote_win_len (tcp_reset s) = 0 /\ s_remote_mss (tcp_reset s) = tcp_DEFAULT_MSS.
Proof. exact reset_forgets. Qed.
Print Assumptions C05_reset_forgets.

Theorem C05_window_mss_learned_only_from_segments : forall cx g s ip r s' reply tags,
  inv g s -> ctx_ok cx -> repr_ok r -> iface_tcp_ingress cx s ip r = Ok (s', reply, tags) ->
  learned s r s'.
Proof. exact window_mss_learned_only_from_segments. Qed.
Print Assumptions C05_window_mss_learned_only_from_segments.

Theorem C05_dispatch_keeps_learned : forall cx g s e s' res tags,
  inv g s -> ctx_ok cx -> tcp_dispatch cx s e = Ok (s', res, tags) ->
  (s_remote_win_len s' = s_remote_win_len s /\ s_remote_mss s' = s_remote_mss s /\
   s_remote_win_shift s' = s_remote_win_shift s) \/ s' = tcp_reset s.
Proof. exact dispatch_keeps_learned. Qed.
Print Assumptions C05_dispatch_keeps_learned.

Theorem C05_tx_new_data_contiguous : forall cx g s e s' tags p,
  inv g s -> ctx_ok cx -> tcp_dispatch cx s e = Ok (s', DSent p, tags) -> ~ In 245 tags ->
  0 < l_len (r_payload (snd p)) ->
  exists k, r_seq_number (snd p) = sq (g_iss g + 1 + k) /\ 1 + k <= g_hw g.
Proof. exact tx_new_data_contiguous. Qed.
Print Assumptions C05_tx_new_data_contiguous.

Theorem C05_fin_after_all_data : forall cx g s e s' tags p,
  inv g s -> ctx_ok cx -> tcp_dispatch cx s e = Ok (s', DSent p, tags) -> ~ In 245 tags ->
  r_control (snd p) = CFin ->
  g_fin g = true /\
  exists k, r_seq_number (snd p) = sq (g_iss g + 1 + k) /\
            k + l_len (r_payload (snd p)) = l_len (g_stream g).
Proof. exact fin_after_all_data. Qed.
Print Assumptions C05_fin_after_all_data.

(* nothing after the FIN: closing freezes the stream, and data segments lie inside the stream *)
Theorem C05_fin_freezes_stream : forall g g', same_epoch g g' -> g_fin g = true ->
  g_fin g' = true /\ g_stream g' = g_stream g.
Proof. exact fin_freezes_stream. Qed.
Print Assumptions C05_fin_freezes_stream.

(* the one segment the theorems above exempt (tag 245, keep-alive): it carries a single zero octet
   at a sequence number BELOW SND.UNA, where the peer has already received stream data - it can
   never be taken for new data.  Needs tcp-c02's timer invariant (an idle timer in a live state
   means nothing is in flight), which holds in every reachable state (C02, reachable_inv).
   Before the fix of D23 (/repo 4d1240b) this was false: see corpus/C05/tcp-c05-stale-max-seq-sent.case *)
Theorem C05_keep_alive_below_una : forall cx g s e s' p tags,
  inv g s -> ctx_ok cx -> 52 < cx_ip_mtu cx -> TcpLiveProofs.tcp_live_inv s ->
  tcp_dispatch cx s e = Ok (s', DSent p, tags) ->
  In 245 tags ->
  g_phase g <> PSyn /\ exists u, 0 <= u < g_una g /\ r_seq_number (snd p) = sq (g_iss g + u).
Proof. exact keep_alive_below_una. Qed.
Print Assumptions C05_keep_alive_below_una.

Theorem C05_syn_window_unscaled : forall cx g s e s' tags p,
  inv g s -> ctx_ok cx -> tcp_dispatch cx s e = Ok (s', DSent p, tags) -> ~ In 245 tags ->
  r_control (snd p) = CSyn ->
  l_len (r_payload (snd p)) = 0 /\ r_seq_number (snd p) = sq (g_iss g) /\
  r_window_len (snd p) = u16_try (rb_window (s_rx_buffer s)).
Proof. exact syn_window_unscaled. Qed.
Print Assumptions C05_syn_window_unscaled.

Theorem C05_window_scaled_as_negotiated : forall cx g s e s' res tags p,
  inv g s -> ctx_ok cx -> tcp_dispatch cx s e = Ok (s', res, tags) -> disp_pkt res = Some p ->
  r_control (snd p) <> CSyn ->
  r_window_len (snd p) = u16_try (shr (rb_window (s_rx_buffer s)) (s_remote_win_shift s)).
Proof. exact window_scaled_as_negotiated. Qed.
Print Assumptions C05_window_scaled_as_negotiated.

(* the segments process itself builds (ACK, challenge ACK, RST replies) carry no payload and no
   SYN/FIN: every data-bearing segment of a socket is built by dispatch *)
Theorem C05_replies_carry_no_data : forall cx s ip r s' o tags,
  iface_tcp_ingress cx s ip r = Ok (s', o, tags) -> reply_shape o.
Proof. exact ingress_reply_no_data. Qed.
Print Assumptions C05_replies_carry_no_data.

(* no panic: under the sender invariant the only panic source left in dispatch is the
   receiver-side sequence subtraction of last_scaled_window (C04's invariant) *)
Theorem C05_dispatch_no_panic : forall cx g s e,
  inv g s -> ctx_ok cx -> (exists o, tcp_last_scaled_window s = Ok o) ->
  exists res, tcp_dispatch cx s e = Ok res.
Proof. exact dispatch_no_panic'. Qed.
Print Assumptions C05_dispatch_no_panic.

(* pure sizing arithmetic, for ANY congestion window value *)
Theorem C05_size_for_any_cwnd : forall win_limit eff cwnd flight size,
  0 <= win_limit -> 0 <= eff ->
  size = Z.min (Z.min win_limit eff) (sat_sub cwnd flight) ->
  0 <= size /\ size <= win_limit /\ size <= eff.
Proof. exact size_normal_bounds. Qed.
Print Assumptions C05_size_for_any_cwnd.

Theorem C05_any_controller : forall g s c, inv g s -> inv g (upd_congestion_controller s c).
Proof. exact inv_any_controller. Qed.
Print Assumptions C05_any_controller.

(* non-vacuity: a reachable ESTABLISHED socket, 8 bytes in flight, window shrunk to 4 *)
Theorem C05_example :
    s_state ex_s = Established /\ rb_len (s_tx_buffer ex_s) = 11 /\
    s_local_seq_no ex_s = 1005 /\ s_remote_last_seq ex_s = 1013 /\ s_remote_win_len ex_s = 4 /\
    s_remote_mss ex_s = 100 /\
    (exists g, inv g ex_s) /\
    (exists s' tags, tcp_dispatch (ex_cx 4000) ex_s true = Ok (s', DNothing, tags)) /\
    (exists s' p tags, tcp_dispatch (ex_cx 2000000) ex_s true = Ok (s', DSent p, tags) /\
                       r_seq_number (snd p) = 1005 /\ r_payload (snd p) = [15; 16; 17; 18]).
Proof. exact c05_example. Qed.
Print Assumptions C05_example.
