(* Property C06, 6LoWPAN NHC extension header (src/wire/sixlowpan/nhc.rs: ExtHeaderRepr::emit / parse /
   buffer_len, ExtHeaderPacket setters and accessors): emit-then-parse round trip, no panic on a buffer
   of the declared length, independence of the old buffer contents, re-emission of parsed
   representations.  Only `exact` proofs; lemmas in Proofs/WireNhcExtProofs.v. *)
From SV Require Import Lib.Base Gen.Consts Gen.WireFields Model.WireBase Model.WireNhc Model.WireNhcExt.
From SV Require Import Proofs.WireBaseProofs Proofs.LowpanWireProofs Proofs.LowpanProofs Proofs.WireNhcExtProofs.

(* emit into any buffer that holds the header and the `length` octets it announces; parse gives the
   representation back; the octets behind the header are the buffer's own *)
Theorem C06_nhc_ext_roundtrip : forall r b,
  nhc_ext_repr_wf r = true -> bytes_ok b = true -> nhc_ext_buffer_len r + ne_length r <= blen b ->
  exists bs,
    nhc_ext_emit r b = Ok bs /\
    bs = nhc_ext_hdr_bytes r ++ skipn (Z.to_nat (nhc_ext_buffer_len r)) b /\
    nhc_ext_new_checked bs = Ok tt /\
    nhc_ext_repr_parse bs = Ok r /\
    nhc_ext_payload bs = Ok (firstn (Z.to_nat (ne_length r)) (skipn (Z.to_nat (nhc_ext_buffer_len r)) b)).
Proof. exact nhc_ext_roundtrip. Qed.
Print Assumptions C06_nhc_ext_roundtrip.

(* emission never panics on a buffer of (at least) the declared length and keeps its length *)
Theorem C06_nhc_ext_emit_no_panic : forall r b,
  nhc_ext_repr_wf r = true -> bytes_ok b = true -> nhc_ext_buffer_len r <= blen b ->
  nhc_ext_emit r b <> Panic /\ exists bs, nhc_ext_emit r b = Ok bs /\ blen bs = blen b.
Proof. exact nhc_ext_emit_no_panic. Qed.
Print Assumptions C06_nhc_ext_emit_no_panic.

(* the octets produced do not depend on what the buffer contained *)
Theorem C06_nhc_ext_emit_ignores_old_bytes : forall r b1 b2,
  nhc_ext_repr_wf r = true -> bytes_ok b1 = true -> bytes_ok b2 = true ->
  blen b1 = nhc_ext_buffer_len r -> blen b2 = nhc_ext_buffer_len r ->
  nhc_ext_emit r b1 = nhc_ext_emit r b2 /\ nhc_ext_emit r b1 = Ok (nhc_ext_hdr_bytes r).
Proof. exact nhc_ext_emit_ignores_old_bytes. Qed.
Print Assumptions C06_nhc_ext_emit_ignores_old_bytes.

(* ... and nothing behind the header is touched *)
Theorem C06_nhc_ext_emit_keeps_tail : forall r b bs,
  nhc_ext_repr_wf r = true -> bytes_ok b = true -> nhc_ext_buffer_len r <= blen b ->
  nhc_ext_emit r b = Ok bs ->
  skipn (Z.to_nat (nhc_ext_buffer_len r)) bs = skipn (Z.to_nat (nhc_ext_buffer_len r)) b.
Proof. exact nhc_ext_emit_keeps_tail. Qed.
Print Assumptions C06_nhc_ext_emit_keeps_tail.

(* a representation obtained by parsing ANY octet string is within the field ranges, and re-emitted over
   the same octets it re-parses to itself (field value 6 of the 3-bit id reads as Reserved = 5) *)
Theorem C06_nhc_ext_reparse : forall b r,
  bytes_ok b = true -> nhc_ext_repr_parse b = Ok r ->
  nhc_ext_repr_wf r = true /\
  exists bs, nhc_ext_emit r b = Ok bs /\ nhc_ext_repr_parse bs = Ok r /\ blen bs = blen b /\
    skipn (Z.to_nat (nhc_ext_buffer_len r)) bs = skipn (Z.to_nat (nhc_ext_buffer_len r)) b.
Proof. exact nhc_ext_reparse. Qed.
Print Assumptions C06_nhc_ext_reparse.

(* the declared length is the header's: when `length` > 0 and the announced octets are absent the parser
   refuses what emit wrote (check_len after repair 2b2776a) - the round trip is about header + payload *)
Theorem C06_nhc_ext_header_only_refused : forall r b,
  nhc_ext_repr_wf r = true -> bytes_ok b = true -> blen b = nhc_ext_buffer_len r -> 0 < ne_length r ->
  exists bs, nhc_ext_emit r b = Ok bs /\ nhc_ext_repr_parse bs = Err 0.
Proof. exact nhc_ext_header_only_refused. Qed.
Print Assumptions C06_nhc_ext_header_only_refused.

(* C07 for this type: the representation parser never panics *)
Theorem C06_nhc_ext_repr_parse_total : forall b, bytes_ok b = true -> nhc_ext_repr_parse b <> Panic.
Proof. exact nhc_ext_repr_parse_total. Qed.
Print Assumptions C06_nhc_ext_repr_parse_total.

(* non-vacuity: Reserved id, in-line next header 58, four payload octets, garbage-filled buffer *)
Example C06_nhc_ext_roundtrip_witness :
  let r := mkExt 5 (Some 58) 4 in
  nhc_ext_repr_wf r = true /\
  nhc_ext_emit r [255; 255; 255; 1; 2; 3; 4; 9] = Ok [234; 58; 4; 1; 2; 3; 4; 9] /\
  nhc_ext_repr_parse [234; 58; 4; 1; 2; 3; 4; 9] = Ok r /\
  nhc_ext_repr_parse [236; 58; 4; 1; 2; 3; 4; 9] = Ok r /\
  nhc_ext_payload [234; 58; 4; 1; 2; 3; 4; 9] = Ok [1; 2; 3; 4].
Proof. vm_compute. repeat split. Qed.
