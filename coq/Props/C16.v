(* Property C16 - link-layer addressing: only to resolved next hops, discovery rate-limited.
   This file contains only the property theorems (each closed by [exact]) and
   [Print Assumptions]; statements are pinned in Pins/C16.v.

   Vocabulary (Proofs/NexthopProofs.v): an interface processes [event]s - received Ethernet frames
   (ARP, ICMPv4 echo, ICMPv6 echo / neighbor advertisement / solicitation, also with rejected
   checksums), IP packets handed to dispatch_ip, address changes, set_hardware_addr, route-table changes.  [nh_run i evs] = final interface and every
   frame put on the wire with its time (microseconds); [nh_log i evs] = the learning history:
   CFill k hw t (a validated ARP/NDISC message taught k |-> hw at t, see C16_fill_is_validated),
   CReset k hw t (an accepted IP packet from (k, hw) refreshed the entry at t), CFlush (address
   change).  Times are microseconds: 60 s = 60000000, 1 s = 1000000; both are proved from the
   generated constants neigh_ENTRY_LIFETIME / neigh_SILENT_TIME / meta_DISCOVERY_SILENT_TIME. *)
From SV Require Import Lib.Base Gen.Consts Model.Neighbor Model.Route Model.Meta Model.Nexthop.
From SV Require Import Proofs.NeighborProofs Proofs.RouteProofs Proofs.NexthopProofs Proofs.MetaProofs.

(* cache_bounded: along every event sequence the cache never holds more entries than it has slots
   and never two entries for the same protocol address (every capacity >= 1). *)
Theorem C16_cache_bounded : forall ether hw cap evs i tfr, 1 <= cap ->
  nh_run (nh_init ether hw cap) evs = Ok (i, tfr) ->
  Z.of_nat (length (c_storage (if_cache i))) <= cap /\ NoDup (map fst (c_storage (if_cache i))).
Proof. exact cache_bounded_run. Qed.
Print Assumptions C16_cache_bounded.

(* ... and from any state satisfying the invariant (bounded, duplicate-free, every entry justified by
   the learning history log0): the invariant is preserved by every event sequence, with the history
   extended by the run's learning history. *)
Theorem C16_invariant_preserved : forall evs i i' tfr log0,
  1 <= if_cap i -> cache_wf (if_cap i) (if_cache i) -> cache_inv log0 (if_cache i) ->
  nh_run i evs = Ok (i', tfr) ->
  if_cap i' = if_cap i /\ if_ether i' = if_ether i /\
  cache_wf (if_cap i) (if_cache i') /\ cache_inv (log0 ++ nh_log i evs) (if_cache i').
Proof. exact run_inv. Qed.
Print Assumptions C16_invariant_preserved.

(* unicast_uses_learned_addr: whenever lookup_hardware_addr answers "send to hardware address h"
   for a destination that is neither broadcast nor multicast, nothing was emitted or changed, and
   h is what the most recent validated ARP/NDISC message for the next hop n taught (no flush and no
   other fill of n since), confirmed - by that message or by later traffic from (n, h) - less than
   60 s ago; n is the destination itself if on-link, else the gateway of a longest-prefix
   unexpired matching route. *)
Theorem C16_unicast_uses_learned_addr : forall ether hw cap evs i tfr dst now i' fr h,
  1 <= cap ->
  nh_run (nh_init ether hw cap) evs = Ok (i, tfr) ->
  nh_is_broadcast i dst = false -> ip_is_multicast dst = false ->
  nh_lookup_hardware_addr i dst now = Ok (i', fr, DSend h) ->
  i' = i /\ fr = [] /\
  exists n, nh_route i dst now = Some n /\ next_hop_correct i dst now n /\
            learned_within_60s (nh_log (nh_init ether hw cap) evs) n h now.
Proof. exact unicast_learned. Qed.
Print Assumptions C16_unicast_uses_learned_addr.

(* what a fill in the learning history is: an ARP request/reply or a neighbor advertisement /
   solicitation that passed the validation rules [fill_cause], received at that time. *)
Theorem C16_fill_is_validated : forall evs i i' tfr k hw t, nh_run i evs = Ok (i', tfr) ->
  In (CFill k hw t) (nh_log i evs) ->
  exists evs1 f evs2 i1 tf1,
    evs = evs1 ++ EvRx t f :: evs2 /\ nh_run i evs1 = Ok (i1, tf1) /\ fill_cause i1 f k hw.
Proof. exact fill_is_validated. Qed.
Print Assumptions C16_fill_is_validated.

(* ... and a refresh: an accepted IP packet for a unicast destination whose IP source is k and
   whose link-layer source is hw. *)
Theorem C16_refresh_is_traffic : forall evs i i' tfr k hw t, nh_run i evs = Ok (i', tfr) ->
  In (CReset k hw t) (nh_log i evs) ->
  exists evs1 f evs2 i1 tf1,
    evs = evs1 ++ EvRx t f :: evs2 /\ nh_run i evs1 = Ok (i1, tf1) /\ refresh_cause i1 f k hw.
Proof. exact refresh_is_traffic. Qed.
Print Assumptions C16_refresh_is_traffic.

(* route_longest_unexpired: Routes::lookup returns the gateway of a matching route that is not
   expired at `now`, and no matching unexpired route in the table has a strictly longer prefix;
   it returns None only if no route matches unexpired. *)
Theorem C16_route_longest_unexpired : forall l a now g, route_lookup l a now = Some g ->
  exists r, In r l /\ rt_via r = g /\ route_live r a now = true /\
    forall r', In r' l -> route_live r' a now = true ->
               cidr_plen (rt_cidr r') <= cidr_plen (rt_cidr r).
Proof. exact route_lookup_some. Qed.
Print Assumptions C16_route_longest_unexpired.

Theorem C16_route_none : forall l a now, route_lookup l a now = None ->
  forall r, In r l -> route_live r a now = false.
Proof. exact route_lookup_none. Qed.
Print Assumptions C16_route_none.

(* no_guess: dispatch_ip either transmits the packet to the looked-up address, or returns an error
   (the caller keeps the packet) having emitted nothing, or exactly one discovery request for the
   correct next hop: an ARP request to the Ethernet broadcast address or a neighbor solicitation to
   the solicited-node multicast hardware address. *)
Theorem C16_no_guess : forall i dst tag now i' fr r,
  nh_dispatch_ip i dst tag now = Ok (i', fr, r) ->
  (exists h, r = DSend h /\ fr = [FIp h dst tag]) \/
  ((r = DNoRoute \/ r = DPending) /\
   (fr = [] \/
    exists n, nh_route i dst now = Some n /\ next_hop_correct i dst now n /\
              neigh_lookup (if_cache i) n now = NotFound /\
              match n with
              | V4 t => fr = [FArpReq ETH_BROADCAST t]
              | V6 t => exists hm, hw_multicast i (V6 (v6_solicited_node t)) = Some hm /\ fr = [FNs hm t]
              end)).
Proof. exact miss_only_discovery. Qed.
Print Assumptions C16_no_guess.

(* ... and at the socket: the head packet leaves the queue only together with its transmission;
   otherwise the queue is unchanged and no IP packet went out (the exceptions are not a neighbor
   matter and do not touch the interface: UDP/ICMP sockets drop an IPv4 packet while the interface
   has no IPv4 address, raw sockets drop a packet with the unspecified destination). *)
Theorem C16_socket_keeps_data : forall i s now i' s' fr sent,
  sim_sock_egress i s now = Ok (i', s', fr, sent) ->
  (sent = true /\ exists dst tag rest h, sk_q s = (dst, tag) :: rest /\ sk_q s' = rest /\ fr = [FIp h dst tag]) \/
  (sent = false /\ sk_q s' = sk_q s /\ no_ip fr /\ (length (requests fr) <= 1)%nat) \/
  (sent = false /\ fr = [] /\ i' = i /\ exists dst tag rest, sk_q s = (dst, tag) :: rest /\ sk_q s' = rest /\
     ((sk_kind s < 2 /\ (exists a, dst = V4 a) /\ nh_has_ipv4_source i = false) \/
      (2 <= sk_kind s /\ ip_is_unspecified dst = true))).
Proof. exact sock_egress_spec. Qed.
Print Assumptions C16_socket_keeps_data.

(* discovery_rate: any two discovery requests (ARP request / neighbor solicitation) an interface
   emits along any event sequence - any times, not even assumed monotone - are at least 1 s apart. *)
Theorem C16_discovery_rate : forall ether hw cap evs i tfr a t1 b t2 c,
  nh_run (nh_init ether hw cap) evs = Ok (i, tfr) ->
  req_times tfr = a ++ t1 :: b ++ t2 :: c ->
  t1 + 1000000 <= t2.
Proof. exact discovery_rate_run. Qed.
Print Assumptions C16_discovery_rate.

(* from any state: no request before silent_until *)
Theorem C16_discovery_not_before_silent_until : forall evs i i' tfr t, nh_run i evs = Ok (i', tfr) ->
  In t (req_times tfr) -> c_silent_until (if_cache i) <= t.
Proof. exact discovery_rate_from. Qed.
Print Assumptions C16_discovery_not_before_silent_until.

(* per socket: after a failed dispatch at t the socket is polled again only once its neighbor is
   in the cache or 1 s has passed; until then its turn does not touch the interface. *)
Theorem C16_meta_backoff : forall t n now hn,
  fst (meta_egress_permitted (meta_neighbor_missing t n) now hn) = true ->
  hn n = true \/ t + 1000000 <= now.
Proof. exact meta_backoff. Qed.
Print Assumptions C16_meta_backoff.

Theorem C16_socket_silenced : forall i s now n su,
  sk_meta s = Waiting n su -> nh_has_neighbor i now n = false -> now < su ->
  sim_sock_egress i s now = Ok (i, s, [], false).
Proof. exact sock_egress_silenced. Qed.
Print Assumptions C16_socket_silenced.

Theorem C16_socket_failed_dispatch_waits : forall i s now i' s' fr dst tag rest,
  sim_sock_egress i s now = Ok (i', s', fr, false) ->
  sk_q s = (dst, tag) :: rest -> sk_q s' = sk_q s ->
  fst (meta_egress_permitted (sk_meta s) now (nh_has_neighbor i now)) = true ->
  sk_meta s' = meta_neighbor_missing now dst.
Proof. exact sock_egress_failed_waits. Qed.
Print Assumptions C16_socket_failed_dispatch_waits.

(* entry_expires: if every message that taught or confirmed n is at least 60 s old, the cache no
   longer returns an address for n. *)
Theorem C16_entry_expires : forall ether hw cap evs i tfr n now, 1 <= cap ->
  nh_run (nh_init ether hw cap) evs = Ok (i, tfr) ->
  (forall h t, In (CFill n h t) (nh_log (nh_init ether hw cap) evs) -> t + 60000000 <= now) ->
  (forall h t, In (CReset n h t) (nh_log (nh_init ether hw cap) evs) -> t + 60000000 <= now) ->
  forall h, neigh_lookup (if_cache i) n now <> Found h.
Proof. exact entry_expires_run. Qed.
Print Assumptions C16_entry_expires.

(* eviction happens only when the cache is full and removes an entry with the smallest expiry, so
   an expired entry is always evicted before a live one. *)
Theorem C16_eviction_smallest_expiry : forall cap c k hw e x, cache_wf cap c ->
  In x (c_storage c) -> fst x <> k ->
  ~ In x (c_storage (neigh_fill_with_expiration cap c k hw e)) ->
  cap <= Z.of_nat (length (c_storage c)) /\
  forall y, In y (c_storage c) -> nb_expires (snd x) <= nb_expires (snd y).
Proof. exact fill_evicts_smallest. Qed.
Print Assumptions C16_eviction_smallest_expiry.

(* panic freedom of dispatch: with unicast gateways, a specified destination and (on 802.15.4) no
   IPv4 multicast destination, none of the asserts / unreachable!() of route, lookup and
   lookup_hardware_addr fires. *)
Theorem C16_dispatch_no_panic : forall i dst tag now,
  gateways_unicast i -> ip_is_unspecified dst = false ->
  (if_ether i = true \/ match dst with V4 a => v4_is_multicast a = false | V6 _ => True end) ->
  nh_dispatch_ip i dst tag now <> Panic.
Proof. exact dispatch_no_panic. Qed.
Print Assumptions C16_dispatch_no_panic.

(* The socket-level simulation of Interface::poll that the correspondence stream `neigh` compares
   with the real crate (sim_step: sends, queued rx frames, route / address changes, polls with the
   ingress loop and the repeated socket_egress passes) is a sequence of interface events with the
   same final interface and the same timed frames, so every theorem above applies to it. *)
Theorem C16_sim_refines_events : forall evs st st' tfr,
  sim_trace st evs = Ok (st', tfr) ->
  exists nevs, nh_run (sim_if st) nevs = Ok (sim_if st', tfr).
Proof. exact sim_trace_refines. Qed.
Print Assumptions C16_sim_refines_events.

Theorem C16_sim_discovery_rate : forall ether hw cap rcap qcap kinds evs st tfr a t1 b t2 c,
  sim_trace (sim_init ether hw cap rcap qcap kinds) evs = Ok (st, tfr) ->
  req_times tfr = a ++ t1 :: b ++ t2 :: c ->
  t1 + 1000000 <= t2.
Proof. exact sim_discovery_rate. Qed.
Print Assumptions C16_sim_discovery_rate.

Theorem C16_sim_cache_bounded : forall ether hw cap rcap qcap kinds evs st tfr, 1 <= cap ->
  sim_trace (sim_init ether hw cap rcap qcap kinds) evs = Ok (st, tfr) ->
  Z.of_nat (length (c_storage (if_cache (sim_if st)))) <= cap /\
  NoDup (map fst (c_storage (if_cache (sim_if st)))).
Proof. exact sim_cache_bounded. Qed.
Print Assumptions C16_sim_cache_bounded.

(* Device back-pressure (transmit() / receive() handing out no token): the socket turn that needs
   a token ends the egress pass with the interface - neighbor cache and rate limiter - untouched,
   nothing emitted and every queue as before; received frames stay in the device.  Since the
   simulation with back-pressure is still a sequence of interface events (C16_sim_refines_events),
   "only to learned next hops" and "requests >= 1 s apart" hold for the frames actually sent. *)
Theorem C16_backpressure_keeps_everything : forall i s rest now b s1,
  bud_empty b = true -> sim_sock_wants_token i s now = Some s1 ->
  sim_socket_egress i (s :: rest) now b = Ok (i, s1 :: rest, [], false, b) /\
  sk_q s1 = sk_q s /\ sk_kind s1 = sk_kind s.
Proof. exact socket_egress_exhausted. Qed.
Print Assumptions C16_backpressure_keeps_everything.

Theorem C16_backpressure_ingress_waits : forall i rx now b, bud_empty b = true ->
  sim_ingress i rx now b = Ok (i, [], rx, b).
Proof. exact ingress_exhausted. Qed.
Print Assumptions C16_backpressure_ingress_waits.

(* Interface::set_hardware_addr keeps the neighbor cache, addresses and routes; it panics exactly
   for a non-unicast address (its documented contract). *)
Theorem C16_set_hardware_addr : forall i hw,
  (hw_is_unicast i hw = true ->
     exists i', nh_set_hardware_addr i hw = Ok i' /\ if_hw i' = hw /\ if_cache i' = if_cache i /\
                if_addrs i' = if_addrs i /\ if_routes i' = if_routes i /\ if_cap i' = if_cap i) /\
  (hw_is_unicast i hw = false -> nh_set_hardware_addr i hw = Panic).
Proof. exact set_hardware_addr_spec. Qed.
Print Assumptions C16_set_hardware_addr.

(* Non-vacuity: concrete histories in which every clause above is exercised. *)
Theorem C16_example :
  exists i,
    nh_run (nh_init true EX_OWN 2) c16_example_evs =
      Ok (i, [ (0, FArpReq ETH_BROADCAST (ip4 10 0 0 2));
               (200, FIp 0x020000000102 (V4 (ip4 10 0 0 2)) 1);
               (1000000, FArpReq ETH_BROADCAST (ip4 10 0 0 253));
               (1000200, FIp 0x0200000001fd (V4 (ip4 8 8 8 8)) 2);
               (2000000, FArpRep 0x020000000103 (ip4 10 0 0 3));
               (2000002, FArpReq ETH_BROADCAST (ip4 10 0 0 2));
               (6000000, FArpReq ETH_BROADCAST (ip4 10 0 0 254));
               (61999999, FIp 0x020000000103 (V4 (ip4 10 0 0 3)) 5);
               (62000000, FArpReq ETH_BROADCAST (ip4 10 0 0 3)) ]) /\
    nh_log (nh_init true EX_OWN 2) c16_example_evs =
      [ CFlush; CFill (V4 (ip4 10 0 0 2)) 0x020000000102 100;
        CFill (V4 (ip4 10 0 0 253)) 0x0200000001fd 1000100;
        CFill (V4 (ip4 10 0 0 3)) 0x020000000103 2000000 ] /\
    length (c_storage (if_cache i)) = 2%nat /\
    gateways_unicast i.
Proof. exact c16_example. Qed.
Print Assumptions C16_example.

Theorem C16_example_sockets :
  exists st,
    sim_run (sim_init true EX_OWN 8 2 4 [0]) c16_example_sim =
      Ok (st, [ []; []; [FArpReq ETH_BROADCAST (ip4 10 0 0 2)]; [];
                [FArpReq ETH_BROADCAST (ip4 10 0 0 2)]; [];
                [FIp 0x020000000102 (V4 (ip4 10 0 0 2)) 7]; [] ]) /\
    sim_qlens st = [0].
Proof. exact c16_example_sockets. Qed.
Print Assumptions C16_example_sockets.

(* Tie to the source: the constants regenerated from src/iface/neighbor.rs, socket_meta.rs and
   build.rs on every run are the ones the statements above spell out. *)
Theorem C16_generated_constants :
  neigh_ENTRY_LIFETIME = 60000000 /\ neigh_SILENT_TIME = 1000000 /\
  meta_DISCOVERY_SILENT_TIME = 1000000 /\ 1 <= neigh_cap /\ 1 <= route_cap.
Proof. vm_compute. repeat split; discriminate. Qed.
Print Assumptions C16_generated_constants.
