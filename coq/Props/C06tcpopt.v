(* Property C06, TcpOption as a stand-alone wire type (src/wire/tcp.rs: TcpOption::{emit, parse, buffer_len}).
   Only `exact` proofs; lemmas in Proofs/WireTcpOptProofs.v (and WireTcpEmitProofs / WireTcpParseProofs). *)
From SV Require Import Lib.Base Gen.WireFields Gen.Consts Model.WireBase Model.WireTcp.
From SV Require Import Proofs.WireBaseProofs Proofs.WireBaseProofs2 Proofs.WireTcpProofs Proofs.WireTcpEmitProofs.
From SV Require Import Proofs.WireTcpParseProofs Proofs.WireTcpOptProofs.

(* every option value within the proviso, emitted into a buffer of exactly buffer_len() octets with any
   old contents: emit does not panic, returns the empty rest, the octets are the closed form
   tcp_option_bytes (independent of the old contents), and parse returns the option with nothing left *)
Theorem C06_tcp_option_standalone_roundtrip : forall o b,
  tcp_opt_standalone_wf o -> bytes_ok b = true -> blen b = tcp_option_buffer_len o ->
  tcp_option_emit o b 0 (blen b) = Ok (tcp_option_bytes o, blen b) /\
  tcp_option_parse (tcp_option_bytes o) = Ok ([], o).
Proof. exact tcp_option_standalone_roundtrip. Qed.
Print Assumptions C06_tcp_option_standalone_roundtrip.

(* the Unknown variant on its own: any kind parse does not decode, up to 253 data octets *)
Theorem C06_tcp_option_unknown_roundtrip : forall k d b,
  tcp_opt_unknown_ok k d -> bytes_ok b = true -> blen b = 2 + blen d ->
  tcp_option_emit (OptUnknown k d) b 0 (blen b) = Ok ([k; 2 + blen d] ++ d, blen b) /\
  tcp_option_parse ([k; 2 + blen d] ++ d) = Ok ([], OptUnknown k d).
Proof. intros k d b H Hb Hl. split; [exact (tcp_opt_unknown_emit k d b H Hb Hl) | exact (tcp_opt_unknown_parse k d H)]. Qed.
Print Assumptions C06_tcp_option_unknown_roundtrip.

(* the proviso is needed: a SackRange with an empty first slot is compacted by emit *)
Theorem C06_tcp_option_sack_hole_refuted :
  exists o b bs n, tcp_option_emit o b 0 (blen b) = Ok (bs, n) /\ blen b = tcp_option_buffer_len o /\
    exists o', tcp_option_parse bs = Ok ([], o') /\ o' <> o.
Proof. exact tcp_option_sack_hole_refuted. Qed.
Print Assumptions C06_tcp_option_sack_hole_refuted.

(* non-vacuity *)
Example C06_tcp_option_witnesses :
  tcp_opt_standalone_wf (OptUnknown 254 [1; 2; 3]) /\ tcp_opt_standalone_wf (OptUnknown 8 [1; 2; 3]) /\
  tcp_opt_standalone_wf OptEnd /\ tcp_opt_standalone_wf OptNop /\
  tcp_opt_standalone_wf (OptSackRange (Some (1, 2)) (Some (3, 4)) None) /\
  tcp_option_emit (OptUnknown 254 [1; 2; 3]) [9; 9; 9; 9; 9] 0 5 = Ok ([254; 5; 1; 2; 3], 5).
Proof.
  repeat split; cbn [tcp_opt_standalone_wf tcp_opt_emittable tcp_opt_vals_ok is_u32_pair]; unfold tcp_opt_unknown_ok;
    try (vm_compute; intuition congruence); try exact I; try reflexivity.
Qed.
