(* Property C10 — every transmitted frame is well-formed, fits the MTU and has a legal source.
   This file holds the SOURCE-ADDRESS / REPLY-CONSTRUCTION / SIZE-DECISION part (L3 decision
   model); the byte-level well-formedness of the emitted headers is covered by the wire models
   of C06/C08 and, on the implementation, by the strict frame validator run on every frame of
   the `ingress` stream (checks/C10.json).  Only theorems closed by [exact] + [Print Assumptions];
   statements pinned in Pins/C10.v; vocabulary at the top of Proofs/IngressProofs.v. *)
From SV Require Import Lib.Base Gen.Consts Gen.WireFields Model.Addr Model.Ingress Proofs.IngressProofs.

(* Every reply the interface constructs (TCP RST, ICMP echo reply / port / protocol unreachable,
   ICMPv6 parameter problem) goes to the unicast source of the packet and has as IP source one of
   the interface's own unicast addresses — with any_ip the unicast address the packet was sent
   to — never a broadcast, multicast or unspecified address.  Excluded: exactly the known finding
   ipv6-loopback-source-fallback (see C10_known_loopback_fallback_refuted). *)
Theorem C10_reply_src_is_own_unicast : forall ifc socks p res r,
  wf_iface ifc ->
  ing_process ifc socks p = Ok res -> res_reply res = Some r ->
  ~ known_loopback_fallback ifc r ->
  legal_reply_source ifc p r /\ r_dst r = p_src p /\ ip_is_unicast (r_dst r) = true.
Proof. exact c10_reply_src_is_own_unicast. Qed.
Print Assumptions C10_reply_src_is_own_unicast.

Theorem C10_known_loopback_fallback_refuted :
  exists ifc socks p res r,
    wf_iface ifc /\ ing_process ifc socks p = Ok res /\ res_reply res = Some r /\
    known_loopback_fallback ifc r /\ ~ own ifc (r_src r).
Proof. exact c10_known_loopback_fallback_refuted. Qed.
Print Assumptions C10_known_loopback_fallback_refuted.

(* Neighbor discovery: a neighbor advertisement is sent only in answer to a neighbor solicitation
   with hop limit 255 addressed to the interface, on a medium that does neighbor discovery, whose
   target is a unicast address OF THE INTERFACE (any unicast address only with any_ip); the
   advertisement's IPv6 source is that target and it goes to the solicitation's source.  In
   particular nothing is answered for a target that is not an own address. *)
Theorem C10_ndisc_reply_source_own : forall ifc socks p res r,
  ing_process ifc socks p = Ok res -> res_reply res = Some r -> r_kind r = KNeighAdv ->
  exists target ll,
    p_upper p = UIcmp (INeighSol target ll 255) /\ if_medium ifc <> MIp /\
    r_src r = V6 target /\ r_dst r = p_src p /\ ip_is_unicast (r_src r) = true /\
    (if_any_ip ifc = true \/ own ifc (V6 target)) /\ addressed_to_us ifc p.
Proof. exact c10_ndisc_reply_source_own. Qed.
Print Assumptions C10_ndisc_reply_source_own.

(* Socket egress through source selection: a datagram sent by a UDP socket that is unbound or
   bound to an interface address leaves with an own unicast source (get_source_address_ipv4 /
   _ipv6 incl. the RFC 6724 candidate loop), same exclusion. *)
Theorem C10_egress_src_is_own_unicast_or_required_unspec : forall ifc s dst len r,
  wf_iface ifc -> udp_bound_ok ifc s ->
  ing_udp_send_packet ifc s dst len = Ok (Some r) ->
  ~ known_loopback_fallback ifc r ->
  own ifc (r_src r) /\ ip_is_unicast (r_src r) = true /\ r_dst r = dst /\ r_kind r = KUdp.
Proof. exact c10_egress_src_is_own_unicast_or_required_unspec. Qed.
Print Assumptions C10_egress_src_is_own_unicast_or_required_unspec.

(* ... the SYN of a connecting TCP socket (dispatch refuses to send from an address the interface
   does not have, so not even the ::1 fallback gets out) ... *)
Theorem C10_tcp_connect_src_is_own : forall ifc dst r,
  wf_iface ifc -> if_any_ip ifc = false ->
  ing_tcp_connect_packet ifc dst = Ok (Some r) ->
  own ifc (r_src r) /\ ip_is_unicast (r_src r) = true /\ r_dst r = dst.
Proof. exact c10_tcp_connect_src_is_own. Qed.
Print Assumptions C10_tcp_connect_src_is_own.

(* ... and the only unspecified source the multicast machinery may use: MLD reports carry an own
   link-local address, the unspecified address only when the interface has none (RFC 3810
   5.2.13); IGMP reports always carry an own address. *)
Theorem C10_multicast_report_src : forall ifc,
  (let s := ing_mld_report_src ifc in
   (own ifc (V6 s) /\ v6_is_link_local s = true) \/ (s = 0 /\ first_link_local (if_addrs ifc) = None)) /\
  (forall a, ing_igmp_report_src ifc = Some a -> own ifc (V4 a)).
Proof. exact c10_multicast_report_src. Qed.
Print Assumptions C10_multicast_report_src.

(* Whatever dispatch_ip hands to the device carries the packet's own source and destination, or
   is the neighbor solicitation / ARP request sent instead, whose source is selected among the
   interface addresses (the ::1 fallback again being the only other value). *)
Theorem C10_dispatch_emits_given_or_selected_src : forall ifc r l e,
  ing_dispatch_ip ifc r = Ok l -> In e l ->
  match e with
  | EmIp k src dst _ _ _ =>
      (k = r_kind r /\ src = r_src r /\ dst = r_dst r) \/
      (k = KNeighSol /\ ip_is_multicast dst = true /\ (own ifc src \/ src = V6 v6_LOCALHOST))
  | EmArpReq s _ => own ifc (V4 s)
  end.
Proof. exact c10_dispatch_emits_given_or_selected_src. Qed.
Print Assumptions C10_dispatch_emits_given_or_selected_src.

(* The size decision of dispatch_ip (Ethernet / Ip media) for every IP MTU from the IPv4 minimum
   (wire/ipv4.rs MIN_MTU, regenerated from the source) upward: what reaches the device fits the
   MTU; fragmentation only for IPv4 packets larger than the MTU that fit the fragmentation buffer
   while the fragmenter is idle, the first fragment carrying a positive multiple of
   IPV4_FRAGMENT_PAYLOAD_ALIGNMENT payload octets; a packet is dropped only when larger than the
   MTU; a packet that fits is emitted whole. *)
Theorem C10_dispatch_fits_mtu_or_fragments_or_drops : forall ifc r lldst,
  wipv4_MIN_MTU <= if_ip_mtu ifc ->
  (forall e, In e (ing_dispatch_size ifc r lldst) ->
     exists iplen frag, e = EmIp (r_kind r) (r_src r) (r_dst r) lldst iplen frag /\
       iplen <= if_ip_mtu ifc /\
       (frag = false -> iplen = r_iplen r) /\
       (frag = true -> ip_is_v4 (r_dst r) = true /\ r_iplen r > if_ip_mtu ifc /\
                       r_iplen r <= if_frag_buf ifc /\ if_frag_busy ifc = false /\
                       (iplen - wipv4_HEADER_LEN) mod phy_IPV4_FRAGMENT_PAYLOAD_ALIGNMENT = 0 /\
                       wipv4_HEADER_LEN < iplen)) /\
  (ing_dispatch_size ifc r lldst = [] -> r_iplen r > if_ip_mtu ifc) /\
  (r_iplen r <= if_ip_mtu ifc ->
     ing_dispatch_size ifc r lldst = [EmIp (r_kind r) (r_src r) (r_dst r) lldst (r_iplen r) false]).
Proof. exact c10_dispatch_fits_mtu_or_fragments_or_drops. Qed.
Print Assumptions C10_dispatch_fits_mtu_or_fragments_or_drops.

(* Error replies and resets are built within the minimum MTU of their family (IPV4_MIN_MTU 576 /
   IPV6_MIN_MTU 1280 via icmp_reply_payload_len), so on any legal MTU they are never fragmented
   or dropped. *)
Theorem C10_error_reply_within_min_mtu : forall ifc socks p res r,
  ing_process ifc socks p = Ok res -> res_reply res = Some r -> rkind_is_error (r_kind r) = true ->
  r_iplen r <= (if ip_is_v4 (r_dst r) then wipv4_MIN_MTU else wipv6_MIN_MTU).
Proof. exact c10_error_reply_within_min_mtu. Qed.
Print Assumptions C10_error_reply_within_min_mtu.

(* The whole step — filter, demultiplex, build the reply, resolve the next hop, size decision —
   never reaches an assert!/unreachable! of the modelled code (dispatch_ip's assert on the
   destination, Routes::lookup / NeighborCache::lookup asserts, get_source_address_ipv6's assert,
   lookup_hardware_addr's unreachable!() arms), for routing tables whose routers are unicast. *)
Theorem C10_ingress_and_reply_dispatch_never_panic : forall ifc socks p,
  wf_routes ifc ->
  exists res l, ing_process ifc socks p = Ok res /\ ing_ingress_emits_p ifc p res = Ok l.
Proof. exact c10_ingress_and_reply_dispatch_never_panic. Qed.
Print Assumptions C10_ingress_and_reply_dispatch_never_panic.

(* Non-vacuity: concrete dispatches (neighbor hit, ARP request, first fragment at MTU 576, drops,
   exact fit) and source selections on a well-formed interface. *)
Theorem C10_examples :
  (wf_iface ex_ifc /\ wf_routes ex_ifc) /\
  ing_dispatch_ip ex_ifc (mkReply KPortUnreach ex_own4 ex_peer4 66)
    = Ok [EmIp KPortUnreach ex_own4 ex_peer4 (HwEth 2199023255554) 66 false] /\
  ing_dispatch_ip ex_ifc (mkReply KUdp ex_own4 (V4 167772238) 100) = Ok [EmArpReq 167772161 167772238] /\
  ing_dispatch_size ex_ifc576 (mkReply KUdp ex_own4 ex_peer4 1200) HwIp = [EmIp KUdp ex_own4 ex_peer4 HwIp 572 true] /\
  ing_dispatch_size ex_ifc576 (mkReply KUdp ex_own4 ex_peer4 1600) HwIp = [] /\
  ing_dispatch_size ex_ifc576 (mkReply KUdp ex_own4 ex_peer4 576) HwIp = [EmIp KUdp ex_own4 ex_peer4 HwIp 576 false] /\
  ing_dispatch_size ex_ifc (mkReply KUdp (V6 1) ex_peer6 1600) HwIp = [] /\
  ing_udp_send_packet ex_ifc (SUdp None 5000) ex_peer4 10 = Ok (Some (mkReply KUdp ex_own4 ex_peer4 38)) /\
  ing_udp_send_packet ex_ifc (SUdp None 5000) ex_peer6 10
    = Ok (Some (mkReply KUdp (V6 338288524927261089654018896841347694593) ex_peer6 58)) /\
  ing_mld_report_src ex_ifc = 338288524927261089654018896841347694593.
Proof. exact (conj ex_ifc_wf c10_examples). Qed.
Print Assumptions C10_examples.
