(* Property C10, multicast part: every IGMP report / leave and every MLDv2 report the multicast
   host state machine (src/iface/interface/multicast.rs, model Model/Multicast.v) hands to the
   device has a legal destination, hop limit 1 and a legal source.  Only property theorems
   (closed by [exact]) and [Print Assumptions]; statements are pinned in Pins/C10mc.v.
   [own] / [ing_mld_report_src] / [ing_igmp_report_src] are the ingress development's
   (Proofs/IngressProofs.v, Model/Ingress.v): the source clause is C10_multicast_report_src applied
   to the interface [mc_iface st] - it is not re-proved here. *)
From SV Require Import Lib.Base Gen.Consts Gen.WireFields Model.Addr Model.Ingress Model.WireIgmp Model.Multicast.
From SV Require Import Proofs.IngressProofs Proofs.MulticastProofs.

(* One pass of multicast_egress, for EVERY state satisfying the invariant (initial and preserved by
   every event: C03mc), every device behaviour and every time: each emitted packet has hop limit
   1, a multicast destination - the reported group for an IGMP report, 224.0.0.2 for a leave,
   ff02::16 with a router-alert option for an MLDv2 report - and as source the interface's first
   IPv4 address (own) resp. its first link-local IPv6 address (own), the unspecified address exactly
   when it has no link-local address (what C10 allows for MLD). *)
Theorem C10mc_egress_packets_legal : forall st dev now st' dev' pkts,
  mc_inv st -> mc_multicast_egress st dev now = Ok (st', dev', pkts) ->
  Forall (fun p =>
    pk_hop p = 1 /\ ip_is_multicast (pk_dst p) = true /\
    match pk_kind p with
    | KIgmpReport _ g =>
        pk_dst p = V4 g /\ pk_ra p = false /\
        exists a, pk_src p = V4 a /\ ing_igmp_report_src (mc_iface st) = Some a /\ own (mc_iface st) (V4 a)
    | KIgmpLeave _ =>
        pk_dst p = V4 v4_MULTICAST_ALL_ROUTERS /\ pk_ra p = false /\
        exists a, pk_src p = V4 a /\ ing_igmp_report_src (mc_iface st) = Some a /\ own (mc_iface st) (V4 a)
    | KMldReport _ =>
        pk_dst p = V6 v6_LINK_LOCAL_ALL_MLDV2_ROUTERS /\ pk_ra p = true /\
        exists s, pk_src p = V6 s /\ s = ing_mld_report_src (mc_iface st) /\
          ((own (mc_iface st) (V6 s) /\ v6_is_link_local s = true) \/
           (s = 0 /\ first_link_local (mc_addrs st) = None))
    end) pkts.
Proof. exact c10mc_egress_packets_legal. Qed.
Print Assumptions C10mc_egress_packets_legal.

(* With unicast interface addresses (wf_iface of the ingress development) the source is an own
   unicast address - never broadcast, multicast - or the unspecified address of an MLD report sent
   while there is no link-local address. *)
Theorem C10mc_source_unicast_or_required_unspec : forall st p,
  Forall (fun c => ip_is_unicast (c_addr c) = true) (mc_addrs st) -> c10_pkt_legal st p ->
  (own (mc_iface st) (pk_src p) /\ ip_is_unicast (pk_src p) = true) \/
  (exists recs, pk_kind p = KMldReport recs) /\ pk_src p = V6 0 /\ first_link_local (mc_addrs st) = None.
Proof. exact c10mc_source_unicast_or_required_unspec. Qed.
Print Assumptions C10mc_source_unicast_or_required_unspec.

(* Over whole histories: for every event sequence (joins, leaves, address changes, IGMP / MLD
   queries of every kind, polls at any time with any device answers) from any state satisfying
   the invariant - in particular from Interface::new - the packets of every poll are legal with
   respect to the interface state at that poll. *)
Theorem C10mc_run_packets_legal : forall evs st,
  mc_inv st -> Forall (ev_ok (mc_medium st)) evs -> run_polls_legal st evs.
Proof. exact c10mc_run_packets_legal. Qed.
Print Assumptions C10mc_run_packets_legal.

(* non-vacuity: a concrete Ethernet history with three join reports, a general-query response and
   a leave *)
Theorem C10mc_example_run :
  Forall (ev_ok MEth) ex_events /\
  exists st obs, mc_run (mc_new MEth 1486 1) ex_events = Ok (st, obs) /\
    map (fun o => length (obs_pkts o)) obs = [0; 0; 0; 0; 3; 0; 1; 0; 0; 1]%nat /\
    mc_igmp st = IgInactive /\ length (mc_groups st) = 2%nat /\
    mc_has_multicast_group st (V4 ex_g4) = false /\ mc_has_multicast_group st (V6 ex_g6) = true /\
    nth 6 obs ONone = OPkts [general_report IgmpV2 167772161 ex_g4].
Proof. exact mc_example_run. Qed.
Print Assumptions C10mc_example_run.
