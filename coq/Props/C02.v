(* Property C02 — TCP makes progress when driven only by poll_at and arriving frames
   (and the TCP instance of the two clauses of C13).
   Only theorems closed by [exact] and [Print Assumptions]; statements pinned in Pins/C02.v.
   Level: the safety half (finite-deadline invariant) is FULL; the liveness half is PARTIAL
   (see C02_progress_* below and checks/C02.json). *)
From SV Require Import Lib.Base Gen.Consts.
From SV Require Import Model.PollAt Proofs.PollAtProofs.
From SV Require Import Model.Seq32 Model.Assembler Model.TcpBuf Model.TcpTypes Model.Tcp.
From SV Require Import Proofs.TcpSendBase Proofs.TcpLiveBase Proofs.TcpLiveProofs Proofs.TcpLiveMore.
From SV Require Import Proofs.TcpLiveProgress.

(* [tcp_live_inv] is an inductive invariant: it holds for every freshly created socket ... *)
Theorem C02_inv_initial : forall rx tx cc ts s,
  cc_ok cc -> tcp_new rx tx cc ts = Ok s -> tcp_live_inv s.
Proof. exact new_inv. Qed.
Print Assumptions C02_inv_initial.

(* ... and is preserved by EVERY event of a socket's life: each API call (listen, connect, close,
   abort, send, recv, peek, setters), the processing of any parsed segment, and a dispatch at any
   time with or without a device that accepts the frame. *)
Theorem C02_inv_step : forall cx s ev s' out tags,
  ctx_ok cx -> ev_ok ev -> tcp_live_inv s ->
  tcp_step cx s ev = Ok (s', out, tags) -> tcp_live_inv s'.
Proof. exact step_inv. Qed.
Print Assumptions C02_inv_step.

(* The deadline invariant (safety half of C02, full strength): in every reachable state, whenever
   the socket has unacknowledged outgoing data, or an unacknowledged SYN or FIN ([tcp_need]),
   poll_at is not Ingress: it is Now or a finite instant (the model never answers "no deadline";
   a panic of poll_at - MTU smaller than the headers - is not a silent stall either). *)
Theorem C02_deadline_invariant : forall cx s,
  tcp_reachable s -> tcp_need s -> tcp_poll_at cx s <> Ok Tcp.PIngress.
Proof. exact deadline_invariant. Qed.
Print Assumptions C02_deadline_invariant.

(* the same for any socket satisfying the invariant (not only those reached from tcp_new) *)
Theorem C02_deadline_from_inv : forall cx s,
  tcp_live_inv s -> tcp_need s -> tcp_poll_at cx s <> Ok Tcp.PIngress.
Proof. exact deadline_from_inv. Qed.
Print Assumptions C02_deadline_from_inv.

(* C13 clause 1 for TCP: a poll earlier than the reported deadline - at any instant when the
   socket reports "ingress only" - does not reach the emit callback and changes nothing (beyond
   the reset when the interface lost the address).  Holds for EVERY socket value. *)
Theorem C02_tcp_early_poll_silent : forall cx s emit_ok p s' res tags,
  tcp_poll_at cx s = Ok p ->
  (p = Tcp.PIngress \/ exists t, p = Tcp.PTime t /\ cx_now cx < t) ->
  tcp_dispatch cx s emit_ok = Ok (s', res, tags) ->
  emitted res = false /\ (s' = s \/ s' = tcp_reset s).
Proof. exact tcp_early_poll_silent. Qed.
Print Assumptions C02_tcp_early_poll_silent.

(* C13 clause 2 for TCP: after a dispatch that emitted nothing, the next deadline is absent or
   strictly later than that poll. *)
Theorem C02_tcp_no_spin : forall cx s emit_ok s' tags p,
  tcp_reachable s ->
  tcp_dispatch cx s emit_ok = Ok (s', DNothing, tags) ->
  tcp_poll_at cx s' = Ok p ->
  p = Tcp.PIngress \/ exists t, p = Tcp.PTime t /\ cx_now cx < t.
Proof. exact tcp_no_spin. Qed.
Print Assumptions C02_tcp_no_spin.

(* The TCP socket discharges the per-component hypotheses of the interface-level composition
   theorems C13_iface_early_poll_silent ([comp_sound]) and C13_iface_no_spin ([opt_future]). *)
Theorem C02_tcp_comp_sound : forall cx s emit_ok p s' res tags,
  0 <= cx_now cx ->
  tcp_poll_at cx s = Ok p ->
  tcp_dispatch cx s emit_ok = Ok (s', res, tags) ->
  comp_sound (cx_now cx) (pollat_instant (tcp_to_pollat p), emitted res).
Proof. exact tcp_comp_sound. Qed.
Print Assumptions C02_tcp_comp_sound.

Theorem C02_tcp_future_after_idle_dispatch : forall cx s emit_ok s' tags p,
  tcp_reachable s ->
  tcp_dispatch cx s emit_ok = Ok (s', DNothing, tags) ->
  tcp_poll_at cx s' = Ok p ->
  opt_future (cx_now cx) (pollat_instant (tcp_to_pollat p)).
Proof. exact tcp_future_after_idle_dispatch. Qed.
Print Assumptions C02_tcp_future_after_idle_dispatch.

(* Reno: on every path (any sequence of acknowledgements, duplicate acknowledgements, losses,
   retransmission timeouts, window and MSS updates with any arguments) the congestion window stays
   at least one MSS, hence positive. *)
Theorem C02_reno_window_ge_mss : forall ops r r',
  reno_ge_mss r -> Forall reno_op_ok ops ->
  reno_run r ops = Ok r' -> 0 < rn_mss r' <= rn_cwnd r'.
Proof. exact reno_window_ge_mss. Qed.
Print Assumptions C02_reno_window_ge_mss.

Theorem C02_reno_initial : reno_ge_mss reno_new.
Proof. exact reno_new_ge_mss. Qed.
Print Assumptions C02_reno_initial.

(* ... and every reachable socket has a positive congestion window (None or Reno) *)
Theorem C02_cwnd_positive : forall s,
  tcp_reachable s -> 0 < cc_window (s_congestion_controller s).
Proof. exact tcp_cwnd_positive. Qed.
Print Assumptions C02_cwnd_positive.

(* the retransmission timeout used for every timer is positive and capped by RTTE_MAX_RTO *)
Theorem C02_rto_bounds : forall s,
  tcp_reachable s ->
  0 < rtte_retransmission_timeout (s_rtte s) <= tcp_RTTE_MAX_RTO * 1000.
Proof. exact tcp_rto_bounds. Qed.
Print Assumptions C02_rto_bounds.

(* Non-vacuity: reachable states (computed with the model) with data in flight under a running
   retransmission timer, and with octets queued behind a closed window under the probe timer. *)
Theorem C02_example_data_in_flight :
  exists s0 s, ex_new = Ok s0 /\ tcp_run s0 (ex_events 1000) = Ok s /\
               tcp_reachable s /\ tcp_need s /\
               ex_view s = (Established, TRetransmit 1002000, 3, 1001, 1004, 1000) /\
               tcp_poll_at (ex_cx 2000) s = Ok (Tcp.PTime 1002000).
Proof. exact example_data_in_flight. Qed.
Print Assumptions C02_example_data_in_flight.

Theorem C02_example_zero_window :
  exists s0 s, ex_new = Ok s0 /\ tcp_run s0 (ex_events 0) = Ok s /\
               tcp_reachable s /\ tcp_need s /\
               ex_view s = (Established, TZeroWindowProbe 1000000 1000000, 3, 1001, 1001, 0) /\
               tcp_poll_at (ex_cx 2000) s = Ok (Tcp.PTime 1000000).
Proof. exact example_zero_window. Qed.
Print Assumptions C02_example_zero_window.

(* ---------------------------------------------------------------------------------------------
   Liveness half: PARTIAL.  Three bounded-progress lemmas; what is missing is their composition
   with a network that eventually delivers and a peer that behaves as the same model (a two-socket
   temporal theorem "every accepted octet is eventually delivered, every close completes"): that
   composed statement is only searched by the two-endpoint simulation oracle (checks/C02.json).
   --------------------------------------------------------------------------------------------- *)

(* (a) the wait is bounded: for every socket reachable with a non-negative, non-decreasing clock,
   if something is unacknowledged then poll_at is Now or an instant at most RTTE_MAX_RTO (60 s) after
   the time of the last event.  The bound is the generated constant: max_rto_us = RTTE_MAX_RTO * 1000. *)
Theorem C02_progress_deadline_bounded_partial : forall now cx s p,
  tcp_reachable_at now s -> tcp_need s -> tcp_poll_at cx s = Ok p ->
  p = Tcp.PNow \/ exists t, p = Tcp.PTime t /\ t <= now + tcp_RTTE_MAX_RTO * 1000.
Proof. exact deadline_bounded. Qed.
Print Assumptions C02_progress_deadline_bounded_partial.

(* (b) at the deadline the retransmission happens: retransmission timer due, device accepts the
   frame, no user timeout, remote window not closed, MTU with room for payload => the dispatch
   sends a segment that starts at SND.UNA and occupies sequence space (oldest unacknowledged octets,
   SYN or FIN) and re-arms the timer with a deadline in (now, now + RTTE_MAX_RTO]. *)
Theorem C02_progress_rto_retransmits_partial : forall cx s e s' res tags,
  tcp_live_inv s -> tcp_need s ->
  s_timer s = TRetransmit e -> e <= cx_now cx ->
  s_timeout s = None ->
  (forall t, s_tuple s = Some t -> tu_local_addr t = cx_addr cx) ->
  (0 < rb_len (s_tx_buffer s) -> s_remote_win_len s <> 0) ->
  mss_ok cx s ->
  tcp_dispatch cx s true = Ok (s', res, tags) ->
  exists ip repr,
    res = DSent (ip, repr) /\
    r_seq_number repr = s_local_seq_no s /\ 0 < repr_segment_len repr /\
    (exists e', s_timer s' = TRetransmit e' /\
                cx_now cx < e' <= cx_now cx + tcp_RTTE_MAX_RTO * 1000) /\
    s_local_seq_no s' = s_local_seq_no s /\ s_state s' = s_state s.
Proof. exact rto_retransmits. Qed.
Print Assumptions C02_progress_rto_retransmits_partial.

(* (c) an acknowledgement that is accepted (the segment runs through all seven phases of process)
   moves SND.UNA exactly to the acknowledged number, which is never behind the old SND.UNA. *)
Theorem C02_progress_snd_una_follows_ack_partial : forall cx s ip r s' reply tags a,
  ctx_ok cx -> seg_ok r -> tcp_live_inv s ->
  tcp_process cx s ip r = Ok (s', reply, tags) ->
  length tags = 7%nat -> r_ack_number r = Some a ->
  s_local_seq_no s' = a /\
  (a = s_local_seq_no s \/ seq_lt (s_local_seq_no s) a = true).
Proof. exact snd_una_follows_ack. Qed.
Print Assumptions C02_progress_snd_una_follows_ack_partial.

(* non-vacuity of (b): on the first example, a poll at the timer's deadline re-sends the three
   octets from SND.UNA = 1001 and re-arms the timer with the doubled timeout *)
Theorem C02_example_rto_step : ex_rto_step = Some (1001, 3, 3, TRetransmit 3002000, 1001).
Proof. exact example_rto_step. Qed.
Print Assumptions C02_example_rto_step.
