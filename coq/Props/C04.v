(* Property C04 - a TCP receiver accepts exactly the in-window, in-sequence bytes of any peer.
   Only the property theorems (each closed by [exact]) and [Print Assumptions]; the statements are
   pinned in Pins/C04.v.

   Setting (Proofs/TcpRecvTrace.v, TcpRecvTheorems.v).  The socket is Model/Tcp.v's record, stepped by
   [tcp_step] (every API call, `process_tcp` on a parsed segment, `dispatch`), each step with its
   own arbitrary context (time, MTU, interface address, ISN, timestamp value).  The peer of
   connection epoch e (a new epoch starts whenever the socket accepts a SYN) has the byte stream
   [S e : Z -> Z] (octet at stream offset k, offset 0 right after its SYN) and FIN position [F e].
   A ghost state is carried along: [g_irs] (sequence number of the accepted SYN), [g_consumed]
   (octets the application has read), [g_delivered] (their concatenation), [g_have] (offsets that
   arrived in some segment).  [rx_reach S F s g]: (s, g) is reached from a socket created by
   [tcp_new] (ANY receive/transmit storage, hence any capacity <= 2^30 and any window-scale shift,
   any congestion controller / timestamp setting) by ANY finite sequence of admissible events
   [ev_ok]:  a segment carries a 32-bit sequence number (any of the 2^32 values relative to the
   window), at most 65535 octets, arbitrary flags / ACK number / window / options; if its signed
   32-bit distance from RCV.NXT is below 2^30 in absolute value its payload octets at or after
   RCV.NXT are S's at the offsets its sequence number denotes, it does not reach beyond F, and a
   FIN flag means it ends at F ([seg_ok]; octets below RCV.NXT - e.g. a keep-alive probe's - and
   segments farther away may contain anything: they are shown to be trimmed or rejected);
   recv sizes are non-negative.  No other hypothesis: no bound on the number of events, on
   consumed octets (sequence numbers wrap), on interleavings.

   [ginv] is the receiver invariant I1-I6 of DESIGN.md Appendix A on the model's fields: ring cell
   i < len holds S(consumed+i); every offset tracked by the assembler holds S(consumed+len+o) in the
   unallocated area and lies below capacity - len; remote_seq_no = irs+1+consumed(+1 after the
   FIN); rx_fin_received -> consumed+len = F; last ACK sent + (last window << shift) <=
   consumed + capacity (+FIN) and RCV.NXT is at most one beyond it (the source clamps such a window
   to empty).  Four defects of src/socket/tcp.rs found while proving it (window of a SYN recorded
   unscaled; poll_at panic after a SYN received in SYN-SENT; FIN at the window edge inverting the
   window; stale window after RST -> LISTEN) were repaired in /repo (known_findings.txt); witnesses in
   corpus/C04/tcp-*.case. *)
From SV Require Import Lib.Base Gen.Consts.
From SV Require Import Model.Seq32 Model.Assembler Model.TcpBuf Model.TcpTypes Model.Tcp.
From SV Require Import Proofs.AssemblerProofs Proofs.TcpRecvBase Proofs.TcpRecvWindow Proofs.TcpRecvPayload Proofs.TcpRecvInv Proofs.TcpRecvProcess Proofs.TcpRecvStep Proofs.TcpRecvSync Proofs.TcpRecvDispatch Proofs.TcpRecvTrace Proofs.TcpRecvTheorems Proofs.TcpRecvExample.

(* I1-I6 are preserved by every event (each `process` phase, each API call, `dispatch`) ... *)
Theorem C04_step_inv : forall (S : nat -> Z -> Z) (F : nat -> option Z),
  (forall e f, F e = Some f -> 0 <= f) ->
  forall cx g s ev s' out tags,
  ginv S F g s -> ev_ok S F g s ev -> tcp_step cx s ev = Ok (s', out, tags) ->
  step_post S F g s ev (ghost_step cx g s ev s' out) s' out.
Proof. exact step_inv. Qed.
Print Assumptions C04_step_inv.

(* ... hence hold after every finite sequence of admissible events from a fresh socket. *)
Theorem C04_rx_invariant_preserved : forall (S : nat -> Z -> Z) (F : nat -> option Z),
  (forall e f, F e = Some f -> 0 <= f) ->
  forall s g, rx_reach S F s g -> ginv S F g s.
Proof. exact rx_invariant_preserved. Qed.
Print Assumptions C04_rx_invariant_preserved.

(* the same, over explicit event lists *)
Theorem C04_rx_invariant_all_sequences : forall (S : nat -> Z -> Z) (F : nat -> option Z),
  (forall e f, F e = Some f -> 0 <= f) ->
  forall rxs txs cc ts s0 evs,
  tcp_new rxs txs cc ts = Ok s0 -> admissible S F s0 g_init evs ->
  let '(s, g) := run_events s0 g_init evs (ev_ok S F) in ginv S F g s.
Proof. exact rx_invariant_all_sequences. Qed.
Print Assumptions C04_rx_invariant_all_sequences.

(* everything recv ever returned in a connection, concatenated, is S[0 .. consumed): each octet
   once, in order *)
Theorem C04_rx_delivered_prefix : forall (S : nat -> Z -> Z) (F : nat -> option Z),
  (forall e f, F e = Some f -> 0 <= f) ->
  forall s g, rx_reach S F s g -> g_irs g <> None ->
  l_len (g_delivered g) = g_consumed g /\
  forall j, 0 <= j < g_consumed g -> znth (g_delivered g) j = S (g_epoch g) j.
Proof. exact rx_delivered_prefix. Qed.
Print Assumptions C04_rx_delivered_prefix.

(* every successful recv hands out the next octets of the stream *)
Theorem C04_rx_recv_next : forall (S : nat -> Z -> Z) (F : nat -> option Z),
  (forall e f, F e = Some f -> 0 <= f) ->
  forall s g cx n s' b tags,
  rx_reach S F s g -> 0 <= n -> tcp_step cx s (EvRecv n) = Ok (s', OBytes b, tags) ->
  forall j, 0 <= j < l_len b -> znth b j = S (g_epoch g) (g_consumed g + j).
Proof. exact rx_recv_next. Qed.
Print Assumptions C04_rx_recv_next.

(* no storage cell of the ring at or beyond the right edge advertised last (last ACK number +
   (last window << shift), clamped to RCV.NXT as the source does; cells addressed through the read
   pointer before the segment) is written by any segment *)
Theorem C04_rx_never_beyond_advertised : forall (S : nat -> Z -> Z) (F : nat -> option Z),
  (forall e f, F e = Some f -> 0 <= f) ->
  forall s g cx ip r s' out tags,
  rx_reach S F s g -> ev_ok S F g s (EvSegment ip r) ->
  tcp_step cx s (EvSegment ip r) = Ok (s', out, tags) ->
  forall i, rb_len (s_rx_buffer s) + adv_width s <= i < rb_cap (s_rx_buffer s) ->
            znth (rb_store (s_rx_buffer s')) (rb_get_idx (s_rx_buffer s) i) = rb_cell (s_rx_buffer s) i.
Proof. exact rx_never_beyond_advertised. Qed.
Print Assumptions C04_rx_never_beyond_advertised.

(* every ACK number sent (replies of `process`, segments of `dispatch`; RSTs aside) is
   irs + 1 + (octets received contiguously from offset 0) + (1 iff the FIN was received after all
   of them), and every octet below it arrived in some segment *)
Theorem C04_ack_never_ahead : forall (S : nat -> Z -> Z) (F : nat -> option Z),
  (forall e f, F e = Some f -> 0 <= f) ->
  forall s g cx ev s' out tags p,
  rx_reach S F s g -> ev_ok S F g s ev -> tcp_step cx s ev = Ok (s', out, tags) ->
  emitted out = Some p ->
  ack_ok F (ghost_step cx g s ev s' out) s' p.
Proof. exact ack_never_ahead. Qed.
Print Assumptions C04_ack_never_ahead.

(* recv reports Finished (Err 2) only when every octet before the peer's FIN was delivered *)
Theorem C04_finished_only_when_complete : forall (S : nat -> Z -> Z) (F : nat -> option Z),
  (forall e f, F e = Some f -> 0 <= f) ->
  forall s g cx n s' tags,
  rx_reach S F s g -> 0 <= n -> tcp_step cx s (EvRecv n) = Ok (s', OErr 2, tags) ->
  F (g_epoch g) = Some (g_consumed g) /\ l_len (g_delivered g) = g_consumed g /\
  forall j, 0 <= j < g_consumed g -> znth (g_delivered g) j = S (g_epoch g) j.
Proof. exact finished_only_when_complete. Qed.
Print Assumptions C04_finished_only_when_complete.

(* the receive path never panics: window test / trimming (debug_assert, three SeqNumber
   subtractions, the slice), payload phase (debug_assert!(len_written == payload_len),
   enqueue_unallocated's assert), recv_slice, last_scaled_window *)
Theorem C04_process_rx_no_panic : forall (S : nat -> Z -> Z) (F : nat -> option Z),
  (forall e f, F e = Some f -> 0 <= f) ->
  forall s g cx ip r,
  rx_reach S F s g -> ev_ok S F g s (EvSegment ip r) -> tcp_accepts s ip r = true ->
  tcp_process_window cx s ip r <> Panic /\
  (forall n, tcp_recv_slice s n <> Panic) /\
  tcp_last_scaled_window s <> Panic /\
  (forall t2 s2 payload off s7,
     tcp_process_window cx s ip r = Ok (Cont t2 (s2, payload, off)) ->
     s_rx_buffer s7 = s_rx_buffer s -> s_assembler s7 = s_assembler s ->
     tcp_process_payload cx s7 ip r payload off <> Panic).
Proof. exact process_rx_no_panic. Qed.
Print Assumptions C04_process_rx_no_panic.

(* layer 1: the acceptability test over the integers, for every 32-bit sequence number *)
Theorem C04_segment_in_window_sound : forall WS W d len,
  0 <= W <= p30 -> 0 <= len <= p30 -> -2147483648 <= d < 2147483648 ->
  fst (tcp_segment_in_window (seq_norm WS) (seq_norm (WS + W)) (seq_norm (WS + d))
                             (seq_norm (WS + d + len))) = true ->
  in_window_Z W d len.
Proof. exact segment_in_window_sound. Qed.
Print Assumptions C04_segment_in_window_sound.

(* one consistent segment through `process` on a synchronised socket *)
Theorem C04_process_synced : forall (S : Z -> Z) (F : option Z) have irs c s cx ip r s' rep tags,
  rx_synced S F have irs c s -> seg_ok S F c s r ->
  tcp_process cx s ip r = Ok (s', rep, tags) ->
  reply_ok s' rep /\
  (rx_synced S F (have_seg have c s r) irs c s' \/
   (rx_unsynced s' /\ s_state s' = Listen /\ rep = None /\ c = 0 /\
    rb_len (s_rx_buffer s) = 0 /\ s_rx_fin_received s = false)) /\
  beyond_untouched s' s /\
  (s_rx_fin_received s' = true -> s_rx_fin_received s = true \/ r_control r = CFin) /\
  wsq c s <= wsq c s'.
Proof. exact process_synced. Qed.
Print Assumptions C04_process_synced.

(* non-vacuity: a reachable state with an out-of-order segment parked in the assembler *)
Theorem C04_example_reachable :
  exists g, rx_reach ex_S ex_F ex_s5 g /\ g_irs g = Some 1000 /\ g_consumed g = 0 /\ g_epoch g = 1%nat.
Proof. exact ex_reach. Qed.
Print Assumptions C04_example_reachable.

Theorem C04_example_state :
  s_assembler ex_s5 = [mkContig 4 3] /\ rb_len (s_rx_buffer ex_s5) = 0 /\
  s_remote_last_ack ex_s5 = Some 1001 /\ s_state ex_s5 = Established /\
  map (rb_cell (s_rx_buffer ex_s5)) [4; 5; 6] = [ex_S 1 4; ex_S 1 5; ex_S 1 6].
Proof. exact ex_state. Qed.
Print Assumptions C04_example_state.

(* tie to the source: the assembler capacity configured by build.rs (regenerated into
   Gen/Consts.v on every run) satisfies the side condition of the C15 theorems used here *)
Theorem C04_configured_assembler_capacity : 1 <= cfg_ASSEMBLER_MAX_SEGMENT_COUNT.
Proof. exact asm_cap_pos. Qed.
Print Assumptions C04_configured_assembler_capacity.
